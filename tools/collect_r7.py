#!/usr/bin/env python3
"""Copy round-2 mutants from MUT_ROOT (default /tmp/mut7) into /verif/seeded/r7-Cxx-mN. Copies only; deletes nothing."""
import os, shutil, sys
root = os.environ.get("MUT_ROOT", "/tmp/mut7")
dst = "/verif/seeded"
n = 0
for c in sorted(os.listdir(root)):
    md = os.path.join(root, c, "MUTANTS")
    if not os.path.isdir(md):
        continue
    for m in sorted(os.listdir(md)):
        src = os.path.join(md, m)
        if not os.path.exists(os.path.join(src, "patch.diff")) or not os.path.exists(os.path.join(src, "demo_test.go")):
            continue
        d = os.path.join(dst, "r7-%s-%s" % (c, m))
        os.makedirs(d, exist_ok=True)
        for f in ("patch.diff", "demo_test.go", "README.md"):
            if os.path.exists(os.path.join(src, f)):
                shutil.copy(os.path.join(src, f), os.path.join(d, f))
        n += 1
        print("copied", d)
print(n, "mutants")
