#!/usr/bin/env python3
"""Writes /verif/corpus/all/*.json: the lock-step cases that run first in every lock-step job.

Two kinds of case:
  * the minimal input of every defect of /repo that was repaired (known_findings.json, "fixed:")
    and that a lock-step case can express -- a regression corpus: should one of them return, the
    first cases of the run show it, whatever the seed;
  * one trigger for every open known finding of the lock-step properties, so that the
    KNOWN-FINDING lines of a run do not depend on what the generator happens to produce.

The file is a plain table; run it after editing (the output is committed)."""
import json, os, sys

ROOT = os.path.dirname(os.path.dirname(os.path.abspath(__file__)))
OUT = os.path.join(ROOT, "corpus", "all")
E = "\x1b"


def b(s):
    return s.encode("utf-8") if isinstance(s, str) else s


def IN(s, cls="corpus"):
    return {"kind": "in", "hex": b(s).hex(), "class": cls}


def RS(w, h, fail=False):
    d = {"kind": "resize", "w": w, "h": h}
    if fail:
        d["fail"] = True
    return d


# name, mode (0 rune, 1 grapheme), w, h, chunk (0 whole, 1 per item, 2 bytewise), items, both buffers?
T = [
    ("scroll-overshoot", 0, 20, 14, 0, [IN(E + "[100B" + E + "[100S" + E + "[100T" + E + "[100L" + E + "[100M" + "x")], True),
    ("param-overflow", 0, 10, 5, 0, [IN(E + "[99999999999999999999B" + E + "[18446744073709551617C" + "x")], True),
    ("resize-cursor", 0, 12, 4, 1, [IN(E + "[3;10H"), RS(5, 2), IN("x")], True),
    ("save-shrink-restore", 0, 12, 12, 1, [IN(E + "[10;10H" + E + "[s"), RS(5, 5), IN(E + "[u" + "x")], True),
    ("margins-shrink", 0, 10, 12, 1, [IN(E + "[8;11r"), RS(10, 5), IN("\n\n\n\n\n\nx")], True),
    ("inverted-stbm", 0, 10, 12, 0, [IN(E + "[10;5r" + "\n" * 14 + "x")], True),
    ("inverted-stbm-beyond", 0, 10, 5, 0, [IN("a\r\nb\r\nc\r\nd\r\ne" + E + "[30;20r" + E + "[1;1H" + E + "M" + "x")], True),
    ("outside-region-write", 0, 10, 6, 0, [IN(E + "[2;3r" + E + "[1;1H" + "x" + E + "[6;1H" + "\r" + "y\n\n")], True),
    ("outside-region-il", 0, 10, 6, 0, [IN("a\r\nb\r\nc\r\nd\r\ne" + E + "[2;3r" + E + "[5;1H" + E + "[2L" + E + "[1M")], True),
    ("cud-no-scroll", 0, 10, 4, 0, [IN("a\r\nb\r\nc\r\nd" + E + "[5B" + "x")], True),
    ("wide-split-at-start", 0, 12, 3, 0, [IN("ab\U0001F439cd" + E + "[1;3H" + "X")], True),
    ("wide-second-half", 0, 12, 3, 0, [IN("ab\U0001F439cd" + E + "[1;4H" + "X")], True),
    ("nowrap-long-run", 0, 10, 3, 0, [IN(E + "[?7l" + "abcdefghijklmnopqrstuvwxyz" + E + "[?7h" + "!")], True),
    ("invalid-utf8", 0, 10, 3, 0, [IN(b("é") + b"\xe2\x82\r" + b(E + "[2C" + "X"))], True),
    ("el1-through-cursor", 0, 10, 3, 0, [IN("abcdef" + E + "[1;3H" + E + "[44m" + E + "[1K")], True),
    ("ed1-tall-narrow", 0, 4, 10, 0, [IN("ab\r\n" * 9 + "cd" + E + "[9;2H" + E + "[1J" + E + "[10;1H" + E + "[0J")], True),
    ("bold-over-same-colour", 0, 10, 3, 0, [IN("abcdef\r" + E + "[1m" + "XY" + E + "[0;30m" + "Z" + E + "[38;2;0;0;0m" + "W")], True),
    ("sgr-nine-params", 0, 10, 3, 0, [IN(E + "[1;1;1;1;1;1;1;1;9m" + "x")], True),
    ("sgr-param-cap", 0, 10, 3, 0, [IN(E + "[" + ";".join(["0"] * 33) + ";4m" + "x")], True),
    ("leak-intermediates", 0, 20, 4, 0, [IN("a" + E + "[1 q" + "b" + E + "[1:2m" + "c" + E + "[!p" + "d" + E + "#8" + "e" + E + " F" + "f")], True),
    ("leak-osc", 0, 20, 4, 0, [IN(E + "]abc\x07" + "x" + E + "]0;" + "\u009c" + "t\x07" + "y" + E + "P1$r" + E + "\\" + "z")], True),
    ("da-no-param", 0, 10, 3, 0, [IN(E + "[c" + E + "[0c" + E + "[5n" + E + "[6n")], True),
    ("alt-1049-twice", 0, 10, 3, 0, [IN("m" + E + "[?1049h" + E + "[?1049h" + "x" + E + "[?1049l" + E + "[?1049l" + "y")], True),
    ("too-wide-char", 0, 1, 2, 0, [IN("\U0001F439" + "a")], True),
    ("grid-half-wide", 0, 8, 3, 0, [IN("\U0001F439\U0001F439" + E + "[1;2H" + "x" + E + "[1;3H" + E + "[1P" + E + "[1;4H" + E + "[1X")], True),
    ("switch-reports", 0, 10, 6, 0, [IN(E + "[5;5H" + E + "[1;31m" + E + "[?1049h" + "x" + E + "[?1049l" + "y")], True),
    ("scroll-lines", 0, 6, 3, 0, [IN("a\nb\nc\nd\n" + E + "[2;3r" + "\n\n" + E + "[r" + E + "[3;1H" + "\n" + E + "[?1049h" + "\n\n\n\n")], True),
    ("wide-blanked-neighbour", 0, 10, 3, 0, [IN("\U0001F439\U0001F439z" + E + "[1;2H" + "x" + E + "[1;4H" + E + "[1@")], True),
    ("relative-zero", 0, 12, 8, 0, [IN(E + "[5;5H" + E + "[0A" + E + "[;B" + E + "[0C" + E + "[;0D" + "x")], True),
    ("kbd-pop-zero", 0, 6, 2, 0, [IN(E + "[>1u" + E + "[>5u" + E + "[<0u" + E + "[?u" + E + "[<u" + E + "[?u" + E + "[<9u" + E + "[?u")], True),
    ("kbd-stack-overflow", 0, 6, 2, 0, [IN("".join(E + "[>%du" % (i % 32) for i in range(40)) + E + "[<39u" + E + "[?u")], True),
    ("resize-twice-dch", 0, 10, 12, 1, [IN("\r\nabcdefgh"), RS(12, 12), RS(15, 12), IN(E + "[44m" + E + "[2;3H" + E + "[3P")], True),
    ("resize-fail", 0, 10, 4, 1, [IN("abc"), RS(6, 3, True), IN("def" + E + "[6n")], True),
    ("tab-stops", 0, 20, 3, 0, [IN("\t" + "a" + E + "H" + "\r\t\tb" + E + "[3g" + "\r\tc" + E + "[2I" + E + "[Z")], True),
    ("decsc-alt", 0, 10, 5, 0, [IN(E + "[3;4H" + E + "[1m" + E + "7" + E + "[?1049h" + E + "[2;2H" + E + "8" + "x" + E + "[?1049l" + E + "8" + "y")], True),
    ("ich-dch-wide-edge", 0, 6, 3, 0, [IN("ab\U0001F439\U0001F439" + E + "[1;1H" + E + "[1@" + E + "[1;4H" + E + "[1P" + E + "[2X")], True),
    # grapheme mode (span buffer only: the grid buffer cannot be selected in grapheme mode through the API)
    ("merge-prev-cell", 1, 10, 3, 1, [IN("xe"), IN("́"), IN("\U0001F439"), IN("́y")], False),
    ("flag-after-flag", 1, 12, 3, 1, [IN("\U0001F1E9\U0001F1EA"), IN("\U0001F1EB\U0001F1F7"), IN("\U0001F1E9"), IN("\U0001F1EA!")], False),
    ("indicator-control-indicator", 1, 12, 4, 0, [IN("\U0001F1E9\r\n\U0001F1EA" + "a" + "‍" + E + "[1C" + "b")], False),
    ("stale-uniseg-state", 1, 12, 3, 1, [IN("\U0001F468‍"), IN(E + "[1;1H"), IN("ab")], False),
    ("alt-mark-overwrite", 0, 10, 2, 0, [IN(E + "[?1049h" + "e\u0301x" + E + "[2G" + "Y" + E + "[6n" + E + "[1;1H" + "\u2764\ufe0fab" + E + "[3G" + E + "[X")], True),
    # fix 8955491: U+2E3A is three bytes and three cells wide (the byte-per-cell shortcuts patched its bytes);
    # characters of 3 and 4 cells kept, cut by writes, erases, deletes and resizes
    ("three-cell-char-overwrite", 0, 10, 2, 0, [IN("\u2e3a" + E + "[1;2Hx" + E + "[1;1H" + "\u2e3a\u2e3a\u2e3a" + E + "[1;3Hx" + E + "[1;1H" + E + "[4P")], True),
    ("four-cell-char-keep", 0, 10, 1, 1, [IN(E + "[1;10H" + "\ud55c"), IN(E + "[1;11H" + "\U0001f389\u2e3b"), IN(E + "[1;9Hc")], True),
    ("wide3-cut-by-erase-and-resize", 0, 9, 2, 1, [IN("ab\u2e3acd\u2e3b"), IN(E + "[1;4H" + E + "[2X"), IN(E + "[1;8H" + E + "[1K"), RS(8, 2), RS(12, 2), IN(E + "[1;1H" + E + "[3P")], True),
    ("del-between-indicators", 1, 10, 3, 0, [IN("xy\U0001F1FA\x7f\x7f\U0001F1F8" + "a\u200d\x7f" + "b")], False),
    ("mode-combos", 0, 6, 3, 0, [IN(E + "[3;3H" + E + "[?1049;7h" + "abcdefgh" + E + "[6n" + E + "[?1049;1049l" + E + "[6n" + E + "[?25;1049;1049h" + "x" + E + "[?7;1049l" + "ijklmnop")], True),
    ("osc-4096", 0, 10, 3, 0, [IN("a" + E + "]0;" + "t" * 4096 + E + "\\" + "b" + E + "]2;" + "u" * 4097 + "\x07" + "c" + E + "P" + "q" * 4095 + E + "\\" + "d")], False),
    ("su-empty-first-param", 0, 4, 3, 0, [IN("a\r\nb\r\nc" + E + "[;2S" + E + "[;S" + E + "[0S" + E + "[S" + E + "[;2T" + E + "[;2M" + E + "[;L")], True),
    ("kf-merge-changes-width", 1, 12, 3, 1, [IN("❤"), IN("️"), IN("x")], False),
    ("kf-merge-narrows", 1, 12, 3, 1, [IN("\U0001F600"), IN("︎"), IN("x")], False),
    ("kf-zwj-force-merge", 1, 12, 3, 1, [IN("a"), IN("‍"), IN("bc")], False),
    ("kf-zero-width-format-char", 1, 12, 3, 1, [IN("a­b"), IN("­"), IN("c")], False),
    ("kf-keep-wide-run", 0, 12, 3, 0, [IN("\U0001F439\U0001F439" + E + "[1;2H" + "xy")], False),
    ("kf-autowrap-not-reported", 0, 6, 3, 0, [IN(E + "[?7h" + "abcdefgh" + E + "[?7l" + "ijklmnop" + E + "[?1049h" + E + "[?7h" + E + "[?1049l" + "q")], True),
    ("kf-keep-wide-run-edge", 0, 4, 3, 0, [IN("ab\U0001F439" + E + "[1;4H" + "x")], False),
]


def main():
    os.makedirs(OUT, exist_ok=True)
    for f in os.listdir(OUT):
        if f.endswith(".json"):
            os.remove(os.path.join(OUT, f))
    n = 0
    for i, (name, mode, w, h, chunk, items, both) in enumerate(T):
        for grid in ([False, True] if both else [False]):
            c = {"mode": mode, "grid": grid, "w": w, "h": h, "chunk": chunk, "items": items}
            fn = "%02d-%s%s.json" % (i, name, "-grid" if grid else "")
            json.dump(c, open(os.path.join(OUT, fn), "w"), indent=0)
            n += 1
            if chunk == 0 and not grid:
                # the same input byte by byte: sequences cut at every position
                c2 = dict(c, chunk=2)
                json.dump(c2, open(os.path.join(OUT, "%02d-%s-bytewise.json" % (i, name)), "w"), indent=0)
                n += 1
    print("wrote %d cases to %s" % (n, OUT))


if __name__ == "__main__":
    main()
