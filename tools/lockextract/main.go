// lockextract regenerates the lock-protocol programs (TM.Lock.Prog) of the terminal's entry
// points from the Go source and emits a Lean file whose theorem `gen_welllocked` is proved by
// `decide`. See README.md for the translation rules and the trusted assumptions.
//
//	lockextract -repo <dir> -out <file.lean> [-report <file.json>]
//
// exit status: 0 all entry points well locked, 1 some entry point is not, 2 translator error.
package main

import (
	"encoding/json"
	"flag"
	"fmt"
	"os"
	"sort"
	"strings"
)

type entry struct {
	Name       string   `json:"name"`       // Lean name
	Func       string   `json:"func"`       // Go function
	Pos        string   `json:"pos"`        // file:line
	Held       bool     `json:"startsHeld"` // accessor documented "caller must hold the lock"
	WellLocked bool     `json:"wellLocked"`
	Failure    *failure `json:"failure,omitempty"`
	Lean       string   `json:"prog"`
	prog       *Prog
}

type report struct {
	Repo          string   `json:"repo"`
	TerminalType  string   `json:"terminalType"`
	SharedFields  []string `json:"sharedFields"`
	ImmutableFlds []string `json:"immutableFields"`
	GRBlocking    []string `json:"graphemeReaderBlockingMethods"`
	Entries       []*entry `json:"entryPoints"`
	Accessors     []*entry `json:"lockedAccessors"`
	Warnings      []string `json:"warnings"`
	AllWellLocked bool     `json:"allWellLocked"`
}

func main() {
	repo := flag.String("repo", "", "directory of the Go package")
	out := flag.String("out", "", "Lean file to write")
	rep := flag.String("report", "", "JSON report to write (optional)")
	raw := flag.Bool("raw", false, "do not summarise the steps made while the lock is held (bigger programs)")
	flag.Parse()
	if *repo == "" || *out == "" {
		fmt.Fprintln(os.Stderr, "usage: lockextract -repo <dir> -out <file.lean> [-report <file.json>]")
		os.Exit(2)
	}
	r, err := run(*repo, *raw)
	if err != nil {
		fmt.Fprintln(os.Stderr, "lockextract: translator error:", err)
		os.Exit(2)
	}
	if err := os.WriteFile(*out, []byte(leanFile(r)), 0o644); err != nil {
		fmt.Fprintln(os.Stderr, "lockextract:", err)
		os.Exit(2)
	}
	if *rep != "" {
		b, _ := json.MarshalIndent(r, "", "  ")
		if err := os.WriteFile(*rep, append(b, '\n'), 0o644); err != nil {
			fmt.Fprintln(os.Stderr, "lockextract:", err)
			os.Exit(2)
		}
	}
	for _, e := range append(append([]*entry{}, r.Entries...), r.Accessors...) {
		if e.WellLocked {
			fmt.Printf("ok    %-16s %s (%s)\n", e.Name, e.Func, e.Pos)
		} else {
			f := e.Failure
			fmt.Printf("FAIL  %-16s %s (%s): %s at %s [%s %s, %s]\n", e.Name, e.Func, e.Pos, f.Reason, f.Pos, f.Atom, f.Note, heldStr(f.Held))
			if f.Via != "" {
				fmt.Printf("      reached through: %s\n", f.Via)
			}
		}
	}
	for _, w := range r.Warnings {
		fmt.Println("warning:", w)
	}
	if !r.AllWellLocked {
		os.Exit(1)
	}
}

func run(repo string, raw bool) (r *report, err error) {
	defer func() {
		if x := recover(); x != nil {
			te, ok := x.(trError)
			if !ok {
				panic(x)
			}
			err = fmt.Errorf("%s", te.msg)
		}
	}()
	p, err := loadPkg(repo)
	if err != nil {
		return nil, err
	}
	t := newTr(p)
	r = &report{Repo: repo, TerminalType: p.term, AllWellLocked: true}
	for f := range p.structs[p.term] {
		if p.mutable[f] {
			r.SharedFields = append(r.SharedFields, f)
		} else {
			r.ImmutableFlds = append(r.ImmutableFlds, f)
		}
	}
	for m := range t.grBlocks {
		r.GRBlocking = append(r.GRBlocking, m)
	}
	sort.Strings(r.SharedFields)
	sort.Strings(r.ImmutableFlds)
	sort.Strings(r.GRBlocking)

	term := &aval{typ: p.term}
	// the user closure of the "read accessors under WithLock" entry point only reads state
	reader := &aval{synth: mkStar("user closure", atom(aAccess, "user closure", "read accessor"))}
	specs := []struct {
		lean, fn string
		required bool
		args     []*aval
	}{
		{"ptyReadLoop", p.term + ".ptyReadLoop", true, nil},
		{"resize", p.term + ".Resize", true, nil},
		{"setFrontend", p.term + ".SetFrontend", true, nil},
		{"sendKey", p.term + ".SendKey", true, nil},
		{"sendMouseRaw", p.term + ".SendMouseRaw", true, nil},
		{"sendMouse", p.term + ".SendMouse", false, nil},
		{"write", p.term + ".Write", true, nil},
		{"withLockReader", p.term + ".WithLock", true, []*aval{reader}},
		{"setTee", "TeeBackend.SetTee", false, nil},
	}
	translate := func(lean, fn string, args []*aval, held bool) *entry {
		fi := p.funcs[fn]
		if fi == nil {
			return nil
		}
		var recv *aval
		if fi.recv == p.term {
			recv = term
		}
		prog, _ := t.inline(fi, recv, args, fi.decl)
		if hasRec(prog) {
			t.fail(fi.decl, "unresolved recursion in %s", fn)
		}
		if !raw {
			prog = relax(prog, held)
		}
		e := &entry{Name: lean, Func: fn, Pos: p.pos(fi.decl), Held: held, prog: prog, Lean: prog.lean("  ")}
		h, ok := check(prog, held, &e.Failure)
		if ok && h != held {
			pos := "end of " + fn
			if held {
				e.Failure = &failure{Pos: pos, Atom: "return", Held: h, Reason: "returns without the lock although the caller holds it"}
			} else {
				e.Failure = &failure{Pos: pos, Atom: "return", Held: h, Reason: "returns holding the lock"}
			}
		}
		e.WellLocked = e.Failure == nil
		r.AllWellLocked = r.AllWellLocked && e.WellLocked
		return e
	}
	for _, s := range specs {
		e := translate(s.lean, s.fn, s.args, false)
		if e == nil {
			if s.required {
				return nil, fmt.Errorf("entry point %s not found in %s", s.fn, repo)
			}
			continue
		}
		r.Entries = append(r.Entries, e)
	}
	// accessors documented "the caller must hold the lock": start and end with the lock held
	for _, m := range []string{"Size", "Line", "ANSILine", "StyledLine", "StyledLines", "GetViewFlag", "GetViewInt", "GetViewString"} {
		if e := translate("acc"+m, p.term+"."+m, nil, true); e != nil {
			r.Accessors = append(r.Accessors, e)
		}
	}
	// goroutines started by the functions above run as threads of their own, without the lock
	seenSpawn := map[string]bool{}
	for i := 0; i < len(t.spawned); i++ {
		sp := t.spawned[i]
		if seenSpawn[sp.pos] || sp.prog == nil {
			continue
		}
		seenSpawn[sp.pos] = true
		prog := sp.prog
		if !raw {
			prog = relax(prog, false)
		}
		name := "go_" + strings.NewReplacer(".go:", "_", ".", "_", ":", "_").Replace(sp.pos)
		e := &entry{Name: name, Func: "go " + sp.what, Pos: sp.pos, prog: prog, Lean: prog.lean("  ")}
		if h, ok := check(prog, false, &e.Failure); ok && h {
			e.Failure = &failure{Pos: "end of goroutine", Atom: "return", Held: h, Reason: "returns holding the lock"}
		}
		e.WellLocked = e.Failure == nil
		r.AllWellLocked = r.AllWellLocked && e.WellLocked
		r.Entries = append(r.Entries, e)
	}
	r.Warnings = t.warns
	if r.Warnings == nil {
		r.Warnings = []string{}
	}
	return r, nil
}

func leanFile(r *report) string {
	var b strings.Builder
	w := func(f string, a ...any) { fmt.Fprintf(&b, f, a...) }
	w("import TM.Lock\nimport Props.C15\n")
	w("/-!\n# GENERATED by /verif/tools/lockextract from the Go source in %s — do not edit.\n\n", r.Repo)
	w("One `Prog` per API entry point of the terminal, obtained by abstracting the Go function bodies\n(calls inlined; rules and assumptions: tools/lockextract/README.md).\n")
	w("terminal type: `%s`; shared (mutable) fields: %s; immutable after construction: %s\n", r.TerminalType,
		strings.Join(r.SharedFields, ", "), strings.Join(r.ImmutableFlds, ", "))
	for _, x := range r.Warnings {
		w("warning: %s\n", x)
	}
	w("-/\nnamespace TM.Lock.Gen\nopen Act Prog\n\n")
	list := func(es []*entry) string {
		var items []string
		for _, e := range es {
			items = append(items, fmt.Sprintf("(\"%s\", «%s»)", e.Name, e.Name))
		}
		return "[" + strings.Join(items, ",\n   ") + "]"
	}
	for _, e := range append(append([]*entry{}, r.Entries...), r.Accessors...) {
		status := "well locked"
		if !e.WellLocked {
			f := e.Failure
			status = fmt.Sprintf("NOT well locked: %s at %s (%s %s)", f.Reason, f.Pos, f.Atom, f.Note)
		}
		w("/-- Go: `%s` (%s) — %s -/\ndef «%s» : Prog :=\n  %s\n\n", e.Func, e.Pos, status, e.Name, e.Lean)
	}
	w("def entryPoints : List (String × Prog) :=\n  %s\n\n", list(r.Entries))
	w("/-- every regenerated entry-point program passes the lock check -/\n")
	w("theorem gen_welllocked : ∀ e ∈ entryPoints, wellLocked e.2 = true := by decide\n\n")
	if len(r.Accessors) > 0 {
		w("/-- accessors documented \"the caller must hold the lock\": start and end with the lock held -/\n")
		w("def lockedAccessors : List (String × Prog) :=\n  %s\n\n", list(r.Accessors))
		w("theorem gen_accessors_held : ∀ e ∈ lockedAccessors, wellLockedHeld e.2 = true := by decide\n\n")
	}
	w(`/-- every interleaving of threads, each running (a finite unfolding of) one of these programs,
    is safe (instance of TM.Lock.wellLocked_system_safe) -/
theorem gen_entry_points_safe (s0 : Sys) (hh : s0.holder = none)
    (ht : ∀ t ∈ s0.threads, ∃ p ∈ entryPoints.map (·.2), ∃ n, t.todo ∈ traces n p)
    (sched : List Nat) : Safe (runSched s0 sched) :=
  wellLocked_system_safe (entryPoints.map (·.2))
    (by
      intro p hp
      obtain ⟨e, he, rfl⟩ := List.mem_map.mp hp
      exact gen_welllocked e he)
    s0 hh ht sched

end TM.Lock.Gen

#print axioms TM.Lock.Gen.gen_welllocked
#print axioms TM.Lock.Gen.gen_entry_points_safe
`)
	return b.String()
}
