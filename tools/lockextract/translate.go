package main

// The translator proper: Go function bodies -> Prog, with calls inlined and a light, purely
// syntactic abstract value (`aval`) per expression for name/type based resolution.

import (
	"fmt"
	"go/ast"
	"go/token"
	"go/types" // only for types.ExprString (no type checking is done)
	"sort"
	"strings"
)

// aval: what is known about the value of an expression
type aval struct {
	typ    string           // named type, pointers stripped ("terminal", "screen", "bufio.Reader", "[]", "map", "func", ...)
	elem   *aval            // element of slice / array / map / chan
	fields map[string]*aval // fields known from a composite literal
	shared bool             // aliases mutable state of the terminal struct
	ofTerm bool             // a mutex that is a field of the terminal (= the terminal lock)
	lit    *ast.FuncLit     // closure ...
	env    *env             // ... and its captured environment
	fn     *funcInfo        // method / function value
	recv   *aval
	synth  *Prog // synthetic closure (the user closure passed to WithLock)
}

type fctx struct {
	file string
	rets []*aval
}

type env struct {
	vars   map[string]*aval
	parent *env
	fc     *fctx
}

func (e *env) child() *env { return &env{vars: map[string]*aval{}, parent: e, fc: e.fc} }
func (e *env) find(n string) *env {
	for s := e; s != nil; s = s.parent {
		if _, ok := s.vars[n]; ok {
			return s
		}
	}
	return nil
}
func (e *env) lookup(n string) *aval {
	if s := e.find(n); s != nil {
		return s.vars[n]
	}
	return nil
}

type tr struct {
	p        *pkgInfo
	active   map[string]bool
	usedRec  map[string]bool
	depth    int
	spawned  []spawned // bodies of `go` statements met on the way: threads of their own
	stack    []string  // call sites of the functions being inlined (for the diagnostics)
	guards   []string  // readers known to have a buffered byte (see bufferedGuard)
	warns    []string
	grBlocks map[string]bool // GraphemeReader methods that can reach the underlying Read
}

type spawned struct {
	pos, what string
	prog      *Prog
}

type trError struct{ msg string }

func (t *tr) fail(n ast.Node, f string, a ...any) {
	pos := ""
	if n != nil {
		pos = t.p.pos(n) + ": "
	}
	panic(trError{pos + fmt.Sprintf(f, a...)})
}

// atom: an atom that remembers through which calls it was reached
func (t *tr) atom(a Act, pos, note string) *Prog {
	p := atom(a, pos, note)
	p.via = strings.Join(t.stack, " > ")
	return p
}

func (t *tr) warn(n ast.Node, f string, a ...any) {
	w := t.p.pos(n) + ": " + fmt.Sprintf(f, a...)
	for _, x := range t.warns {
		if x == w {
			return
		}
	}
	t.warns = append(t.warns, w)
}

var blockingNames = map[string]bool{"Read": true, "ReadByte": true, "ReadRune": true, "ReadPrintableBytes": true,
	"ReadPrintableTokens": true, "ReadPrintableTokensInto": true, "ReadString": true, "ReadBytes": true,
	"ReadLine": true, "ReadSlice": true, "Peek": true, "Discard": true, "ReadFrom": true, "WriteTo": true, "fill": true}

var readerTypes = map[string]bool{"GraphemeReader": true, "bufio.Reader": true, "bufio.ReadWriter": true, "io.Reader": true,
	"io.ByteReader": true, "io.RuneReader": true, "io.ByteScanner": true, "io.RuneScanner": true, "io.ReadWriter": true,
	"io.ReadCloser": true, "io.ReadWriteCloser": true}

var basicTypes = map[string]bool{"bool": true, "string": true, "int": true, "int8": true, "int16": true, "int32": true,
	"int64": true, "uint": true, "uint8": true, "uint16": true, "uint32": true, "uint64": true, "uintptr": true, "byte": true,
	"rune": true, "float32": true, "float64": true, "complex64": true, "complex128": true, "error": true, "any": true}

var builtins = map[string]bool{"len": true, "cap": true, "append": true, "copy": true, "make": true, "new": true, "delete": true,
	"panic": true, "print": true, "println": true, "close": true, "min": true, "max": true, "clear": true, "recover": true,
	"complex": true, "real": true, "imag": true}

var extResult = map[string]string{"bufio.NewReader": "bufio.Reader", "bufio.NewReaderSize": "bufio.Reader",
	"bytes.NewReader": "bytes.Reader", "bytes.NewBuffer": "bytes.Buffer", "bytes.NewBufferString": "bytes.Buffer",
	"strings.NewReader": "strings.Reader"}

func newTr(p *pkgInfo) *tr {
	t := &tr{p: p, active: map[string]bool{}, usedRec: map[string]bool{}, grBlocks: map[string]bool{}}
	// which GraphemeReader methods can reach the underlying reader: fixpoint over "calls a
	// method with a blocking name or another blocking method of its own"
	for changed := true; changed; {
		changed = false
		for _, fi := range p.funcs {
			if fi.recv != "GraphemeReader" || t.grBlocks[fi.decl.Name.Name] {
				continue
			}
			ast.Inspect(fi.decl.Body, func(n ast.Node) bool {
				if c, ok := n.(*ast.CallExpr); ok {
					if s, ok := c.Fun.(*ast.SelectorExpr); ok && (blockingNames[s.Sel.Name] || t.grBlocks[s.Sel.Name]) {
						t.grBlocks[fi.decl.Name.Name], changed = true, true
					}
				}
				return true
			})
		}
	}
	return t
}

// ---- abstract values ----

func (t *tr) fromType(e ast.Expr) *aval {
	switch x := e.(type) {
	case nil:
		return nil
	case *ast.Ident:
		if basicTypes[x.Name] {
			return nil
		}
		return &aval{typ: x.Name}
	case *ast.StarExpr:
		return t.fromType(x.X)
	case *ast.ParenExpr:
		return t.fromType(x.X)
	case *ast.ArrayType:
		return &aval{typ: "[]", elem: t.fromType(x.Elt)}
	case *ast.Ellipsis:
		return &aval{typ: "[]", elem: t.fromType(x.Elt)}
	case *ast.MapType:
		return &aval{typ: "map", elem: t.fromType(x.Value)}
	case *ast.ChanType:
		return &aval{typ: "chan", elem: t.fromType(x.Value)}
	case *ast.SelectorExpr:
		return &aval{typ: baseType(x)}
	case *ast.FuncType:
		return &aval{typ: "func"}
	case *ast.IndexExpr:
		return t.fromType(x.X)
	}
	return &aval{typ: "anon"}
}

func (t *tr) isTerm(v *aval) bool     { return v != nil && (v.typ == t.p.term || v.typ == "Terminal") }
func (t *tr) isFrontend(v *aval) bool { return v != nil && v.typ == "Frontend" }
func (t *tr) isScreen(v *aval) bool {
	return v != nil && (v.typ == "screen" || t.p.implements(v.typ, "screen"))
}
func (t *tr) isBackend(v *aval) bool {
	if v == nil {
		return false
	}
	return v.typ == "Backend" || (t.p.implements(v.typ, "Backend") && t.p.funcs[v.typ+".Read"] != nil && t.p.funcs[v.typ+".Write"] != nil)
}
func isMutex(v *aval) bool { return v != nil && (v.typ == "sync.Mutex" || v.typ == "sync.RWMutex") }
func isClosure(v *aval) bool {
	return v != nil && (v.lit != nil || v.synth != nil || v.fn != nil)
}
func (t *tr) sensitive(v *aval) bool {
	return v != nil && (v.shared || v.ofTerm || isClosure(v) || t.isTerm(v) || t.isFrontend(v) || t.isScreen(v) ||
		t.isBackend(v) || readerTypes[v.typ])
}

// join: the value of a variable after an assignment (sticky for sensitive values)
func (t *tr) join(old, nw *aval) *aval {
	if nw == nil || (t.sensitive(old) && !t.sensitive(nw)) {
		if old != nil {
			return old
		}
	}
	return nw
}

func (t *tr) akey(v *aval) string {
	if v == nil {
		return "_"
	}
	if isClosure(v) {
		return "closure"
	}
	s := v.typ
	if v.shared {
		s += "!"
	}
	if v.ofTerm {
		s += "^"
	}
	if v.elem != nil {
		s += "<" + t.akey(v.elem) + ">"
	}
	if len(v.fields) > 0 {
		var ks []string
		for k := range v.fields {
			ks = append(ks, k)
		}
		sort.Strings(ks)
		for _, k := range ks {
			s += "{" + k + ":" + t.akey(v.fields[k]) + "}"
		}
	}
	return s
}

func unparen(e ast.Expr) ast.Expr {
	for {
		p, ok := e.(*ast.ParenExpr)
		if !ok {
			return e
		}
		e = p.X
	}
}

// importOf: x is the name of an imported package (and not a local variable)
func (t *tr) importOf(x ast.Expr, e *env) string {
	if id, ok := x.(*ast.Ident); ok && e.find(id.Name) == nil && t.p.vars[id.Name] == nil {
		if _, ok := t.p.imports[e.fc.file][id.Name]; ok {
			return id.Name
		}
	}
	return ""
}

// fieldVal: the value of field `name` of v
func (t *tr) fieldVal(v *aval, name string, n ast.Node) (*Prog, *aval) {
	pos := t.p.pos(n)
	if f, ok := v.fields[name]; ok && f != nil {
		return empty, f
	}
	if t.isTerm(v) {
		ft, ok := t.p.structs[t.p.term][name]
		if !ok {
			if fi := t.p.funcs[t.p.term+"."+name]; fi != nil {
				return empty, &aval{fn: fi, recv: v}
			}
			t.fail(n, "unknown field or method %s of the terminal", name)
		}
		r := t.fromType(ft)
		if isMutex(r) {
			return empty, &aval{typ: r.typ, ofTerm: true}
		}
		if !t.p.mutable[name] {
			return empty, r
		}
		if r == nil {
			r = &aval{typ: "basic"}
		}
		// the field itself is read: access. What it holds is shared unless it is a reference to
		// another object with its own rules (screen, frontend, backend, reader).
		r.shared = !(t.isScreen(r) || t.isFrontend(r) || t.isBackend(r) || readerTypes[r.typ])
		return t.atom(aAccess, pos, "t."+name), r
	}
	var r *aval
	if fs, ok := t.p.structs[v.typ]; ok {
		if ft, ok := fs[name]; ok {
			r = t.fromType(ft)
		} else if fi := t.p.funcs[v.typ+"."+name]; fi != nil {
			return empty, &aval{fn: fi, recv: v}
		}
	}
	if v.shared {
		if r == nil {
			r = &aval{typ: "basic"}
		}
		r = &aval{typ: r.typ, elem: r.elem, shared: true}
		return t.atom(aAccess, pos, "."+name+" of shared terminal state"), r
	}
	if r == nil && name == "frontend" { // name-based fallback
		r = &aval{typ: "Frontend"}
	}
	return empty, r
}

// eval: effects of evaluating x (in order) and what is known about its value
func (t *tr) eval(x ast.Expr, e *env) (*Prog, *aval) {
	switch x := x.(type) {
	case nil:
		return empty, nil
	case *ast.Ident:
		if s := e.find(x.Name); s != nil {
			return empty, s.vars[x.Name]
		}
		if vs := t.p.vars[x.Name]; vs != nil {
			if vs.Type != nil {
				return empty, t.fromType(vs.Type)
			}
			return empty, nil
		}
		if fi := t.p.funcs[x.Name]; fi != nil {
			return empty, &aval{fn: fi}
		}
		return empty, nil
	case *ast.BasicLit:
		return empty, nil
	case *ast.ParenExpr:
		return t.eval(x.X, e)
	case *ast.FuncLit:
		return empty, &aval{lit: x, env: e}
	case *ast.SelectorExpr:
		if pkg := t.importOf(x.X, e); pkg != "" {
			return empty, &aval{typ: "ext:" + pkg + "." + x.Sel.Name}
		}
		p, v := t.eval(x.X, e)
		if v == nil {
			if x.Sel.Name == "frontend" {
				return p, &aval{typ: "Frontend"}
			}
			return p, nil
		}
		pf, r := t.fieldVal(v, x.Sel.Name, x)
		return mkSeq(p, pf), r
	case *ast.IndexExpr:
		p, v := t.eval(x.X, e)
		pi, _ := t.eval(x.Index, e)
		return t.deref(mkSeq(p, pi), v, true, x)
	case *ast.SliceExpr:
		p, v := t.eval(x.X, e)
		for _, i := range []ast.Expr{x.Low, x.High, x.Max} {
			pi, _ := t.eval(i, e)
			p = mkSeq(p, pi)
		}
		return t.deref(p, v, false, x)
	case *ast.StarExpr:
		p, v := t.eval(x.X, e)
		return t.deref(p, v, false, x)
	case *ast.UnaryExpr:
		return t.eval(x.X, e)
	case *ast.BinaryExpr:
		pa, _ := t.eval(x.X, e)
		pb, _ := t.eval(x.Y, e)
		if x.Op == token.LAND || x.Op == token.LOR {
			return mkSeq(pa, mkAlt(t.p.pos(x), empty, pb)), nil
		}
		return mkSeq(pa, pb), nil
	case *ast.KeyValueExpr:
		return t.eval(x.Value, e)
	case *ast.CompositeLit:
		r := t.fromType(x.Type)
		if r == nil {
			r = &aval{typ: "anon"}
		}
		r.fields = map[string]*aval{}
		p := empty
		for _, el := range x.Elts {
			pe, ve := t.eval(el, e)
			p = mkSeq(p, pe)
			if kv, ok := el.(*ast.KeyValueExpr); ok {
				if k, ok := kv.Key.(*ast.Ident); ok && ve != nil {
					r.fields[k.Name] = ve
				}
			}
		}
		return p, r
	case *ast.TypeAssertExpr:
		p, v := t.eval(x.X, e)
		if t.sensitive(v) || x.Type == nil {
			return p, v // another view of the same object
		}
		return p, t.fromType(x.Type)
	case *ast.CallExpr:
		pre, call, r := t.evalCall(x, e)
		return mkSeq(pre, call), r
	}
	return empty, nil // type expressions etc.
}

// deref: x[i], x[a:b], *x
func (t *tr) deref(p *Prog, v *aval, elem bool, n ast.Node) (*Prog, *aval) {
	if v == nil {
		return p, nil
	}
	r := v
	if elem {
		r = v.elem
	}
	if v.shared {
		if r == nil {
			r = &aval{typ: "basic"}
		}
		r = &aval{typ: r.typ, elem: r.elem, shared: true}
		return mkSeq(p, t.atom(aAccess, t.p.pos(n), "element of shared terminal state")), r
	}
	return p, r
}

// ---- calls ----

func (t *tr) evalArgs(args []ast.Expr, e *env) (*Prog, []*aval) {
	p := empty
	vs := make([]*aval, len(args))
	for i, a := range args {
		var pa *Prog
		pa, vs[i] = t.eval(a, e)
		p = mkSeq(p, pa)
	}
	return p, vs
}

// evalCall returns the effects of evaluating receiver and arguments, the effect of the call
// itself, and the abstract result.
func (t *tr) evalCall(c *ast.CallExpr, e *env) (*Prog, *Prog, *aval) {
	switch f := unparen(c.Fun).(type) {
	case *ast.Ident:
		if s := e.find(f.Name); s != nil { // local closure variable
			pa, vs := t.evalArgs(c.Args, e)
			pc, r := t.callValue(s.vars[f.Name], vs, c)
			return pa, pc, r
		}
		if fi := t.p.funcs[f.Name]; fi != nil {
			pa, vs := t.evalArgs(c.Args, e)
			pc, r := t.inline(fi, nil, vs, c)
			return pa, pc, r
		}
		if builtins[f.Name] {
			var r *aval
			pa := empty
			for i, a := range c.Args {
				if i == 0 && (f.Name == "make" || f.Name == "new") {
					r = t.fromType(a)
					continue
				}
				px, v := t.eval(a, e)
				pa = mkSeq(pa, px)
				if i == 0 && f.Name == "append" {
					r = v
				}
			}
			return pa, empty, r
		}
		pa, vs := t.evalArgs(c.Args, e) // conversion T(x)
		if len(vs) == 1 && t.sensitive(vs[0]) {
			return pa, empty, vs[0]
		}
		return pa, empty, t.fromType(f)
	case *ast.SelectorExpr:
		if pkg := t.importOf(f.X, e); pkg != "" {
			pa, vs := t.evalArgs(c.Args, e)
			name := pkg + "." + f.Sel.Name
			pc := empty
			// writes through an io.Writer argument: fmt.Fprint*(w, ...), io.WriteString(w, ...)
			if (pkg == "fmt" && strings.HasPrefix(f.Sel.Name, "Fprint") || name == "io.WriteString") && len(vs) > 0 {
				pc, _ = t.callMethod(c, types.ExprString(c.Args[0]), vs[0], "Write", []*aval{nil})
			}
			if name == "io.Copy" || name == "io.ReadFull" || name == "io.ReadAll" || name == "io.ReadAtLeast" || name == "io.CopyN" {
				pc = t.atom(aBlockRead, t.p.pos(c), name)
			}
			if rt, ok := extResult[name]; ok {
				return pa, pc, &aval{typ: rt}
			}
			return pa, pc, nil
		}
		px, v := t.eval(f.X, e)
		pa, vs := t.evalArgs(c.Args, e)
		pc, r := t.callMethod(c, types.ExprString(f.X), v, f.Sel.Name, vs)
		return mkSeq(px, pa), pc, r
	case *ast.FuncLit:
		pa, vs := t.evalArgs(c.Args, e)
		pc, r := t.callValue(&aval{lit: f, env: e}, vs, c)
		return pa, pc, r
	case *ast.ArrayType, *ast.MapType, *ast.StarExpr, *ast.InterfaceType, *ast.FuncType, *ast.ChanType:
		pa, vs := t.evalArgs(c.Args, e) // conversion
		if len(vs) == 1 && t.sensitive(vs[0]) {
			return pa, empty, vs[0]
		}
		return pa, empty, t.fromType(f)
	}
	pf, v := t.eval(c.Fun, e)
	pa, vs := t.evalArgs(c.Args, e)
	pc, r := t.callValue(v, vs, c)
	return mkSeq(pf, pa), pc, r
}

// callMethod: the effect of v.m(args); xs is the receiver expression as written
func (t *tr) callMethod(c *ast.CallExpr, xs string, v *aval, m string, args []*aval) (*Prog, *aval) {
	pos := t.p.pos(c)
	note := xs + "." + m + "()"
	frontendName := xs == "frontend" || strings.HasSuffix(xs, ".frontend")
	blockRead := func() (*Prog, *aval) {
		if m == "ReadByte" {
			for i, g := range t.guards {
				if g == xs { // a buffered byte never waits; the guard covers one byte only
					t.guards = append(t.guards[:i:i], t.guards[i+1:]...)
					return t.atom(aLocal, pos, note+" (buffered)"), nil
				}
			}
		}
		return t.atom(aBlockRead, pos, note), nil
	}
	switch {
	case v == nil || v.typ == "anon" || v.typ == "basic":
		if frontendName {
			return t.atom(aCallback, pos, note), nil
		}
		if blockingNames[m] {
			return blockRead()
		}
		t.warn(c, "call %s on a value of unknown type: assumed to have no effect", note)
		return empty, nil
	case v.fields[m] != nil && isClosure(v.fields[m]):
		return t.callValue(v.fields[m], args, c)
	case t.isTerm(v):
		fi := t.p.funcs[t.p.term+"."+m]
		if fi != nil {
			return t.inline(fi, v, args, c)
		}
		_, embedded := t.p.structs[t.p.term]["Mutex"]
		_, embeddedRW := t.p.structs[t.p.term]["RWMutex"]
		if (embedded || embeddedRW || v.typ == "Terminal") && (m == "Lock" || m == "RLock") {
			return t.atom(aLock, pos, note), nil
		}
		if (embedded || embeddedRW || v.typ == "Terminal") && (m == "Unlock" || m == "RUnlock") {
			return t.atom(aUnlock, pos, note), nil
		}
		t.fail(c, "unknown method %s of the terminal", m)
	case isMutex(v):
		if v.ofTerm && (m == "Lock" || m == "RLock") {
			return t.atom(aLock, pos, note), nil
		}
		if v.ofTerm && (m == "Unlock" || m == "RUnlock") {
			return t.atom(aUnlock, pos, note), nil
		}
		if v.ofTerm {
			t.fail(c, "unsupported operation %s on the terminal lock", m)
		}
		return t.atom(aLocal, pos, note+" (another mutex)"), nil
	case t.isScreen(v):
		// a screen method touches buffer state and may notify the frontend, any number of times
		return mkSeq(t.atom(aAccess, pos, note), mkStar(pos, mkAlt(pos, t.atom(aAccess, pos, note), t.atom(aCallback, pos, note+" (notification)")))),
			t.screenResult(m)
	case t.isFrontend(v):
		return t.atom(aCallback, pos, note), nil
	case readerTypes[v.typ]:
		if blockingNames[m] || (v.typ == "GraphemeReader" && t.grBlocks[m]) {
			return blockRead()
		}
		return empty, nil // Buffered() and the like only look at the reader's own buffer
	case t.isBackend(v):
		if m == "Read" {
			return t.atom(aBlockRead, pos, note), nil
		}
		if m == "SetSize" {
			// a call that may wait for the other side (an in-process application repainting
			// synchronously on a size change feeds the terminal and waits until that is read):
			// like a blocking read it must not happen with the terminal lock held
			return t.atom(aBlockRead, pos, note+" (backend call that may wait for the application)"), nil
		}
		if fi := t.p.funcs[v.typ+"."+m]; fi != nil && m != "Write" && m != "SetSize" {
			return t.inline(fi, v, args, c)
		}
		return t.atom(aLocal, pos, note+" (backend)"), nil
	case strings.Contains(v.typ, "."), v.typ == "[]", v.typ == "map", v.typ == "chan": // values of other packages' types
		return empty, nil
	}
	if fi := t.p.funcs[v.typ+"."+m]; fi != nil {
		return t.inline(fi, v, args, c)
	}
	// an interface (or local type) whose concrete type is not known here
	if frontendName {
		return t.atom(aCallback, pos, note), nil
	}
	if blockingNames[m] {
		return blockRead()
	}
	t.warn(c, "call %s: no declaration found for type %s: assumed to have no effect", note, v.typ)
	return empty, nil
}

// screenResult: declared result type of a method of the screen interface
func (t *tr) screenResult(m string) *aval {
	if it, ok := t.p.named["screen"].(*ast.InterfaceType); ok {
		for _, f := range it.Methods.List {
			for _, n := range f.Names {
				if ft, ok := f.Type.(*ast.FuncType); ok && n.Name == m && ft.Results != nil && len(ft.Results.List) > 0 {
					return t.fromType(ft.Results.List[0].Type)
				}
			}
		}
	}
	return nil
}

// callValue: call of a closure / function value
func (t *tr) callValue(v *aval, args []*aval, c *ast.CallExpr) (*Prog, *aval) {
	switch {
	case v == nil || (v.lit == nil && v.synth == nil && v.fn == nil):
		t.warn(c, "call of an unknown function value %s: assumed to have no effect", types.ExprString(c.Fun))
		return empty, nil
	case v.synth != nil:
		return v.synth, nil
	case v.fn != nil:
		return t.inline(v.fn, v.recv, args, c)
	}
	key := "closure@" + t.p.pos(v.lit)
	if t.active[key] {
		t.fail(c, "recursive closure is not supported")
	}
	t.active[key] = true
	defer delete(t.active, key)
	ne := &env{vars: map[string]*aval{}, parent: v.env, fc: &fctx{file: v.env.fc.file}}
	return t.body(v.lit.Type, v.lit.Body, ne, args, t.p.pos(v.lit))
}

// body translates a function body in environment ne (parameters are bound here)
func (t *tr) body(ft *ast.FuncType, b *ast.BlockStmt, ne *env, args []*aval, pos string) (*Prog, *aval) {
	i := 0
	for _, f := range ft.Params.List {
		for _, n := range f.Names {
			v := t.fromType(f.Type)
			if _, variadic := f.Type.(*ast.Ellipsis); !variadic && i < len(args) && args[i] != nil && args[i].typ != "basic" {
				v = args[i]
			}
			ne.vars[n.Name] = v
			i++
		}
		if len(f.Names) == 0 {
			i++
		}
	}
	if ft.Results != nil {
		for _, f := range ft.Results.List {
			for _, n := range f.Names {
				ne.vars[n.Name] = t.fromType(f.Type)
			}
		}
	}
	saved := t.guards
	t.guards = nil
	t.depth++
	if t.depth > 40 {
		panic(trError{pos + ": call depth > 40"})
	}
	fl := t.stmts(b.List, ne, true)
	t.depth--
	t.guards = saved
	if fl.brk != nil || fl.cont != nil {
		panic(trError{pos + ": break/continue outside a loop"})
	}
	prog := mkAlt(pos, fl.fall, fl.ret)
	if prog == nil {
		panic(trError{pos + ": function has no terminating path"})
	}
	var ret *aval
	for _, r := range ne.fc.rets {
		if ret == nil || (t.sensitive(r) && !t.sensitive(ret)) {
			ret = r
		}
	}
	if ret == nil && ft.Results != nil && len(ft.Results.List) > 0 {
		ret = t.fromType(ft.Results.List[0].Type)
	}
	return prog, ret
}

// inline: the translated body of a declared function for the given abstract receiver / arguments
func (t *tr) inline(fi *funcInfo, recv *aval, args []*aval, c ast.Node) (*Prog, *aval) {
	key := fi.name + "(" + t.akey(recv)
	for _, a := range args {
		key += "," + t.akey(a)
	}
	key += ")"
	ft := fi.decl.Type
	if t.active[key] { // recursion: placeholder, resolved when the outer translation finishes
		t.usedRec[key] = true
		var r *aval
		if ft.Results != nil && len(ft.Results.List) > 0 {
			r = t.fromType(ft.Results.List[0].Type)
		}
		return &Prog{k: kRec, rec: key, pos: t.p.pos(fi.decl)}, r
	}
	t.active[key] = true
	defer delete(t.active, key)
	ne := &env{vars: map[string]*aval{}, fc: &fctx{file: t.p.fset.Position(fi.decl.Pos()).Filename}}
	if fi.decl.Recv != nil && len(fi.decl.Recv.List[0].Names) == 1 {
		r := recv
		if r == nil {
			r = t.fromType(fi.decl.Recv.List[0].Type)
		}
		ne.vars[fi.decl.Recv.List[0].Names[0].Name] = r
	}
	if c != ast.Node(fi.decl) {
		t.stack = append(t.stack, fi.name+" called at "+t.p.pos(c))
		defer func() { t.stack = t.stack[:len(t.stack)-1] }()
	}
	prog, ret := t.body(ft, fi.decl.Body, ne, args, t.p.pos(fi.decl))
	if t.usedRec[key] {
		// the recursive calls perform the same atoms again, in some order: sound as long as the
		// function is lock-neutral, i.e. contains no lock / unlock / blockRead itself
		as := map[Act]*Prog{}
		atomsOf(prog, as)
		if as[aLock] != nil || as[aUnlock] != nil || as[aBlockRead] != nil {
			t.fail(fi.decl, "recursive function %s with lock operations or blocking reads is not supported", fi.name)
		}
		with := mkStar(t.p.pos(fi.decl), mkAlt(t.p.pos(fi.decl), as[aAccess], as[aCallback], as[aLocal]))
		prog = substRec(prog, key, with)
	}
	return prog, ret
}
