package main

// Loading of the package (syntax only), the declaration tables used for name-based resolution,
// and the analysis of which terminal fields are shared mutable state.

import (
	"fmt"
	"go/ast"
	"go/parser"
	"go/token"
	"os"
	"path/filepath"
	"sort"
	"strings"
)

type funcInfo struct {
	name string // "recvType.method" or "function"
	decl *ast.FuncDecl
	recv string // receiver type name (pointer stripped), "" for functions
}

type pkgInfo struct {
	fset    *token.FileSet
	funcs   map[string]*funcInfo           // by name
	structs map[string]map[string]ast.Expr // struct type -> field -> type (embedded: base name)
	ifaces  map[string]map[string]bool     // interface type -> method names (embedded ignored)
	named   map[string]ast.Expr            // every named type -> its definition
	vars    map[string]*ast.ValueSpec      // package-level variables
	imports map[string]map[string]string   // file -> local import name -> path
	term    string                         // the terminal struct type (receiver of ptyReadLoop)
	mutable map[string]bool                // terminal fields that are shared mutable state
	fieldOf map[string][]string            // field name -> struct types declaring it
}

var osSuffixes = []string{"_windows", "_js", "_wasm", "_darwin", "_plan9", "_freebsd", "_netbsd", "_openbsd", "_solaris", "_aix", "_android", "_ios", "_dragonfly", "_illumos"}

func baseType(e ast.Expr) string {
	switch t := e.(type) {
	case *ast.StarExpr:
		return baseType(t.X)
	case *ast.ParenExpr:
		return baseType(t.X)
	case *ast.Ident:
		return t.Name
	case *ast.SelectorExpr:
		if x, ok := t.X.(*ast.Ident); ok {
			return x.Name + "." + t.Sel.Name
		}
	case *ast.IndexExpr: // generic instantiation
		return baseType(t.X)
	}
	return ""
}

func loadPkg(dir string) (*pkgInfo, error) {
	p := &pkgInfo{fset: token.NewFileSet(), funcs: map[string]*funcInfo{}, structs: map[string]map[string]ast.Expr{},
		ifaces: map[string]map[string]bool{}, named: map[string]ast.Expr{}, vars: map[string]*ast.ValueSpec{},
		imports: map[string]map[string]string{}, mutable: map[string]bool{}, fieldOf: map[string][]string{}}
	names, err := filepath.Glob(filepath.Join(dir, "*.go"))
	if err != nil || len(names) == 0 {
		return nil, fmt.Errorf("no Go files in %s", dir)
	}
	sort.Strings(names)
	// files without an OS suffix first, so that they win when a function is defined twice
	sort.SliceStable(names, func(i, j int) bool { return !osSpecific(names[i]) && osSpecific(names[j]) })
	for _, fn := range names {
		base := filepath.Base(fn)
		if strings.HasSuffix(base, "_test.go") || base == "verif_hooks.go" {
			continue
		}
		src, err := os.ReadFile(fn)
		if err != nil {
			return nil, err
		}
		f, err := parser.ParseFile(p.fset, base, src, parser.SkipObjectResolution)
		if err != nil {
			return nil, err
		}
		if f.Name.Name != "termemu" {
			continue
		}
		if excludedByBuildTag(string(src)) {
			continue
		}
		imps := map[string]string{}
		for _, im := range f.Imports {
			path := strings.Trim(im.Path.Value, `"`)
			name := path[strings.LastIndex(path, "/")+1:]
			if im.Name != nil {
				name = im.Name.Name
			}
			imps[name] = path
		}
		p.imports[base] = imps
		for _, d := range f.Decls {
			switch d := d.(type) {
			case *ast.FuncDecl:
				fi := &funcInfo{name: d.Name.Name, decl: d}
				if d.Recv != nil && len(d.Recv.List) == 1 {
					fi.recv = baseType(d.Recv.List[0].Type)
					fi.name = fi.recv + "." + d.Name.Name
				}
				if _, dup := p.funcs[fi.name]; !dup && d.Body != nil {
					p.funcs[fi.name] = fi
				}
			case *ast.GenDecl:
				for _, s := range d.Specs {
					switch s := s.(type) {
					case *ast.TypeSpec:
						p.addType(s)
					case *ast.ValueSpec:
						if d.Tok == token.VAR {
							for _, n := range s.Names {
								p.vars[n.Name] = s
							}
						}
					}
				}
			}
		}
	}
	if fi := p.findMethod("ptyReadLoop"); fi != nil {
		p.term = fi.recv
	} else {
		return nil, fmt.Errorf("entry point ptyReadLoop not found in %s", dir)
	}
	p.findMutableFields()
	return p, nil
}

func osSpecific(fn string) bool {
	b := strings.TrimSuffix(filepath.Base(fn), ".go")
	for _, s := range osSuffixes {
		if strings.HasSuffix(b, s) || strings.Contains(b, s+"_") {
			return true
		}
	}
	return false
}

// excludedByBuildTag: a //go:build line before the package clause that mentions the `verif` tag
// positively or excludes linux
func excludedByBuildTag(src string) bool {
	for _, line := range strings.Split(src, "\n") {
		line = strings.TrimSpace(line)
		if strings.HasPrefix(line, "package ") {
			return false
		}
		if strings.HasPrefix(line, "//go:build ") {
			c := strings.TrimPrefix(line, "//go:build ")
			if strings.Contains(c, "!linux") || (strings.Contains(c, "verif") && !strings.Contains(c, "!verif")) ||
				c == "windows" || c == "js" || c == "ignore" {
				return true
			}
		}
	}
	return false
}

func (p *pkgInfo) addType(s *ast.TypeSpec) {
	if _, dup := p.named[s.Name.Name]; dup {
		return
	}
	p.named[s.Name.Name] = s.Type
	switch t := s.Type.(type) {
	case *ast.StructType:
		fields := map[string]ast.Expr{}
		for _, f := range t.Fields.List {
			if len(f.Names) == 0 { // embedded
				b := baseType(f.Type)
				fields[b[strings.LastIndex(b, ".")+1:]] = f.Type
			}
			for _, n := range f.Names {
				fields[n.Name] = f.Type
				p.fieldOf[n.Name] = append(p.fieldOf[n.Name], s.Name.Name)
			}
		}
		p.structs[s.Name.Name] = fields
	case *ast.InterfaceType:
		ms := map[string]bool{}
		for _, m := range t.Methods.List {
			for _, n := range m.Names {
				ms[n.Name] = true
			}
		}
		p.ifaces[s.Name.Name] = ms
	}
}

func (p *pkgInfo) findMethod(name string) *funcInfo {
	var keys []string
	for k := range p.funcs {
		keys = append(keys, k)
	}
	sort.Strings(keys)
	for _, k := range keys {
		if fi := p.funcs[k]; fi.recv != "" && fi.decl.Name.Name == name {
			return fi
		}
	}
	return nil
}

// implements: the named type declares every method of the package interface `iface`
func (p *pkgInfo) implements(typ, iface string) bool {
	ms, ok := p.ifaces[iface]
	if !ok || len(ms) == 0 || p.ifaces[typ] != nil {
		return false
	}
	for m := range ms {
		if p.funcs[typ+"."+m] == nil {
			return false
		}
	}
	return true
}

func (p *pkgInfo) pos(n ast.Node) string {
	ps := p.fset.Position(n.Pos())
	return fmt.Sprintf("%s:%d", ps.Filename, ps.Line)
}

func isConstructor(d *ast.FuncDecl) bool {
	return d.Recv == nil && (strings.HasPrefix(d.Name.Name, "New") || strings.HasPrefix(d.Name.Name, "new"))
}

// findMutableFields: a field of the terminal struct is shared mutable state unless, outside
// constructor functions, it never roots an assignment target / ++ / -- / & operand and (for
// struct-valued fields) no method is called on it. The embedded mutex is the lock itself.
func (p *pkgInfo) findMutableFields() {
	fields := p.structs[p.term]
	for _, fi := range p.funcs {
		if isConstructor(fi.decl) {
			continue
		}
		// declared types of receiver and parameters, to skip `x.f` when x is certainly not a terminal
		declared := map[string]string{}
		addList := func(fl *ast.FieldList) {
			if fl == nil {
				return
			}
			for _, f := range fl.List {
				for _, n := range f.Names {
					declared[n.Name] = baseType(f.Type)
				}
			}
		}
		addList(fi.decl.Recv)
		addList(fi.decl.Type.Params)
		maybeTerm := func(x ast.Expr) bool {
			switch x := x.(type) {
			case *ast.Ident:
				if t, ok := declared[x.Name]; ok {
					return t == p.term || t == "Terminal"
				}
			case *ast.SelectorExpr:
				if owners := p.fieldOf[x.Sel.Name]; len(owners) > 0 {
					for _, o := range owners {
						if baseType(p.structs[o][x.Sel.Name]) == p.term {
							return true
						}
					}
					return false
				}
			}
			return true
		}
		var mark func(e ast.Expr)
		mark = func(e ast.Expr) {
			switch e := e.(type) {
			case *ast.ParenExpr:
				mark(e.X)
			case *ast.StarExpr:
				mark(e.X)
			case *ast.IndexExpr:
				mark(e.X)
			case *ast.SliceExpr:
				mark(e.X)
			case *ast.SelectorExpr:
				if _, ok := fields[e.Sel.Name]; ok && maybeTerm(e.X) {
					p.mutable[e.Sel.Name] = true
				}
				mark(e.X)
			}
		}
		ast.Inspect(fi.decl.Body, func(n ast.Node) bool {
			switch n := n.(type) {
			case *ast.AssignStmt:
				for _, l := range n.Lhs {
					mark(l)
				}
			case *ast.IncDecStmt:
				mark(n.X)
			case *ast.UnaryExpr:
				if n.Op == token.AND {
					mark(n.X)
				}
			case *ast.RangeStmt:
				if n.Tok == token.ASSIGN {
					if n.Key != nil {
						mark(n.Key)
					}
					if n.Value != nil {
						mark(n.Value)
					}
				}
			case *ast.CallExpr: // method call on a struct-valued field: t.f.m()
				if s, ok := n.Fun.(*ast.SelectorExpr); ok {
					if inner, ok := s.X.(*ast.SelectorExpr); ok {
						if ft, ok := fields[inner.Sel.Name]; ok && maybeTerm(inner.X) {
							if id, ok := ft.(*ast.Ident); ok && p.structs[id.Name] != nil {
								p.mutable[inner.Sel.Name] = true
							}
						}
					}
				}
			}
			return true
		})
	}
	delete(p.mutable, "Mutex")
}
