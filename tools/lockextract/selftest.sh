#!/usr/bin/env bash
# Acceptance tests of lockextract. Never edits $REPO: every mutation is made in a scratch copy
# under /tmp which is removed at the end. Prints one line per case and a summary; exit 0 iff
# every case behaves as expected.
#   REPO=/repo LEAN_DIR=/verif/lean SEEDED=/verif/seeded ./selftest.sh
set -u
export GOFLAGS=-mod=mod GOPROXY=off GOSUMDB=off GOTOOLCHAIN=local
HERE=$(cd "$(dirname "$0")" && pwd)
REPO=${REPO:-/repo}
LEAN_DIR=${LEAN_DIR:-/verif/lean}
SEEDED=${SEEDED:-/verif/seeded}
W=$(mktemp -d /tmp/lockextract-selftest.XXXXXX)
trap 'rm -rf "$W"' EXIT
(cd "$HERE" && go build -o "$W/lockextract" .) || { echo "build failed"; exit 2; }
C="$W/copy"
npass=0
nfail=0

fresh() { rm -rf "$C"; cp -r "$REPO" "$C"; }

# subst FILE OLD NEW: exact, unique textual replacement inside the scratch copy
subst() {
	python3 - "$C/$1" "$2" "$3" <<'EOF'
import sys
path, old, new = sys.argv[1:4]
s = open(path).read()
assert s.count(old) == 1, "pattern occurs %d times in %s:\n%s" % (s.count(old), path, old)
open(path, "w").write(s.replace(old, new))
EOF
}

# expect NAME WANT_EXIT [REGEX]: run the extractor on the scratch copy ($DIR overrides), then Lean:
#   want 0: Lean elaborates, gen_welllocked has only standard axioms
#   want 1: output matches REGEX, and Lean must FAIL on gen_welllocked (or gen_accessors_held)
#   want 2: translator error, no Lean file is checked
expect() {
	local name=$1 want=$2 regex=${3:-} dir=${DIR:-$C} verdict=ok detail=""
	"$W/lockextract" -repo "$dir" -out "$W/$name.lean" -report "$W/$name.json" >"$W/$name.out" 2>&1
	local got=$?
	if [ "$got" != "$want" ]; then
		verdict=FAIL detail="exit $got, wanted $want"
	elif [ -n "$regex" ] && ! grep -Eq "$regex" "$W/$name.out"; then
		verdict=FAIL detail="output does not match /$regex/"
	elif [ "$want" != 2 ]; then
		(cd "$LEAN_DIR" && lake env lean "$W/$name.lean") >"$W/$name.log" 2>&1
		local lgot=$?
		if [ "$want" = 0 ]; then
			if [ $lgot != 0 ] || grep -q "sorryAx\|error" "$W/$name.log" ||
				! grep -q "'TM.Lock.Gen.gen_welllocked' \(depends on axioms: \[propext\]\|does not depend on any axioms\)" "$W/$name.log"; then
				verdict=FAIL detail="Lean did not accept the generated file"
			fi
		else
			if [ $lgot = 0 ] || ! grep -q "decide" "$W/$name.log"; then
				verdict=FAIL detail="Lean accepted a file that must fail"
			fi
		fi
	fi
	if [ $verdict = ok ]; then npass=$((npass + 1)); else nfail=$((nfail + 1)); fi
	local why
	why=$(grep -m1 "^FAIL\|translator error" "$W/$name.out" | cut -c1-220)
	printf '%-4s %-28s exit=%s %s %s\n' "$verdict" "$name" "$got" "$detail" "${why:+| $why}"
}

seeded() { fresh; (cd "$C" && git apply "$SEEDED/$1/patch.diff") || echo "patch $1 does not apply"; }

# ---- 1. the tree as it is
DIR=$REPO expect current-tree 0
echo "---- ptyReadLoop as generated:"
sed -n '/^def «ptyReadLoop»/,/^$/p' "$W/current-tree.lean"
"$W/lockextract" -raw -repo "$REPO" -out "$W/raw.lean" >/dev/null 2>&1
(cd "$LEAN_DIR" && lake env lean "$W/raw.lean") >"$W/raw.log" 2>&1 && ! grep -q "sorryAx\|error" "$W/raw.log" &&
	{ echo "ok   current-tree-raw (-raw programs also pass decide)"; npass=$((npass + 1)); } ||
	{ echo "FAIL current-tree-raw"; nfail=$((nfail + 1)); }

# ---- 2. seeded changes
if (cd /repo && git apply --check "$SEEDED/C15-m1/patch.diff" 2>/dev/null); then
	seeded C15-m1;    expect seeded-C15-m1 1 "blocking read while holding the lock"
else
	echo "skip seeded-C15-m1 (made against an older tree, no longer applies)"
fi
seeded C15-m2;    expect seeded-C15-m2 1 "sendMouseRaw.*accessed without the lock"
seeded r2-C15-m2; expect seeded-r2-C15-m2 1 "ptyReadLoop.*without the lock"
seeded r2-C15-m1; expect seeded-r2-C15-m1-out-of-scope 0

# ---- 2'. own mutations
fresh # (a) explicit code instead of `defer l.t.Lock()`, the error branch forgets to re-take the lock
subst escapes.go $'\tl.t.Unlock()\n\tdefer l.t.Lock()\n\tb, err := l.r.ReadByte()\n' \
	$'\tl.t.Unlock()\n\tb, err := l.r.ReadByte()\n\tif err != nil {\n\t\treturn b, err\n\t}\n\tl.t.Lock()\n'
expect a-readbyte-error-path-no-relock 1 "different lock states|unlock without lock|without the lock"

fresh # (b) backend.SetSize moved inside the WithLock closure: rejected (a backend that repaints synchronously would wait for the loop, which waits for the lock)
subst terminal.go $'\t\tt.announceScreen()\n\t})\n\n\tif t.backend == nil {\n\t\treturn nil\n\t}\n\n\treturn t.backend.SetSize(w, h)\n' \
	$'\t\tt.announceScreen()\n\t\tif t.backend != nil {\n\t\t\terr = t.backend.SetSize(w, h)\n\t\t}\n\t})\n\treturn err\n'
subst terminal.go $'func (t *terminal) Resize(w, h int) error {\n' $'func (t *terminal) Resize(w, h int) error {\n\tvar err error\n'
expect b-setsize-under-lock 1 "blocking read while holding the lock|holding the lock"

fresh # (c) SetFrontend without WithLock
subst terminal.go $'\tt.WithLock(func() {\n\t\tt.frontend = f\n\t\tt.mainScreen.SetFrontend(f)\n\t\tt.altScreen.SetFrontend(f)\n\t})\n' \
	$'\tt.frontend = f\n\tt.mainScreen.SetFrontend(f)\n\tt.altScreen.SetFrontend(f)\n'
expect c-setfrontend-unlocked 1 "setFrontend.*without the lock"

# ---- 3. harmless rewrites
fresh # (d) rename local variables / the parameter in ptyReadOne
python3 - "$C/escapes.go" <<'EOF'
import re, sys
s = open(sys.argv[1]).read()
a = s.index("func (t *terminal) ptyReadOne"); b = s.index("type escapeReader interface")
body = re.sub(r"\bgr\b", "rdr", s[a:b]); body = re.sub(r"\bbw\b", "sink", body); body = re.sub(r"\bmaxWidth\b", "room", body)
assert body != s[a:b]
open(sys.argv[1], "w").write(s[:a] + body + s[b:])
EOF
expect d-rename-locals 0

fresh # (e) WithLock(func(){X}) written as Lock(); X; Unlock()
subst escapes.go $'\t\tt.WithLock(func() {\n\t\t\tt.frontend.Bell()\n\t\t})\n' $'\t\tt.Lock()\n\t\tt.frontend.Bell()\n\t\tt.Unlock()\n'
expect e-explicit-lock-unlock 0

fresh # (f) the BEL case calls a new method inside WithLock
subst escapes.go $'\t\t\tt.frontend.Bell()\n' $'\t\t\tt.bell()\n'
printf '\nfunc (t *terminal) bell() { t.frontend.Bell() }\n' >>"$C/escapes.go"
expect f-extracted-method 0

# ---- 4. further mutations (sites suggested for later rounds)
fresh # (g) SendKey with explicit lock: the early return forgets to unlock
subst keys.go $'\tt.WithLock(func() {\n\t\tseq = t.encodeKey(ev)\n\t})\n\tif len(seq) == 0 {\n\t\treturn 0, nil\n\t}\n' \
	$'\tt.Lock()\n\tseq = t.encodeKey(ev)\n\tif len(seq) == 0 {\n\t\treturn 0, nil\n\t}\n\tt.Unlock()\n'
expect g-sendkey-return-holding-lock 1 "sendKey.*(different lock states|holding the lock)"

fresh # (h) an accessor documented "caller holds the lock" takes the lock itself
subst terminal.go $'func (t *terminal) Line(y int) string {\n' $'func (t *terminal) Line(y int) string {\n\tt.Lock()\n\tdefer t.Unlock()\n'
expect h-accessor-relocks 1 "accLine.*re-acquisition"

fresh # (i) SendKey reads the keyboard flags before taking the lock
subst keys.go $'\tvar seq []byte\n\tt.WithLock(func() {\n' $'\tvar seq []byte\n\tif t.keyboardFlags() < 0 {\n\t\treturn 0, nil\n\t}\n\tt.WithLock(func() {\n'
expect i-sendkey-unlocked-read 1 "sendKey.*without the lock"

fresh # (j) Resize announces after the lock has been released
subst terminal.go $'\t\tt.announceScreen()\n\t})\n\n\tif t.backend == nil {' $'\t})\n\tt.announceScreen()\n\n\tif t.backend == nil {'
expect j-resize-announce-unlocked 1 "resize.*without the lock"

fresh # (k) the geometry prelude of ptyReadOne without the lock
subst escapes.go $'\tt.WithLock(func() {\n\t\tbw, useBytes = t.screen().(stringWriter)' $'\tfunc() {\n\t\tbw, useBytes = t.screen().(stringWriter)'
subst escapes.go $'\t\t\tmaxWidth = 1\n\t\t}\n\t})\n' $'\t\t\tmaxWidth = 1\n\t\t}\n\t}()\n'
expect k-prelude-unlocked 1 "ptyReadLoop.*without the lock"

fresh # (l) the handler reads through the GraphemeReader's buffer check but a second byte may block
subst escapes.go $'\tif l.r.Buffered() > 0 {\n\t\treturn l.r.ReadByte()\n\t}\n' $'\tif l.r.Buffered() > 0 {\n\t\tl.r.ReadByte()\n\t\treturn l.r.ReadByte()\n\t}\n'
expect l-second-buffered-read 1 "blocking read while holding the lock"

fresh # (m) unlock twice
subst escapes.go $'\tl.t.Unlock()\n\tdefer l.t.Lock()\n' $'\tl.t.Unlock()\n\tl.t.Unlock()\n\tdefer l.t.Lock()\n'
expect m-double-unlock 1 "unlock without lock"

fresh # (p) Resize announces from a goroutine of its own (the goroutine becomes an entry point)
subst terminal.go $'\t\tt.announceScreen()\n\t})\n\n\tif t.backend == nil {' $'\t})\n\tgo t.announceScreen()\n\n\tif t.backend == nil {'
expect p-announce-in-goroutine 1 "go_terminal.*without the lock"

# ---- 5. translator errors
fresh
subst keys.go 'func (t *terminal) SendKey(' 'func (t *terminal) SendKeyX('
expect n-missing-entry-point 2 "entry point terminal.SendKey not found"
fresh
echo 'func broken( {' >>"$C/terminal.go"
expect o-unparseable 2 "translator error"

echo "---- $npass passed, $nfail failed"
[ $nfail = 0 ]
