package main

// Prog: the Go mirror of TM.Lock.Prog (lean/TM/Lock.lean), its smart constructors
// (simplification), the Lean printer and a re-implementation of `check` with diagnostics.

import (
	"fmt"
	"sort"
	"strings"
)

type Act int

const (
	aLock Act = iota
	aUnlock
	aAccess
	aCallback
	aBlockRead
	aLocal
)

var actLean = [...]string{"lock", "unlock", "access", "callback", "blockRead", "«local»"}
var actName = [...]string{"lock", "unlock", "access", "callback", "blockRead", "local"}

type kind int

const (
	kAtom kind = iota
	kSeq
	kAlt
	kStar
	kRec // placeholder for a recursive call, replaced when the callee is finished
)

// A nil *Prog means "no path" (e.g. the fall-through of a block that always returns).
type Prog struct {
	k    kind
	act  Act
	ps   []*Prog
	pos  string // Go source position (file:line) of the construct
	note string // what the atom stands for, e.g. "t.frontend.Bell()"
	via  string // the chain of inlined calls through which the atom was reached
	rec  string // kRec: key of the function being called
}

func atom(a Act, pos, note string) *Prog { return &Prog{k: kAtom, act: a, pos: pos, note: note} }

var empty = &Prog{k: kSeq}

func isEmpty(p *Prog) bool { return p != nil && p.k == kSeq && len(p.ps) == 0 }

// key identifies a Prog up to source positions (used to deduplicate alternatives)
func (p *Prog) key() string {
	switch p.k {
	case kAtom:
		return actName[p.act]
	case kRec:
		return "rec<" + p.rec + ">"
	case kStar:
		return "star(" + p.ps[0].key() + ")"
	}
	parts := make([]string, len(p.ps))
	for i, q := range p.ps {
		parts[i] = q.key()
	}
	return map[kind]string{kSeq: "seq", kAlt: "alt"}[p.k] + "[" + strings.Join(parts, ",") + "]"
}

func mergeable(p *Prog) bool {
	return p.k == kAtom && (p.act == aAccess || p.act == aCallback || p.act == aLocal)
}

// within: every trace of q is a trace of `star body` (syntactic check: q is the body, one of
// its alternatives, or a star of the same body)
func within(q, body *Prog) bool {
	k := q.key()
	if k == body.key() || (q.k == kStar && q.ps[0].key() == body.key()) {
		return true
	}
	if body.k == kAlt {
		for _, a := range body.ps {
			if a.key() == k {
				return true
			}
		}
	}
	return false
}

// The simplifications below never remove a trace: the result has the same traces as the input
// or more (x; star x  ->  star x), so a simplified program that passes `check` still covers
// every path of the Go function. Only lock-neutral atoms are ever merged.

// mkSeq: sequence; nil if any component has no path. Flattens, drops empty parts, merges
// adjacent equal atoms among {access, callback, local}, and absorbs into `star m` a neighbour
// that is within m (star m; a -> star m and m; star m -> star m).
func mkSeq(ps ...*Prog) *Prog {
	var out []*Prog
	for _, p := range ps {
		if p == nil {
			return nil
		}
		parts := []*Prog{p}
		if p.k == kSeq {
			parts = p.ps
		}
		for _, q := range parts {
			if n := len(out); n > 0 {
				last := out[n-1]
				if mergeable(q) && mergeable(last) && last.act == q.act {
					continue
				}
				if last.k == kStar && within(q, last.ps[0]) {
					continue
				}
				if q.k == kStar && last.key() == q.ps[0].key() {
					out[n-1] = q
					continue
				}
			}
			out = append(out, q)
		}
	}
	// star (seq [a, b]); a; b -> star (seq [a, b])   and   a; b; star (seq [a, b]) -> the same
	for i := 0; i < len(out); i++ {
		if out[i].k != kStar || out[i].ps[0].k != kSeq {
			continue
		}
		body := out[i].ps[0].ps
		same := func(from int) bool {
			if from < 0 || from+len(body) > len(out) || (from <= i && i < from+len(body)) {
				return false
			}
			for j, b := range body {
				if out[from+j].key() != b.key() {
					return false
				}
			}
			return true
		}
		if same(i + 1) {
			out = append(out[:i+1:i+1], out[i+1+len(body):]...)
			i--
		} else if same(i - len(body)) {
			out = append(out[:i-len(body):i-len(body)], out[i:]...)
			i = -1
		}
	}
	if len(out) == 0 {
		return empty
	}
	if len(out) == 1 {
		return out[0]
	}
	return &Prog{k: kSeq, ps: out}
}

func contains(ps []*Prog, p *Prog) bool {
	for _, q := range ps {
		if q == p {
			return true
		}
	}
	return false
}

func parts(p *Prog) []*Prog {
	if p.k == kSeq {
		return p.ps
	}
	return []*Prog{p}
}

// mkAlt: choice; drops "no path" alternatives, flattens, deduplicates (nil if nothing is left),
// drops alternatives covered by a `star` alternative, and factors common first / last elements:
// alt [seq [a, x], seq [a, y]] -> seq [a, alt [x, y]]. An alternative without effect stays as
// `seq []`; `alt []` is never produced.
func mkAlt(pos string, ps ...*Prog) *Prog {
	var out []*Prog
	seen := map[string]bool{}
	var add func(p *Prog)
	add = func(p *Prog) {
		if p == nil {
			return
		}
		if p.k == kAlt {
			for _, q := range p.ps {
				add(q)
			}
			return
		}
		if k := p.key(); !seen[k] {
			seen[k] = true
			out = append(out, p)
		}
	}
	for _, p := range ps {
		add(p)
	}
	// alt [star m, seq [], a] -> star m   (for a within m)
	for _, s := range append([]*Prog{}, out...) {
		if s.k != kStar || !contains(out, s) {
			continue
		}
		kept := out[:0:0]
		for _, q := range out {
			if q == s || !(isEmpty(q) || within(q, s.ps[0])) {
				kept = append(kept, q)
			}
		}
		out = kept
	}
	if len(out) == 0 {
		return nil
	}
	if len(out) == 1 {
		return out[0]
	}
	// common first elements, per group of alternatives
	var order []string
	groups := map[string][]*Prog{}
	for _, q := range out {
		h := ""
		if !isEmpty(q) {
			h = parts(q)[0].key()
		}
		if groups[h] == nil {
			order = append(order, h)
		}
		groups[h] = append(groups[h], q)
	}
	if len(order) < len(out) {
		var alts []*Prog
		for _, h := range order {
			g := groups[h]
			if len(g) == 1 || h == "" {
				alts = append(alts, g...)
				continue
			}
			var rests []*Prog
			for _, q := range g {
				rests = append(rests, mkSeq(parts(q)[1:]...))
			}
			alts = append(alts, mkSeq(parts(g[0])[0], mkAlt(pos, rests...)))
		}
		return mkAlt(pos, alts...)
	}
	// common last element of all alternatives
	lastKey := ""
	for i, q := range out {
		if isEmpty(q) {
			lastKey = ""
			break
		}
		ps := parts(q)
		if k := ps[len(ps)-1].key(); i == 0 {
			lastKey = k
		} else if k != lastKey {
			lastKey = ""
			break
		}
	}
	if lastKey != "" {
		var inits []*Prog
		for _, q := range out {
			ps := parts(q)
			inits = append(inits, mkSeq(ps[:len(ps)-1]...))
		}
		ps := parts(out[0])
		return mkSeq(mkAlt(pos, inits...), ps[len(ps)-1])
	}
	return &Prog{k: kAlt, ps: out, pos: pos}
}

// mkStar: zero or more repetitions; a body without path or effect repeats to nothing;
// star (star p) -> star p; star (alt [seq [], x]) -> star x.
func mkStar(pos string, p *Prog) *Prog {
	if p == nil || isEmpty(p) {
		return empty
	}
	if p.k == kStar {
		return p
	}
	if p.k == kAlt {
		var ps []*Prog
		for _, q := range p.ps {
			if !isEmpty(q) {
				if q.k == kStar {
					q = q.ps[0]
				}
				ps = append(ps, q)
			}
		}
		if p = mkAlt(p.pos, ps...); p == nil {
			return empty
		}
		if p.k == kStar {
			return p
		}
	}
	return &Prog{k: kStar, ps: []*Prog{p}, pos: pos}
}

// ---- relaxation: what happens while the lock is held is summarised as "any number of these
// steps in any order". A maximal run of steps executed with the lock held, each of which gives
// the lock back held, is replaced by star (alt units): the run is built from its units by
// seq / alt / star, so every trace of the run is a trace of the replacement (more traces, never
// fewer). The held-flag analysis only decides WHERE to do this; it cannot hide a violation.

func restores(p *Prog, h bool) bool {
	var f *failure
	h2, ok := check(p, h, &f)
	return ok && h2 == h
}

// units of a program that runs with the lock held and restores it
func units(p *Prog) []*Prog {
	switch p.k {
	case kAtom:
		return []*Prog{p}
	case kStar:
		return units(p.ps[0])
	case kSeq:
		for _, q := range p.ps {
			if !restores(q, true) { // e.g. seq [unlock, blockRead, lock]: one indivisible unit
				return []*Prog{relaxSeq(p, true)}
			}
		}
	}
	var us []*Prog
	for _, q := range p.ps {
		us = append(us, units(q)...)
	}
	return us
}

func relaxRun(run []*Prog, pos string) *Prog {
	if len(run) == 1 && run[0].k == kAtom {
		return run[0]
	}
	var us []*Prog
	for _, q := range run {
		us = append(us, units(q)...)
	}
	// canonical order of the alternatives: atoms first, in the order of Act
	sort.SliceStable(us, func(i, j int) bool {
		a, b := us[i], us[j]
		if (a.k == kAtom) != (b.k == kAtom) {
			return a.k == kAtom
		}
		return a.k == kAtom && a.act < b.act
	})
	return mkStar(pos, mkAlt(pos, us...))
}

func relaxSeq(p *Prog, h bool) *Prog {
	var out []*Prog
	for i := 0; i < len(p.ps); {
		if h {
			j := i
			for j < len(p.ps) && restores(p.ps[j], true) {
				j++
			}
			if j > i {
				out = append(out, relaxRun(p.ps[i:j], p.ps[i].pos))
				i = j
				continue
			}
		}
		q := p.ps[i]
		out = append(out, relax(q, h))
		var f *failure
		h2, ok := check(q, h, &f)
		if !ok { // the offence is in q: leave the rest as it is
			out = append(out, p.ps[i+1:]...)
			break
		}
		h = h2
		i++
	}
	return mkSeq(out...)
}

func relax(p *Prog, h bool) *Prog {
	if h && restores(p, true) {
		return relaxRun([]*Prog{p}, p.pos)
	}
	switch p.k {
	case kSeq:
		return relaxSeq(p, h)
	case kAlt:
		ps := make([]*Prog, len(p.ps))
		for i, q := range p.ps {
			ps[i] = relax(q, h)
		}
		return mkAlt(p.pos, ps...)
	case kStar:
		return mkStar(p.pos, relax(p.ps[0], h))
	}
	return p
}

// atomsOf collects the distinct atoms occurring in p
func atomsOf(p *Prog, into map[Act]*Prog) {
	if p == nil {
		return
	}
	if p.k == kAtom {
		if into[p.act] == nil {
			into[p.act] = p
		}
		return
	}
	for _, q := range p.ps {
		atomsOf(q, into)
	}
}

// substRec replaces the recursion placeholders of function `key` by `with`, rebuilding through
// the smart constructors.
func substRec(p *Prog, key string, with *Prog) *Prog {
	if p == nil {
		return nil
	}
	switch p.k {
	case kAtom:
		return p
	case kRec:
		if p.rec == key {
			return with
		}
		return p
	case kStar:
		return mkStar(p.pos, substRec(p.ps[0], key, with))
	}
	ps := make([]*Prog, len(p.ps))
	for i, q := range p.ps {
		ps[i] = substRec(q, key, with)
	}
	if p.k == kSeq {
		return mkSeq(ps...)
	}
	return mkAlt(p.pos, ps...)
}

func hasRec(p *Prog) bool {
	if p == nil {
		return false
	}
	if p.k == kRec {
		return true
	}
	for _, q := range p.ps {
		if hasRec(q) {
			return true
		}
	}
	return false
}

// lean prints p as a Lean term (with `open Act Prog`)
func (p *Prog) lean(indent string) string {
	switch p.k {
	case kAtom:
		return "atom " + actLean[p.act]
	case kStar:
		return "star (" + p.ps[0].lean(indent) + ")"
	}
	name := "seq"
	if p.k == kAlt {
		name = "alt"
	}
	if len(p.ps) == 0 {
		return name + " []"
	}
	flat := make([]string, len(p.ps))
	total := 0
	for i, q := range p.ps {
		flat[i] = q.lean(indent + "  ")
		total += len(flat[i])
	}
	one := name + " [" + strings.Join(flat, ", ") + "]"
	if total+len(indent) < 84 && !strings.Contains(one, "\n") {
		return one
	}
	return name + " [\n" + indent + "  " + strings.Join(flat, ",\n"+indent+"  ") + " ]"
}

// ---- `check` of TM/Lock.lean with an explanation of the first failure ----

type failure struct {
	Pos    string `json:"pos"`
	Atom   string `json:"atom"`
	Note   string `json:"note,omitempty"`
	Via    string `json:"via,omitempty"`
	Held   bool   `json:"held"`
	Reason string `json:"reason"`
}

// check returns the held flag after p (ok=false: the discipline is violated; *f then holds the
// first offence in program order)
func check(p *Prog, held bool, f **failure) (bool, bool) {
	fail := func(pos, at, note, reason string) (bool, bool) {
		if *f == nil {
			*f = &failure{Pos: pos, Atom: at, Note: note, Via: p.via, Held: held, Reason: reason}
		}
		return false, false
	}
	switch p.k {
	case kAtom:
		switch p.act {
		case aLock:
			if held {
				return fail(p.pos, "lock", p.note, "lock taken while already holding it (re-acquisition deadlocks)")
			}
			return true, true
		case aUnlock:
			if !held {
				return fail(p.pos, "unlock", p.note, "unlock without lock")
			}
			return false, true
		case aAccess:
			if !held {
				return fail(p.pos, "access", p.note, "shared terminal state accessed without the lock")
			}
		case aCallback:
			if !held {
				return fail(p.pos, "callback", p.note, "callback without the lock")
			}
		case aBlockRead:
			if held {
				return fail(p.pos, "blockRead", p.note, "blocking read while holding the lock")
			}
		}
		return held, true
	case kSeq:
		h := held
		for _, q := range p.ps {
			var ok bool
			if h, ok = check(q, h, f); !ok {
				return false, false
			}
		}
		return h, true
	case kAlt:
		if len(p.ps) == 0 {
			return fail(p.pos, "alt []", "", "empty choice")
		}
		h0, ok := check(p.ps[0], held, f)
		if !ok {
			return false, false
		}
		for _, q := range p.ps[1:] {
			h, ok := check(q, held, f)
			if !ok {
				return false, false
			}
			if h != h0 {
				pos := p.pos
				if pos == "" {
					pos = firstAtom(p).pos
				}
				a, b := lastAtom(p.ps[0]), lastAtom(q)
				return fail(pos, "alt", fmt.Sprintf("one branch ends with %s at %s, the other with %s at %s", a.note, a.pos, b.note, b.pos),
					fmt.Sprintf("branches end with different lock states (one path ends %s, another %s)", heldStr(h0), heldStr(h)))
			}
		}
		return h0, true
	case kStar:
		h, ok := check(p.ps[0], held, f)
		if !ok {
			return false, false
		}
		if h != held {
			return fail(p.pos, "star", "", fmt.Sprintf("loop body changes the lock state (enters %s, leaves %s)", heldStr(held), heldStr(h)))
		}
		return held, true
	}
	return fail(p.pos, "rec", p.rec, "unresolved recursion placeholder")
}

// firstAtom / lastAtom: the first / last step of p in program order (for the diagnostics)
func firstAtom(p *Prog) *Prog {
	if p.k == kAtom {
		return p
	}
	for _, q := range p.ps {
		if a := firstAtom(q); a.k == kAtom {
			return a
		}
	}
	return &Prog{k: kSeq, pos: "-"}
}

func lastAtom(p *Prog) *Prog {
	for p.k != kAtom && len(p.ps) > 0 {
		p = p.ps[len(p.ps)-1]
	}
	if p.k != kAtom {
		return &Prog{note: "no step", pos: "-"}
	}
	return p
}

func heldStr(h bool) string {
	if h {
		return "holding the lock"
	}
	return "without the lock"
}
