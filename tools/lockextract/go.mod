module lockextract

go 1.23
