package main

// Statements -> flow. A flow keeps the paths of a statement (list) apart by how they end:
// falling through, returning, break-ing or continue-ing; nil = no such path. This is what keeps
// the code after `if … { return }` from being appended to the returning branch.

import (
	"go/ast"
	"go/token"
	"go/types"
)

type flow struct{ fall, ret, brk, cont *Prog }

func seqFlow(a, b flow) flow {
	return flow{
		fall: mkSeq(a.fall, b.fall),
		ret:  mkAlt("", a.ret, mkSeq(a.fall, b.ret)),
		brk:  mkAlt("", a.brk, mkSeq(a.fall, b.brk)),
		cont: mkAlt("", a.cont, mkSeq(a.fall, b.cont)),
	}
}

func prefixFlow(p *Prog, f flow) flow {
	return flow{mkSeq(p, f.fall), mkSeq(p, f.ret), mkSeq(p, f.brk), mkSeq(p, f.cont)}
}

func altFlow(pos string, fs ...flow) flow {
	var r flow
	for _, f := range fs {
		r = flow{mkAlt(pos, r.fall, f.fall), mkAlt(pos, r.ret, f.ret), mkAlt(pos, r.brk, f.brk), mkAlt(pos, r.cont, f.cont)}
	}
	return r
}

// stmts translates a statement list; top = the list is a function body, where `defer` is supported
func (t *tr) stmts(list []ast.Stmt, e *env, top bool) flow {
	flows := make([]flow, len(list))
	deferred := make([]*Prog, len(list))
	for i, s := range list {
		if d, ok := s.(*ast.DeferStmt); ok {
			pre, call, _ := t.evalCall(d.Call, e)
			flows[i] = flow{fall: pre}
			if !isEmpty(call) {
				if !top {
					t.fail(d, "defer with a lock-relevant effect inside a nested block is not supported")
				}
				deferred[i] = call
			}
			continue
		}
		flows[i] = t.stmt(s, e)
	}
	res := flow{fall: empty}
	for i := len(list) - 1; i >= 0; i-- {
		if d := deferred[i]; d != nil {
			// runs at every exit reached after the defer statement (later defers run first)
			res = flow{fall: mkSeq(res.fall, d), ret: mkSeq(res.ret, d), brk: res.brk, cont: res.cont}
		}
		res = seqFlow(flows[i], res)
	}
	return res
}

func (t *tr) block(b *ast.BlockStmt, e *env) flow {
	if b == nil {
		return flow{fall: empty}
	}
	return t.stmts(b.List, e.child(), false)
}

func (t *tr) define(e *env, lhs ast.Expr, v *aval, def bool) {
	id, ok := unparen(lhs).(*ast.Ident)
	if !ok || id.Name == "_" {
		return
	}
	if def {
		if _, here := e.vars[id.Name]; !here {
			e.vars[id.Name] = v
			return
		}
	}
	if s := e.find(id.Name); s != nil {
		s.vars[id.Name] = t.join(s.vars[id.Name], v)
	}
}

// bufferedGuard: cond contains (as a conjunct) `R.Buffered() > 0`; returns R as written
func bufferedGuard(cond ast.Expr) string {
	b, ok := unparen(cond).(*ast.BinaryExpr)
	if !ok {
		return ""
	}
	if b.Op == token.LAND {
		if g := bufferedGuard(b.X); g != "" {
			return g
		}
		return bufferedGuard(b.Y)
	}
	c, ok := unparen(b.X).(*ast.CallExpr)
	lit, ok2 := unparen(b.Y).(*ast.BasicLit)
	if !ok || !ok2 || len(c.Args) != 0 {
		return ""
	}
	s, ok := c.Fun.(*ast.SelectorExpr)
	if !ok || s.Sel.Name != "Buffered" {
		return ""
	}
	if (lit.Value == "0" && (b.Op == token.GTR || b.Op == token.NEQ)) || (lit.Value == "1" && b.Op == token.GEQ) {
		return types.ExprString(s.X)
	}
	return ""
}

func isPanic(s ast.Stmt) (*ast.CallExpr, bool) {
	if es, ok := s.(*ast.ExprStmt); ok {
		if c, ok := es.X.(*ast.CallExpr); ok {
			if id, ok := c.Fun.(*ast.Ident); ok && id.Name == "panic" {
				return c, true
			}
			if se, ok := c.Fun.(*ast.SelectorExpr); ok {
				if x, ok := se.X.(*ast.Ident); ok && x.Name == "os" && se.Sel.Name == "Exit" {
					return c, true
				}
			}
		}
	}
	return nil, false
}

func (t *tr) stmt(s ast.Stmt, e *env) flow {
	pos := ""
	if s != nil {
		pos = t.p.pos(s)
	}
	switch s := s.(type) {
	case nil, *ast.EmptyStmt:
		return flow{fall: empty}
	case *ast.ExprStmt:
		if c, ok := isPanic(s); ok { // ends the path like a return (deferred calls run)
			p, _ := t.evalArgs(c.Args, e)
			return flow{ret: p}
		}
		p, _ := t.eval(s.X, e)
		return flow{fall: p}
	case *ast.SendStmt:
		pa, _ := t.eval(s.Chan, e)
		pb, _ := t.eval(s.Value, e)
		return flow{fall: mkSeq(pa, pb)}
	case *ast.IncDecStmt:
		p, _ := t.eval(s.X, e)
		return flow{fall: p}
	case *ast.AssignStmt:
		p := empty
		for _, l := range s.Lhs {
			if _, ok := unparen(l).(*ast.Ident); !ok { // targets like t.f, x[i]: operands and the write itself
				pl, _ := t.eval(l, e)
				p = mkSeq(p, pl)
			}
		}
		vals := make([]*aval, len(s.Lhs))
		for i, r := range s.Rhs {
			pr, v := t.eval(r, e)
			p = mkSeq(p, pr)
			if i < len(vals) {
				vals[i] = v
			}
		}
		for i, l := range s.Lhs {
			if s.Tok == token.DEFINE || s.Tok == token.ASSIGN {
				t.define(e, l, vals[i], s.Tok == token.DEFINE)
			}
		}
		return flow{fall: p}
	case *ast.DeclStmt:
		p := empty
		if gd, ok := s.Decl.(*ast.GenDecl); ok {
			for _, sp := range gd.Specs {
				if vs, ok := sp.(*ast.ValueSpec); ok {
					for i, n := range vs.Names {
						v := t.fromType(vs.Type)
						if i < len(vs.Values) {
							pv, vv := t.eval(vs.Values[i], e)
							p = mkSeq(p, pv)
							if vv != nil {
								v = vv
							}
						}
						e.vars[n.Name] = v
					}
				}
			}
		}
		return flow{fall: p}
	case *ast.GoStmt:
		// another thread: its body is not part of this program but an entry point of its own
		pre, call, _ := t.evalCall(s.Call, e)
		t.spawned = append(t.spawned, spawned{pos, types.ExprString(s.Call.Fun), call})
		return flow{fall: mkSeq(pre, t.atom(aLocal, pos, "go statement"))}
	case *ast.DeferStmt: // only reached for a defer that is the body of if/for/case directly
		t.fail(s, "defer outside a statement list")
	case *ast.ReturnStmt:
		p := empty
		for i, r := range s.Results {
			pr, v := t.eval(r, e)
			p = mkSeq(p, pr)
			if i == 0 {
				e.fc.rets = append(e.fc.rets, v)
			}
		}
		return flow{ret: p}
	case *ast.BranchStmt:
		if s.Label != nil || s.Tok == token.GOTO {
			t.fail(s, "goto / labelled break / continue are not supported")
		}
		switch s.Tok {
		case token.BREAK:
			return flow{brk: empty}
		case token.CONTINUE:
			return flow{cont: empty}
		}
		return flow{fall: empty} // fallthrough: handled by the switch translation
	case *ast.BlockStmt:
		return t.block(s, e)
	case *ast.LabeledStmt:
		return t.stmt(s.Stmt, e)
	case *ast.IfStmt:
		ne := e.child()
		init := t.stmt(s.Init, ne)
		pc, _ := t.eval(s.Cond, ne)
		g := bufferedGuard(s.Cond)
		if g != "" {
			t.guards = append(t.guards, g)
		}
		th := t.block(s.Body, ne)
		for i := len(t.guards) - 1; g != "" && i >= 0; i-- { // drop the guard if it was not used
			if t.guards[i] == g {
				t.guards = append(t.guards[:i:i], t.guards[i+1:]...)
				break
			}
		}
		el := flow{fall: empty}
		if s.Else != nil {
			el = t.stmt(s.Else, ne)
		}
		return prefixFlow(mkSeq(init.fall, pc), altFlow(pos, th, el))
	case *ast.ForStmt:
		ne := e.child()
		init := t.stmt(s.Init, ne)
		pc, _ := t.eval(s.Cond, ne)
		b := t.block(s.Body, ne)
		post := t.stmt(s.Post, ne)
		iter := mkSeq(pc, mkAlt(pos, b.fall, b.cont), post.fall)
		loop := mkSeq(init.fall, mkStar(pos, iter))
		// leaving at the loop head is allowed even for `for { }` (an over-approximation of the paths)
		return flow{fall: mkSeq(loop, mkAlt(pos, pc, mkSeq(pc, b.brk))), ret: mkSeq(loop, pc, b.ret)}
	case *ast.RangeStmt:
		ne := e.child()
		px, v := t.eval(s.X, ne)
		if s.Tok == token.DEFINE || s.Tok == token.ASSIGN {
			var ev *aval
			if v != nil && v.elem != nil {
				ev = &aval{typ: v.elem.typ, elem: v.elem.elem, shared: v.shared}
			}
			if s.Key != nil {
				t.define(ne, s.Key, nil, s.Tok == token.DEFINE)
			}
			if s.Value != nil {
				t.define(ne, s.Value, ev, s.Tok == token.DEFINE)
			}
		}
		b := t.block(s.Body, ne)
		loop := mkSeq(px, mkStar(pos, mkAlt(pos, b.fall, b.cont)))
		return flow{fall: mkSeq(loop, mkAlt(pos, empty, b.brk)), ret: mkSeq(loop, b.ret)}
	case *ast.SwitchStmt:
		ne := e.child()
		init := t.stmt(s.Init, ne)
		ptag, _ := t.eval(s.Tag, ne)
		return prefixFlow(mkSeq(init.fall, ptag), t.clauses(s.Body, ne, pos, nil, nil))
	case *ast.TypeSwitchStmt:
		ne := e.child()
		init := t.stmt(s.Init, ne)
		var x ast.Expr
		var bind *ast.Ident
		switch a := s.Assign.(type) {
		case *ast.ExprStmt:
			x = a.X
		case *ast.AssignStmt:
			x = a.Rhs[0]
			bind, _ = a.Lhs[0].(*ast.Ident)
		}
		px, v := t.eval(x, ne)
		return prefixFlow(mkSeq(init.fall, px), t.clauses(s.Body, ne, pos, bind, v))
	case *ast.SelectStmt:
		var fs []flow
		for _, c := range s.Body.List {
			cc := c.(*ast.CommClause)
			ne := e.child()
			comm := t.stmt(cc.Comm, ne)
			fs = append(fs, prefixFlow(comm.fall, t.stmts(cc.Body, ne, false)))
		}
		if len(fs) == 0 {
			return flow{fall: empty}
		}
		r := altFlow(pos, fs...)
		return flow{fall: mkAlt(pos, r.fall, r.brk), ret: r.ret, cont: r.cont}
	}
	t.fail(s, "unsupported statement %T", s)
	return flow{}
}

// clauses translates the case clauses of a (type) switch: branch k evaluates the case
// expressions of clauses 1..k, then its body; without `default` there is an empty branch.
func (t *tr) clauses(body *ast.BlockStmt, e *env, pos string, bind *ast.Ident, bindVal *aval) flow {
	n := len(body.List)
	flows := make([]flow, n)
	falls := make([]bool, n)
	prefixes := make([]*Prog, n)
	exprs := empty // effects of all case expressions so far
	def := -1
	for i, c := range body.List {
		cc := c.(*ast.CaseClause)
		if cc.List == nil {
			def = i
		}
		if bind == nil { // (the "expressions" of a type switch are types)
			for _, x := range cc.List {
				px, _ := t.eval(x, e)
				exprs = mkSeq(exprs, px)
			}
		}
		prefixes[i] = exprs
		ne := e.child()
		if bind != nil {
			v := bindVal
			if len(cc.List) == 1 && !t.sensitive(bindVal) {
				v = t.fromType(cc.List[0])
			}
			ne.vars[bind.Name] = v
		}
		l := cc.Body
		if k := len(l); k > 0 {
			if br, ok := l[k-1].(*ast.BranchStmt); ok && br.Tok == token.FALLTHROUGH {
				falls[i] = true
				l = l[:k-1]
			}
		}
		flows[i] = t.stmts(l, ne, false)
	}
	for i := n - 2; i >= 0; i-- {
		if falls[i] {
			flows[i] = seqFlow(flows[i], flows[i+1])
		}
	}
	var fs []flow
	for i := range flows {
		pre := prefixes[i]
		if i == def {
			pre = exprs // the default branch is taken after every case expression has been tried
		}
		fs = append(fs, prefixFlow(pre, flows[i]))
	}
	if def < 0 {
		fs = append(fs, flow{fall: exprs})
	}
	r := altFlow(pos, fs...)
	return flow{fall: mkAlt(pos, r.fall, r.brk), ret: r.ret, cont: r.cont}
}
