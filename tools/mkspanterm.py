#!/usr/bin/env python3
"""Regenerate lean/TM/SpanTerm.lean from lean/TM/Term.lean: the terminal's dispatch word for word,
with the screen operations replaced by their run-level counterparts of TM/SpanScreen.lean.

  tools/mkspanterm.py            rewrite lean/TM/SpanTerm.lean
  tools/mkspanterm.py --check    exit 1 if the committed file differs from what would be generated
"""
import os, sys
ROOT = os.path.dirname(os.path.dirname(os.path.abspath(__file__)))
LEAN = os.path.join(ROOT, "lean")

HEAD = '''import TM.SpanScreen
import TM.Term
/-!
# TM.SpanTerm — the terminal over run-level screens: `STerm` is `Term` with the two buffers stored
the way the span buffer stores them (`SScr`: rows of runs). `STerm.apply` is the dispatch of
`TM.Term` (escapes.go) word for word, with every screen operation replaced by its run-level
counterpart of `TM.SpanScreen`; `STerm.abs` maps both buffers through `SScr.abs`.
`Props/C02SpanTerm.lean` proves that the two dispatches commute with `abs` for every token, hence
for every byte stream. GENERATED from `TM/Term.lean` by `tools/mkspanterm.py` (`./check C02`
verifies that it is up to date). Rune text mode, span policy. Core-only, executable.
-/
namespace TM

def SScr.setMargins (s : SScr) (t b : Int) : SScr :=
  if t > b then s else
  let t' := clampNat t (s.h - 1)
  let b' := clampNat b (s.h - 1)
  if t' > b' then s else { s with top := t', bot := b' }

def SScr.saveCursor (s : SScr) : SScr := { s with sx := s.cx, sy := s.cy }
def SScr.restoreCursor (s : SScr) : SScr := { s with cx := s.sx, cy := s.sy }

structure STerm where
  main : SScr
  alt : SScr
  onAlt : Bool := false
  vflags : List Bool := [false, true, false, false, false, false]
  vints : List Int := List.replicate 3 0
  vstrs : List Bytes := List.replicate 3 []
  kmain : Kbd := {}
  kalt : Kbd := {}
deriving Repr

def STerm.init (w h : Nat) : STerm := { main := SScr.init w h, alt := SScr.init w h }

/-- the cell-level terminal this run-level terminal shows (span policy) -/
def STerm.abs (cw : Nat → Nat) (t : STerm) : Term :=
  { pol := .keep, main := t.main.abs cw, alt := t.alt.abs cw, onAlt := t.onAlt, vflags := t.vflags,
    vints := t.vints, vstrs := t.vstrs, kmain := t.kmain, kalt := t.kalt }

def STerm.inv (cw : Nat → Nat) (t : STerm) : Bool :=
  t.main.inv cw && t.alt.inv cw && decide (t.main.w = t.alt.w) && decide (t.main.h = t.alt.h)

def STerm.scr (t : STerm) : SScr := if t.onAlt then t.alt else t.main
def STerm.setScr (t : STerm) (s : SScr) : STerm := if t.onAlt then { t with alt := s } else { t with main := s }
def STerm.kbd (t : STerm) : Kbd := if t.onAlt then t.kalt else t.kmain
def STerm.setKbd (t : STerm) (k : Kbd) : STerm := if t.onAlt then { t with kalt := k } else { t with kmain := k }

def STerm.setVFlag (t : STerm) (i : Nat) (v : Bool) : STerm × List Ev :=
  ({ t with vflags := t.vflags.set i v }, [.vflag i v])
def STerm.setVInt (t : STerm) (i : Nat) (v : Int) : STerm × List Ev :=
  ({ t with vints := t.vints.set i v }, [.vint i v])
def STerm.setVStr (t : STerm) (i : Nat) (v : Bytes) : STerm × List Ev :=
  ({ t with vstrs := t.vstrs.set i v }, [.vstr i v])

def STerm.withScr (t : STerm) (s : SScr) : STerm × List Ev :=
  (t.setScr s, [.cursor s.cx s.cy])

'''


GRID_HEAD = '''import TM.GridScreen
import TM.Term
/-!
# TM.GridTerm — the terminal over array-level grid screens: `GTerm` is `Term` with the two buffers
stored the way the cell-grid buffer stores them (`GScr`: one record of the five parallel arrays
per cell). `GTerm.apply` is the dispatch of `TM.Term` (escapes.go) word for word, with every
screen operation replaced by its counterpart of `TM.GridScreen`; `GTerm.abs` maps both buffers
through `GScr.abs` (policy `.blank`). GENERATED from `TM/Term.lean` by `tools/mkspanterm.py`
(`./check C20` verifies that it is up to date). Rune text mode. Core-only, executable.
-/
namespace TM

structure GTerm where
  main : GScr
  alt : GScr
  onAlt : Bool := false
  vflags : List Bool := [false, true, false, false, false, false]
  vints : List Int := List.replicate 3 0
  vstrs : List Bytes := List.replicate 3 []
  kmain : Kbd := {}
  kalt : Kbd := {}
deriving Repr

def GTerm.init (w h : Nat) : GTerm := { main := GScr.init w h, alt := GScr.init w h }

/-- the cell-level terminal this array-level terminal shows (grid policy) -/
def GTerm.abs (t : GTerm) : Term :=
  { pol := .blank, main := t.main.abs, alt := t.alt.abs, onAlt := t.onAlt, vflags := t.vflags,
    vints := t.vints, vstrs := t.vstrs, kmain := t.kmain, kalt := t.kalt }

def GTerm.inv (t : GTerm) : Bool :=
  t.main.inv && t.alt.inv && decide (t.main.w = t.alt.w) && decide (t.main.h = t.alt.h)

def GTerm.scr (t : GTerm) : GScr := if t.onAlt then t.alt else t.main
def GTerm.setScr (t : GTerm) (s : GScr) : GTerm := if t.onAlt then { t with alt := s } else { t with main := s }
def GTerm.kbd (t : GTerm) : Kbd := if t.onAlt then t.kalt else t.kmain
def GTerm.setKbd (t : GTerm) (k : Kbd) : GTerm := if t.onAlt then { t with kalt := k } else { t with kmain := k }

def GTerm.setVFlag (t : GTerm) (i : Nat) (v : Bool) : GTerm × List Ev :=
  ({ t with vflags := t.vflags.set i v }, [.vflag i v])
def GTerm.setVInt (t : GTerm) (i : Nat) (v : Int) : GTerm × List Ev :=
  ({ t with vints := t.vints.set i v }, [.vint i v])
def GTerm.setVStr (t : GTerm) (i : Nat) (v : Bytes) : GTerm × List Ev :=
  ({ t with vstrs := t.vstrs.set i v }, [.vstr i v])

def GTerm.withScr (t : GTerm) (s : GScr) : GTerm × List Ev :=
  (t.setScr s, [.cursor s.cx s.cy])

'''


def generate_grid():
    src = open(os.path.join(LEAN, "TM", "Term.lean")).read()
    a = src.index("/-! ### DEC private modes -/")
    b = src[a:src.rindex("end TM")]
    b = b.replace("Term.", "GTerm.").replace(": Term)", ": GTerm)").replace("Term × List Ev", "GTerm × List Ev")
    b = b.replace("(s : Scr)", "(s : GScr)").replace(": Scr)", ": GScr)")
    b = b.replace("s.put t.pol stored (cw cp)", "s.put stored (cw cp)")
    b = b.replace("def csiReplyCPR (s : GScr) : Bytes :=", "def gCsiReplyCPR (s : GScr) : Bytes :=").replace("(csiReplyCPR s)", "(gCsiReplyCPR s)")
    i = b.index("/-- `CSI > … m`: the value after the last `4`")
    j = b.index("/-! ### CSI dispatch -/")
    b = b[:i] + b[j:]
    return GRID_HEAD + b + "\nend TM\n"


def generate():
    src = open(os.path.join(LEAN, "TM", "Term.lean")).read()
    a = src.index("/-! ### DEC private modes -/")
    b = src[a:src.rindex("end TM")]
    b = b.replace("Term.", "STerm.").replace(": Term)", ": STerm)").replace("Term × List Ev", "STerm × List Ev")
    b = b.replace("(s : Scr)", "(s : SScr)").replace(": Scr)", ": SScr)")
    b = b.replace("def STerm.csiPlain (t : STerm) (ps : List Int) (fin : UInt8)",
                  "def STerm.csiPlain (cw : Nat → Nat) (t : STerm) (ps : List Int) (fin : UInt8)")
    b = b.replace("def STerm.csi (t : STerm) (pfx : UInt8)", "def STerm.csi (cw : Nat → Nat) (t : STerm) (pfx : UInt8)")
    b = b.replace("t.csiPlain ps fin", "t.csiPlain cw ps fin").replace("t.csi pfx ps fin", "t.csi cw pfx ps fin")
    b = b.replace("s.put t.pol stored (cw cp)", "s.put cw stored (cw cp)")
    b = b.replace(".eraseRegionI ", ".eraseRegionI cw ")
    b = b.replace("s.dch n.toNat", "s.dch cw n.toNat")
    b = b.replace("t.main.resize w h", "t.main.resize cw w h").replace("t.alt.resize w h", "t.alt.resize cw w h")
    b = b.replace("def STerm.resize (t : STerm) (w h : Nat)", "def STerm.resize (cw : Nat → Nat) (t : STerm) (w h : Nat)")
    b = b.replace("def csiReplyCPR (s : SScr) : Bytes :=", "def sCsiReplyCPR (s : SScr) : Bytes :=").replace("(csiReplyCPR s)", "(sCsiReplyCPR s)")
    # `modifyOtherKeysMode` is shared with TM.Term
    i = b.index("/-- `CSI > … m`: the value after the last `4`")
    j = b.index("/-! ### CSI dispatch -/")
    b = b[:i] + b[j:]
    return HEAD + b + "\nend TM\n"


if __name__ == "__main__":
    bad = False
    for name, out in (("SpanTerm.lean", generate()), ("GridTerm.lean", generate_grid())):
        path = os.path.join(LEAN, "TM", name)
        if "--check" in sys.argv:
            cur = open(path).read() if os.path.exists(path) else ""
            if cur != out:
                print("lean/TM/%s is not what tools/mkspanterm.py generates from lean/TM/Term.lean" % name)
                bad = True
            else:
                print("lean/TM/%s is up to date" % name)
        else:
            open(path, "w").write(out)
    sys.exit(1 if bad else 0)
