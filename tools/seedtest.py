#!/usr/bin/env python3
"""Confirm a seeded change and run checks against it.

  tools/seedtest.py <mutant-dir> <property> [more properties…]

<mutant-dir> holds patch.diff and demo_test.go. A scratch worktree of /repo is created under
/tmp, the four facts are confirmed (patch applies; suite green with it; demo passes without it;
demo fails with it), then `./check <property>` is run with VERIF_REPO pointing at the patched
worktree. Prints a JSON summary. The worktree is removed afterwards.
"""
import json
import os
import shutil
import subprocess
import sys
import tempfile

ROOT = os.path.dirname(os.path.dirname(os.path.abspath(__file__)))
ENV = dict(os.environ, GOFLAGS="-mod=mod", GOPROXY="off", GOSUMDB="off", GOTOOLCHAIN="local")


def sh(cmd, cwd=None, env=ENV, timeout=1800):
    r = subprocess.run(cmd, cwd=cwd, env=env, text=True, capture_output=True, timeout=timeout)
    return r.returncode, r.stdout + r.stderr


def main():
    mdir = os.path.abspath(sys.argv[1])
    props = sys.argv[2:]
    race = "-race" in open(os.path.join(mdir, "README.md")).read() if os.path.exists(os.path.join(mdir, "README.md")) else False
    wt = tempfile.mkdtemp(prefix="seed-", dir="/tmp")
    os.rmdir(wt)
    out = {"mutant": mdir, "props": props, "checks": {}}
    try:
        rc, o = sh(["git", "-C", "/repo", "worktree", "add", "-q", "--detach", wt, "HEAD"])
        assert rc == 0, o
        patch = os.path.join(mdir, "patch.diff")
        demo = os.path.join(mdir, "demo_test.go")
        demo_cmd = ["go", "test", "-vet=off", "-count=1", "-run", "TestMutantDemo", "."]
        if race:
            demo_cmd.insert(2, "-race")
        # demo passes without the patch
        shutil.copy(demo, os.path.join(wt, "zz_demo_test.go"))
        rc, o = sh(demo_cmd, cwd=wt)
        out["demo_passes_unpatched"] = rc == 0
        os.remove(os.path.join(wt, "zz_demo_test.go"))
        # patch applies, suite green, demo fails
        rc, o = sh(["git", "apply", patch], cwd=wt)
        out["patch_applies"] = rc == 0
        if rc != 0:
            out["apply_log"] = o[-500:]
        rc, o = sh(["go", "test", "-vet=off", "-count=1", "./..."], cwd=wt)
        out["suite_green_patched"] = rc == 0
        if rc != 0:
            out["suite_log"] = o[-800:]
        shutil.copy(demo, os.path.join(wt, "zz_demo_test.go"))
        rc, o = sh(demo_cmd, cwd=wt)
        out["demo_fails_patched"] = rc != 0
        os.remove(os.path.join(wt, "zz_demo_test.go"))
        out["confirmed"] = all(out.get(k) for k in ("demo_passes_unpatched", "patch_applies", "suite_green_patched", "demo_fails_patched"))
        # checks against the patched tree
        for p in props:
            env = dict(ENV, VERIF_REPO=wt, VERIF_SEED=os.environ.get("VERIF_SEED", "1"))
            rc, o = sh([os.path.join(ROOT, "check"), p], cwd=ROOT, env=env, timeout=3600)
            viol = [l for l in o.splitlines() if l.startswith("VIOLATION")]
            detail = [l for l in o.splitlines() if l.startswith("  ")][:3]
            out["checks"][p] = {"exit": rc, "violations": viol, "detail": detail}
    finally:
        sh(["git", "-C", "/repo", "worktree", "remove", "--force", wt])
        shutil.rmtree(wt, ignore_errors=True)
    print(json.dumps(out, indent=1))


if __name__ == "__main__":
    main()
