"""Per-property configuration of ./check: which harness jobs decide the correspondence part."""

def lockstep(profile, quick, thorough, **kw):
    d = {"profile": profile, "quick": quick, "thorough": thorough}
    d.update(kw)
    return d

def special(name, quick, thorough, **kw):
    d = {"special": name, "quick": quick, "thorough": thorough}
    d.update(kw)
    return d

CONFIG = {
    "C01": {"jobs": [lockstep("C01", 4000, 60000), lockstep("general", 1500, 20000)]},
    "C02": {"jobs": [lockstep("C02", 4000, 60000), lockstep("general", 1000, 20000), special("spanline", 400, 9000), special("spanscreen", 400, 6000)]},
    "C03": {"jobs": [lockstep("C03", 4000, 60000), special("resizeidle", 400, 4000), special("spanline", 300, 4000)]},
    "C04": {"jobs": [lockstep("C04", 4000, 60000), special("resizeidle", 400, 4000)]},
    "C05": {"jobs": [lockstep("C05", 4000, 60000), special("resizeidle", 400, 4000), special("spanline", 300, 4000)]},
    "C06": {"jobs": [lockstep("C06", 4000, 60000), special("resizeidle", 400, 4000)]},
    "C07": {"jobs": [lockstep("C07", 4000, 60000), special("roundtrip", 300, 4000), special("spanline", 300, 4000)]},
    "C08": {"jobs": [special("segmentation", 1500, 30000), special("resizeidle", 400, 4000)]},
    "C09": {"jobs": [lockstep("C09", 4000, 60000), special("embed", 1500, 30000)]},
    "C10": {"jobs": [lockstep("C10", 4000, 60000), special("spanline", 300, 4000)]},
    "C11": {"jobs": [special("roundtrip", 1500, 20000), special("ttymirror", 600, 8000), lockstep("C02", 1000, 15000), special("spanline", 300, 4000)]},
    "C12": {"jobs": [special("keys", 200000, 4000000)]},
    "C13": {"jobs": [special("mouse", 1, 1)]},
    "C14": {"jobs": [lockstep("C14", 4000, 60000)]},
    "C15": {"jobs": [lockstep("C10", 1500, 20000), special("locks", 40, 400, race=True), special("resizeidle", 600, 6000)]},
    "C16": {"jobs": [special("streams", 1500, 30000), lockstep("C16g", 1500, 30000)]},
    "C17": {"jobs": [lockstep("C17", 4000, 60000)]},
    "C18": {"jobs": [lockstep("C18", 4000, 60000), special("resizeidle", 600, 6000), special("spanline", 300, 4000)]},
    "C19": {"jobs": [lockstep("C19", 3000, 60000), special("kbdexhaustive", 1, 2)]},
    "C20": {"jobs": [special("gridspan", 3000, 60000), lockstep("C20", 2000, 30000), special("spanline", 300, 4000)]},
}
