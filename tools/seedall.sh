#!/bin/sh
# run seedtest for every finished mutant that has no result yet (parallel across properties)
mkdir -p ${MUT_ROOT:-/tmp/mut}/results
for d in ${MUT_ROOT:-/tmp/mut}/C*/MUTANTS; do
  p=$(basename $(dirname $d))
  if [ -n "$ONLY" ]; then case " $ONLY " in *" $p "*) ;; *) continue;; esac; fi
  ( for m in $d/m*; do
      [ -f $m/patch.diff ] || continue
      out=${MUT_ROOT:-/tmp/mut}/results/$p-$(basename $m).json
      [ -s $out ] && [ -z "$FORCE" ] && continue
      python3 /verif/tools/seedtest.py $m $p > $out 2>${MUT_ROOT:-/tmp/mut}/results/$p-$(basename $m).err
    done ) &
done
wait
export MUT_ROOT=${MUT_ROOT:-/tmp/mut}
python3 - <<'PY'
import json,glob
import os
for f in sorted(glob.glob(os.environ.get('MUT_ROOT','/tmp/mut')+'/results/*.json')):
    try: o=json.load(open(f))
    except Exception as e: print(f,'ERR',e); continue
    c=list(o['checks'].values())[0] if o['checks'] else {}
    print(f.split('/')[-1][:-5], 'confirmed' if o.get('confirmed') else 'UNCONFIRMED', 'CAUGHT' if c.get('exit')==1 else 'missed(exit=%s)'%c.get('exit'), (c.get('detail') or [''])[0][:150])
PY
