#!/bin/sh
# run seedtest for every finished mutant that has no result yet (parallel across properties)
mkdir -p /tmp/mut/results
for d in /tmp/mut/C*/MUTANTS; do
  p=$(basename $(dirname $d))
  ( for m in $d/m*; do
      [ -f $m/patch.diff ] || continue
      out=/tmp/mut/results/$p-$(basename $m).json
      [ -s $out ] && [ -z "$FORCE" ] && continue
      python3 /verif/tools/seedtest.py $m $p > $out 2>/tmp/mut/results/$p-$(basename $m).err
    done ) &
done
wait
python3 - <<'PY'
import json,glob
for f in sorted(glob.glob('/tmp/mut/results/*.json')):
    try: o=json.load(open(f))
    except Exception as e: print(f,'ERR',e); continue
    c=list(o['checks'].values())[0] if o['checks'] else {}
    print(f.split('/')[-1][:-5], 'confirmed' if o.get('confirmed') else 'UNCONFIRMED', 'CAUGHT' if c.get('exit')==1 else 'missed(exit=%s)'%c.get('exit'), (c.get('detail') or [''])[0][:150])
PY
