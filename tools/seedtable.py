#!/usr/bin/env python3
"""Print the DESIGN.md table of seeded changes of one round from seeded/*/meta.json."""
import json, glob, os, re, sys
rnd = sys.argv[1]  # r2 | r3
print("| change | site / idea | detected | history |")
print("|---|---|---|---|")
for d in sorted(glob.glob(os.path.join(os.path.dirname(__file__), "..", "seeded", rnd + "-C*"))):
    m = json.load(open(os.path.join(d, "meta.json")))
    lines = [l for l in m["what_it_breaks_and_needs"].splitlines() if l.strip()]
    title = re.sub(r"^#\s*C\d\d\s*/\s*m\d\s*[—-]\s*", "", lines[0]) if lines else ""
    print("| %s | %s | %s | %s |" % (os.path.basename(d), title.replace("|", "/"), "yes" if m["detected"] else "NO", m["history"].replace("|", "/")))
