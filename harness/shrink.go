package main

// Shrinking of a failing case: drop items, simplify chunking, shorten items.

func stillFails(c Case, prop string, f finding, d *driver, known []knownFinding) bool {
	res := runCase(&c, d, runOpts{probeLock: prop == "C15", keepGoing: keepGoingProps[prop]})
	for _, g := range res.Findings {
		if g.Kind == "driver" {
			return false
		}
		if owns(prop, g) && g.Kind == f.Kind && (g.Kind != "monitor" || g.Clause == f.Clause) {
			excused := false
			for k := range known {
				if known[k].matches(prop, &c, g) {
					excused = true
				}
			}
			if !excused {
				return true
			}
		}
	}
	return false
}

func shrinkCase(c Case, prop string, f finding, d *driver, known []knownFinding) Case {
	if d == nil {
		return c
	}
	try := func(cand Case) bool {
		if stillFails(cand, prop, f, d, known) {
			c = cand
			return true
		}
		return false
	}
	if c.Chunk != 0 {
		cand := c
		cand.Chunk = 0
		try(cand)
	}
	// delta debugging on items
	for n := len(c.Items) / 2; n >= 1; n /= 2 {
		for i := 0; i+n <= len(c.Items); {
			cand := c
			cand.Items = append(append([]Item(nil), c.Items[:i]...), c.Items[i+n:]...)
			if !try(cand) {
				i += n
			}
		}
	}
	// shorten input items byte-wise from the end (keeps sequences mostly intact)
	for i := range c.Items {
		if c.Items[i].Kind != "in" || c.Items[i].Class == "" {
			continue
		}
		for len(c.Items[i].Hex) > 2 {
			cand := c
			cand.Items = append([]Item(nil), c.Items...)
			it := cand.Items[i]
			if len(it.Hex) >= 4 && (it.Class == "text" || it.Class == "textwide" || it.Class == "textlong") {
				it.Hex = it.Hex[:len(it.Hex)-2]
				cand.Items[i] = it
				if try(cand) {
					continue
				}
			}
			break
		}
	}
	// smaller screen
	for _, dim := range []string{"h", "w"} {
		for {
			cand := c
			if dim == "h" && cand.H > 1 {
				cand.H--
			} else if dim == "w" && cand.W > 1 {
				cand.W--
			} else {
				break
			}
			if !try(cand) {
				break
			}
		}
	}
	return c
}
