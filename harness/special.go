package main

import "fmt"

// runSpecial dispatches the property-specific checks that are not plain
// lock-step runs (segmentation independence, embedding, round trips, keys,
// mouse, streams, locks).
func runSpecial(name, prop string, seed int64, n int, drvPath, widths, outPath, replayDir string, known []knownFinding, workers int) int {
	fmt.Println("unknown special check", name)
	return 2
}
