package main

// Property-specific checks that are not plain lock-step runs.

import (
	"bytes"
	"encoding/hex"
	"encoding/json"
	"fmt"
	"io"
	"os"
	"path/filepath"
	"sort"
	"strings"
	"sync"
	"sync/atomic"
	"time"

	te "github.com/ricochet1k/termemu"
)

const specialWatchdog = 90 * time.Second

type specialCtx struct {
	outPath   string
	prop      string
	seed      int64
	n         int
	drvPath   string
	widths    string
	replayDir string
	known     []knownFinding
	workers   int

	mu       sync.Mutex
	st       stats
	viol     []map[string]any
	knownHit map[string]int
	sigs     map[string]bool
}

func (c *specialCtx) violation(kind string, detail string, payload any) {
	c.mu.Lock()
	defer c.mu.Unlock()
	for k := range c.known {
		kf := &c.known[k]
		clauseOK := false
		if kf.Clause != "" {
			clauseOK, _ = regexpMatchString(kf.Clause, kind)
		}
		if kf.Status == "open" && kf.Property == c.prop && (kf.Kind == kind || clauseOK) {
			if ok, _ := regexpMatch(kf.Detail, detail); ok {
				c.knownHit[kf.ID]++
				return
			}
		}
	}
	for _, v := range c.viol {
		if v["clause"] == kind {
			return // one replay per clause
		}
	}
	c.viol = append(c.viol, map[string]any{"property": c.prop, "kind": "failing-input", "clause": kind, "detail": detail, "input": payload, "seed": c.seed})
}

func regexpMatch(pat, s string) (bool, error) {
	if pat == "" {
		return true, nil
	}
	return regexpMatchString(pat, s)
}

func (c *specialCtx) sample(s string) {
	c.mu.Lock()
	if len(c.st.Samples) < 4 {
		c.st.Samples = append(c.st.Samples, s)
	}
	c.mu.Unlock()
}

func (c *specialCtx) count(sig string) {
	c.mu.Lock()
	c.st.Cases++
	c.sigs[sig] = true
	c.mu.Unlock()
}

// tally counts an event of the run under item_classes in the evidence (not a case).
func (c *specialCtx) tally(key string) {
	c.mu.Lock()
	if c.st.ClassHist == nil {
		c.st.ClassHist = map[string]int{}
	}
	c.st.ClassHist[key]++
	c.mu.Unlock()
}

func (c *specialCtx) finish(outPath string) int {
	c.st.Distinct = len(c.sigs)
	c.st.Known = c.knownHit
	ids := make([]string, 0, len(c.knownHit))
	for id := range c.knownHit {
		ids = append(ids, id)
	}
	sort.Strings(ids)
	for _, id := range ids {
		for _, k := range c.known {
			if k.ID == id {
				fmt.Printf("KNOWN-FINDING: property=%s %s: %s (matched %d times)\n", c.prop, id, k.Description, c.knownHit[id])
			}
		}
	}
	exit := 0
	if len(c.viol) > 0 {
		_ = os.MkdirAll(c.replayDir, 0o755)
		for n, v := range c.viol {
			if n >= 3 {
				break
			}
			path := filepath.Join(c.replayDir, fmt.Sprintf("%s-%s-%d-%d.json", c.prop, c.st.Profile, c.seed, n))
			b, _ := json.MarshalIndent(v, "", " ")
			_ = os.WriteFile(path, b, 0o644)
			fmt.Printf("VIOLATION property=%s replay=%s\n  %s: %s\n", c.prop, path, v["clause"], truncate(fmt.Sprint(v["detail"]), 500))
			c.st.Violations = append(c.st.Violations, path)
			exit = 1
		}
	}
	c.st.NoViolation = exit == 0
	if outPath != "" {
		b, _ := json.MarshalIndent(c.st, "", " ")
		_ = os.WriteFile(outPath, b, 0o644)
	}
	return exit
}

func runSpecial(name, prop string, seed int64, n int, drvPath, widths, outPath, replayDir string, known []knownFinding, workers int) int {
	start := time.Now()
	c := &specialCtx{prop: prop, seed: seed, n: n, drvPath: drvPath, widths: widths, replayDir: replayDir, known: known,
		workers: workers, knownHit: map[string]int{}, sigs: map[string]bool{}, outPath: outPath}
	c.st = stats{Property: prop, Profile: name, Seed: seed, ClassHist: map[string]int{}, TagHist: map[string]int{}, SizeHist: map[string]int{},
		BufHist: map[string]int{}, ChunkHist: map[string]int{}, Foreign: map[string]int{}}
	switch name {
	case "lockscenario":
		return lockScenario(seed)
	case "mouse":
		specialMouse(c)
	case "keys":
		specialKeys(c)
	case "kbdexhaustive":
		specialKbd(c)
	case "segmentation":
		specialSegmentation(c)
	case "embed":
		specialEmbed(c)
	case "gridspan":
		specialGridSpan(c)
	case "roundtrip":
		specialRoundTrip(c)
	case "ttymirror":
		specialTTYMirror(c)
	case "streams":
		specialStreams(c)
	case "locks":
		specialLocks(c)
	case "resizeidle":
		specialResizeIdle(c)
	case "spanline":
		specialSpanLine(c)
	case "spanscreen":
		specialSpanScreen(c)
	default:
		fmt.Println("unknown special check", name)
		return 2
	}
	c.st.WallS = time.Since(start).Seconds()
	return c.finish(outPath)
}

// parallel runs f(i, driver) for i in [0,n) on the worker pool, one model driver per worker.
func (c *specialCtx) parallel(n int, f func(i int, d *driver)) {
	jobs := make(chan int, 256)
	var wg sync.WaitGroup
	// watchdog: an iteration that does not finish is a wedge of the implementation; it cannot be
	// interrupted, so report it and end the process
	started := make([]int64, c.workers)
	current := make([]int64, c.workers)
	stop := make(chan struct{})
	defer close(stop)
	go func() {
		for {
			select {
			case <-stop:
				return
			case <-time.After(500 * time.Millisecond):
			}
			now := time.Now().UnixNano()
			for w := range started {
				if t0 := atomic.LoadInt64(&started[w]); t0 != 0 && now-t0 > int64(scaled(specialWatchdog)) {
					i := atomic.LoadInt64(&current[w])
					c.violation("wedge", fmt.Sprintf("iteration %d of the %s check did not finish within %v (the implementation does not terminate on this input)", i, c.st.Profile, specialWatchdog),
						map[string]any{"special": c.st.Profile, "iteration": i, "seed": c.seed})
					os.Exit(c.finish(c.outPath))
				}
			}
		}
	}()
	for w := 0; w < c.workers; w++ {
		wg.Add(1)
		w := w
		go func() {
			defer wg.Done()
			d, err := startDriver(c.drvPath, c.widths)
			if err != nil {
				fmt.Fprintln(os.Stderr, "driver:", err)
				os.Exit(2)
			}
			defer d.close()
			for i := range jobs {
				atomic.StoreInt64(&current[w], int64(i))
				atomic.StoreInt64(&started[w], time.Now().UnixNano())
				f(i, d)
				atomic.StoreInt64(&started[w], 0)
			}
		}()
	}
	for i := 0; i < n; i++ {
		jobs <- i
	}
	close(jobs)
	wg.Wait()
}

func (d *driver) ask(line string) string {
	if err := d.send(line); err != nil {
		return "ERR " + err.Error()
	}
	s, err := d.out.ReadString('\n')
	if err != nil {
		return "ERR " + err.Error()
	}
	return strings.TrimSpace(s)
}

// ---------------------------------------------------------------- C13 mouse

func feedAll(im *impl, data []byte) string {
	im.be.script = append(im.be.script, chunk{data: data})
	for i := 0; i < len(data)+4; i++ {
		err, pan := im.vt.Step()
		if pan != "" {
			return pan
		}
		if err != nil {
			break
		}
	}
	return ""
}

var mouseCoords = []int{1, 2, 94, 95, 96, 127, 128, 222, 223, 224, 255, 256, 2015, 2016, 2017, 65535, 100000}
var mouseCoordsY = []int{1, 95, 96, 223, 224, 2015, 2016, 70000}

// mouseBlockingBackend: the application does not read its input while it is busy writing output.
// A mouse report then waits in the backend's writer — it must not keep the read loop from
// consuming that output (the report is written after the terminal lock has been released).
func mouseBlockingBackend(c *specialCtx) {
	pr, pw := io.Pipe() // application output -> terminal
	rr, rw := io.Pipe() // terminal -> application input
	vt := te.VerifNew(&te.EmptyFrontend{}, te.NewNoPTYBackend(pr, rw), te.TextReadModeRune, false)
	_ = vt.Terminal().Resize(20, 5)
	loopDone := vt.StartLoop()
	_, _ = pw.Write([]byte("\x1b[?1000h\x1b[?1006h"))
	for deadline := time.Now().Add(scaled(5 * time.Second)); time.Now().Before(deadline); time.Sleep(time.Millisecond) {
		ready := false
		vt.Terminal().WithLock(func() {
			sn := vt.Snap()
			ready = sn.ViewInts[0] != 0 && sn.ViewInts[1] == 2
		})
		if ready {
			break
		}
	}
	sent := make(chan struct{})
	go func() {
		_, _ = vt.SendMouse(0, true, 0, 3, 2) // blocks in the writer until the report is read
		close(sent)
	}()
	time.Sleep(20 * time.Millisecond)
	outDone := make(chan struct{})
	go func() {
		chunk := bytes.Repeat([]byte("0123456789abcdef\r\n"), 256)
		for k := 0; k < 16; k++ {
			_, _ = pw.Write(chunk)
		}
		close(outDone)
	}()
	select {
	case <-outDone:
	case <-time.After(scaled(10 * time.Second)):
		c.violation("mouse-report-blocks-loop", "a mouse report waiting in the backend's writer kept the read loop from consuming the application's output (terminal lock held across the write?)", nil)
	}
	buf := make([]byte, 64)
	n := 0
	got1 := make(chan struct{})
	go func() { n, _ = rr.Read(buf); close(got1) }()
	select {
	case <-got1:
	case <-time.After(scaled(5 * time.Second)):
		c.violation("mouse-report", "blocking backend: no report arrived for a press in mode 1000", nil)
		return
	}
	select {
	case <-sent:
	case <-time.After(scaled(5 * time.Second)):
		c.violation("mouse-report-blocks-loop", "SendMouse did not return after its report had been read", nil)
	}
	if got := string(buf[:n]); got != "\x1b[<0;3;2M" && n > 0 {
		c.violation("mouse-report", fmt.Sprintf("blocking backend: report %q", got), nil)
	}
	pw.Close()
	rr.Close()
	select {
	case <-loopDone:
	case <-time.After(scaled(5 * time.Second)):
	}
	c.count("blocking-backend")
}

func specialMouse(c *specialCtx) {
	mouseBlockingBackend(c)
	modes := []string{"", "\x1b[?9h", "\x1b[?1000h", "\x1b[?1002h", "\x1b[?1003h"}
	encs := []string{"", "\x1b[?1005h", "\x1b[?1006h"}
	type combo struct{ mode, enc int }
	var combos []combo
	for m := range modes {
		for e := range encs {
			combos = append(combos, combo{m, e})
		}
	}
	c.parallel(len(combos), func(i int, d *driver) {
		cb := combos[i]
		im, _ := newImpl(0, false, 10, 5)
		feedAll(im, []byte(modes[cb.mode]+encs[cb.enc]))
		for btn := 0; btn < 4; btn++ {
			for press := 0; press < 2; press++ {
				for fl := 0; fl < 32; fl++ {
					mods := fl * 4
					for _, x := range mouseCoords {
						for _, y := range mouseCoordsY {
							im.be.written = im.be.written[:0]
							im.be.writeCalls = 0
							err, pan := im.vt.SendMouse(te.MouseBtn(btn), press == 1, te.MouseFlag(mods), x, y)
							got := "none"
							if len(im.be.written) > 0 {
								got = hex.EncodeToString(im.be.written)
							}
							want := d.ask(fmt.Sprintf("mouse %d %d %d %d %d %d %d", cb.mode, cb.enc, btn, press, mods, x, y))
							ev := fmt.Sprintf("mode=%d enc=%d btn=%d press=%d mods=%d x=%d y=%d", cb.mode, cb.enc, btn, press, mods, x, y)
							c.count(fmt.Sprintf("%d %d %d %d %d %d %d", cb.mode, cb.enc, btn, press, mods, x, y))
							if pan != "" {
								c.violation("mouse-panic", ev+": "+pan, ev)
							} else if err != nil {
								c.violation("mouse-error", ev+": "+err.Error(), ev)
							} else if got != want {
								c.violation("mouse-report", fmt.Sprintf("%s: wrote %s, model %s", ev, got, want), ev)
							}
							if got != "none" && im.be.writeCalls != 1 && cb.enc != 2 {
								c.violation("mouse-one-write", fmt.Sprintf("%s: %d writes", ev, im.be.writeCalls), ev)
							}
						}
					}
				}
			}
		}
		// the same state reached along other paths: sets and resets of the mouse modes and encodings
		// in random order (the model follows through the parser); then a sample of events
		pr := newPrng(uint64(c.seed)*131 + uint64(i))
		for path := 0; path < 40; path++ {
			im2, _ := newImpl(0, false, 10, 5)
			var seq []byte
			for k, n := 0, 2+pr.intn(6); k < n; k++ {
				seq = append(seq, []byte(fmt.Sprintf("\x1b[?%s%s", pick(pr, []string{"9", "1000", "1002", "1003", "1005", "1006", "1015", "1006", "1005", "1000;1006", "1002;1005", "9;1015",
					"1003;1007;1006", "1007;1002", "2026;1005;1000", "1000;;1006", "1048;1006", "1006;1001;1003"}), pick(pr, []string{"h", "l", "h"})))...)
			}
			if path%2 == 0 {
				seq = append(seq, []byte(modes[cb.mode]+encs[cb.enc])...)
			}
			feedAll(im2, seq)
			if _, err := d.cmdBlock("case keep 10 5"); err != nil {
				break
			}
			_ = d.send("feed " + hex.EncodeToString(seq))
			mo, err := d.cmdBlock(fmt.Sprintf("adv %d", len(seq)))
			if err != nil {
				break
			}
			var vf string
			var mMode, mEnc int
			fmt.Sscanf(mo.lines["V"], "V %s %d %d", &vf, &mMode, &mEnc)
			for ev := 0; ev < 24; ev++ {
				btn, press, mods := pr.intn(4), pr.intn(2), 4*pr.intn(32)
				x, y := pick(pr, mouseCoords), pick(pr, mouseCoordsY)
				im2.be.written = im2.be.written[:0]
				_, pan := im2.vt.SendMouse(te.MouseBtn(btn), press == 1, te.MouseFlag(mods), x, y)
				got := "none"
				if len(im2.be.written) > 0 {
					got = hex.EncodeToString(im2.be.written)
				}
				want := d.ask(fmt.Sprintf("mouse %d %d %d %d %d %d %d", mMode, mEnc, btn, press, mods, x, y))
				c.count(fmt.Sprintf("path %q %d %d %d", seq, btn, press, mods))
				if pan != "" || got != want {
					c.violation("mouse-report-after-mode-path", fmt.Sprintf("after %q (model: mode=%d enc=%d) btn=%d press=%d mods=%d x=%d y=%d: wrote %s, model %s %s", seq, mMode, mEnc, btn, press, mods, x, y, got, want, pan), fmt.Sprintf("%q", seq))
					break
				}
			}
		}
		// failing and short-writing backends: an error comes back, never a panic
		for _, failAt := range []int{1} {
			for _, x := range []int{1, 300} {
				// the failing call writes nothing, a few bytes, or the whole report before it fails
				for _, progress := range []int{0, 1, 3, 1000} {
					im.be.written = im.be.written[:0]
					im.be.writeCalls = 0
					im.be.writeErrAt, im.be.writeErrProgress = failAt, progress
					err, pan := im.vt.SendMouse(0, true, 0, x, 1)
					im.be.writeErrAt, im.be.writeErrProgress = 0, 0
					ev := fmt.Sprintf("mode=%d enc=%d write fails after %d bytes", cb.mode, cb.enc, progress)
					if pan != "" {
						c.violation("mouse-write-error-panic", ev+": "+pan, ev)
					} else if cb.mode != 0 && err == nil {
						c.violation("mouse-write-error-lost", ev+": no error returned", ev)
					}
				}
				// … also a later call, after a short first one
				im.be.written = im.be.written[:0]
				im.be.writeCalls = 0
				im.be.writeSizes = []int{2, 100}
				im.be.writeErrAt, im.be.writeErrProgress = 2, 2
				err, pan := im.vt.SendMouse(0, true, 0, x, 1)
				im.be.writeErrAt, im.be.writeErrProgress, im.be.writeSizes = 0, 0, nil
				ev := fmt.Sprintf("mode=%d enc=%d write fails", cb.mode, cb.enc)
				if pan != "" {
					c.violation("mouse-write-error-panic", ev+": "+pan, ev)
				} else if cb.mode != 0 && err == nil {
					c.violation("mouse-write-error-lost", ev+" (second call, after 2 more bytes): no error returned", ev)
				}
				// short writes: the whole report is delivered
				im.be.written = im.be.written[:0]
				im.be.writeCalls = 0
				im.be.writeSizes = []int{1, 2, 1, 1, 3, 1, 1, 1, 1, 1, 1, 1, 1, 1, 1, 1, 1, 1, 1, 1}
				_, pan = im.vt.SendMouse(0, true, 0, x, 1)
				got := hex.EncodeToString(im.be.written)
				im.be.writeSizes = nil
				want := d.ask(fmt.Sprintf("mouse %d %d 0 1 0 %d 1", cb.mode, cb.enc, x))
				if want == "none" {
					want = ""
				}
				if pan != "" || got != want {
					c.violation("mouse-short-write", fmt.Sprintf("%s x=%d: wrote %s want %s %s", ev, x, got, want, pan), ev)
				}
			}
		}
	})
	c.sample("mode=?1002 enc=SGR btn=0 press=1 mods=36 x=224 y=1")
	c.st.Samples = append(c.st.Samples, "every (4 buttons x press/release x 32 flag sets x 17 x-coordinates x 8 y-coordinates x 5 modes x 3 encodings) event is compared with the model")
}

// ---------------------------------------------------------------- C12 keys

func keyCmd(flags, mok int, app bool, ev te.KeyEvent) string {
	text := "-"
	if len(ev.Text) > 0 {
		parts := make([]string, len(ev.Text))
		for i, r := range ev.Text {
			parts[i] = fmt.Sprint(int(r))
		}
		text = strings.Join(parts, ":")
	}
	return fmt.Sprintf("key %d %d %d %d %d %d %d %d %d %s", flags, mok, b2i(app), int(ev.Code), int(ev.Rune), int(ev.Mod), int(ev.Event), int(ev.Shifted), int(ev.BaseLayout), text)
}

var keyRunes = []rune{'a', 'z', 'A', 'Z', '0', '5', '9', ' ', '@', '[', '\\', ']', '^', '_', '?', '/', '~', '-', '=', ';', '\'', ',', '.', '`', '!', 'é', 'ß', 'λ', 'Ж', '€', '中', '🐹', 0x7f, 0x1b, 0x0d, 0x09, 0x80, 0xff, 0x7ff, 0x800, 0xffff, 0x10000, 0x10ffff}

func specialKeys(c *specialCtx) {
	// terminal states: 32 flag sets x modifyOtherKeys 0/1/2 x application cursor keys
	type tstate struct {
		flags, mok int
		app        bool
	}
	var states []tstate
	for f := 0; f < 32; f++ {
		for mok := 0; mok < 3; mok++ {
			for app := 0; app < 2; app++ {
				states = append(states, tstate{f, mok, app == 1})
			}
		}
	}
	perState := c.n / len(states)
	if perState < 50 {
		perState = 50
	}
	c.parallel(len(states), func(i int, d *driver) {
		ts := states[i]
		im, _ := newImpl(0, false, 10, 5)
		setup := fmt.Sprintf("\x1b[=%du\x1b[>4;%dm", ts.flags, ts.mok)
		if i%3 == 1 {
			// the same state on the alternate buffer, while the main buffer holds other flags
			setup = fmt.Sprintf("\x1b[=%du\x1b[?1049h\x1b[=%du\x1b[>4;%dm", (ts.flags*7+5)%32, ts.flags, ts.mok)
		} else if i%3 == 2 {
			// … and on the main buffer after a visit to the alternate one that set other flags
			setup = fmt.Sprintf("\x1b[=%du\x1b[?1049h\x1b[=%du\x1b[>%du\x1b[?1049l\x1b[>4;%dm", ts.flags, (ts.flags*11+3)%32, (ts.flags+9)%32, ts.mok)
		}
		if i%7 == 3 {
			// the state is reached by overflowing the stack of saved flags and popping back
			var sb strings.Builder
			fmt.Fprintf(&sb, "\x1b[=%du", (ts.flags+1)%32)
			for k := 0; k < 36; k++ {
				fmt.Fprintf(&sb, "\x1b[>%du", (k*5+ts.flags)%32)
			}
			sb.WriteString("\x1b[<u\x1b[<u\x1b[<2u")
			fmt.Fprintf(&sb, "\x1b[>4;%dm", ts.mok)
			setup = sb.String()
		}
		switch i % 11 {
		case 5:
			// modifyOtherKeys set and then reset by the one-parameter form; the level in force is
			// what the model's parser makes of it
			setup += pick(newPrng(uint64(i)), []string{"\x1b[>4;2m\x1b[>4m", "\x1b[>4;1m\x1b[>4;m", "\x1b[>4;2m\x1b[>4;0m", "\x1b[>4;2m\x1b[>4;1m"})
		case 2:
			// flags reached by CLEARING bits (mode 3), some of which are not set at that point
			setup = fmt.Sprintf("\x1b[=%du\x1b[=%d;3u", ts.flags|((ts.flags*3+1)%32), (ts.flags*5+9)%32) + fmt.Sprintf("\x1b[>4;%dm", ts.mok)
		case 8:
			// flags reached by popping more entries than were pushed (reset to 0), then set again or not
			setup = fmt.Sprintf("\x1b[=%du\x1b[>%du\x1b[<2u", (ts.flags+3)%32, (ts.flags+8)%32) + pick(newPrng(uint64(i)), []string{"", fmt.Sprintf("\x1b[=%d;2u", ts.flags)}) + fmt.Sprintf("\x1b[>4;%dm", ts.mok)
		}
		if ts.app {
			setup += "\x1b[?1h"
		}
		feedAll(im, []byte(setup))
		// the flags in force are what the MODEL's parser makes of the same sequences
		if _, err := d.cmdBlock("case keep 10 5"); err == nil {
			_ = d.send("feed " + hex.EncodeToString([]byte(setup)))
			if mo, err := d.cmdBlock(fmt.Sprintf("adv %d", len(setup))); err == nil {
				line := mo.lines["M"]
				if strings.HasSuffix(mo.lines["G"], " 1") {
					line = mo.lines["A"]
				}
				if f := strings.Fields(line); len(f) >= 13 {
					var mf int
					fmt.Sscanf(f[11], "%d", &mf)
					snap := im.vt.Snap()
					act := 0
					if snap.OnAlt {
						act = 1
					}
					if snap.KbdFlags[act] != mf {
						c.violation("key-state", fmt.Sprintf("after %q the flags in force are %d, the model says %d", setup, snap.KbdFlags[act], mf), setup)
					}
					ts.flags = mf
				}
				// … and so is the modifyOtherKeys level (third view integer)
				if f := strings.Fields(mo.lines["V"]); len(f) >= 5 {
					var mm int
					if _, err := fmt.Sscanf(f[4], "%d", &mm); err == nil {
						if snap := im.vt.Snap(); len(snap.ViewInts) > 2 && snap.ViewInts[2] != mm {
							c.violation("key-state", fmt.Sprintf("after %q the modifyOtherKeys level is %d, the model says %d", setup, snap.ViewInts[2], mm), setup)
						}
						ts.mok = mm
					}
				}
			}
		}
		r := newPrng(uint64(c.seed)*1000 + uint64(i))
		check := func(ev te.KeyEvent) {
			got := hexOrDash(im.vt.EncodeKey(ev))
			want := d.ask(keyCmd(ts.flags, ts.mok, ts.app, ev))
			c.count(fmt.Sprintf("%d/%d/%d/%d/%d", ts.flags, int(ev.Code), int(ev.Mod), int(ev.Event), int(ev.Rune)))
			// recorded deviations of the encoder from keyboard-protocol.rst (known findings): the
			// model transcribes the code, so they are detected here by their trigger
			if got != "-" {
				kp := int(ev.Code) >= 56 && int(ev.Code) <= 84
				textKey := ev.Code == 0 && ev.Rune != 0
				switch {
				case ts.flags&8 != 0 && ts.flags&1 == 0 && kp:
					c.violation("kitty-doc-keypad-report-all", "report-all-keys without disambiguate: keypad key sent as its plain equivalent", nil)
				case ts.flags&8 == 0 && ts.flags&1 != 0 && textKey && int(ev.Mod)&0xc0 != 0 && int(ev.Mod)&0x3e != 0:
					c.violation("kitty-doc-lock-mods", "lock modifiers reported for a text key without report-all-keys", nil)
				case ts.flags&24 == 24 && textKey && len(ev.Text) == 0 && (int(ev.Mod)&5 != 0 || ev.Event == 3):
					c.violation("kitty-doc-text-field", "associated text emitted with ctrl/shift (unshifted rune) or on release", nil)
				}
			}
			if got != want {
				c.violation("key-encoding", fmt.Sprintf("flags=%d mok=%d app=%v ev=%+v: wrote %s, model %s", ts.flags, ts.mok, ts.app, ev, got, want),
					map[string]any{"flags": ts.flags, "mok": ts.mok, "app": ts.app, "code": int(ev.Code), "rune": int(ev.Rune), "mod": int(ev.Mod), "event": int(ev.Event)})
			}
		}
		// the finite part, stratified: every code with a rotating selection of modifier masks and events
		for code := 0; code < 112; code++ {
			for k := 0; k < 6; k++ {
				mod := r.intn(256)
				if k == 0 {
					mod = 0
				} else if k == 1 {
					mod = 1 << r.intn(8)
				}
				ev := te.KeyEvent{Code: te.KeyCode(code), Mod: te.KeyMod(mod), Event: te.KeyEventType(r.intn(4))}
				if code == 0 {
					ev.Rune = pick(r, keyRunes)
				}
				check(ev)
			}
		}
		for k := 0; k < perState; k++ {
			ev := te.KeyEvent{Code: te.KeyCode(r.intn(112)), Mod: te.KeyMod(r.intn(256)), Event: te.KeyEventType(r.intn(4))}
			if r.chance(1, 2) {
				ev.Code = 0
			}
			if r.chance(1, 3) {
				ev.Mod = te.KeyMod([]int{0, 1, 2, 4, 5, 6, 3, 7, 8, 64, 128}[r.intn(11)])
			}
			if ev.Code == 0 || r.chance(1, 6) {
				ev.Rune = pick(r, keyRunes)
				if r.chance(1, 4) {
					ev.Rune = rune(r.intn(0x110000))
				}
			}
			if r.chance(1, 3) {
				ev.Shifted = pick(r, keyRunes)
			}
			if r.chance(1, 3) {
				ev.BaseLayout = pick(r, keyRunes)
			}
			if r.chance(1, 4) {
				for j, m := 0, 1+r.intn(3); j < m; j++ {
					ev.Text = append(ev.Text, pick(r, keyRunes))
				}
			}
			check(ev)
		}
		// the write path: SendKey delivers exactly the encoding (also over short writes)
		for k := 0; k < 20; k++ {
			ev := te.KeyEvent{Code: te.KeyCode(r.intn(112)), Mod: te.KeyMod(r.intn(8)), Event: te.KeyEventType(r.intn(4)), Rune: pick(r, keyRunes)}
			im.be.written = im.be.written[:0]
			im.be.writeCalls = 0
			im.be.writeSizes = []int{1, 2, 1, 3, 1, 1, 1, 1, 1, 1, 1, 1, 1, 1, 1, 1, 1, 1, 1, 1, 1, 1, 1, 1, 1, 1, 1, 1, 1, 1, 1, 1}
			n, err := im.term.SendKey(ev)
			im.be.writeSizes = nil
			want := im.vt.EncodeKey(ev)
			if err != nil || n != len(want) || !bytes.Equal(im.be.written, want) {
				c.violation("key-write", fmt.Sprintf("SendKey(%+v) = (%d,%v), wrote %x, encoding %x", ev, n, err, im.be.written, want), nil)
			}
		}
	})
	c.sample("flags=1 code=KeyRune rune='a' mod=ctrl event=press -> 1b5b39373b3575")
}

// ---------------------------------------------------------------- C19 exhaustive

func specialKbd(c *specialCtx) {
	alphabet := []string{"\x1b[>1u", "\x1b[>5u", "\x1b[<u", "\x1b[<2u", "\x1b[=3u", "\x1b[=4;2u", "\x1b[=1;3u", "\x1b[?u", "\x1b[?1049h", "\x1b[?1049l"}
	depth := 4
	if c.n > 1 {
		depth = 5
	}
	total := 1
	for i := 0; i < depth; i++ {
		total *= len(alphabet)
	}
	var mu sync.Mutex
	c.parallel(total, func(i int, d *driver) {
		var items []Item
		x := i
		for k := 0; k < depth; k++ {
			items = append(items, in("kbd", []byte(alphabet[x%len(alphabet)])))
			x /= len(alphabet)
		}
		cs := Case{W: 4, H: 2, Items: items}
		res := runCase(&cs, d, runOpts{})
		c.count(fmt.Sprint(i))
		for _, f := range res.Findings {
			if owns("C19", f) || f.Kind == "panic" {
				mu.Lock()
				c.violation("kbd-"+f.Kind+"-"+f.Clause, f.Detail, cs)
				mu.Unlock()
			}
		}
	})
	// deep sequences beyond the 32-entry limit
	r := newPrng(uint64(c.seed))
	for k := 0; k < 40; k++ {
		var items []Item
		for j, n := 0, 30+r.intn(60); j < n; j++ {
			items = append(items, in("kbd", []byte(fmt.Sprintf("\x1b[>%du", r.intn(32)))))
		}
		for j, n := 0, r.intn(50); j < n; j++ {
			items = append(items, in("kbd", []byte(pick(r, []string{"\x1b[<u", "\x1b[<3u", "\x1b[?u", "\x1b[<40u"}))))
		}
		cs := Case{W: 4, H: 2, Items: items}
		d, err := startDriver(c.drvPath, c.widths)
		if err != nil {
			return
		}
		res := runCase(&cs, d, runOpts{})
		d.close()
		c.count(fmt.Sprint("deep", k))
		for _, f := range res.Findings {
			if owns("C19", f) || f.Kind == "panic" {
				c.violation("kbd-"+f.Kind+"-"+f.Clause, f.Detail, cs)
			}
		}
	}
	c.st.Samples = append(c.st.Samples, fmt.Sprintf("all %d sequences of length %d over %q", total, depth, alphabet))
}

// ---------------------------------------------------------------- C08 segmentation

func concatInput(cs *Case) []byte {
	var data []byte
	for _, it := range cs.Items {
		if it.Kind == "in" {
			data = append(data, it.bytes()...)
		}
	}
	return data
}

// finalOf runs the implementation alone on data cut as given and returns its final observation.
func finalOf(mode int, grid bool, w, h int, chunks [][]byte) (lines []string, replies []byte, events []string, pan string, bad []finding) {
	im, p := newImpl(mode, grid, w, h)
	if p != "" {
		return nil, nil, nil, p, nil
	}
	total := 0
	for _, ch := range chunks {
		im.be.script = append(im.be.script, chunk{data: append([]byte(nil), ch...)})
		total += len(ch)
	}
	for i := 0; i < total+len(chunks)+8; i++ {
		err, p := im.vt.Step()
		if p != "" {
			return nil, nil, nil, p, nil
		}
		if err != nil {
			break
		}
	}
	o, snap := im.observe(true)
	o.G = "G - " + o.G[strings.LastIndex(o.G, " ")+1:]
	o.E = ""
	o.W = ""
	lines = o.lines()
	replies = append([]byte(nil), im.be.written...)
	for _, e := range im.fe.events {
		switch e.kind {
		case "b", "f", "i", "t":
			events = append(events, e.s)
		}
	}
	// what a frontend reads back for a part of a row (StyledLine sub-ranges around wide characters:
	// how the row is stored in runs depends on how the text arrived, what is read back must not)
	{
		act := 0
		if snap.OnAlt {
			act = 1
		}
		sc := &snap.Screens[act]
		rowsDone := 0
		for y := 0; y < len(sc.Rows) && rowsDone < 4; y++ {
			var xs []int
			for x, cl := range sc.Rows[y].Cells {
				if cl.Cont && len(xs) < 9 {
					xs = append(xs, x-1, x, x+1)
				}
			}
			if len(xs) == 0 {
				continue
			}
			rowsDone++
			for _, x := range xs {
				if x < 0 || x >= sc.W {
					continue
				}
				for _, w := range []int{1, 2, 3, sc.W - x} {
					if x+w > sc.W {
						continue
					}
					func() {
						defer func() {
							if r := recover(); r != nil {
								lines = append(lines, fmt.Sprintf("SL %d %d %d panic %v", y, x, w, r))
							}
						}()
						l := im.vt.Terminal().StyledLine(x, w, y)
						lines = append(lines, fmt.Sprintf("SL %d %d %d %s", y, x, w, rowString(expandLine(l, mode == 1))))
					}()
				}
			}
		}
	}
	events = append(events, o.L) // total rows announced through ScrollLines
	// frontend-visible effect of the geometric notifications: the shadow copy and last values
	im.checkAPI(&snap, 0, "final", &bad)
	return
}

func cutAt(data []byte, cuts []int) [][]byte {
	var out [][]byte
	prev := 0
	for _, c := range cuts {
		if c > prev && c < len(data) {
			out = append(out, data[prev:c])
			prev = c
		}
	}
	return append(out, data[prev:])
}

func specialSegmentation(c *specialCtx) {
	prof := &profile{name: "C08", weights: withWeights(map[string]int{"textwide": 14, "badutf8": 4, "osc": 4, "sgr": 10, "query": 5, "kbd": 3, "oddcsi": 4,
		"textzero": 6, "altscreen": 4, "goto": 12, "erase": 6}), macros: 6, macroSet: []string{"alt-text-edge", "mark-after-motion", "alt-roundtrip", "wide-splice"},
		minLen: 2, maxLen: 25, grid: 25, chunks: []int{0}}
	master := newPrng(uint64(c.seed))
	seeds := make([]uint64, c.n)
	for i := range seeds {
		seeds[i] = master.next()
	}
	c.parallel(c.n, func(i int, d *driver) {
		r := newPrng(seeds[i])
		cs := genCase(prof, r)
		if i%5 == 0 {
			// grapheme mode: cuts between clusters only (below); generated as a grapheme-mode case
			// (combining marks, joiners and selectors inside and at the start of runs)
			gp := *prof
			gp.gmode, gp.grid, gp.macros, gp.macroSet = 100, 0, 12, []string{"mark-after-motion", "wide-edges", "indicator-after-control"}
			gp.weights = withWeights(map[string]int{"textwide": 14, "textzero": 12, "sgr": 10, "query": 4, "osc": 3})
			delete(gp.weights, "badutf8")
			cs = genCase(&gp, r)
			cs.Mode = 1
			cs.Grid = false
			if r.chance(1, 2) {
				// flag emoji (regional-indicator pairs) in the middle of text, at and around the right edge
				for k, n := 0, 1+r.intn(3); k < n; k++ {
					flag := pick(r, []string{"🇺🇸", "🇩🇪", "🇯🇵"})
					pre := strings.Repeat("x", r.intn(4))
					it := []Item{in("wrap", []byte(pick(r, []string{"\x1b[?7h", "\x1b[?7h", "\x1b[?7l"}))),
						in("goto", []byte(fmt.Sprintf("\x1b[%d;%dH", 1+r.intn(cs.H), 1+max(0, cs.W-1-len(pre)-r.intn(3))))),
						in("textwide", []byte(pre+flag+pick(r, []string{"", "Z", flag})))}
					at := r.intn(len(cs.Items) + 1)
					cs.Items = append(cs.Items[:at], append(it, cs.Items[at:]...)...)
				}
			}
		}
		data := concatInput(&cs)
		if i%40 == 7 {
			// long stream straddling the reader's buffer sizes
			pad := bytes.Repeat([]byte("abcdefgh\r\n\x1b[31mxy\x1b[0m🐹é"), 200)
			data = append(pad[:4090+r.intn(12)], data...)
		}
		if len(data) == 0 {
			return
		}
		// the sanctioned corner: a run of several characters written onto the second cell of a wide character
		{
			probe := Case{Mode: cs.Mode, Grid: cs.Grid, W: cs.W, H: cs.H, Items: []Item{in("all", data)}}
			pr := runCase(&probe, d, runOpts{})
			for _, f := range pr.Findings {
				// grapheme mode: the recorded corners whose outcome depends on where runs begin
				if f.Kind == "monitor" && (f.Clause == "zero-width-format-char" || f.Clause == "zwj-force-merge" || f.Clause == "merge-changes-width") {
					c.mu.Lock()
					c.st.Cut++
					c.mu.Unlock()
					c.violation(f.Clause, f.Detail, nil)
					return
				}
			}
			if pr.Sanctioned {
				c.mu.Lock()
				c.st.Cut++
				c.mu.Unlock()
				c.violation("keep-wide-run", "a run of several characters written onto the second cell of a wide character (span buffer)", nil)
				return
			}
		}
		ref, refW, refE, refPan, refBad := finalOf(cs.Mode, cs.Grid, cs.W, cs.H, [][]byte{data})
		c.count(fmt.Sprintf("%d %v %dx%d %x", cs.Mode, cs.Grid, cs.W, cs.H, data))
		payload := map[string]any{"mode": cs.Mode, "grid": cs.Grid, "w": cs.W, "h": cs.H, "hex": hex.EncodeToString(data)}
		if refPan != "" {
			return // C01's business
		}
		for _, f := range refBad {
			if f.Prop == "C10" {
				return // C10's business
			}
		}
		var segs [][][]byte
		if cs.Mode == 0 {
			bytewise := make([][]byte, len(data))
			for k := range data {
				bytewise[k] = data[k : k+1]
			}
			segs = append(segs, bytewise)
			if len(data) <= 400 {
				for k := 1; k < len(data); k++ { // every single cut
					segs = append(segs, cutAt(data, []int{k}))
				}
			} else {
				for _, k := range []int{4095, 4096, 4097, 8191, 8192, 8193, len(data) - 1} {
					segs = append(segs, cutAt(data, []int{k}))
				}
				segs = append(segs, cutAt(data, []int{4096, 8192}))
			}
			for k := 0; k < 6; k++ { // random multi-cuts
				var cuts []int
				for p := 0; p < len(data); p += 1 + r.intn(9) {
					cuts = append(cuts, p)
				}
				segs = append(segs, cutAt(data, cuts))
			}
			if len(data) <= 9 { // exhaustive
				for m := 0; m < 1<<(len(data)-1); m++ {
					var cuts []int
					for b := 0; b < len(data)-1; b++ {
						if m>>b&1 == 1 {
							cuts = append(cuts, b+1)
						}
					}
					segs = append(segs, cutAt(data, cuts))
				}
			}
		} else {
			// grapheme mode: cuts that do not fall inside an extended grapheme cluster
			var bounds []int
			pos := 0
			for _, cl := range graphemeClusters(string(data)) {
				pos += len(cl.text)
				bounds = append(bounds, pos)
			}
			for k := 0; k < 8; k++ {
				var cuts []int
				for _, b := range bounds {
					if r.chance(1, 3) {
						cuts = append(cuts, b)
					}
				}
				segs = append(segs, cutAt(data, cuts))
			}
		}
		if i%3 == 1 {
			// a read that returns no bytes and no error is a segment too: the same segmentations
			// with such reads at the cuts (at the only cut; at a third of the cuts of a multi-cut)
			var extra [][][]byte
			for _, sg := range segs {
				if len(sg) < 2 || len(sg) > 60 {
					continue
				}
				var z [][]byte
				for k, part := range sg {
					z = append(z, part)
					if k < len(sg)-1 && (len(sg) == 2 || r.chance(1, 3)) {
						z = append(z, []byte{})
					}
				}
				extra = append(extra, z)
			}
			segs = append(segs, extra...)
		}
		for _, sg := range segs {
			got, gotW, gotE, pan, _ := finalOf(cs.Mode, cs.Grid, cs.W, cs.H, sg)
			c.mu.Lock()
			c.st.Steps++
			c.mu.Unlock()
			var sizes []int
			for _, s := range sg {
				sizes = append(sizes, len(s))
			}
			payload["chunks"] = sizes
			if pan != "" {
				c.violation("segmentation-panic", fmt.Sprintf("chunks %v: %s", sizes, pan), payload)
				return
			}
			if strings.Join(got, "\n") != strings.Join(ref, "\n") {
				c.violation("segmentation-state", fmt.Sprintf("chunks %v: final state differs: %s", sizes, firstDiff(ref, got)), payload)
				return
			}
			if !bytes.Equal(gotW, refW) {
				c.violation("segmentation-replies", fmt.Sprintf("chunks %v: replies %x vs %x", sizes, gotW, refW), payload)
				return
			}
			if strings.Join(gotE, ",") != strings.Join(refE, ",") {
				c.violation("segmentation-events", fmt.Sprintf("chunks %v: notifications differ", sizes), payload)
				return
			}
		}
		if i < 3 {
			c.sample(fmt.Sprintf("%dx%d %q under %d segmentations", cs.W, cs.H, string(data), len(segs)))
		}
	})
}

func firstDiff(a, b []string) string {
	for i := 0; i < len(a) && i < len(b); i++ {
		if a[i] != b[i] {
			return fmt.Sprintf("one read [%s] segmented [%s]", truncate(a[i], 300), truncate(b[i], 300))
		}
	}
	return fmt.Sprintf("%d vs %d lines", len(a), len(b))
}

// ---------------------------------------------------------------- C09 embedding

func specialEmbed(c *specialCtx) {
	master := newPrng(uint64(c.seed))
	seeds := make([]uint64, c.n)
	for i := range seeds {
		seeds[i] = master.next()
	}
	c.parallel(c.n, func(i int, d *driver) {
		r := newPrng(seeds[i])
		g := &genCtx{r: r, w: 4 + r.intn(10), h: 2 + r.intn(6)}
		mk := func() []byte {
			var b []byte
			for k, n := 0, r.intn(4); k < n; k++ {
				it := g.item(pick(r, []string{"text", "textwide", "sgr", "goto", "crlf", "wrap"}))
				b = append(b, it.bytes()...)
			}
			return b
		}
		pre, post := mk(), mk()
		var seq []byte
		switch r.intn(6) {
		case 0, 1:
			seq = g.item("oddcsi").bytes()
		case 2:
			seq = g.item("esc").bytes()
		case 3:
			seq = g.item("dcs").bytes()
		case 4:
			num := pick(r, []string{"1", "3", "4", "5", "8", "9", "10", "11", "52", "104", "112", "133", "777"})
			seq = append([]byte("\x1b]"+num+";"), g.text(r.intn(10), true, false)...)
			if r.chance(1, 3) {
				seq = append(seq, []byte("✜œ")...)
			}
			seq = append(seq, pick(r, [][]byte{{7}, {27, '\\'}})...)
		default:
			seq = g.item("manyparams").bytes()
		}
		// is the sequence a no-op in the model? (unrecognised, or recognised with no effect here)
		probe := Case{W: g.w, H: g.h, Items: []Item{in("pre", pre), in("seq", seq)}}
		pr := runCase(&probe, d, runOpts{keepFinal: true})
		base := Case{W: g.w, H: g.h, Items: []Item{in("pre", pre)}}
		br := runCase(&base, d, runOpts{keepFinal: true})
		if len(pr.Findings) > 0 || len(br.Findings) > 0 || pr.Sanctioned || br.Sanctioned {
			return
		}
		stripG := func(l []string) string { return strings.Join(l[1:], "\n") }
		if stripG(pr.Final) != stripG(br.Final) || !bytes.Equal(pr.Replies, br.Replies) || strings.Join(pr.Events, ",") != strings.Join(br.Events, ",") {
			return // the sequence is recognised and does something: not this check's subject
		}
		with := append(append(append([]byte(nil), pre...), seq...), post...)
		without := append(append([]byte(nil), pre...), post...)
		a, aW, aE, aPan, _ := finalOf(0, false, g.w, g.h, [][]byte{with})
		b, bW, bE, bPan, _ := finalOf(0, false, g.w, g.h, [][]byte{without})
		c.count(hex.EncodeToString(seq))
		payload := map[string]any{"w": g.w, "h": g.h, "pre": hex.EncodeToString(pre), "seq": hex.EncodeToString(seq), "post": hex.EncodeToString(post)}
		if aPan != "" || bPan != "" {
			return
		}
		if strings.Join(a, "\n") != strings.Join(b, "\n") || !bytes.Equal(aW, bW) || strings.Join(aE, ",") != strings.Join(bE, ",") {
			c.violation("embed-residue", fmt.Sprintf("sequence %q between %q and %q leaves a residue: %s", seq, pre, post, firstDiff(b, a)), payload)
		}
		if i < 4 {
			c.sample(fmt.Sprintf("%q ++ %q ++ %q", pre, seq, post))
		}
	})
}

// ---------------------------------------------------------------- C20 grid vs span

func specialGridSpan(c *specialCtx) {
	prof := profiles["C20"]
	master := newPrng(uint64(c.seed))
	seeds := make([]uint64, c.n)
	for i := range seeds {
		seeds[i] = master.next()
	}
	c.parallel(c.n, func(i int, d *driver) {
		r := newPrng(seeds[i])
		cs := genCase(prof, r)
		cs.Chunk = 0
		// drive both buffers step by step on the same input; the model (keep policy) tells where
		// the sanctioned difference begins
		cs.Grid = false
		span := runCaseTrace(&cs, d)
		cs.Grid = true
		grid := runCaseTrace(&cs, nil)
		c.count(fmt.Sprint(signatureOfTrace(span)))
		// the two buffers cut text into different steps: compare wherever both have consumed
		// the same number of bytes (and after every resize)
		gi := 0
		for k := 0; k < len(span.obs); k++ {
			if span.sanctionedAt >= 0 && k >= span.sanctionedAt {
				c.mu.Lock()
				c.st.Cut++
				c.mu.Unlock()
				break
			}
			for gi < len(grid.obs) && grid.at[gi] < span.at[k] {
				gi++
			}
			if gi >= len(grid.obs) {
				break
			}
			if grid.at[gi] != span.at[k] {
				continue
			}
			// take the last grid observation at this position
			for gi+1 < len(grid.obs) && grid.at[gi+1] == span.at[k] {
				gi++
			}
			if k+1 < len(span.obs) && span.at[k+1] == span.at[k] {
				continue
			}
			if span.obs[k] != grid.obs[gi] {
				c.violation("grid-span-differ", fmt.Sprintf("after %d bytes (%s): span vs grid: %s", span.at[k]%1000000, span.tags[k], truncate(diffLines(span.obs[k], grid.obs[gi]), 900)), cs)
				break
			}
		}
		if span.pan != grid.pan && span.sanctionedAt < 0 {
			c.violation("grid-span-panic", fmt.Sprintf("span panic %q grid panic %q", span.pan, grid.pan), cs)
		}
		if i < 2 {
			c.sample(cs.String())
		}
	})
}

type trace struct {
	obs          []string // full observation per step (cells of both buffers, geometry, modes)
	at           []int    // position of the observation: resizes so far * 1000000 + bytes consumed
	tags         []string
	sanctionedAt int
	pan          string
}

func signatureOfTrace(t trace) string { return strings.Join(t.tags, "|") }

func diffLines(a, b string) string {
	la, lb := strings.Split(a, "\n"), strings.Split(b, "\n")
	for i := 0; i < len(la) && i < len(lb); i++ {
		if la[i] != lb[i] {
			return la[i] + "  <>  " + lb[i]
		}
	}
	return "length"
}

// runCaseTrace runs the implementation and records a full observation after every step. With a
// driver the model runs along (span/keep policy) to find the first write onto a continuation cell.
func runCaseTrace(cs *Case, d *driver) trace {
	tr := trace{sanctionedAt: -1}
	im, pan := newImpl(cs.Mode, cs.Grid, cs.W, cs.H)
	if pan != "" {
		tr.pan = pan
		return tr
	}
	if d != nil {
		if _, err := d.cmdBlock(fmt.Sprintf("case keep %d %d", cs.W, cs.H)); err != nil {
			d = nil
		}
	}
	resizes := 0
	var evs []string
	shadowBad := false
	scrolledTotal := 0
	record := func(tag string) {
		o, _ := im.observe(true)
		// rows announced through ScrollLines so far (must agree between the buffers)
		var k int
		fmt.Sscanf(o.L, "L %d", &k)
		scrolledTotal += k
		// notifications and replies accumulate (the buffers cut text into different steps)
		if o.E != "E -" {
			evs = append(evs, o.E[2:])
		}
		o.E = "E " + strings.Join(evs, ",")
		o.W = "W " + hexOrDash(im.be.written)
		lastCur := ""
		if im.fe.haveCursor {
			lastCur = fmt.Sprintf(" last-cursor=%d,%d", im.fe.lastCursor[0], im.fe.lastCursor[1])
		}
		// equivalent change notifications: a frontend repainting what is announced is in sync
		// on both buffers or on neither
		var fs []finding
		snap := im.vt.Snap()
		im.checkAPI(&snap, 0, tag, &fs)
		for _, f := range fs {
			if f.Prop == "C10" && f.Clause == "shadow" {
				shadowBad = true
			}
		}
		if shadowBad {
			o.V += " shadow-out-of-sync"
		}
		// the cursor position the frontend was last told (the buffers notify at different
		// moments, but after the same input the last report must be the same)
		o.V += lastCur + fmt.Sprintf(" scrolled-off=%d", scrolledTotal)
		ls := o.lines()
		tr.obs = append(tr.obs, strings.Join(ls[1:], "\n")) // without the consumed count
		tr.at = append(tr.at, resizes*1000000+im.consumed())
		tr.tags = append(tr.tags, tag)
	}
	for _, it := range cs.Items {
		switch it.Kind {
		case "resize":
			if p := im.resize(it.W, it.H); p != "" {
				tr.pan = p
				return tr
			}
			if d != nil {
				d.cmdBlock(fmt.Sprintf("resize %d %d", it.W, it.H))
			}
			resizes++
			record("resize")
		case "in":
			data := it.bytes()
			im.be.script = append(im.be.script, chunk{data: data})
			if d != nil {
				d.send("feed " + it.Hex)
			}
			for k := 0; k < len(data)+8; k++ {
				err, p := im.vt.Step()
				if p != "" {
					tr.pan = p
					return tr
				}
				if err != nil {
					if d != nil {
						d.cmdBlock("eof")
					}
					break
				}
				tag := "?"
				if d != nil {
					cmd := fmt.Sprintf("adv %d", im.consumed())
					if len(im.be.script) == 0 && im.vt.Buffered() == 0 {
						cmd += " eof"
					}
					mo, err := d.cmdBlock(cmd)
					if err == nil {
						tag = strings.Join(mo.tags, ",")
						if strings.Contains(tag, "tK") && tr.sanctionedAt < 0 {
							tr.sanctionedAt = len(tr.obs)
						}
					}
				}
				record(tag)
			}
		}
	}
	return tr
}
