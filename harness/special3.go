package main

// spanline: the run lists of the span buffer (lean/TM/SpanLine.lean) against the real row-level
// functions of screen.go (hook VerifLineOp): replaceRangeWide, truncateLine, resizeLine,
// findSpanAtX, writeSpanAt, deleteChars, eraseRegion, Line, StyledLine. Rows come from real
// terminals after generated input (every row of the final screens, whatever runs the code left
// there) and from a synthetic generator (runs of every kind next to each other); the result is
// compared run by run (style, text bytes, rune, width), with the cached width, the splice info,
// the announced columns, and the cells both sides expand the runs to. The model's invariant
// `lineOK` is evaluated before and after (C02's statement about one row).

import (
	"encoding/hex"
	"errors"
	"fmt"
	"io"
	"strings"

	te "github.com/ricochet1k/termemu"
)

func runStr(r te.VerifRun) string {
	t := "-"
	if r.Text != "" {
		t = hex.EncodeToString([]byte(r.Text))
	}
	return fmt.Sprintf("%x.%x.%x;%s;%d;%d", r.Style[0], r.Style[1], r.Style[2], t, r.Rune, r.Width)
}

func runsStr(rs []te.VerifRun) string {
	if len(rs) == 0 {
		return "-"
	}
	parts := make([]string, len(rs))
	for i, r := range rs {
		parts[i] = runStr(r)
	}
	return strings.Join(parts, "_")
}

func styRaw(s [3]uint32) string { return fmt.Sprintf("%x.%x.%x", s[0], s[1], s[2]) }

var slStyles = [][3]uint32{
	{0x100, 0x100, 0x100},        // default
	{0x1000001, 0x100, 0x100},    // bold red-ish (mode bit + index 1)
	{0x100, 0x4, 0x100},          // bg index 4
	{0x80ff0000, 0x100, 0x100},   // rgb fg
	{0x100, 0x1000100, 0x100},    // a mode of the second word
	{0x202, 0x203, 0x100},        // bright
	{0, 0, 0},                    // the zero Style{}
}

// synthetic text pieces: (text, width) with the width the rune-mode tokeniser gives
var slPieces = []string{"a", "b", "xyz", "hello world", "é", "aé", "世", "世界", "a世b", "🐹", "x🐹y🐹", "ñandú", "é", " ", "~", "0123456789"}

func textWidth(s string) int {
	w := 0
	for _, r := range s {
		w += te.VerifRuneWidth(r)
	}
	return w
}

// genRuns builds a row of runs whose widths sum to W (C02's well-formed rows).
func genRuns(r *prng, W int) []te.VerifRun {
	var out []te.VerifRun
	left := W
	for left > 0 {
		st := pick(r, slStyles)
		switch r.intn(6) {
		case 0, 1: // blank run
			n := 1 + r.intn(left)
			if r.chance(1, 2) && n > 3 {
				n = 1 + r.intn(3)
			}
			out = append(out, te.VerifRun{Style: st, Rune: ' ', Width: n})
			left -= n
		case 2: // another repeated rune
			n := 1 + r.intn(min(left, 4))
			out = append(out, te.VerifRun{Style: st, Rune: pick(r, []rune{'-', '=', 'x'}), Width: n})
			left -= n
		default: // text
			var sb strings.Builder
			w := 0
			k := 1 + r.intn(4)
			for i := 0; i < k; i++ {
				p := pick(r, slPieces)
				pw := textWidth(p)
				if w+pw > left {
					continue
				}
				sb.WriteString(p)
				w += pw
			}
			if w == 0 {
				continue
			}
			run := te.VerifRun{Style: st, Text: sb.String(), Width: w}
			if r.chance(1, 4) {
				// a text run that used to be a blank run (mergeIntoPreviousCell turns a repeated
				// rune into text and leaves the rune in place)
				run.Rune = ' '
			}
			out = append(out, run)
			left -= w
		}
	}
	return out
}

func genIns(r *prng, cur [3]uint32, maxW int) te.VerifRun {
	st := cur
	if r.chance(1, 5) {
		st = pick(r, slStyles)
	}
	switch r.intn(7) {
	case 0:
		return te.VerifRun{Style: st} // zero width (deleteChars, truncateLine)
	case 1, 2:
		return te.VerifRun{Style: st, Rune: ' ', Width: 1 + r.intn(max(maxW, 1))}
	default:
		for tries := 0; tries < 8; tries++ {
			p := pick(r, slPieces)
			if w := textWidth(p); w <= maxW || tries == 7 {
				return te.VerifRun{Style: st, Text: p, Width: w}
			}
		}
	}
	return te.VerifRun{Style: st, Text: "a", Width: 1}
}

type slAnswer struct {
	runs, cached, shift, sf, ef, a, b, idx, off, okB, okA, cells, text string
}

func slAsk(d *driver, op string, W int, cur [3]uint32, runs []te.VerifRun, cached, x, n int, ins te.VerifRun, keep bool) (slAnswer, bool) {
	nn := fmt.Sprint(n)
	if n < 0 {
		nn = "4294967295"
	}
	line := fmt.Sprintf("sl %s %d %s %d %s %d %s %s %d", op, W, styRaw(cur), cached, runsStr(runs), x, nn, runStr(ins), b2i(keep))
	f := strings.Fields(d.ask(line))
	if len(f) != 13 {
		return slAnswer{}, false
	}
	return slAnswer{f[0], f[1], f[2], f[3], f[4], f[5], f[6], f[7], f[8], f[9], f[10], f[11], f[12]}, true
}

func specialSpanLine(c *specialCtx) {
	// the width table: record which characters are wider than two cells (the rows generated below
	// use them; the theorems about the run lists make no assumption on widths)
	for r := rune(0); r < 0x110000; r++ {
		if r >= 0xD800 && r < 0xE000 {
			continue
		}
		if w := te.VerifRuneWidth(r); w > 2 {
			c.tally(fmt.Sprintf("width-table:U+%04X=%d", r, w))
		} else if w < 1 {
			c.violation("width-table", fmt.Sprintf("U+%04X has width %d: the rune-mode tokeniser clamps widths to at least 1", r, w), int(r))
			break
		}
	}
	prof := &profile{name: "C02", weights: withWeights(map[string]int{"textwide": 30, "text": 10, "goto": 18, "erase": 16, "sgr": 10, "resize": 3, "badutf8": 2}),
		minLen: 4, maxLen: 40, grid: 0, gmode: 0, chunks: []int{0}}
	ops := []string{"rr", "rr", "rr", "write", "write", "dch", "erase", "trunc", "resize", "find", "text", "ansi", "styled", "styled"}
	c.parallel(c.n, func(i int, d *driver) {
		r := newPrng(uint64(c.seed)*1000003 + uint64(i))
		type rowIn struct {
			W      int
			runs   []te.VerifRun
			cached int
			cur    [3]uint32
			src    string
		}
		// the text functions writeString applies before the row code: replaceInvalidUTF8 and
		// splitRunToFit (a run measured before a Resize, cut into pieces that fit)
		for k := 0; k < 6; k++ {
			var sb strings.Builder
			for j, n := 0, 1+r.intn(5); j < n; j++ {
				if r.chance(1, 5) {
					sb.WriteString(pick(r, []string{"\xff", "\xc3", "\xe2\x82", "\xf0\x9f", "\x80", "\xed\xa0\x80", "\xc0\xaf", "\xf4\x90\x80\x80"}))
				} else {
					sb.WriteString(pick(r, slPieces))
				}
			}
			txt := sb.String()
			c.count("text/fixutf8")
			c.tally("spanline:fixutf8")
			if impl, model := orDash(hex.EncodeToString([]byte(te.VerifReplaceInvalidUTF8(txt)))), d.ask("fixutf8 "+orDash(hex.EncodeToString([]byte(txt)))); impl != model {
				c.violation("spanline-fixutf8", fmt.Sprintf("replaceInvalidUTF8(%q): impl[%s] model[%s]", txt, impl, model), txt)
			}
			valid := te.VerifReplaceInvalidUTF8(txt)
			limit := r.intn(textWidth(valid) + 2)
			hd, hw, rs, rw, ok := te.VerifSplitRunToFit(valid, limit)
			impl := "none"
			if ok {
				impl = fmt.Sprintf("%s %d %s %d", orDash(hex.EncodeToString([]byte(hd))), hw, orDash(hex.EncodeToString([]byte(rs))), rw)
			}
			c.count("text/fit")
			c.tally("spanline:fit")
			if model := d.ask(fmt.Sprintf("fit %s %d", orDash(hex.EncodeToString([]byte(valid))), limit)); impl != model {
				c.violation("spanline-fit", fmt.Sprintf("splitRunToFit(%q, %d): impl[%s] model[%s]", valid, limit, impl, model), valid)
			}
		}
		var rows []rowIn
		if i == 0 {
			// regression: the minimal rows of repaired defects run first, whatever the seed.
			// 8955491: U+2E3A is three bytes and three cells wide; the byte-per-cell shortcuts
			// patched its bytes ("\xe2x\xba") when a character was written into it
			d0 := [3]uint32{0x100, 0x100, 0x100}
			for _, t := range []string{"⸺", "a⸺b", "⸺⸺", "⸻", "中⸺"} {
				W := textWidth(t)
				row := rowIn{W, []te.VerifRun{{Style: d0, Text: t, Width: W}}, W, d0, "regression"}
				for x := 0; x < W; x++ {
					for _, keep := range []bool{false, true} {
						ins := te.VerifRun{Style: d0, Text: "x", Width: 1}
						for _, op := range []string{"rr", "write"} {
							res := te.VerifLineOp(op, W, d0, row.runs, W, x, 1, ins, keep)
							ans, ok := slAsk(d, op, W, d0, row.runs, W, x, 1, ins, keep)
							desc := fmt.Sprintf("%s W=%d row=%s x=%d n=1 ins=%s keep=%v (regression row)", op, W, runsStr(row.runs), x, runStr(ins), keep)
							c.count(op + "/regression")
							if res.Panic != "" || !ok || runsStr(res.Row.Runs) != ans.runs || fmt.Sprint(res.Row.Cached) != ans.cached {
								c.violation("spanline-"+op, fmt.Sprintf("%s: runs impl[%s] model[%s] cached impl[%d] model[%s] panic[%s]", desc, runsStr(res.Row.Runs), ans.runs, res.Row.Cached, ans.cached, res.Panic), desc)
							}
						}
					}
				}
			}
		}
		if i%3 == 0 {
			// rows of a real terminal after generated input
			cs := genCase(prof, r)
			cs.Mode, cs.Grid = 0, false
			im, pan := runToEnd(&cs)
			if pan != "" || im == nil {
				return // panics are C01's business
			}
			snap := im.vt.Snap()
			for b := 0; b < 2; b++ {
				sc := snap.Screens[b]
				if sc.TextModeOfSpan != te.TextReadModeRune && false {
					continue
				}
				for y := range sc.Rows {
					rows = append(rows, rowIn{sc.W, sc.Rows[y].Runs, sc.Rows[y].Cached, sc.Style, "real"})
				}
			}
			if len(rows) > 12 {
				// every row would be too many: the changed ones are at the top; keep a spread
				keep := rows[:0]
				for k := range rows {
					if k < 8 || r.chance(1, 6) {
						keep = append(keep, rows[k])
					}
				}
				rows = keep
			}
		} else {
			W := pick(r, []int{1, 2, 3, 4, 5, 6, 8, 10, 13, 20, 40, 80})
			for k := 0; k < 6; k++ {
				rows = append(rows, rowIn{W, genRuns(r, W), W, pick(r, slStyles), "synthetic"})
			}
		}
		for _, row := range rows {
			W := row.W
			for k := 0; k < 6; k++ {
				op := pick(r, ops)
				x := r.intn(W + 1)
				if r.chance(1, 12) {
					x = W + r.intn(3)
				}
				n := r.intn(W - min(x, W) + 1)
				if r.chance(1, 6) {
					n = r.intn(W + 3)
				}
				ins := genIns(r, row.cur, max(W-x, 1))
				keep := r.chance(1, 2)
				switch op {
				case "rr":
					if r.chance(2, 3) {
						n = ins.Width // the shape of every caller but deleteChars/truncateLine
					}
				case "write":
					// writeSpanAt's precondition (its callers establish it): the run fits
					if x >= W {
						x = r.intn(W)
					}
					if ins.Width > W-x {
						ins = te.VerifRun{Style: ins.Style, Rune: ' ', Width: W - x}
					}
					if ins.Width == 0 && r.chance(9, 10) {
						ins = te.VerifRun{Style: row.cur, Rune: ' ', Width: 1 + r.intn(W-x)}
					}
					if keep {
						ins.Style = row.cur // text is written in the current style
					}
				case "erase":
					n = x + r.intn(W-min(x, W)+2) // X2
					if r.chance(1, 10) {
						n = r.intn(W + 2)
					}
				case "trunc", "resize":
					x = r.intn(W + 3)
					if op == "trunc" && x > W {
						x = W
					}
				case "styled":
					if r.chance(1, 8) {
						n = -1
					}
				}
				res := te.VerifLineOp(op, W, row.cur, row.runs, row.cached, x, n, ins, keep)
				desc := fmt.Sprintf("%s W=%d cur=%s cached=%d row=%s x=%d n=%d ins=%s keep=%v (%s row)", op, W, styRaw(row.cur), row.cached, runsStr(row.runs), x, n, runStr(ins), keep, row.src)
				c.count(op + "/" + row.src)
				c.tally("spanline:" + op)
				if res.Panic != "" {
					c.violation("spanline-panic", desc+": the implementation panicked: "+res.Panic, desc)
					continue
				}
				ans, ok := slAsk(d, op, W, row.cur, row.runs, row.cached, x, n, ins, keep)
				if !ok {
					c.violation("spanline-driver", desc+": no answer from the model driver", desc)
					continue
				}
				if ans.okB != "1" {
					// the row the implementation produced earlier is not well formed: C02 itself
					c.violation("spanline-rowok", desc+": the row does not consist of runs of positive width whose texts cover their widths and which sum to W", desc)
					continue
				}
				implCells := strings.ReplaceAll(rowString(cellsOfVerif(res.Row.Cells)), " ", "_")
				if implCells == "" {
					implCells = "-"
				}
				modelCells := strings.ReplaceAll(ans.cells, " ", "_")
				var diffs []string
				cmp := func(what, impl, model string) {
					if impl != model {
						diffs = append(diffs, fmt.Sprintf("%s impl[%s] model[%s]", what, impl, model))
					}
				}
				switch op {
				case "find":
					cmp("index", fmt.Sprint(res.Idx), ans.idx)
					cmp("offset", fmt.Sprint(res.Off), ans.off)
				case "text":
					cmp("Line", orDash(hex.EncodeToString([]byte(res.Text))), ans.text)
				case "ansi":
					cmp("ANSILine", orDash(hex.EncodeToString([]byte(res.Text))), ans.text)
				default:
					cmp("runs", runsStr(res.Row.Runs), ans.runs)
					cmp("cached", fmt.Sprint(res.Row.Cached), ans.cached)
					cmp("cells", implCells, modelCells)
				}
				switch op {
				case "rr":
					cmp("shift", fmt.Sprint(res.Shift), ans.shift)
					cmp("startFill", fmt.Sprint(res.StartFill), ans.sf)
					cmp("endFill", fmt.Sprint(res.EndFill), ans.ef)
				case "write":
					cmp("shift", fmt.Sprint(res.Shift), ans.shift)
					fallthrough
				case "dch", "erase":
					cmp("announced-from", fmt.Sprint(res.A), ans.a)
					cmp("announced-to", fmt.Sprint(res.B), ans.b)
				}
				if len(diffs) > 0 {
					c.violation("spanline-"+op, desc+": "+strings.Join(diffs, "; "), desc)
					continue
				}
				// the invariant after the operations that must keep a row a row of the screen
				switch op {
				case "write", "dch", "erase":
					if ans.okA != "1" {
						c.violation("spanline-inv-"+op, desc+": afterwards the row is not a well-formed row of width W: "+runsStr(res.Row.Runs), desc)
					}
				}
				if k == 0 {
					c.sample(desc + " -> " + runsStr(res.Row.Runs))
				}
				// continue on the result when it is still a row of the screen
				if (op == "write" || op == "dch" || op == "erase") && ans.okA == "1" {
					row.runs, row.cached = res.Row.Runs, res.Row.Cached
				}
			}
		}
	})
}

func orDash(s string) string {
	if s == "" {
		return "-"
	}
	return s
}


// ---------------------------------------------------------------- C16/C08 the token reader's functions vs lean/TM/Reader.lean

type srcEntry struct {
	data []byte
	err  bool
}

// errSource is a scripted io.Reader: one entry per Read call (what does not fit stays for the
// next call); an entry may return an error together with its last bytes; exhausted = EOF.
type errSource struct{ script []srcEntry }

var errInjectedRead = errors.New("injected read error")

func (s *errSource) Read(p []byte) (int, error) {
	if len(s.script) == 0 {
		return 0, io.EOF
	}
	e := &s.script[0]
	n := copy(p, e.data)
	if n < len(e.data) {
		e.data = e.data[n:]
		return n, nil
	}
	fails := e.err
	s.script = s.script[1:]
	if fails {
		return n, errInjectedRead
	}
	return n, nil
}

// readerFunctionCheck drives a real GraphemeReader (rune mode) and the model reader with the same
// source script and the same calls (ReadPrintableBytes with various width limits, ReadByte) and
// compares what every call returns (text, width, merge flag, error) and the buffer indices and
// capacity afterwards.
func readerFunctionCheck(c *specialCtx, d *driver, r *prng, idx int) {
	var script string
	defer func() {
		if p := recover(); p != nil {
			c.violation("reader-panic", fmt.Sprintf("the token reader panicked: %v; source script %s", p, truncate(script, 400)), script)
		}
	}()
	// the stream: printable runs (ASCII, 2/3/4-byte, wide, 3- and 4-cell characters), controls, a few invalid bytes
	var stream []byte
	n := 20 + r.intn(300)
	if r.chance(1, 6) {
		n = pick(r, []int{4090, 4096, 4100, 8190, 8200, 9000})
	}
	for len(stream) < n {
		switch r.intn(10) {
		case 0:
			stream = append(stream, pick(r, []string{"\n", "\r", "\x1b", "\x1b[", "\x07", "\x7f", "\t", "\x00"})...)
		case 1:
			stream = append(stream, pick(r, []string{"\xff", "\xc3", "\xe2\x82", "\xf0\x9f\x90", "\x80", "\xed\xa0\x80"})...)
		case 2, 3:
			stream = append(stream, pick(r, []string{"é", "ñ", "中", "한", "🐹", "🎉", "⸺", "⸻", "Ｗ", "\u0301"})...)
		default:
			for k, m := 0, 1+r.intn(30); k < m; k++ {
				stream = append(stream, byte(' '+r.intn(95)))
			}
		}
	}
	src := &errSource{}
	var parts []string
	for off := 0; off < len(stream); {
		k := 1 + r.intn(12)
		switch r.intn(8) {
		case 0:
			k = 1
		case 1:
			k = 3000 + r.intn(7000)
		case 2:
			src.script = append(src.script, srcEntry{nil, false}) // a read that returns nothing
			parts = append(parts, "-")
		case 3:
			if r.chance(1, 6) {
				src.script = append(src.script, srcEntry{nil, true}) // an error without data; the source goes on afterwards
				parts = append(parts, "-!")
			}
		}
		if off+k > len(stream) {
			k = len(stream) - off
		}
		fails := r.chance(1, 25)
		src.script = append(src.script, srcEntry{append([]byte(nil), stream[off:off+k]...), fails})
		p := hex.EncodeToString(stream[off : off+k])
		if fails {
			p += "!"
		}
		parts = append(parts, p)
		off += k
	}
	script = strings.Join(parts, ",")
	if script == "" {
		script = "none"
	}
	gr := te.NewGraphemeReaderWithMode(src, te.TextReadModeRune)
	d.send("rdr init " + script)
	errs := 0
	for k := 0; k < 2*len(stream)+20 && errs < 4; k++ {
		c.mu.Lock()
		c.st.Steps++
		c.mu.Unlock()
		var impl, model, what string
		if r.chance(1, 4) {
			b, err := gr.ReadByte()
			st, en, cp := te.VerifReaderState(gr)
			bs := "-"
			if err == nil {
				bs = fmt.Sprint(int(b))
			} else {
				errs++
			}
			impl = fmt.Sprintf("%s %d %d %d", bs, st, en, cp)
			model = d.ask("rdr byte")
			what = "ReadByte()"
		} else {
			maxW := pick(r, []int{0, 1, 2, 3, 4, 5, 7, 80, 5000})
			s, w, merge, err := gr.ReadPrintableBytes(maxW)
			st, en, cp := te.VerifReaderState(gr)
			if err != nil {
				errs++
			}
			if merge {
				c.violation("reader-merge", fmt.Sprintf("ReadPrintableBytes(%d) reports a merge run in rune mode (script %s)", maxW, truncate(script, 300)), script)
				return
			}
			impl = fmt.Sprintf("%s %d %d %d %d %d", orDash(hex.EncodeToString([]byte(s))), w, b2i(err != nil), st, en, cp)
			model = d.ask(fmt.Sprintf("rdr printable %d", maxW))
			what = fmt.Sprintf("ReadPrintableBytes(%d)", maxW)
			if err == nil && s == "" {
				// nothing printable: the parser takes the next byte as a control byte
				b, e2 := gr.ReadByte()
				st, en, cp := te.VerifReaderState(gr)
				bs := "-"
				if e2 == nil {
					bs = fmt.Sprint(int(b))
				} else {
					errs++
				}
				if impl == model {
					impl = fmt.Sprintf("%s %d %d %d", bs, st, en, cp)
					model = d.ask("rdr byte")
					what = "ReadByte() after an empty run"
				} else {
					d.ask("rdr byte")
				}
			}
		}
		if impl != model {
			c.violation("reader-function", fmt.Sprintf("call %d %s: reader returned [%s], model [%s] (text width error start end capacity); source script %s", k, what, impl, model, truncate(script, 400)), script)
			return
		}
	}
	c.count(fmt.Sprint("readerfn", idx%97))
	c.tally("reader-function-scripts")
}

// ---------------------------------------------------------------- the span buffer at screen level vs lean/TM/SpanScreen.lean

func screenRowsStr(sc *te.VerifScreen) string {
	if len(sc.Rows) == 0 {
		return "-"
	}
	parts := make([]string, len(sc.Rows))
	for y := range sc.Rows {
		parts[y] = fmt.Sprintf("%d:%s", sc.Rows[y].Cached, runsStr(sc.Rows[y].Runs))
	}
	return strings.Join(parts, "|")
}

// specialSpanScreen: real span-buffer terminals (rune mode) after generated input; then single
// operations (one character, LF/IND/RI, SU/SD/IL/DL, EL/ED/ECH, DCH, Resize) applied to the real
// terminal and — as `SScr.apply` — to the model's run-level screen built from the real rows.
// Compared: geometry and every row's runs and cached width. The driver also evaluates the
// refinement the theorems of Props/C02SpanScreen.lean state (abs ∘ apply = applyS ∘ abs) and the
// invariant before and after.
func specialSpanScreen(c *specialCtx) {
	prof := &profile{name: "C02", weights: withWeights(map[string]int{"textwide": 30, "text": 10, "goto": 18, "erase": 14, "sgr": 10, "resize": 3, "margins": 6, "wrap": 5, "scroll": 5}),
		minLen: 3, maxLen: 30, grid: 0, gmode: 0, chunks: []int{0}}
	chars := []string{"a", "Z", " ", "é", "中", "🐹", "⸺", "⸻", "Ｗ", "~"}
	c.parallel(c.n, func(i int, d *driver) {
		r := newPrng(uint64(c.seed)*7777 + uint64(i))
		cs := genCase(prof, r)
		cs.Mode, cs.Grid = 0, false
		im, pan := runToEnd(&cs)
		if pan != "" || im == nil {
			return
		}
		if im.vt.Buffered() > 0 {
			return // the generated input ended inside a sequence or character: what is fed next would complete it
		}
		var history []string
		for k := 0; k < 10; k++ {
			snap := im.vt.Snap()
			act := 0
			if snap.OnAlt {
				act = 1
			}
			sc := snap.Screens[act]
			W, H := sc.W, sc.H
			var op, a, b string
			var bytes []byte
			resizeTo := [2]int{0, 0}
			n := 1 + r.intn(max(H, W)+2)
			switch r.intn(17) {
			case 14, 15, 16:
				// a stretch of printable text in one read: the reader cuts it into runs that fit the
				// rest of the row, writeString writes each (also across the right edge, wrap on or off)
				var sb strings.Builder
				for j, m := 0, 1+r.intn(W+4); j < m; j++ {
					if r.chance(1, 4) {
						sb.WriteString(pick(r, chars))
					} else {
						sb.WriteByte(byte('a' + r.intn(26)))
					}
				}
				op, a, b = "text", hex.EncodeToString([]byte(sb.String())), "0"
				bytes = []byte(sb.String())
			case 0, 1, 2, 3:
				ch := pick(r, chars)
				rn := []rune(ch)[0]
				op, a, b = "put", hex.EncodeToString([]byte(ch)), fmt.Sprint(int(rn))
				bytes = []byte(ch)
			case 4:
				op, a, b, bytes = "lf", "0", "0", []byte("\n")
			case 5:
				op, a, b, bytes = "ind", "0", "0", []byte("\x1bD")
			case 6:
				op, a, b, bytes = "ri", "0", "0", []byte("\x1bM")
			case 7:
				o := pick(r, []string{"su", "sd", "il", "dl"})
				fin := map[string]string{"su": "S", "sd": "T", "il": "L", "dl": "M"}[o]
				op, a, b, bytes = o, fmt.Sprint(n), "0", []byte(fmt.Sprintf("\x1b[%d%s", n, fin))
			case 8:
				p := r.intn(3)
				op, a, b, bytes = "el", fmt.Sprint(p), "0", []byte(fmt.Sprintf("\x1b[%dK", p))
			case 9:
				p := r.intn(3)
				op, a, b, bytes = "ed", fmt.Sprint(p), "0", []byte(fmt.Sprintf("\x1b[%dJ", p))
			case 10:
				op, a, b, bytes = "ech", fmt.Sprint(n), "0", []byte(fmt.Sprintf("\x1b[%dX", n))
			case 11:
				op, a, b, bytes = "dch", fmt.Sprint(n), "0", []byte(fmt.Sprintf("\x1b[%dP", n))
			case 12:
				// move the cursor (also onto the second cell of a wide character): not an operation of the model, no comparison
				feedAll(im, []byte(fmt.Sprintf("\x1b[%d;%dH", 1+r.intn(H), 1+r.intn(W))))
				continue
			default:
				nw, nh := max(1, W+r.intn(7)-3), max(1, H+r.intn(5)-2)
				op, a, b = "resize", fmt.Sprint(nw), fmt.Sprint(nh)
				resizeTo = [2]int{nw, nh}
			}
			if resizeTo[0] > 0 {
				if p := im.resize(resizeTo[0], resizeTo[1]); p != "" {
					return
				}
			} else if p := feedAll(im, bytes); p != "" {
				return
			}
			post := im.vt.Snap()
			ps := post.Screens[act]
			line := fmt.Sprintf("ss %d %d %d %d %d %d %d %d %d %s %s %s %s %s", W, H, sc.CX, sc.CY, sc.SX, sc.SY, sc.Top, sc.Bot, b2i(sc.Wrap), styRaw(sc.Style), screenRowsStr(&sc), op, a, b)
			f := strings.Fields(d.ask(line))
			c.count("ss/" + op)
			c.tally("spanscreen:" + op)
			history = append(history, fmt.Sprintf("%s %s %s", op, a, b))
			desc := fmt.Sprintf("%s %s %s on %dx%d cursor (%d,%d) margins [%d,%d] wrap %v rows %s", op, a, b, W, H, sc.CX, sc.CY, sc.Top, sc.Bot, sc.Wrap, truncate(screenRowsStr(&sc), 600))
			if len(f) != 13 {
				c.violation("spanscreen-driver", desc+": no answer from the model driver: "+truncate(strings.Join(f, " "), 200), desc)
				return
			}
			if f[9] != "1" {
				c.violation("spanscreen-inv", desc+": the real screen does not satisfy the invariant (rows of well-formed runs of width W, cursor and margins inside)", desc)
				return
			}
			impl := fmt.Sprintf("%d %d %d %d %d %d %d %d %d", ps.W, ps.H, ps.CX, ps.CY, ps.SX, ps.SY, ps.Top, ps.Bot, b2i(ps.Wrap))
			model := strings.Join(f[0:9], " ")
			if impl != model {
				c.violation("spanscreen-geometry", fmt.Sprintf("%s: geometry (w h cx cy sx sy top bot wrap) impl[%s] model[%s]", desc, impl, model), map[string]any{"case": cs, "ops": history, "what": desc})
				return
			}
			if ir := screenRowsStr(&ps); ir != f[12] {
				// name the first row that differs
				a1, b1 := strings.Split(ir, "|"), strings.Split(f[12], "|")
				y := 0
				for y < len(a1) && y < len(b1) && a1[y] == b1[y] {
					y++
				}
				ra, rb := "-", "-"
				if y < len(a1) {
					ra = a1[y]
				}
				if y < len(b1) {
					rb = b1[y]
				}
				c.violation("spanscreen-rows", fmt.Sprintf("%s: row %d impl[%s] model[%s]", desc, y, ra, rb), map[string]any{"case": cs, "ops": history, "what": desc})
				return
			}
			if f[10] != "1" {
				c.violation("spanscreen-inv-after", desc+": afterwards the screen does not satisfy the invariant", desc)
				return
			}
			if f[11] != "1" {
				c.violation("spanscreen-refinement", desc+": the run-level result does not show the cells the cell-level operation computes (abs(apply s op) ≠ applyS (abs s) op)", desc)
				return
			}
		}
	})
}
