module verifharness

go 1.23.0

require (
	github.com/ricochet1k/termemu v0.0.0
	github.com/rivo/uniseg v0.4.7
)

require github.com/creack/pty v1.1.24

replace github.com/ricochet1k/termemu => /repo
