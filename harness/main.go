package main

import (
	"encoding/json"
	"flag"
	"fmt"
	"hash/fnv"
	"os"
	"path/filepath"
	"regexp"
	"sort"
	"strings"
	"sync"
	"sync/atomic"
	"time"

	te "github.com/ricochet1k/termemu"
)

// ---------------------------------------------------------------- width table

func dumpWidths(path string) error {
	var sb strings.Builder
	start, cur := -1, 1
	flush := func(end int) {
		if start >= 0 && cur != 1 {
			fmt.Fprintf(&sb, "%d %d %d\n", start, end, cur)
		}
	}
	for r := 0; r <= 0x10FFFF; r++ {
		w := 1
		if r < 0xD800 || r > 0xDFFF {
			w = te.VerifRuneWidth(rune(r))
		}
		if w != cur || start < 0 {
			flush(r - 1)
			start, cur = r, w
		}
	}
	flush(0x10FFFF)
	return os.WriteFile(path, []byte(sb.String()), 0o644)
}

// ---------------------------------------------------------------- attribution

func classesOf(tags string) map[string]bool {
	cl := map[string]bool{}
	for _, t := range strings.Split(tags, ",") {
		switch {
		case t == "t" || t == "tK" || t == "tm":
			cl["text"] = true
		case t == "tS": // a character whose wrap scrolls the region
			cl["text"] = true
			cl["scroll"] = true
		case t == "resize":
			cl["resize"] = true
		case t == "eof" || t == "init" || t == "" || t == "?":
			cl["other"] = true
		case t == "c7":
			cl["bell"] = true
		case t == "c8" || t == "c9" || t == "c13" || t == "c127":
			cl["motion"] = true
		case t == "c10" || t == "c12" || t == "e68" || t == "e77":
			cl["motion"] = true
			cl["scroll"] = true
		case t == "e61" || t == "e62":
			cl["mode"] = true
		case strings.HasPrefix(t, "c"):
			cl["c0other"] = true
		case strings.HasPrefix(t, "e"):
			cl["unknown"] = true
		case strings.HasPrefix(t, "]"):
			cl["osc"] = true
		case t == "P":
			cl["dcs"] = true
		case strings.HasPrefix(t, "["):
			if strings.HasSuffix(t, "!") {
				cl["unknown"] = true
				break
			}
			var pfx, fin int
			fmt.Sscanf(t, "[%d.%d", &pfx, &fin)
			f := byte(fin)
			switch pfx {
			case 0:
				switch f {
				case 'A', 'B', 'C', 'D', 'G', 'd', 'H', 'f', 's', 'u':
					cl["motion"] = true
				case 'J', 'K', 'X', 'P':
					cl["erase"] = true
				case 'L', 'M', 'S', 'T', 'r':
					cl["scroll"] = true
				case 'm':
					cl["sgr"] = true
				case 'c', 'n':
					cl["query"] = true
				default:
					cl["unknown"] = true
				}
			case '?':
				switch f {
				case 'h', 'l':
					cl["mode"] = true
				case 'u':
					cl["query"] = true
					cl["kbd"] = true
				default:
					cl["unknown"] = true
				}
			case '>':
				switch f {
				case 'c':
					cl["query"] = true
				case 'm':
					cl["mode"] = true
				case 'u':
					cl["kbd"] = true
				default:
					cl["unknown"] = true
				}
			case '<', '=':
				if f == 'u' {
					cl["kbd"] = true
				} else {
					cl["unknown"] = true
				}
			default:
				cl["unknown"] = true
			}
		}
	}
	return cl
}

var rowDiffRe = regexp.MustCompile(`row \d+ \d+ impl\[([^\]]*)\] model\[([^\]]*)\]`)

// glyphsOf expands a run-length encoded row ("n*glyph/style …") into its glyph sequence
// without the attributes.
func glyphsOf(rle string) string {
	var sb strings.Builder
	for _, tok := range strings.Fields(rle) {
		n, rest := 1, tok
		if i := strings.Index(tok, "*"); i > 0 {
			fmt.Sscanf(tok[:i], "%d", &n)
			rest = tok[i+1:]
		}
		if j := strings.LastIndex(rest, "/"); j >= 0 {
			rest = rest[:j]
		}
		for k := 0; k < n; k++ {
			sb.WriteString(rest)
			sb.WriteByte(' ')
		}
	}
	return sb.String()
}

// styleOnly: a row divergence in which the glyphs agree and only attributes differ.
func styleOnly(detail string) bool {
	ms := rowDiffRe.FindAllStringSubmatch(detail, -1)
	if len(ms) == 0 {
		return false
	}
	for _, m := range ms {
		if glyphsOf(m[1]) != glyphsOf(m[2]) {
			return false
		}
	}
	return true
}

var eventDiffRe = regexp.MustCompile(`impl\[E ([^\]]*)\] model\[E ([^\]]*)\]`)

// styleEventDiff: the E projections differ in their StyleChanged events (s:…)
func styleEventDiff(detail string) bool {
	m := eventDiffRe.FindStringSubmatch(detail)
	if m == nil {
		return false
	}
	pickS := func(s string) string {
		var out []string
		for _, e := range strings.Split(s, ",") {
			if strings.HasPrefix(e, "s:") {
				out = append(out, e)
			}
		}
		return strings.Join(out, ",")
	}
	return pickS(m[1]) != pickS(m[2])
}

// hasProj: one of the named projections diverged (prefix match: "M" covers Mgeo/Msty/Mkbd, "R" covers R0/R1).
func hasProj(clause string, names ...string) bool {
	for _, p := range strings.Split(clause, "+") {
		for _, n := range names {
			if strings.HasPrefix(p, n) {
				return true
			}
		}
	}
	return false
}

// owns decides whether a finding is a violation of property p.
func owns(p string, f finding) bool {
	switch f.Kind {
	case "panic":
		// a panic inside Resize also breaks what Resize promises (C18)
		return p == "C01" || (p == "C18" && f.Clause == "resize") || (p == f.Prop && f.Prop != "")
	case "monitor":
		return f.Prop == p
	case "driver":
		return false
	}
	cl := classesOf(f.Tags)
	proj := f.Clause
	act, inact := "M", "A" // projections of the active / inactive buffer are not known here; use both
	_ = act
	_ = inact
	content := hasProj(proj, "Mgeo", "Ageo", "R")
	switch p {
	case "C02":
		// the stored runs of a row differ from what the run-level model computes (monitor findings
		// of C02 are handled above)
		return hasProj(proj, "S")
	case "C03":
		return cl["text"] && content
	case "C04":
		// also: where Resize leaves the cursor and the saved cursor (geometry only)
		// … and where a buffer switch leaves the cursor and the saved cursor of either buffer
		return (cl["motion"] && content) || ((cl["resize"] || cl["mode"]) && hasProj(proj, "Mgeo", "Ageo") && !hasProj(proj, "R"))
	case "C05":
		return cl["erase"] && content
	case "C06":
		// … and what Resize does to the scroll region
		return (cl["scroll"] && content) || (cl["resize"] && hasProj(proj, "Mgeo", "Ageo") && !hasProj(proj, "R"))
	case "C07":
		// … the rendition the frontend is told (StyleChanged events), at whatever step
		return hasProj(proj, "Msty", "Asty") || (cl["sgr"] && hasProj(proj, "E")) || (hasProj(proj, "R") && styleOnly(f.Detail)) ||
			(hasProj(proj, "E") && styleEventDiff(f.Detail))
	case "C09":
		// XTMODKEYS (CSI > … m) for a resource the emulator does not have is an unrecognised sequence too
		return f.Kind == "framing" || hasProj(proj, "G") || ((cl["unknown"] || cl["dcs"] || cl["c0other"]) && proj != "") || (cl["osc"] && proj != "") ||
			(strings.Contains(f.Tags, "[62.109") && proj != "")
	case "C10":
		return (cl["bell"] && hasProj(proj, "E")) || hasProj(proj, "L")
	case "C14":
		return hasProj(proj, "W")
	case "C16":
		// the token reader in grapheme mode (where runs and merge fragments begin and end at read
		// boundaries): text steps of the chunked grapheme-mode job
		return f.Gmode && cl["text"] && (content || hasProj(proj, "G") || f.Kind == "framing")
	case "C17":
		// also: anything that changes in the buffer that is NOT active (the buffers are independent)
		inactive := hasProj(proj, "A", "R1")
		if f.Alt {
			inactive = hasProj(proj, "M", "R0")
		}
		return (cl["mode"] && proj != "") || hasProj(proj, "V") || (inactive && f.Kind == "diverge" && f.Tags != "init" && !cl["resize"]) ||
			(f.Alt && hasProj(proj, "Mkbd", "Akbd")) || // keyboard state going wrong while the alternate buffer is active
			((strings.Contains(f.Tags, "[0.115") || strings.Contains(f.Tags, "[0.117")) && hasProj(proj, "Mgeo", "Ageo")) // the saved cursor is kept per buffer
	case "C18":
		// the initial sizing is a Resize too (from the 80x24 default to the case's size)
		return (cl["resize"] || f.Tags == "init") && proj != ""
	case "C19":
		return hasProj(proj, "Mkbd", "Akbd") || (cl["kbd"] && hasProj(proj, "W"))
	case "C20":
		// lock-step of the grid buffer against the model under the grid policy: together with the
		// span buffer's agreement with the same model (all other checks) a content divergence
		// here separates the two buffers
		// … and the grid buffer's own arrays against the array-level model (clause Q)
		return (strings.Contains(f.Tags, "") && f.Grid && content) || hasProj(proj, "Q")
	}
	return false
}

// ---------------------------------------------------------------- known findings

type knownFinding struct {
	ID          string `json:"id"`
	Property    string `json:"property"`
	Status      string `json:"status"` // open | fixed
	Kind        string `json:"kind,omitempty"`
	Clause      string `json:"clause,omitempty"` // regexp
	Tags        string `json:"tags,omitempty"`   // regexp
	Detail      string `json:"detail,omitempty"` // regexp
	CaseCond    string `json:"case,omitempty"`   // grid | span | grapheme | rune
	Description string `json:"description"`
	Fixed       string `json:"fixed,omitempty"`
}

type knownFile struct {
	Findings []knownFinding `json:"findings"`
	Fixed    []string       `json:"fixed"`
}

func loadKnown(path string) []knownFinding {
	b, err := os.ReadFile(path)
	if err != nil {
		return nil
	}
	var kf knownFile
	if err := json.Unmarshal(b, &kf); err != nil {
		fmt.Fprintln(os.Stderr, "known_findings.json:", err)
		os.Exit(2)
	}
	return kf.Findings
}

func (k *knownFinding) matches(p string, c *Case, f finding) bool {
	if k.Status != "open" || k.Property != p {
		return false
	}
	if k.Kind != "" && k.Kind != f.Kind {
		return false
	}
	m := func(pat, s string) bool {
		if pat == "" {
			return true
		}
		ok, _ := regexp.MatchString(pat, s)
		return ok
	}
	switch k.CaseCond {
	case "grid":
		if !c.Grid {
			return false
		}
	case "span":
		if c.Grid {
			return false
		}
	case "grapheme":
		if c.Mode != 1 {
			return false
		}
	case "rune":
		if c.Mode != 0 {
			return false
		}
	}
	return m(k.Clause, f.Clause) && m(k.Tags, f.Tags) && m(k.Detail, f.Detail)
}

// ---------------------------------------------------------------- run

type violation struct {
	Case    Case    `json:"case"`
	Finding finding `json:"finding"`
}

type stats struct {
	Property    string         `json:"property"`
	Profile     string         `json:"profile"`
	Seed        int64          `json:"seed"`
	Cases       int            `json:"cases"`
	Corpus      int            `json:"corpus_cases_run_first"`
	Steps       int            `json:"steps"`
	Distinct    int            `json:"distinct_nontrivial"`
	Cut         int            `json:"cases_cut_by_foreign_divergence"`
	ClassHist   map[string]int `json:"item_classes"`
	TagHist     map[string]int `json:"step_token_kinds"`
	SizeHist    map[string]int `json:"screen_sizes"`
	BufHist     map[string]int `json:"buffers"`
	ChunkHist   map[string]int `json:"chunkings"`
	Violations  []string       `json:"violations"`
	Known       map[string]int `json:"known_findings_matched"`
	Foreign     map[string]int `json:"foreign_findings"`
	Samples     []string       `json:"samples"`
	WallS       float64        `json:"wall_s"`
	Relevant    int            `json:"cases_reaching_property_ops"`
	NoViolation bool           `json:"ok"`
}

// relevantClass: token classes that make a case non-trivial for a property.
var relevantClass = map[string][]string{
	"C01": nil, "C02": nil, "C10": nil,
	"C03": {"text"}, "C04": {"motion"}, "C05": {"erase"}, "C06": {"scroll"}, "C07": {"sgr"},
	"C09": {"unknown", "osc", "dcs"}, "C14": {"query"}, "C17": {"mode"}, "C18": {"resize"}, "C19": {"kbd"},
}

func signature(c *Case, res *caseResult) uint64 {
	h := fnv.New64a()
	fmt.Fprintf(h, "%d %v %d %d|", c.Mode, c.Grid, c.W, c.H)
	for _, t := range res.Tags {
		h.Write([]byte(t))
		h.Write([]byte{'|'})
	}
	return h.Sum64()
}

// properties decided by panics or by monitors on the implementation keep a case running after
// the model was lost
var keepGoingProps = map[string]bool{"C01": true, "C02": true, "C10": true, "C15": true}

type worker struct {
	d *driver
}

func main() {
	var (
		prop      = flag.String("prop", "", "property id")
		profName  = flag.String("profile", "", "generator profile (default: the property's)")
		seed      = flag.Int64("seed", 1, "seed")
		ncases    = flag.Int("cases", 1000, "number of generated cases")
		drvPath   = flag.String("driver", "", "path of the Lean model driver")
		widths    = flag.String("widths", "", "path of the width table (written by -dump-widths)")
		dumpW     = flag.Bool("dump-widths", false, "write the width table and exit")
		outPath   = flag.String("out", "", "statistics JSON")
		knownPath = flag.String("known", "", "known_findings.json")
		replayDir = flag.String("replays", "replays", "directory for replay files")
		replay    = flag.String("replay", "", "replay file to re-run")
		corpusDir = flag.String("corpus", "", "corpus directory (cases run first)")
		workers   = flag.Int("workers", 16, "parallel workers")
		special   = flag.String("special", "", "special check to run (see special.go)")
		verbose   = flag.Bool("v", false, "print every finding")
		maxViol   = flag.Int("max-violations", 3, "stop reporting after this many distinct violations")
		quiet     = flag.Bool("quiet", false, "internal: no output (solo re-run of an in-flight case)")
		child     = flag.Bool("child", false, "internal: run in-process (the parent supervises crashes, hangs and memory)")
		skip      = flag.String("skip", "", "internal: comma-separated case indices to skip")
		inflight  = flag.String("inflight", "", "internal: directory for in-flight case markers")
	)
	flag.Parse()
	if !*child && !*dumpW {
		os.Exit(supervise(*prop, *replayDir, *seed))
	}
	limitMemory()
	if *quiet {
		if f, err := os.OpenFile(os.DevNull, os.O_WRONLY, 0); err == nil {
			os.Stdout = f
		}
	}
	skipSet := map[int]bool{}
	for _, s := range strings.Split(*skip, ",") {
		var i int
		if _, err := fmt.Sscanf(s, "%d", &i); err == nil {
			skipSet[i] = true
		}
	}
	if *dumpW {
		if err := dumpWidths(*widths); err != nil {
			fmt.Fprintln(os.Stderr, err)
			os.Exit(2)
		}
		return
	}
	known := loadKnown(*knownPath)
	if *special != "" {
		os.Exit(runSpecial(*special, *prop, *seed, *ncases, *drvPath, *widths, *outPath, *replayDir, known, *workers))
	}
	if *replay != "" {
		os.Exit(runReplay(*replay, *prop, *drvPath, *widths, known))
	}
	pn := *profName
	if pn == "" {
		pn = *prop
	}
	prof := profiles[pn]
	if prof == nil {
		prof = profiles["general"]
	}
	start := time.Now()
	st := stats{Property: *prop, Profile: prof.name, Seed: *seed, ClassHist: map[string]int{}, TagHist: map[string]int{},
		SizeHist: map[string]int{}, BufHist: map[string]int{}, ChunkHist: map[string]int{}, Known: map[string]int{}, Foreign: map[string]int{}}

	// cases: corpus first, then generated
	var cases []Case
	if *corpusDir != "" {
		files, _ := filepath.Glob(filepath.Join(*corpusDir, "*.json"))
		sort.Strings(files)
		for _, f := range files {
			b, err := os.ReadFile(f)
			if err != nil {
				continue
			}
			var c Case
			if json.Unmarshal(b, &c) == nil && c.W > 0 {
				c.Note = "corpus:" + filepath.Base(f)
				cases = append(cases, c)
			}
		}
	}
	st.Corpus = len(cases)
	master := newPrng(uint64(*seed))
	for i := 0; i < *ncases; i++ {
		r := newPrng(master.next())
		cases = append(cases, genCase(prof, r))
	}

	type outcome struct {
		idx int
		res caseResult
	}
	jobs := make(chan int, len(cases))
	results := make([]caseResult, len(cases))
	var wg sync.WaitGroup
	// watchdog: a case that does not finish is a wedge of the implementation (or of the model
	// driver); give up at once so that the supervisor can attribute it
	started := make([]int64, *workers)
	go func() {
		for {
			time.Sleep(500 * time.Millisecond)
			now := time.Now().UnixNano()
			for w := range started {
				if t0 := atomic.LoadInt64(&started[w]); t0 != 0 && now-t0 > int64(scaled(30*time.Second)) {
					fmt.Fprintf(os.Stderr, "watchdog: a case has been running for more than 30 s\n")
					os.Exit(97)
				}
			}
		}
	}()
	for w := 0; w < *workers; w++ {
		wg.Add(1)
		w := w
		go func() {
			defer wg.Done()
			d, err := startDriver(*drvPath, *widths)
			if err != nil {
				fmt.Fprintln(os.Stderr, "driver:", err)
				os.Exit(2)
			}
			defer d.close()
			for idx := range jobs {
				if skipSet[idx] {
					continue
				}
				marker := ""
				if *inflight != "" {
					marker = filepath.Join(*inflight, fmt.Sprintf("case-%d.json", idx))
					_ = os.WriteFile(marker, []byte(cases[idx].String()), 0o644)
				}
				atomic.StoreInt64(&started[w], time.Now().UnixNano())
				results[idx] = runCase(&cases[idx], d, runOpts{probeLock: *prop == "C15", keepGoing: keepGoingProps[*prop]})
				atomic.StoreInt64(&started[w], 0)
				if marker != "" {
					_ = os.Remove(marker)
				}
			}
		}()
	}
	for i := range cases {
		jobs <- i
	}
	close(jobs)
	wg.Wait()

	sigs := map[uint64]bool{}
	var viols []violation
	seenViol := map[string]bool{}
	for i := range cases {
		c, res := &cases[i], &results[i]
		st.Cases++
		st.Steps += res.Steps
		st.SizeHist[sizeClass(c.W, c.H)]++
		if c.Grid {
			st.BufHist["grid"]++
		} else {
			st.BufHist["span"]++
		}
		st.ChunkHist[chunkClass(c.Chunk)]++
		for _, it := range c.Items {
			if it.Kind == "in" {
				st.ClassHist[it.Class]++
			} else {
				st.ClassHist[it.Kind]++
			}
		}
		relevant := relevantClass[*prop] == nil
		for _, t := range res.Tags {
			for k := range classesOf(t) {
				st.TagHist[k]++
				for _, rc := range relevantClass[*prop] {
					if rc == k {
						relevant = true
					}
				}
			}
		}
		if relevant {
			st.Relevant++
			sigs[signature(c, res)] = true
		}
		if len(st.Samples) < 3 && relevant {
			st.Samples = append(st.Samples, c.String())
		}
		ownedAny := false
		for _, f := range res.Findings {
			if *verbose {
				fmt.Printf("finding case=%d %+v\n", i, f)
			}
			if f.Kind == "driver" {
				fmt.Fprintln(os.Stderr, "driver failure:", f.Detail)
				os.Exit(2)
			}
			if !owns(*prop, f) {
				st.Foreign[f.Kind+":"+f.Prop+":"+f.Clause]++
				continue
			}
			ownedAny = true
			excused := false
			for k := range known {
				if known[k].matches(*prop, c, f) {
					st.Known[known[k].ID]++
					excused = true
					break
				}
			}
			if excused {
				continue
			}
			key := f.Kind + "|" + f.Clause + "|" + classKey(f.Tags)
			if seenViol[key] {
				continue
			}
			seenViol[key] = true
			viols = append(viols, violation{Case: *c, Finding: f})
		}
		if res.Cut && !ownedAny {
			st.Cut++
		}
	}
	st.Distinct = len(sigs)

	// known findings
	ids := make([]string, 0, len(st.Known))
	for id := range st.Known {
		ids = append(ids, id)
	}
	sort.Strings(ids)
	for _, id := range ids {
		for _, k := range known {
			if k.ID == id {
				fmt.Printf("KNOWN-FINDING: property=%s %s: %s (matched %d times)\n", *prop, id, k.Description, st.Known[id])
			}
		}
	}

	// shrink and report violations
	exit := 0
	if len(viols) > 0 {
		_ = os.MkdirAll(*replayDir, 0o755)
		d, err := startDriver(*drvPath, *widths)
		if err == nil {
			defer d.close()
		}
		for n, v := range viols {
			if n >= *maxViol {
				break
			}
			small := shrinkCase(v.Case, *prop, v.Finding, d, known)
			res := runCase(&small, d, runOpts{probeLock: *prop == "C15", keepGoing: keepGoingProps[*prop]})
			fnd := v.Finding
			for _, f := range res.Findings {
				if owns(*prop, f) {
					excused := false
					for k := range known {
						if known[k].matches(*prop, &small, f) {
							excused = true
						}
					}
					if !excused {
						fnd = f
						break
					}
				}
			}
			path := filepath.Join(*replayDir, fmt.Sprintf("%s-%d-%d.json", *prop, *seed, n))
			rep := map[string]any{"property": *prop, "kind": "failing-input", "case": small, "finding": fnd, "seed": *seed,
				"replay_cmd": fmt.Sprintf("./check %s --replay %s", *prop, path)}
			b, _ := json.MarshalIndent(rep, "", " ")
			_ = os.WriteFile(path, b, 0o644)
			fmt.Printf("VIOLATION property=%s replay=%s\n", *prop, path)
			fmt.Printf("  %s clause=%s tags=%s: %s\n", fnd.Kind, fnd.Clause, fnd.Tags, truncate(fnd.Detail, 400))
			st.Violations = append(st.Violations, path)
			exit = 1
		}
	}
	// the correspondence itself: when most cases are lost to divergences that belong to other
	// properties before they reach this property's operations, the model no longer describes
	// the code and the property is no longer shown to hold
	foreignDiv := 0
	for k, n := range st.Foreign {
		if strings.HasPrefix(k, "diverge:") || strings.HasPrefix(k, "framing:") || strings.HasPrefix(k, "panic:") {
			foreignDiv += n
		}
	}
	if exit == 0 && st.Cases >= 20 && foreignDiv*2 > st.Cases {
		_ = os.MkdirAll(*replayDir, 0o755)
		path := filepath.Join(*replayDir, fmt.Sprintf("%s-%d-correspondence.json", *prop, *seed))
		rep := map[string]any{"property": *prop, "kind": "no-failing-input-found",
			"broken":           "correspondence between the Lean model (lean/TM) and the implementation: model and code disagree on steps that belong to other properties in more than half of the cases, before this property's operations are reached",
			"foreign_findings": st.Foreign, "cases": st.Cases, "seed": *seed}
		b, _ := json.MarshalIndent(rep, "", " ")
		_ = os.WriteFile(path, b, 0o644)
		fmt.Printf("VIOLATION property=%s replay=%s no-failing-input-found\n", *prop, path)
		fmt.Printf("  correspondence broken: %d of %d cases diverge from the model at steps of other properties\n", foreignDiv, st.Cases)
		st.Violations = append(st.Violations, path)
		exit = 1
	}
	st.NoViolation = exit == 0
	st.WallS = time.Since(start).Seconds()
	if *outPath != "" {
		b, _ := json.MarshalIndent(st, "", " ")
		_ = os.WriteFile(*outPath, b, 0o644)
	}
	os.Exit(exit)
}

func truncate(s string, n int) string {
	if len(s) > n {
		return s[:n] + "…"
	}
	return s
}

func classKey(tags string) string {
	var ks []string
	for k := range classesOf(tags) {
		ks = append(ks, k)
	}
	sort.Strings(ks)
	return strings.Join(ks, "+")
}

func sizeClass(w, h int) string {
	switch {
	case w == 1 || h == 1:
		return "degenerate(1xN/Nx1)"
	case w == 80 && h == 24:
		return "80x24"
	case h > w:
		return "tall"
	case w > 20:
		return "wide"
	default:
		return "small"
	}
}

func chunkClass(c int) string {
	switch c {
	case 0:
		return "whole"
	case 1:
		return "per-item"
	case 2:
		return "bytewise"
	default:
		return "random-cuts"
	}
}

func runReplay(path, prop, drvPath, widths string, known []knownFinding) int {
	b, err := os.ReadFile(path)
	if err != nil {
		fmt.Fprintln(os.Stderr, err)
		return 2
	}
	var rep struct {
		Property string `json:"property"`
		Case     Case   `json:"case"`
	}
	if err := json.Unmarshal(b, &rep); err != nil || rep.Case.W == 0 {
		// maybe a bare case
		if err2 := json.Unmarshal(b, &rep.Case); err2 != nil {
			fmt.Fprintln(os.Stderr, err, err2)
			return 2
		}
	}
	if prop == "" {
		prop = rep.Property
	}
	d, err := startDriver(drvPath, widths)
	if err != nil {
		fmt.Fprintln(os.Stderr, err)
		return 2
	}
	defer d.close()
	res := runCase(&rep.Case, d, runOpts{probeLock: prop == "C15", keepGoing: keepGoingProps[prop]})
	exit := 0
	for _, f := range res.Findings {
		mark := " "
		if owns(prop, f) {
			mark = "*"
			excused := false
			for k := range known {
				if known[k].matches(prop, &rep.Case, f) {
					excused = true
					fmt.Printf("KNOWN-FINDING: property=%s %s\n", prop, known[k].ID)
				}
			}
			if !excused {
				exit = 1
			}
		}
		fmt.Printf("%s step=%d %s prop=%s clause=%s tags=%s: %s\n", mark, f.Step, f.Kind, f.Prop, f.Clause, f.Tags, f.Detail)
	}
	if exit == 1 {
		fmt.Printf("VIOLATION property=%s replay=%s\n", prop, path)
	} else {
		fmt.Printf("replay: no violation of %s (%d steps)\n", prop, res.Steps)
	}
	return exit
}
