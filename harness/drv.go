package main

// Wrapper around the compiled Lean model driver (line protocol over pipes).

import (
	"bufio"
	"fmt"
	"io"
	"os/exec"
	"strings"
)

type driver struct {
	cmd *exec.Cmd
	in  io.WriteCloser
	out *bufio.Reader
	all map[string]string // last printed content of every row ("b y" -> cells)
}

func startDriver(path, widths string) (*driver, error) {
	cmd := exec.Command(path, widths)
	in, err := cmd.StdinPipe()
	if err != nil {
		return nil, err
	}
	out, err := cmd.StdoutPipe()
	if err != nil {
		return nil, err
	}
	if err := cmd.Start(); err != nil {
		return nil, err
	}
	return &driver{cmd: cmd, in: in, out: bufio.NewReaderSize(out, 1<<20)}, nil
}

func (d *driver) close() {
	d.in.Close()
	_ = d.cmd.Wait()
}

func (d *driver) send(line string) error {
	_, err := io.WriteString(d.in, line+"\n")
	return err
}

// modelObs is one observation block from the model.
type modelObs struct {
	lines map[string]string // G M A V E W -> whole line
	rows  map[string]string // "b y" -> cells
	prev  map[string]string // rows as they were before this block (for rows the block does not print)
	srows map[string]string // "b y" -> cached:runs of the run-level terminal (rows that changed)
	qrows map[string]string // "b y" -> the five arrays of every cell of the array-level grid terminal
	tags  []string
	X     string
}

func (d *driver) readBlock() (modelObs, error) {
	o := modelObs{lines: map[string]string{}, rows: map[string]string{}, prev: map[string]string{}, srows: map[string]string{}, qrows: map[string]string{}}
	if d.all == nil {
		d.all = map[string]string{}
	}
	for k, v := range d.all {
		o.prev[k] = v
	}
	defer func() {
		for k, v := range o.rows {
			d.all[k] = v
		}
	}()
	for {
		line, err := d.out.ReadString('\n')
		if err != nil {
			return o, fmt.Errorf("driver: %w", err)
		}
		line = strings.TrimRight(line, "\n")
		if line == "." {
			return o, nil
		}
		if len(line) < 2 {
			continue
		}
		switch line[0] {
		case 'R':
			parts := strings.SplitN(line, " ", 4)
			if len(parts) == 4 {
				o.rows[parts[1]+" "+parts[2]] = parts[3]
			} else if len(parts) == 3 {
				o.rows[parts[1]+" "+parts[2]] = ""
			}
		case 'S':
			parts := strings.SplitN(line, " ", 4)
			if len(parts) == 4 {
				o.srows[parts[1]+" "+parts[2]] = parts[3]
			}
		case 'Q':
			parts := strings.SplitN(line, " ", 4)
			if len(parts) == 4 {
				o.qrows[parts[1]+" "+parts[2]] = parts[3]
			}
		case 'T':
			if line != "T -" {
				o.tags = strings.Split(line[2:], ",")
			}
		case 'X':
			o.X = line
		default:
			o.lines[line[:1]] = line
		}
	}
}

func (d *driver) cmdBlock(line string) (modelObs, error) {
	if err := d.send(line); err != nil {
		return modelObs{}, err
	}
	return d.readBlock()
}
