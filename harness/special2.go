package main

// C11 (renderings), C16 (streams), C15 (locks and races).

import (
	"bytes"
	"encoding/hex"
	"errors"
	"fmt"
	"io"
	"os"
	"os/exec"
	"regexp"
	"strings"
	"sync"
	"sync/atomic"
	"time"
	"unicode"
	"unicode/utf8"

	"github.com/creack/pty"
	te "github.com/ricochet1k/termemu"
)

func regexpMatchString(pat, s string) (bool, error) { return regexp.MatchString(pat, s) }

// ---------------------------------------------------------------- C11 round trip

func rowsOfActive(im *impl) [][]cell {
	snap := im.vt.Snap()
	act := 0
	if snap.OnAlt {
		act = 1
	}
	var out [][]cell
	for y := range snap.Screens[act].Rows {
		out = append(out, cellsOfVerif(snap.Screens[act].Rows[y].Cells))
	}
	return out
}

func runToEnd(cs *Case) (*impl, string) {
	im, pan := newImpl(cs.Mode, cs.Grid, cs.W, cs.H)
	if pan != "" {
		return nil, pan
	}
	for _, it := range cs.Items {
		switch it.Kind {
		case "resize":
			if p := im.resize(it.W, it.H); p != "" {
				return nil, p
			}
		case "in":
			if p := feedAll(im, it.bytes()); p != "" {
				return nil, p
			}
		}
	}
	return im, ""
}

func specialRoundTrip(c *specialCtx) {
	prof := &profile{name: "C11", weights: withWeights(map[string]int{"sgr": 25, "textwide": 15, "goto": 14, "resize": 2, "badutf8": 2, "altscreen": 2}),
		minLen: 4, maxLen: 40, grid: 30, gmode: 0, chunks: []int{0}}
	master := newPrng(uint64(c.seed))
	seeds := make([]uint64, c.n)
	for i := range seeds {
		seeds[i] = master.next()
	}
	c.parallel(c.n, func(i int, d *driver) {
		r := newPrng(seeds[i])
		cs := genCase(prof, r)
		im, pan := runToEnd(&cs)
		if pan != "" {
			return
		}
		w, h := im.term.Size()
		orig := rowsOfActive(im)
		c.count(fmt.Sprintf("%v %dx%d %d", cs.Grid, w, h, seeds[i]))
		for y := 0; y < h; y++ {
			ansi := im.term.ANSILine(y)
			fresh, _ := newImpl(cs.Mode, cs.Grid, w, h)
			if p := feedAll(fresh, []byte(fmt.Sprintf("\x1b[%d;1H%s", y+1, ansi))); p != "" {
				c.violation("roundtrip-panic", p, cs)
				return
			}
			got := rowsOfActive(fresh)
			c.mu.Lock()
			c.st.Steps++
			c.mu.Unlock()
			if rowString(got[y]) != rowString(orig[y]) {
				c.violation("ansiline-roundtrip", fmt.Sprintf("row %d: ANSILine %q re-interpreted gives [%s], screen has [%s]", y, ansi, rowString(got[y]), rowString(orig[y])),
					map[string]any{"case": cs, "row": y, "ansiline": hex.EncodeToString([]byte(ansi))})
				return
			}
			for yy := range got {
				if yy != y && rowString(got[yy]) != rowString(blankCells(w)) {
					c.violation("ansiline-spill", fmt.Sprintf("row %d: ANSILine %q also changed row %d", y, ansi, yy), cs)
					return
				}
			}
		}
		// the property's own scenario: every row, one after the other, into ONE fresh terminal
		// (what the last run of a row leaves in force must not leak into the next row)
		{
			fresh, _ := newImpl(cs.Mode, cs.Grid, w, h)
			for y := 0; y < h; y++ {
				if p := feedAll(fresh, []byte(fmt.Sprintf("\x1b[%d;1H%s", y+1, im.term.ANSILine(y)))); p != "" {
					c.violation("roundtrip-panic", p, cs)
					return
				}
			}
			got := rowsOfActive(fresh)
			for y := 0; y < h && y < len(got); y++ {
				if rowString(got[y]) != rowString(orig[y]) {
					c.violation("ansiline-roundtrip-all-rows", fmt.Sprintf("all rows fed in order into one fresh terminal: row %d is [%s], screen has [%s]", y, rowString(got[y]), rowString(orig[y])),
						map[string]any{"case": cs, "row": y})
					return
				}
			}
		}
		if i < 2 {
			c.sample(cs.String())
		}
	})
	// every style: 13 modes x colour kinds, exhaustively over single attributes and sampled combinations
	r := newPrng(uint64(c.seed) + 99)
	var sgrs []string
	for _, m := range []int{1, 2, 3, 4, 5, 6, 7, 8, 9, 21, 51, 52, 53} {
		sgrs = append(sgrs, fmt.Sprint(m))
	}
	// RGB values whose packed form collides with small constants (0x000000, 0x000100 = (0,1,0), 0x000001, 0x010000) included
	cols := []string{"39", "30", "37", "90", "97", "38;5;0", "38;5;7", "38;5;8", "38;5;15", "38;5;16", "38;5;255", "38;2;0;0;0", "38;2;255;128;1", "38;2;1;2;3",
		"38;2;0;1;0", "38;2;0;0;1", "38;2;1;0;0", "38;2;255;255;255", "38;5;1"}
	for _, fg := range cols {
		for _, bg := range cols {
			sgrs = append(sgrs, fg+";"+strings.Replace(strings.Replace(strings.Replace(bg, "38;", "48;", 1), "39", "49", 1), "3", "4", 0))
			bgc := bg
			switch {
			case strings.HasPrefix(bg, "38;"):
				bgc = "48;" + bg[3:]
			case bg == "39":
				bgc = "49"
			case bg == "90" || bg == "97":
				bgc = fmt.Sprint(map[string]int{"90": 100, "97": 107}[bg])
			default:
				bgc = fmt.Sprint(map[string]int{"30": 40, "37": 47}[bg])
			}
			sgrs = append(sgrs, fg+";"+bgc)
		}
	}
	for k := 0; k < 300; k++ {
		var ps []string
		for j, n := 0, 1+r.intn(6); j < n; j++ {
			ps = append(ps, pick(r, sgrs))
		}
		sgrs = append(sgrs, strings.Join(ps, ";"))
	}
	d0, _ := startDriver(c.drvPath, c.widths)
	if d0 != nil {
		defer d0.close()
	}
	// rows of two or three runs: the escape from one run's style to the next (ANSIEscapeFrom)
	nSingle := len(sgrs)
	type styled struct{ sg, text string }
	var jobs []styled
	for _, sg := range sgrs {
		jobs = append(jobs, styled{sg, "\x1b[" + sg + "mab🐹"})
	}
	for k := 0; k < 1500; k++ {
		a, b2, c3 := sgrs[r.intn(nSingle)], sgrs[r.intn(nSingle)], sgrs[r.intn(nSingle)]
		reset := pick(r, []string{"", "0;", "", "22;23;24;25;27;28;29;"})
		jobs = append(jobs, styled{a + " > " + b2, "\x1b[" + a + "ma\x1b[" + reset + b2 + "mb\x1b[" + pick(r, []string{"", "0;"}) + c3 + "m🐹"})
	}
	for _, job := range jobs {
		sg := job.sg
		for _, grid := range []bool{false, true} {
			im, _ := newImpl(0, grid, 6, 1)
			feedAll(im, []byte(job.text))
			orig := rowsOfActive(im)
			ansi := im.term.ANSILine(0)
			fresh, _ := newImpl(0, grid, 6, 1)
			feedAll(fresh, []byte(ansi))
			got := rowsOfActive(fresh)
			c.count("sgr " + sg + fmt.Sprint(grid))
			// the model's transcription of Style.ANSIEscape against the real one
			if !grid {
				raw := im.vt.Snap().Screens[0].Style
				want := fmt.Sprintf("%x", te.VerifStyleFromRaw(raw).ANSIEscape())
				if d0 != nil {
					if got := d0.ask(fmt.Sprintf("ansi %d %d %d", raw[0], raw[1], raw[2])); got != want {
						c.violation("ansiescape-model", fmt.Sprintf("style %x: ANSIEscape %s, model %s", raw, want, got), sg)
					}
				}
			}
			if rowString(got[0]) != rowString(orig[0]) {
				c.violation("style-roundtrip", fmt.Sprintf("SGR %s: ANSILine %q gives [%s], screen has [%s]", sg, ansi, rowString(got[0]), rowString(orig[0])), sg)
			}
		}
	}
}

func blankCells(w int) []cell {
	out := make([]cell, w)
	for i := range out {
		out[i] = cell{text: " ", width: 1, sty: [3]uint32{0x100, 0x100, 0x100}}
	}
	return out
}

// ---------------------------------------------------------------- C11 TTY mirror

// specialTTYMirror: an inner terminal with a TTYFrontend attached to a region writes into an
// outer terminal that interprets the output; inside the region the outer screen must equal the
// inner one (wide characters cut by the region edge show as blanks) and the outer cursor must be
// at the inner cursor (shown) or hidden.
func specialTTYMirror(c *specialCtx) {
	prof := &profile{name: "C11", weights: withWeights(map[string]int{"sgr": 14, "textwide": 15, "goto": 14, "scroll": 8, "altscreen": 2, "mode": 4, "erase": 10}),
		minLen: 4, maxLen: 30, grid: 0, chunks: []int{0}}
	master := newPrng(uint64(c.seed) + 5)
	seeds := make([]uint64, c.n)
	for i := range seeds {
		seeds[i] = master.next()
	}
	c.parallel(c.n, func(i int, d *driver) {
		r := newPrng(seeds[i])
		cs := genCase(prof, r)
		cs.Items = filterItems(cs.Items, func(it Item) bool { return it.Kind == "in" })
		// every fourth case in grapheme mode, with combining marks that arrive in a read of their
		// own (they join the character left of the cursor, which may be a wide one)
		gmode := i%4 == 3
		tmode := te.TextReadModeRune
		if gmode {
			tmode = te.TextReadModeGrapheme
			var items []Item
			for _, it := range cs.Items {
				items = append(items, it)
				if (it.Class == "textwide" || it.Class == "text") && r.chance(1, 2) {
					items = append(items, in("mark", []byte(pick(r, []string{"\u0301", "\u0308", "\u0323\u0301"}))))
				}
			}
			cs.Items = items
			cs.Mode = 1
		}
		w, h := cs.W, cs.H
		// region inside the screen (sometimes the whole screen, sometimes cutting columns)
		rx, ry := r.intn(w), r.intn(h)
		rx2, ry2 := rx+1+r.intn(w-rx), ry+1+r.intn(h-ry)
		if r.chance(1, 3) {
			rx, ry, rx2, ry2 = 0, 0, w, h
		}
		region := te.Region{X: rx, Y: ry, X2: rx2, Y2: ry2}

		outer, _ := newImpl(cs.Mode, false, w, h)
		var out bytes.Buffer
		tty := te.NewTTYFrontend(nil, &out)
		be := &scriptBackend{}
		fwd := &showCursorSpy{Frontend: tty, show: true}
		var vt *te.VerifTerm
		if i%3 == 1 {
			// the mirror is installed on a terminal that already exists (SetFrontend): both
			// buffers must talk to it from then on
			vt = te.VerifNew(&te.EmptyFrontend{}, be, tmode, false)
			vt.Terminal().SetFrontend(fwd)
		} else {
			vt = te.VerifNew(fwd, be, tmode, false)
		}
		inner := vt.Terminal()
		tty.SetTerminal(inner)
		_ = inner.Resize(w, h)
		out.Reset()
		detachedFirst := r.chance(1, 4)
		step := 0
		feedInner := func(data []byte) string {
			be.script = append(be.script, chunk{data: data})
			for k := 0; k < len(data)+4; k++ {
				err, pan := vt.Step()
				if pan != "" {
					return pan
				}
				if err != nil {
					break
				}
			}
			return ""
		}
		compare := func(where string) bool {
			// outer interprets what the frontend wrote
			if p := feedAll(outer, out.Bytes()); p != "" {
				return false
			}
			out.Reset()
			snapI := vt.Snap()
			act := 0
			if snapI.OnAlt {
				act = 1
			}
			si := &snapI.Screens[act]
			snapO := outer.vt.Snap()
			so := &snapO.Screens[0]
			if gmode {
				// a combining mark that found no character to join has a cell of its own on the
				// inner screen (the zero-width-format-char corner recorded for C02/C03/C08); sent to
				// the outer terminal it joins the cell to its left: not the mirror's business
				for y := range si.Rows {
					for _, cl := range si.Rows[y].Cells {
						if fr, _ := utf8.DecodeRuneInString(cl.Text); !cl.Cont && unicode.Is(unicode.Mn, fr) {
							c.tally("grapheme-case-left-at-a-free-standing-mark")
							return false
						}
					}
				}
			}
			for y := ry; y < ry2; y++ {
				ci := cellsOfVerif(si.Rows[y].Cells)
				co := cellsOfVerif(so.Rows[y].Cells)
				if len(ci) != w || len(co) != w {
					return true
				}
				want := append([]cell(nil), ci[rx:rx2]...)
				// wide characters cut by the region edges are shown blank
				if want[0].cont {
					for k := 0; k < len(want) && want[k].cont; k++ {
						want[k] = cell{text: " ", width: 1, sty: want[k].sty}
					}
				}
				if rx2 < w && ci[rx2].cont {
					k := len(want) - 1
					for k > 0 && want[k].cont {
						want[k] = cell{text: " ", width: 1, sty: want[k].sty}
						k--
					}
					want[k] = cell{text: " ", width: 1, sty: want[k].sty}
				}
				if rowString(want) != rowString(co[rx:rx2]) {
					c.violation("tty-mirror", fmt.Sprintf("%s region %+v row %d: inner [%s] outer [%s]", where, region, y, rowString(want), rowString(co[rx:rx2])),
						map[string]any{"case": cs, "region": []int{rx, ry, rx2, ry2}})
					return false
				}
			}
			// cursor: shown at the inner position, or hidden
			showO := snapO.ViewFlags[int(te.VFShowCursor)]
			inside := si.CX >= rx && si.CX < rx2 && si.CY >= ry && si.CY < ry2
			// the frontend shows the cursor until the inner terminal hides it (?25l)
			showI := fwd.show
			if showI && inside && !showO {
				c.violation("tty-cursor", fmt.Sprintf("%s: inner cursor (%d,%d) is visible and inside %+v but the outer cursor is hidden", where, si.CX, si.CY, region),
					map[string]any{"case": cs, "region": []int{rx, ry, rx2, ry2}})
				return false
			}
			if showO && !showI {
				c.violation("tty-cursor", fmt.Sprintf("%s: the inner terminal hid the cursor but the outer cursor is shown", where),
					map[string]any{"case": cs, "region": []int{rx, ry, rx2, ry2}})
				return false
			}
			if showO && !(so.CX == si.CX && so.CY == si.CY) {
				c.violation("tty-cursor", fmt.Sprintf("%s: outer cursor shown at (%d,%d), inner cursor (%d,%d) inside=%v", where, so.CX, so.CY, si.CX, si.CY, inside),
					map[string]any{"case": cs, "region": []int{rx, ry, rx2, ry2}})
				return false
			}
			if showO && !inside {
				c.violation("tty-cursor", fmt.Sprintf("%s: outer cursor shown although the inner cursor (%d,%d) is outside %+v", where, si.CX, si.CY, region),
					map[string]any{"case": cs, "region": []int{rx, ry, rx2, ry2}})
				return false
			}
			return true
		}
		c.count(fmt.Sprintf("%dx%d %+v %d", w, h, region, seeds[i]))
		if detachedFirst {
			// nothing but a show-cursor may be emitted while detached
			for _, it := range cs.Items[:len(cs.Items)/2] {
				if p := feedInner(it.bytes()); p != "" {
					return
				}
			}
			if out.Len() != 0 {
				c.violation("tty-detached", fmt.Sprintf("detached frontend wrote %q", out.String()), cs)
				return
			}
			cs.Items = cs.Items[len(cs.Items)/2:]
		}
		// modelCheck: what the real frontend wrote for one explicit call (`out` holds exactly that)
		// against the model of TTYFrontend applied to the real inner screen, both canonicalised
		modelCheck := func(where, op string, attachedBefore bool) bool {
			snapI := vt.Snap()
			act := 0
			if snapI.OnAlt {
				act = 1
			}
			want, ok := mirrorModel(d, &snapI.Screens[act], region, fwd.show, true, attachedBefore, op)
			if !ok {
				c.violation("tty-model", fmt.Sprintf("%s: the model driver gave no answer for %s", where, op), cs)
				return false
			}
			got := append([]byte(nil), out.Bytes()...)
			if cg, cw := canonMirror(got), canonMirror(want); !bytes.Equal(cg, cw) {
				c.violation("tty-model", fmt.Sprintf("%s (%s, region %+v): TTYFrontend wrote %q, the model writes %q (canonical forms %q / %q)", where, op, region, got, want, cg, cw),
					map[string]any{"case": cs, "region": []int{rx, ry, rx2, ry2}})
				return false
			}
			c.tally("mirror-model-compared:" + strings.SplitN(op, ":", 2)[0])
			return true
		}
		tty.Attach(region)
		if !modelCheck("attach", "attach", false) {
			return
		}
		// the cursor keeps the visibility the inner terminal last asked for (also while detached)
		if !compare("attach") {
			return
		}
		for _, it := range cs.Items {
			step++
			if p := feedInner(it.bytes()); p != "" {
				return
			}
			if !compare(fmt.Sprintf("item %d %q", step, it.bytes())) {
				return
			}
			switch {
			case i%2 == 0 && r.chance(1, 2):
				// a second Attach repaints the whole region from the current state
				tty.Attach(region)
				if !modelCheck(fmt.Sprintf("re-attach after item %d", step), "attach", true) || !compare("re-attach") {
					return
				}
			case r.chance(1, 3):
				// an announcement for an arbitrary rectangle (also reaching beyond the region and the screen)
				ax, ay := r.intn(w+2), r.intn(h+2)
				ar := te.Region{X: ax, Y: ay, X2: ax + r.intn(w+3), Y2: ay + r.intn(h+3)}
				inner.WithLock(func() { tty.RegionChanged(ar, te.CRText) })
				if !modelCheck(fmt.Sprintf("RegionChanged %+v after item %d", ar, step), fmt.Sprintf("region:%d:%d:%d:%d", ar.X, ar.Y, ar.X2, ar.Y2), true) {
					return
				}
				// such a rectangle may cut a wide character in two (the terminal itself never
				// announces one that does): the outer terminal then rightly shows blanks there.
				// It interprets the output, a full repaint brings it back in line.
				if p := feedAll(outer, out.Bytes()); p != "" {
					return
				}
				out.Reset()
				tty.Attach(region)
				if !compare("repaint after RegionChanged") {
					return
				}
			}
		}
		tty.Detach()
		if got := out.String(); got != "\x1b[?25h" {
			c.violation("tty-detach", fmt.Sprintf("Detach wrote %q", got), cs)
			return
		}
		out.Reset()
		if p := feedInner([]byte("xyz\x1b[2;2Hq\x1b[?25l\x1b[?25h")); p == "" && out.Len() != 0 {
			c.violation("tty-detached", fmt.Sprintf("detached frontend wrote %q", out.String()), cs)
		}
		if i < 2 {
			c.sample(fmt.Sprintf("region %+v on %dx%d: %s", region, w, h, cs.String()))
		}
	})
}

// canonMirror brings the output of a TTYFrontend into a canonical form: of every maximal run of
// SGR sequences only the part from its last `ESC[0m` on counts (a reset clears whatever came
// before), and a run of SGR sequences that repeats the one in force since the last cursor
// positioning is dropped when text follows it (the code writes the full escape in front of every
// span StyledLine returns, the model once per maximal run of equal attributes).
func canonMirror(b []byte) []byte {
	type tok struct {
		sgr, csi bool
		b        []byte
	}
	var toks []tok
	for i := 0; i < len(b); {
		if b[i] == 0x1b && i+1 < len(b) && b[i+1] == '[' {
			j := i + 2
			for j < len(b) && !(b[j] >= 0x40 && b[j] <= 0x7e) {
				j++
			}
			if j < len(b) {
				j++
			}
			toks = append(toks, tok{sgr: b[j-1] == 'm', csi: true, b: b[i:j]})
			i = j
			continue
		}
		j := i
		for j < len(b) && b[j] != 0x1b {
			j++
		}
		if j == i {
			j = i + 1
		}
		toks = append(toks, tok{b: b[i:j]})
		i = j
	}
	var out []byte
	var last []byte
	for i := 0; i < len(toks); {
		t := toks[i]
		if !t.sgr {
			if t.csi {
				last = nil
			}
			out = append(out, t.b...)
			i++
			continue
		}
		j := i
		var grp []byte
		for j < len(toks) && toks[j].sgr {
			if string(toks[j].b) == "\x1b[0m" {
				grp = grp[:0]
			}
			grp = append(grp, toks[j].b...)
			j++
		}
		textFollows := j < len(toks) && !toks[j].csi
		if textFollows && last != nil && bytes.Equal(last, grp) {
			// the same attributes are already in force
		} else {
			out = append(out, grp...)
		}
		if textFollows {
			last = append([]byte(nil), grp...)
		} else {
			last = nil
		}
		i = j
	}
	return out
}

// mirrorRows: the rows of a real screen in the form the driver's `mirror` command reads.
func mirrorRows(s *te.VerifScreen) string {
	parts := make([]string, len(s.Rows))
	for y := range s.Rows {
		r := strings.ReplaceAll(rowString(cellsOfVerif(s.Rows[y].Cells)), " ", "_")
		if r == "" {
			r = "-"
		}
		parts[y] = r
	}
	return strings.Join(parts, "|")
}

// mirrorModel asks the model of TTYFrontend (lean/TM/Mirror.lean) what `op` writes, given the
// real inner screen and the frontend's state.
func mirrorModel(d *driver, s *te.VerifScreen, reg te.Region, show, focused, attached bool, op string) ([]byte, bool) {
	line := fmt.Sprintf("mirror %d %d %d %d %d %d %d %d %d %d %d %s %s", s.W, s.H, reg.X, reg.Y, reg.X2, reg.Y2, s.CX, s.CY,
		b2i(show), b2i(focused), b2i(attached), op, mirrorRows(s))
	ans := strings.TrimSpace(d.ask(line))
	if ans == "-" {
		return nil, true
	}
	b, err := hex.DecodeString(ans)
	return b, err == nil
}

// showCursorSpy forwards everything to the TTYFrontend and remembers what the inner terminal
// last said about cursor visibility.
type showCursorSpy struct {
	te.Frontend
	show bool
}

func (s *showCursorSpy) ViewFlagChanged(v te.ViewFlag, value bool) {
	if v == te.VFShowCursor {
		s.show = value
	}
	s.Frontend.ViewFlagChanged(v, value)
}

func filterItems(items []Item, keep func(Item) bool) []Item {
	var out []Item
	for _, it := range items {
		if keep(it) {
			out = append(out, it)
		}
	}
	return out
}

// ---------------------------------------------------------------- C16 streams

type teeSink struct{ buf bytes.Buffer }

func (t *teeSink) Write(p []byte) (int, error) { return t.buf.Write(p) }

func specialStreams(c *specialCtx) {
	prof := &profile{name: "C16", weights: withWeights(map[string]int{"textwide": 12, "osc": 4, "query": 4}), minLen: 2, maxLen: 30, grid: 20, chunks: []int{0}}
	master := newPrng(uint64(c.seed) + 11)
	seeds := make([]uint64, c.n)
	for i := range seeds {
		seeds[i] = master.next()
	}
	c.parallel(c.n, func(i int, d *driver) {
		r := newPrng(seeds[i])
		cs := genCase(prof, r)
		data := concatInput(&cs)
		if i%10 == 3 {
			pad := bytes.Repeat([]byte("0123456789abcdef\r\n\x1b[32mzz\x1b[m中é"), 600)
			n := pick(r, []int{4090, 4095, 4096, 4097, 8190, 8192, 8193, 12288, 16385})
			data = append(pad[:n+r.intn(5)], data...)
		}
		if len(data) == 0 {
			return
		}
		// read script: random sizes (1 .. > 4096), zero-length reads, data+error, error at an index
		var script []chunk
		expected := data
		off := 0
		errAt := -1
		if r.chance(1, 3) {
			errAt = r.intn(len(data) + 1)
		}
		stopped := false
		for off < len(data) && !stopped {
			n := 1 + r.intn(8)
			switch r.intn(6) {
			case 0:
				n = 1
			case 1:
				n = 1 + r.intn(300)
			case 2:
				n = 4000 + r.intn(5000)
			}
			if off+n > len(data) {
				n = len(data) - off
			}
			if errAt >= 0 && off+n >= errAt {
				n = errAt - off
				var e error = errInjected
				if r.chance(1, 2) {
					e = io.EOF
				}
				if n > 0 && r.chance(1, 2) {
					script = append(script, chunk{data: data[off : off+n], err: e}) // data together with the error
				} else {
					if n > 0 {
						script = append(script, chunk{data: data[off : off+n]})
					}
					script = append(script, chunk{err: e})
					if r.chance(1, 2) {
						// a backend that would deliver again after a read that reported the error with no
						// data (wherever in a sequence it arrived): the loop has stopped and must not ask
						script = append(script, chunk{data: []byte("late\r\n")})
					}
				}
				off += n
				expected = data[:off]
				stopped = true
				break
			}
			if r.chance(1, 6) {
				script = append(script, chunk{}) // (0, nil)
			}
			script = append(script, chunk{data: data[off : off+n]})
			off += n
		}
		var sizes []string
		for _, ch := range script {
			s := fmt.Sprint(len(ch.data))
			if ch.err != nil {
				s += "+" + ch.err.Error()
			}
			sizes = append(sizes, s)
		}
		payload := map[string]any{"w": cs.W, "h": cs.H, "grid": cs.Grid, "hex": hex.EncodeToString(data), "script": sizes}

		// implementation behind a TeeBackend, as a user would wire it
		be := &scriptBackend{script: script}
		sink := &teeSink{}
		tee := te.NewTeeBackend(be)
		tee.SetTee(sink)
		fe := newRecFrontend()
		vt := te.VerifNew(fe, tee, te.TextReadModeRune, cs.Grid)
		im := &impl{be: be, fe: fe, vt: vt, term: vt.Terminal(), grid: cs.Grid}
		fe.term, fe.vt = im.term, vt
		if p := im.resize(cs.W, cs.H); p != "" {
			return
		}
		if len(be.sizes) == 0 || be.sizes[len(be.sizes)-1] != [2]int{cs.W, cs.H} {
			c.violation("resize-forward", fmt.Sprintf("Resize(%d,%d) forwarded %v to the backend", cs.W, cs.H, be.sizes), payload)
		}
		// every Resize is forwarded, also one that does not change the size (the pty may not have it yet)
		nsz := len(be.sizes)
		_ = im.term.Resize(cs.W, cs.H)
		if len(be.sizes) != nsz+1 || be.sizes[len(be.sizes)-1] != [2]int{cs.W, cs.H} {
			c.violation("resize-forward", fmt.Sprintf("a repeated Resize(%d,%d) was not forwarded to the backend (%v)", cs.W, cs.H, be.sizes[nsz:]), payload)
		}
		fe.resync(cs.W, cs.H)
		im.evMark = len(fe.events)
		im.observe(true)
		// lock-step against the model fed the bytes the loop must interpret
		pol := "keep"
		if cs.Grid {
			pol = "blank"
		}
		if _, err := d.cmdBlock(fmt.Sprintf("case %s %d %d", pol, cs.W, cs.H)); err != nil {
			return
		}
		d.send("feed " + hex.EncodeToString(expected))
		c.count(fmt.Sprintf("%d %v", len(data), sizes))
		var loopErr error
		for k := 0; k < len(data)+len(script)+16; k++ {
			err, pan := vt.Step()
			if pan != "" {
				if strings.Contains(pan, "the read loop does not stop") {
					c.violation("stream-no-stop", fmt.Sprintf("read script %v: %s", sizes, pan), payload)
				}
				return // other panics: C01
			}
			if err != nil {
				loopErr = err
				break
			}
			io1, _ := im.observe(false)
			cmd := fmt.Sprintf("adv %d", im.consumed())
			if len(be.script) == 0 && vt.Buffered() == 0 {
				cmd += " eof"
			}
			mo, derr := d.cmdBlock(cmd)
			if derr != nil {
				return
			}
			if strings.Contains(strings.Join(mo.tags, ","), "tK") && len(mo.tags) > 1 {
				return // sanctioned corner
			}
			if mo.X != "" {
				c.violation("stream-order", fmt.Sprintf("read script %v: the loop consumed bytes the stream does not deliver in this order: %s %s", sizes, mo.X, io1.G), payload)
				return
			}
			if projs := diffObs(io1, mo); len(projs) > 0 {
				c.violation("stream-content", fmt.Sprintf("read script %v: state differs from the model fed the same bytes: %s", sizes, describeDiff(io1, mo, projs)), payload)
				return
			}
		}
		if loopErr == nil {
			c.violation("stream-no-stop", fmt.Sprintf("read script %v: the loop did not stop", sizes), payload)
			return
		}
		// known finding: a stream that ends inside a multi-byte character — its last bytes are never interpreted
		for k := len(expected) - 1; k >= 0 && k >= len(expected)-3; k-- {
			if expected[k] >= 0xc0 {
				if !utf8.FullRune(expected[k:]) && vt.Buffered() > 0 {
					c.violation("eof-inside-character", fmt.Sprintf("read script %v: the stream ends inside a character; %d byte(s) stay unread for ever", sizes, vt.Buffered()), payload)
				}
				break
			}
			if expected[k] < 0x80 {
				break
			}
		}
		// everything delivered before the stop was interpreted (an incomplete final sequence or character aside)
		io1, _ := im.observe(false)
		mo, _ := d.cmdBlock("eof")
		if projs := diffObs(io1, mo); len(projs) > 0 {
			c.violation("stream-tail", fmt.Sprintf("read script %v: after the loop stopped: %s", sizes, describeDiff(io1, mo, projs)), payload)
			return
		}
		if be.delivered != len(expected) {
			c.violation("stream-overread", fmt.Sprintf("read script %v: backend delivered %d bytes, loop should stop after %d", sizes, be.delivered, len(expected)), payload)
			return
		}
		if !bytes.Equal(sink.buf.Bytes(), expected) {
			c.violation("tee-copy", fmt.Sprintf("read script %v: tee received %d bytes, backend delivered %d", sizes, sink.buf.Len(), len(expected)), payload)
			return
		}
		if i < 3 {
			c.sample(fmt.Sprintf("%d bytes, reads %v", len(data), sizes))
		}

		// Terminal.Write over short-writing / failing backends
		msg := data
		if len(msg) > 64 {
			msg = msg[:64]
		}
		var ws []int
		for k, n := 0, r.intn(10); k < n; k++ {
			ws = append(ws, pick(r, []int{0, 1, 1, 2, 3, 5, 8, 100}))
		}
		failAt := 0
		if r.chance(1, 3) {
			failAt = 1 + r.intn(6)
		}
		progress := 0
		if failAt > 0 && r.chance(1, 2) {
			progress = pick(r, []int{1, 2, 5, 1000})
		}
		be.written, be.writeCalls, be.writeSizes, be.writeErrAt, be.writeErrProgress = nil, 0, ws, failAt, progress
		if ws == nil {
			be.writeSizes = []int{}
		}
		n, werr := im.term.Write(msg)
		wantN, wantErr, wantDel := writeAllSpec(msg, ws, failAt, progress)
		gotErr := "nil"
		if werr != nil {
			gotErr = werr.Error()
		}
		if n != wantN || gotErr != wantErr || !bytes.Equal(be.written, wantDel) {
			c.violation("write-all", fmt.Sprintf("Write(%d bytes) over sizes %v failAt %d = (%d,%s) delivered %d bytes; want (%d,%s) delivered %d", len(msg), ws, failAt, n, gotErr, len(be.written), wantN, wantErr, len(wantDel)),
				map[string]any{"len": len(msg), "sizes": ws, "failAt": failAt})
		}
		// the model agrees with the specification used here
		if progress == 0 {
			ans := d.ask(fmt.Sprintf("write %s %d %s", hexOrDash(msg), failAt, intsOrDash(ws)))
			if want := fmt.Sprintf("%d %s %s", wantN, wantErr, hexOrDash(wantDel)); ans != want {
				c.violation("write-model", fmt.Sprintf("model says %q, specification %q", ans, want), nil)
			}
		}
		// the richer script of `terminalWriteP`: a failing call may have accepted bytes
		{
			var calls []string
			for k := 0; k < len(ws) || k < failAt; k++ {
				sz := 1000000000
				if k < len(ws) {
					sz = ws[k]
				}
				if k+1 == failAt {
					calls = append(calls, fmt.Sprintf("%d!", progress))
					break
				}
				calls = append(calls, fmt.Sprint(sz))
			}
			cs := strings.Join(calls, ",")
			if cs == "" {
				cs = "-"
			}
			ans := d.ask(fmt.Sprintf("writep %s %s", hexOrDash(msg), cs))
			if want := fmt.Sprintf("%d %s %s", wantN, wantErr, hexOrDash(wantDel)); ans != want {
				c.violation("write-model", fmt.Sprintf("model (writep %s) says %q, specification %q", cs, ans, want), nil)
			}
		}
		be.writeSizes, be.writeErrAt, be.writeErrProgress = nil, 0, 0
	})
	// the token reader's buffer (compaction, doubling) against the model's RBuf
	c.parallel(c.n/10+8, func(i int, d *driver) {
		readerBufferCheck(c, d, newPrng(uint64(c.seed)*77+uint64(i)), i)
	})
	// the token reader's functions (ReadPrintableBytes, ReadByte, fill) against lean/TM/Reader.lean
	c.parallel(c.n/3+40, func(i int, d *driver) {
		readerFunctionCheck(c, d, newPrng(uint64(c.seed)*131+uint64(i)), i)
	})
	// a tee installed, replaced or removed while a Read is blocked in the backend: the bytes of
	// that read go to the writer installed when they are read (the Read may have been waiting
	// for as long as the application was silent)
	for round := 0; round < 20; round++ {
		gate := &gateBackend{ch: make(chan []byte)}
		tee := te.NewTeeBackend(gate)
		sinks := []*teeSink{{}, {}, nil, {}}
		want := make([]string, len(sinks))
		bad := false
		for k, sk := range sinks {
			type res struct {
				n   int
				err error
			}
			got := make(chan res, 1)
			buf := make([]byte, 64)
			w0 := gate.waits.Load()
			go func() { n, err := tee.Read(buf); got <- res{n, err} }()
			for deadline := time.Now().Add(scaled(10 * time.Second)); time.Now().Before(deadline) && !(gate.waits.Load() > w0 && gate.waiting.Load()); {
				time.Sleep(50 * time.Microsecond)
			}
			if sk == nil {
				tee.SetTee(nil)
			} else {
				tee.SetTee(sk)
			}
			msg := fmt.Sprintf("chunk-%d-%d", round, k)
			gate.ch <- []byte(msg)
			select {
			case r := <-got:
				if r.n != len(msg) {
					bad = true
				}
			case <-time.After(scaled(10 * time.Second)):
				c.violation("tee-switch", "TeeBackend.Read did not return after its backend delivered data", nil)
				return
			}
			if sk != nil {
				want[k] = msg
			}
		}
		for k, sk := range sinks {
			if sk != nil && sk.buf.String() != want[k] {
				c.violation("tee-switch", fmt.Sprintf("writer %d, installed while a Read was waiting in the backend, received %q; the bytes read while it was installed are %q", k, sk.buf.String(), want[k]),
					map[string]any{"round": round})
				bad = true
			}
		}
		c.count(fmt.Sprint("tee-switch", round))
		if bad {
			break
		}
	}
	{
		be := &scriptBackend{}
		vt := te.VerifNew(nil, be, te.TextReadModeRune, false)
		_ = vt.Terminal().Resize(80, 14)
		if len(be.sizes) != 1 || be.sizes[0] != [2]int{80, 14} {
			c.violation("resize-forward", fmt.Sprintf("Resize(80,14) on a fresh terminal forwarded %v", be.sizes), nil)
		}
	}
	// PTY backend: h rows and w columns
	var pb te.PTYBackend
	if slave, err := pb.Open(); err == nil {
		// through the terminal, starting with the size the buffers already have
		ptyTerm := te.VerifNew(nil, &pb, te.TextReadModeRune, false).Terminal()
		for _, sz := range [][2]int{{80, 14}, {80, 14}, {80, 24}, {1, 1}, {132, 50}, {7, 300}} {
			if err := ptyTerm.Resize(sz[0], sz[1]); err != nil {
				continue
			}
			rows, cols, err := pty.Getsize(slave)
			c.count(fmt.Sprint("pty", sz))
			if err == nil && (rows != sz[1] || cols != sz[0]) {
				c.violation("pty-winsize", fmt.Sprintf("SetSize(w=%d,h=%d): pty reports %d rows %d cols", sz[0], sz[1], rows, cols), sz)
			}
		}
		// directly on the backend: sizes up to what a winsize can hold (no buffers of that size needed)
		for _, sz := range [][2]int{{100, 4095}, {100, 4096}, {100, 5000}, {8191, 30}, {8192, 30}, {9000, 40}, {65535, 65535}, {300, 65535},
			// beyond what a winsize holds: an error, never another size
			{65536, 24}, {65616, 24}, {80, 65536}, {70000, 70000}, {131152, 40}} {
			if err := pb.SetSize(sz[0], sz[1]); err != nil {
				continue
			}
			rows, cols, err := pty.Getsize(slave)
			c.count(fmt.Sprint("pty-big", sz))
			if err == nil && (rows != sz[1] || cols != sz[0]) {
				c.violation("pty-winsize", fmt.Sprintf("SetSize(w=%d,h=%d): pty reports %d rows %d cols", sz[0], sz[1], rows, cols), sz)
			}
		}
		slave.Close()
	} else {
		c.st.Samples = append(c.st.Samples, "no PTY available: winsize clause not exercised")
	}
}

func intsOrDash(xs []int) string {
	if len(xs) == 0 {
		return "-"
	}
	s := make([]string, len(xs))
	for i, x := range xs {
		s[i] = fmt.Sprint(x)
	}
	return strings.Join(s, ",")
}

// writeAllSpec: the contract of Terminal.Write over a backend accepting sizes[k] bytes at call k
// (everything once the script is exhausted), failing at call failAt (1-based, 0 = never).
func writeAllSpec(b []byte, sizes []int, failAt, progress int) (int, string, []byte) {
	total := 0
	var delivered []byte
	call := 0
	for len(b) > 0 {
		call++
		if failAt > 0 && call == failAt {
			// the failing call may have accepted bytes: they count
			n := progress
			if n > len(b) {
				n = len(b)
			}
			return total + n, errInjected.Error(), append(delivered, b[:n]...)
		}
		n := len(b)
		if call-1 < len(sizes) && sizes[call-1] < n {
			n = sizes[call-1]
		}
		delivered = append(delivered, b[:n]...)
		total += n
		if n == 0 {
			return total, io.ErrShortWrite.Error(), delivered
		}
		b = b[n:]
	}
	return total, "nil", delivered
}

// ---------------------------------------------------------------- C15 locks and races

// specialLocks runs in the race-instrumented build. Each scenario runs in its own process so
// that a race report (exit code 66) or a deadlock (timeout) is attributed to its seed.
func specialLocks(c *specialCtx) {
	if os.Getenv("VERIFH_LOCK_SCENARIO") != "" {
		return
	}
	var mu sync.Mutex
	sem := make(chan struct{}, 8)
	var wg sync.WaitGroup
	for k := 0; k < c.n; k++ {
		wg.Add(1)
		sem <- struct{}{}
		go func(k int) {
			defer wg.Done()
			defer func() { <-sem }()
			seed := c.seed*100000 + int64(k)
			run := func() (string, bool, int) {
				cmd := exec.Command(os.Args[0], "-child", "-special", "lockscenario", "-seed", fmt.Sprint(seed), "-prop", "C15", "-driver", c.drvPath, "-widths", c.widths)
				cmd.Env = append(os.Environ(), "GORACE=exitcode=66 halt_on_error=1", "VERIFH_LOCK_SCENARIO=1")
				var out bytes.Buffer
				cmd.Stdout, cmd.Stderr = &out, &out
				done := make(chan error, 1)
				_ = cmd.Start()
				go func() { done <- cmd.Wait() }()
				select {
				case err := <-done:
					code := 0
					if ee, ok := err.(*exec.ExitError); ok {
						code = ee.ExitCode()
					} else if err != nil {
						code = -1
					}
					return out.String(), false, code
				case <-time.After(scaled(60 * time.Second)):
					_ = cmd.Process.Kill()
					<-done
					return out.String(), true, -1
				}
			}
			out, timedOut, code := run()
			mu.Lock()
			c.st.Cases++
			c.sigs[fmt.Sprint(seed)] = true
			mu.Unlock()
			switch {
			case timedOut:
				// a timing signal counts only when reproduced
				_, again, _ := run()
				if again {
					c.violation("deadlock", fmt.Sprintf("scenario seed %d did not finish within 60 s (twice): %s", seed, truncate(out, 1500)), map[string]any{"scenario_seed": seed})
				}
			case strings.Contains(out, "DATA RACE") || code == 66:
				c.violation("data-race", fmt.Sprintf("scenario seed %d: %s", seed, truncate(out, 3000)), map[string]any{"scenario_seed": seed})
			case code != 0:
				c.violation("lock-protocol", fmt.Sprintf("scenario seed %d (exit %d): %s", seed, code, truncate(out, 2000)), map[string]any{"scenario_seed": seed})
			}
		}(k)
	}
	wg.Wait()
	c.st.Samples = append(c.st.Samples, "scenario: read loop on a pipe fed in random chunks || 3 readers under WithLock || Write/SendKey/mouse || Resize || SetTee || Attach/Detach of a TTYFrontend; plus lock probes while the loop waits inside an escape sequence")
}

type pipeBackend struct {
	r     *io.PipeReader
	wmu   sync.Mutex
	wrote int
	sum   int
	// repaint: when set, SetSize behaves like an in-process application that repaints on a
	// size change: it writes to the terminal's input and returns when that has been read
	repaint atomic.Pointer[io.PipeWriter]
}

func (p *pipeBackend) Read(b []byte) (int, error) { return p.r.Read(b) }
func (p *pipeBackend) Write(b []byte) (int, error) {
	p.wmu.Lock()
	p.wrote += len(b)
	for _, c := range b { // a backend reads what it is given (after SendKey has let go of the terminal lock)
		p.sum += int(c)
	}
	p.wmu.Unlock()
	return len(b), nil
}
func (p *pipeBackend) SetSize(w, h int) error {
	if pw := p.repaint.Load(); pw != nil {
		_, _ = pw.Write([]byte("\x1b[H\x1b[2Jrepainted "))
		_, _ = pw.Write([]byte(fmt.Sprintf("for %dx%d\r\n", w, h)))
	}
	return nil
}

type lockProbeFrontend struct {
	next     te.Frontend // optional: callbacks are forwarded
	vt       atomic.Pointer[te.VerifTerm]
	unlocked atomic.Int64
	calls    atomic.Int64
	reads    atomic.Int64
}

func (f *lockProbeFrontend) probe() {
	f.calls.Add(1)
	if vt := f.vt.Load(); vt != nil {
		if vt.TryLock() {
			f.unlocked.Add(1)
		}
		// the contract allows read accessors inside callbacks
		t := vt.Terminal()
		w, h := t.Size()
		if h > 0 && w > 0 {
			_ = t.Line(0)
			_ = t.StyledLine(0, w, h-1)
			f.reads.Add(1)
		}
	}
}
func (f *lockProbeFrontend) Bell() {
	f.probe()
	if f.next != nil {
		f.next.Bell()
	}
}
func (f *lockProbeFrontend) RegionChanged(r te.Region, c te.ChangeReason) {
	f.probe()
	if f.next != nil {
		f.next.RegionChanged(r, c)
	}
}
func (f *lockProbeFrontend) ScrollLines(n int) {
	f.probe()
	if f.next != nil {
		f.next.ScrollLines(n)
	}
}
func (f *lockProbeFrontend) CursorMoved(x, y int) {
	f.probe()
	if f.next != nil {
		f.next.CursorMoved(x, y)
	}
}
func (f *lockProbeFrontend) StyleChanged(s te.Style) {
	f.probe()
	if f.next != nil {
		f.next.StyleChanged(s)
	}
}
func (f *lockProbeFrontend) ViewFlagChanged(v te.ViewFlag, b bool) {
	f.probe()
	if f.next != nil {
		f.next.ViewFlagChanged(v, b)
	}
}
func (f *lockProbeFrontend) ViewIntChanged(v te.ViewInt, n int) {
	f.probe()
	if f.next != nil {
		f.next.ViewIntChanged(v, n)
	}
}
func (f *lockProbeFrontend) ViewStringChanged(v te.ViewString, s string) {
	f.probe()
	if f.next != nil {
		f.next.ViewStringChanged(v, s)
	}
}

// selfStoppingTee ends the recording from inside its own Write.
type selfStoppingTee struct {
	tee  *te.TeeBackend
	done chan struct{}
	once sync.Once
}

func (s *selfStoppingTee) Write(p []byte) (int, error) {
	s.tee.SetTee(nil)
	s.once.Do(func() { close(s.done) })
	return len(p), nil
}

// lockScenario is one concurrent scenario; it exits non-zero with a message on a protocol
// violation. Races are reported by the race runtime, deadlocks by the parent's timeout.
func lockScenario(seed int64) int {
	// 0. several terminals are created and start their read loops at the same time (package-level
	// state such as the debug output must be initialised safely); the race detector judges
	{
		var wg0 sync.WaitGroup
		for k := 0; k < 3; k++ {
			wg0.Add(1)
			go func() {
				defer wg0.Done()
				tm := te.NewWithMode(&te.EmptyFrontend{}, te.NewNoPTYBackend(bytes.NewReader([]byte("ab\x1b[2;3r\x05cd\r\n")), io.Discard), te.TextReadModeRune)
				tm.WithLock(func() { _ = tm.Line(0) })
			}()
		}
		wg0.Wait()
	}
	r := newPrng(uint64(seed))
	pr, pw := io.Pipe()
	be := &pipeBackend{r: pr}
	tee := te.NewTeeBackend(be)
	fe := &lockProbeFrontend{}
	mode := te.TextReadModeRune
	if r.chance(1, 4) {
		mode = te.TextReadModeGrapheme
	}
	// the probing frontend forwards to a TTYFrontend that another goroutine attaches and detaches
	tty := te.NewTTYFrontend(nil, io.Discard)
	fe.next = tty
	vt := te.VerifNew(fe, tee, mode, r.chance(1, 5))
	fe.vt.Store(vt)
	term := vt.Terminal()
	tty.SetTerminal(term)
	_ = term.Resize(20, 6)
	done := vt.StartLoop()

	// 1. the loop releases the lock while it waits inside an escape sequence
	for _, part := range []string{"ab\x1b", "[", "3", "1", ";", "m", "x\x1b]0;ti", "tle", "\x07", "\x1bP12", "\x1b\\", "\xf0\x9f", "\x90\xb9"} {
		_, _ = pw.Write([]byte(part))
		deadline := time.Now().Add(scaled(3 * time.Second))
		got := false
		for time.Now().Before(deadline) {
			if vt.TryLock() {
				got = true
				break
			}
			time.Sleep(200 * time.Microsecond)
		}
		if !got {
			fmt.Printf("lock held while waiting for input after %q\n", part)
			return 3
		}
	}

	// 1a. a panic inside a locked section (a rejected Resize, a reader asking for a row that does
	// not exist) must not leave the lock held
	{
		free := func() bool {
			for deadline := time.Now().Add(scaled(3 * time.Second)); time.Now().Before(deadline); time.Sleep(200 * time.Microsecond) {
				if vt.TryLock() {
					return true
				}
			}
			return false
		}
		for k, f := range []func(){
			func() { _ = term.Resize(0, 0) },
			func() { term.WithLock(func() { panic("reader failed") }) },
			func() { term.WithLock(func() { _ = term.StyledLine(0, 5, 1000) }) },
		} {
			func() {
				defer func() { _ = recover() }()
				f()
			}()
			if !free() {
				fmt.Printf("deadlock: the terminal lock stayed held after a panic inside a locked section (case %d)\n", k)
				return 11
			}
		}
	}

	// 1b. a backend whose SetSize feeds the terminal and waits until that has been read (an
	// in-process application repainting on resize): Resize must not hold the lock across it
	{
		be.repaint.Store(pw)
		resized := make(chan struct{})
		go func() { _ = term.Resize(22, 7); close(resized) }()
		select {
		case <-resized:
		case <-time.After(scaled(8 * time.Second)):
			fmt.Println("deadlock: Resize did not return while the backend's SetSize was feeding the terminal (lock held across the backend call)")
			return 10
		}
		be.repaint.Store(nil)
	}

	// 2. concurrent use of the documented API
	prof := profiles["general"]
	var wg sync.WaitGroup
	stop := make(chan struct{})
	var ops atomic.Int64
	wg.Add(1)
	go func() { // the application writing output
		defer wg.Done()
		rr := newPrng(uint64(seed) + 1)
		toggles := []string{"\x1b[?1000h", "\x1b[?1006h", "\x1b[?1006l", "\x1b[?1005h", "\x1b[?1005l", "\x1b[?1003h", "\x1b[=5u", "\x1b[=0u",
			"\x1b[>4;2m", "\x1b[>4m", "\x1b[?1h", "\x1b[?1l", "\x1b[>3u", "\x1b[<u", "\x1b[?1049h", "\x1b[?1049l", "\x1b[?1000h"}
		for k := 0; k < 25; k++ {
			cs := genCase(prof, rr)
			data := concatInput(&cs)
			// the state read by SendKey / mouse reports keeps changing
			for j := 0; j < 12; j++ {
				data = append(data, pick(rr, toggles)...)
			}
			data = append(data, "\x1b[?1002h"...)
			for off := 0; off < len(data); {
				n := 1 + rr.intn(40)
				if off+n > len(data) {
					n = len(data) - off
				}
				_, _ = pw.Write(data[off : off+n])
				off += n
			}
		}
	}()
	for g := 0; g < 3; g++ {
		wg.Add(1)
		go func(g int) { // readers
			defer wg.Done()
			for {
				select {
				case <-stop:
					return
				default:
				}
				var kept []te.Line
				term.WithLock(func() {
					w, h := term.Size()
					for y := 0; y < h; y++ {
						_ = term.Line(y)
						_ = term.ANSILine(y)
						kept = append(kept, term.StyledLine(0, w, y))
					}
					kept = append(kept, term.StyledLines(te.Region{X: 0, Y: 0, X2: w, Y2: h})...)
				})
				// what an accessor returned belongs to the caller: it is used after the lock is gone
				n := 0
				for _, l := range kept {
					n += len(l.PlainTextString())
				}
				if n < 0 {
					return
				}
				ops.Add(1)
			}
		}(g)
	}
	wg.Add(1)
	go func() { // a second typist: plain character keys only (whatever SendKey hands to the backend must be its own)
		defer wg.Done()
		rr := newPrng(uint64(seed) + 12)
		for {
			select {
			case <-stop:
				return
			default:
			}
			_, _ = term.SendKey(te.KeyEvent{Code: te.KeyRune, Rune: rune('a' + rr.intn(26))})
			_, _ = term.SendKey(te.KeyEvent{Code: te.KeyRune, Rune: rune(0x4e00 + rr.intn(100))})
			ops.Add(1)
		}
	}()
	wg.Add(1)
	go func() { // input side: keys, mouse, raw writes
		defer wg.Done()
		rr := newPrng(uint64(seed) + 2)
		for {
			select {
			case <-stop:
				return
			default:
			}
			_, _ = term.SendKey(te.KeyEvent{Code: te.KeyCode(rr.intn(112)), Rune: 'a', Mod: te.KeyMod(rr.intn(8))})
			_, _ = term.SendKey(te.KeyEvent{Code: te.KeyRune, Rune: rune('A' + rr.intn(26))})
			_, _ = vt.SendMouse(te.MouseBtn(rr.intn(4)), rr.chance(1, 2), te.MouseFlag(4*rr.intn(32)), 1+rr.intn(300), 1+rr.intn(50))
			_, _ = term.Write([]byte("typed"))
			ops.Add(1)
		}
	}()
	wg.Add(1)
	go func() { // resizer and tee switcher
		defer wg.Done()
		rr := newPrng(uint64(seed) + 3)
		for {
			select {
			case <-stop:
				return
			default:
			}
			_ = term.Resize(1+rr.intn(30), 1+rr.intn(10))
			if rr.chance(1, 2) {
				tee.SetTee(io.Discard)
			} else {
				tee.SetTee(nil)
			}
			ops.Add(1)
			time.Sleep(time.Duration(rr.intn(300)) * time.Microsecond)
		}
	}()
	attachDone := make(chan struct{})
	var attaches atomic.Int64
	go func() { // a UI goroutine attaching and detaching the mirror
		defer close(attachDone)
		rr := newPrng(uint64(seed) + 4)
		for {
			select {
			case <-stop:
				return
			default:
			}
			tty.Attach(te.Region{X: rr.intn(5), Y: rr.intn(3), X2: 5 + rr.intn(20), Y2: 3 + rr.intn(6)})
			attaches.Add(1)
			if rr.chance(1, 2) {
				tty.Detach()
			}
			if rr.chance(1, 3) {
				tty.SetFocus(rr.chance(1, 2))
			}
		}
	}()
	// wait for the writer, then stop the others
	time.Sleep(50 * time.Millisecond)
	writerDone := make(chan struct{})
	go func() {
		// the writer goroutine is the first wg member; poll the pipe by closing after a grace period
		time.Sleep(1500 * time.Millisecond)
		close(writerDone)
	}()
	<-writerDone
	close(stop)
	// the writer may still be blocked in pw.Write if the loop died: closing the pipe ends both
	go func() {
		time.Sleep(20 * time.Second)
		pw.CloseWithError(errors.New("scenario over"))
	}()
	wg.Wait()
	select {
	case <-attachDone:
	case <-time.After(scaled(8 * time.Second)):
		fmt.Printf("deadlock: TTYFrontend.Attach did not return (%d attaches completed) while the read loop was delivering callbacks\n", attaches.Load())
		return 7
	}
	// 3. a recorder behind the TeeBackend stops recording while a tee write is in flight, from
	// the consumer side of a pipe and from inside its own Write
	{
		rp, wp := io.Pipe()
		tee.SetTee(wp)
		recDone := make(chan struct{})
		go func() {
			buf := make([]byte, 3)
			_, _ = io.ReadFull(rp, buf)
			tee.SetTee(nil)
			rp.Close()
			close(recDone)
		}()
		go func() { _, _ = pw.Write([]byte("0123456789")) }()
		select {
		case <-recDone:
		case <-time.After(scaled(8 * time.Second)):
			fmt.Println("deadlock: SetTee(nil) from the consumer of a tee pipe did not return while a tee write was in flight")
			return 8
		}
		selfDone := make(chan struct{})
		tee.SetTee(&selfStoppingTee{tee: tee, done: selfDone})
		go func() { _, _ = pw.Write([]byte("abcdefghij")) }()
		select {
		case <-selfDone:
		case <-time.After(scaled(8 * time.Second)):
			fmt.Println("deadlock: a tee writer calling SetTee from its own Write did not return")
			return 9
		}
	}
	pw.Close()
	select {
	case <-done:
	case <-time.After(scaled(10 * time.Second)):
		fmt.Println("read loop did not end after the backend was closed")
		return 4
	}
	if n := fe.unlocked.Load(); n > 0 {
		fmt.Printf("%d of %d callbacks ran while the terminal lock was free\n", n, fe.calls.Load())
		return 5
	}
	if fe.calls.Load() == 0 || ops.Load() == 0 {
		fmt.Println("scenario exercised nothing")
		return 6
	}
	return 0
}

// ---------------------------------------------------------------- C16 reader buffer vs model

type recSource struct {
	script [][]byte // what each Read returns (nil entry = (0,nil)); exhausted = EOF
	got    [][]byte // what the reads of the current operation delivered
}

func (s *recSource) Read(p []byte) (int, error) {
	if len(s.script) == 0 {
		return 0, io.EOF
	}
	c := s.script[0]
	n := copy(p, c)
	if n < len(c) {
		s.script[0] = c[n:]
	} else {
		s.script = s.script[1:]
	}
	s.got = append(s.got, append([]byte(nil), p[:n]...))
	return n, nil
}

// readerBufferCheck drives a bare GraphemeReader and the model's RBuf with the same fills and
// consumptions and compares buffer indices, capacity and buffered bytes after every operation.
func readerBufferCheck(c *specialCtx, d *driver, r *prng, idx int) {
	total := 200 + r.intn(3000)
	if r.chance(1, 3) {
		total = pick(r, []int{4090, 4096, 4100, 8192, 8200, 12000, 20000})
	}
	data := make([]byte, total)
	for i := range data {
		data[i] = byte('a' + r.intn(26))
		if r.chance(1, 40) {
			data[i] = 10
		}
	}
	src := &recSource{}
	for off := 0; off < total; {
		n := 1 + r.intn(50)
		switch r.intn(6) {
		case 0:
			n = 1
		case 1:
			n = 3000 + r.intn(6000)
		case 2:
			src.script = append(src.script, nil)
		}
		if off+n > total {
			n = total - off
		}
		src.script = append(src.script, data[off:off+n])
		off += n
	}
	gr := te.NewGraphemeReaderWithMode(src, te.TextReadModeRune)
	d.send("rbuf init")
	consumedTotal := 0
	for k := 0; k < total*2+10; k++ {
		src.got = nil
		before := consumedTotal
		var err error
		if r.chance(1, 3) {
			_, err = gr.ReadByte()
			if err == nil {
				consumedTotal++
			}
		} else {
			var s string
			s, _, _, err = gr.ReadPrintableBytes(pick(r, []int{0, 1, 5, 80, 5000}))
			consumedTotal += len(s)
			if err == nil && s == "" {
				// a control byte is next
				if _, e2 := gr.ReadByte(); e2 == nil {
					consumedTotal++
				}
			}
		}
		ans := ""
		for _, g := range src.got {
			ans = d.ask("rbuf fill " + hexOrDash(g))
		}
		if consumedTotal > before || ans == "" {
			ans = d.ask(fmt.Sprintf("rbuf consume %d", consumedTotal-before))
		}
		st, en, cp := te.VerifReaderState(gr)
		var ms, me, mc int
		var view string
		fmt.Sscanf(ans, "%d %d %d %s", &ms, &me, &mc, &view)
		c.mu.Lock()
		c.st.Steps++
		c.mu.Unlock()
		if err == nil && (st != ms || en != me || cp != mc) {
			c.violation("reader-buffer", fmt.Sprintf("after operation %d: reader start=%d end=%d cap=%d, model start=%d stop=%d cap=%d", k, st, en, cp, ms, me, mc), map[string]any{"seed": idx})
			return
		}
		if err != nil {
			break
		}
	}
	if consumedTotal != total {
		c.violation("reader-lost-bytes", fmt.Sprintf("source delivered %d bytes, reader handed out %d", total, consumedTotal), map[string]any{"seed": idx})
	}
	c.count(fmt.Sprint("reader", idx))
}

// ---------------------------------------------------------------- C18 resize while the loop waits

// gateBackend hands the read loop one chunk at a time and knows when the loop is
// blocked waiting for the next one.
type gateBackend struct {
	ch        chan []byte
	rest      []byte
	waiting   atomic.Bool
	waits     atomic.Int64 // how many times the loop has started to wait for a chunk
	delivered atomic.Int64
	mu        sync.Mutex
	written   []byte
}

func (g *gateBackend) Read(p []byte) (int, error) {
	if len(g.rest) == 0 {
		g.waits.Add(1)
		g.waiting.Store(true)
		b, ok := <-g.ch
		g.waiting.Store(false)
		if !ok {
			return 0, io.EOF
		}
		g.rest = b
	}
	n := copy(p, g.rest)
	g.rest = g.rest[n:]
	g.delivered.Add(int64(n))
	return n, nil
}
func (g *gateBackend) Write(p []byte) (int, error) {
	g.mu.Lock()
	g.written = append(g.written, p...)
	g.mu.Unlock()
	return len(p), nil
}
func (g *gateBackend) SetSize(w, h int) error { return nil }

// specialResizeIdle runs the real background read loop and resizes the terminal while the
// loop is blocked waiting for input (after it has measured the row for its next read); the
// state at every idle point must equal the model's after the same history.
func specialResizeIdle(c *specialCtx) {
	prof := profiles["C18"]
	master := newPrng(uint64(c.seed) + 77)
	seeds := make([]uint64, c.n)
	for i := range seeds {
		seeds[i] = master.next()
	}
	c.parallel(c.n, func(i int, d *driver) {
		r := newPrng(seeds[i])
		cs := genCase(prof, r)
		cs.Mode = 0
		{
			// the read right after a Resize is the one that was measured against the old size: make
			// it matter (long text with wide characters), and sometimes let the Resize fall into the
			// gap of a control sequence that arrives in two reads
			g := &genCtx{r: r, w: cs.W, h: cs.H}
			var items []Item
			for _, it := range cs.Items {
				if it.Kind == "resize" {
					if r.chance(1, 2) {
						items = append(items, in("wrap", []byte(pick(r, []string{"\x1b[?7h", "\x1b[?7h", "\x1b[?7l"}))),
							in("goto", []byte(fmt.Sprintf("\x1b[%d;%dH", 1+r.intn(g.h), 1+r.intn(g.w)))))
					}
					if r.chance(1, 3) {
						// the first part of a sequence; the Resize; the rest
						seq := pick(r, []string{"\x1b[7G", "\x1b[3d", "\x1b[r", "\x1b[2r", "\x1b[K", "\x1b[5;3H", "\x1b[2J", "\x1b[3C", "\x1b[4B", "\x1b[1;2r", "\x1b[6n", "\x1b[2X",
							"\x1b[r", "\x1b[3r", "\x1b[1X", "\x1b[4X", "\x1b[1P", "\x1b[3P", "\x1b[1K", "\x1b[J", "\x1b[1J", "\x1b[2L", "\x1b[1M", "\x1b[2S", "\x1b[T", "\x1b[2@", "\x1b[9C", "\x1b[9B", "\x1b[H"})
						cut := 1 + r.intn(len(seq)-1)
						items = append(items, Item{Kind: "in", Hex: hex.EncodeToString([]byte(seq[:cut])), Class: "split-head"}, it,
							Item{Kind: "in", Hex: hex.EncodeToString([]byte(seq[cut:])), Class: "split-tail"})
					} else {
						items = append(items, it)
					}
					g.w, g.h = it.W, it.H
					if r.chance(2, 3) {
						items = append(items, in("textlong", g.text(it.W-1+r.intn(6), true, false)))
					}
					continue
				}
				items = append(items, it)
			}
			cs.Items = items
		}
		be := &gateBackend{ch: make(chan []byte)}
		fe := newRecFrontend()
		vt := te.VerifNew(fe, be, te.TextReadModeRune, cs.Grid)
		term := vt.Terminal()
		fe.term, fe.vt = term, vt
		_ = term.Resize(cs.W, cs.H)
		pol := "keep"
		if cs.Grid {
			pol = "blank"
		}
		if _, err := d.cmdBlock(fmt.Sprintf("case %s %d %d", pol, cs.W, cs.H)); err != nil {
			return
		}
		done := vt.StartLoop()
		finish := func() {
			close(be.ch)
			select {
			case <-done:
			case <-time.After(scaled(10 * time.Second)):
			}
		}
		// idle(k): the loop has started its (k+1)-th wait, i.e. everything sent so far is consumed
		idle := func(after int64) bool {
			deadline := time.Now().Add(scaled(10 * time.Second))
			for time.Now().Before(deadline) {
				if be.waits.Load() > after && be.waiting.Load() {
					return true
				}
				time.Sleep(50 * time.Microsecond)
			}
			return false
		}
		snapshot := func() obsBlock {
			var o obsBlock
			term.WithLock(func() {
				snap := vt.Snap()
				o.G = fmt.Sprintf("G %d %d", int(be.delivered.Load())-vt.Buffered(), b2i(snap.OnAlt))
				o.M = scrLine("M", &snap.Screens[0], snap.KbdFlags[0], snap.KbdStack[0])
				o.A = scrLine("A", &snap.Screens[1], snap.KbdFlags[1], snap.KbdStack[1])
				o.rows, o.all = map[string]string{}, map[string]string{}
				for b := 0; b < 2; b++ {
					for y := range snap.Screens[b].Rows {
						o.all[fmt.Sprintf("%d %d", b, y)] = rowString(cellsOfVerif(snap.Screens[b].Rows[y].Cells))
					}
				}
			})
			return o
		}
		payload := map[string]any{"case": cs}
		var hist []string
		modelRows := map[string]string{}
		headPending := false // the implementation has read the first part of a sequence the model takes whole
		// which property reports a difference: C18 every one (each case is a history of resizes);
		// C15 those seen right after a sequence whose handler waited, lock released, while the
		// Resize went through; C03-C06 those seen after a step of their own class
		ownsStep := func(mo modelObs, splitTail bool) bool {
			cl := classesOf(strings.Join(mo.tags, ","))
			switch c.prop {
			case "C18":
				return true
			case "C15":
				return splitTail
			case "C03":
				return cl["text"]
			case "C04":
				return cl["motion"]
			case "C05":
				return cl["erase"]
			case "C06":
				return cl["scroll"]
			}
			return true
		}
		splitTail := false
		check := func(mo modelObs, what string) bool {
			for k, v := range mo.rows {
				modelRows[k] = v
			}
			o := snapshot()
			var diffs []string
			if mo.lines["G"] != o.G && !headPending {
				diffs = append(diffs, fmt.Sprintf("impl[%s] model[%s]", o.G, mo.lines["G"]))
			}
			for _, k := range []string{"M", "A"} {
				got := o.M
				if k == "A" {
					got = o.A
				}
				g1, _, _ := splitScr(got)
				g2, _, _ := splitScr(mo.lines[k])
				if g1 != g2 {
					diffs = append(diffs, fmt.Sprintf("impl[%s] model[%s]", got, mo.lines[k]))
				}
			}
			for k, v := range o.all {
				if mv, ok := modelRows[k]; ok && mv != v {
					diffs = append(diffs, fmt.Sprintf("row %s impl[%s] model[%s]", k, v, mv))
				}
			}
			if len(diffs) > 0 {
				if !ownsStep(mo, splitTail) {
					c.tally("cases-ended-at-a-difference-of-another-property")
					return false
				}
				c.violation("resize-while-waiting", fmt.Sprintf("history %v, after %s: %s", hist, what, truncate(strings.Join(diffs, "; "), 900)), payload)
				return false
			}
			return true
		}
		if !idle(0) {
			finish()
			return
		}
		sent := 0
		ok := true
		for _, it := range cs.Items {
			if !ok {
				break
			}
			switch it.Kind {
			case "resize":
				// the loop has measured the row for its next read and is waiting for the data
				_ = term.Resize(it.W, it.H)
				hist = append(hist, fmt.Sprintf("Resize(%d,%d)", it.W, it.H))
				mo, err := d.cmdBlock(fmt.Sprintf("resize %d %d", it.W, it.H))
				if err != nil {
					ok = false
					break
				}
				if len(mo.rows) > 0 {
					modelRows = map[string]string{}
				}
				splitTail = false
				ok = check(mo, hist[len(hist)-1])
			case "in":
				b := it.bytes()
				if len(b) == 0 {
					continue
				}
				w0 := be.waits.Load()
				be.ch <- append([]byte(nil), b...)
				sent += len(b)
				if !idle(w0) {
					c.violation("wedge", fmt.Sprintf("history %v: the read loop did not come back for more input within 10 s", hist), payload)
					ok = false
					break
				}
				hist = append(hist, fmt.Sprintf("%q", b))
				if len(hist) > 12 {
					hist = hist[len(hist)-12:]
				}
				_ = d.send("feed " + hex.EncodeToString(b))
				if it.Class == "split-head" {
					// the loop waits inside the sequence; the model takes the sequence as a whole later
					headPending = true
					continue
				}
				headPending = false
				splitTail = it.Class == "split-tail"
				consumed := int(be.delivered.Load()) - vt.Buffered()
				mo, err := d.cmdBlock(fmt.Sprintf("adv %d", consumed))
				if err != nil {
					ok = false
					break
				}
				if strings.Contains(strings.Join(mo.tags, ","), "tK") || mo.X != "" {
					ok = false // sanctioned corner / framing is the business of other checks
					break
				}
				ok = check(mo, hist[len(hist)-1])
			}
		}
		finish()
		c.count(fmt.Sprint(signatureOfCaseItems(&cs)))
		if i < 2 {
			c.sample(fmt.Sprintf("%dx%d grid=%v, %d items with the loop running in the background", cs.W, cs.H, cs.Grid, len(cs.Items)))
		}
	})
}

func signatureOfCaseItems(c *Case) string {
	var sb strings.Builder
	fmt.Fprintf(&sb, "%dx%d %v", c.W, c.H, c.Grid)
	for _, it := range c.Items {
		sb.WriteString(" " + it.Kind + ":" + it.Class)
	}
	return sb.String()
}
