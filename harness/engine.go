package main

// Lock-step execution of one case on the implementation and on the Lean model.

import (
	"encoding/hex"
	"encoding/json"
	"fmt"
	"io"
	"strings"
	"unicode"
	"unicode/utf8"

	te "github.com/ricochet1k/termemu"
)

// Item is one element of a case: a piece of input (with a class label used
// by generators and statistics) or an API call.
type Item struct {
	Kind  string `json:"kind"`            // in | resize | eof
	Hex   string `json:"hex,omitempty"`   // in: bytes
	Class string `json:"class,omitempty"` // in: generator label
	W     int    `json:"w,omitempty"`
	H     int    `json:"h,omitempty"`
	Fail  bool   `json:"fail,omitempty"` // resize: the backend's SetSize reports an error
}

func (it Item) bytes() []byte {
	b, _ := hex.DecodeString(it.Hex)
	return b
}

type Case struct {
	Mode        int    `json:"mode"` // 0 rune, 1 grapheme
	Grid        bool   `json:"grid"`
	W           int    `json:"w"`
	H           int    `json:"h"`
	Chunk       int    `json:"chunk"` // 0 whole, 1 per item, 2 bytewise, >=3 random with this seed
	Items       []Item `json:"items"`
	Note        string `json:"note,omitempty"`
	ShortWrites int    `json:"short_writes,omitempty"` // >0: the backend accepts 1..ShortWrites bytes per Write call
}

func (c Case) String() string {
	b, _ := json.Marshal(c)
	return string(b)
}

type stepRec struct {
	Tags     string
	Consumed int
}

type caseResult struct {
	Findings   []finding
	Steps      int
	Tags       []string // token tags of every step (statistics)
	Cut        bool     // stopped at a divergence / panic
	Sanctioned bool     // stopped at the sanctioned keep-wide corner
	Diverged   bool     // model and implementation disagreed at some step
	nDiverge   int
	Final      []string // final observation of the implementation (for cross comparisons)
	Replies    []byte
	Events     []string
}

type runOpts struct {
	noModel   bool // implementation only (monitors + panics)
	probeLock bool
	keepFinal bool
	keepGoing bool // after a divergence go on with the implementation alone (panics, monitors)
}

// segments groups consecutive input items into read scripts.
func chunksFor(c *Case, data []byte, itemLens []int, rng *prng) [][]byte {
	switch {
	case len(data) == 0:
		return nil
	case c.Chunk == 0:
		return [][]byte{data}
	case c.Chunk == 1:
		var out [][]byte
		off := 0
		for _, n := range itemLens {
			if n > 0 {
				out = append(out, data[off:off+n])
			}
			off += n
		}
		return out
	case c.Chunk == 2:
		out := make([][]byte, len(data))
		for i := range data {
			out[i] = data[i : i+1]
		}
		return out
	default:
		var out [][]byte
		for off := 0; off < len(data); {
			n := 1 + rng.intn(7)
			if rng.intn(4) == 0 {
				n = 1 + rng.intn(40)
			}
			if off+n > len(data) {
				n = len(data) - off
			}
			out = append(out, data[off:off+n])
			off += n
		}
		return out
	}
}

// splitScr cuts an M/A line into geometry, style and keyboard parts.
func splitScr(line string) (geo, sty, kbd string) {
	f := strings.Fields(line)
	if len(f) < 13 {
		return line, "", ""
	}
	return strings.Join(f[1:10], " "), f[10], strings.Join(f[11:], " ")
}

func diffObs(io obsBlock, mo modelObs) []string {
	var projs []string
	cmp := func(k, got string) {
		if mo.lines[k] != got {
			projs = append(projs, k)
		}
	}
	cmp("G", io.G)
	for _, k := range []string{"M", "A"} {
		got := io.M
		if k == "A" {
			got = io.A
		}
		if mo.lines[k] != got {
			g1, s1, k1 := splitScr(got)
			g2, s2, k2 := splitScr(mo.lines[k])
			if g1 != g2 {
				projs = append(projs, k+"geo")
			}
			if s1 != s2 {
				projs = append(projs, k+"sty")
			}
			if k1 != k2 {
				projs = append(projs, k+"kbd")
			}
		}
	}
	cmp("V", io.V)
	cmp("E", io.E)
	cmp("W", io.W)
	if _, ok := mo.lines["L"]; ok {
		cmp("L", io.L)
	}
	rowDiff := map[string]bool{}
	for k, v := range io.rows {
		if mv, ok := mo.rows[k]; !ok || mv != v {
			rowDiff["R"+k[:1]] = true
		}
	}
	for k := range mo.rows {
		if _, ok := io.rows[k]; !ok {
			rowDiff["R"+k[:1]] = true
		}
	}
	for _, k := range []string{"R0", "R1"} {
		if rowDiff[k] {
			projs = append(projs, k)
		}
	}
	return projs
}

// freshDiffs compares the two observations and returns the projections that differ now and
// did not differ after the previous step (per-step projections — replies, events, scrolled-off
// rows — are always fresh). `diverged` is updated to the current set of persistent differences.
func freshDiffs(io obsBlock, mo modelObs, diverged map[string]bool) []string {
	all := diffObs(io, mo)
	now := map[string]bool{}
	var fresh []string
	rowFresh := map[string]bool{}
	for _, p := range all {
		switch p {
		case "G", "E", "W", "L":
			fresh = append(fresh, p)
		case "R0", "R1":
			// row by row
		default:
			now[p] = true
			if !diverged[p] {
				fresh = append(fresh, p)
			}
		}
	}
	// rows: the model and the implementation print changed rows only, so a row that differed
	// before and is printed by neither side still differs
	for k := range diverged {
		if strings.HasPrefix(k, "row ") {
			rk := k[4:]
			_, a := io.rows[rk]
			_, b := mo.rows[rk]
			if !a && !b {
				now[k] = true
			}
		}
	}
	for k, v := range io.rows {
		mv, ok := mo.rows[k]
		if !ok {
			mv = mo.prev[k]
		}
		if mv != v {
			// the row changed at this step (on the implementation's side) and the two sides
			// disagree about it: a finding of this step, also when they disagreed before
			now["row "+k] = true
			rowFresh["R"+k[:1]] = true
		}
	}
	for k, mv := range mo.rows {
		if _, ok := io.rows[k]; !ok && io.all[k] != mv {
			now["row "+k] = true
			rowFresh["R"+k[:1]] = true
		}
	}
	for _, k := range []string{"R0", "R1"} {
		if rowFresh[k] {
			fresh = append(fresh, k)
		}
	}
	for k := range diverged {
		delete(diverged, k)
	}
	for k := range now {
		diverged[k] = true
	}
	return fresh
}

func describeDiff(io obsBlock, mo modelObs, projs []string) string {
	var sb strings.Builder
	seen := map[string]bool{}
	for _, p := range projs {
		p = p[:1]
		if seen[p] {
			continue
		}
		seen[p] = true
		switch p {
		case "R":
			for k, v := range io.rows {
				if mv, ok := mo.rows[k]; !ok || mv != v {
					if !ok {
						mv = mo.prev[k] // the model left the row as it was
					}
					fmt.Fprintf(&sb, "row %s impl[%s] model[%s]; ", k, v, mv)
				}
			}
			for k, mv := range mo.rows {
				if _, ok := io.rows[k]; !ok {
					fmt.Fprintf(&sb, "row %s impl[%s] model[%s]; ", k, io.all[k], mv) // the implementation left the row as it was
				}
			}
		default:
			got := map[string]string{"G": io.G, "M": io.M, "A": io.A, "V": io.V, "E": io.E, "W": io.W, "L": io.L}[p]
			fmt.Fprintf(&sb, "impl[%s] model[%s]; ", got, mo.lines[p])
		}
	}
	s := sb.String()
	if len(s) > 1500 {
		s = s[:1500] + "…"
	}
	return s
}

func runCase(c *Case, d *driver, opts runOpts) (res caseResult) {
	im, pan := newImpl(c.Mode, c.Grid, c.W, c.H)
	if pan != "" {
		res.Findings = append(res.Findings, finding{Step: 0, Kind: "panic", Prop: "C01", Clause: "resize", Detail: pan})
		res.Cut = true
		return
	}
	im.fe.probeLock = opts.probeLock
	im.be.shortCycle = c.ShortWrites
	useModel := !opts.noModel && d != nil && !(c.Mode == 1 && c.Grid)
	step := 0
	addF := func(f finding) { f.Grid = c.Grid; f.Gmode = c.Mode == 1; res.Findings = append(res.Findings, f) }

	var snapCheck = func(tags string, evFrom, wrFrom int) {
		snap := im.vt.Snap()
		im.checkState(&snap, step, tags, &res.Findings)
		im.checkEvents(&snap, evFrom, wrFrom, step, tags, &res.Findings)
		im.checkAPI(&snap, step, tags, &res.Findings)
	}

	if useModel {
		pol := "keep"
		if c.Grid {
			pol = "blank"
		}
		mo, err := d.cmdBlock(fmt.Sprintf("case %s %d %d", pol, c.W, c.H))
		if err != nil {
			addF(finding{Kind: "driver", Detail: err.Error()})
			res.Cut = true
			return
		}
		io, _ := im.observe(true)
		if projs := diffObs(io, mo); len(projs) > 0 {
			addF(finding{Step: 0, Kind: "diverge", Clause: strings.Join(projs, "+"), Tags: "init", Detail: describeDiff(io, mo, projs)})
			res.Cut = true
			return
		}
	} else {
		im.observe(true)
	}
	snapCheck("init", len(im.fe.events), len(im.be.written))

	rng := newPrng(uint64(c.Chunk)*7919 + 17)
	var gstate graphemeMergeState
	prevSnap := im.vt.Snap()
	var stepBytes []byte
	diverged := map[string]bool{} // projections and rows on which the two sides already disagree
	sOff := false                 // the run-level comparison has been given up for this case
	var lastModelS, lastModelQ map[string]string
	compare := func(cmd string, tags *string) bool {
		lastModelS, lastModelQ = nil, nil
		evFrom, wrFrom := im.evMark, im.wrMark
		pre := prevSnap
		io, post := im.observe(false)
		prevSnap = post
		defer func() {
			knownFindingMonitors(&pre, &post, im, evFrom, step, *tags, stepBytes, &res.Findings)
		}()
		if useModel {
			mo, err := d.cmdBlock(cmd)
			if err != nil {
				addF(finding{Step: step, Kind: "driver", Detail: err.Error()})
				res.Cut = true
				return false
			}
			if len(mo.tags) > 0 {
				*tags = strings.Join(mo.tags, ",")
			}
			lastModelS, lastModelQ = mo.srows, mo.qrows
			if mo.X != "" {
				addF(finding{Step: step, Kind: "framing", Clause: "G", Tags: *tags, Detail: mo.X + " " + io.G})
				// the two sides no longer agree on where the sequences end, so the steps that follow
				// cannot be compared one by one; what the application receives can: the whole case
				// once more on both sides, each on its own, and the replies written compared
				if iw, mw, ok := endToEndReplies(c, d); ok && iw != mw {
					addF(finding{Step: step, Kind: "diverge", Clause: "W", Tags: *tags + ",end-to-end",
						Detail: fmt.Sprintf("after the framing divergence the whole case was run on both sides independently: replies written impl[W %s] model[W %s]", iw, mw)})
				}
				useModel = false
				res.Cut = !opts.keepGoing
				res.Diverged = true
				return opts.keepGoing
			}
			if projs := freshDiffs(io, mo, diverged); len(projs) > 0 {
				if strings.Contains(*tags, "tK") && strings.Count(*tags, ",") > 0 {
					useModel = false
					// known corner (see known_findings.json, keep-wide-run): a run of several
					// characters inserted after a wide character; the case ends here
					res.Sanctioned = true
					res.Cut = !opts.keepGoing
					for _, pr := range []string{"C03", "C08"} {
						addF(finding{Step: step, Kind: "monitor", Prop: pr, Clause: "keep-wide-run", Tags: *tags,
							Detail: "a run of several characters written onto the second cell of a wide character (span buffer): the run is inserted after the character as a whole, so its last character may be cut instead of wrapping/pinning, and the outcome depends on how the run was cut into reads"})
					}
					return opts.keepGoing
				}
				consumedDiffers := false
				clause := strings.Join(projs, "+")
				if hasProj(clause, "G") {
					// "G <consumed> <alternate active>": only a different byte count loses the model; a
					// different active buffer is a state difference like any other (a reply or a
					// notification that comes out wrong because of it is still reported, later) and
					// is filed with the view state (C17), not with the framing (C09)
					a, b := strings.Fields(io.G), strings.Fields(mo.lines["G"])
					consumedDiffers = len(a) < 2 || len(b) < 2 || a[1] != b[1]
					if !consumedDiffers {
						names := append([]string(nil), projs...)
						for k := range names {
							if names[k] == "G" {
								names[k] = "Vactive"
							}
						}
						clause = strings.Join(names, "+")
					}
				}
				addF(finding{Step: step, Kind: "diverge", Clause: clause, Tags: *tags, Detail: describeDiff(io, mo, projs),
					Alt: strings.HasSuffix(mo.lines["G"], " 1")})
				res.Diverged = true
				if consumedDiffers || res.nDiverge > 12 {
					// the two sides no longer agree on what has been consumed (or disagree again and
					// again): the model is lost; panics, wedges and the API monitors still mean something
					useModel = false
					res.Cut = !opts.keepGoing
					snapCheckSafe(im, step, *tags, evFrom, wrFrom, &res.Findings)
					return opts.keepGoing
				}
				// Otherwise both sides go on in lock-step: what differs now is remembered, and only
				// differences that are new at a later step are reported there (a wrong reply, a
				// wrong notification or a newly differing row further on is still a finding, also
				// when it is a consequence of this one)
				res.nDiverge++
			}
		}
		if useModel && !res.Diverged && !sOff && c.Mode == 0 && !c.Grid {
			// the stored runs of every row the run-level model terminal changed in this step
			// (lean/TM/SpanTerm.lean, writeString for a stretch of text) against the real rows
			for key, want := range lastModelS {
				var b, y int
				fmt.Sscanf(key, "%d %d", &b, &y)
				if b < 0 || b > 1 || y < 0 || y >= len(post.Screens[b].Rows) {
					continue
				}
				row := &post.Screens[b].Rows[y]
				wantANSI := ""
				if k := strings.IndexByte(want, ' '); k >= 0 {
					want, wantANSI = want[:k], want[k+1:]
				}
				got := fmt.Sprintf("%d:%s", row.Cached, runsStr(row.Runs))
				if act := b2i(post.OnAlt); got == want && wantANSI != "" && b == act {
					// ANSILine(y) of the real span buffer, byte for byte (the escape in front of every run)
					if a := hexOrDash([]byte(im.vt.Terminal().ANSILine(y))); a != wantANSI {
						got, want = got+" ANSILine "+a, want+" ANSILine "+wantANSI
					}
				}
				if got != want {
					addF(finding{Step: step, Kind: "diverge", Clause: "S", Tags: *tags,
						Detail: fmt.Sprintf("stored runs of row %d of buffer %d: impl[%s] model[%s]", y, b, got, want)})
					sOff = true
					break
				}
			}
		}
		if useModel && !res.Diverged && !sOff && c.Mode == 0 && c.Grid {
			// the five per-cell arrays of every row the array-level model terminal changed in this
			// step (lean/TM/GridTerm.lean) against the real grid buffer's arrays
			for key, want := range lastModelQ {
				var b, y int
				fmt.Sscanf(key, "%d %d", &b, &y)
				if b < 0 || b > 1 || y < 0 || y >= len(post.Screens[b].Rows) {
					continue
				}
				cells := post.Screens[b].Rows[y].Cells
				parts := make([]string, len(cells))
				for k, cl := range cells {
					parts[k] = fmt.Sprintf("%d,%s,%d,%d,%x.%x.%x", cl.Rune, hexOrDash([]byte(cl.Text)), cl.Width, b2i(cl.Cont), cl.Style[0], cl.Style[1], cl.Style[2])
				}
				got := strings.Join(parts, "_")
				if got == "" {
					got = "-"
				}
				wantANSI := ""
				if k := strings.IndexByte(want, ' '); k >= 0 {
					want, wantANSI = want[:k], want[k+1:]
				}
				wantSub := ""
				if k := strings.IndexByte(wantANSI, ' '); k >= 0 {
					wantANSI, wantSub = wantANSI[:k], wantANSI[k+1:]
				}
				if act := b2i(post.OnAlt); got == want && wantSub != "" && b == act {
					// StyledLine(x, w, y) of the real grid buffer for the same family of sub-ranges
					W := len(cells)
					var subs []string
					for _, xw := range [][2]int{{0, W}, {1, W - 1}, {1, W - 2}, {2, 1}, {2, 2}, {W / 2, W - W/2}, {W / 3, W / 2}} {
						x, w := xw[0], xw[1]
						if x+w > W || w <= 0 {
							subs = append(subs, "x")
							continue
						}
						l := im.vt.Terminal().StyledLine(x, w, y)
						var ps []string
						for _, sp := range l.Spans {
							st := te.VerifStyleRaw(sp.Style)
							ps = append(ps, fmt.Sprintf("%x.%x.%x;%s;%d;%d", st[0], st[1], st[2], hexOrDash([]byte(sp.Text)), sp.Rune, sp.Width))
						}
						if len(ps) == 0 {
							subs = append(subs, "-")
						} else {
							subs = append(subs, strings.Join(ps, "+"))
						}
					}
					if a := strings.Join(subs, "/"); a != wantSub {
						got, want = got+" StyledLine "+a, want+" StyledLine "+wantSub
					}
				}
				if act := b2i(post.OnAlt); got == want && wantANSI != "" && b == act {
					// what ANSILine(y) of the real grid buffer renders (it reads the rune array)
					if a := hexOrDash([]byte(im.vt.Terminal().ANSILine(y))); a != wantANSI {
						got, want = got+" ANSILine "+a, want+" ANSILine "+wantANSI
					}
				}
				if got != want {
					addF(finding{Step: step, Kind: "diverge", Clause: "Q", Tags: *tags,
						Detail: fmt.Sprintf("cell arrays (rune,text,width,cont,style) of row %d of buffer %d: impl[%s] model[%s]", y, b, truncate(got, 900), truncate(want, 900))})
					sOff = true
					break
				}
			}
		}
		res.Tags = append(res.Tags, *tags)
		snapCheckSafe(im, step, *tags, evFrom, wrFrom, &res.Findings)
		return true
	}

	i := 0
	for i < len(c.Items) && !res.Cut {
		it := c.Items[i]
		switch it.Kind {
		case "refront":
			// the owner installs another frontend object (SetFrontend): nothing observable changes
			step++
			im.swapFrontend()
			tags := "refront"
			im.observe(false)
			snapCheckSafe(im, step, tags, len(im.fe.events), len(im.be.written), &res.Findings)
			i++
		case "resize":
			step++
			im.be.failSize = it.Fail
			pan := im.resize(it.W, it.H)
			im.be.failSize = false
			if pan != "" {
				addF(finding{Step: step, Kind: "panic", Prop: "C01", Clause: "resize", Tags: "resize", Detail: pan})
				res.Cut = true
				break
			}
			tags := "resize"
			if !compare(fmt.Sprintf("resize %d %d", it.W, it.H), &tags) {
				break
			}
			i++
		case "in":
			// gather consecutive input items
			var data []byte
			var lens []int
			j := i
			for j < len(c.Items) && c.Items[j].Kind == "in" {
				b := c.Items[j].bytes()
				data = append(data, b...)
				lens = append(lens, len(b))
				j++
			}
			chs := chunksFor(c, data, lens, rng)
			lastGroup := j >= len(c.Items)
			for k, ch := range chs {
				if c.Chunk != 0 && rng.intn(9) == 0 {
					im.be.script = append(im.be.script, chunk{}) // a read that brings nothing and no error: try again
				}
				ck := chunk{data: append([]byte(nil), ch...)}
				if lastGroup && k == len(chs)-1 && len(chs) > 1 && rng.intn(3) == 0 {
					ck.err = io.EOF // the last bytes arrive together with the end of the stream
				}
				im.be.script = append(im.be.script, ck)
			}
			if useModel && len(data) > 0 {
				_ = d.send("feed " + hex.EncodeToString(data))
			}
			groupStart := im.be.delivered - im.vt.Buffered()
			budget := len(data) + 8
			for !res.Cut {
				step++
				budget--
				if budget < 0 {
					addF(finding{Step: step, Kind: "panic", Prop: "C01", Clause: "no-progress", Detail: "step budget exceeded"})
					res.Cut = true
					break
				}
				c0 := im.consumed()
				err, pan := im.vt.Step()
				if a, b := c0-groupStart, im.consumed()-groupStart; a >= 0 && b <= len(data) && a <= b {
					stepBytes = data[a:b]
				} else {
					stepBytes = nil
				}
				if pan != "" {
					addF(finding{Step: step, Kind: "panic", Prop: "C01", Clause: "step", Tags: peekTags(data, im), Detail: pan})
					res.Cut = true
					break
				}
				if err != nil {
					if n := len(im.be.script); n > 0 || im.vt.Buffered() > 0 {
						left := im.vt.Buffered()
						for _, ck := range im.be.script {
							left += len(ck.data)
						}
						if left > 0 && !(len(im.be.script) == 0 && stepIncompleteTail(data)) {
							for _, pr := range []string{"C01", "C16"} {
								addF(finding{Step: step, Kind: "monitor", Prop: pr, Clause: "loop-stopped-early", Tags: "eof",
									Detail: fmt.Sprintf("the read loop ended with %v although %d byte(s) of the stream were still to be interpreted", err, left)})
							}
							res.Cut = true
							break
						}
					}
					tags := "eof"
					compare("eof", &tags)
					break
				}
				tags := "?"
				cmd := fmt.Sprintf("adv %d", im.consumed())
				if len(im.be.script) == 0 && im.vt.Buffered() == 0 {
					cmd += " eof"
				}
				if c.Mode == 1 && !(len(stepBytes) > 0 && stepBytes[0] >= 32 && stepBytes[0] != 127) {
					gstate.control()
				}
				if c.Mode == 1 && len(stepBytes) > 0 && stepBytes[0] >= 32 && stepBytes[0] != 127 {
					// grapheme mode: the model gets the run as clusters (uniseg, widths from uniseg,
					// merge fragments classified here independently of the reader)
					cmd = "grun " + graphemeRunTokens(stepBytes, &gstate)
					if gstate.formatChar {
						for _, pr := range []string{"C02", "C03"} {
							addF(finding{Step: step, Kind: "monitor", Prop: pr, Clause: "zero-width-format-char", Tags: "t",
								Detail: "grapheme mode: a zero-width cluster that is not a combining mark, ZWJ or variation selector (a format character such as U+00AD)"})
						}
						res.Cut = true
						break
					}
					if gstate.firstMerge != "" {
						// does the fragment change the cell width of the character it joins?
						act := 0
						if prevSnap.OnAlt {
							act = 1
						}
						ps := &prevSnap.Screens[act]
						if ps.CX > 0 && ps.CY < len(ps.Rows) {
							cs := cellsOfVerif(ps.Rows[ps.CY].Cells)
							k := ps.CX - 1
							if k >= len(cs) {
								k = len(cs) - 1
							}
							for k > 0 && cs[k].cont {
								k--
							}
							if k >= 0 && k < len(cs) && !cs[k].cont {
								if cl := graphemeClusters(cs[k].text + gstate.firstMerge); !(len(cl) == 1 && (cl[0].width == cs[k].width || cl[0].width == 0)) {
									for _, pr := range []string{"C02", "C03", "C10"} {
										addF(finding{Step: step, Kind: "monitor", Prop: pr, Clause: "merge-changes-width", Tags: "tm",
											Detail: fmt.Sprintf("grapheme mode: the fragment %q arrives in a later run than the character %q it is joined to; together they are %d cluster(s) measuring %d cell(s), the character was stored with %d", gstate.firstMerge, cs[k].text, len(cl), cl[0].width, cs[k].width)})
									}
									res.Cut = true
									break
								}
							}
						}
					}
					if gstate.forcedOdd {
						// known finding: the cell now holds two clusters; the case ends here
						for _, pr := range []string{"C02", "C03"} {
							addF(finding{Step: step, Kind: "monitor", Prop: pr, Clause: "zwj-force-merge", Tags: "tm",
								Detail: "grapheme mode: after a lone zero-width joiner the next cluster is merged into the previous cell even when it cannot join it (not pictographic); the cell text then tokenises into two clusters"})
						}
						res.Cut = true
						break
					}
				}
				if !compare(cmd, &tags) {
					break
				}
			}
			i = j
		default:
			i++
		}
	}
	res.Steps = step
	if opts.keepFinal {
		io, _ := im.observe(true)
		res.Final = io.lines()
		res.Replies = append([]byte(nil), im.be.written...)
		for _, e := range im.fe.events {
			switch e.kind {
			case "b", "s", "f", "i", "t", "l":
				res.Events = append(res.Events, e.s)
			}
		}
	}
	return
}

// knownFindingMonitors detects the situations of recorded known findings on the implementation
// (so that they are reported on every run and anything else is still an alarm).
func knownFindingMonitors(pre, post *te.VerifSnap, im *impl, evFrom int, step int, tags string, stepBytes []byte, out *[]finding) {
	// C10: rows scrolled off the top of the main screen must be announced through ScrollLines
	if !pre.OnAlt && !post.OnAlt && len(pre.Screens[0].Rows) == len(post.Screens[0].Rows) && pre.Screens[0].H > 1 {
		s := &pre.Screens[0]
		scrolledOff := false
		switch tags {
		case "c10", "c12", "e68": // LF, FF, IND on the bottom margin of a region that starts at row 0
			scrolledOff = s.Top == 0 && s.CY == s.Bot && s.Bot > 0
		}
		if tags == "[0.83" && s.Top == 0 && s.Bot > 0 { // SU n, n > 0
			scrolledOff = rowString(cellsOfVerif(pre.Screens[0].Rows[0].Cells)) != rowString(cellsOfVerif(post.Screens[0].Rows[0].Cells)) ||
				rowString(cellsOfVerif(pre.Screens[0].Rows[1].Cells)) != rowString(cellsOfVerif(post.Screens[0].Rows[1].Cells))
		}
		want := 0
		if scrolledOff {
			want = 1
		}
		if tags == "[0.83" && s.Top == 0 && len(stepBytes) > 2 { // SU n
			n, digits := 0, false
			for _, ch := range stepBytes[2:] {
				if ch >= '0' && ch <= '9' {
					digits = true
					if n < 1<<20 {
						n = n*10 + int(ch-'0')
					}
				} else {
					break
				}
			}
			if !digits {
				n = 1
				if stepBytes[2] == ';' {
					n = 0 // an empty first parameter in front of a ';' is stored as 0, not as the default
				}
			}
			if h := s.Bot - s.Top + 1; n > h {
				n = h
			}
			want = n
			scrolledOff = n > 0
		}
		if scrolledOff {
			got, calls := 0, 0
			for _, e := range im.fe.events[evFrom:] {
				if e.kind == "l" {
					var k int
					fmt.Sscanf(e.s, "l:%d", &k)
					got += k
					calls++
				}
			}
			if calls == 0 {
				*out = append(*out, finding{Step: step, Kind: "monitor", Prop: "C10", Clause: "scroll-lines", Tags: tags,
					Detail: "a row of the main screen scrolled off the top without a ScrollLines notification"})
			} else if got != want {
				*out = append(*out, finding{Step: step, Kind: "monitor", Prop: "C10", Clause: "scroll-lines-count", Tags: tags,
					Detail: fmt.Sprintf("%d row(s) left the main screen through the top, ScrollLines announced %d", want, got)})
			}
		}
	}
	// C03: a character written on the second cell of a wide character that occupies the last
	// two columns is inserted beyond the right edge and lost (same root as keep-wide-run)
	if strings.Contains(tags, "tK") {
		act := 0
		if pre.OnAlt {
			act = 1
		}
		if s := &pre.Screens[act]; !s.Grid && s.W >= 2 && s.CX == s.W-1 {
			*out = append(*out, finding{Step: step, Kind: "monitor", Prop: "C03", Clause: "keep-wide-run", Tags: tags,
				Detail: "a character written on the second cell of a wide character in the last two columns (span buffer) is inserted beyond the right edge and lost instead of overwriting the last column"})
		}
	}
	// C17: "each set/reset is reported to the frontend with the value now in force" — the
	// Frontend interface has no flag for autowrap (?7): a change of the active buffer's
	// autowrap setting is reported only if some view flag outside the six known ones is
	// announced during the step (which is what a repair would have to add).
	if pre.OnAlt == post.OnAlt && strings.HasPrefix(tags, "[63.") {
		act := 0
		if pre.OnAlt {
			act = 1
		}
		if pre.Screens[act].Wrap != post.Screens[act].Wrap {
			reported := false
			for _, e := range im.fe.events[evFrom:] {
				if e.kind == "f" {
					var fl, val int
					fmt.Sscanf(e.s, "f:%d:%d", &fl, &val)
					if fl > 5 && (val == 1) == post.Screens[act].Wrap {
						reported = true
					}
				}
			}
			if !reported {
				*out = append(*out, finding{Step: step, Kind: "monitor", Prop: "C17", Clause: "autowrap-not-reported", Tags: tags,
					Detail: "the autowrap setting (?7) changed and no callback told the frontend the value now in force"})
			}
		}
	}
	// C07: an SGR sequence with more parameters than the parser stores
	if tags == "[0.109" && len(stepBytes) > 0 && stepBytes[len(stepBytes)-1] == 'm' {
		if n := strings.Count(string(stepBytes), ";") + 1; n > 32 {
			*out = append(*out, finding{Step: step, Kind: "monitor", Prop: "C07", Clause: "sgr-param-cap", Tags: tags,
				Detail: fmt.Sprintf("SGR sequence with %d parameters: only the first 32 are applied", n)})
		}
	}
}

func snapCheckSafe(im *impl, step int, tags string, evFrom, wrFrom int, out *[]finding) {
	defer func() {
		if p := recover(); p != nil {
			*out = append(*out, finding{Step: step, Kind: "panic", Prop: "C01", Clause: "accessor", Tags: tags, Detail: fmt.Sprint(p)})
		}
	}()
	snap := im.vt.Snap()
	im.checkState(&snap, step, tags, out)
	im.checkEvents(&snap, evFrom, wrFrom, step, tags, out)
	im.checkAPI(&snap, step, tags, out)
}

// graphemeMergeState: what the classification of merge fragments remembers between runs.
type graphemeMergeState struct {
	forceNext  bool   // the previous cluster was a lone zero-width joiner
	forcedOdd  bool   // a cluster that cannot join (not pictographic) was glued on after a lone ZWJ
	formatChar bool   // a zero-width cluster that is not an extender occurred
	firstMerge string // the run starts with a merge fragment: its text (joins a cell written earlier)
	lastRI     bool   // the previous run ended in an unpaired regional indicator (no control since)
}

// control: a control byte or escape sequence was processed — a dangling joiner or an unpaired
// regional indicator no longer claims the next cluster.
func (st *graphemeMergeState) control() { st.forceNext, st.lastRI = false, false }

func isRegionalIndicators(s string) (all bool, n int) {
	for _, r := range s {
		if r < 0x1f1e6 || r > 0x1f1ff {
			return false, 0
		}
		n++
	}
	return n > 0, n
}

// graphemeRunTokens tokenises one printable run into extended grapheme clusters and classifies
// merge fragments: a cluster made only of combining marks (Mn/Me), zero-width joiners or
// variation selectors has no cell of its own and joins the cell left of the cursor; after a lone
// ZWJ the next cluster joins as well.
func graphemeRunTokens(run []byte, st *graphemeMergeState) string {
	var parts []string
	st.firstMerge = ""
	for ci, cl := range graphemeClusters(string(run)) {
		merge := st.forceNext
		st.forceNext = false
		only := func(pred func(rune) bool) bool {
			for _, r := range cl.text {
				if !pred(r) {
					return false
				}
			}
			return len(cl.text) > 0
		}
		ext := true // the cluster consists of extenders only (no cell of its own by nature)
		if ri, n := isRegionalIndicators(cl.text); ri {
			// the second half of a flag whose first half ended the previous run joins it
			if st.lastRI && n%2 == 1 {
				merge = true
				st.lastRI = false
			} else {
				st.lastRI = n%2 == 1
			}
			ext = false
			if ci == 0 && merge {
				st.firstMerge = cl.text
			}
			parts = append(parts, fmt.Sprintf("%x:%d:%d:%x", cl.text, cl.width, b2i(merge), cl.text))
			continue
		}
		st.lastRI = false
		switch {
		case only(func(r rune) bool { return unicode.Is(unicode.Mn, r) || unicode.Is(unicode.Me, r) }):
			merge = true
		case only(func(r rune) bool { return r == 0x200d }):
			merge = true
			st.forceNext = true
		case only(func(r rune) bool { return (r >= 0xfe00 && r <= 0xfe0f) || (r >= 0xe0100 && r <= 0xe01ef) }):
			merge = true
		default:
			ext = false
		}
		w := cl.width
		if w == 0 && !ext {
			// a zero-width cluster that is no extender (format characters such as U+00AD), also
			// when it follows a lone ZWJ
			st.formatChar = true
		}
		if merge && w > 0 {
			// glued to the previous cell only because a lone ZWJ came before it
			st.forcedOdd = true
		}
		if ci == 0 && merge {
			st.firstMerge = cl.text
		}
		// what the buffers store: invalid UTF-8 bytes become U+FFFD, one per byte
		stored := cl.text
		if !utf8.ValidString(stored) {
			var sb strings.Builder
			for _, r := range stored { // ranging yields U+FFFD for every invalid byte
				sb.WriteRune(r)
			}
			stored = sb.String()
		}
		parts = append(parts, fmt.Sprintf("%x:%d:%d:%x", cl.text, w, b2i(merge), stored))
	}
	return strings.Join(parts, ",")
}

// stepIncompleteTail: the data ends inside a multi-byte character (those bytes stay buffered at
// the end of the stream: the known finding eof-inside-character, not an early stop)
func stepIncompleteTail(data []byte) bool {
	for k := len(data) - 1; k >= 0 && k >= len(data)-3; k-- {
		if data[k] >= 0xc0 {
			return !utf8.FullRune(data[k:])
		}
		if data[k] < 0x80 {
			return false
		}
	}
	return false
}

// peekTags gives a rough label for the bytes being processed when a step panicked.
func peekTags(data []byte, im *impl) string {
	return "panic-step"
}


// endToEndReplies runs the whole case (rune mode) on a fresh implementation and on a fresh model,
// each consuming the input on its own, and returns the bytes each wrote to the application.
func endToEndReplies(c *Case, d *driver) (implW, modelW string, ok bool) {
	if c.Mode != 0 || d == nil {
		return "", "", false
	}
	im, pan := newImpl(c.Mode, c.Grid, c.W, c.H)
	if pan != "" || im == nil {
		return "", "", false
	}
	pol := "keep"
	if c.Grid {
		pol = "blank"
	}
	if _, err := d.cmdBlock(fmt.Sprintf("case %s %d %d", pol, c.W, c.H)); err != nil {
		return "", "", false
	}
	var mw strings.Builder
	total := 0
	for _, it := range c.Items {
		switch it.Kind {
		case "resize":
			if it.Fail {
				continue
			}
			if p := im.resize(it.W, it.H); p != "" {
				return "", "", false
			}
			mo, err := d.cmdBlock(fmt.Sprintf("resize %d %d", it.W, it.H))
			if err != nil {
				return "", "", false
			}
			_ = mo
		case "in":
			b := it.bytes()
			if len(b) == 0 {
				continue
			}
			if p := feedAll(im, b); p != "" {
				return "", "", false
			}
			total += len(b)
			if err := d.send("feed " + hex.EncodeToString(b)); err != nil {
				return "", "", false
			}
			mo, err := d.cmdBlock(fmt.Sprintf("adv %d", total))
			if err != nil {
				return "", "", false
			}
			if w := strings.TrimPrefix(mo.lines["W"], "W "); w != "-" && w != "" {
				mw.WriteString(w)
			}
		}
	}
	return hex.EncodeToString(im.be.written), mw.String(), true
}
