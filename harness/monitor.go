package main

// Monitors evaluated directly on the implementation's state and public API
// after every step: the parts of C02, C10 and C15 that are statements about
// what the API shows, not about the effect of one operation.

import (
	"fmt"
	"regexp"
	"strconv"
	"strings"

	te "github.com/ricochet1k/termemu"
	"github.com/rivo/uniseg"
)

type finding struct {
	Step   int    `json:"step"`
	Kind   string `json:"kind"`   // panic | monitor | diverge | framing
	Prop   string `json:"prop"`   // for monitors: owning property
	Clause string `json:"clause"` // monitor clause or diverging projection
	Tags   string `json:"tags"`   // token tags of the step
	Grid   bool   `json:"grid"`   // the case ran on the grid buffer
	Alt    bool   `json:"alt"`    // the alternate buffer was active after the step
	Gmode  bool   `json:"gmode"`  // the case ran in grapheme mode
	Detail string `json:"detail"`
}

type gcluster struct {
	text  string
	width int
}

func graphemeClusters(text string) []gcluster {
	var out []gcluster
	state := -1
	b := []byte(text)
	for len(b) > 0 {
		var cl []byte
		var bnd int
		cl, b, bnd, state = uniseg.Step(b, state)
		out = append(out, gcluster{string(cl), bnd >> uniseg.ShiftWidth})
	}
	return out
}

func cellsWellFormed(cs []cell) string {
	for i := 0; i < len(cs); i++ {
		c := cs[i]
		if c.cont {
			return fmt.Sprintf("orphan continuation cell at %d", i)
		}
		if c.width < 1 {
			return fmt.Sprintf("cell %d has width %d", i, c.width)
		}
		for k := 1; k < c.width; k++ {
			if i+k >= len(cs) {
				return fmt.Sprintf("wide character at %d cut by the row end", i)
			}
			if !cs[i+k].cont {
				return fmt.Sprintf("wide character at %d lacks continuation at %d", i, i+k)
			}
		}
		i += c.width - 1
	}
	return ""
}

var sgrRe = regexp.MustCompile("\x1b\\[[0-9;]*m")
var cprRe = regexp.MustCompile("\x1b\\[([0-9]+);([0-9]+)R")

// checkState runs the C02 monitors on a snapshot.
func (im *impl) checkState(snap *te.VerifSnap, step int, tags string, out *[]finding) {
	add := func(prop, clause, detail string) {
		*out = append(*out, finding{Step: step, Kind: "monitor", Prop: prop, Clause: clause, Tags: tags, Detail: detail})
	}
	for b := 0; b < 2; b++ {
		s := &snap.Screens[b]
		if s.W < 1 || s.H < 1 || len(s.Rows) != s.H {
			add("C02", "size", fmt.Sprintf("buf %d: %dx%d with %d rows", b, s.W, s.H, len(s.Rows)))
			continue
		}
		if s.CX < 0 || s.CX >= s.W || s.CY < 0 || s.CY >= s.H {
			add("C02", "cursor-range", fmt.Sprintf("buf %d: cursor (%d,%d) on %dx%d", b, s.CX, s.CY, s.W, s.H))
		}
		if s.SX < 0 || s.SX >= s.W || s.SY < 0 || s.SY >= s.H {
			add("C02", "saved-cursor-range", fmt.Sprintf("buf %d: saved cursor (%d,%d) on %dx%d", b, s.SX, s.SY, s.W, s.H))
		}
		if s.Top < 0 || s.Top > s.Bot || s.Bot >= s.H {
			add("C02", "margins", fmt.Sprintf("buf %d: margins [%d,%d] on %d rows", b, s.Top, s.Bot, s.H))
		}
		for y := range s.Rows {
			r := &s.Rows[y]
			if !s.Grid {
				sum := 0
				for i, run := range r.Runs {
					if run.Width <= 0 {
						add("C02", "run-width", fmt.Sprintf("buf %d row %d run %d has width %d", b, y, i, run.Width))
					}
					sum += run.Width
				}
				if sum != s.W {
					add("C02", "row-sum", fmt.Sprintf("buf %d row %d: run widths sum to %d, screen width %d", b, y, sum, s.W))
				}
				if r.Cached != s.W {
					add("C02", "cached-width", fmt.Sprintf("buf %d row %d: cached width %d, screen width %d", b, y, r.Cached, s.W))
				}
			}
			cs := cellsOfVerif(r.Cells)
			if len(cs) != s.W {
				add("C02", "row-cells", fmt.Sprintf("buf %d row %d: text occupies %d cells, screen width %d", b, y, len(cs), s.W))
			} else if msg := cellsWellFormed(cs); msg != "" {
				add("C02", "row-wellformed", fmt.Sprintf("buf %d row %d: %s", b, y, msg))
			}
		}
	}
}

// checkAPI compares the public accessors of the active screen with each other
// and with the shadow copy maintained from notifications.
func (im *impl) checkAPI(snap *te.VerifSnap, step int, tags string, out *[]finding) {
	add := func(prop, clause, detail string) {
		*out = append(*out, finding{Step: step, Kind: "monitor", Prop: prop, Clause: clause, Tags: tags, Detail: detail})
	}
	defer func() {
		if p := recover(); p != nil {
			*out = append(*out, finding{Step: step, Kind: "panic", Prop: "C01", Clause: "accessor", Tags: tags, Detail: fmt.Sprint(p)})
		}
	}()
	act := 0
	if snap.OnAlt {
		act = 1
	}
	s := &snap.Screens[act]
	w, h := im.term.Size()
	if w != s.W || h != s.H {
		add("C02", "size-api", fmt.Sprintf("Size()=%dx%d state %dx%d", w, h, s.W, s.H))
	}
	im.fe.fitShadow(w, h)
	for y := 0; y < h; y++ {
		line := im.term.Line(y)
		sl := im.term.StyledLine(0, w, y)
		ansi := im.term.ANSILine(y)
		plain := sl.PlainTextString()
		if line != plain {
			add("C02", "api-line-styled", fmt.Sprintf("row %d: Line=%q StyledLine text=%q", y, line, plain))
		}
		if stripped := sgrRe.ReplaceAllString(ansi, ""); stripped != line {
			add("C02", "api-line-ansi", fmt.Sprintf("row %d: Line=%q ANSILine text=%q", y, line, stripped))
		}
		sum := 0
		for i, sp := range sl.Spans {
			if sp.Width <= 0 {
				add("C02", "api-run-width", fmt.Sprintf("row %d: StyledLine run %d has width %d", y, i, sp.Width))
			}
			sum += sp.Width
		}
		if sum != w {
			add("C02", "api-row-sum", fmt.Sprintf("row %d: StyledLine run widths sum to %d, width %d", y, sum, w))
		}
		// the text of the accessors must be the text of the cells
		want := cellsOfVerif(s.Rows[y].Cells)
		got := expandLine(sl, im.gmode)
		if rowString(want) != rowString(got) && len(want) == w {
			add("C02", "api-cells", fmt.Sprintf("row %d: StyledLine shows %s, stored %s", y, rowString(got), rowString(want)))
		}
		// C10: the shadow copy, refreshed only from announcements
		if y < len(im.fe.shadow) {
			if rowString(im.fe.shadow[y]) != rowString(got) {
				add("C10", "shadow", fmt.Sprintf("row %d: frontend copy %s, screen %s", y, rowString(im.fe.shadow[y]), rowString(got)))
				if classesOf(tags)["mode"] {
					// a frontend that reads the screen back when it is told of a buffer switch must see the new buffer
					add("C17", "shadow-after-switch", fmt.Sprintf("row %d: frontend copy %s, screen %s", y, rowString(im.fe.shadow[y]), rowString(got)))
				}
				copy(im.fe.shadow[y], got) // report once
			}
		}
	}
	// what an accessor returned belongs to the caller: the row fetched after the previous step
	// still reads as it did then, whatever the terminal has done since
	if im.keptLine != nil {
		if now := rowString(expandLine(*im.keptLine, im.gmode)); now != im.keptText {
			for _, pr := range []string{"C02", "C15"} {
				add(pr, "accessor-aliases-buffer", fmt.Sprintf("a Line returned by StyledLine(0,%d,%d) before this step changed under the caller: was %s, now %s", im.keptW, im.keptY, im.keptText, now))
			}
		}
	}
	if s.CY < h {
		l := im.term.StyledLine(0, w, s.CY)
		im.keptLine, im.keptText, im.keptW, im.keptY = &l, rowString(expandLine(l, im.gmode)), w, s.CY
	}
	// sub-range reads (what a frontend repainting an announced region uses): StyledLine(x,n,y)
	// shows exactly the cells x..x+n-1 of the row, a wide character cut by either edge as blanks;
	// StyledLines(region) is StyledLine row by row
	if !im.gmode && w >= 2 {
		sub := func(cs []cell, x, n int) []cell {
			out := make([]cell, n)
			copy(out, cs[x:x+n])
			for i := 0; i < n && out[i].cont; i++ { // head lies left of the range
				out[i] = cell{text: " ", width: 1, sty: out[i].sty}
			}
			for i := 0; i < n; i++ { // a head whose continuation cells lie right of the range
				if !out[i].cont && out[i].width > 1 && i+out[i].width > n {
					for k := i; k < n; k++ {
						out[k] = cell{text: " ", width: 1, sty: out[k].sty}
					}
				}
			}
			return out
		}
		subFinding := func(clause, detail string) {
			for _, pr := range []string{"C02", "C03", "C11"} {
				add(pr, clause, detail)
			}
			if s.Grid {
				add("C20", clause, detail)
			}
		}
		step7 := step*7 + 3
		ranges := [][2]int{{1, w - 1}, {0, w - 1}, {1, w - 2}, {step7 % w, 1 + (step7/3)%(w-step7%w)}}
		// three rows per step (the cursor row and two that rotate): every row is visited often
		// enough, and big screens stay cheap
		rowsToCheck := map[int]bool{s.CY: true, step % h: true, (step*7 + 1) % h: true}
		for y := 0; y < h; y++ {
			if !rowsToCheck[y] {
				continue
			}
			full := cellsOfVerif(s.Rows[y].Cells)
			if len(full) != w {
				continue
			}
			for _, rg := range ranges {
				x, n := rg[0], rg[1]
				if n < 1 || x+n > w {
					continue
				}
				sl := im.term.StyledLine(x, n, y)
				got := expandLine(sl, false)
				want := sub(full, x, n)
				if rowString(got) != rowString(want) {
					detail := fmt.Sprintf("row %d: StyledLine(%d,%d,%d) shows %s, the cells are %s", y, x, n, y, rowString(got), rowString(want))
					subFinding("api-subrange", detail)
					// the same characters with other attributes: a cell does not report the style it was written with
					if len(got) == len(want) {
						attrOnly := true
						for k := range got {
							g, w := got[k], want[k]
							g.sty, w.sty = [3]uint32{}, [3]uint32{}
							if g != w {
								attrOnly = false
								break
							}
						}
						if attrOnly {
							add("C07", "api-subrange", detail)
						}
					}
					break
				}
			}
		}
		x1, x2 := 1, w-1
		if step%2 == 0 {
			x1, x2 = step7%w, w
		}
		y1 := step % h
		if x1 < x2 {
			ls := im.term.StyledLines(te.Region{X: x1, Y: y1, X2: x2, Y2: h})
			if len(ls) != h-y1 {
				subFinding("api-styledlines", fmt.Sprintf("StyledLines({%d,%d,%d,%d}) returned %d rows", x1, y1, x2, h, len(ls)))
			} else {
				for k, l := range ls {
					one := im.term.StyledLine(x1, x2-x1, y1+k)
					if rowString(expandLine(l, false)) != rowString(expandLine(one, false)) {
						subFinding("api-styledlines", fmt.Sprintf("StyledLines({%d,%d,%d,%d}) row %d shows %s, StyledLine(%d,%d,%d) shows %s", x1, y1, x2, h, y1+k,
							rowString(expandLine(l, false)), x1, x2-x1, y1+k, rowString(expandLine(one, false))))
						break
					}
				}
			}
		}
	}
	// C10: most recent notifications equal the actual values
	lc := [2]int{0, 0}
	if im.fe.haveCursor {
		lc = im.fe.lastCursor
	}
	if lc != [2]int{s.CX, s.CY} {
		add("C10", "cursor-last", fmt.Sprintf("last CursorMoved (%d,%d), cursor (%d,%d)", lc[0], lc[1], s.CX, s.CY))
		im.fe.lastCursor, im.fe.haveCursor = [2]int{s.CX, s.CY}, true
	}
	ls := [3]uint32{0x100, 0x100, 0x100}
	if im.fe.haveStyle {
		ls = im.fe.lastStyle
	}
	if ls != s.Style {
		add("C10", "style-last", fmt.Sprintf("last StyleChanged %x, current style %x", ls, s.Style))
		im.fe.lastStyle, im.fe.haveStyle = s.Style, true
	}
	for i, v := range snap.ViewFlags {
		if im.fe.vflags[i] != v {
			add("C10", "viewflag-last", fmt.Sprintf("flag %d: last notified %v, actual %v", i, im.fe.vflags[i], v))
			im.fe.vflags[i] = v
		}
	}
	for i, v := range snap.ViewInts {
		if im.fe.vints[i] != v {
			add("C10", "viewint-last", fmt.Sprintf("int %d: last notified %v, actual %v", i, im.fe.vints[i], v))
			im.fe.vints[i] = v
		}
	}
	for i, v := range snap.ViewStrings {
		if im.fe.vstrs[i] != v {
			add("C10", "viewstring-last", fmt.Sprintf("string %d: last notified %q, actual %q", i, im.fe.vstrs[i], v))
			im.fe.vstrs[i] = v
		}
	}
}

// checkEvents: cursor reports inside the screen (C02), callbacks under the lock (C15).
func (im *impl) checkEvents(snap *te.VerifSnap, evFrom int, wrFrom int, step int, tags string, out *[]finding) {
	add := func(prop, clause, detail string) {
		*out = append(*out, finding{Step: step, Kind: "monitor", Prop: prop, Clause: clause, Tags: tags, Detail: detail})
	}
	act := 0
	if snap.OnAlt {
		act = 1
	}
	s := &snap.Screens[act]
	for _, e := range im.fe.events[evFrom:] {
		if e.kind == "c" {
			parts := strings.Split(e.s, ":")
			x, _ := strconv.Atoi(parts[1])
			y, _ := strconv.Atoi(parts[2])
			if x < 0 || x >= s.W || y < 0 || y >= s.H {
				add("C02", "cursor-report", fmt.Sprintf("CursorMoved(%d,%d) on %dx%d", x, y, s.W, s.H))
			}
		}
	}
	for _, m := range cprRe.FindAllSubmatch(im.be.written[wrFrom:], -1) {
		r, _ := strconv.Atoi(string(m[1]))
		c, _ := strconv.Atoi(string(m[2]))
		if r < 1 || r > s.H || c < 1 || c > s.W {
			add("C02", "cpr-range", fmt.Sprintf("CPR %d;%d on %dx%d", r, c, s.W, s.H))
		}
	}
	if im.fe.cbPanic != "" {
		*out = append(*out, finding{Step: step, Kind: "panic", Prop: "C01", Clause: "accessor-in-callback", Tags: tags, Detail: im.fe.cbPanic})
		im.fe.cbPanic = ""
	}
	if im.fe.staleCalls > 0 {
		for _, pr := range []string{"C10", "C17"} {
			add(pr, "replaced-frontend-called", fmt.Sprintf("%d callback(s) went to a frontend that SetFrontend had replaced", im.fe.staleCalls))
		}
		im.fe.staleCalls = 0
	}
	if im.fe.lockFree > 0 {
		add("C15", "callback-unlocked", fmt.Sprintf("%d callback(s) ran while the terminal lock was free", im.fe.lockFree))
		im.fe.lockFree = 0
	}
}
