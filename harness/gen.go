package main

// Case generators. Every random choice derives from one PRNG state.

import (
	"encoding/hex"
	"fmt"
	"math/big"
	"strconv"
	"strings"
)

// ---------------------------------------------------------------- PRNG (splitmix64)

type prng struct{ s uint64 }

func newPrng(seed uint64) *prng { return &prng{s: seed*0x9E3779B97F4A7C15 + 0x1234567} }
func (p *prng) next() uint64 {
	p.s += 0x9E3779B97F4A7C15
	z := p.s
	z = (z ^ (z >> 30)) * 0xBF58476D1CE4E5B9
	z = (z ^ (z >> 27)) * 0x94D049BB133111EB
	return z ^ (z >> 31)
}
func (p *prng) intn(n int) int {
	if n <= 0 {
		return 0
	}
	return int(p.next() % uint64(n))
}
func (p *prng) chance(num, den int) bool { return p.intn(den) < num }
func pick[T any](p *prng, xs []T) T      { return xs[p.intn(len(xs))] }

// ---------------------------------------------------------------- vocabulary

type genCtx struct {
	r    *prng
	w, h int
	tiny bool // tiny world: tiny screens, parameters around the screen size, a three-letter alphabet
}

func in(class string, b []byte) Item {
	return Item{Kind: "in", Hex: hex.EncodeToString(b), Class: class}
}

var narrowRunes = []string{"a", "b", "x", "Z", "0", "~", "!", " ", "é", "ü", "ß", "€", "λ", "Ж", "→"}
var wideRunes = []string{"🐹", "🎉", "中", "文", "한", "あ", "Ｗ", "⸺", "⸻"} // the last two are 3 and 4 cells wide
// characters whose UTF-8 encoding contains the byte 0x9c (the 8-bit ST) in its last or in a middle
// position, one for every kind of lead byte (C2, C3, DF; E0, E1, E2, ED, EF; F0, F1, F3, F4)
var nineCChars = []string{"\u009c", "Ü", "\u07dc", "\u091c", "\u101c", "✜", "\ud01c", "\uff1c", "😜", "🌜", "\U0004001c", "\U000c001c", "\U0010001c",
	"✅", "\u0700", "\U0001c000", "\U00010700", "\U0010070c"}

var zeroRunes = []string{"́", "‍", "️", "­"}

func (g *genCtx) param() string {
	w, h := g.w, g.h
	if g.tiny {
		// tiny world: only parameters around the (tiny) screen
		return pick(g.r, []string{"", "0", "1", "1", "2", "2", "3", strconv.Itoa(w), strconv.Itoa(h), strconv.Itoa(w + 1), strconv.Itoa(h + 1), strconv.Itoa(w - 1), strconv.Itoa(h - 1)})
	}
	pool := []string{"", "0", "1", "2", "3", strconv.Itoa(w - 1), strconv.Itoa(w), strconv.Itoa(w + 1),
		strconv.Itoa(h - 1), strconv.Itoa(h), strconv.Itoa(h + 1), "255", "256", "65535",
		"2147483647", "2147483648", "4294967296", "9223372036854775807", "9223372036854775808",
		"18446744073709551616", "100000000000000000000", "2147483649", "2147483650", "4294967297", "4294967298", "9223372036854775809",
		"18446744073709551617", "18446744073709551618", "65536", "65537", "65538", "131073", "196610", "32768", "256", "257"}
	switch g.r.intn(10) {
	case 0, 1, 2, 3, 4:
		return pool[g.r.intn(11)]
	case 5, 6:
		return strconv.Itoa(g.r.intn(max(w, h) + 2))
	default:
		return pick(g.r, pool)
	}
}

func (g *genCtx) smallParam() string {
	switch g.r.intn(6) {
	case 0:
		return ""
	case 1:
		return "0"
	default:
		return strconv.Itoa(1 + g.r.intn(max(g.w, g.h)+1))
	}
}

func (g *genCtx) text(n int, wide, zero bool) []byte {
	var sb strings.Builder
	if g.tiny && n > g.w+2 {
		n = g.w + 2
	}
	for i := 0; i < n; i++ {
		switch {
		case g.tiny && wide && g.r.chance(1, 3):
			sb.WriteString(pick(g.r, []string{"中", "🐹"}))
		case g.tiny && zero && g.r.chance(1, 6):
			sb.WriteString(pick(g.r, []string{"́", "️"}))
		case g.tiny:
			sb.WriteByte(byte('a' + g.r.intn(3)))
		case wide && g.r.chance(1, 4):
			sb.WriteString(pick(g.r, wideRunes))
		case zero && g.r.chance(1, 8):
			sb.WriteString(pick(g.r, zeroRunes))
		case g.r.chance(1, 5):
			sb.WriteString(pick(g.r, narrowRunes))
		default:
			sb.WriteByte(byte('a' + g.r.intn(26)))
		}
	}
	return []byte(sb.String())
}

func (g *genCtx) badUTF8() []byte {
	pool := [][]byte{{0x80}, {0xbf}, {0xc0, 0x80}, {0xc1, 0xbf}, {0xc3}, {0xe2, 0x82}, {0xe2}, {0xf0, 0x9f, 0x90},
		{0xf0, 0x9f}, {0xf5, 0x80, 0x80, 0x80}, {0xff}, {0xfe}, {0xed, 0xa0, 0x80}, {0xe0, 0x80, 0x80}, {0xf4, 0x90, 0x80, 0x80},
		{0xc3, 0x28}, {0xe2, 0x28, 0xa1}, {0xf0, 0x28, 0x8c, 0xbc}}
	b := append([]byte(nil), pick(g.r, pool)...)
	if g.r.chance(1, 2) {
		b = append(b, g.text(1+g.r.intn(3), false, false)...)
	}
	return b
}

func csi(body string) []byte { return []byte("\x1b[" + body) }

// one item of the given class
func (g *genCtx) item(class string) Item {
	r := g.r
	switch class {
	case "text":
		return in(class, g.text(1+r.intn(6), false, false))
	case "textwide":
		return in(class, g.text(1+r.intn(5), true, false))
	case "textzero":
		return in(class, g.text(1+r.intn(5), true, true))
	case "textlong":
		n := g.w - 2 + r.intn(5)
		if n < 1 {
			n = 1
		}
		return in(class, g.text(n, r.chance(1, 3), false))
	case "badutf8":
		return in(class, g.badUTF8())
	case "c0":
		return in(class, []byte{pick(r, []byte{8, 9, 10, 10, 10, 11, 12, 13, 13, 7, 0, 5, 127, 1, 14, 15, 26, 28, 31})})
	case "lf":
		return in(class, []byte{10})
	case "crlf":
		return in(class, []byte{13, 10})
	case "cursor":
		f := pick(r, []string{"A", "B", "C", "D", "G", "d", "H", "f", "H", "s", "u", "E", "F", "`", "a", "e"})
		if f == "H" || f == "f" {
			switch r.intn(4) {
			case 0:
				return in(class, csi(g.param()+f))
			case 1: // more parameters than the function takes: the extra ones are ignored
				return in(class, csi(g.param()+";"+g.param()+";"+g.param()+pick(r, []string{"", ";" + g.param()})+f))
			default:
				return in(class, csi(g.param()+";"+g.param()+f))
			}
		}
		return in(class, csi(g.param()+f))
	case "goto": // in-range absolute positioning
		return in(class, csi(fmt.Sprintf("%d;%dH", 1+r.intn(g.h), 1+r.intn(g.w))))
	case "erase":
		f := pick(r, []string{"J", "K", "K", "X", "P", "X", "P"})
		if f == "J" || f == "K" {
			return in(class, csi(pick(r, []string{"", "0", "1", "2", "3", "1", "2"})+f))
		}
		return in(class, csi(g.param()+f))
	case "scroll":
		f := pick(r, []string{"L", "M", "S", "T"})
		return in(class, csi(g.param()+f))
	case "margins":
		switch r.intn(6) {
		case 0:
			return in(class, csi("r"))
		case 1:
			return in(class, csi(g.param()+"r"))
		case 2: // valid
			t := 1 + r.intn(g.h)
			b := t + r.intn(g.h-t+1)
			return in(class, csi(fmt.Sprintf("%d;%dr", t, b)))
		case 3: // inverted / equal
			t := 1 + r.intn(g.h)
			b := 1 + r.intn(t)
			return in(class, csi(fmt.Sprintf("%d;%dr", t, b)))
		default:
			return in(class, csi(g.param()+";"+g.param()+"r"))
		}
	case "index":
		return in(class, pick(r, [][]byte{{27, 'D'}, {27, 'M'}, {27, 'D'}, {27, 'M'}, {10}, {12}}))
	case "sgr":
		if g.tiny {
			return in(class, csi(pick(r, []string{"", "0", "1", "7", "31", "44", "1;31", "7;44", "38;5;1", "22", "27", "39", "49", "4", "9", "53"})+"m"))
		}
		n := 1 + r.intn(4)
		if r.chance(1, 8) {
			n = 7 + r.intn(30)
		}
		var ps []string
		for i := 0; i < n; i++ {
			switch r.intn(12) {
			case 0:
				ps = append(ps, "")
			case 1:
				ps = append(ps, strconv.Itoa(r.intn(256)))
			case 2:
				ps = append(ps, pick(r, []string{"38", "48"}), "5", strconv.Itoa(pick(r, []int{0, 1, 7, 8, 15, 16, 231, 255, 256, 300})))
			case 3:
				ps = append(ps, pick(r, []string{"38", "48"}), "2", strconv.Itoa(r.intn(300)), strconv.Itoa(pick(r, []int{0, 1, 128, 255})), strconv.Itoa(r.intn(256)))
			case 4:
				ps = append(ps, pick(r, []string{"38", "48", "38;5", "48;2", "38;2;1", "48;2;1;2", "38;9;1"}))
			case 5:
				ps = append(ps, strconv.Itoa(pick(r, []int{30, 37, 40, 47, 90, 97, 100, 107, 39, 49})))
			case 6:
				ps = append(ps, strconv.Itoa(pick(r, []int{22, 23, 24, 25, 27, 28, 29, 54, 55, 0})))
			default:
				ps = append(ps, strconv.Itoa(pick(r, []int{1, 2, 3, 4, 5, 6, 7, 8, 9, 21, 51, 52, 53, 31, 42, 93, 104})))
			}
		}
		return in(class, csi(strings.Join(ps, ";")+"m"))
	case "wrap":
		if r.chance(1, 10) {
			// the buffer switch and the autowrap setting in one sequence: each mode acts on the
			// buffer that is active when its turn comes
			return in(class, csi(pick(r, []string{"?1049;7h", "?7;1049h", "?1049;7l", "?7;1049l", "?1049;7;1049h"})))
		}
		return in(class, csi(pick(r, []string{"?7h", "?7l", "?7h"})))
	case "mode":
		if r.chance(1, 8) {
			// XTMODKEYS: resource 4 (modifyOtherKeys) and other resources, which must change nothing
			return in(class, csi(">"+pick(r, []string{"4;2", "4;1", "4;0", "4", "1;2", "2", "2;1", "0;1", "1;4", "4;2;1", "", "5;2", "4;3"})+"m"))
		}
		modes := []string{"1", "7", "9", "12", "25", "1000", "1002", "1003", "1004", "1005", "1006", "1015", "1049", "2004", "1034", "3", "47", "0", "",
			"1007", "1048", "2026", "69", "1001"}
		if r.chance(1, 7) {
			// one sequence naming the buffer switch together with per-buffer or repeated modes
			return in(class, csi("?"+pick(r, []string{"1049;7", "7;1049", "1049;1049", "25;1049;1049", "1049;25;1049", "1049;1;7", "1049;1004;1049;7", "1049;2004"})+pick(r, []string{"h", "l"})))
		}
		n := 1
		if r.chance(1, 4) {
			n = 2 + r.intn(3)
		}
		var ps []string
		for i := 0; i < n; i++ {
			ps = append(ps, pick(r, modes))
		}
		return in(class, csi("?"+strings.Join(ps, ";")+pick(r, []string{"h", "l"})))
	case "altscreen":
		return in(class, csi(pick(r, []string{"?1049h", "?1049l"})))
	case "kbd":
		fl := func() string {
			return pick(r, []string{"", "0", "1", "2", "3", "5", "8", "15", "16", "31", "32", "255", "4294967296", "99999999999999999999"})
		}
		switch r.intn(8) {
		case 0, 1:
			return in(class, csi(">"+fl()+"u"))
		case 2, 3:
			return in(class, csi("<"+pick(r, []string{"", "0", "1", "2", "3", "31", "32", "33", "100", "99999999999999999999"})+"u"))
		case 4, 5:
			return in(class, csi("="+fl()+pick(r, []string{"", ";1", ";2", ";3", ";0", ";4", ";"})+"u"))
		default:
			return in(class, csi("?u"))
		}
	case "query":
		if r.chance(1, 8) {
			// selectors that only look like a query after wrapping modulo 2^31, 2^32, 2^63 or 2^64
			base := pick(r, []string{"2147483648", "4294967296", "9223372036854775808", "18446744073709551616"})
			k := pick(r, []int{0, 5, 6})
			n := new(big.Int)
			n.SetString(base, 10)
			n.Add(n, big.NewInt(int64(k)))
			return in(class, csi(pick(r, []string{"", ">", "?"})+n.String()+pick(r, []string{"n", "c", "n"})))
		}
		return in(class, csi(pick(r, []string{"c", "0c", "1c", ">c", ">0c", ">1c", "5n", "6n", "6n", "?u", "n", "0n", "7n", "?6n", "=c",
			"0;1c", "1;0c", ";1c", "1;c", "2;0;0c", "0;0c", "5;6n", "6;5n", "0;6n", "6;0n", ";6n", "6;n", "?1u", "?;u", ">5;0c", "5;n", "05n", "006n"})))
	case "esc":
		return in(class, pick(r, [][]byte{{27, 'D'}, {27, 'M'}, {27, 'c'}, {27, '='}, {27, '>'}, {27, '\\'}, {27, '7'}, {27, '8'},
			{27, '(', 'B'}, {27, ')', '0'}, {27, '*', 'A'}, {27, '+', 'B'}, {27, '#', '8'}, {27, ' ', 'F'}, {27, '%', 'G'}, {27, '(', '%', '5'},
			{27, 'H'}, {27, 'Z'}, {27, 'n'}, {27, '~'}, {27, '0'}, {27, '-', 'A'}, {27, '$', '(', 'D'}}))
	case "osc":
		num := pick(r, []string{"0", "2", "6", "7", "1", "4", "10", "52", "104", "", "00", "8", "99999999999999999999",
			"18446744073709551616", "18446744073709551618", "18446744073709551622", "18446744073709551623", "4294967296", "4294967298", "007", "0000000000000000000002"})
		payload := g.text(r.intn(8), true, false)
		if r.chance(1, 4) {
			payload = append(payload, pick(r, [][]byte{[]byte("✜"), []byte("Ü"), []byte("œ"), []byte("🌜"), []byte("😜x"), []byte("𐀜"), {27, 'x'}, []byte(";a;b"), []byte("\\"), {0xc2, 0x9c}})...)
		}
		if r.chance(1, 4) {
			payload = append(payload, []byte(pick(r, nineCChars)+pick(r, []string{"", "x", "ab"}))...)
		}
		if r.chance(1, 25) {
			// a long string: around the reader's buffer sizes, and well beyond
			n := pick(r, []int{4090, 4093, 4094, 4095, 4096, 4097, 4100, 5000, 8190, 8192, 8195}) + r.intn(3)
			long := make([]byte, n)
			for k := range long {
				long[k] = byte('a' + k%26)
			}
			payload = append(long, payload...)
		}
		term := pick(r, [][]byte{{7}, {27, '\\'}, {7}, {0x9c}})
		if r.chance(1, 6) {
			// the payload ends in an incomplete multi-byte character (a title cut short, Latin-1 text)
			payload = append(payload, pick(r, [][]byte{{0xe2}, {0xe2, 0x82}, {0xf0, 0x9f}, {0xf0, 0x9f, 0x90}, {0xc3}, {0xe9}})...)
			term = pick(r, [][]byte{{7}, {7}, {27, '\\'}})
		}
		b := append([]byte("\x1b]"+num+";"), payload...)
		if r.chance(1, 8) {
			b = []byte("\x1b]" + num)
		}
		if r.chance(1, 10) {
			b = append([]byte("\x1b]"), g.text(1+r.intn(4), false, false)...)
		}
		return in(class, append(b, term...))
	case "dcs":
		payload := g.text(r.intn(8), true, false)
		if r.chance(1, 3) {
			payload = append(payload, pick(r, [][]byte{[]byte("✜"), []byte("🌜"), []byte("😜q"), []byte("Ü"), {7}, {27, 'x'}, []byte("$q"), {10}})...)
		}
		if r.chance(1, 3) {
			payload = append(payload, []byte(pick(r, nineCChars)+pick(r, []string{"", "q", "ab"}))...)
		}
		if r.chance(1, 25) {
			n := pick(r, []int{4090, 4094, 4095, 4096, 4097, 5000, 8192}) + r.intn(3)
			long := make([]byte, n)
			for k := range long {
				long[k] = byte('a' + k%26)
			}
			payload = append(long, payload...)
		}
		term := pick(r, [][]byte{{27, '\\'}, {0x9c}})
		return in(class, append(append([]byte("\x1bP"), payload...), term...))
	case "oddcsi":
		prefix := pick(r, []string{"", "", "?", ">", "<", "=", "!"})
		var ps []string
		for i, n := 0, r.intn(4); i < n; i++ {
			ps = append(ps, pick(r, []string{"", "0", "1", "2", "22", "1:2", "4:3", "?1", ":", "38:2::1:2:3"}))
		}
		inter := pick(r, []string{"", "", " ", "!", "\"", "$", "'", "*", "+", "%", " !", "#"})
		final := string(rune(0x40 + r.intn(0x3f)))
		return in(class, csi(prefix+strings.Join(ps, ";")+inter+final))
	case "manyparams":
		n := 5 + r.intn(40)
		var ps []string
		for i := 0; i < n; i++ {
			ps = append(ps, strconv.Itoa(r.intn(3)))
		}
		return in(class, csi(strings.Join(ps, ";")+pick(r, []string{"m", "H", "A", "r", "J", "h"})))
	case "resize":
		w, h := g.sizePick()
		g.w, g.h = w, h
		if r.chance(1, 12) {
			return Item{Kind: "refront"}
		}
		return Item{Kind: "resize", W: w, H: h, Fail: r.chance(1, 8)}
	}
	panic("unknown class " + class)
}

// macro: a short scripted scenario (several items) aimed at interactions that random
// single items rarely line up: state surviving a resize, cursor outside the scroll region,
// state kept per buffer across a round trip, wide characters at row edges, autowrap corners.
func (g *genCtx) macro(name string) []Item {
	r := g.r
	var out []Item
	add := func(class string, s string) { out = append(out, in(class, []byte(s))) }
	goTo := func(y, x int) { add("goto", fmt.Sprintf("\x1b[%d;%dH", y+1, x+1)) }
	afterwards := func() {
		for k, n := 0, 1+r.intn(4); k < n; k++ {
			out = append(out, g.item(pick(r, []string{"text", "textwide", "erase", "lf", "index", "scroll", "c0", "cursor", "textlong"})))
		}
	}
	switch name {
	case "save-resize-restore":
		sy, sx := r.intn(g.h), r.intn(g.w)
		goTo(sy, sx)
		if r.chance(1, 2) {
			out = append(out, g.item("margins"))
		}
		add("cursor", "\x1b[s")
		if r.chance(1, 2) {
			goTo(r.intn(g.h), r.intn(g.w))
		}
		w, h := 1+r.intn(g.w), 1+r.intn(g.h)
		if r.chance(1, 4) {
			w, h = g.sizePick()
		}
		if r.chance(1, 2) {
			// the new border exactly on, just before or just after the saved position
			if v := sy + r.intn(3) - 1 + 1; v >= 1 && r.chance(2, 3) {
				h = v
			}
			if v := sx + r.intn(3) - 1 + 1; v >= 1 && r.chance(2, 3) {
				w = v
			}
		}
		g.w, g.h = w, h
		out = append(out, Item{Kind: "resize", W: w, H: h})
		if r.chance(2, 3) {
			add("cursor", "\x1b[u")
		}
		afterwards()
	case "outside-region":
		t := r.intn(g.h)
		b := t + r.intn(g.h-t)
		add("margins", fmt.Sprintf("\x1b[%d;%dr", t+1, b+1))
		if r.chance(1, 2) {
			add("wrap", "\x1b[?7h")
		}
		y := r.intn(g.h)
		switch r.intn(4) {
		case 0:
			y = b
		case 1:
			y = t
		case 2:
			if b+1 < g.h {
				y = b + 1 + r.intn(g.h-b-1)
			}
		}
		goTo(y, pick(r, []int{0, g.w - 1, r.intn(g.w)}))
		for k, n := 0, 1+r.intn(4); k < n; k++ {
			out = append(out, g.item(pick(r, []string{"lf", "index", "textlong", "textwide", "scroll", "c0", "text"})))
		}
	case "alt-roundtrip":
		pre := []string{"kbd", "sgr", "goto", "margins", "wrap", "text", "cursor"}
		for k, n := 0, 1+r.intn(3); k < n; k++ {
			out = append(out, g.item(pick(r, pre)))
		}
		add("altscreen", "\x1b[?1049h")
		for k, n := 0, 1+r.intn(4); k < n; k++ {
			out = append(out, g.item(pick(r, pre)))
		}
		add("altscreen", "\x1b[?1049l")
		if r.chance(1, 2) {
			out = append(out, g.item(pick(r, pre)))
			add("altscreen", "\x1b[?1049h")
		}
		for k, n := 0, 1+r.intn(3); k < n; k++ {
			out = append(out, g.item(pick(r, []string{"query", "kbd", "text", "lf", "cursor"})))
		}
	case "wide-edges":
		y := r.intn(g.h)
		if r.chance(1, 2) {
			out = append(out, g.item("sgr"))
		}
		// wide characters in the last columns / a row of wide characters
		if g.w >= 2 {
			goTo(y, g.w-2-r.intn(2)%g.w)
			add("textwide", pick(r, wideRunes))
			goTo(y, r.intn(g.w))
			add("textwide", pick(r, wideRunes)+pick(r, wideRunes))
		}
		if r.chance(1, 2) {
			out = append(out, g.item("sgr"))
		}
		// touch cells next to / inside them
		for k, n := 0, 1+r.intn(4); k < n; k++ {
			goTo(y, pick(r, []int{g.w - 1, g.w - 2, g.w - 3, r.intn(g.w), 0, 1}))
			out = append(out, g.item(pick(r, []string{"textwide", "text", "erase", "erase", "textwide"})))
		}
	case "wide-splice":
		// one run alternating narrow and wide characters, then edits whose ends fall inside
		// wide characters (splices needing every piece: left part, blank, insert, blank, right part)
		y := r.intn(g.h)
		goTo(y, 0)
		var sb strings.Builder
		for x := 0; x+2 < g.w; {
			if r.chance(1, 2) {
				sb.WriteString(pick(r, wideRunes))
				x += 2
			} else {
				sb.WriteByte(byte('a' + r.intn(26)))
				x++
			}
		}
		add("textwide", sb.String())
		for k, n := 0, 1+r.intn(3); k < n; k++ {
			if r.chance(1, 3) {
				out = append(out, g.item("sgr"))
			}
			goTo(y, r.intn(g.w))
			cnt := 1 + r.intn(4)
			switch r.intn(6) {
			case 0, 1:
				add("erase", fmt.Sprintf("\x1b[%dX", cnt))
			case 2:
				add("erase", fmt.Sprintf("\x1b[%dP", cnt))
			case 3:
				add("erase", pick(r, []string{"\x1b[K", "\x1b[1K"}))
			case 4:
				add("text", string(g.text(cnt, false, false)))
			default:
				add("textwide", pick(r, wideRunes))
			}
		}
	case "resize-wide-rows":
		// rows of mixed narrow and wide characters up to the right edge (also the bottom rows),
		// then a resize that moves both borders: wide characters straddle the new right edge on
		// rows that stay and on rows that go
		mixed := func() string {
			var sb strings.Builder
			x := 0
			if r.chance(1, 2) {
				sb.WriteByte(byte('a' + r.intn(26)))
				x++
			}
			for x+2 <= g.w {
				if r.chance(2, 3) {
					sb.WriteString(pick(r, wideRunes))
					x += 2
				} else {
					sb.WriteByte(byte('a' + r.intn(26)))
					x++
				}
			}
			return sb.String()
		}
		add("wrap", "\x1b[?7l")
		for k, n := 0, 1+r.intn(4); k < n; k++ {
			goTo(pick(r, []int{g.h - 1, g.h - 2, r.intn(g.h), 0}), 0)
			add("textwide", mixed())
		}
		if r.chance(1, 3) {
			add("altscreen", pick(r, []string{"\x1b[?1049h", "\x1b[?1049l"}))
		}
		{
			w, h := 1+r.intn(g.w), 1+r.intn(g.h)
			if r.chance(1, 4) {
				w, h = g.w+r.intn(3), 1+r.intn(g.h)
			}
			g.w, g.h = w, h
			out = append(out, Item{Kind: "resize", W: w, H: h})
		}
		if r.chance(1, 2) {
			w, h := g.w+r.intn(4), g.h+r.intn(3)
			g.w, g.h = w, h
			out = append(out, Item{Kind: "resize", W: w, H: h})
		}
		for k, n := 0, 1+r.intn(3); k < n; k++ {
			goTo(r.intn(g.h), pick(r, []int{g.w - 1, g.w - 2, r.intn(g.w)}))
			out = append(out, g.item(pick(r, []string{"text", "textwide", "erase"})))
		}
	case "mark-after-motion":
		// a combining mark (or variation selector) that arrives as a run of its own after the
		// cursor was moved next to / into existing text (grapheme mode: it joins the cell left of the cursor)
		y := r.intn(g.h)
		goTo(y, 0)
		if r.chance(1, 2) {
			out = append(out, g.item("sgr"))
			add("text", string(g.text(1+r.intn(3), false, false)))
		}
		{
			var sb strings.Builder
			for x := 0; x+2 < g.w && x < 12; {
				if r.chance(1, 2) {
					sb.WriteString(pick(r, wideRunes))
					x += 2
				} else {
					sb.WriteByte(byte('a' + r.intn(26)))
					x++
				}
			}
			add("textwide", sb.String())
		}
		for k, n := 0, 1+r.intn(3); k < n; k++ {
			if r.chance(1, 2) {
				add("cursor", fmt.Sprintf("\x1b[%dD", 1+r.intn(4)))
			} else {
				goTo(y, r.intn(g.w))
			}
			mark := pick(r, []string{"\u0301", "\u0308", "\u20dd", "\ufe0e"})
			if r.chance(1, 2) {
				// ordinary text follows the mark in the same read
				add("textzero", mark+string(g.text(1+r.intn(3), r.chance(1, 3), false)))
			} else {
				add("textzero", mark)
				if r.chance(1, 3) {
					add("text", string(g.text(1, false, false)))
				}
			}
		}
	case "mark-then-erase":
		// a combining mark that arrives on its own after a cursor move joins a cell of a BLANK run
		// (or of text); then an erase with the attributes the cell already has covers that cell
		// and stays inside the run: the mark must go
		{
			y := r.intn(g.h)
			if r.chance(1, 2) {
				goTo(y, 0)
				add("erase", "\x1b[2K")
			}
			x := 1 + r.intn(max(g.w-1, 1))
			goTo(y, x)
			add("textzero", pick(r, []string{"\u0301", "\u0308", "\u20dd", "\ufe0f", "\u200d"}))
			goTo(y, max(x-1-r.intn(2), 0))
			add("erase", pick(r, []string{"\x1b[X", "\x1b[2X", "\x1b[3X", "\x1b[K", "\x1b[1K", "\x1b[J", "\x1b[1J", "\x1b[P"}))
		}
	case "query-in-string":
		// a character whose encoding contains 0x9c, then a query, inside an OSC or DCS string: the
		// string is consumed whole and the query inside it is not answered; the one after it is
		{
			q := pick(r, []string{"\x1b[6n", "\x1b[c", "\x1b[5n", "\x1b[?u", "\x1b[>c"})
			intro := pick(r, []string{"\x1b]2;", "\x1b]0;", "\x1bP", "\x1b]7;", "\x1bP$q"})
			term := pick(r, []string{"\a", "\x1b\\", "\x9c"})
			if strings.HasPrefix(intro, "\x1bP") && term == "\a" {
				term = "\x1b\\"
			}
			add(pick(r, []string{"osc", "dcs"}), intro+string(g.text(r.intn(3), false, false))+pick(r, nineCChars)+" "+q[1:]+term)
			add("query", pick(r, []string{"\x1b[5n", "\x1b[6n"}))
		}
	case "indicator-after-control":
		// an unpaired regional indicator (or a dangling joiner), a control function, then another
		// indicator / an emoji somewhere else: each is a character of its own
		goTo(r.intn(g.h), r.intn(g.w))
		add("textwide", pick(r, []string{"\U0001F1E9", "a\U0001F1EA", "\U0001F468\u200d", "x\u200d"}))
		switch r.intn(6) {
		case 0:
			add("crlf", "\r\n")
		case 1:
			goTo(r.intn(g.h), r.intn(g.w))
		case 2:
			out = append(out, g.item("sgr"))
		case 3:
			// every control byte ends the claim, DEL and NUL included
			add("c0", pick(r, []string{"\x7f", "\x7f\x7f", "\b", "\t", "\a", "\x00", "\x0e", "\x1f"}))
		case 4:
			add("esc", pick(r, []string{"\x1bM", "\x1b7", "\x1b[s", "\x1b[0m", "\x1b]0;t\a"}))
		default:
			add("c0", "\r")
		}
		add("textwide", pick(r, []string{"\U0001F1EA", "\U0001F1FA\U0001F1F8", "\U0001F469", "b"})+string(g.text(r.intn(3), false, false)))
	case "alt-text-edge":
		// text crossing the right edge on the alternate buffer while the main cursor sits elsewhere
		goTo(r.intn(g.h), pick(r, []int{0, 1, r.intn(g.w)}))
		add("altscreen", "\x1b[?1049h")
		add("wrap", pick(r, []string{"\x1b[?7h", "\x1b[?7l"}))
		goTo(r.intn(g.h), pick(r, []int{g.w - 1, g.w - 2, g.w - 3, g.w / 2}))
		add("textlong", string(g.text(3+r.intn(g.w+2), r.chance(1, 3), false)))
		if r.chance(1, 2) {
			add("altscreen", "\x1b[?1049l")
			add("textlong", string(g.text(3+r.intn(g.w+2), r.chance(1, 3), false)))
		}
	case "erase-with-region":
		// erase operations while a scroll region is set and the cursor is above, inside or below it
		t := r.intn(g.h)
		b := t + r.intn(g.h-t)
		for k, n := 0, 1+r.intn(3); k < n; k++ {
			goTo(r.intn(g.h), 0)
			add("textlong", string(g.text(g.w, false, false)))
		}
		add("margins", fmt.Sprintf("\x1b[%d;%dr", t+1, b+1))
		if r.chance(1, 2) {
			out = append(out, g.item("sgr"))
		}
		for k, n := 0, 1+r.intn(3); k < n; k++ {
			goTo(pick(r, []int{t, b, r.intn(g.h), t / 2, 0, g.h - 1}), r.intn(g.w))
			add("erase", pick(r, []string{"\x1b[J", "\x1b[1J", "\x1b[1J", "\x1b[2J", "\x1b[K", "\x1b[1K", "\x1b[2K", "\x1b[3X", "\x1b[2P"}))
		}
	case "resize-twice-then-edit":
		// two resizes in a row with rows left untouched in between, then an edit that reaches the right edge
		for k, n := 0, 1+r.intn(2); k < n; k++ {
			goTo(r.intn(g.h), 0)
			add("text", string(g.text(1+r.intn(g.w), false, false)))
		}
		for k := 0; k < 2; k++ {
			w, h := g.w+r.intn(7)-2, g.h+r.intn(3)-1
			if k == 0 && r.chance(2, 3) {
				w, h = g.w+1+r.intn(6), g.h // first wider, rows untouched
			}
			if w < 1 {
				w = 1
			}
			if h < 1 {
				h = 1
			}
			g.w, g.h = w, h
			out = append(out, Item{Kind: "resize", W: w, H: h})
		}
		add("sgr", pick(r, []string{"\x1b[44m", "\x1b[7m", "\x1b[48;5;9m", "\x1b[41;1m"}))
		for k, n := 0, 2+r.intn(4); k < n; k++ {
			goTo(r.intn(g.h), r.intn(g.w))
			add("erase", pick(r, []string{fmt.Sprintf("\x1b[%dP", 1+r.intn(4)), fmt.Sprintf("\x1b[%dP", 1+r.intn(4)), "\x1b[K", fmt.Sprintf("\x1b[%dX", 1+r.intn(g.w)), "\x1b[2K"}))
		}
	case "xtmodkeys":
		// modifyOtherKeys switched on, then XTMODKEYS for other resources (which must change nothing)
		add("mode", pick(r, []string{"\x1b[>4;2m", "\x1b[>4;1m", "\x1b[>4;2m"}))
		for k, n := 0, 1+r.intn(3); k < n; k++ {
			add("mode", "\x1b[>"+pick(r, []string{"1;2", "2", "2;1", "0;1", "1", "5;2", "3;1", "1;0", ""})+"m")
			if r.chance(1, 2) {
				add("text", string(g.text(1+r.intn(3), false, false)))
			}
		}
	case "deep-kbd-stack":
		// more pushes than the stack holds, a few pops, then a query (and whatever comes next)
		for k, n := 0, 30+r.intn(12); k < n; k++ {
			add("kbd", fmt.Sprintf("\x1b[>%du", 1+(k*7+r.intn(3))%31))
		}
		for k, n := 0, 1+r.intn(5); k < n; k++ {
			add("kbd", pick(r, []string{"\x1b[<u", "\x1b[<u", "\x1b[<2u", "\x1b[<1u"}))
			if r.chance(1, 2) {
				add("query", "\x1b[?u")
			}
		}
		add("query", "\x1b[?u")
	case "erase-after-scroll":
		// rows vacated by one scroll of several rows, then a whole-row (or row-end) edit of ONE
		// of them under another rendition: its siblings must stay as they are
		for k, n := 0, 1+r.intn(2); k < n; k++ {
			goTo(r.intn(g.h), 0)
			add("textlong", string(g.text(g.w, false, false)))
		}
		{
			cnt := 2 + r.intn(3)
			f := pick(r, []string{"S", "T", "L", "M"})
			if f == "L" || f == "M" {
				goTo(r.intn(g.h), r.intn(g.w))
			}
			add("scroll", fmt.Sprintf("\x1b[%d%s", cnt, f))
		}
		out = append(out, g.item("sgr"))
		for k, n := 0, 1+r.intn(3); k < n; k++ {
			goTo(r.intn(g.h), pick(r, []int{0, 0, r.intn(g.w)}))
			add("erase", pick(r, []string{"\x1b[2K", "\x1b[K", "\x1b[1K", fmt.Sprintf("\x1b[%dX", g.w), fmt.Sprintf("\x1b[%dP", 1+r.intn(g.w)), "\x1b[J", "\x1b[1J"}))
			if r.chance(1, 3) {
				add("textlong", string(g.text(g.w, false, false)))
			}
		}
	case "save-alt-restore":
		// a saved cursor must survive a visit to the other buffer (and the other buffer's own saves)
		goTo(r.intn(g.h), r.intn(g.w))
		add("cursor", pick(r, []string{"\x1b[s", "\x1b7"}))
		goTo(r.intn(g.h), r.intn(g.w))
		add("altscreen", "\x1b[?1049h")
		for k, n := 0, r.intn(3); k < n; k++ {
			out = append(out, g.item(pick(r, []string{"cursor", "goto", "text", "c0"})))
		}
		if r.chance(1, 2) {
			add("cursor", "\x1b[s")
		}
		add("altscreen", "\x1b[?1049l")
		if r.chance(1, 2) {
			goTo(r.intn(g.h), r.intn(g.w))
		}
		add("cursor", pick(r, []string{"\x1b[u", "\x1b8", "\x1b[u"}))
		afterwards()
	case "autowrap-corners":
		add("wrap", "\x1b[?7h")
		if r.chance(1, 2) {
			out = append(out, g.item("margins"))
		}
		goTo(pick(r, []int{g.h - 1, r.intn(g.h), 0}), pick(r, []int{0, g.w - 1, g.w - 2}))
		for k, n := 0, 2+r.intn(4); k < n; k++ {
			switch r.intn(6) {
			case 0:
				add("c0", "\x08")
			case 1:
				add("c0", "\r")
			case 2:
				add("textwide", pick(r, wideRunes))
			case 3:
				goTo(r.intn(g.h), pick(r, []int{0, g.w - 1}))
			default:
				out = append(out, g.item(pick(r, []string{"text", "textlong", "c0", "cursor"})))
			}
		}
	}
	return out
}

var macroNames = []string{"save-resize-restore", "outside-region", "alt-roundtrip", "wide-edges", "autowrap-corners", "wide-splice",
	"resize-wide-rows", "mark-after-motion", "alt-text-edge", "erase-with-region", "erase-after-scroll", "save-alt-restore", "resize-twice-then-edit", "indicator-after-control", "deep-kbd-stack", "xtmodkeys", "mark-then-erase", "query-in-string"}

func (g *genCtx) sizePick() (int, int) {
	r := g.r
	if g.tiny {
		return 1 + r.intn(5), 1 + r.intn(4)
	}
	switch r.intn(12) {
	case 0:
		return 1, 1
	case 1:
		return 1, 1 + r.intn(6)
	case 2:
		return 1 + r.intn(8), 1
	case 3:
		return 2 + r.intn(4), 8 + r.intn(30)
	case 4:
		return 80, 24
	case 5:
		return 20 + r.intn(100), 2 + r.intn(6)
	default:
		return 1 + r.intn(12), 1 + r.intn(9)
	}
}

// ---------------------------------------------------------------- profiles

type profile struct {
	name         string
	weights      map[string]int
	minLen       int
	maxLen       int
	grid         int // percent of cases on the grid buffer
	gmode        int // percent of cases in grapheme mode
	chunks       []int
	sizes        func(g *genCtx) (int, int)
	gridGrapheme bool     // also run grapheme mode on the grid buffer (without the model)
	shortWrites  int      // percent of cases whose backend short-writes
	tiny         int      // percent of tiny-world cases (0 = default 25, -1 = none)
	macros       int      // percent of positions filled by a macro scenario
	macroSet     []string // which macros (nil = all)
}

func smallSizes(g *genCtx) (int, int) {
	r := g.r
	switch r.intn(10) {
	case 0:
		return 80, 24
	case 1:
		return 2 + r.intn(4), 8 + r.intn(12) // tall
	default:
		return 2 + r.intn(11), 2 + r.intn(8)
	}
}

var baseWeights = map[string]int{
	"text": 30, "textwide": 10, "textlong": 8, "c0": 8, "lf": 4, "crlf": 4, "cursor": 12, "goto": 10, "erase": 10,
	"scroll": 6, "margins": 4, "index": 4, "sgr": 8, "wrap": 4, "mode": 3, "altscreen": 2, "kbd": 2, "query": 3,
	"esc": 3, "osc": 2, "dcs": 1, "oddcsi": 2, "manyparams": 1,
}

func withWeights(over map[string]int) map[string]int {
	m := map[string]int{}
	for k, v := range baseWeights {
		m[k] = v
	}
	for k, v := range over {
		m[k] = v
	}
	return m
}

var profiles = map[string]*profile{
	"general": {name: "general", shortWrites: 10, gmode: 15, macros: 6, weights: withWeights(map[string]int{"resize": 2}), minLen: 4, maxLen: 40, grid: 25, chunks: []int{0, 0, 1, 3}},
	"C01": {name: "C01", shortWrites: 10, gmode: 20, gridGrapheme: true, macros: 8, weights: withWeights(map[string]int{"resize": 8, "badutf8": 6, "cursor": 16, "scroll": 12, "margins": 8, "erase": 12, "manyparams": 3, "oddcsi": 4, "textzero": 4}),
		minLen: 4, maxLen: 60, grid: 30, chunks: []int{0, 1, 2, 3}, sizes: func(g *genCtx) (int, int) { return g.sizePick() }},
	"C02": {name: "C02", gmode: 15, macros: 8, weights: withWeights(map[string]int{"resize": 5, "textwide": 20, "goto": 20, "erase": 14, "sgr": 10, "badutf8": 3, "textzero": 4}),
		minLen: 6, maxLen: 50, grid: 25, chunks: []int{0, 1, 3}},
	"C03": {name: "C03", gmode: 20, macros: 8, macroSet: []string{"wide-edges", "autowrap-corners", "outside-region", "wide-splice", "mark-after-motion", "alt-text-edge", "indicator-after-control"}, weights: map[string]int{"text": 30, "textwide": 20, "textlong": 15, "goto": 14, "wrap": 8, "cursor": 6, "sgr": 5, "crlf": 4, "margins": 2, "badutf8": 3, "c0": 3, "altscreen": 1},
		minLen: 4, maxLen: 40, grid: 30, chunks: []int{0, 1, 3}},
	"C04": {name: "C04", gmode: 8, macros: 8, macroSet: []string{"outside-region", "autowrap-corners", "save-resize-restore", "save-alt-restore"}, weights: map[string]int{"cursor": 40, "c0": 15, "index": 12, "goto": 6, "margins": 8, "text": 10, "textwide": 3, "wrap": 3, "lf": 5, "crlf": 3, "manyparams": 2, "altscreen": 2},
		minLen: 4, maxLen: 40, grid: 30, chunks: []int{0, 1}},
	"C05": {name: "C05", gmode: 12, macros: 10, macroSet: []string{"wide-edges", "wide-splice", "erase-with-region", "erase-after-scroll", "resize-twice-then-edit", "mark-then-erase"}, weights: map[string]int{"erase": 35, "goto": 20, "text": 15, "textwide": 15, "textlong": 6, "sgr": 8, "wrap": 2, "crlf": 3, "margins": 3, "scroll": 3, "resize": 2, "textzero": 4},
		minLen: 5, maxLen: 40, grid: 30, chunks: []int{0, 1}},
	"C06": {name: "C06", gmode: 10, macros: 10, macroSet: []string{"outside-region", "autowrap-corners"}, weights: map[string]int{"scroll": 25, "margins": 14, "index": 14, "lf": 8, "goto": 12, "text": 12, "textwide": 5, "textlong": 6, "wrap": 4, "sgr": 4, "crlf": 4, "resize": 3},
		minLen: 5, maxLen: 40, grid: 30, chunks: []int{0, 1}},
	"C07": {name: "C07", macros: 6, macroSet: []string{"wide-edges", "wide-splice"}, weights: map[string]int{"sgr": 40, "text": 20, "textwide": 6, "erase": 12, "goto": 10, "scroll": 3, "manyparams": 3, "crlf": 3, "resize": 2, "altscreen": 2},
		minLen: 5, maxLen: 40, grid: 30, chunks: []int{0, 1}},
	"C09": {name: "C09", macros: 6, macroSet: []string{"xtmodkeys", "query-in-string"}, weights: map[string]int{"oddcsi": 25, "esc": 15, "osc": 15, "dcs": 10, "text": 20, "textwide": 4, "manyparams": 4, "sgr": 3, "cursor": 4, "query": 3, "mode": 3, "kbd": 3},
		minLen: 3, maxLen: 30, grid: 10, chunks: []int{0, 1, 2, 3}},
	"C10": {name: "C10", gmode: 12, macros: 8, weights: withWeights(map[string]int{"altscreen": 6, "scroll": 10, "index": 8, "textwide": 15, "lf": 8, "resize": 4, "textzero": 3}),
		minLen: 5, maxLen: 50, grid: 30, chunks: []int{0, 1}},
	"C14": {name: "C14", shortWrites: 35, macros: 8, macroSet: []string{"alt-roundtrip", "save-resize-restore", "deep-kbd-stack", "query-in-string"}, weights: withWeights(map[string]int{"query": 25, "kbd": 8, "altscreen": 4, "goto": 14, "resize": 3}),
		minLen: 4, maxLen: 40, grid: 20, chunks: []int{0, 1, 3}},
	"C17": {name: "C17", macros: 12, macroSet: []string{"alt-roundtrip"}, weights: map[string]int{"mode": 30, "altscreen": 15, "text": 15, "textwide": 4, "goto": 8, "kbd": 8, "margins": 5, "wrap": 6, "sgr": 4, "erase": 4, "scroll": 3, "lf": 4, "resize": 4},
		minLen: 5, maxLen: 40, grid: 20, chunks: []int{0, 1}},
	"C16g": {name: "C16g", gmode: 100, macros: 20, macroSet: []string{"mark-after-motion", "wide-edges", "autowrap-corners", "indicator-after-control"}, weights: map[string]int{"text": 30, "textwide": 20, "textzero": 14, "textlong": 10, "goto": 10, "cursor": 6, "sgr": 5, "crlf": 4, "wrap": 4},
		minLen: 4, maxLen: 30, grid: 0, chunks: []int{1, 3, 3}},
	"C18": {name: "C18", gmode: 10, macros: 12, macroSet: []string{"save-resize-restore", "wide-edges", "resize-wide-rows"}, weights: withWeights(map[string]int{"resize": 20, "textwide": 15, "textlong": 12, "margins": 8, "cursor": 12, "altscreen": 3}),
		minLen: 5, maxLen: 40, grid: 30, chunks: []int{0, 1}, sizes: func(g *genCtx) (int, int) { return g.sizePick() }},
	"C19": {name: "C19", macros: 10, macroSet: []string{"alt-roundtrip"}, weights: map[string]int{"kbd": 70, "altscreen": 10, "text": 5, "mode": 5, "query": 5},
		minLen: 5, maxLen: 80, grid: 5, chunks: []int{0, 1}},
	"C20": {name: "C20", macros: 8, weights: withWeights(map[string]int{"textwide": 12}), minLen: 5, maxLen: 40, grid: 100, chunks: []int{0, 1}},
}

func genCase(p *profile, r *prng) Case {
	g := &genCtx{r: r}
	if p.sizes != nil {
		g.w, g.h = p.sizes(g)
	} else {
		g.w, g.h = smallSizes(g)
	}
	if p.tiny >= 0 && r.intn(100) < max(p.tiny, 25) {
		// small-scope cases: every boundary of the screen is a couple of operations away, so
		// interactions between operations are covered densely
		g.tiny = true
		g.w, g.h = pick(r, []int{1, 2, 2, 3, 3, 4, 4, 5}), pick(r, []int{1, 2, 2, 3, 3, 4})
	}
	c := Case{W: g.w, H: g.h, Grid: r.intn(100) < p.grid, Chunk: pick(r, p.chunks)}
	if r.intn(100) < p.gmode {
		c.Mode = 1
		// grapheme mode is modelled on the default (span) buffer; the grid buffer writes the
		// runes of a cluster one by one, so it runs without the model (panics and monitors only)
		c.Grid = p.gridGrapheme && r.chance(1, 3)
	}
	if c.Chunk >= 3 {
		c.Chunk = 3 + r.intn(1000)
	}
	if p.shortWrites > 0 && r.intn(100) < p.shortWrites {
		c.ShortWrites = 1 + r.intn(8)
	}
	total := 0
	var classes []string
	for k, v := range p.weights {
		_ = v
		classes = append(classes, k)
	}
	sortStrings(classes)
	for _, k := range classes {
		total += p.weights[k]
	}
	n := p.minLen + r.intn(p.maxLen-p.minLen+1)
	if g.tiny {
		n = 12 + r.intn(50)
	}
	for i := 0; i < n; i++ {
		if p.macros > 0 && r.intn(100) < p.macros {
			ms := p.macroSet
			if ms == nil {
				ms = macroNames
			}
			c.Items = append(c.Items, g.macro(pick(r, ms))...)
			continue
		}
		x := r.intn(total)
		for _, k := range classes {
			x -= p.weights[k]
			if x < 0 {
				if c.Mode == 1 && k == "badutf8" {
					k = "textzero"
				} else if c.Mode == 1 && k == "text" && r.chance(1, 3) {
					k = "textzero"
				}
				c.Items = append(c.Items, g.item(k))
				break
			}
		}
	}
	if r.chance(1, 8) {
		// the stream ends in the middle of a sequence or character (EOF inside a handler)
		full := g.item(pick(r, []string{"esc", "osc", "dcs", "oddcsi", "sgr", "cursor", "query", "kbd", "textwide", "goto", "mode"})).bytes()
		if len(full) > 1 {
			c.Items = append(c.Items, in("truncated", full[:1+r.intn(len(full)-1)]))
		}
	}
	return c
}

func sortStrings(s []string) {
	for i := 1; i < len(s); i++ {
		for j := i; j > 0 && s[j] < s[j-1]; j-- {
			s[j], s[j-1] = s[j-1], s[j]
		}
	}
}
