package main

// The parent process: runs the real work in a child with an address-space
// limit and a watchdog, so that a crash of the Go runtime, an out-of-memory
// condition or a wedge inside the implementation is attributed to a case
// instead of taking the check down.

import (
	"context"
	"encoding/json"
	"fmt"
	"io"
	"os"
	"os/exec"
	"path/filepath"
	"regexp"
	"runtime"
	"sort"
	"strings"
	"sync/atomic"
	"syscall"
	"time"
)

const childMemLimit = 6 << 30

var lockFatalRe = regexp.MustCompile(`fatal error: sync: [^\n]*|fatal error: all goroutines are asleep[^\n]*|fatal error: concurrent map [^\n]*|WARNING: DATA RACE`)

func limitMemory() {
	var rl syscall.Rlimit
	rl.Cur, rl.Max = childMemLimit, childMemLimit
	_ = syscall.Setrlimit(syscall.RLIMIT_AS, &rl)
}

// tailBuffer keeps the last bytes written to it (the end of a crashing child's output).
type tailBuffer struct{ b []byte }

func (t *tailBuffer) Write(p []byte) (int, error) {
	t.b = append(t.b, p...)
	if len(t.b) > 1<<16 {
		t.b = t.b[len(t.b)-(1<<15):]
	}
	return len(p), nil
}

var lastChildStderr tailBuffer

func runChild(args []string, timeout time.Duration) (int, bool) {
	ctx, cancel := context.WithTimeout(context.Background(), timeout)
	defer cancel()
	cmd := exec.CommandContext(ctx, os.Args[0], args...)
	lastChildStderr.b = nil
	cmd.Stdout, cmd.Stderr = os.Stdout, io.MultiWriter(os.Stderr, &lastChildStderr)
	err := cmd.Run()
	if ctx.Err() != nil {
		return -1, true
	}
	if err == nil {
		return 0, false
	}
	if ee, ok := err.(*exec.ExitError); ok {
		return ee.ExitCode(), false
	}
	return -1, false
}

func supervise(prop, replayDir string, seed int64) int {
	dir, err := os.MkdirTemp("", "verifh-inflight-")
	if err != nil {
		fmt.Fprintln(os.Stderr, err)
		return 2
	}
	defer os.RemoveAll(dir)
	base := append([]string{"-child", "-inflight", dir}, os.Args[1:]...)
	var skip []string
	crashViolations := 0
	for attempt := 0; attempt < 12; attempt++ {
		args := base
		if len(skip) > 0 {
			args = append(args, "-skip", strings.Join(skip, ","))
		}
		code, timedOut := runChild(args, 6*time.Hour) // a wedged case is ended by the per-case watchdog long before
		if !timedOut && (code == 0 || code == 1) {
			if crashViolations > 0 {
				return 1
			}
			return code
		}
		// abnormal end: find the in-flight cases and try each alone
		files, _ := filepath.Glob(filepath.Join(dir, "case-*.json"))
		sort.Strings(files)
		if len(files) == 0 {
			fmt.Fprintf(os.Stderr, "harness child ended abnormally (code %d, timeout %v) with no case in flight\n", code, timedOut)
			return 2
		}
		culprit := false
		for _, f := range files {
			var idx int
			fmt.Sscanf(filepath.Base(f), "case-%d.json", &idx)
			one := filepath.Join(dir, "solo.json")
			b, _ := os.ReadFile(f)
			_ = os.WriteFile(one, b, 0o644)
			_ = os.Remove(f)
			c2, to2 := runChild(append([]string{"-child", "-replay", one, "-quiet"}, passThrough(os.Args[1:])...), scaled(40*time.Second))
			if to2 || (c2 != 0 && c2 != 1) {
				culprit = true
				skip = append(skip, fmt.Sprint(idx))
				if prop == "C15" && (to2 || lockFatalRe.Match(lastChildStderr.b)) {
					// the Go runtime ended the process over a misuse of the terminal lock (or the case never ends)
					_ = os.MkdirAll(replayDir, 0o755)
					path := filepath.Join(replayDir, fmt.Sprintf("C15-%d-crash%d.json", seed, idx))
					var c Case
					_ = json.Unmarshal(b, &c)
					what := "the process was ended by the Go runtime: " + string(lockFatalRe.Find(lastChildStderr.b))
					if to2 {
						what = "no termination within 40 s (deadlock or wedge)"
					}
					rep := map[string]any{"property": "C15", "kind": "failing-input", "case": c,
						"finding": finding{Kind: "panic", Prop: "C15", Clause: "process", Detail: what}, "seed": seed}
					jb, _ := json.MarshalIndent(rep, "", " ")
					_ = os.WriteFile(path, jb, 0o644)
					fmt.Printf("VIOLATION property=C15 replay=%s\n  %s\n", path, what)
					crashViolations++
				}
				if prop == "C01" {
					_ = os.MkdirAll(replayDir, 0o755)
					path := filepath.Join(replayDir, fmt.Sprintf("C01-%d-crash%d.json", seed, idx))
					var c Case
					_ = json.Unmarshal(b, &c)
					what := fmt.Sprintf("process died with exit code %d", c2)
					if to2 {
						what = "no termination within 40 s (wedge)"
					}
					rep := map[string]any{"property": "C01", "kind": "failing-input", "case": c,
						"finding": finding{Kind: "panic", Prop: "C01", Clause: "process", Detail: what}, "seed": seed}
					jb, _ := json.MarshalIndent(rep, "", " ")
					_ = os.WriteFile(path, jb, 0o644)
					fmt.Printf("VIOLATION property=C01 replay=%s\n  %s\n", path, what)
					crashViolations++
				}
			}
		}
		if crashViolations >= 3 {
			return 1 // enough failing inputs; every further attempt would die on yet another case
		}
		if !culprit {
			// not reproducible alone: skip them all and go on
			for _, f := range files {
				var idx int
				fmt.Sscanf(filepath.Base(f), "case-%d.json", &idx)
				skip = append(skip, fmt.Sprint(idx))
			}
		}
	}
	fmt.Fprintln(os.Stderr, "harness: too many abnormal child exits")
	if crashViolations > 0 {
		return 1
	}
	return 2
}

// passThrough keeps the flags a solo replay needs.
func passThrough(args []string) []string {
	var out []string
	keep := map[string]bool{"-prop": true, "-driver": true, "-widths": true, "-known": true}
	for i := 0; i < len(args); i++ {
		if keep[args[i]] && i+1 < len(args) {
			out = append(out, args[i], args[i+1])
			i++
		}
	}
	return out
}

// ---------------------------------------------------------------- wall-clock limits under load

var loadCache struct {
	at     atomic.Int64
	factor atomic.Int64 // x100
}

// loadFactor: how much slower than on an idle machine things may run right now — the larger of
// the one-minute load average and the number of currently runnable tasks, per CPU (at least 1,
// at most 40). Every wall-clock limit whose expiry is reported as a wedge, a deadlock or a
// blocked call is multiplied by it, so that a machine shared with other checks (or anything
// else) does not turn slowness into an alarm; on an idle machine the limits are as written.
func loadFactor() float64 {
	now := time.Now().UnixNano()
	if at := loadCache.at.Load(); at != 0 && now-at < int64(time.Second) {
		return float64(loadCache.factor.Load()) / 100
	}
	f := 1.0
	if b, err := os.ReadFile("/proc/loadavg"); err == nil {
		fs := strings.Fields(string(b))
		if len(fs) >= 4 {
			var l1 float64
			var run, tot int
			fmt.Sscanf(fs[0], "%g", &l1)
			fmt.Sscanf(fs[3], "%d/%d", &run, &tot)
			if float64(run) > l1 {
				l1 = float64(run)
			}
			if g := l1 / float64(runtime.NumCPU()); g > f {
				f = g
			}
		}
	}
	if f > 40 {
		f = 40
	}
	loadCache.factor.Store(int64(f * 100))
	loadCache.at.Store(now)
	return f
}

// scaled: a wall-clock limit adjusted to the current load.
func scaled(d time.Duration) time.Duration {
	return time.Duration(float64(d) * loadFactor())
}
