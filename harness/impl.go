package main

// Running the real implementation: scripted backend, recording frontend with a
// shadow screen, canonical observations.

import (
	"errors"
	"fmt"
	"io"
	"sort"
	"strconv"
	"strings"
	"sync"
	"unicode/utf8"

	te "github.com/ricochet1k/termemu"
)

// ---------------------------------------------------------------- backend

type chunk struct {
	data []byte
	err  error // delivered together with the last byte of data (or alone when data is empty)
}

// scriptBackend returns the scripted chunks one Read at a time and io.EOF when
// the script is exhausted. Writes are recorded; optional write script.
type scriptBackend struct {
	failSize  bool // SetSize reports an error (the buffers must be resized all the same)
	afterEnd  int  // consecutive reads after the script ran out
	script    []chunk
	delivered int
	reads     int

	wmu              sync.Mutex
	written          []byte
	writeSizes       []int // per-call limits (0 = (0,nil)); nil = accept everything
	writeErrAt       int   // fail the k-th Write call (1-based); 0 = never
	writeErrProgress int   // … after accepting this many bytes of it
	writeCalls       int
	shortCycle       int // >0: accept 1..shortCycle bytes per call

	sizes [][2]int
}

var errInjected = errors.New("injected")

func (b *scriptBackend) Read(p []byte) (int, error) {
	b.reads++
	if len(b.script) == 0 {
		// a loop that keeps reading after the backend reported the end never stops (C16, C01)
		b.afterEnd++
		if b.afterEnd > 2000 {
			b.afterEnd = 0
			panic("backend read again and again after it reported EOF or an error: the read loop does not stop")
		}
		return 0, io.EOF
	}
	b.afterEnd = 0
	c := &b.script[0]
	n := copy(p, c.data)
	c.data = c.data[n:]
	b.delivered += n
	if len(c.data) == 0 {
		err := c.err
		b.script = b.script[1:]
		return n, err
	}
	return n, nil
}

// writtenNow: the bytes written so far (an implementation that writes from a goroutine of its own
// must not bring the harness down: it is to be reported through what it wrote and when)
func (b *scriptBackend) writtenNow() []byte {
	b.wmu.Lock()
	defer b.wmu.Unlock()
	return append([]byte(nil), b.written...)
}

func (b *scriptBackend) Write(p []byte) (int, error) {
	b.wmu.Lock()
	defer b.wmu.Unlock()
	b.writeCalls++
	if b.writeErrAt > 0 && b.writeCalls == b.writeErrAt {
		// io.Writer allows a failing call to have made progress
		n := b.writeErrProgress
		if n > len(p) {
			n = len(p)
		}
		b.written = append(b.written, p[:n]...)
		return n, errInjected
	}
	n := len(p)
	if b.shortCycle > 0 {
		if k := 1 + (b.writeCalls*7+3)%b.shortCycle; k < n {
			n = k
		}
	}
	if b.writeSizes != nil {
		k := b.writeCalls - 1
		if k < len(b.writeSizes) && b.writeSizes[k] < n {
			n = b.writeSizes[k]
		}
	}
	b.written = append(b.written, p[:n]...)
	return n, nil
}

func (b *scriptBackend) SetSize(w, h int) error {
	b.sizes = append(b.sizes, [2]int{w, h})
	if b.failSize {
		return errInjected
	}
	return nil
}

// ---------------------------------------------------------------- cells

type cell struct {
	text  string
	width int
	cont  bool
	sty   [3]uint32
}

func (c cell) String() string {
	s := fmt.Sprintf("%x.%x.%x", c.sty[0], c.sty[1], c.sty[2])
	if c.cont {
		return "~/" + s
	}
	return fmt.Sprintf("%x:%d/%s", c.text, c.width, s)
}

func rowString(cs []cell) string {
	var sb strings.Builder
	for i := 0; i < len(cs); {
		j := i
		for j < len(cs) && cs[j] == cs[i] {
			j++
		}
		if i > 0 {
			sb.WriteByte(' ')
		}
		sb.WriteString(strconv.Itoa(j - i))
		sb.WriteByte('*')
		sb.WriteString(cs[i].String())
		i = j
	}
	return sb.String()
}

func cellsOfVerif(cs []te.VerifCell) []cell {
	out := make([]cell, len(cs))
	for i, c := range cs {
		out[i] = cell{text: c.Text, width: c.Width, cont: c.Cont, sty: c.Style}
		if c.Cont {
			out[i].text, out[i].width = "", 0
		}
	}
	return out
}

// expandLine turns the spans of a public-API Line into cells (rune mode
// tokenisation: one character per rune, width from the package).
func expandLine(l te.Line, grapheme bool) []cell {
	var out []cell
	for _, sp := range l.Spans {
		st := te.VerifStyleRaw(sp.Style)
		if sp.Text == "" {
			for i := 0; i < sp.Width; i++ {
				out = append(out, cell{text: string(sp.Rune), width: 1, sty: st})
			}
			continue
		}
		out = append(out, expandText(sp.Text, st, grapheme)...)
	}
	return out
}

func expandText(text string, st [3]uint32, grapheme bool) []cell {
	var out []cell
	if grapheme {
		for _, cl := range graphemeClusters(text) {
			if cl.width < 1 {
				if n := len(out); n > 0 {
					k := n - 1
					for k > 0 && out[k].cont {
						k--
					}
					out[k].text += cl.text
				}
				continue
			}
			out = append(out, cell{text: cl.text, width: cl.width, sty: st})
			for i := 1; i < cl.width; i++ {
				out = append(out, cell{cont: true, sty: st})
			}
		}
		return out
	}
	for len(text) > 0 {
		r, size := utf8.DecodeRuneInString(text)
		w := te.VerifRuneWidth(r)
		out = append(out, cell{text: text[:size], width: w, sty: st})
		for i := 1; i < w; i++ {
			out = append(out, cell{cont: true, sty: st})
		}
		text = text[size:]
	}
	return out
}

// ---------------------------------------------------------------- frontend

type event struct {
	kind string // b s f i t c r l
	s    string
}

type recFrontend struct {
	staleCalls int // callbacks that arrived through a frontend already replaced by SetFrontend
	term       te.Terminal
	vt         *te.VerifTerm
	gmode      bool
	events     []event

	// shadow copy of the active screen, refreshed only from announcements
	shadow     [][]cell
	shadowOK   bool
	lastCursor [2]int
	haveCursor bool
	lastStyle  [3]uint32
	haveStyle  bool
	vflags     map[int]bool
	vints      map[int]int
	vstrs      map[int]string

	lockFree    int // callbacks during which TryLock succeeded
	callbacks   int
	scrollLines []int
	probeLock   bool
	cbPanic     string
}

func newRecFrontend() *recFrontend {
	// what a frontend assumes before it is told anything: the cursor is shown (VFShowCursor = 1)
	return &recFrontend{vflags: map[int]bool{1: true}, vints: map[int]int{}, vstrs: map[int]string{}}
}

func (f *recFrontend) probe() {
	f.callbacks++
	if f.probeLock && f.vt != nil && f.vt.TryLock() {
		f.lockFree++
	}
}

func (f *recFrontend) Bell() { f.probe(); f.events = append(f.events, event{"b", "b"}) }

func (f *recFrontend) RegionChanged(r te.Region, cr te.ChangeReason) {
	f.probe()
	f.events = append(f.events, event{"r", fmt.Sprintf("r:%d:%d:%d:%d:%d", r.X, r.Y, r.X2, r.Y2, int(cr))})
	if f.term == nil {
		return
	}
	defer func() {
		if p := recover(); p != nil {
			f.cbPanic = fmt.Sprint(p)
		}
	}()
	w, h := f.term.Size()
	f.fitShadow(w, h)
	x1, x2 := clampi(r.X, 0, w), clampi(r.X2, 0, w)
	y1, y2 := clampi(r.Y, 0, h), clampi(r.Y2, 0, h)
	if x1 >= x2 {
		return
	}
	for y := y1; y < y2; y++ {
		line := f.term.StyledLine(x1, x2-x1, y)
		cs := expandLine(line, f.gmode)
		for i := 0; i < len(cs) && x1+i < w; i++ {
			f.shadow[y][x1+i] = cs[i]
		}
	}
}

func (f *recFrontend) fitShadow(w, h int) {
	if len(f.shadow) == h && (h == 0 || len(f.shadow[0]) == w) {
		return
	}
	// size changed: the owner of the frontend resized and repaints everything
	f.resync(w, h)
}

func (f *recFrontend) resync(w, h int) {
	f.shadow = make([][]cell, h)
	for y := 0; y < h; y++ {
		cs := expandLine(f.term.StyledLine(0, w, y), f.gmode)
		row := make([]cell, w)
		copy(row, cs)
		f.shadow[y] = row
	}
}

func (f *recFrontend) ScrollLines(y int) {
	f.probe()
	f.scrollLines = append(f.scrollLines, y)
	f.events = append(f.events, event{"l", fmt.Sprintf("l:%d", y)})
}
func (f *recFrontend) CursorMoved(x, y int) {
	f.probe()
	f.lastCursor, f.haveCursor = [2]int{x, y}, true
	f.events = append(f.events, event{"c", fmt.Sprintf("c:%d:%d", x, y)})
}
func (f *recFrontend) StyleChanged(s te.Style) {
	f.probe()
	f.lastStyle, f.haveStyle = te.VerifStyleRaw(s), true
	r := f.lastStyle
	f.events = append(f.events, event{"s", fmt.Sprintf("s:%x.%x.%x", r[0], r[1], r[2])})
}
func (f *recFrontend) ViewFlagChanged(v te.ViewFlag, value bool) {
	f.probe()
	f.vflags[int(v)] = value
	f.events = append(f.events, event{"f", fmt.Sprintf("f:%d:%d", int(v), b2i(value))})
}
func (f *recFrontend) ViewIntChanged(v te.ViewInt, value int) {
	f.probe()
	f.vints[int(v)] = value
	f.events = append(f.events, event{"i", fmt.Sprintf("i:%d:%d", int(v), value)})
}
func (f *recFrontend) ViewStringChanged(v te.ViewString, value string) {
	f.probe()
	f.vstrs[int(v)] = value
	f.events = append(f.events, event{"t", fmt.Sprintf("t:%d:%s", int(v), hexOrDash([]byte(value)))})
}

func b2i(b bool) int {
	if b {
		return 1
	}
	return 0
}

func clampi(v, lo, hi int) int {
	if v < lo {
		return lo
	}
	if v > hi {
		return hi
	}
	return v
}

func hexOrDash(b []byte) string {
	if len(b) == 0 {
		return "-"
	}
	return fmt.Sprintf("%x", b)
}

// ---------------------------------------------------------------- one running implementation

type impl struct {
	be    *scriptBackend
	fe    *recFrontend
	vt    *te.VerifTerm
	term  te.Terminal
	gmode bool
	grid  bool

	lastRows []string
	wrMark   int
	evMark   int
	live     *liveFrontend // the frontend object the terminal currently holds
	keptLine *te.Line      // a row fetched after the previous step (must not change under the caller)
	keptText string
	keptW    int
	keptY    int
}

// liveFrontend is what the terminal is given: it forwards to the recorder until it has been
// replaced through SetFrontend; a callback that still arrives afterwards is counted.
type liveFrontend struct {
	rec  *recFrontend
	dead bool
}

func (l *liveFrontend) ok() bool {
	if l.dead {
		l.rec.staleCalls++
		return false
	}
	return true
}
func (l *liveFrontend) Bell() {
	if l.ok() {
		l.rec.Bell()
	}
}
func (l *liveFrontend) RegionChanged(r te.Region, cr te.ChangeReason) {
	if l.ok() {
		l.rec.RegionChanged(r, cr)
	}
}
func (l *liveFrontend) ScrollLines(y int) {
	if l.ok() {
		l.rec.ScrollLines(y)
	}
}
func (l *liveFrontend) CursorMoved(x, y int) {
	if l.ok() {
		l.rec.CursorMoved(x, y)
	}
}
func (l *liveFrontend) StyleChanged(st te.Style) {
	if l.ok() {
		l.rec.StyleChanged(st)
	}
}
func (l *liveFrontend) ViewFlagChanged(v te.ViewFlag, value bool) {
	if l.ok() {
		l.rec.ViewFlagChanged(v, value)
	}
}
func (l *liveFrontend) ViewIntChanged(v te.ViewInt, value int) {
	if l.ok() {
		l.rec.ViewIntChanged(v, value)
	}
}
func (l *liveFrontend) ViewStringChanged(v te.ViewString, value string) {
	if l.ok() {
		l.rec.ViewStringChanged(v, value)
	}
}

// swapFrontend replaces the terminal's frontend (SetFrontend) by a new one backed by the same
// recorder; the old one must not be called again.
func (im *impl) swapFrontend() {
	nf := &liveFrontend{rec: im.fe}
	// the new frontend has seen none of the earlier notifications: SetFrontend brings it up to
	// date (cursor, rendition, view state); the screen content it reads for itself
	im.fe.haveCursor, im.fe.haveStyle = false, false
	im.fe.vflags, im.fe.vints, im.fe.vstrs = map[int]bool{1: true}, map[int]int{}, map[int]string{}
	im.term.SetFrontend(nf)
	if im.live != nil {
		im.live.dead = true
	}
	im.live = nf
}

func newImpl(mode int, grid bool, w, h int) (*impl, string) {
	be := &scriptBackend{}
	fe := newRecFrontend()
	tm := te.TextReadModeRune
	if mode == 1 {
		tm = te.TextReadModeGrapheme
	}
	live := &liveFrontend{rec: fe}
	vt := te.VerifNew(live, be, tm, grid)
	im := &impl{be: be, fe: fe, vt: vt, term: vt.Terminal(), gmode: mode == 1, grid: grid, live: live}
	fe.term, fe.vt, fe.gmode = im.term, vt, mode == 1
	pan := im.resize(w, h)
	// events of construction are not part of any observation
	im.evMark = len(fe.events)
	fe.resync(w, h)
	return im, pan
}

func (im *impl) resize(w, h int) (pan string) {
	defer func() {
		if r := recover(); r != nil {
			pan = fmt.Sprint(r)
		}
	}()
	_ = im.term.Resize(w, h)
	// the owner of the frontend initiated this and repaints everything
	im.fe.resync(w, h)
	return ""
}

func (im *impl) consumed() int { return im.be.delivered - im.vt.Buffered() }

// obs renders the canonical observation block (same text as the Lean driver).
type obsBlock struct {
	G, M, A, V, E, W string
	L                string            // rows announced through ScrollLines during the step
	rows             map[string]string // "b y" -> cells (changed rows only, unless full)
	all              map[string]string // every row
	X                string            // framing note (driver only)
}

func scrLine(tag string, s *te.VerifScreen, flags int, stack []int) string {
	st := "-"
	if len(stack) > 0 {
		ss := make([]string, len(stack))
		for i, v := range stack {
			ss[i] = strconv.Itoa(v)
		}
		st = strings.Join(ss, ",")
	}
	return fmt.Sprintf("%s %d %d %d %d %d %d %d %d %d %x.%x.%x %d %s", tag, s.W, s.H, s.CX, s.CY, s.SX, s.SY,
		s.Top, s.Bot, b2i(s.Wrap), s.Style[0], s.Style[1], s.Style[2], flags, st)
}

func (im *impl) observe(full bool) (obsBlock, te.VerifSnap) {
	snap := im.vt.Snap()
	var o obsBlock
	o.G = fmt.Sprintf("G %d %d", im.consumed(), b2i(snap.OnAlt))
	o.M = scrLine("M", &snap.Screens[0], snap.KbdFlags[0], snap.KbdStack[0])
	o.A = scrLine("A", &snap.Screens[1], snap.KbdFlags[1], snap.KbdStack[1])
	var vf strings.Builder
	for _, b := range snap.ViewFlags {
		vf.WriteByte(byte('0' + b2i(b)))
	}
	vi := make([]string, len(snap.ViewInts))
	for i, v := range snap.ViewInts {
		vi[i] = strconv.Itoa(v)
	}
	vs := make([]string, len(snap.ViewStrings))
	for i, v := range snap.ViewStrings {
		vs[i] = hexOrDash([]byte(v))
	}
	o.V = fmt.Sprintf("V %s %s %s", vf.String(), strings.Join(vi, " "), strings.Join(vs, " "))
	var es []string
	scrolled := 0
	for _, e := range im.fe.events[im.evMark:] {
		switch e.kind {
		case "b", "s", "f", "i", "t":
			es = append(es, e.s)
		case "l":
			var k int
			fmt.Sscanf(e.s, "l:%d", &k)
			scrolled += k
		}
	}
	o.L = fmt.Sprintf("L %d", scrolled)
	im.evMark = len(im.fe.events)
	if len(es) == 0 {
		o.E = "E -"
	} else {
		o.E = "E " + strings.Join(es, ",")
	}
	wr := im.be.writtenNow()
	if im.wrMark > len(wr) {
		im.wrMark = len(wr)
	}
	o.W = "W " + hexOrDash(wr[im.wrMark:])
	im.wrMark = len(wr)
	var rows []string
	for b := 0; b < 2; b++ {
		for y := range snap.Screens[b].Rows {
			rows = append(rows, rowString(cellsOfVerif(snap.Screens[b].Rows[y].Cells)))
		}
	}
	o.rows = map[string]string{}
	o.all = map[string]string{}
	hMain := len(snap.Screens[0].Rows)
	for i, r := range rows {
		b, y := 0, i
		if i >= hMain {
			b, y = 1, i-hMain
		}
		o.all[fmt.Sprintf("%d %d", b, y)] = r
		if full || len(im.lastRows) != len(rows) || im.lastRows[i] != r {
			o.rows[fmt.Sprintf("%d %d", b, y)] = r
		}
	}
	im.lastRows = rows
	return o, snap
}

func (o obsBlock) lines() []string {
	out := []string{o.G, o.M, o.A, o.V, o.E, o.W}
	keys := make([]string, 0, len(o.rows))
	for k := range o.rows {
		keys = append(keys, k)
	}
	sort.Slice(keys, func(i, j int) bool {
		var a, b, c, d int
		fmt.Sscanf(keys[i], "%d %d", &a, &b)
		fmt.Sscanf(keys[j], "%d %d", &c, &d)
		if a != c {
			return a < c
		}
		return b < d
	})
	for _, k := range keys {
		out = append(out, "R "+k+" "+o.rows[k])
	}
	return out
}
