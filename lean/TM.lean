import TM.Basic
import TM.Style
import TM.Screen
import TM.Parser
import TM.Term
