import TM.Term
import TM.Keys
import TM.Mouse
import TM.Stream
import TM.Scrollback
import TM.Mirror
import TM.SpanLine
import TM.Reader
import TM.SpanScreen
import TM.SpanTerm
import TM.GridTerm
/-!
# Driver — line-protocol executable running the model in lock-step with the harness.

stdin:
  case <pol:keep|blank> <w> <h>       start a case (prints the initial observation)
  feed <hex>                          append bytes to the unconsumed input
  adv <n>                             consume tokens until exactly `n` bytes are consumed in total
  resize <w> <h>
  end
Every command that changes the state prints one observation block terminated by a line `.`.
-/
open TM

structure WidthTable where
  ranges : Array (Nat × Nat × Nat) := #[]

def WidthTable.lookup (t : WidthTable) (cp : Nat) : Nat := Id.run do
  let mut lo := 0
  let mut hi := t.ranges.size
  while lo < hi do
    let mid := (lo + hi) / 2
    let (a, b, w) := t.ranges[mid]!
    if cp < a then hi := mid
    else if cp > b then lo := mid + 1
    else return w
  return 1

def loadWidths (path : String) : IO WidthTable := do
  let txt ← IO.FS.readFile path
  let mut rs : Array (Nat × Nat × Nat) := #[]
  for line in txt.splitOn "\n" do
    match (line.splitOn " ").filter (· ≠ "") with
    | [a, b, w] => rs := rs.push (a.toNat!, b.toNat!, w.toNat!)
    | _ => pure ()
  return { ranges := rs }

/-! ### canonical printing -/

def hexNat (n : Nat) : String := String.ofList (Nat.toDigits 16 n)

def styStr (s : Style) : String :=
  hexNat s.fg.toNat ++ "." ++ hexNat s.bg.toNat ++ "." ++ hexNat s.ul.toNat

def cellStr (c : Cell) : String :=
  match c.g with
  | .ch t w => hexOfBytes t ++ ":" ++ toString w ++ "/" ++ styStr c.sty
  | .cont => "~/" ++ styStr c.sty

def rleCells : List Cell → List (Nat × Cell) → List (Nat × Cell)
  | [], acc => acc.reverse
  | c :: rest, [] => rleCells rest [(1, c)]
  | c :: rest, (n, d) :: acc => if c = d then rleCells rest ((n + 1, d) :: acc) else rleCells rest ((1, c) :: (n, d) :: acc)

def rowStr (r : Row) : String :=
  " ".intercalate ((rleCells r []).map fun (n, c) => toString n ++ "*" ++ cellStr c)

def natsStr (l : List Nat) : String := if l.isEmpty then "-" else ",".intercalate (l.map toString)

/-! ### parsing rows (the harness sends real screen rows for the `mirror` command) -/

def natOfHex (s : String) : Option Nat :=
  s.toList.foldl (fun acc c => acc.bind fun a => (hexVal c).map fun v => a * 16 + v) (some 0)

def styOfStr (s : String) : Option Style :=
  match s.splitOn "." with
  | [a, b, c] => do
    let x ← natOfHex a; let y ← natOfHex b; let z ← natOfHex c
    pure ⟨BitVec.ofNat 32 x, BitVec.ofNat 32 y, BitVec.ofNat 32 z⟩
  | _ => none

def cellOfStr (s : String) : Option Cell :=
  match s.splitOn "/" with
  | [g, st] => do
    let sty ← styOfStr st
    if g = "~" then pure ⟨.cont, sty⟩
    else match g.splitOn ":" with
      | [hx, w] => do let b ← bytesOfHex hx; pure ⟨.ch b w.toNat!, sty⟩
      | _ => none
  | _ => none

/-- inverse of `rowStr`; runs are separated by `_` on the command line -/
def rowOfStr (s : String) : Option Row :=
  if s = "-" then some [] else
  (s.splitOn "_").foldl (fun acc part => acc.bind fun r =>
    match part.splitOn "*" with
    | [n, c] => (cellOfStr c).map fun cell => r ++ List.replicate n.toNat! cell
    | _ => none) (some [])


/-! ### span-buffer rows (`sl` command): runs as `sty;hex|-;rune;width`, joined by `_` -/

def spanStr (sp : Span) : String :=
  styStr sp.sty ++ ";" ++ hexOrDash sp.text ++ ";" ++ toString sp.rune ++ ";" ++ toString sp.width

def spansStr (l : List Span) : String := if l.isEmpty then "-" else "_".intercalate (l.map spanStr)

def spanOfStr (s : String) : Option Span :=
  match s.splitOn ";" with
  | [st, hx, r, w] => do
    let sty ← styOfStr st
    let b ← bytesOfHex hx
    pure ⟨sty, b, r.toNat!, w.toNat!⟩
  | _ => none

def spansOfStr (s : String) : List Span :=
  if s = "-" then [] else (s.splitOn "_").filterMap spanOfStr

def b01 (b : Bool) : String := if b then "1" else "0"

/-- one row-level operation of the span buffer on a row sent by the harness; prints
    `runs cached shift startFill endFill A B idx off okBefore okAfter cells text` -/
def slOp (cw : Nat → Nat) (op : String) (W : Nat) (cur : Style) (l : SLine) (x n : Nat) (ins : Span) (keep : Bool) : String :=
  let okB := lineWF cw W l
  let none' : Int := -1
  let (l', sh, sf, ef, a, b, idx, off, txt) : SLine × Nat × Nat × Nat × Int × Int × Nat × Nat × Bytes :=
    match op with
    | "rr" => let (r, i) := replaceRangeWide cw l x n ins keep; (r, i.shift, i.startFill, i.endFill, none', none', 0, 0, [])
    | "trunc" => (truncateLine cw l x cur, 0, 0, 0, none', none', 0, 0, [])
    | "resize" => (resizeLine cw l x cur, 0, 0, 0, none', none', 0, 0, [])
    | "find" => let (i, o) := findSpanAtX l x; (l, 0, 0, 0, none', none', i, o, [])
    | "write" =>
      if ins.width = 0 then (l, 0, 0, 0, none', none', 0, 0, []) else
      let (r, s, a, b) := writeSpanLine cw W cur l x ins keep; (r, s, 0, 0, (a : Int), (b : Int), 0, 0, [])
    | "dch" =>
      if n = 0 ∨ x ≥ W then (l, 0, 0, 0, none', none', 0, 0, []) else
      let (r, a) := deleteCharsLine cw W cur l x n; (r, 0, 0, 0, (a : Int), (W : Int), 0, 0, [])
    | "erase" =>
      -- `Region.Clamp` to [0, W]
      let a := min x W
      let b := max (min n W) a
      if b ≤ a then (l, 0, 0, 0, none', none', 0, 0, []) else
      let (r, _, p, q) := writeSpanLine cw W cur l a (blankSpan cur (b - a)) false
      (r, 0, 0, 0, (p : Int), (q : Int), 0, 0, [])
    | "text" => (l, 0, 0, 0, none', none', 0, 0, lineText W l)
    | "ansi" => (l, 0, 0, 0, none', none', 0, 0, lineANSI l)
    | "styled" =>
      -- `n = 4294967295` stands for a negative width ("to the end of the row")
      let (sp, w) := styledLine cw W l x (if n = 4294967295 then none else some n)
      (⟨sp, w⟩, 0, 0, 0, none', none', 0, 0, [])
    | _ => (l, 0, 0, 0, none', none', 0, 0, [])
  let cells := lineCells cw l'
  s!"{spansStr l'.spans} {l'.width} {sh} {sf} {ef} {a} {b} {idx} {off} {b01 okB} {b01 (lineWF cw W l')} {if cells.isEmpty then "-" else (rowStr cells).replace " " "_"} {hexOrDash txt}"

def scrLine (tag : String) (s : Scr) (k : Kbd) : String :=
  s!"{tag} {s.w} {s.h} {s.cx} {s.cy} {s.sx} {s.sy} {s.top} {s.bot} {if s.wrap then 1 else 0} {styStr s.sty} {k.flags} {natsStr k.stack}"

def evStr : Ev → Option String
  | .bell => some "b"
  | .style s => some ("s:" ++ styStr s)
  | .vflag i v => some s!"f:{i}:{if v then 1 else 0}"
  | .vint i v => some s!"i:{i}:{v}"
  | .vstr i s => some s!"t:{i}:{hexOrDash s}"
  | _ => none

def replyBytes (evs : List Ev) : Bytes :=
  evs.flatMap fun e => match e with | .reply b => b | _ => []

def tokTag : Tok → String
  | .text _ _ => "t"
  | .ctl b => s!"c{b.toNat}"
  | .esc inter fin => if inter.isEmpty then s!"e{fin.toNat}" else s!"ei{fin.toNat}"
  | .csi pfx _ clean fin => s!"[{pfx.toNat}.{fin.toNat}" ++ (if clean then "" else "!")
  | .osc num _ wf => s!"]{num}" ++ (if wf then "" else "!")
  | .dcs => "P"

structure DState where
  t : Term
  pending : Bytes := []
  consumed : Nat := 0
  lastRows : Array String := #[]     -- last printed rows: main rows then alt rows
  rbuf : RBuf := RBuf.init
  rdr : Rdr := Rdr.init []
  st : Option STerm := none            -- the run-level terminal (span policy, rune mode), in lock-step
  lastS : Array String := #[]         -- last printed run-level rows
  stepToks : List (Tok × Nat) := []   -- the tokens of the current step
  gt : Option GTerm := none            -- the array-level grid terminal (grid policy, rune mode), in lock-step
  lastQ : Array String := #[]
  off : Nat := 0                     -- rows announced through ScrollLines since the last observation


/-! ### the run-level terminal in lock-step (`S` lines: the stored runs of every row) -/

def srowsOf (t : STerm) : Array String :=
  ((t.main.lines ++ t.alt.lines).map fun l => toString l.width ++ ":" ++ spansStr l.spans ++ " " ++ hexOrDash (lineANSI l)).toArray

/-- the tokens of one parser step applied to the run-level terminal: a stretch of text is ONE run
    handed to `writeString` (as `ptyReadOne` does), every other token goes through `STerm.apply` -/
def applyStepS (cw : Nat → Nat) (st : STerm) (raw : Bytes) (toks : List (Tok × Nat)) : STerm :=
  let flush (st : STerm) (run : Bytes) (rw : Nat) : STerm :=
    if run.isEmpty then st else st.setScr (SScr.writeString cw (run.length + 1) st.scr run rw)
  let rec go (st : STerm) (raw : Bytes) (run : Bytes) (rw : Nat) : List (Tok × Nat) → STerm
    | [] => flush st run rw
    | (.text _ cp, n) :: rest => go st (raw.drop n) (run ++ raw.take n) (rw + max (cw cp) 1) rest
    | (tk, n) :: rest =>
      let st := flush st run rw
      go (st.apply cw tk).1 (raw.drop n) [] 0 rest
  go st raw [] 0 toks


/-! ### the array-level grid terminal in lock-step (`Q` lines: the five arrays of every cell) -/

def gcellStr (c : GCell) : String :=
  toString c.ch ++ "," ++ hexOrDash c.text ++ "," ++ toString c.width ++ "," ++ b01 c.cont ++ "," ++ styStr c.sty

/-- `StyledLine(x, w, y)` of a grid row for a fixed family of sub-ranges (the harness asks the
    real terminal for the same ones): runs as `sty;hex|-;rune;width` joined by `+`, ranges by `/` -/
def gSubRanges (r : GRow) : String :=
  let W := r.length
  let rs : List (Nat × Nat) := [(0, W), (1, W - 1), (1, W - 2), (2, 1), (2, 2), (W / 2, W - W / 2), (W / 3, W / 2)]
  "/".intercalate (rs.map fun (x, w) =>
    if x + w > W ∨ w = 0 then "x" else
    let sp := (r.styledLine x (some w)).1
    if sp.isEmpty then "-" else "+".intercalate (sp.map fun s =>
      styStr s.span.sty ++ ";" ++ hexOrDash s.span.text ++ ";" ++ toString s.span.rune ++ ";" ++ toString s.span.width))

def qrowsOf (t : GTerm) : Array String :=
  ((t.main.rows ++ t.alt.rows).map fun r =>
    (if r.isEmpty then "-" else "_".intercalate (r.map gcellStr)) ++ " " ++ hexOrDash r.ansi ++ " " ++ gSubRanges r).toArray

def rowsOf (t : Term) : Array String :=
  ((t.main.grid.map rowStr) ++ (t.alt.grid.map rowStr)).toArray

def printObs (d : DState) (evs : List Ev) (full : Bool) : IO DState := do
  let t := d.t
  let out ← IO.getStdout
  out.putStrLn s!"G {d.consumed} {if t.onAlt then 1 else 0}"
  out.putStrLn (scrLine "M" t.main t.kmain)
  out.putStrLn (scrLine "A" t.alt t.kalt)
  let vf := String.ofList (t.vflags.map fun b => if b then '1' else '0')
  let vi := " ".intercalate (t.vints.map toString)
  let vs := " ".intercalate (t.vstrs.map hexOrDash)
  out.putStrLn s!"V {vf} {vi} {vs}"
  let es := evs.filterMap evStr
  out.putStrLn ("E " ++ (if es.isEmpty then "-" else ",".intercalate es))
  out.putStrLn ("W " ++ hexOrDash (replyBytes evs))
  out.putStrLn s!"L {d.off}"
  let rows := rowsOf t
  let hMain := t.main.grid.length
  for i in [0:rows.size] do
    if full || d.lastRows.size ≠ rows.size || d.lastRows[i]! ≠ rows[i]! then
      let (b, y) := if i < hMain then (0, i) else (1, i - hMain)
      out.putStrLn s!"R {b} {y} {rows[i]!}"
  let srows := match d.st with | some st => srowsOf st | none => #[]
  for i in [0:srows.size] do
    if full || d.lastS.size ≠ srows.size || d.lastS[i]! ≠ srows[i]! then
      let hM := match d.st with | some st => st.main.lines.length | none => 0
      let (b, y) := if i < hM then (0, i) else (1, i - hM)
      out.putStrLn s!"S {b} {y} {srows[i]!}"
  let qrows := match d.gt with | some gt => qrowsOf gt | none => #[]
  for i in [0:qrows.size] do
    if full || d.lastQ.size ≠ qrows.size || d.lastQ[i]! ≠ qrows[i]! then
      let hM := match d.gt with | some gt => gt.main.rows.length | none => 0
      let (b, y) := if i < hM then (0, i) else (1, i - hM)
      out.putStrLn s!"Q {b} {y} {qrows[i]!}"
  out.putStrLn "."
  out.flush
  return { d with lastRows := rows, off := 0, lastS := srows, lastQ := qrows }

/-- consume tokens until `consumed = target`; stops early when input is incomplete -/
partial def advance (wt : WidthTable) (d : DState) (target : Nat) (evs : List Ev) (tags : List String) :
    DState × List Ev × List String × Bool :=
  if d.consumed ≥ target then (d, evs, tags, d.consumed = target)
  else
    match next d.pending with
    | .need => (d, evs, tags, false)
    | .tok tk n =>
      let (t', e) := d.t.apply wt.lookup tk
      -- a text write on the second cell of a wide character under the `keep` policy
      let sc := d.t.scr
      let k : Bool := match tk with
        | .text _ cp =>
          -- where the character will land (the edge handling of `Scr.put`)
          let w0 := wt.lookup cp
          let w := if max w0 1 > sc.w then 1 else max w0 1
          let s1 := if sc.cx + w > sc.w then
                      (if sc.wrap then ({ sc with cx := 0 } : Scr).lineDown else { sc with cx := sc.w - w })
                    else sc
          d.t.pol == .keep && contAt (s1.row s1.cy) s1.cx
        | _ => false
      -- a character whose early or late wrap scrolls the region (whatever its top margin)
      let sS : Bool := match tk with
        | .text _ cp => ({ sc with top := 0 } : Scr).putOff d.t.pol (wt.lookup cp) > 0
        | _ => false
      advance wt { d with t := t', pending := d.pending.drop n, consumed := d.consumed + n, stepToks := d.stepToks ++ [(tk, n)],
                          off := d.off + d.t.scrollOff wt.lookup tk } target (evs ++ e)
        (tags ++ [if k then "tK" else if sS then "tS" else tokTag tk])

/-- after a step: bring the run-level terminal up to date with the tokens consumed from `raw` -/
def stepS (wt : WidthTable) (d0 d1 : DState) : DState :=
  let gt' := d1.gt.map fun gt => d1.stepToks.foldl (fun g (tk, _) => (g.apply wt.lookup tk).1) gt
  match d1.st with
  | some st => { d1 with st := some (applyStepS wt.lookup st d0.pending d1.stepToks), gt := gt', stepToks := [] }
  | none => { d1 with gt := gt', stepToks := [] }

partial def loop (wt : WidthTable) (h : IO.FS.Stream) (d : DState) : IO Unit := do
  let line ← h.getLine
  if line.isEmpty then return ()
  let ws := (line.trimAscii.toString.splitOn " ").filter (· ≠ "")
  match ws with
  | ["case", pol, w, hh] =>
    let p := if pol = "blank" then WidePolicy.blank else WidePolicy.keep
    let d' : DState := { t := Term.init p w.toNat! hh.toNat!,
                         -- the real terminal is built 80×14 and then resized to the size of the case
                         st := if pol = "blank" then none else some ((STerm.init 80 14).resize wt.lookup w.toNat! hh.toNat!).1,
                         gt := if pol = "blank" then some ((GTerm.init 80 14).resize w.toNat! hh.toNat!).1 else none }
    let d' ← printObs d' [] true
    loop wt h d'
  | ["feed", hx] =>
    match bytesOfHex hx with
    | some bs => loop wt h { d with pending := d.pending ++ bs }
    | none => IO.println "bad-hex"; loop wt h d
  | ["adv", n, "eof"] =>
    -- the backend is exhausted: the step may have read an incomplete control sequence to the end
    let (d1, evs, tags, ok) := advance wt { d with stepToks := [] } n.toNat! [] []
    let d1 := stepS wt d d1
    let (d', ok) :=
      if ok then (d1, true) else
        match d1.pending with
        | b :: _ =>
          if !isPrintableByte b && d1.consumed + d1.pending.length = n.toNat! then
            ({ d1 with consumed := n.toNat!, pending := [] }, true)
          else (d1, false)
        | [] => (d1, false)
    if !ok then
      (← IO.getStdout).putStrLn s!"X framing consumed={d'.consumed} target={n}"
    (← IO.getStdout).putStrLn ("T " ++ (if tags.isEmpty then "-" else ",".intercalate tags) ++ (if d'.consumed ≠ d1.consumed then ",eof" else ""))
    let d' ← printObs d' evs false
    loop wt h d'
  | ["adv", n] =>
    let (d', evs, tags, ok) := advance wt { d with stepToks := [] } n.toNat! [] []
    let d' := stepS wt d d'
    if !ok then
      (← IO.getStdout).putStrLn s!"X framing consumed={d'.consumed} target={n}"
    (← IO.getStdout).putStrLn ("T " ++ (if tags.isEmpty then "-" else ",".intercalate tags))
    let d' ← printObs d' evs false
    loop wt h d'
  | ["resize", w, hh] =>
    let (t', evs) := d.t.resize w.toNat! hh.toNat!
    let st' := d.st.map fun st => (st.resize wt.lookup w.toNat! hh.toNat!).1
    let gt' := d.gt.map fun gt => (gt.resize w.toNat! hh.toNat!).1
    let d' ← printObs { d with t := t', st := st', gt := gt' } evs false
    loop wt h d'
  | ["eof"] =>
    -- the backend reported EOF: an incomplete control sequence has been read to the end and is
    -- dropped; an incomplete character stays unconsumed
    -- whatever is complete in the received bytes is interpreted first (an implementation that
    -- reports the end of the stream with complete sequences unprocessed has lost them)
    let (d0, evs0, _, _) := advance wt { d with stepToks := [] } (d.consumed + d.pending.length) [] []
    let d0 := stepS wt d d0
    let d' := match d0.pending with
      | b :: _ => if isPrintableByte b then d0 else { d0 with consumed := d0.consumed + d0.pending.length, pending := [] }
      | [] => d0
    (← IO.getStdout).putStrLn "T eof"
    let d' ← printObs d' evs0 false
    loop wt h d'
  | ["key", flags, mok, app, code, rune, md, event, shifted, base, text] =>
    let tx := if text = "-" then [] else (text.splitOn ":").map String.toNat!
    let ev : KeyEv := { code := code.toNat!, rune := rune.toNat!, mod := md.toNat!, event := event.toNat!,
                        shifted := shifted.toNat!, base := base.toNat!, text := tx }
    let out := encodeKey flags.toNat! (mok.toInt!) (app = "1") ev
    let o ← IO.getStdout
    o.putStrLn (hexOrDash out); o.flush
    loop wt h d
  | ["mouse", mode, enc, btn, press, mods, x, y] =>
    let e : MouseEv := { btn := btn.toNat!, press := press = "1", mods := mods.toNat!, x := x.toNat!, y := y.toNat! }
    let o ← IO.getStdout
    (match mouseReport mode.toInt! enc.toInt! e with
     | some b => o.putStrLn (hexOfBytes b)
     | none => o.putStrLn "none")
    o.flush
    loop wt h d
  | ["write", hx, failAt, sizes] =>
    let b := (bytesOfHex hx).getD []
    let sz : List Nat := if sizes = "-" then [] else (sizes.splitOn ",").map String.toNat!
    let fa := failAt.toNat!
    -- call k (1-based) fails when k = failAt; otherwise accepts sizes[k-1] bytes (everything beyond the script)
    let script : WScript := (List.range (max sz.length fa)).map fun i =>
      if i + 1 = fa then none else some (sz.getD i 1000000000)
    let (n, e, del) := terminalWrite b script
    let es := match e with | .nil => "nil" | .injected => "injected" | .shortWrite => "short write"
    let o ← IO.getStdout
    o.putStrLn s!"{n} {es} {hexOrDash del}"; o.flush
    loop wt h d
  | ["writep", hx, calls] =>
    -- calls: `k` (accepts k bytes) or `k!` (accepts k bytes and returns an error), comma separated
    let b := (bytesOfHex hx).getD []
    let script : WScriptP := if calls = "-" then [] else (calls.splitOn ",").map fun c =>
      if c.endsWith "!" then ⟨(c.dropEnd 1).toString.toNat!, true⟩ else ⟨c.toNat!, false⟩
    let (n, e, del) := terminalWriteP b script
    let es := match e with | .nil => "nil" | .injected => "injected" | .shortWrite => "short write"
    let o ← IO.getStdout
    o.putStrLn s!"{n} {es} {hexOrDash del}"; o.flush
    loop wt h d
  | ["rbuf", "init"] => loop wt h { d with rbuf := RBuf.init }
  | ["rbuf", "fill", hx] =>
    let r := d.rbuf.fill ((bytesOfHex hx).getD [])
    let o ← IO.getStdout
    o.putStrLn s!"{r.start} {r.stop} {r.data.length} {hexOrDash r.view}"; o.flush
    loop wt h { d with rbuf := r }
  | ["rbuf", "consume", n] =>
    let r := d.rbuf.consume n.toNat!
    let o ← IO.getStdout
    o.putStrLn s!"{r.start} {r.stop} {r.data.length} {hexOrDash r.view}"; o.flush
    loop wt h { d with rbuf := r }
  | ["mirror", w, hh, x, y, x2, y2, cx, cy, showCur, focused, attached, op, rows] =>
    -- the model of `TTYFrontend` applied to the real inner screen sent by the harness:
    -- `op` = attach | region:x:y:x2:y2 | cursor | detach
    let grid := (rows.splitOn "|").map fun r => (rowOfStr r).getD []
    let sc : Scr := { w := w.toNat!, h := hh.toNat!, grid := grid, cx := cx.toNat!, cy := cy.toNat!,
                      sx := 0, sy := 0, top := 0, bot := hh.toNat! - 1, wrap := false, sty := Style.default }
    let reg : MRegion := ⟨x.toNat!, y.toNat!, x2.toNat!, y2.toNat!⟩
    let m : Mirror := { attached := attached = "1", region := reg, cx := cx.toNat!, cy := cy.toNat!,
                        showCur := showCur = "1", focused := focused = "1" }
    let out : Bytes := match op.splitOn ":" with
      | ["attach"] => (m.step sc (.attach reg)).2
      | ["region", a, b, c, e] => (m.step sc (.regionChanged ⟨a.toNat!, b.toNat!, c.toNat!, e.toNat!⟩)).2
      | ["cursor"] => (m.step sc (.cursorMoved cx.toNat! cy.toNat!)).2
      | ["detach"] => (m.step sc .detach).2
      | _ => []
    let o ← IO.getStdout
    o.putStrLn (hexOrDash out); o.flush
    loop wt h d
  | ["sl", op, w, cur, cached, spans, x, n, ins, keep] =>
    let l : SLine := ⟨spansOfStr spans, cached.toNat!⟩
    let o ← IO.getStdout
    o.putStrLn (slOp wt.lookup op w.toNat! ((styOfStr cur).getD Style.default) l x.toNat! n.toNat!
      ((spanOfStr ins).getD Span.empty) (keep = "1"))
    o.flush
    loop wt h d
  | ["fixutf8", hx] =>
    let o ← IO.getStdout
    o.putStrLn (hexOrDash (replaceInvalidUTF8 ((bytesOfHex hx).getD []))); o.flush
    loop wt h d
  | ["fit", hx, limit] =>
    let o ← IO.getStdout
    (match splitRunToFit wt.lookup ((bytesOfHex hx).getD []) limit.toNat! with
     | some (hd, hw, rs, rw) => o.putStrLn s!"{hexOrDash hd} {hw} {hexOrDash rs} {rw}"
     | none => o.putStrLn "none")
    o.flush
    loop wt h d
  | ["rdr", "init", script] =>
    -- script: comma separated reads, `hex` or `-` (no data), with `!` appended when the read returns an error
    let entries : List (Bytes × Bool) := if script = "none" then [] else (script.splitOn ",").map fun e =>
      let fails := e.endsWith "!"
      let hx := if fails then (e.dropEnd 1).toString else e
      ((bytesOfHex hx).getD [], fails)
    loop wt h { d with rdr := Rdr.init entries }
  | ["rdr", "printable", maxW] =>
    let (r, out) := d.rdr.readPrintable wt.lookup maxW.toNat!
    let o ← IO.getStdout
    o.putStrLn s!"{hexOrDash out.text} {out.width} {b01 out.err} {r.buf.start} {r.buf.stop} {r.buf.data.length}"; o.flush
    loop wt h { d with rdr := r }
  | ["rdr", "byte"] =>
    let (r, b) := d.rdr.readByte
    let o ← IO.getStdout
    o.putStrLn s!"{match b with | some x => toString x.toNat | none => "-"} {r.buf.start} {r.buf.stop} {r.buf.data.length}"; o.flush
    loop wt h { d with rdr := r }
  | ["ss", w, hh, cx, cy, sx, sy, top, bot, wrap, sty, rows, op, a, b] =>
    -- one screen-level operation of the span buffer on a real screen sent by the harness:
    -- rows `cached:runs|…`; op = put <hex> <cp> | lf | ind | ri | su n | sd n | il n | dl n | el p | ed p | ech n | dch n | resize w h
    let lines : List SLine := if rows = "-" then [] else (rows.splitOn "|").map fun r =>
      match r.splitOn ":" with
      | [c, rs] => ⟨spansOfStr rs, c.toNat!⟩
      | _ => ⟨[], 0⟩
    let s : SScr := { w := w.toNat!, h := hh.toNat!, lines := lines, cx := cx.toNat!, cy := cy.toNat!, sx := sx.toNat!, sy := sy.toNat!,
                      top := top.toNat!, bot := bot.toNat!, wrap := wrap = "1", sty := (styOfStr sty).getD Style.default }
    let sop : Option SOp := match op with
      | "put" => (bytesOfHex a).map fun t => SOp.put t b.toNat!
      | "lf" => some .lf | "ind" => some .ind | "ri" => some .ri
      | "su" => some (.su a.toNat!) | "sd" => some (.sd a.toNat!) | "il" => some (.il a.toNat!) | "dl" => some (.dl a.toNat!)
      | "el" => some (.el a.toNat!) | "ed" => some (.ed a.toNat!) | "ech" => some (.ech a.toNat!) | "dch" => some (.dch a.toNat!)
      | "resize" => some (.resize a.toNat! b.toNat!)
      | _ => none
    let o ← IO.getStdout
    if op = "text" then
      -- a stretch of printable text arriving in one read: runs cut by the reader, written by `writeString`
      let s' := s.feedText wt.lookup ((bytesOfHex a).getD [])
      let rowsOut := "|".intercalate (s'.lines.map fun l => toString l.width ++ ":" ++ spansStr l.spans)
      o.putStrLn s!"{s'.w} {s'.h} {s'.cx} {s'.cy} {s'.sx} {s'.sy} {s'.top} {s'.bot} {b01 s'.wrap} {b01 (s.inv wt.lookup)} {b01 (s'.inv wt.lookup)} 1 {if rowsOut.isEmpty then "-" else rowsOut}"
      o.flush
      loop wt h d
    else
    (match sop with
     | none => o.putStrLn "bad-op"
     | some sp =>
       let s' := s.apply wt.lookup sp
       let rowsOut := "|".intercalate (s'.lines.map fun l => toString l.width ++ ":" ++ spansStr l.spans)
       -- the refinement, evaluated: the cells of the result = the cell-level operation on the cells
       let commutes := decide ((s'.abs wt.lookup) = (s.abs wt.lookup).applyS wt.lookup sp)
       o.putStrLn s!"{s'.w} {s'.h} {s'.cx} {s'.cy} {s'.sx} {s'.sy} {s'.top} {s'.bot} {b01 s'.wrap} {b01 (s.inv wt.lookup)} {b01 (s'.inv wt.lookup)} {b01 commutes} {if rowsOut.isEmpty then "-" else rowsOut}")
    o.flush
    loop wt h d
  | ["ansi", fg, bg, ul] =>
    let st : Style := ⟨BitVec.ofNat 32 fg.toNat!, BitVec.ofNat 32 bg.toNat!, BitVec.ofNat 32 ul.toNat!⟩
    let o ← IO.getStdout
    o.putStrLn (hexOfBytes st.ansiEscape); o.flush
    loop wt h d
  | ["grun", toks] =>
    -- grapheme mode: one printable run as tokenised by the harness (uniseg): `hex:width:merge,…`.
    -- Every cluster is written with `Scr.put` (merge fragments with `Scr.merge`), exactly the
    -- functions the rune-mode tokens use.
    let parts := (toks.splitOn ",").filterMap fun t =>
      match t.splitOn ":" with
      | [hx, w, m] => (bytesOfHex hx).map fun b => (b, w.toNat!, m == "1", b)
      | [hx, w, m, st] => (bytesOfHex hx).bind fun b => (bytesOfHex st).map fun sb => (b, w.toNat!, m == "1", sb)
      | _ => none
    let allBytes := parts.flatMap fun (b, _, _, _) => b
    if d.pending.take allBytes.length ≠ allBytes then
      (← IO.getStdout).putStrLn s!"X framing grapheme run does not match the pending input consumed={d.consumed}"
    let mut t := d.t
    let mut tags : List String := []
    let mut off := d.off
    for (_, w, m, b) in parts do
      let sc := t.scr
      if m then
        t := t.setScr (sc.merge b)
        tags := tags ++ ["tm"]
      else
        let w1 := if max w 1 > sc.w then 1 else max w 1
        let s1 := if sc.cx + w1 > sc.w then
                    (if sc.wrap then ({ sc with cx := 0 } : Scr).lineDown else { sc with cx := sc.w - w1 })
                  else sc
        let k := t.pol == .keep && contAt (s1.row s1.cy) s1.cx
        if !t.onAlt then off := off + sc.putOff t.pol w
        t := t.setScr (sc.put t.pol b w)
        let sS : Bool := ({ sc with top := 0 } : Scr).putOff t.pol w > 0
        tags := tags ++ [if k then "tK" else if sS then "tS" else "t"]
    (← IO.getStdout).putStrLn ("T " ++ ",".intercalate tags)
    let d' ← printObs { d with t := t, off := off, st := none, gt := none, pending := d.pending.drop allBytes.length, consumed := d.consumed + allBytes.length } [] false
    loop wt h d'
  | ["end"] => loop wt h d
  | [] => loop wt h d
  | _ => IO.println "bad-op"; (← IO.getStdout).flush; loop wt h d

def main (args : List String) : IO Unit := do
  let wt ← match args with
    | p :: _ => loadWidths p
    | [] => pure {}
  loop wt (← IO.getStdin) { t := Term.init .keep 80 24 }
