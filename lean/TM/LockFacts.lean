import TM.Lock
/-!
# TM.LockFacts — the lock-relevant structure of the terminal's entry points, written by hand
from `terminal.go`, `escapes.go`, `keys.go`, `tty_frontend.go`, `backend.go` (one `Prog` per
function; calls inlined). This abstraction is NOT regenerated from the source: it is tied to
the code only by the dynamic checks of C15 (lock probes inside every callback, race detector,
lock probes while the loop waits). Core-only.
-/
namespace TM.Lock
open Act Prog

def a (x : Act) : Prog := .atom x

/-- body of a screen mutator: touches buffer state and notifies the frontend, any number of times -/
def mutate : Prog := .star (.alt [a access, a callback])

/-- `t.WithLock(func(){ body })` -/
def withLock (body : Prog) : Prog := .seq [a lock, body, a unlock]

/-- `lockReleasingReader.ReadByte`: a buffered byte is taken directly, otherwise the lock is
    given up around the read -/
def lrReadByte : Prog := .alt [a «local», .seq [a unlock, a blockRead, a lock]]

/-- `handleCommand` and the CSI/OSC/DCS handlers: read the whole sequence (giving up the lock
    when they have to wait), then act; replies go to the backend (`local`) -/
def handleCommand : Prog := .seq [.star lrReadByte, .star (.alt [a access, a callback, a «local»])]

/-- `ptyReadOne` -/
def ptyReadOne : Prog :=
  .seq [
    withLock (a access),                         -- geometry for maxWidth
    a blockRead,                                 -- ReadPrintableBytes / ReadPrintableTokens
    .alt [
      withLock mutate,                           -- printable run: writeString / writeTokens
      .seq [ a blockRead,                        -- ReadByte
             .alt [ a «local»,                   -- ignored control byte
                    withLock mutate,             -- BEL, BS, HT, LF, FF, CR, DEL
                    withLock handleCommand ] ] ] ]   -- ESC

def ptyReadLoop : Prog := .star ptyReadOne

def resize : Prog := .seq [withLock mutate, a «local»]             -- setSize ×2, announce; backend.SetSize
def setFrontend : Prog := withLock (.star (a access))
def sendKey : Prog := .seq [withLock (.star (a access)), a «local»]        -- encodeKey; Write
def sendMouseRaw : Prog := .seq [withLock (.star (a access)), a «local»]   -- modes; Write
def write : Prog := a «local»                                               -- backend only
def withLockReader : Prog := withLock (.star (a access))                    -- Line/ANSILine/… under WithLock
def setTee : Prog := a «local»                                              -- TeeBackend has its own mutex

/-- read accessors documented "caller must hold the lock", and what a callback may do -/
def lockedAccessor : Prog := .star (a access)

def entryPoints : List Prog :=
  [ptyReadLoop, resize, setFrontend, sendKey, sendMouseRaw, write, withLockReader, setTee]

end TM.Lock
