import TM.Basic
/-!
# TM.Mouse — `SendMouseRaw` of `terminal.go`: tracking-mode filter and the three report
encodings (X10, UTF-8 extended, SGR), plus independent decoders used by the C13 theorems.
Core-only, executable.
-/
namespace TM

structure MouseEv where
  btn : Nat          -- 0,1,2 = buttons 1-3, 3 = none / release marker
  press : Bool
  mods : Nat         -- flag bits: 4 shift, 8 meta, 16 control, 32 motion, 64 wheel
  x : Nat            -- 1-based
  y : Nat
deriving DecidableEq, Repr

def mMotion : Nat := 32

/-- tracking modes: 0 none, 1 press (?9), 2 press/release (?1000), 3 button-motion (?1002),
    4 any-motion (?1003). `true` = the event is reported. -/
def mouseFilter (mode : Int) (e : MouseEv) : Bool :=
  if mode = 0 then false
  else if mode = 1 then e.press && (e.mods &&& mMotion == 0)
  else if mode = 2 then e.mods &&& mMotion == 0
  else if mode = 3 then !((e.mods &&& mMotion != 0) && (e.btn % 4 == 3))
  else true

def btnByte (e : MouseEv) : Nat := (e.btn % 4) ||| e.mods

def clampX10 (v : Nat) : Nat := if 32 + v > 255 then 223 else v

/-- encodings: 0 X10, 1 UTF-8 (?1005/?1015), 2 SGR (?1006) -/
def mouseEncode (enc : Int) (e : MouseEv) : Bytes :=
  if enc = 0 then
    let b := if e.press then btnByte e else btnByte e ||| 3
    [0x1b, 0x5b, 0x4d, UInt8.ofNat (32 + b), UInt8.ofNat (32 + clampX10 e.x), UInt8.ofNat (32 + clampX10 e.y)]
  else if enc = 1 then
    let b := if e.press then btnByte e else btnByte e ||| 3
    [0x1b, 0x5b, 0x4d] ++ encodeRune (32 + b) ++ encodeRune (32 + e.x) ++ encodeRune (32 + e.y)
  else
    [0x1b, 0x5b, 0x3c] ++ itoa (btnByte e) ++ [0x3b] ++ itoa e.x ++ [0x3b] ++ itoa e.y ++
      [if e.press then 0x4d else 0x6d]

/-- what `SendMouseRaw` writes: nothing, or exactly one report -/
def mouseReport (mode enc : Int) (e : MouseEv) : Option Bytes :=
  if mouseFilter mode e then some (mouseEncode enc e) else none

/-! ### decoders (written from the xterm protocol, independent of the encoder) -/

structure MouseDecoded where
  cb : Nat           -- button byte: low two bits button (3 = release in X10/UTF-8), flag bits above
  release : Bool     -- SGR: final byte `m`
  x : Nat
  y : Nat
deriving DecidableEq, Repr

def decodeX10 : Bytes → Option MouseDecoded
  | [0x1b, 0x5b, 0x4d, cb, cx, cy] =>
    if cb.toNat ≥ 32 ∧ cx.toNat ≥ 32 ∧ cy.toNat ≥ 32 then
      some { cb := cb.toNat - 32, release := (cb.toNat - 32) % 4 = 3, x := cx.toNat - 32, y := cy.toNat - 32 }
    else none
  | _ => none

/-- three UTF-8 characters after `ESC [ M` -/
def decodeUTF8 : Bytes → Option MouseDecoded
  | 0x1b :: 0x5b :: 0x4d :: rest =>
    let (c1, n1) := decodeRune rest
    let r1 := rest.drop n1
    let (c2, n2) := decodeRune r1
    let r2 := r1.drop n2
    let (c3, n3) := decodeRune r2
    if n1 > 0 ∧ n2 > 0 ∧ n3 > 0 ∧ r2.drop n3 = [] ∧ c1 ≥ 32 ∧ c2 ≥ 32 ∧ c3 ≥ 32 then
      some { cb := c1 - 32, release := (c1 - 32) % 4 = 3, x := c2 - 32, y := c3 - 32 }
    else none
  | _ => none

def takeDigits : Bytes → Bytes × Bytes
  | [] => ([], [])
  | b :: rest => if isDigit b then let (d, r) := takeDigits rest; (b :: d, r) else ([], b :: rest)

def digitsVal (ds : Bytes) : Nat := ds.foldl (fun acc d => acc * 10 + (d.toNat - 48)) 0

/-- `ESC [ < Cb ; x ; y (M|m)` -/
def decodeSGR : Bytes → Option MouseDecoded
  | 0x1b :: 0x5b :: 0x3c :: rest =>
    let (d1, r1) := takeDigits rest
    match r1 with
    | 0x3b :: r1' =>
      let (d2, r2) := takeDigits r1'
      match r2 with
      | 0x3b :: r2' =>
        let (d3, r3) := takeDigits r2'
        if d1 ≠ [] ∧ d2 ≠ [] ∧ d3 ≠ [] then
          match r3 with
          | [0x4d] => some { cb := digitsVal d1, release := false, x := digitsVal d2, y := digitsVal d3 }
          | [0x6d] => some { cb := digitsVal d1, release := true, x := digitsVal d2, y := digitsVal d3 }
          | _ => none
        else none
      | _ => none
    | _ => none
  | _ => none

end TM
