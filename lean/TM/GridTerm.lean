import TM.GridScreen
import TM.Term
/-!
# TM.GridTerm — the terminal over array-level grid screens: `GTerm` is `Term` with the two buffers
stored the way the cell-grid buffer stores them (`GScr`: one record of the five parallel arrays
per cell). `GTerm.apply` is the dispatch of `TM.Term` (escapes.go) word for word, with every
screen operation replaced by its counterpart of `TM.GridScreen`; `GTerm.abs` maps both buffers
through `GScr.abs` (policy `.blank`). GENERATED from `TM/Term.lean` by `tools/mkspanterm.py`
(`./check C20` verifies that it is up to date). Rune text mode. Core-only, executable.
-/
namespace TM

structure GTerm where
  main : GScr
  alt : GScr
  onAlt : Bool := false
  vflags : List Bool := [false, true, false, false, false, false]
  vints : List Int := List.replicate 3 0
  vstrs : List Bytes := List.replicate 3 []
  kmain : Kbd := {}
  kalt : Kbd := {}
deriving Repr

def GTerm.init (w h : Nat) : GTerm := { main := GScr.init w h, alt := GScr.init w h }

/-- the cell-level terminal this array-level terminal shows (grid policy) -/
def GTerm.abs (t : GTerm) : Term :=
  { pol := .blank, main := t.main.abs, alt := t.alt.abs, onAlt := t.onAlt, vflags := t.vflags,
    vints := t.vints, vstrs := t.vstrs, kmain := t.kmain, kalt := t.kalt }

def GTerm.inv (t : GTerm) : Bool :=
  t.main.inv && t.alt.inv && decide (t.main.w = t.alt.w) && decide (t.main.h = t.alt.h)

def GTerm.scr (t : GTerm) : GScr := if t.onAlt then t.alt else t.main
def GTerm.setScr (t : GTerm) (s : GScr) : GTerm := if t.onAlt then { t with alt := s } else { t with main := s }
def GTerm.kbd (t : GTerm) : Kbd := if t.onAlt then t.kalt else t.kmain
def GTerm.setKbd (t : GTerm) (k : Kbd) : GTerm := if t.onAlt then { t with kalt := k } else { t with kmain := k }

def GTerm.setVFlag (t : GTerm) (i : Nat) (v : Bool) : GTerm × List Ev :=
  ({ t with vflags := t.vflags.set i v }, [.vflag i v])
def GTerm.setVInt (t : GTerm) (i : Nat) (v : Int) : GTerm × List Ev :=
  ({ t with vints := t.vints.set i v }, [.vint i v])
def GTerm.setVStr (t : GTerm) (i : Nat) (v : Bytes) : GTerm × List Ev :=
  ({ t with vstrs := t.vstrs.set i v }, [.vstr i v])

def GTerm.withScr (t : GTerm) (s : GScr) : GTerm × List Ev :=
  (t.setScr s, [.cursor s.cx s.cy])

/-! ### DEC private modes -/

def GTerm.switchScreen (t : GTerm) (toAlt : Bool) : GTerm × List Ev :=
  if t.onAlt = toAlt then (t, [])
  else
    let t' := { t with onAlt := toAlt }
    let s := t'.scr
    (t', [.region 0 0 s.w s.h 3, .cursor s.cx s.cy, .style s.sty])

def GTerm.decMode (t : GTerm) (p : Int) (v : Bool) : GTerm × List Ev :=
  if p = 1 then t.setVFlag 4 v
  else if p = 7 then (t.setScr { t.scr with wrap := v }, [])
  else if p = 9 then t.setVInt 0 (if v then 1 else 0)
  else if p = 12 then t.setVFlag 0 v
  else if p = 25 then t.setVFlag 1 v
  else if p = 1000 then t.setVInt 0 (if v then 2 else 0)
  else if p = 1002 then t.setVInt 0 (if v then 3 else 0)
  else if p = 1003 then t.setVInt 0 (if v then 4 else 0)
  else if p = 1004 then t.setVFlag 2 v
  else if p = 1005 then t.setVInt 1 (if v then 1 else 0)
  else if p = 1006 then t.setVInt 1 (if v then 2 else 0)
  else if p = 1015 then t.setVInt 1 (if v then 1 else 0)
  else if p = 1049 then t.switchScreen v
  else if p = 2004 then t.setVFlag 3 v
  else (t, [])

def GTerm.decModes (t : GTerm) (v : Bool) : List Int → GTerm × List Ev
  | [] => (t, [])
  | p :: ps =>
    let (t1, e1) := t.decMode p v
    let (t2, e2) := GTerm.decModes t1 v ps
    (t2, e1 ++ e2)

/-! ### CSI dispatch -/

def gCsiReplyCPR (s : GScr) : Bytes :=
  [0x1b, 0x5b] ++ itoa (s.cy + 1) ++ [0x3b] ++ itoa (s.cx + 1) ++ [0x52]

/-- unprefixed CSI acting on the active screen -/
def GTerm.csiPlain (t : GTerm) (ps : List Int) (fin : UInt8) : GTerm × List Ev :=
  let s := t.scr
  let x : Int := s.cx
  let y : Int := s.cy
  if fin = 0x41 then t.withScr (s.setCursor x (y - pMove ps))                -- A CUU
  else if fin = 0x42 then t.withScr (s.setCursor x (y + pMove ps))           -- B CUD
  else if fin = 0x43 then t.withScr (s.setCursor (x + pMove ps) y)           -- C CUF
  else if fin = 0x44 then t.withScr (s.setCursor (x - pMove ps) y)           -- D CUB
  else if fin = 0x47 then t.withScr (s.setCursor (p0 ps 1 - 1) y)            -- G CHA
  else if fin = 0x64 then t.withScr (s.setCursor x (p0 ps 1 - 1))            -- d VPA
  else if fin = 0x66 ∨ fin = 0x48 then                                       -- f, H CUP
    t.withScr (s.setCursor (pAt ps 1 1 - 1) (pAt ps 0 1 - 1))
  else if fin = 0x63 then                                                    -- c DA1
    if p0 ps 0 = 0 then (t, [.reply [0x1b, 0x5b, 0x3f, 0x31, 0x3b, 0x32, 0x63]]) else (t, [])
  else if fin = 0x6d then                                                    -- m SGR
    let st := applySGR s.sty (match ps with | [] => [0] | _ => ps)
    (t.setScr { s with sty := st }, [.style st])
  else if fin = 0x73 then (t.setScr s.saveCursor, [])                        -- s
  else if fin = 0x75 then t.withScr s.restoreCursor                          -- u
  else if fin = 0x4b then                                                    -- K EL
    let p := p0 ps 0
    if p = 0 then (t.setScr (s.eraseRegionI x y s.w (y + 1)), [.region s.cx s.cy s.w (s.cy + 1) 1])
    else if p = 1 then (t.setScr (s.eraseRegionI 0 y (x + 1) (y + 1)), [.region 0 s.cy (s.cx + 1) (s.cy + 1) 1])
    else if p = 2 then (t.setScr (s.eraseRegionI 0 y s.w (y + 1)), [.region 0 s.cy s.w (s.cy + 1) 1])
    else (t, [])
  else if fin = 0x4a then                                                    -- J ED
    let p := p0 ps 0
    if p = 0 then
      (t.setScr ((s.eraseRegionI x y s.w (y + 1)).eraseRegionI 0 (y + 1) s.w s.h),
        [.region s.cx s.cy s.w (s.cy + 1) 1, .region 0 (s.cy + 1) s.w s.h 1])
    else if p = 1 then
      (t.setScr ((s.eraseRegionI 0 0 s.w y).eraseRegionI 0 y (x + 1) (y + 1)),
        [.region 0 0 s.w s.cy 1, .region 0 s.cy (s.cx + 1) (s.cy + 1) 1])
    else if p = 2 then
      let s' := (s.eraseRegionI 0 0 s.w s.h).setCursor 0 0
      (t.setScr s', [.region 0 0 s.w s.h 1, .cursor 0 0])
    else (t, [])
  else if fin = 0x4c then                                                    -- L IL
    if s.inRegion then (t.setScr (s.scroll s.cy s.bot (p0 ps 1)), [.region 0 s.cy s.w (s.bot + 1) 2]) else (t, [])
  else if fin = 0x4d then                                                    -- M DL
    if s.inRegion then (t.setScr (s.scroll s.cy s.bot (-(p0 ps 1))), [.region 0 s.cy s.w (s.bot + 1) 2]) else (t, [])
  else if fin = 0x53 then                                                    -- S SU
    (t.setScr (s.scroll s.top s.bot (-(p0 ps 1))), [.region 0 s.top s.w (s.bot + 1) 2])
  else if fin = 0x54 then                                                    -- T SD
    (t.setScr (s.scroll s.top s.bot (p0 ps 1)), [.region 0 s.top s.w (s.bot + 1) 2])
  else if fin = 0x50 then                                                    -- P DCH
    let n := p0 ps 1
    if n ≤ 0 then (t, []) else (t.setScr (s.dch n.toNat), [.region s.cx s.cy s.w (s.cy + 1) 1])
  else if fin = 0x58 then                                                    -- X ECH
    (t.setScr (s.eraseRegionI x y (x + p0 ps 1) (y + 1)), [.region s.cx s.cy s.w (s.cy + 1) 1])
  else if fin = 0x72 then                                                    -- r DECSTBM
    (t.setScr (s.setMargins (pAt ps 0 1 - 1) (pAt ps 1 s.h - 1)), [])
  else if fin = 0x6e then                                                    -- n DSR
    let p := p0 ps 0
    if p = 5 then (t, [.reply [0x1b, 0x5b, 0x30, 0x6e]])
    else if p = 6 then (t, [.reply (gCsiReplyCPR s)])
    else (t, [])
  else (t, [])

def GTerm.csi (t : GTerm) (pfx : UInt8) (ps : List Int) (fin : UInt8) : GTerm × List Ev :=
  if pfx = 0 then t.csiPlain ps fin
  else if pfx = 0x3f then                                                    -- ?
    if fin = 0x75 then (t, [.reply ([0x1b, 0x5b, 0x3f] ++ itoa t.kbd.flags ++ [0x75])])
    else if fin = 0x68 then t.decModes true ps
    else if fin = 0x6c then t.decModes false ps
    else (t, [])
  else if pfx = 0x3e then                                                    -- >
    if fin = 0x63 then
      (t, [.reply [0x1b, 0x5b, 0x3e, 0x31, 0x3b, 0x34, 0x34, 0x30, 0x32, 0x3b, 0x30, 0x63]])
    else if fin = 0x6d then
      match modifyOtherKeysMode ps none with
      | some m => if m ≥ 0 then t.setVInt 2 m else (t, [])
      | none => (t, [])
    else if fin = 0x75 then (t.setKbd (t.kbd.push (pAt ps 0 0)), [])
    else (t, [])
  else if pfx = 0x3c then                                                    -- <
    if fin = 0x75 then (t.setKbd (t.kbd.pop (pAt ps 0 1)), []) else (t, [])
  else if pfx = 0x3d then                                                    -- =
    if fin = 0x75 then (t.setKbd (t.kbd.update (pAt ps 0 0) (pAt ps 1 1)), []) else (t, [])
  else (t, [])

/-! ### one token -/

def GTerm.apply (cw : Nat → Nat) (t : GTerm) : Tok → GTerm × List Ev
  | .text stored cp =>
    let s := t.scr
    let s' := s.put stored (cw cp)
    (t.setScr s', [.region 0 0 s.w s.h 0, .cursor s'.cx s'.cy])
  | .ctl b =>
    let s := t.scr
    if b = 7 then (t, [.bell])
    else if b = 8 ∨ b = 127 then t.withScr { s with cx := s.cx - 1 }
    else if b = 9 then t.withScr (s.setCursor (((s.cx / 8) + 1) * 8 : Nat) s.cy)
    else if b = 10 then t.withScr ({ s with cx := 0 } : GScr).lineDown
    else if b = 12 then t.withScr s.lineDown
    else if b = 13 then t.withScr { s with cx := 0 }
    else (t, [])
  | .esc inter fin =>
    if inter ≠ [] then (t, [])
    else
      let s := t.scr
      if fin = 0x44 then t.withScr s.lineDown           -- ESC D  IND
      else if fin = 0x4d then t.withScr s.lineUp        -- ESC M  RI
      else if fin = 0x3d then t.setVFlag 5 true         -- ESC =
      else if fin = 0x3e then t.setVFlag 5 false        -- ESC >
      else (t, [])
  | .csi pfx ps clean fin => if clean then t.csi pfx ps fin else (t, [])
  | .osc num payload wf =>
    if !wf then (t, [])
    else if num = 0 ∨ num = 2 then t.setVStr 0 payload
    else if num = 6 then t.setVStr 1 payload
    else if num = 7 then t.setVStr 2 payload
    else (t, [])
  | .dcs => (t, [])

/-- `Resize(w,h)` (both buffers) -/
def GTerm.resize (t : GTerm) (w h : Nat) : GTerm × List Ev :=
  let m := t.main.resize w h
  let a := t.alt.resize w h
  let t' := { t with main := m, alt := a }
  -- both buffers report their rendition, then the active buffer is announced
  (t', [.style m.sty, .style a.sty, .cursor t'.scr.cx t'.scr.cy, .style t'.scr.sty])


end TM
