import TM.Run
/-!
# TM.Ansi — `ANSILine` (`renderLineANSI` of `screen.go` / `screen_grid.go`): a row rendered as
SGR sequences and text, such that interpreting it again reproduces the row (C11).
Core-only, executable.
-/
namespace TM

/-- the row as `ANSILine` renders it: before every run of cells with equal attributes the full
    `Style.ansiEscape` (reset + modes + colours), then the text of the cells (continuation
    cells contribute nothing) -/
def renderCells : Option Style → Row → Bytes
  | _, [] => []
  | prev, c :: rest =>
    let pre := if prev = some c.sty then [] else c.sty.ansiEscape
    let txt := match c.g with
      | .ch t _ => t
      | .cont => []
    pre ++ txt ++ renderCells (some c.sty) rest

def renderRowANSI (r : Row) : Bytes := renderCells none r

/-- `ESC [ row ; 1 H` -/
def cupRow (y : Nat) : Bytes := [0x1b, 0x5b] ++ itoa (y + 1) ++ [0x3b, 0x31, 0x48]

/-- feed `CUP(y,1) ++ ANSILine(y)` to a fresh terminal of the same size (autowrap off, as a
    fresh terminal is) and return row `y` of its main screen -/
def reinterpretRow (cw : Nat → Nat) (pol : WidePolicy) (w h y : Nat) (r : Row) : Row :=
  let res := run cw (Term.init pol w h) (cupRow y ++ renderRowANSI r)
  res.1.main.row y

end TM
