import TM.Basic
/-!
# TM.Keys — the key encoders of `keys.go` (`encodeKey`, `encodeLegacyKey`, `encodeKittyKey`
and helpers). Key codes are the `iota` values of `KeyCode`. Core-only, executable.
-/
namespace TM

structure KeyEv where
  code : Nat               -- KeyCode (0 = KeyRune … 111 = KeyISOLevel5Shift)
  rune : Nat := 0
  mod : Nat := 0           -- shift 1, alt 2, ctrl 4, super 8, hyper 16, meta 32, caps 64, num 128
  event : Nat := 0         -- 0/1 press, 2 repeat, 3 release
  shifted : Nat := 0
  base : Nat := 0
  text : List Nat := []
deriving DecidableEq, Repr

-- KeyCode values
def kRune := 0
def kUp := 1
def kDown := 2
def kRight := 3
def kLeft := 4
def kHome := 5
def kEnd := 6
def kInsert := 7
def kDelete := 8
def kPageUp := 9
def kPageDown := 10
def kBackspace := 11
def kTab := 12
def kEnter := 13
def kEscape := 14
def kF1 := 15
def kF13 := 27
def kCapsLock := 50
def kMenu := 55
def kKP0 := 56
def kKPEnter := 71
def kKPBegin := 84
def kMediaPlay := 85
def kLast := 111

-- enhancement flags
def fDisambiguate := 1
def fReportEvents := 2
def fReportAlternates := 4
def fReportAllKeys := 8
def fReportText := 16

def hasBit (v bit : Nat) : Bool := v &&& bit != 0

def isKeypadKey (c : Nat) : Bool := kKP0 ≤ c && c ≤ kKPBegin

/-- `keypadEquivalent`: (code, rune) of the plain key -/
def keypadEquivalent (ev : KeyEv) : KeyEv :=
  let c := ev.code
  if c ≤ 65 then { ev with code := kRune, rune := 48 + (c - 56) }           -- KP0 … KP9
  else if c = 66 then { ev with code := kRune, rune := 0x2e }               -- .
  else if c = 67 then { ev with code := kRune, rune := 0x2f }               -- /
  else if c = 68 then { ev with code := kRune, rune := 0x2a }               -- *
  else if c = 69 then { ev with code := kRune, rune := 0x2d }               -- -
  else if c = 70 then { ev with code := kRune, rune := 0x2b }               -- +
  else if c = 71 then { ev with code := kEnter, rune := 0 }
  else if c = 72 then { ev with code := kRune, rune := 0x3d }               -- =
  else if c = 73 then { ev with code := kRune, rune := 0x2c }               -- ,
  else if c = 74 then { ev with code := kLeft }
  else if c = 75 then { ev with code := kRight }
  else if c = 76 then { ev with code := kUp }
  else if c = 77 then { ev with code := kDown }
  else if c = 78 then { ev with code := kPageUp }
  else if c = 79 then { ev with code := kPageDown }
  else if c = 80 then { ev with code := kHome }
  else if c = 81 then { ev with code := kEnd }
  else if c = 82 then { ev with code := kInsert }
  else if c = 83 then { ev with code := kDelete }
  else { ev with code := kRune, rune := 0x35 }                              -- KP_BEGIN → '5'

/-- `kittyFunctionalCode` -/
def kittyFunctionalCode (c : Nat) : Option Nat :=
  if 50 ≤ c ∧ c ≤ 55 then some (57358 + (c - 50))          -- CapsLock … Menu
  else if 27 ≤ c ∧ c ≤ 49 then some (57376 + (c - 27))     -- F13 … F35
  else if 56 ≤ c ∧ c ≤ 84 then some (57399 + (c - 56))     -- KP_0 … KP_BEGIN
  else if 85 ≤ c ∧ c ≤ 111 then some (57428 + (c - 85))    -- media, modifiers, ISO shifts
  else none

def xtermModParam (mod : Nat) : Nat :=
  1 + (if hasBit mod 1 then 1 else 0) + (if hasBit mod 2 then 2 else 0) + (if hasBit mod 4 then 4 else 0)

def ctrlByte (r : Nat) : Option UInt8 :=
  if 0x61 ≤ r ∧ r ≤ 0x7a then some (UInt8.ofNat (r - 0x61 + 1))
  else if 0x41 ≤ r ∧ r ≤ 0x5a then some (UInt8.ofNat (r - 0x41 + 1))
  else if r = 0x40 then some 0
  else if r = 0x5b then some 27
  else if r = 0x5c then some 28
  else if r = 0x5d then some 29
  else if r = 0x5e then some 30
  else if r = 0x5f then some 31
  else if r = 0x3f then some 127
  else none

def csiB : Bytes := [0x1b, 0x5b]

def encodeModifyOtherKeys (code mod : Nat) : Bytes :=
  csiB ++ [0x32, 0x37, 0x3b] ++ itoa (xtermModParam mod) ++ [0x3b] ++ itoa code ++ [0x7e]

/-- `CSI 1;m X` with SS3/CSI forms for no modifiers -/
def encodeCursorKey (appCursor : Bool) (final : UInt8) (mod : Nat) : Bytes :=
  if mod = 0 ∧ appCursor then [0x1b, 0x4f, final]
  else if mod = 0 then [0x1b, 0x5b, final]
  else csiB ++ [0x31, 0x3b] ++ itoa (xtermModParam mod) ++ [final]

def encodeTildeKey (code mod : Nat) : Bytes :=
  if mod = 0 then csiB ++ itoa code ++ [0x7e]
  else csiB ++ itoa code ++ [0x3b] ++ itoa (xtermModParam mod) ++ [0x7e]

def encodeFunctionKey (final : UInt8) (mod : Nat) : Bytes :=
  if mod = 0 then [0x1b, 0x4f, final]
  else csiB ++ [0x31, 0x3b] ++ itoa (xtermModParam mod) ++ [final]

def encodeRuneKey (mok : Int) (r mod : Nat) : Bytes :=
  if r = 0 then []
  else if mok > 0 ∧ mod ≠ 0 then encodeModifyOtherKeys r mod
  else
    match (if hasBit mod 4 then ctrlByte r else none) with
    | some b => if hasBit mod 2 then [0x1b, b] else [b]
    | none => if hasBit mod 2 then 0x1b :: encodeRune r else encodeRune r

/-- Backspace / Tab / Enter / Escape in legacy mode -/
def encodeC0Key (mok : Int) (code : Nat) (byte : UInt8) (mod : Nat) (altPrefix : Bool) : Bytes :=
  if mod = 0 then [byte]
  else if mok > 0 then encodeModifyOtherKeys code mod
  else if altPrefix ∧ hasBit mod 2 then [0x1b, byte]
  else [byte]

def normEvent (e : Nat) : Nat := if e = 0 then 1 else e

def kittyModField (mod event flags : Nat) : Bytes :=
  let ev := normEvent event
  if hasBit flags fReportEvents ∧ ev ≠ 1 then itoa (1 + mod) ++ [0x3a] ++ itoa ev
  else if mod = 0 then []
  else itoa (1 + mod)

def kittyKeyField (code : Nat) (ev : KeyEv) (flags : Nat) : Bytes :=
  if !hasBit flags fReportAlternates then itoa code
  else
    let shifted := if ev.shifted ≠ 0 ∧ hasBit ev.mod 1 then ev.shifted else 0
    let base := ev.base
    if shifted ≠ 0 ∧ base ≠ 0 then itoa code ++ [0x3a] ++ itoa shifted ++ [0x3a] ++ itoa base
    else if shifted ≠ 0 then itoa code ++ [0x3a] ++ itoa shifted
    else if base ≠ 0 then itoa code ++ [0x3a, 0x3a] ++ itoa base
    else itoa code

def joinBytes (sep : UInt8) : List Bytes → Bytes
  | [] => []
  | [x] => x
  | x :: rest => x ++ sep :: joinBytes sep rest

def kittyTextField (ev : KeyEv) (flags : Nat) : Bytes :=
  if !hasBit flags fReportAllKeys ∨ !hasBit flags fReportText then []
  else
    let text := if ev.text.isEmpty ∧ ev.code = kRune ∧ ev.rune ≠ 0 then [ev.rune] else ev.text
    joinBytes 0x3a (text.map itoa)

def kittyCSI1 (final : UInt8) (modField : Bytes) : Bytes :=
  if modField.isEmpty then [0x1b, 0x5b, final] else csiB ++ [0x31, 0x3b] ++ modField ++ [final]

def kittyCSITilde (code : Nat) (modField : Bytes) : Bytes :=
  if modField.isEmpty then csiB ++ itoa code ++ [0x7e] else csiB ++ itoa code ++ [0x3b] ++ modField ++ [0x7e]

def kittyCSIu (keyField modField textField : Bytes) : Bytes :=
  if modField.isEmpty ∧ textField.isEmpty then csiB ++ keyField ++ [0x75]
  else
    let m := if modField.isEmpty then [0x31] else modField
    if textField.isEmpty then csiB ++ keyField ++ [0x3b] ++ m ++ [0x75]
    else csiB ++ keyField ++ [0x3b] ++ m ++ [0x3b] ++ textField ++ [0x75]

/-- tilde numbers of F5 … F12 (codes 19 … 26) -/
def fTilde (c : Nat) : Nat :=
  match c - 19 with
  | 0 => 15 | 1 => 17 | 2 => 18 | 3 => 19 | 4 => 20 | 5 => 21 | 6 => 23 | _ => 24

/-- `encodeLegacyKey` after the keypad mapping -/
def encodeLegacyPlain (mok : Int) (appCursor : Bool) (ev : KeyEv) : Bytes :=
  let c := ev.code
  let m := ev.mod
  if c = kRune then encodeRuneKey mok ev.rune m
  else if c = kUp then encodeCursorKey appCursor 0x41 m
  else if c = kDown then encodeCursorKey appCursor 0x42 m
  else if c = kRight then encodeCursorKey appCursor 0x43 m
  else if c = kLeft then encodeCursorKey appCursor 0x44 m
  else if c = kHome then encodeCursorKey appCursor 0x48 m
  else if c = kEnd then encodeCursorKey appCursor 0x46 m
  else if c = kInsert then encodeTildeKey 2 m
  else if c = kDelete then encodeTildeKey 3 m
  else if c = kPageUp then encodeTildeKey 5 m
  else if c = kPageDown then encodeTildeKey 6 m
  else if c = kBackspace then encodeC0Key mok 127 0x7f m true
  else if c = kTab then
    (if m = 1 then [0x1b, 0x5b, 0x5a] else encodeC0Key mok 9 0x09 m true)
  else if c = kEnter then encodeC0Key mok 13 0x0d m true
  else if c = kEscape then encodeC0Key mok 27 0x1b m false
  else if c = 15 then encodeFunctionKey 0x50 m
  else if c = 16 then encodeFunctionKey 0x51 m
  else if c = 17 then encodeFunctionKey 0x52 m
  else if c = 18 then encodeFunctionKey 0x53 m
  else if 19 ≤ c ∧ c ≤ 26 then encodeTildeKey (fTilde c) m
  else match kittyFunctionalCode c with
    | some code => kittyCSIu (kittyKeyField code ev 0) (kittyModField m ev.event 0) []
    | none => []

def encodeLegacyKey (mok : Int) (appCursor : Bool) (ev : KeyEv) : Bytes :=
  encodeLegacyPlain mok appCursor (if isKeypadKey ev.code then keypadEquivalent ev else ev)

/-- `encodeKittyKey` after the keypad mapping; `none` = fall back to the legacy encoding -/
def encodeKittyPlain (ev : KeyEv) (flags : Nat) : Option Bytes :=
  let c := ev.code
  let mf := kittyModField ev.mod ev.event flags
  let all := hasBit flags fReportAllKeys
  if c = kRune then
    if ev.rune = 0 then none
    else if all then some (kittyCSIu (kittyKeyField ev.rune ev flags) mf (kittyTextField ev flags))
    else if hasBit flags fDisambiguate ∧ hasBit ev.mod 62 then
      some (kittyCSIu (kittyKeyField ev.rune ev flags) mf [])
    else none
  else if c = kUp then some (kittyCSI1 0x41 mf)
  else if c = kDown then some (kittyCSI1 0x42 mf)
  else if c = kRight then some (kittyCSI1 0x43 mf)
  else if c = kLeft then some (kittyCSI1 0x44 mf)
  else if c = kHome then some (kittyCSI1 0x48 mf)
  else if c = kEnd then some (kittyCSI1 0x46 mf)
  else if c = kInsert then some (kittyCSITilde 2 mf)
  else if c = kDelete then some (kittyCSITilde 3 mf)
  else if c = kPageUp then some (kittyCSITilde 5 mf)
  else if c = kPageDown then some (kittyCSITilde 6 mf)
  else if c = 15 then some (kittyCSI1 0x50 mf)
  else if c = 16 then some (kittyCSI1 0x51 mf)
  else if c = 17 then some (kittyCSITilde 13 mf)
  else if c = 18 then some (kittyCSI1 0x53 mf)
  else if 19 ≤ c ∧ c ≤ 26 then some (kittyCSITilde (fTilde c) mf)
  else if c = kEscape then
    if all ∨ hasBit flags fDisambiguate then
      some (kittyCSIu (kittyKeyField 27 ev flags) mf (kittyTextField ev flags)) else none
  else if c = kEnter then
    if all then some (kittyCSIu (kittyKeyField 13 ev flags) mf (kittyTextField ev flags)) else none
  else if c = kTab then
    if all then some (kittyCSIu (kittyKeyField 9 ev flags) mf (kittyTextField ev flags)) else none
  else if c = kBackspace then
    if all then some (kittyCSIu (kittyKeyField 127 ev flags) mf (kittyTextField ev flags)) else none
  else if c = kKPBegin then some (kittyCSITilde 57427 mf)
  else match kittyFunctionalCode c with
    | some code => some (kittyCSIu (kittyKeyField code ev flags) mf (kittyTextField ev flags))
    | none => none

def encodeKittyKey (ev : KeyEv) (flags : Nat) : Option Bytes :=
  encodeKittyPlain (if isKeypadKey ev.code ∧ !hasBit flags fDisambiguate then keypadEquivalent ev else ev) flags

/-- `encodeKey`: `flags` = Kitty flags of the active screen, `mok` = modifyOtherKeys level,
    `appCursor` = DECCKM. Empty result = nothing is written. -/
def encodeKey (flags : Nat) (mok : Int) (appCursor : Bool) (ev : KeyEv) : Bytes :=
  let release := normEvent ev.event = 3
  if release ∧ !hasBit flags fReportEvents then []
  else
    match (if flags ≠ 0 then encodeKittyKey ev flags else none) with
    | some seq => seq
    | none => if release then [] else encodeLegacyKey mok appCursor ev

end TM
