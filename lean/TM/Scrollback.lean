import TM.Term
/-!
# TM.Scrollback — rows that leave the main buffer through the top (`Frontend.ScrollLines`).

`screen.go` / `screen_grid.go`, `scroll(y1, y2, dy)`: when the scrolled range starts at row 0,
moves upwards (`dy < 0`) and the buffer keeps a scrollback (the main buffer), the first
`min(-dy, y2+1)` rows are announced with `ScrollLines` before they are overwritten. The
functions below count those rows for every place where `Scr.scroll` is reached from a token
(`Scr.lineDown`, the two wraps of `Scr.put`, DL, SU), without touching the definitions the
other theorems are about; `Props/C10.lean` proves that the counted rows are exactly the rows
that disappear, and the driver prints the count of every step (`L` line) so that the harness
can compare it with the sum of the real `ScrollLines` arguments. Core-only, executable.
-/
namespace TM

/-- rows leaving through the top when `s.scroll y1 y2 d` runs on a buffer with a scrollback -/
def Scr.scrollOff (s : Scr) (y1 y2 : Nat) (d : Int) : Nat :=
  if y1 > y2 ∨ y2 ≥ s.h then 0
  else if y1 = 0 ∧ d < 0 then min d.natAbs (y2 + 1) else 0

/-- … while `s.lineDown` runs -/
def Scr.lineDownOff (s : Scr) : Nat :=
  if s.cy = s.bot then s.scrollOff s.top s.bot (-1) else 0

/-- the state in which `Scr.put` writes the character: after the early wrap / pull-back -/
def Scr.putStart (s : Scr) (w0 : Nat) : Scr :=
  let w := if max w0 1 > s.w then 1 else max w0 1
  if s.cx + w > s.w then
    (if s.wrap then ({ s with cx := 0 } : Scr).lineDown else { s with cx := s.w - w })
  else s

/-- … while `s.put pol text w0` runs: the early wrap (character does not fit) and the late wrap
    (cursor leaves the row after the write) -/
def Scr.putOff (pol : WidePolicy) (s : Scr) (w0 : Nat) : Nat :=
  let w := if max w0 1 > s.w then 1 else max w0 1
  let early := if s.cx + w > s.w ∧ s.wrap then ({ s with cx := 0 } : Scr).lineDownOff else 0
  let s1 := s.putStart w0
  let r := s1.row s1.cy
  let keep := contAt r s1.cx && pol == .keep
  let x := s1.cx + w + (if keep then headOf r s1.cx + widthAt r (headOf r s1.cx) - s1.cx else 0)
  let late := if x < s1.w then 0 else if s1.wrap then s1.lineDownOff else 0
  early + late

/-- rows announced through `ScrollLines` while `tok` is applied in state `t` -/
def Term.scrollOff (cw : Nat → Nat) (t : Term) : Tok → Nat
  | .text _ cp => if t.onAlt then 0 else t.scr.putOff t.pol (cw cp)
  | .ctl b =>
    if t.onAlt then 0
    else if b = 10 then ({ t.scr with cx := 0 } : Scr).lineDownOff
    else if b = 12 then t.scr.lineDownOff
    else 0
  | .esc inter fin =>
    if t.onAlt then 0
    else if inter = [] ∧ fin = 0x44 then t.scr.lineDownOff else 0
  | .csi pfx ps clean fin =>
    let s := t.scr
    if t.onAlt ∨ !clean ∨ pfx ≠ 0 then 0
    else if fin = 0x4d then (if s.inRegion then s.scrollOff s.cy s.bot (-(p0 ps 1)) else 0)   -- DL
    else if fin = 0x53 then s.scrollOff s.top s.bot (-(p0 ps 1))                              -- SU
    else 0
  | .osc _ _ _ => 0
  | .dcs => 0

/-- `Term.apply` together with the `ScrollLines` announcement (first, as in the code: the rows are
    announced before they are overwritten) -/
def Term.applyS (cw : Nat → Nat) (t : Term) (tok : Tok) : Term × List Ev :=
  let n := t.scrollOff cw tok
  let (t', evs) := t.apply cw tok
  (t', (if n = 0 then [] else [Ev.scrollLines n]) ++ evs)

end TM
