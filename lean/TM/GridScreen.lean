import TM.Screen
/-!
# TM.GridScreen — the cell-grid buffer as the code stores it: five parallel arrays per row
(`chars`, `cellText`, `cellWidth`, `cellCont`, `cellStyles` of `screen_grid.go`), here one record
per cell. Go-shaped transcriptions of `clearWideAt`, `rawWriteRunes` (blank runs: `eraseRegion`),
`rawWriteRune`, the single-rune path of `writeTokens`, `deleteChars`, `scroll`, `setSize`.
`GScr.abs` maps such a screen to the cell-level `Scr` of `TM.Screen` (policy `.blank`);
`Props/C20Grid.lean` proves that the operations commute with it. Rune text mode. Core-only,
executable.
-/
namespace TM

structure GCell where
  ch : Nat        -- `chars[y][x]`
  text : Bytes    -- `cellText[y][x]`
  width : Nat     -- `cellWidth[y][x]`
  cont : Bool     -- `cellCont[y][x]`
  sty : Style     -- `cellStyles[y][x]`
deriving DecidableEq, Repr

abbrev GRow := List GCell

/-- a blank cell: `' '`, `" "`, width 1, not a continuation, in `st` -/
def gBlank (st : Style) : GCell := ⟨0x20, [0x20], 1, false, st⟩
/-- a continuation cell as `rawWriteRune` writes it: rune 0, no text, width 0 -/
def gCont (st : Style) : GCell := ⟨0, [], 0, true, st⟩

def GRow.contAt (r : GRow) (x : Nat) : Bool := match r[x]? with | some c => c.cont | none => false

/-- `for base > 0 && cellCont[y][base] { base-- }` -/
def gBase (r : GRow) : Nat → Nat
  | 0 => 0
  | x+1 => if r.contAt (x+1) then gBase r x else x+1

/-- `clearWideAt(y, x)`: the wide character covering column `x` becomes blanks in `st` -/
def GRow.clearWideAt (r : GRow) (x : Nat) (st : Style) : GRow :=
  let base := gBase r x
  let width := match r[base]? with | some c => c.width | none => 0
  if width ≤ 1 then r else
  let e := min (base + width) r.length
  r.mapIdx fun i c => if base ≤ i ∧ i < e then gBlank st else c

/-- the loop of `rawWriteRunes` for `n` blanks from column `x` (styles written afterwards) -/
def GRow.blankLoop (st : Style) : Nat → Nat → GRow → GRow
  | 0, _, r => r
  | n+1, idx, r =>
    let r := if r.contAt idx then r.clearWideAt idx st else r
    let r := r.set idx { (r.getD idx (gBlank st)) with ch := 0x20, text := [0x20], width := 1, cont := false }
    GRow.blankLoop st n (idx + 1) r

/-- `rawWriteRunes(x, y, n blanks)`: a wide character cut by the end of the range is blanked
    whole first, one cut by a written cell when the loop reaches it; then the styles -/
def GRow.writeBlanks (r : GRow) (x n : Nat) (st : Style) : GRow :=
  let e := x + n
  let r := if n > 0 ∧ e < r.length ∧ r.contAt e then r.clearWideAt e st else r
  let r := GRow.blankLoop st n x r
  r.mapIdx fun i c => if x ≤ i ∧ i < e then { c with sty := st } else c

/-- `rawWriteRune(x, y, r, width)` on one row (`x + width ≤ W` checked by the caller) -/
def GRow.writeRune (r : GRow) (x : Nat) (rune : Nat) (width : Nat) (st : Style) : GRow :=
  let width := max width 1
  let W := r.length
  let r := if r.contAt x then r.clearWideAt x st else r
  let e := x + width
  let r := if e < W ∧ r.contAt e then r.clearWideAt e st else r
  let prevWidth := max (match r[x]? with | some c => c.width | none => 1) 1
  let r := r.mapIdx fun i c =>
    if i = x then { c with ch := rune, text := encodeRune rune, width := width, cont := false }
    else if x < i ∧ i < x + width then { c with ch := 0, text := [], width := 0, cont := true }
    else if x + width ≤ i ∧ i < x + prevWidth then { c with ch := 0x20, text := [0x20], width := 1, cont := false }
    else c
  let e := min (x + max width prevWidth) W
  r.mapIdx fun i c => if x ≤ i ∧ i < e then { c with sty := st } else c

/-- `deleteChars(x, y, n)` on one row, after the caller's guards (`x < W`, `0 < n`, `x + n ≤ W`) -/
def GRow.deleteChars (r : GRow) (x n : Nat) (st : Style) : GRow :=
  let W := r.length
  let r := if r.contAt x then r.clearWideAt x st else r
  let r := if x + n < W ∧ r.contAt (x + n) then r.clearWideAt (x + n) st else r
  r.take x ++ r.drop (x + n) ++ List.replicate n (gBlank st)

structure GScr where
  w : Nat
  h : Nat
  rows : List GRow
  cx : Nat
  cy : Nat
  sx : Nat
  sy : Nat
  top : Nat
  bot : Nat
  wrap : Bool
  sty : Style
deriving Repr, DecidableEq

def GCell.abs (c : GCell) : Cell := if c.cont then ⟨.cont, c.sty⟩ else ⟨.ch c.text c.width, c.sty⟩

/-- the cell-level screen this grid shows -/
def GScr.abs (s : GScr) : Scr :=
  { w := s.w, h := s.h, grid := s.rows.map fun r => r.map GCell.abs, cx := s.cx, cy := s.cy, sx := s.sx, sy := s.sy,
    top := s.top, bot := s.bot, wrap := s.wrap, sty := s.sty }

def gBlankRow (w : Nat) (st : Style) : GRow := List.replicate w (gBlank st)

def GScr.init (w h : Nat) : GScr :=
  { w := w, h := h, rows := List.replicate h (gBlankRow w Style.default),
    cx := 0, cy := 0, sx := 0, sy := 0, top := 0, bot := h - 1, wrap := false, sty := Style.default }

def GScr.row (s : GScr) (y : Nat) : GRow := s.rows.getD y []
def GScr.setRow (s : GScr) (y : Nat) (r : GRow) : GScr := { s with rows := s.rows.set y r }

/-- `scroll(y1, y2, dy)`: rows copied, vacated rows erased (blank in the current style) -/
def GScr.scroll (s : GScr) (y1 y2 : Nat) (d : Int) : GScr :=
  if y1 > y2 ∨ y2 ≥ s.h then s else
  let n := y2 - y1 + 1
  let k := min d.natAbs n
  let region := (s.rows.drop y1).take n
  let blanks := List.replicate k (gBlankRow s.w s.sty)
  let region' := if d ≥ 0 then blanks ++ region.take (n - k) else region.drop k ++ blanks
  { s with rows := s.rows.take y1 ++ region' ++ s.rows.drop (y2 + 1) }

def GScr.lineDown (s : GScr) : GScr :=
  if s.cy = s.bot then s.scroll s.top s.bot (-1)
  else if s.cy + 1 < s.h then { s with cy := s.cy + 1 } else s

def GScr.lineUp (s : GScr) : GScr :=
  if s.cy = s.top then s.scroll s.top s.bot 1
  else if 0 < s.cy then { s with cy := s.cy - 1 } else s

/-- the single-rune path of `writeTokens` (one rune-mode token: its bytes and nominal width) -/
def GScr.put (s : GScr) (text0 : Bytes) (w0 : Nat) : GScr :=
  let tooWide := max w0 1 > s.w
  let rune := if tooWide then 0xFFFD else (decodeRune text0).1
  let w := if tooWide then 1 else max w0 1
  let s := if s.cx + w > s.w then
             (if s.wrap then ({ s with cx := 0 } : GScr).lineDown else { s with cx := s.w - w })
           else s
  let s := s.setRow s.cy ((s.row s.cy).writeRune s.cx rune w s.sty)
  let x := s.cx + w
  if x < s.w then { s with cx := x }
  else if s.wrap then ({ s with cx := x - s.w } : GScr).lineDown
  else { s with cx := s.w - 1 }

/-- `eraseRegion` with the region already clamped -/
def GScr.eraseRegion (s : GScr) (x1 y1 x2 y2 : Nat) : GScr :=
  { s with rows := s.rows.mapIdx fun y r =>
      if y1 ≤ y ∧ y < y2 then r.writeBlanks x1 (min x2 s.w - x1) s.sty else r }

def GScr.eraseRegionI (s : GScr) (x1 y1 x2 y2 : Int) : GScr :=
  let nx := clampNat x1 s.w
  let ny := clampNat y1 s.h
  s.eraseRegion nx ny (max (clampNat x2 s.w) nx) (max (clampNat y2 s.h) ny)

/-- `deleteChars(cx, cy, n)` with its guards -/
def GScr.dch (s : GScr) (n : Nat) : GScr :=
  if s.cx ≥ s.w ∨ n = 0 then s
  else s.setRow s.cy ((s.row s.cy).deleteChars s.cx (min n (s.w - s.cx)) s.sty)

def GScr.inRegion (s : GScr) : Bool := s.top ≤ s.cy && s.cy ≤ s.bot

def GScr.setCursor (s : GScr) (x y : Int) : GScr :=
  { s with cx := clampNat x (s.w - 1), cy := clampNat y (s.h - 1) }

def GScr.setMargins (s : GScr) (t b : Int) : GScr :=
  if t > b then s else
  let t' := clampNat t (s.h - 1)
  let b' := clampNat b (s.h - 1)
  if t' > b' then s else { s with top := t', bot := b' }

def GScr.saveCursor (s : GScr) : GScr := { s with sx := s.cx, sy := s.cy }
def GScr.restoreCursor (s : GScr) : GScr := { s with cx := s.sx, cy := s.sy }

/-- the loop of `setSize` that blanks a wide character cut by the new right edge: from column
    `w - 1` leftwards until a cell that was not a continuation has been blanked -/
def GRow.cutLoop (st : Style) : Nat → GRow → GRow
  | 0, r => r
  | x+1, r =>
    let wasCont := r.contAt x
    let r := r.set x (gBlank st)
    if wasCont then GRow.cutLoop st x r else r

/-- one kept row of `setSize(w, ·)`: the first `min w W` cells, new cells blank in `st`; when the
    old cell at column `w` was a continuation cell, the character cut there is blanked -/
def GRow.resize (r : GRow) (w : Nat) (st : Style) : GRow :=
  let cut := decide (w < r.length) && r.contAt w
  let r1 := r.take w ++ List.replicate (w - r.length) (gBlank st)
  if cut then GRow.cutLoop st w r1 else r1

def GScr.resize (s : GScr) (w h : Nat) : GScr :=
  let rows := (s.rows.take h).map (·.resize w s.sty)
  let rows := rows ++ List.replicate (h - rows.length) (gBlankRow w s.sty)
  let bot := clampNat ((h : Int) - ((s.h : Int) - (s.bot : Int))) (h - 1)
  { s with w := w, h := h, rows := rows,
           cx := if s.cx < w then s.cx else 0, cy := if s.cy < h then s.cy else 0,
           sx := if s.sx < w then s.sx else 0, sy := if s.sy < h then s.sy else 0,
           top := min s.top bot, bot := bot }

/-- one cell is consistent: a continuation cell has rune 0, no text, width 0; any other cell has
    width ≥ 1 and its rune is the first rune of its text -/
def GCell.ok (c : GCell) : Bool :=
  if c.cont then c.ch == 0 && c.text.isEmpty && c.width == 0
  else decide (c.width ≥ 1) && !c.text.isEmpty

/-- the invariant: geometry of `Scr.inv`, `h` rows of `w` consistent cells whose abstraction is a
    well-formed row (every wide character followed by exactly its continuation cells) -/
def GScr.inv (s : GScr) : Bool :=
  decide (s.w ≥ 1) && decide (s.h ≥ 1) && decide (s.rows.length = s.h) &&
  s.rows.all (fun r => decide (r.length = s.w) && r.all GCell.ok && rowWF (r.map GCell.abs)) &&
  decide (s.cx < s.w) && decide (s.cy < s.h) && decide (s.sx < s.w) && decide (s.sy < s.h) &&
  decide (s.top ≤ s.bot) && decide (s.bot < s.h)

/-! ### what the accessors read from the arrays (`Line`, `renderLineANSI`) -/

/-- the rune array agrees with the text array: a continuation cell holds rune 0, any other cell
    the rune whose encoding is its text (rune mode: one rune per cell) -/
def GCell.okCh (c : GCell) : Bool :=
  if c.cont then c.ch == 0 else encodeRune c.ch == c.text && c.ch != 0

/-- `Line(y)`: the rune array with 0 (continuation cells) shown as a blank -/
def GRow.line (r : GRow) : Bytes :=
  r.flatMap fun c => if c.ch = 0 then [0x20] else encodeRune c.ch

/-- `renderLineANSI(y)`: for every maximal stretch of cells with equal attributes the complete
    escape, then the runes that are not 0 -/
def GRow.ansiAux : Option Style → GRow → Bytes
  | _, [] => []
  | prev, c :: rest =>
    (if prev = some c.sty then [] else c.sty.ansiEscape) ++
    (if c.ch = 0 then [] else encodeRune c.ch) ++ GRow.ansiAux (some c.sty) rest

def GRow.ansi (r : GRow) : Bytes := GRow.ansiAux none r

/-! ### `StyledLine(x, w, y)` of the grid buffer -/

/-- a run of the public `Line` type: style, text or repeated rune, width (`Span` of `line.go`) -/
structure GSpan where
  sty : Style
  text : Bytes
  rune : Nat
  width : Nat
deriving DecidableEq, Repr

/-- the cells a `GSpan` stands for (as `TM.SpanLine.spanCells`, but a text run lists its
    characters with their widths explicitly: `chars`) -/
structure GSpanC where
  span : GSpan
  chars : List (Bytes × Nat)     -- the characters the text was built from, with their cell widths
deriving DecidableEq, Repr

def GSpanC.cells (s : GSpanC) : List Cell :=
  if s.span.text.isEmpty then List.replicate s.span.width ⟨.ch (encodeRune s.span.rune) 1, s.span.sty⟩
  else s.chars.flatMap fun c => charCells c.1 c.2 s.span.sty

/-- number of leading cells of `cs` with style `st` (the loop `for i < x+w && styles[i] == style`) -/
def gStyleRun (st : Style) : GRow → Nat
  | [] => 0
  | c :: rest => if c.sty = st then gStyleRun st rest + 1 else 0

/-- `for start+pad < x+w && pad < width && cellCont[start+pad] { pad++ }` on the cells of the stretch -/
def gLeadCont : GRow → Nat
  | [] => 0
  | c :: rest => if c.cont then gLeadCont rest + 1 else 0

/-- `for cutTail < width && cellCont[end-1-cutTail] { cutTail++ }` on the reversed stretch -/
def gTrailCont (r : GRow) : Nat := gLeadCont r.reverse

/-- one stretch of equal attributes `seg` (already clipped to the requested range) rendered as
    runs. `atStart`: the stretch begins at the left edge `x` of the request; `cutEnd`: it ends at
    the right edge `x+w`, inside the row, and the cell after it is a continuation cell. -/
def gStretch (st : Style) (seg : GRow) (atStart cutEnd : Bool) : List GSpanC :=
  let blanks (n : Nat) : GSpanC := ⟨⟨st, [], 0x20, n⟩, []⟩
  -- a wide character cut by the left edge: its cells inside the range are blanks
  let pad := if atStart ∧ seg.head?.map (·.cont) = some true then gLeadCont seg else 0
  let pre := if atStart ∧ seg.head?.map (·.cont) = some true then [blanks pad] else []
  let seg1 := seg.drop pad
  if seg1.isEmpty ∧ pad > 0 then pre else
  -- a wide character that continues beyond the right edge: its cells inside the range are blanks
  let cutTail := if cutEnd then min (gTrailCont seg1 + 1) seg1.length else 0
  let body := seg1.take (seg1.length - cutTail)
  if body.isEmpty then pre ++ [blanks cutTail] else
  let first := (body.head?.map (·.ch)).getD 0
  let isRepeat := body.all fun c => c.ch == first && c.width == 1 && !c.cont
  let main : GSpanC :=
    if isRepeat then ⟨⟨st, [], first, body.length⟩, []⟩
    else ⟨⟨st, (body.filter (!·.cont)).flatMap (·.text), 0, body.length⟩,
          (body.filter (!·.cont)).map fun c => (c.text, c.width)⟩
  pre ++ [main] ++ (if cutTail > 0 then [blanks cutTail] else [])

/-- the loop of `StyledLine` over the cells `[i, x+w)`: stretches of equal attributes -/
def gStyledAux (r : GRow) (x e : Nat) : Nat → Nat → List GSpanC
  | 0, _ => []
  | fuel+1, i =>
    if i ≥ e then [] else
    let rest := (r.drop i).take (e - i)
    match rest with
    | [] => []
    | c :: _ =>
      let n := gStyleRun c.sty rest
      let seg := rest.take n
      let stop := i + n
      let cutEnd := decide (stop = e) && decide (e < r.length) && r.contAt e
      gStretch c.sty seg (decide (i = x)) cutEnd ++ gStyledAux r x e fuel stop

/-- `StyledLine(x, w, y)` on a row (`w = none`: a negative width, i.e. to the end of the row) -/
def GRow.styledLine (r : GRow) (x : Nat) (w : Option Nat) : List GSpanC × Nat :=
  let w := match w with
    | some w => if x + w > r.length then r.length - x else w
    | none => r.length - x
  (gStyledAux r x (x + w) (w + 1) x, w)

end TM
