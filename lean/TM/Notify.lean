import TM.Term
/-!
# TM.Notify — the damage the terminal announces to its frontend (`RegionChanged`) while a
token is applied, and the frontend-side shadow copy that is refreshed only from those
announcements (the callback contract of `frontend.go`). Core-only, executable.

The regions are those of the code up to over-approximation (the code announces the written run;
here whole rows are announced); what matters for C10 is that every cell that changes lies inside
an announced region.
-/
namespace TM

structure Region where
  x1 : Nat
  y1 : Nat
  x2 : Nat   -- exclusive
  y2 : Nat   -- exclusive
deriving DecidableEq, Repr

def Region.mem (r : Region) (x y : Nat) : Bool := r.x1 ≤ x && x < r.x2 && r.y1 ≤ y && y < r.y2

def rowsRegion (s : Scr) (ya yb : Nat) : Region := ⟨0, ya, s.w, yb⟩   -- rows [ya, yb), full width

/-- regions announced while `tok` is applied in state `t` (in terms of the state before) -/
def Term.damage (t : Term) : Tok → List Region
  | .text _ _ =>
    let s := t.scr
    -- the cursor row, the row below it (early or late wrap), and the scroll region when autowrap
    -- can scroll it
    [rowsRegion s s.cy (s.cy + 2)] ++ (if s.wrap then [rowsRegion s s.top (s.bot + 1)] else [])
  | .ctl b =>
    let s := t.scr
    if b = 10 ∨ b = 12 then [rowsRegion s s.top (s.bot + 1)] else []
  | .esc inter fin =>
    let s := t.scr
    if inter = [] ∧ (fin = 0x44 ∨ fin = 0x4d) then [rowsRegion s s.top (s.bot + 1)] else []
  | .csi pfx ps clean fin =>
    let s := t.scr
    if !clean then []
    else if pfx = 0 then
      if fin = 0x4b ∨ fin = 0x58 ∨ fin = 0x50 then [rowsRegion s s.cy (s.cy + 1)]        -- K X P
      else if fin = 0x4a then [rowsRegion s 0 s.h]                                        -- J
      else if fin = 0x4c ∨ fin = 0x4d then [rowsRegion s s.cy (s.bot + 1)]                -- L M
      else if fin = 0x53 ∨ fin = 0x54 then [rowsRegion s s.top (s.bot + 1)]               -- S T
      else []
    else if pfx = 0x3f ∧ (fin = 0x68 ∨ fin = 0x6c) ∧ ps.contains 1049 then
      -- a buffer switch announces the whole screen (both buffers have the same size)
      [rowsRegion s 0 s.h]
    else []
  | .osc _ _ _ => []
  | .dcs => []

/-- the frontend's copy after repainting the announced regions from the screen it can read -/
def repaint (shadow : List Row) (screen : List Row) (rs : List Region) : List Row :=
  shadow.mapIdx fun y row =>
    row.mapIdx fun x c =>
      if rs.any (fun r => r.mem x y) then ((screen.getD y []).getD x c) else c

end TM
