import TM.Ansi
/-!
# TM.Mirror — `TTYFrontend` (`tty_frontend.go`): a frontend that repaints a region of the inner
terminal on an outer terminal by writing escape sequences and text (C11, second half).
Core-only, executable.

What is modelled: the frontend's own state (attached, region, last announced cursor, cursor
visibility, focus) and the bytes each entry point writes — `Attach`, `Detach`, `Focus`/`Blur`,
and the callbacks `RegionChanged`, `CursorMoved`, `ViewFlagChanged(VFShowCursor)`; every other
callback writes nothing. What the frontend reads from the inner terminal (`Size`, `StyledLine`
with a sub-range) is computed from the model screen: `subCells` is the model of
`StyledLine(x, w, y)` for both buffers (a wide character cut by either edge of the range shows
as blanks in its own attributes).

Run structure: the code writes `Style.ANSIEscape()` in front of every span `StyledLine`
returns, and the span buffer may return two adjacent spans with equal attributes; the model
writes it once per maximal run of equal attributes (`renderCells`). Every `ANSIEscape` starts
with a reset and sets the attributes absolutely, so the extra copies change nothing; the
correspondence check merges adjacent equal-attribute runs of the real output before it compares.
-/
namespace TM

structure MRegion where
  x : Nat
  y : Nat
  x2 : Nat
  y2 : Nat
deriving DecidableEq, Repr

def MRegion.isEmpty (r : MRegion) : Bool := r.x2 ≤ r.x || r.y2 ≤ r.y

/-- `clampRegion(r, w, h)` (coordinates are never negative here) -/
def MRegion.clamp (r : MRegion) (w h : Nat) : MRegion :=
  ⟨min r.x w, min r.y h, min r.x2 w, min r.y2 h⟩

/-- `MRegion.Intersect` -/
def MRegion.inter (a b : MRegion) : MRegion :=
  ⟨max a.x b.x, max a.y b.y, min a.x2 b.x2, min a.y2 b.y2⟩

/-- cell `i` of the row as seen through the window `[a, b)`: a wide character that is not
    entirely inside the window shows as a blank in its own attributes -/
def cutCell (r : Row) (a b i : Nat) : Cell :=
  let c := r.getD i (blank Style.default)
  let hd := headOf r i
  let wd := widthAt r hd
  if hd < a ∨ hd + wd > b then blank c.sty else c

/-- `StyledLine(a, b - a, y)` as cells -/
def subCells (r : Row) (a b : Nat) : Row :=
  (List.range (b - a)).map fun k => cutCell r a b (a + k)

/-- `ESC [ row ; col H` for the 0-based cell `(x, y)` (`ansiMoveCursor`) -/
def cupXY (x y : Nat) : Bytes := [0x1b, 0x5b] ++ itoa (y + 1) ++ [0x3b] ++ itoa (x + 1) ++ [0x48]

def ansiSaveCursor : Bytes := [0x1b, 0x5b, 0x73]                    -- ESC [ s
def ansiRestoreCursor : Bytes := [0x1b, 0x5b, 0x75]                 -- ESC [ u
def ansiReset : Bytes := [0x1b, 0x5b, 0x30, 0x6d]                   -- ESC [ 0 m
def ansiCursorShow : Bytes := [0x1b, 0x5b, 0x3f, 0x32, 0x35, 0x68]  -- ESC [ ? 25 h
def ansiCursorHide : Bytes := [0x1b, 0x5b, 0x3f, 0x32, 0x35, 0x6c]  -- ESC [ ? 25 l
def ansiWrapDisable : Bytes := [0x1b, 0x5b, 0x3f, 0x37, 0x6c]       -- ESC [ ? 7 l
def ansiWrapEnable : Bytes := [0x1b, 0x5b, 0x3f, 0x37, 0x68]        -- ESC [ ? 7 h

/-- the rows `y, y+1, …` (n of them) of the region: position, then the cells of the sub-range -/
def renderRows (s : Scr) (x x2 : Nat) : Nat → Nat → Bytes
  | _, 0 => []
  | y, n+1 => cupXY x y ++ renderCells none (subCells (s.row y) x x2) ++ renderRows s x x2 (y + 1) n

/-- the painting part of `renderRegionLocked(r)` for the inner screen `s` -/
def renderRegion (s : Scr) (r0 : MRegion) : Bytes :=
  let r := r0.clamp s.w s.h
  if r.isEmpty then []
  else ansiSaveCursor ++ ansiWrapDisable ++ renderRows s r.x r.x2 r.y (r.y2 - r.y) ++
       ansiReset ++ ansiWrapEnable ++ ansiRestoreCursor

structure Mirror where
  attached : Bool := false
  region : MRegion := ⟨0, 0, 0, 0⟩
  cx : Nat := 0
  cy : Nat := 0
  showCur : Bool := true
  focused : Bool := true
deriving DecidableEq, Repr

/-- `renderCursorLocked` -/
def Mirror.renderCursor (m : Mirror) : Bytes :=
  if !m.attached then []
  else if !m.showCur || !m.focused then ansiCursorHide
  else if m.cx < m.region.x ∨ m.cx ≥ m.region.x2 ∨ m.cy < m.region.y ∨ m.cy ≥ m.region.y2 then ansiCursorHide
  else cupXY m.cx m.cy ++ ansiCursorShow

/-- `renderRegionLocked(r)`: nothing when detached or when the clamped region is empty, else the
    painting followed by the cursor -/
def Mirror.renderRegion (m : Mirror) (s : Scr) (r : MRegion) : Bytes :=
  if !m.attached then []
  else if (r.clamp s.w s.h).isEmpty then []
  else TM.renderRegion s r ++ m.renderCursor

inductive MirrorOp
  | attach (r : MRegion)
  | detach
  | focus
  | blur
  | regionChanged (r : MRegion)
  | cursorMoved (x y : Nat)
  | showCursor (v : Bool)
  | other                       -- Bell, ScrollLines, StyleChanged, other view flags / ints / strings
deriving DecidableEq, Repr

/-- one entry point of the frontend: new state and the bytes written to the outer terminal;
    `s` is the inner terminal's active screen at that moment -/
def Mirror.step (m : Mirror) (s : Scr) : MirrorOp → Mirror × Bytes
  | .attach r =>
    let m' := { m with region := r, attached := true }
    (m', m'.renderRegion s r)
  | .detach => ({ m with attached := false }, ansiCursorShow)
  | .focus => let m' := { m with focused := true }; (m', m'.renderCursor)
  | .blur => ({ m with focused := false }, ansiCursorShow)
  | .regionChanged r => (m, m.renderRegion s (r.inter m.region))
  | .cursorMoved x y => let m' := { m with cx := x, cy := y }; (m', m'.renderCursor)
  | .showCursor v => let m' := { m with showCur := v }; (m', m'.renderCursor)
  | .other => (m, [])

end TM
