import TM.SpanLine
import TM.Reader
/-!
# TM.SpanScreen — the span buffer as the code stores it: a list of rows of runs (`SLine`) with
the geometry of `TM.Scr`. Screen-level functions of `screen.go` on top of the row-level ones of
`TM.SpanLine`: `scroll` (row moves and fresh blank rows), `eraseRegion` (one `rawWriteSpan` per
row), `deleteChars`, the single-character path of `writeString`, `setSize` (`resizeLine` per
kept row, fresh blank rows). `SScr.abs` maps such a screen to the cell-level `Scr` of
`TM.Screen`; `Props/C02SpanScreen.lean` proves that every operation here commutes with it.
Rune text mode. Core-only, executable.
-/
namespace TM

structure SScr where
  w : Nat
  h : Nat
  lines : List SLine
  cx : Nat
  cy : Nat
  sx : Nat
  sy : Nat
  top : Nat
  bot : Nat
  wrap : Bool
  sty : Style
deriving Repr, DecidableEq

/-- the cell-level screen this run-level screen shows -/
def SScr.abs (cw : Nat → Nat) (s : SScr) : Scr :=
  { w := s.w, h := s.h, grid := s.lines.map (lineCells cw), cx := s.cx, cy := s.cy, sx := s.sx, sy := s.sy,
    top := s.top, bot := s.bot, wrap := s.wrap, sty := s.sty }

/-- `newSpanScreen` followed by the initial `Resize(w,h)` -/
def SScr.init (w h : Nat) : SScr :=
  { w := w, h := h, lines := List.replicate h (blankSpanLine w Style.default),
    cx := 0, cy := 0, sx := 0, sy := 0, top := 0, bot := h - 1, wrap := false, sty := Style.default }

def SScr.line (s : SScr) (y : Nat) : SLine := s.lines.getD y ⟨[], 0⟩
def SScr.setLine (s : SScr) (y : Nat) (l : SLine) : SScr := { s with lines := s.lines.set y l }

/-- `scroll(y1, y2, dy)`: the rows `[y1,y2]` move by `dy` (down if positive), vacated rows are
    fresh `blankSpanLine`s in the current style; a distance larger than the range clears it -/
def SScr.scroll (s : SScr) (y1 y2 : Nat) (d : Int) : SScr :=
  if y1 > y2 ∨ y2 ≥ s.h then s else
  let n := y2 - y1 + 1
  let k := min d.natAbs n
  let region := (s.lines.drop y1).take n
  let blanks := List.replicate k (blankSpanLine s.w s.sty)
  let region' := if d ≥ 0 then blanks ++ region.take (n - k) else region.drop k ++ blanks
  { s with lines := s.lines.take y1 ++ region' ++ s.lines.drop (y2 + 1) }

def SScr.lineDown (s : SScr) : SScr :=
  if s.cy = s.bot then s.scroll s.top s.bot (-1)
  else if s.cy + 1 < s.h then { s with cy := s.cy + 1 } else s

def SScr.lineUp (s : SScr) : SScr :=
  if s.cy = s.top then s.scroll s.top s.bot 1
  else if 0 < s.cy then { s with cy := s.cy - 1 } else s

/-- the single-character path of `writeString` (one rune-mode token of nominal width `w0`):
    a character wider than the screen is stored as U+FFFD; at the right edge wrap or pin; the
    run is written with `writeSpanAt(…, CRText)`; the cursor ends after the text, also when it
    was inserted after a wide character -/
def SScr.put (cw : Nat → Nat) (s : SScr) (text0 : Bytes) (w0 : Nat) : SScr :=
  let tooWide := max w0 1 > s.w
  let text := if tooWide then replacementChar else text0
  let w := if tooWide then 1 else max w0 1
  let s := if s.cx + w > s.w then
             (if s.wrap then ({ s with cx := 0 } : SScr).lineDown else { s with cx := s.w - w })
           else s
  let res := writeSpanLine cw s.w s.sty (s.line s.cy) s.cx ⟨s.sty, text, 0, w⟩ true
  let s := s.setLine s.cy res.1
  let x := s.cx + w + res.2.1
  if x < s.w then { s with cx := x }
  else if s.wrap then ({ s with cx := x - s.w } : SScr).lineDown
  else { s with cx := s.w - 1 }

/-- `eraseRegion` with the region already clamped (`0 ≤ x1 ≤ x2 ≤ w`, `0 ≤ y1 ≤ y2 ≤ h`): one blank
    run per row -/
def SScr.eraseRegion (cw : Nat → Nat) (s : SScr) (x1 y1 x2 y2 : Nat) : SScr :=
  { s with lines := s.lines.mapIdx fun y l =>
      if y1 ≤ y ∧ y < y2 then eraseLine cw s.w s.sty l x1 (min x2 s.w) else l }

/-- `eraseRegion(Region{x1,y1,x2,y2})` with `Region.Clamp` to the screen -/
def SScr.eraseRegionI (cw : Nat → Nat) (s : SScr) (x1 y1 x2 y2 : Int) : SScr :=
  let nx := clampNat x1 s.w
  let ny := clampNat y1 s.h
  s.eraseRegion cw nx ny (max (clampNat x2 s.w) nx) (max (clampNat y2 s.h) ny)

/-- `deleteChars(cx, cy, n)` -/
def SScr.dch (cw : Nat → Nat) (s : SScr) (n : Nat) : SScr :=
  if s.cx ≥ s.w ∨ n = 0 then s
  else s.setLine s.cy (deleteCharsLine cw s.w s.sty (s.line s.cy) s.cx n).1

def SScr.inRegion (s : SScr) : Bool := s.top ≤ s.cy && s.cy ≤ s.bot

def SScr.setCursor (s : SScr) (x y : Int) : SScr :=
  { s with cx := clampNat x (s.w - 1), cy := clampNat y (s.h - 1) }

/-- `setSize(w,h)`: kept rows through `resizeLine`, new rows blank in the current style; cursor,
    saved cursor and margins as in `Scr.resize` -/
def SScr.resize (cw : Nat → Nat) (s : SScr) (w h : Nat) : SScr :=
  let rows := (s.lines.take h).map (resizeLine cw · w s.sty)
  let rows := rows ++ List.replicate (h - rows.length) (blankSpanLine w s.sty)
  let bot := clampNat ((h : Int) - ((s.h : Int) - (s.bot : Int))) (h - 1)
  { s with w := w, h := h, lines := rows,
           cx := if s.cx < w then s.cx else 0, cy := if s.cy < h then s.cy else 0,
           sx := if s.sx < w then s.sx else 0, sy := if s.sy < h then s.sy else 0,
           top := min s.top bot, bot := bot }

/-- the invariant: the geometry of `Scr.inv` and every row a well-formed row of width `w` -/
def SScr.inv (cw : Nat → Nat) (s : SScr) : Bool :=
  decide (s.w ≥ 1) && decide (s.h ≥ 1) && decide (s.lines.length = s.h) &&
  s.lines.all (lineWF cw s.w) &&
  decide (s.cx < s.w) && decide (s.cy < s.h) && decide (s.sx < s.w) && decide (s.sy < s.h) &&
  decide (s.top ≤ s.bot) && decide (s.bot < s.h)


/-! ### `moveCursor` and the general path of `writeString` (runs of several characters) -/

/-- `moveCursor(dx, dy, wrap, scroll)`, Go-shaped: with `wrap` and autowrap on, the column wraps
    over the rows; the region scrolls only when the cursor leaves it through its top or bottom
    row; everything is clamped to the screen in the end -/
def SScr.moveCursor (s : SScr) (dx dy : Int) (wrap scroll : Bool) : SScr :=
  let scroll := scroll && decide (s.top ≤ s.cy) && decide (s.cy ≤ s.bot)
  let W : Int := s.w
  let x0 : Int := (s.cx : Int) + dx
  -- the two `for` loops: bring the column into [0, W) moving whole rows
  let (x, y) : Int × Int :=
    if wrap && s.wrap then (x0 % W, (s.cy : Int) + x0 / W)   -- Int.emod / Int.ediv: floor semantics, as the loops
    else (max 0 (min x0 (W - 1)), (s.cy : Int))
  let y := y + dy
  let (s, y) : SScr × Int :=
    if scroll then
      let (s, y) := if y < (s.top : Int) then (s.scroll s.top s.bot ((s.top : Int) - y), (s.top : Int)) else (s, y)
      if y > (s.bot : Int) then (s.scroll s.top s.bot ((s.bot : Int) - y), (s.bot : Int)) else (s, y)
    else (s, y)
  { s with cx := x.toNat, cy := clampNat y (s.h - 1) }

/-- `writeString(text, width, merge = false, TextReadModeRune)`, Go-shaped. `fuel` bounds the
    recursion on the pieces of `splitRunToFit` (one per character at most). -/
def SScr.writeString (cw : Nat → Nat) : Nat → SScr → Bytes → Nat → SScr
  | 0, s, _, _ => s
  | fuel+1, s, text0, width0 =>
    if text0.isEmpty then s else
    let text := replaceInvalidUTF8 text0
    let width := max width0 1
    let split := if s.cx + width > s.w ∧ width > 1 then splitRunToFit cw text (s.w - s.cx) else none
    match split with
    | some (hd, hw, rs, rw) =>
      SScr.writeString cw fuel (SScr.writeString cw fuel s hd hw) rs rw
    | none =>
      let tooWide := decide (width > s.w)
      let text := if tooWide then replacementChar else text
      let width := if tooWide then 1 else width
      let s := if s.cx + width > s.w then
                 (if s.wrap then s.moveCursor (-(s.cx : Int)) 1 false true else { s with cx := s.w - width })
               else s
      let res := writeSpanLine cw s.w s.sty (s.line s.cy) s.cx ⟨s.sty, text, 0, width⟩ true
      let s := s.setLine s.cy res.1
      s.moveCursor ((width + res.2.1 : Nat) : Int) 0 true true

/-- what `ptyReadOne` does with a stretch of printable text that arrives in one read: the reader
    hands over runs limited to the rest of the row (`ReadPrintableBytes(max (w - cx) 1)`), each
    written with `writeString` -/
def SScr.feedTextAux (cw : Nat → Nat) : Nat → SScr → Rdr → SScr
  | 0, s, _ => s
  | fuel+1, s, r =>
    let (r', out) := r.readPrintable cw (max (s.w - s.cx) 1)
    if out.text.isEmpty then s
    else SScr.feedTextAux cw fuel (SScr.writeString cw (out.text.length + 1) s out.text out.width) r'

def SScr.feedText (cw : Nat → Nat) (s : SScr) (text : Bytes) : SScr :=
  SScr.feedTextAux cw (text.length + 1) s (Rdr.init [(text, false)])

/-! ### the operations behind the control functions (as `Term.csiPlain` uses `Scr`) -/

inductive SOp
  | put (text : Bytes) (cp : Nat)
  | lf | ind | ri
  | su (n : Nat) | sd (n : Nat) | il (n : Nat) | dl (n : Nat)
  | el (p : Nat) | ed (p : Nat) | ech (n : Nat) | dch (n : Nat)
  | resize (w h : Nat)
deriving Repr, DecidableEq

def SScr.apply (cw : Nat → Nat) (s : SScr) : SOp → SScr
  | .put text cp => s.put cw text (cw cp)
  | .lf => ({ s with cx := 0 } : SScr).lineDown
  | .ind => s.lineDown
  | .ri => s.lineUp
  | .su n => s.scroll s.top s.bot (-(n : Int))
  | .sd n => s.scroll s.top s.bot n
  | .il n => if s.inRegion then s.scroll s.cy s.bot n else s
  | .dl n => if s.inRegion then s.scroll s.cy s.bot (-(n : Int)) else s
  | .el p =>
    let x : Int := s.cx
    let y : Int := s.cy
    if p = 0 then s.eraseRegionI cw x y s.w (y + 1)
    else if p = 1 then s.eraseRegionI cw 0 y (x + 1) (y + 1)
    else if p = 2 then s.eraseRegionI cw 0 y s.w (y + 1)
    else s
  | .ed p =>
    let x : Int := s.cx
    let y : Int := s.cy
    if p = 0 then (s.eraseRegionI cw x y s.w (y + 1)).eraseRegionI cw 0 (y + 1) s.w s.h
    else if p = 1 then (s.eraseRegionI cw 0 0 s.w y).eraseRegionI cw 0 y (x + 1) (y + 1)
    else if p = 2 then (s.eraseRegionI cw 0 0 s.w s.h).setCursor 0 0
    else s
  | .ech n => s.eraseRegionI cw s.cx s.cy ((s.cx : Int) + n) ((s.cy : Int) + 1)
  | .dch n => s.dch cw n
  | .resize w h => s.resize cw w h

/-- the same operation on the cell-level screen (span policy) -/
def Scr.applyS (cw : Nat → Nat) (s : Scr) : SOp → Scr
  | .put text cp => s.put .keep text (cw cp)
  | .lf => ({ s with cx := 0 } : Scr).lineDown
  | .ind => s.lineDown
  | .ri => s.lineUp
  | .su n => s.scroll s.top s.bot (-(n : Int))
  | .sd n => s.scroll s.top s.bot n
  | .il n => if s.inRegion then s.scroll s.cy s.bot n else s
  | .dl n => if s.inRegion then s.scroll s.cy s.bot (-(n : Int)) else s
  | .el p =>
    let x : Int := s.cx
    let y : Int := s.cy
    if p = 0 then s.eraseRegionI x y s.w (y + 1)
    else if p = 1 then s.eraseRegionI 0 y (x + 1) (y + 1)
    else if p = 2 then s.eraseRegionI 0 y s.w (y + 1)
    else s
  | .ed p =>
    let x : Int := s.cx
    let y : Int := s.cy
    if p = 0 then (s.eraseRegionI x y s.w (y + 1)).eraseRegionI 0 (y + 1) s.w s.h
    else if p = 1 then (s.eraseRegionI 0 0 s.w y).eraseRegionI 0 y (x + 1) (y + 1)
    else if p = 2 then (s.eraseRegionI 0 0 s.w s.h).setCursor 0 0
    else s
  | .ech n => s.eraseRegionI s.cx s.cy ((s.cx : Int) + n) ((s.cy : Int) + 1)
  | .dch n => s.dch n
  | .resize w h => s.resize w h

end TM
