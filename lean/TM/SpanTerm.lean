import TM.SpanScreen
import TM.Term
/-!
# TM.SpanTerm — the terminal over run-level screens: `STerm` is `Term` with the two buffers stored
the way the span buffer stores them (`SScr`: rows of runs). `STerm.apply` is the dispatch of
`TM.Term` (escapes.go) word for word, with every screen operation replaced by its run-level
counterpart of `TM.SpanScreen`; `STerm.abs` maps both buffers through `SScr.abs`.
`Props/C02SpanTerm.lean` proves that the two dispatches commute with `abs` for every token, hence
for every byte stream. GENERATED from `TM/Term.lean` by `tools/mkspanterm.py` (`./check C02`
verifies that it is up to date). Rune text mode, span policy. Core-only, executable.
-/
namespace TM

def SScr.setMargins (s : SScr) (t b : Int) : SScr :=
  if t > b then s else
  let t' := clampNat t (s.h - 1)
  let b' := clampNat b (s.h - 1)
  if t' > b' then s else { s with top := t', bot := b' }

def SScr.saveCursor (s : SScr) : SScr := { s with sx := s.cx, sy := s.cy }
def SScr.restoreCursor (s : SScr) : SScr := { s with cx := s.sx, cy := s.sy }

structure STerm where
  main : SScr
  alt : SScr
  onAlt : Bool := false
  vflags : List Bool := [false, true, false, false, false, false]
  vints : List Int := List.replicate 3 0
  vstrs : List Bytes := List.replicate 3 []
  kmain : Kbd := {}
  kalt : Kbd := {}
deriving Repr

def STerm.init (w h : Nat) : STerm := { main := SScr.init w h, alt := SScr.init w h }

/-- the cell-level terminal this run-level terminal shows (span policy) -/
def STerm.abs (cw : Nat → Nat) (t : STerm) : Term :=
  { pol := .keep, main := t.main.abs cw, alt := t.alt.abs cw, onAlt := t.onAlt, vflags := t.vflags,
    vints := t.vints, vstrs := t.vstrs, kmain := t.kmain, kalt := t.kalt }

def STerm.inv (cw : Nat → Nat) (t : STerm) : Bool :=
  t.main.inv cw && t.alt.inv cw && decide (t.main.w = t.alt.w) && decide (t.main.h = t.alt.h)

def STerm.scr (t : STerm) : SScr := if t.onAlt then t.alt else t.main
def STerm.setScr (t : STerm) (s : SScr) : STerm := if t.onAlt then { t with alt := s } else { t with main := s }
def STerm.kbd (t : STerm) : Kbd := if t.onAlt then t.kalt else t.kmain
def STerm.setKbd (t : STerm) (k : Kbd) : STerm := if t.onAlt then { t with kalt := k } else { t with kmain := k }

def STerm.setVFlag (t : STerm) (i : Nat) (v : Bool) : STerm × List Ev :=
  ({ t with vflags := t.vflags.set i v }, [.vflag i v])
def STerm.setVInt (t : STerm) (i : Nat) (v : Int) : STerm × List Ev :=
  ({ t with vints := t.vints.set i v }, [.vint i v])
def STerm.setVStr (t : STerm) (i : Nat) (v : Bytes) : STerm × List Ev :=
  ({ t with vstrs := t.vstrs.set i v }, [.vstr i v])

def STerm.withScr (t : STerm) (s : SScr) : STerm × List Ev :=
  (t.setScr s, [.cursor s.cx s.cy])

/-! ### DEC private modes -/

def STerm.switchScreen (t : STerm) (toAlt : Bool) : STerm × List Ev :=
  if t.onAlt = toAlt then (t, [])
  else
    let t' := { t with onAlt := toAlt }
    let s := t'.scr
    (t', [.region 0 0 s.w s.h 3, .cursor s.cx s.cy, .style s.sty])

def STerm.decMode (t : STerm) (p : Int) (v : Bool) : STerm × List Ev :=
  if p = 1 then t.setVFlag 4 v
  else if p = 7 then (t.setScr { t.scr with wrap := v }, [])
  else if p = 9 then t.setVInt 0 (if v then 1 else 0)
  else if p = 12 then t.setVFlag 0 v
  else if p = 25 then t.setVFlag 1 v
  else if p = 1000 then t.setVInt 0 (if v then 2 else 0)
  else if p = 1002 then t.setVInt 0 (if v then 3 else 0)
  else if p = 1003 then t.setVInt 0 (if v then 4 else 0)
  else if p = 1004 then t.setVFlag 2 v
  else if p = 1005 then t.setVInt 1 (if v then 1 else 0)
  else if p = 1006 then t.setVInt 1 (if v then 2 else 0)
  else if p = 1015 then t.setVInt 1 (if v then 1 else 0)
  else if p = 1049 then t.switchScreen v
  else if p = 2004 then t.setVFlag 3 v
  else (t, [])

def STerm.decModes (t : STerm) (v : Bool) : List Int → STerm × List Ev
  | [] => (t, [])
  | p :: ps =>
    let (t1, e1) := t.decMode p v
    let (t2, e2) := STerm.decModes t1 v ps
    (t2, e1 ++ e2)

/-! ### CSI dispatch -/

def sCsiReplyCPR (s : SScr) : Bytes :=
  [0x1b, 0x5b] ++ itoa (s.cy + 1) ++ [0x3b] ++ itoa (s.cx + 1) ++ [0x52]

/-- unprefixed CSI acting on the active screen -/
def STerm.csiPlain (cw : Nat → Nat) (t : STerm) (ps : List Int) (fin : UInt8) : STerm × List Ev :=
  let s := t.scr
  let x : Int := s.cx
  let y : Int := s.cy
  if fin = 0x41 then t.withScr (s.setCursor x (y - pMove ps))                -- A CUU
  else if fin = 0x42 then t.withScr (s.setCursor x (y + pMove ps))           -- B CUD
  else if fin = 0x43 then t.withScr (s.setCursor (x + pMove ps) y)           -- C CUF
  else if fin = 0x44 then t.withScr (s.setCursor (x - pMove ps) y)           -- D CUB
  else if fin = 0x47 then t.withScr (s.setCursor (p0 ps 1 - 1) y)            -- G CHA
  else if fin = 0x64 then t.withScr (s.setCursor x (p0 ps 1 - 1))            -- d VPA
  else if fin = 0x66 ∨ fin = 0x48 then                                       -- f, H CUP
    t.withScr (s.setCursor (pAt ps 1 1 - 1) (pAt ps 0 1 - 1))
  else if fin = 0x63 then                                                    -- c DA1
    if p0 ps 0 = 0 then (t, [.reply [0x1b, 0x5b, 0x3f, 0x31, 0x3b, 0x32, 0x63]]) else (t, [])
  else if fin = 0x6d then                                                    -- m SGR
    let st := applySGR s.sty (match ps with | [] => [0] | _ => ps)
    (t.setScr { s with sty := st }, [.style st])
  else if fin = 0x73 then (t.setScr s.saveCursor, [])                        -- s
  else if fin = 0x75 then t.withScr s.restoreCursor                          -- u
  else if fin = 0x4b then                                                    -- K EL
    let p := p0 ps 0
    if p = 0 then (t.setScr (s.eraseRegionI cw x y s.w (y + 1)), [.region s.cx s.cy s.w (s.cy + 1) 1])
    else if p = 1 then (t.setScr (s.eraseRegionI cw 0 y (x + 1) (y + 1)), [.region 0 s.cy (s.cx + 1) (s.cy + 1) 1])
    else if p = 2 then (t.setScr (s.eraseRegionI cw 0 y s.w (y + 1)), [.region 0 s.cy s.w (s.cy + 1) 1])
    else (t, [])
  else if fin = 0x4a then                                                    -- J ED
    let p := p0 ps 0
    if p = 0 then
      (t.setScr ((s.eraseRegionI cw x y s.w (y + 1)).eraseRegionI cw 0 (y + 1) s.w s.h),
        [.region s.cx s.cy s.w (s.cy + 1) 1, .region 0 (s.cy + 1) s.w s.h 1])
    else if p = 1 then
      (t.setScr ((s.eraseRegionI cw 0 0 s.w y).eraseRegionI cw 0 y (x + 1) (y + 1)),
        [.region 0 0 s.w s.cy 1, .region 0 s.cy (s.cx + 1) (s.cy + 1) 1])
    else if p = 2 then
      let s' := (s.eraseRegionI cw 0 0 s.w s.h).setCursor 0 0
      (t.setScr s', [.region 0 0 s.w s.h 1, .cursor 0 0])
    else (t, [])
  else if fin = 0x4c then                                                    -- L IL
    if s.inRegion then (t.setScr (s.scroll s.cy s.bot (p0 ps 1)), [.region 0 s.cy s.w (s.bot + 1) 2]) else (t, [])
  else if fin = 0x4d then                                                    -- M DL
    if s.inRegion then (t.setScr (s.scroll s.cy s.bot (-(p0 ps 1))), [.region 0 s.cy s.w (s.bot + 1) 2]) else (t, [])
  else if fin = 0x53 then                                                    -- S SU
    (t.setScr (s.scroll s.top s.bot (-(p0 ps 1))), [.region 0 s.top s.w (s.bot + 1) 2])
  else if fin = 0x54 then                                                    -- T SD
    (t.setScr (s.scroll s.top s.bot (p0 ps 1)), [.region 0 s.top s.w (s.bot + 1) 2])
  else if fin = 0x50 then                                                    -- P DCH
    let n := p0 ps 1
    if n ≤ 0 then (t, []) else (t.setScr (s.dch cw n.toNat), [.region s.cx s.cy s.w (s.cy + 1) 1])
  else if fin = 0x58 then                                                    -- X ECH
    (t.setScr (s.eraseRegionI cw x y (x + p0 ps 1) (y + 1)), [.region s.cx s.cy s.w (s.cy + 1) 1])
  else if fin = 0x72 then                                                    -- r DECSTBM
    (t.setScr (s.setMargins (pAt ps 0 1 - 1) (pAt ps 1 s.h - 1)), [])
  else if fin = 0x6e then                                                    -- n DSR
    let p := p0 ps 0
    if p = 5 then (t, [.reply [0x1b, 0x5b, 0x30, 0x6e]])
    else if p = 6 then (t, [.reply (sCsiReplyCPR s)])
    else (t, [])
  else (t, [])

def STerm.csi (cw : Nat → Nat) (t : STerm) (pfx : UInt8) (ps : List Int) (fin : UInt8) : STerm × List Ev :=
  if pfx = 0 then t.csiPlain cw ps fin
  else if pfx = 0x3f then                                                    -- ?
    if fin = 0x75 then (t, [.reply ([0x1b, 0x5b, 0x3f] ++ itoa t.kbd.flags ++ [0x75])])
    else if fin = 0x68 then t.decModes true ps
    else if fin = 0x6c then t.decModes false ps
    else (t, [])
  else if pfx = 0x3e then                                                    -- >
    if fin = 0x63 then
      (t, [.reply [0x1b, 0x5b, 0x3e, 0x31, 0x3b, 0x34, 0x34, 0x30, 0x32, 0x3b, 0x30, 0x63]])
    else if fin = 0x6d then
      match modifyOtherKeysMode ps none with
      | some m => if m ≥ 0 then t.setVInt 2 m else (t, [])
      | none => (t, [])
    else if fin = 0x75 then (t.setKbd (t.kbd.push (pAt ps 0 0)), [])
    else (t, [])
  else if pfx = 0x3c then                                                    -- <
    if fin = 0x75 then (t.setKbd (t.kbd.pop (pAt ps 0 1)), []) else (t, [])
  else if pfx = 0x3d then                                                    -- =
    if fin = 0x75 then (t.setKbd (t.kbd.update (pAt ps 0 0) (pAt ps 1 1)), []) else (t, [])
  else (t, [])

/-! ### one token -/

def STerm.apply (cw : Nat → Nat) (t : STerm) : Tok → STerm × List Ev
  | .text stored cp =>
    let s := t.scr
    let s' := s.put cw stored (cw cp)
    (t.setScr s', [.region 0 0 s.w s.h 0, .cursor s'.cx s'.cy])
  | .ctl b =>
    let s := t.scr
    if b = 7 then (t, [.bell])
    else if b = 8 ∨ b = 127 then t.withScr { s with cx := s.cx - 1 }
    else if b = 9 then t.withScr (s.setCursor (((s.cx / 8) + 1) * 8 : Nat) s.cy)
    else if b = 10 then t.withScr ({ s with cx := 0 } : SScr).lineDown
    else if b = 12 then t.withScr s.lineDown
    else if b = 13 then t.withScr { s with cx := 0 }
    else (t, [])
  | .esc inter fin =>
    if inter ≠ [] then (t, [])
    else
      let s := t.scr
      if fin = 0x44 then t.withScr s.lineDown           -- ESC D  IND
      else if fin = 0x4d then t.withScr s.lineUp        -- ESC M  RI
      else if fin = 0x3d then t.setVFlag 5 true         -- ESC =
      else if fin = 0x3e then t.setVFlag 5 false        -- ESC >
      else (t, [])
  | .csi pfx ps clean fin => if clean then t.csi cw pfx ps fin else (t, [])
  | .osc num payload wf =>
    if !wf then (t, [])
    else if num = 0 ∨ num = 2 then t.setVStr 0 payload
    else if num = 6 then t.setVStr 1 payload
    else if num = 7 then t.setVStr 2 payload
    else (t, [])
  | .dcs => (t, [])

/-- `Resize(w,h)` (both buffers) -/
def STerm.resize (cw : Nat → Nat) (t : STerm) (w h : Nat) : STerm × List Ev :=
  let m := t.main.resize cw w h
  let a := t.alt.resize cw w h
  let t' := { t with main := m, alt := a }
  -- both buffers report their rendition, then the active buffer is announced
  (t', [.style m.sty, .style a.sty, .cursor t'.scr.cx t'.scr.cy, .style t'.scr.sty])


end TM
