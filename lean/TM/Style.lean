import TM.Basic
/-!
# TM.Style — the bit-packed style of `style.go` and the SGR interpreter of `escapes.go`
(`case 'm'`). Three `uint32` words; colour payload in bits 0–23, mode bits in bits 24–30 of
`fg` (modes 0–6) and `bg` (modes 7–12), bit 31 = RGB flag. Core-only, executable.
-/
namespace TM

structure Style where
  fg : BitVec 32
  bg : BitVec 32
  ul : BitVec 32
deriving DecidableEq, Repr, Inhabited

def colDefault : BitVec 32 := 0x100#32
def colBright : BitVec 32 := 0x200#32
def mask256 : BitVec 32 := 0xff#32
def maskRGB : BitVec 32 := 0xffffff#32
def maskBrightIdx : BitVec 32 := 0x7#32
def colorTypeMask : BitVec 32 := 0x80000000#32
def modeBitsMask : BitVec 32 := 0x7F000000#32

/-- `NewStyle()` -/
def Style.default : Style := ⟨colDefault, colDefault, colDefault⟩

inductive Comp | fg | bg deriving DecidableEq, Repr

/-- common tail of `SetColorDefault/256/Bright/RGB`: keep the mode bits, replace the colour -/
def Style.setColorVal (s : Style) (c : Comp) (v : BitVec 32) : Style :=
  match c with
  | .fg => { s with fg := (s.fg &&& modeBitsMask) ||| v }
  | .bg => { s with bg := (s.bg &&& modeBitsMask) ||| v }

def Style.setColorDefault (s : Style) (c : Comp) : Style := s.setColorVal c colDefault

/-- `SetColor256`: out-of-range index is rejected (error ignored by the caller) -/
def Style.setColor256 (s : Style) (c : Comp) (idx : Int) : Style :=
  if idx < 0 ∨ idx > 255 then s else s.setColorVal c (BitVec.ofNat 32 idx.toNat)

/-- `SetColorBright`: index 0–7 -/
def Style.setColorBright (s : Style) (c : Comp) (idx : Int) : Style :=
  if idx < 0 ∨ idx > 7 then s else s.setColorVal c (colBright ||| BitVec.ofNat 32 idx.toNat)

/-- `SetColorRGB`: each component `& 0xff` -/
def Style.setColorRGB (s : Style) (c : Comp) (r g b : Int) : Style :=
  let r' := (r % 256).toNat
  let g' := (g % 256).toNat
  let b' := (b % 256).toNat
  s.setColorVal c (BitVec.ofNat 32 (r' * 65536 + g' * 256 + b') ||| colorTypeMask)

/-- `SetMode` of the mode with bit index `i` (`Mode = 1 << i`, `i < 13`) -/
def Style.setMode (s : Style) (i : Nat) : Style :=
  if i < 7 then { s with fg := s.fg ||| (BitVec.ofNat 32 (2 ^ i) <<< 24) }
  else if i < 13 then { s with bg := s.bg ||| (BitVec.ofNat 32 (2 ^ (i - 7)) <<< 24) }
  else s

def Style.resetMode (s : Style) (i : Nat) : Style :=
  if i < 7 then { s with fg := s.fg &&& ~~~(BitVec.ofNat 32 (2 ^ i) <<< 24) }
  else if i < 13 then { s with bg := s.bg &&& ~~~(BitVec.ofNat 32 (2 ^ (i - 7)) <<< 24) }
  else s

/-- `modeBits()`: 13-bit mode set, as a number -/
def Style.modeBits (s : Style) : Nat :=
  ((s.fg >>> 24) &&& 0x7F#32).toNat + (((s.bg >>> 24) &&& 0x3F#32).toNat) * 128

def Style.testMode (s : Style) (i : Nat) : Bool := s.modeBits.testBit i

-- mode bit indices (`const ( ModeBold Mode = 1 << iota … )`)
def mBold := 0
def mDim := 1
def mItalic := 2
def mUnderline := 3
def mBlink := 4
def mReverse := 5
def mInvisible := 6
def mStrike := 7
def mOverline := 8
def mDoubleUnderline := 9
def mFramed := 10
def mEncircled := 11
def mRapidBlink := 12

/-- one SGR code that stands alone (everything except 38/48) -/
def sgrSimple (s : Style) (p : Int) : Style :=
  if p = 0 then Style.default
  else if 1 ≤ p ∧ p ≤ 5 then s.setMode (p.toNat - 1)     -- colorModes[p-1] = bold … blink
  else if p = 6 then s.setMode mRapidBlink
  else if p = 7 then s.setMode mReverse
  else if p = 8 then s.setMode mInvisible
  else if p = 9 then s.setMode mStrike
  else if p = 21 then s.setMode mDoubleUnderline
  else if p = 22 then (s.resetMode mBold).resetMode mDim
  else if p = 23 then s.resetMode mItalic
  else if p = 24 then (s.resetMode mUnderline).resetMode mDoubleUnderline
  else if p = 25 then (s.resetMode mBlink).resetMode mRapidBlink
  else if p = 27 then s.resetMode mReverse
  else if p = 28 then s.resetMode mInvisible
  else if p = 29 then s.resetMode mStrike
  else if p = 51 then s.setMode mFramed
  else if p = 52 then s.setMode mEncircled
  else if p = 53 then s.setMode mOverline
  else if p = 54 then (s.resetMode mFramed).resetMode mEncircled
  else if p = 55 then s.resetMode mOverline
  else if 30 ≤ p ∧ p ≤ 37 then s.setColor256 .fg (p - 30)
  else if p = 39 then s.setColorDefault .fg
  else if 40 ≤ p ∧ p ≤ 47 then s.setColor256 .bg (p - 40)
  else if p = 49 then s.setColorDefault .bg
  else if 90 ≤ p ∧ p ≤ 97 then s.setColorBright .fg (p - 90)
  else if 100 ≤ p ∧ p ≤ 107 then s.setColorBright .bg (p - 100)
  else s

/-- the `for i := 0; i < len(params); i++` loop of `case 'm'`, on the remaining parameters.
    `38`/`48` look ahead: `;5;n` needs 2 more parameters, `;2;r;g;b` needs 4 more; when they
    are missing nothing is skipped. -/
def applySGR (s : Style) : List Int → Style
  | [] => s
  | p :: rest =>
    if p = 38 ∨ p = 48 then
      let c : Comp := if p = 48 then .bg else .fg
      match rest with
      | a :: n :: tl =>
        if a = 5 then applySGR (s.setColor256 c (n % 256)) tl
        else if a = 2 then
          match tl with
          | g :: b :: tl' => applySGR (s.setColorRGB c n g b) tl'
          | tl0 => applySGR s (a :: n :: tl0)
        else applySGR s (a :: n :: tl)
      | [a] => applySGR s [a]
      | [] => s
    else applySGR (sgrSimple s p) rest
termination_by ps => ps.length
decreasing_by all_goals (simp_wf; try omega)

/-! ## ANSI rendering of a style (`ANSIEscape`) -/

def esc : UInt8 := 0x1b

/-- `ansiEscapeColor(c, param)`; `param` is `'3'` or `'4'` -/
def ansiEscapeColor (c0 : BitVec 32) (param : UInt8) : Bytes :=
  let c := c0 &&& ~~~modeBitsMask
  if c &&& colorTypeMask = colorTypeMask then
    let rgb := (c &&& maskRGB).toNat
    [esc, 0x5b, param, 0x38, 0x3b, 0x32, 0x3b] ++ itoa (rgb / 65536 % 256) ++ [0x3b] ++
      itoa (rgb / 256 % 256) ++ [0x3b] ++ itoa (rgb % 256) ++ [0x6d]
  else if c &&& colBright = colBright then
    let idx := (c &&& maskBrightIdx).toNat
    let base := if param = 0x34 then 100 else 90
    [esc, 0x5b] ++ itoa (base + idx) ++ [0x6d]
  else
    let v := (c &&& mask256).toNat
    if c = colDefault then []
    else if v < 8 then [esc, 0x5b, param, UInt8.ofNat (48 + v), 0x6d]
    else [esc, 0x5b, param, 0x38, 0x3b, 0x35, 0x3b] ++ itoa v ++ [0x6d]

/-- `modeToSGRCode`, by mode bit index -/
def modeSGRCode : Nat → Option Nat
  | 0 => some 1 | 1 => some 2 | 2 => some 3 | 3 => some 4 | 4 => some 5 | 5 => some 7
  | 6 => some 8 | 7 => some 9 | 8 => some 53 | 9 => some 21 | 10 => some 51 | 11 => some 52
  | 12 => some 6 | _ => none

/-- `Style.ANSIEscape()`: reset, then (if not default) reset again + modes + colours -/
def Style.ansiEscape (s : Style) : Bytes :=
  let reset : Bytes := [esc, 0x5b, 0x30, 0x6d]
  let d := Style.default
  let modesChanged := s.modeBits ≠ d.modeBits
  let fgChanged := (s.fg &&& ~~~modeBitsMask) ≠ (d.fg &&& ~~~modeBitsMask)
  let bgChanged := (s.bg &&& ~~~modeBitsMask) ≠ (d.bg &&& ~~~modeBitsMask)
  if !modesChanged && !fgChanged && !bgChanged then reset
  else
    let modes : Bytes :=
      if modesChanged then
        reset ++ (List.range 16).flatMap fun i =>
          if s.modeBits.testBit i then
            match modeSGRCode i with
            | some code => [esc, 0x5b] ++ itoa code ++ [0x6d]
            | none => []
          else []
      else []
    let fgC := fgChanged || modesChanged
    let bgC := bgChanged || modesChanged
    reset ++ modes ++ (if fgC then ansiEscapeColor s.fg 0x33 else []) ++
      (if bgC then ansiEscapeColor s.bg 0x34 else [])

end TM
