import TM.Term
/-!
# TM.Run — the read loop as a pure function of the bytes received so far.

`run` consumes every complete token at the head of the unconsumed bytes (one `ptyReadOne` per
token, or per run of text tokens) and stops at an incomplete sequence or character, which stays
unconsumed until more bytes arrive. `feed` is what the arrival of one more chunk does.
Core-only, executable.
-/
namespace TM

/-- consume complete tokens while there are any; `fuel` bounds the number of tokens -/
def runFuel (cw : Nat → Nat) : Nat → Term → Bytes → List Ev → Term × List Ev × Bytes
  | 0, t, bs, evs => (t, evs, bs)
  | fuel+1, t, bs, evs =>
    match next bs with
    | .need => (t, evs, bs)
    | .tok tk n =>
      let r := t.apply cw tk
      runFuel cw fuel r.1 (bs.drop n) (evs ++ r.2)

/-- every token spans at least one byte, so `bs.length + 1` is enough fuel -/
def run (cw : Nat → Nat) (t : Term) (bs : Bytes) : Term × List Ev × Bytes :=
  runFuel cw (bs.length + 1) t bs []

/-- reader + terminal: the terminal state and the bytes received but not yet consumed -/
structure Sys where
  t : Term
  pending : Bytes := []

/-- one more chunk arrives from the backend -/
def Sys.feed (cw : Nat → Nat) (s : Sys) (chunk : Bytes) : Sys × List Ev :=
  let r := run cw s.t (s.pending ++ chunk)
  ({ t := r.1, pending := r.2.2 }, r.2.1)

/-- a whole read script, chunk by chunk -/
def Sys.feedAll (cw : Nat → Nat) (s : Sys) : List Bytes → Sys × List Ev
  | [] => (s, [])
  | c :: cs =>
    let r := s.feed cw c
    let r' := Sys.feedAll cw r.1 cs
    (r'.1, r.2 ++ r'.2)

end TM
