import TM.Basic
/-!
# TM.Stream — byte plumbing around the parser: `Terminal.Write` (write-all loop of
`terminal.go`), the buffer of `GraphemeReader` (`fill`, `ReadByte`: `grapheme_reader.go`) and
`TeeBackend.Read` (`backend.go`). Core-only, executable.
-/
namespace TM

/-! ### `Terminal.Write` -/

inductive WErr | nil | injected | shortWrite
deriving DecidableEq, Repr

/-- what the backend does with one `Write(b)` call: `none` = fails with an error (writing
    nothing), `some k` = accepts `min k b.length` bytes without error -/
abbrev WScript := List (Option Nat)

/-- the loop of `Terminal.Write`: returns (bytes reported written, error, bytes delivered).
    Once the script is exhausted the backend accepts everything. -/
def writeAll : Nat → Bytes → WScript → Nat → Bytes → Nat × WErr × Bytes
  | 0, _, _, total, del => (total, .nil, del)
  | fuel+1, b, script, total, del =>
    if b.isEmpty then (total, .nil, del)
    else
      match script with
      | [] => (total + b.length, .nil, del ++ b)
      | none :: _ => (total, .injected, del)
      | some k :: rest =>
        let n := min k b.length
        if n = 0 then (total, .shortWrite, del)
        else writeAll fuel (b.drop n) rest (total + n) (del ++ b.take n)

def terminalWrite (b : Bytes) (script : WScript) : Nat × WErr × Bytes :=
  writeAll (b.length + 1) b script 0 []

/-! ### a failing call that made progress

`io.Writer` allows `Write` to return `n > 0` together with an error. The script above cannot say
that (a failing call writes nothing); this one can. `Terminal.Write` counts the bytes of the
failing call and returns the error. -/

/-- one `Write(b)` call of the backend: it accepts `min k b.length` bytes and, when `fails`,
    also returns an error -/
structure WCall where
  k : Nat
  fails : Bool
deriving DecidableEq, Repr

abbrev WScriptP := List WCall

def writeAllP : Nat → Bytes → WScriptP → Nat → Bytes → Nat × WErr × Bytes
  | 0, _, _, total, del => (total, .nil, del)
  | fuel+1, b, script, total, del =>
    if b.isEmpty then (total, .nil, del)
    else
      match script with
      | [] => (total + b.length, .nil, del ++ b)
      | c :: rest =>
        let n := min c.k b.length
        if c.fails then (total + n, .injected, del ++ b.take n)
        else if n = 0 then (total, .shortWrite, del)
        else writeAllP fuel (b.drop n) rest (total + n) (del ++ b.take n)

def terminalWriteP (b : Bytes) (script : WScriptP) : Nat × WErr × Bytes :=
  writeAllP (b.length + 1) b script 0 []

/-- the scripts of `terminalWrite` as scripts of `terminalWriteP` -/
def WScript.toP (s : WScript) : WScriptP :=
  s.map fun
    | none => ⟨0, true⟩
    | some k => ⟨k, false⟩

/-! ### the token reader's buffer (`GraphemeReader.data/start/end`) -/

structure RBuf where
  data : Bytes        -- the whole backing array (length = capacity)
  start : Nat
  stop : Nat          -- Go field `end`
deriving Repr

def readBufferSize : Nat := 4096

/-- the unconsumed bytes `data[start:end]` -/
def RBuf.view (r : RBuf) : Bytes := (r.data.take r.stop).drop r.start

def RBuf.wf (r : RBuf) : Prop := r.start ≤ r.stop ∧ r.stop ≤ r.data.length ∧ 0 < r.data.length

/-- the part of `fill()` before the read: compaction and doubling -/
def RBuf.makeRoom (r : RBuf) : RBuf :=
  let r1 : RBuf :=
    if r.start > 0 then
      if r.start = r.stop then { r with start := 0, stop := 0 }
      else
        let live := (r.data.take r.stop).drop r.start
        { data := live ++ r.data.drop live.length, start := 0, stop := r.stop - r.start }
    else r
  if r1.stop = r1.data.length then
    { r1 with data := r1.data ++ List.replicate r1.data.length 0 }
  else r1

/-- free space offered to `src.Read(data[end:])` -/
def RBuf.room (r : RBuf) : Nat := r.data.length - r.stop

/-- `fill()`: the source delivers `got` (at most `room` bytes of it are taken, as `Read` may
    not return more than `len(p)`) -/
def RBuf.fill (r : RBuf) (got : Bytes) : RBuf :=
  let r1 := r.makeRoom
  let g := got.take r1.room
  { r1 with data := r1.data.take r1.stop ++ g ++ r1.data.drop (r1.stop + g.length), stop := r1.stop + g.length }

/-- `ReadByte` on a non-empty buffer -/
def RBuf.readByte (r : RBuf) : Option (UInt8 × RBuf) :=
  match r.view with
  | [] => none
  | b :: _ => some (b, { r with start := r.start + 1 })

/-- consuming `n` buffered bytes (`r.start += consumed`) -/
def RBuf.consume (r : RBuf) (n : Nat) : RBuf := { r with start := r.start + n }

def RBuf.init : RBuf := { data := List.replicate readBufferSize 0, start := 0, stop := 0 }

end TM
