import TM.Screen
/-!
# TM.SpanLine — the run lists of the span buffer: a Go-shaped transcription of the row-level
code of `screen.go` (`Span`, `spanLine`, `stepRuneCluster`, `byteIndexForCell`, `splitSpan`,
`findSpanAtX`, `lineCellWidth`, `replaceRangeSpans`, `replaceRangeWide`, `truncateLine`,
`resizeLine`, `blankSpanLine`, and the row part of `writeSpanAt`, `deleteChars`, `Line`).
Rune text mode. Core-only, executable.

`TM.Screen` describes a row by its cells; this file describes it the way the code stores it —
as runs with a text or a repeated rune and a width — and `lineCells` is the abstraction map
between the two (`Props/C02Span.lean` proves that the operations here refine the cell-level
operations of `TM.Screen`). Same scans, same fast paths, same output run structure as the Go
code, so the results are compared run by run with the real functions (`spanline` check).

Modelling notes. Go `int` widths and offsets are `Nat` here (the callers clamp negative
arguments to 0 before they matter; `replaceRangeSpans` does it itself). Slices are lists:
the two ways the code builds the new run slice (fresh array / in place with `copy`) give the
same value. `Span{}` is `Span.empty`.
-/
namespace TM

structure Span where
  sty : Style
  text : Bytes          -- `""` = repeat mode: `rune` repeated `width` times
  rune : Nat
  width : Nat
deriving DecidableEq, Repr

/-- Go's zero value `Span{}` -/
def Span.empty : Span := ⟨⟨0#32, 0#32, 0#32⟩, [], 0, 0⟩

structure SLine where
  spans : List Span
  width : Nat           -- the cached row width (`spanLine.width`)
deriving DecidableEq, Repr

/-- `stepRuneCluster`: `(consumed, width)` of the first character of `buf`, `none` when the
    buffer is empty or ends inside a character. The width is `uniseg.StringWidth`, at least 1. -/
def stepRune (cw : Nat → Nat) (buf : Bytes) : Option (Nat × Nat) :=
  if !fullRune buf then none else
  let (r, size) := decodeRune buf
  if size = 0 then none else some (size, max (cw r) 1)

/-- the characters of a stored text with their widths (fuel = number of bytes) -/
def clustersAux (cw : Nat → Nat) : Nat → Bytes → List (Bytes × Nat)
  | 0, _ => []
  | fuel+1, buf =>
    match stepRune cw buf with
    | none => []
    | some (c, w) => (buf.take c, w) :: clustersAux cw fuel (buf.drop c)

def clusters (cw : Nat → Nat) (text : Bytes) : List (Bytes × Nat) := clustersAux cw text.length text

/-- `byteIndexForCell`: byte index and cell width of the shortest prefix of whole characters
    that covers at least `off` cells -/
def byteIndexAux (cw : Nat → Nat) (off : Nat) : Nat → Bytes → Nat → Nat → Nat × Nat
  | 0, _, idx, width => (idx, width)
  | fuel+1, rest, idx, width =>
    if rest.isEmpty || decide (width ≥ off) then (idx, width) else
    match stepRune cw rest with
    | none => (idx, width)
    | some (c, w) => byteIndexAux cw off fuel (rest.drop c) (idx + c) (width + w)

def byteIndexForCell (cw : Nat → Nat) (text : Bytes) (off : Nat) : Nat × Nat :=
  byteIndexAux cw off text.length text 0 0

/-- `oneCellPerByte`: every byte of the text is a character of its own occupying one cell, so
    that a cell offset is a byte offset (`Width == len(Text)` and all bytes ASCII) -/
def oneCellPerByte (sp : Span) : Bool :=
  decide (sp.width = sp.text.length) && sp.text.all (· < 0x80)

/-- the scan of `splitSpan` for a wide character that column `off` falls inside:
    `(byte index, bytes consumed, first cell, width)` of that character -/
def splitScan (cw : Nat → Nat) (off : Nat) : Nat → Bytes → Nat → Nat → Option (Nat × Nat × Nat × Nat)
  | 0, _, _, _ => none
  | fuel+1, rest, idx, cellPos =>
    match stepRune cw rest with
    | none => none
    | some (c, w) =>
      let clusterEnd := cellPos + w
      if cellPos ≤ off ∧ off < clusterEnd then
        (if w > 1 ∧ off > cellPos then some (idx, c, cellPos, w) else none)
      else splitScan cw off fuel (rest.drop c) (idx + c) clusterEnd

/-- `splitSpan(sp, off, TextReadModeRune)`: `(left, right, splitWide)` -/
def splitSpan (cw : Nat → Nat) (sp : Span) (off : Nat) : Span × Span × Span :=
  if off = 0 then (Span.empty, sp, Span.empty)
  else if off ≥ sp.width then (sp, Span.empty, Span.empty)
  else if sp.text.isEmpty then
    ({ sp with width := off }, { sp with width := sp.width - off }, Span.empty)
  else if oneCellPerByte sp then
    -- one cell per byte: cut the text at the byte
    ({ sp with text := sp.text.take off, width := off },
     { sp with text := sp.text.drop off, width := sp.width - off }, Span.empty)
  else
    match splitScan cw off sp.text.length sp.text 0 0 with
    | some (idx, c, cellPos, w) =>
      ({ sp with text := sp.text.take idx, width := cellPos },
       { sp with text := sp.text.drop (idx + c), width := sp.width - (cellPos + w) },
       { sp with text := (sp.text.drop idx).take c, width := w })
    | none =>
      let (bi, lw) := byteIndexForCell cw sp.text off
      ({ sp with text := sp.text.take bi, width := lw },
       { sp with text := sp.text.drop bi, width := sp.width - lw }, Span.empty)

/-- `findSpanAtX`: index of the run containing column `x` and the offset inside it; a column on
    a run boundary belongs to the run after it -/
def findSpanAux (x : Nat) : List Span → Nat → Nat → Nat × Nat
  | [], i, _ => (i, 0)
  | sp :: rest, i, pos =>
    let nxt := pos + sp.width
    if x = nxt then (i + 1, 0)
    else if x < nxt then (i, x - pos)
    else findSpanAux x rest (i + 1) nxt

def findSpanAtX (l : SLine) (x : Nat) : Nat × Nat :=
  if x = 0 then (0, 0) else findSpanAux x l.spans 0 0

def sumWidths (spans : List Span) : Nat := (spans.map (·.width)).sum

/-- `lineCellWidth`: the cached width, recomputed when it is 0 -/
def lineCellWidth (l : SLine) : Nat :=
  if l.width ≠ 0 ∨ l.spans.isEmpty then l.width else sumWidths l.spans

/-- what `replaceRange` did beyond the requested range -/
structure SpliceInfo where
  shift : Nat := 0      -- cells by which the insert landed right of x (a wide character was kept)
  startFill : Nat := 0  -- cells left of x that became blank (wide character cut by x)
  endFill : Nat := 0    -- cells right of x+n that became blank (wide character cut by x+n)
deriving DecidableEq, Repr

/-- first loop of `replaceRangeSpans`: `(some (index, start column))` of the run with
    `x < end`, or `none`, and the column reached -/
def scanStart (x : Nat) : List Span → Nat → Nat → Option (Nat × Nat) × Nat
  | [], _, pos => (none, pos)
  | sp :: rest, i, pos =>
    if x < pos + sp.width then (some (i, pos), pos) else scanStart x rest (i + 1) (pos + sp.width)

/-- second loop: `(some (index, end offset))` of the run with `x+n ≤ end`, and the column
    reached (the end of that run, or of the line) -/
def scanEnd (xn : Nat) : List Span → Nat → Nat → Option (Nat × Nat) × Nat
  | [], _, pos => (none, pos)
  | sp :: rest, i, pos =>
    if xn ≤ pos + sp.width then (some (i, xn - pos), pos + sp.width)
    else scanEnd xn rest (i + 1) (pos + sp.width)

def blankSpan (st : Style) (w : Nat) : Span := ⟨st, [], 0x20, w⟩

/-- `replaceRangeSpans(line, x, n, insert, TextReadModeRune, keepWide)` on the run list -/
def replaceRangeSpans (cw : Nat → Nat) (spans : List Span) (x n : Nat) (ins : Span) (keepWide : Bool) :
    List Span × SpliceInfo :=
  if n = 0 ∧ ins.width = 0 then (spans, {}) else
  if spans.isEmpty then ((if ins.width > 0 then [ins] else []), {}) else
  let len := spans.length
  -- locate the runs that intersect the window
  let (st, pos1) := scanStart x spans 0 0
  let startIdx := match st with | some (i, _) => i | none => len
  let startOffset := match st with | some (_, p) => x - p | none => 0
  let (en, pos2) := match st with
    | some (i, p) => scanEnd (x + n) (spans.drop i) i p
    | none => (none, pos1)
  let endIdx := match en with | some (i, _) => i | none => len - 1
  let endOffset := match en with | some (_, o) => o | none => 0
  -- clamp to the width scanned
  let scanned := pos2
  let x := if x > scanned then scanned else x
  let over := decide (x + n > scanned)
  let n := if over then scanned - x else n
  let endIdx := if over then len - 1 else endIdx
  let endOffset := if over then (spans.getD (len - 1) Span.empty).width else endOffset
  if x = 0 ∧ endIdx = len - 1 ∧ endOffset = (spans.getD endIdx Span.empty).width then
    -- the whole line is replaced
    ((if ins.width > 0 then [ins] else []), {})
  else if startIdx = len then
    ((if ins.width > 0 then spans ++ [ins] else spans), {})
  else
  let sp := spans.getD startIdx Span.empty
  -- fast paths inside a single run
  if startIdx = endIdx ∧ startOffset = 0 ∧ endOffset = sp.width ∧ ins.width > 0 then
    (spans.set startIdx ins, {})
  else if startIdx = endIdx ∧ ins.width = n ∧ sp.sty = ins.sty ∧
      sp.text.isEmpty ∧ ins.text.isEmpty ∧ sp.rune = ins.rune then
    (spans, {})
  else if startIdx = endIdx ∧ ins.width = n ∧ sp.sty = ins.sty ∧
      !sp.text.isEmpty ∧ !ins.text.isEmpty ∧ oneCellPerByte sp ∧ oneCellPerByte ins then
    (spans.set startIdx { sp with text := sp.text.take startOffset ++ ins.text ++ sp.text.drop (startOffset + n) }, {})
  else
  -- split the boundary runs
  let (left, shift, startFill) :=
    if startOffset > 0 then
      let (l, _, wide) := splitSpan cw sp startOffset
      if wide.width > 0 then
        if keepWide then
          let l' := if l.width > 0 then { l with text := l.text ++ wide.text, width := l.width + wide.width } else wide
          (l', l'.width - startOffset, 0)
        else (l, 0, startOffset - l.width)
      else (l, 0, 0)
    else (Span.empty, 0, 0)
  let hasLeft := decide (left.width > 0)
  let esp := spans.getD endIdx Span.empty
  let (right, endFill) :=
    if endOffset < esp.width then
      let (_, r, wide) := splitSpan cw esp endOffset
      (r, if wide.width > 0 then esp.width - endOffset - r.width else 0)
    else (Span.empty, 0)
  let hasRight := decide (right.width > 0)
  let mid : List Span :=
    (if hasLeft then [left] else []) ++
    (if startFill > 0 then [blankSpan ins.sty startFill] else []) ++
    (if ins.width > 0 then [ins] else []) ++
    (if endFill > 0 then [blankSpan ins.sty endFill] else []) ++
    (if hasRight then [right] else [])
  (spans.take startIdx ++ mid ++ spans.drop (endIdx + 1),
   { shift := shift, startFill := startFill, endFill := endFill })

/-- `replaceRangeWide`: the splice, then the cached width is the sum of the run widths -/
def replaceRangeWide (cw : Nat → Nat) (l : SLine) (x n : Nat) (ins : Span) (keepWide : Bool) :
    SLine × SpliceInfo :=
  let (sp, info) := replaceRangeSpans cw l.spans x n ins keepWide
  ({ spans := sp, width := sumWidths sp }, info)

/-- `truncateLine` -/
def truncateLine (cw : Nat → Nat) (l : SLine) (width : Nat) (st : Style) : SLine :=
  if width = 0 then ⟨[], 0⟩ else
  (replaceRangeWide cw l width (lineCellWidth l - width) ⟨st, [], 0, 0⟩ false).1

/-- `resizeLine` -/
def resizeLine (cw : Nat → Nat) (l : SLine) (width : Nat) (st : Style) : SLine :=
  let cur := lineCellWidth l
  if cur > width then truncateLine cw l width st
  else if cur < width then { spans := l.spans ++ [blankSpan st (width - cur)], width := width }
  else { l with width := width }

def blankSpanLine (w : Nat) (st : Style) : SLine := ⟨[blankSpan st w], w⟩

/-- the row part of `writeSpanAt(x, y, sp, cr)` on a screen of width `W` in current style `cur`:
    new row, shift, announced columns `[a, b)`. `keep` is `cr == CRText`. The caller has checked
    `sp.width > 0` and `x + sp.width ≤ W`. -/
def writeSpanLine (cw : Nat → Nat) (W : Nat) (cur : Style) (l : SLine) (x : Nat) (sp : Span) (keep : Bool) :
    SLine × Nat × Nat × Nat :=
  let (l1, info) := replaceRangeWide cw l x sp.width sp keep
  if lineCellWidth l1 > W then (truncateLine cw l1 W cur, info.shift, 0, W)
  else (l1, info.shift, x - info.startFill, x + sp.width + info.endFill)

/-- the row part of `deleteChars(x, y, n, cr)` for `0 ≤ x < W`, `n > 0` (clamped here as there):
    new row and the first announced column (the announcement ends at `W`) -/
def deleteCharsLine (cw : Nat → Nat) (W : Nat) (cur : Style) (l : SLine) (x n : Nat) : SLine × Nat :=
  let n := if x + n > W then W - x else n
  let (l1, info) := replaceRangeWide cw l x n ⟨cur, [], 0, 0⟩ false
  let c := lineCellWidth l1
  let l2 := if c < W then { spans := l1.spans ++ [blankSpan cur (W - c)], width := W } else l1
  (l2, x - info.startFill)

/-- the row part of `eraseRegion`: a blank run of `b - a` cells written at `a` (`a ≤ b ≤ W`) -/
def eraseLine (cw : Nat → Nat) (W : Nat) (cur : Style) (l : SLine) (a b : Nat) : SLine :=
  if b ≤ a then l else (writeSpanLine cw W cur l a (blankSpan cur (b - a)) false).1


/-- the loop of `StyledLine(x, w, y)` over the runs: the runs clipped to columns `[x, x+w)`;
    the cells of a wide character cut by either edge are reported as blanks in its style -/
def styledLineAux (cw : Nat → Nat) (x w : Nat) : List Span → Nat → List Span
  | [], _ => []
  | sp :: rest, pos =>
    let endPos := pos + sp.width
    if endPos ≤ x then styledLineAux cw x w rest endPos
    else if pos ≥ x + w then []
    else
      let startO := max pos x
      let endO := min endPos (x + w)
      let width := endO - startO
      let out : List Span :=
        if width > 0 then
          let offset := startO - pos
          if offset = 0 ∧ width = sp.width then [sp] else
            let (left, sub, cutL) := splitSpan cw sp offset
            let pad := if cutL.width > 0 then min (left.width + cutL.width - offset) width else 0
            let pre := if cutL.width > 0 then [blankSpan sp.sty pad] else []
            let width := width - pad
            let tail : List Span :=
              if sub.width > width then
                let (keep, _, cutR) := splitSpan cw sub width
                (if keep.width > 0 then [keep] else []) ++
                (if cutR.width > 0 ∧ width > keep.width then [blankSpan sp.sty (width - keep.width)] else [])
              else if sub.width > 0 then [sub] else []
            pre ++ tail
        else []
      out ++ styledLineAux cw x w rest endPos

/-- `StyledLine(x, w, y)` on a screen of width `W` (`w = none`: a negative width, i.e. "to the end") -/
def styledLine (cw : Nat → Nat) (W : Nat) (l : SLine) (x : Nat) (w : Option Nat) : List Span × Nat :=
  let w := match w with
    | some w => if x + w > W then W - x else w
    | none => W - x
  (styledLineAux cw x w l.spans 0, w)


/-! ### text handed to the row code by `writeString` -/

/-- `replaceInvalidUTF8`: U+FFFD for every byte that is not part of a valid UTF-8 character
    (a valid text is returned as it is: decoding and encoding a valid character is the identity) -/
def replaceInvalidAux : Nat → Bytes → Bytes
  | 0, _ => []
  | _+1, [] => []
  | fuel+1, b :: rest =>
    let (r, size) := decodeRune (b :: rest)
    encodeRune r ++ replaceInvalidAux fuel ((b :: rest).drop (max size 1))

def replaceInvalidUTF8 (text : Bytes) : Bytes := replaceInvalidAux text.length text

/-- the loop of `splitRunToFit`: `(cut, headWidth, total)` -/
def splitRunAux (cw : Nat → Nat) (limit : Nat) : Nat → Bytes → Nat → Nat → Nat → Nat → Nat × Nat × Nat
  | 0, _, _, cut, hw, total => (cut, hw, total)
  | fuel+1, rest, idx, cut, hw, total =>
    match stepRune cw rest with
    | none => (cut, hw, total)
    | some (c, w) =>
      let take := decide (cut = idx) && (decide (idx = 0) || decide (w = 0) || decide (hw + w ≤ limit))
      splitRunAux cw limit fuel (rest.drop c) (idx + c) (if take then idx + c else cut)
        (if take then hw + w else hw) (total + w)

/-- `splitRunToFit(text, limit, TextReadModeRune)`: a run of several characters cut into a head of
    at most `limit` cells (at least one character) and the rest; `none` for a single character -/
def splitRunToFit (cw : Nat → Nat) (text : Bytes) (limit : Nat) : Option (Bytes × Nat × Bytes × Nat) :=
  let (cut, hw, total) := splitRunAux cw limit text.length text 0 0 0 0
  if cut = 0 ∨ cut ≥ text.length then none
  else some (text.take cut, max hw 1, text.drop cut, max (total - hw) 1)

/-! ### abstraction to cells -/

/-- the cells of a stored text in style `st` -/
def textCells (cw : Nat → Nat) (text : Bytes) (st : Style) : List Cell :=
  (clusters cw text).flatMap fun (b, w) => charCells b w st

def spanCells (cw : Nat → Nat) (sp : Span) : List Cell :=
  if sp.text.isEmpty then List.replicate sp.width ⟨.ch (encodeRune sp.rune) 1, sp.sty⟩
  else textCells cw sp.text sp.sty

/-- the row a run list describes -/
def lineCells (cw : Nat → Nat) (l : SLine) : Row := l.spans.flatMap (spanCells cw)

/-- `Line(y)`: the text of the row (padded to `W` with spaces when the runs are short) -/
def lineText (W : Nat) (l : SLine) : Bytes :=
  let t := l.spans.flatMap fun sp =>
    if sp.text.isEmpty then (List.replicate sp.width (encodeRune sp.rune)).flatten else sp.text
  t ++ List.replicate (W - sumWidths l.spans) 0x20


/-- `renderLineANSI(y)`: in front of every run the complete escape of its attributes
    (`Style.ANSIEscape`: reset, modes, colours), then its text -/
def lineANSI (l : SLine) : Bytes :=
  l.spans.flatMap fun sp =>
    if sp.width = 0 then [] else
    sp.sty.ansiEscape ++
      (if sp.text.isEmpty then (List.replicate sp.width (encodeRune sp.rune)).flatten else sp.text)

/-! ### invariant (decidable) -/

/-- a stored text tokenises completely, into characters whose widths sum to `w` -/
def textOK (cw : Nat → Nat) (text : Bytes) (w : Nat) : Bool :=
  let cs := clusters cw text
  decide ((cs.map (·.1.length)).sum = text.length) && decide ((cs.map (·.2)).sum = w)

/-- one run: positive width; a repeated rune is one cell wide; a text covers exactly its width -/
def spanOK (cw : Nat → Nat) (sp : Span) : Bool :=
  decide (sp.width > 0) &&
  (if sp.text.isEmpty then decide (cw sp.rune ≤ 1) else textOK cw sp.text sp.width)

/-- C02's statement about one row: runs of positive width that sum to exactly `W` (and the cached
    width says so) -/
def lineOK (cw : Nat → Nat) (W : Nat) (l : SLine) : Bool :=
  l.spans.all (spanOK cw) && decide (sumWidths l.spans = W) && decide (l.width = W)

/-! ### the invariant the operations preserve

`lineOK` above is NOT preserved (theorem `C02Span.lineOK_not_preserved`): it accepts a text such as
`[0xE4, 0x41]`, whose first byte tokenises as a character of its own only because of the byte
after it; cut off, `[0xE4]` is an incomplete character and shows no cell. The code never stores
such a text (`replaceInvalidUTF8` runs first); the invariant that says so, and that every
row-level operation keeps, asks in addition that every character of a stored text tokenises on
its own. -/

def textWF (cw : Nat → Nat) (text : Bytes) (w : Nat) : Bool :=
  textOK cw text w &&
  (clusters cw text).all fun p => stepRune cw p.1 == some (p.1.length, p.2)

def spanWF (cw : Nat → Nat) (sp : Span) : Bool :=
  decide (sp.width > 0) &&
  (if sp.text.isEmpty then decide (cw sp.rune ≤ 1) else textWF cw sp.text sp.width)

/-- C02's statement about one row, in the form the operations preserve -/
def lineWF (cw : Nat → Nat) (W : Nat) (l : SLine) : Bool :=
  l.spans.all (spanWF cw) && decide (sumWidths l.spans = W) && decide (l.width = W)

end TM
