/-!
# TM.Basic — bytes, decimal, hex and UTF-8 (transcriptions of the Go standard-library
functions the emulator relies on: `utf8.FullRune`, `utf8.DecodeRune`, `utf8.EncodeRune`,
`strconv.Itoa`). Core-only, executable.
-/
namespace TM

abbrev Bytes := List UInt8

/-! ## decimal -/

/-- digits of `n`, most significant first, as ASCII bytes (`strconv.Itoa` for `n ≥ 0`) -/
def natDigitsAux : Nat → Nat → List UInt8 → List UInt8
  | 0, _, acc => acc
  | fuel+1, n, acc =>
    let acc' := (UInt8.ofNat (48 + n % 10)) :: acc
    if n / 10 = 0 then acc' else natDigitsAux fuel (n / 10) acc'

def itoa (n : Nat) : Bytes := natDigitsAux (n + 1) n []

def itoaInt (i : Int) : Bytes :=
  if i < 0 then 0x2d :: itoa i.natAbs else itoa i.toNat

def isDigit (b : UInt8) : Bool := 0x30 ≤ b && b ≤ 0x39

/-! ## hex (line protocol) -/

def hexDigit (n : Nat) : Char :=
  if n < 10 then Char.ofNat (48 + n) else Char.ofNat (87 + n)

def hexOfBytes (bs : Bytes) : String :=
  String.ofList (bs.flatMap fun b => [hexDigit (b.toNat / 16), hexDigit (b.toNat % 16)])

def hexVal (c : Char) : Option Nat :=
  if '0' ≤ c ∧ c ≤ '9' then some (c.toNat - 48)
  else if 'a' ≤ c ∧ c ≤ 'f' then some (c.toNat - 87)
  else if 'A' ≤ c ∧ c ≤ 'F' then some (c.toNat - 55)
  else none

def bytesOfHexAux : List Char → Bytes → Option Bytes
  | [], acc => some acc.reverse
  | [_], _ => none
  | a :: b :: rest, acc =>
    match hexVal a, hexVal b with
    | some x, some y => bytesOfHexAux rest (UInt8.ofNat (x * 16 + y) :: acc)
    | _, _ => none

def bytesOfHex (s : String) : Option Bytes :=
  if s = "-" then some [] else bytesOfHexAux s.toList []

def hexOrDash (bs : Bytes) : String := if bs.isEmpty then "-" else hexOfBytes bs

/-! ## UTF-8 (Go `unicode/utf8`) -/

def isCont (b : UInt8) : Bool := 0x80 ≤ b && b ≤ 0xBF

/-- length announced by a lead byte; `0` for a byte that cannot start a character -/
def leadLen (b : UInt8) : Nat :=
  if b < 0x80 then 1
  else if b < 0xC2 then 0
  else if b < 0xE0 then 2
  else if b < 0xF0 then 3
  else if b < 0xF5 then 4
  else 0

/-- accepted range of the second byte after lead `b` (Go's `acceptRanges`) -/
def secondLo (b : UInt8) : UInt8 :=
  if b = 0xE0 then 0xA0 else if b = 0xF0 then 0x90 else 0x80
def secondHi (b : UInt8) : UInt8 :=
  if b = 0xED then 0x9F else if b = 0xF4 then 0x8F else 0xBF

def secondOk (lead b : UInt8) : Bool := secondLo lead ≤ b && b ≤ secondHi lead

/-- `utf8.FullRune` -/
def fullRune : Bytes → Bool
  | [] => false
  | b0 :: rest =>
    let n := leadLen b0
    if n ≤ 1 then true
    else if rest.length + 1 ≥ n then true
    else match rest with
      | [] => false
      | b1 :: rest2 =>
        if !secondOk b0 b1 then true
        else match rest2 with
          | [] => false
          | b2 :: _ => !isCont b2

/-- `utf8.DecodeRune` on a non-empty slice: `(rune, size)`; invalid ⇒ `(0xFFFD, 1)` -/
def decodeRune : Bytes → Nat × Nat
  | [] => (0xFFFD, 0)
  | b0 :: rest =>
    match leadLen b0, rest with
    | 1, _ => (b0.toNat, 1)
    | 2, b1 :: _ =>
      if secondOk b0 b1 then ((b0.toNat % 32) * 64 + b1.toNat % 64, 2) else (0xFFFD, 1)
    | 3, b1 :: b2 :: _ =>
      if secondOk b0 b1 && isCont b2 then
        ((b0.toNat % 16) * 4096 + (b1.toNat % 64) * 64 + b2.toNat % 64, 3)
      else (0xFFFD, 1)
    | 4, b1 :: b2 :: b3 :: _ =>
      if secondOk b0 b1 && isCont b2 && isCont b3 then
        ((b0.toNat % 8) * 262144 + (b1.toNat % 64) * 4096 + (b2.toNat % 64) * 64 + b3.toNat % 64, 4)
      else (0xFFFD, 1)
    | _, _ => (0xFFFD, 1)

/-- `utf8.EncodeRune` / `string(rune)`: invalid code points encode U+FFFD -/
def encodeRune (r : Nat) : Bytes :=
  let u (n : Nat) : UInt8 := UInt8.ofNat n
  if r < 0x80 then [u r]
  else if r < 0x800 then [u (0xC0 + r / 64), u (0x80 + r % 64)]
  else if 0xD800 ≤ r ∧ r < 0xE000 then [0xEF, 0xBF, 0xBD]
  else if r < 0x10000 then [u (0xE0 + r / 4096), u (0x80 + (r / 64) % 64), u (0x80 + r % 64)]
  else if r < 0x110000 then
    [u (0xF0 + r / 262144), u (0x80 + (r / 4096) % 64), u (0x80 + (r / 64) % 64), u (0x80 + r % 64)]
  else [0xEF, 0xBF, 0xBD]

def replacementChar : Bytes := [0xEF, 0xBF, 0xBD]

end TM
