import TM.Stream
import TM.Parser
import TM.SpanLine
/-!
# TM.Reader — the token reader in rune mode: a Go-shaped transcription of
`GraphemeReader.ReadPrintableBytes`, `ReadByte` and `fill` (`grapheme_reader.go`) over the buffer
model `RBuf` of `TM.Stream` and a scripted source. Core-only, executable.

`TM.Parser.next` describes WHAT the parser makes of the bytes received so far; this file
describes HOW the real reader gets at them: the refill loop, compaction under a run in progress
(`runStart` is re-read after every `fill`), a character cut by the end of the buffered data, the
width limit of a run, reads that return nothing, errors with and without data.

The source is a script: every entry is one `Read` call — the bytes it returns and whether it
returns an error with them; a call that offers less room than the entry holds gets what fits,
the rest stays for the next call; an exhausted script returns an error (EOF) and no data.
-/
namespace TM

structure Rdr where
  buf : RBuf
  src : List (Bytes × Bool)
deriving Repr

def Rdr.init (script : List (Bytes × Bool)) : Rdr := { buf := ⟨[], 0, 0⟩, src := script }

def Rdr.buffered (r : Rdr) : Nat := r.buf.stop - r.buf.start

/-- `r.data[r.start]` when something is buffered -/
def Rdr.first (r : Rdr) : Option UInt8 := r.buf.view.head?

def Rdr.firstPrintable (r : Rdr) : Bool :=
  match r.first with
  | some b => isPrintableByte b
  | none => false

/-- `fill()`: allocate on first use, compact, double when full, one `Read` of the source;
    returns the error flag of that read -/
def Rdr.fill (r : Rdr) : Rdr × Bool :=
  let b0 : RBuf := if r.buf.data.isEmpty then RBuf.init else r.buf
  match r.src with
  | [] => ({ r with buf := b0.fill [] }, true)
  | (d, e) :: rest =>
    let room := b0.makeRoom.room
    if d.length ≤ room then ({ buf := b0.fill d, src := rest }, e)
    else ({ buf := b0.fill (d.take room), src := (d.drop room, e) :: rest }, false)

/-- `for r.Buffered() == 0 { err := r.fill(); if err != nil && r.Buffered() == 0 { return err } }` -/
def Rdr.waitData : Nat → Rdr → Rdr × Bool
  | 0, r => (r, false)
  | fuel+1, r =>
    if r.buffered ≠ 0 then (r, false) else
    let (r', e) := r.fill
    if e ∧ r'.buffered = 0 then (r', true) else Rdr.waitData fuel r'

/-- what `ReadPrintableBytes` returns: text, width, error -/
structure RunOut where
  text : Bytes := []
  width : Nat := 0
  err : Bool := false
deriving DecidableEq, Repr

def Rdr.finish (r : Rdr) (runStart widthUsed : Nat) : Rdr × RunOut :=
  if r.buf.start = runStart then (r, {})
  else (r, { text := (r.buf.data.take r.buf.start).drop runStart, width := widthUsed })

/-- the main loop of `ReadPrintableBytes(maxWidth)` in rune mode -/
def Rdr.runLoop (cw : Nat → Nat) (maxW : Nat) : Nat → Rdr → Nat → Nat → Rdr × RunOut
  | 0, r, rs, wu => r.finish rs wu
  | fuel+1, r, rs, wu =>
    if r.buf.start ≥ r.buf.stop then
      if rs = r.buf.start then
        let (r', e) := r.fill
        if e ∧ r'.buffered = 0 then (r', { err := true })
        else if r'.buffered = 0 ∨ !r'.firstPrintable then (r', {})
        else Rdr.runLoop cw maxW fuel r' r'.buf.start wu
      else r.finish rs wu
    else if !r.firstPrintable then r.finish rs wu
    else
      match stepRune cw r.buf.view with
      | none =>
        if r.buf.start = rs then
          let before := r.buffered
          let (r', e) := r.fill
          if r'.buffered = before ∧ e then (r', { err := true })
          else Rdr.runLoop cw maxW fuel r' r'.buf.start wu
        else r.finish rs wu
      | some (c, w) =>
        if maxW > 0 ∧ wu + w > maxW ∧ wu > 0 then r.finish rs wu
        else Rdr.runLoop cw maxW fuel { r with buf := r.buf.consume c } rs (wu + w)

/-- enough fuel for every loop of the reader: each iteration consumes a byte or a source call -/
def Rdr.fuel (r : Rdr) : Nat :=
  2 * (r.buffered + (r.src.map (·.1.length)).sum) + 2 * r.src.length + 8

/-- `ReadPrintableBytes(maxWidth)` (rune mode: never a merge run) -/
def Rdr.readPrintable (cw : Nat → Nat) (r : Rdr) (maxW : Nat) : Rdr × RunOut :=
  let (r1, e) := Rdr.waitData r.fuel r
  if e then (r1, { err := true })
  else if r1.buffered = 0 ∨ !r1.firstPrintable then (r1, {})
  else Rdr.runLoop cw maxW r1.fuel r1 r1.buf.start 0

/-- the refill loop of `ReadByte`: stops at the first error -/
def Rdr.waitByte : Nat → Rdr → Rdr × Bool
  | 0, r => (r, false)
  | fuel+1, r =>
    if r.buffered ≠ 0 then (r, false) else
    let (r', e) := r.fill
    if e then (r', true) else Rdr.waitByte fuel r'

/-- `ReadByte`: the next byte, or `none` with the error flag (an error that came with data is
    not reported: the data is handed out first) -/
def Rdr.readByte (r : Rdr) : Rdr × Option UInt8 :=
  let (r1, _) := Rdr.waitByte r.fuel r
  match r1.first with
  | none => (r1, none)
  | some b => ({ r1 with buf := r1.buf.consume 1 }, some b)

/-- every byte the reader will still hand out: the buffered ones and the rest of the script -/
def Rdr.pending (r : Rdr) : Bytes := r.buf.view ++ (r.src.map (·.1)).flatten

end TM
