import TM.Style
/-!
# TM.Screen — one screen buffer as a grid of cells (model of `screen.go` / `screen_grid.go`
at the level of what every accessor can observe). Core-only, executable.

`WidePolicy.keep` is the span buffer, `.blank` the grid buffer; they differ only in `Scr.put`
when the cursor stands on the second cell of a double-width character.
-/
namespace TM

inductive Glyph
  | ch (text : Bytes) (w : Nat)   -- first cell of a character occupying `w ≥ 1` cells
  | cont                          -- a further cell of the wide character to its left
deriving DecidableEq, Repr

structure Cell where
  g : Glyph
  sty : Style
deriving DecidableEq, Repr

abbrev Row := List Cell

def blank (st : Style) : Cell := ⟨.ch [0x20] 1, st⟩
def blankRow (w : Nat) (st : Style) : Row := List.replicate w (blank st)

inductive WidePolicy | blank | keep deriving DecidableEq, Repr

structure Scr where
  w : Nat
  h : Nat
  grid : List Row
  cx : Nat
  cy : Nat
  sx : Nat
  sy : Nat
  top : Nat
  bot : Nat
  wrap : Bool
  sty : Style
deriving Repr, DecidableEq

/-- `newSpanScreen` / `newGridScreen` followed by the initial `Resize(w,h)` -/
def Scr.init (w h : Nat) : Scr :=
  { w := w, h := h, grid := List.replicate h (blankRow w Style.default),
    cx := 0, cy := 0, sx := 0, sy := 0, top := 0, bot := h - 1, wrap := false,
    sty := Style.default }

/-! ### rows -/

def contAt (r : Row) (x : Nat) : Bool :=
  match r[x]? with
  | some ⟨.cont, _⟩ => true
  | _ => false

/-- column of the first cell of the character covering column `x` -/
def headOf (r : Row) : Nat → Nat
  | 0 => 0
  | x+1 => if contAt r (x+1) then headOf r x else x+1

def widthAt (r : Row) (x : Nat) : Nat :=
  match r[x]? with
  | some ⟨.ch _ w, _⟩ => max w 1
  | _ => 1

/-- replace cells `[a, a+n)` (inside the row) by blanks in `st` -/
def blankRange (r : Row) (a n : Nat) (st : Style) : Row :=
  r.mapIdx fun i c => if a ≤ i ∧ i < a + n then blank st else c

/-- blank (in `st`) every cell of the character covering column `x` when it is wide -/
def blankCharAt (r : Row) (x : Nat) (st : Style) : Row :=
  let hd := headOf r x
  let w := widthAt r hd
  if w ≤ 1 ∧ !contAt r x then r else blankRange r hd w st

/-- blank every wide character that is only partly inside `[a,b)` -/
def blankStraddlers (r : Row) (a b : Nat) (st : Style) : Row :=
  let r1 := if contAt r a then blankCharAt r a st else r
  if contAt r1 b then blankCharAt r1 b st else r1

def setRange (r : Row) (a : Nat) (cells : List Cell) : Row :=
  r.mapIdx fun i c => if a ≤ i ∧ i < a + cells.length then cells.getD (i - a) c else c

def charCells (text : Bytes) (w : Nat) (st : Style) : List Cell :=
  ⟨.ch text w, st⟩ :: List.replicate (w - 1) ⟨.cont, st⟩

/-- overwrite `[x, x+w)` with one character; wide characters cut by either edge become blanks -/
def Row.put (r : Row) (x : Nat) (text : Bytes) (w : Nat) (st : Style) : Row :=
  setRange (blankStraddlers r x (x + w) st) x (charCells text w st)

/-- erase `[a,b)`: blanks in `st`, cut wide characters blanked whole -/
def Row.erase (r : Row) (a b : Nat) (st : Style) : Row :=
  let b := min b r.length
  if a ≥ b then r else
  blankRange (blankStraddlers r a b st) a (b - a) st

/-- DCH: delete `n` cells at `x`, shift the rest left, blank tail in `st` -/
def Row.dch (r : Row) (x n : Nat) (st : Style) : Row :=
  let W := r.length
  if x ≥ W ∨ n = 0 then r else
  let n := min n (W - x)
  let r1 := blankStraddlers r x (x + n) st
  r1.take x ++ r1.drop (x + n) ++ List.replicate n (blank st)

/-- a double-width character cut by the right edge (its head is the last cell) becomes a blank -/
def fixTail (r : Row) (st : Style) : Row :=
  match r.getLast? with
  | some ⟨.ch _ cw, _⟩ => if cw > 1 then r.dropLast ++ [blank st] else r
  | _ => r

/-- a row cut back to `W` cells (`truncateLine`): a wide character cut by the new edge — of any
    width — becomes blanks in `st` -/
def cutRow (r : Row) (W : Nat) (st : Style) : Row :=
  (if contAt r W then blankCharAt r W st else r).take W

/-- span-buffer policy for a text write that starts on a continuation cell: keep the wide
    character, insert the text after it, cut the row back to its width -/
def Row.putKeep (r : Row) (x : Nat) (text : Bytes) (w : Nat) (st : Style) : Row :=
  let W := r.length
  let e := headOf r x + widthAt r (headOf r x)     -- first column after the kept character
  let b := x + w                                   -- end of the range the write addresses
  -- the cells of the kept character right of the addressed range are handed on as blanks; a
  -- different wide character cut by the end of the range is blanked
  let tail := if b < e then List.replicate (e - b) (blank st) ++ r.drop e
              else (if contAt r b then blankCharAt r b st else r).drop b
  cutRow (r.take e ++ charCells text w st ++ tail) W st

/-! ### screens -/

def Scr.row (s : Scr) (y : Nat) : Row := s.grid.getD y []
def Scr.setRow (s : Scr) (y : Nat) (r : Row) : Scr := { s with grid := s.grid.set y r }

/-- rows `[y1,y2]` shifted by `d` (down if positive); vacated rows blank in the current style;
    `|d|` larger than the region clears it -/
def Scr.scroll (s : Scr) (y1 y2 : Nat) (d : Int) : Scr :=
  if y1 > y2 ∨ y2 ≥ s.h then s else
  let n := y2 - y1 + 1
  let k := min d.natAbs n
  let region := (s.grid.drop y1).take n
  let blanks := List.replicate k (blankRow s.w s.sty)
  let region' := if d ≥ 0 then blanks ++ region.take (n - k) else region.drop k ++ blanks
  { s with grid := s.grid.take y1 ++ region' ++ s.grid.drop (y2 + 1) }

/-- move down one row, scrolling the region only when leaving its bottom row -/
def Scr.lineDown (s : Scr) : Scr :=
  if s.cy = s.bot then s.scroll s.top s.bot (-1)
  else if s.cy + 1 < s.h then { s with cy := s.cy + 1 } else s

def Scr.lineUp (s : Scr) : Scr :=
  if s.cy = s.top then s.scroll s.top s.bot 1
  else if 0 < s.cy then { s with cy := s.cy - 1 } else s

/-- one printable character of nominal width `w0` (C03). A character wider than the whole
    screen is replaced by U+FFFD. Under the `keep` policy a write on the second cell of a wide
    character is inserted after it and the cursor ends after the inserted text. -/
def Scr.put (pol : WidePolicy) (s : Scr) (text0 : Bytes) (w0 : Nat) : Scr :=
  let tooWide := max w0 1 > s.w
  let text := if tooWide then replacementChar else text0
  let w := if tooWide then 1 else max w0 1
  let s := if s.cx + w > s.w then
             (if s.wrap then ({ s with cx := 0 } : Scr).lineDown else { s with cx := s.w - w })
           else s
  let r := s.row s.cy
  let keep := contAt r s.cx && pol == .keep
  let r' := if keep then r.putKeep s.cx text w s.sty else r.put s.cx text w s.sty
  let s := s.setRow s.cy r'
  let x := s.cx + w + (if keep then headOf r s.cx + widthAt r (headOf r s.cx) - s.cx else 0)
  if x < s.w then { s with cx := x }
  else if s.wrap then ({ s with cx := x - s.w } : Scr).lineDown
  else { s with cx := s.w - 1 }

/-- grapheme mode: append `text` to the character in the cell left of the cursor -/
def Scr.merge (s : Scr) (text : Bytes) : Scr :=
  if s.cx = 0 then s else
  let r := s.row s.cy
  let hd := headOf r (s.cx - 1)
  match r[hd]? with
  | some ⟨.ch t w, st⟩ => s.setRow s.cy (r.set hd ⟨.ch (t ++ text) w, st⟩)
  | _ => s

/-- `eraseRegion` with the region already clamped to `0 ≤ x1 ≤ x2 ≤ w`, `0 ≤ y1 ≤ y2 ≤ h` -/
def Scr.eraseRegion (s : Scr) (x1 y1 x2 y2 : Nat) : Scr :=
  { s with grid := s.grid.mapIdx fun y r => if y1 ≤ y ∧ y < y2 then r.erase x1 x2 s.sty else r }

def clampNat (v : Int) (hi : Nat) : Nat := min (max v 0).toNat hi

/-- `eraseRegion(Region{x1,y1,x2,y2})` with `Region.Clamp` to the screen -/
def Scr.eraseRegionI (s : Scr) (x1 y1 x2 y2 : Int) : Scr :=
  let nx := clampNat x1 s.w
  let ny := clampNat y1 s.h
  s.eraseRegion nx ny (max (clampNat x2 s.w) nx) (max (clampNat y2 s.h) ny)

def Scr.dch (s : Scr) (n : Nat) : Scr := s.setRow s.cy ((s.row s.cy).dch s.cx n s.sty)

def Scr.inRegion (s : Scr) : Bool := s.top ≤ s.cy && s.cy ≤ s.bot

/-- DECSTBM with 0-based, already defaulted arguments; a request whose top lies below its bottom
    is ignored (compared as given, before clamping: also when both lie beyond the screen) -/
def Scr.setMargins (s : Scr) (t b : Int) : Scr :=
  if t > b then s else
  let t' := clampNat t (s.h - 1)
  let b' := clampNat b (s.h - 1)
  if t' > b' then s else { s with top := t', bot := b' }

def Scr.setCursor (s : Scr) (x y : Int) : Scr :=
  { s with cx := clampNat x (s.w - 1), cy := clampNat y (s.h - 1) }

def Scr.saveCursor (s : Scr) : Scr := { s with sx := s.cx, sy := s.cy }
def Scr.restoreCursor (s : Scr) : Scr := { s with cx := s.sx, cy := s.sy }

/-- one row brought to width `w`: kept cells, a wide character cut by the new edge blanked,
    new cells blank in `st` -/
def fitRow (r : Row) (w : Nat) (st : Style) : Row :=
  if r.length ≥ w then
    let r1 := if contAt r w then blankCharAt r w st else r
    r1.take w
  else r ++ List.replicate (w - r.length) (blank st)

/-- `setSize(w,h)`: overlap kept, new cells blank in the current style, cursor / saved cursor /
    margins brought inside -/
def Scr.resize (s : Scr) (w h : Nat) : Scr :=
  let rows := (s.grid.take h).map (fitRow · w s.sty)
  let rows := rows ++ List.replicate (h - rows.length) (blankRow w s.sty)
  -- the bottom margin keeps its distance from the last row (as the code does), clamped
  let bot := clampNat ((h : Int) - ((s.h : Int) - (s.bot : Int))) (h - 1)
  { s with w := w, h := h, grid := rows,
           cx := if s.cx < w then s.cx else 0, cy := if s.cy < h then s.cy else 0,
           sx := if s.sx < w then s.sx else 0, sy := if s.sy < h then s.sy else 0,
           top := min s.top bot, bot := bot }

/-! ### invariant (decidable) -/

def rowWF (r : Row) : Bool :=
  (List.range r.length).all fun i =>
    match r[i]? with
    | some ⟨.ch _ w, _⟩ => decide (w ≥ 1) && decide (i + w ≤ r.length) &&
        (List.range (w - 1)).all (fun k => contAt r (i + 1 + k)) && !contAt r (i + w)
    | some ⟨.cont, _⟩ => decide (i > 0)
    | none => false

def Scr.inv (s : Scr) : Bool :=
  decide (s.w ≥ 1) && decide (s.h ≥ 1) && decide (s.grid.length = s.h) &&
  s.grid.all (fun r => decide (r.length = s.w) && rowWF r) &&
  decide (s.cx < s.w) && decide (s.cy < s.h) && decide (s.sx < s.w) && decide (s.sy < s.h) &&
  decide (s.top ≤ s.bot) && decide (s.bot < s.h)

end TM
