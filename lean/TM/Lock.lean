/-!
# TM.Lock — the terminal's lock protocol (C15).

Threads run programs built from the actions below under one mutex (the terminal lock). The
programs of the API entry points (`LockFacts` below) abstract the Go functions: each statement
that matters for the protocol becomes an action, `if`/`switch` become `alt`, loops `star`,
calls are inlined. Core-only, executable.
-/
namespace TM.Lock

inductive Act
  | lock          -- t.Lock() / entry of WithLock
  | unlock        -- t.Unlock() / exit of WithLock
  | access        -- read or write of terminal state shared with the read loop
  | callback      -- a Frontend callback is invoked
  | blockRead     -- a read that may wait for the backend
  | local         -- anything else (no shared state): backend writes, encoding, arithmetic
deriving DecidableEq, Repr

inductive Prog
  | atom (a : Act)
  | seq (ps : List Prog)
  | alt (ps : List Prog)
  | star (p : Prog)
deriving Repr

/-! ### traces of a program (finite unfoldings) -/

/-- all concatenations of at most `k` traces from `body` -/
def starTraces (body : List (List Act)) : Nat → List (List Act)
  | 0 => [[]]
  | k+1 => [] :: body.flatMap fun t => (starTraces body k).map fun u => t ++ u

mutual
/-- `traces n p`: the traces of `p` where every `star` is unfolded at most `n` times -/
def traces (n : Nat) : Prog → List (List Act)
  | .atom a => [[a]]
  | .seq ps => tracesSeq n ps
  | .alt ps => tracesAlt n ps
  | .star p => starTraces (traces n p) n
def tracesSeq (n : Nat) : List Prog → List (List Act)
  | [] => [[]]
  | p :: ps => (traces n p).flatMap fun t => (tracesSeq n ps).map fun u => t ++ u
def tracesAlt (n : Nat) : List Prog → List (List Act)
  | [] => []
  | p :: ps => traces n p ++ tracesAlt n ps
end

/-! ### per-thread discipline, decided by abstract interpretation over "lock held?" -/

/-- effect of one action on the held flag; `none` = the discipline is violated -/
def actStep (held : Bool) : Act → Option Bool
  | .lock => if held then none else some true          -- no re-acquisition
  | .unlock => if held then some false else none
  | .access => if held then some true else none        -- shared state only under the lock
  | .callback => if held then some true else none      -- callbacks only under the lock
  | .blockRead => if held then none else some false    -- never wait for input holding the lock
  | .local => some held

/-- run a straight-line trace from `held` -/
def runTrace (held : Bool) : List Act → Option Bool
  | [] => some held
  | a :: rest => match actStep held a with
    | none => none
    | some h => runTrace h rest

mutual
/-- `check p held = some h'`: from `held`, every path of `p` respects the discipline and ends
    with the flag `h'` (the same on all paths; a loop body must restore the flag) -/
def check : Prog → Bool → Option Bool
  | .atom a, held => actStep held a
  | .seq ps, held => checkSeq ps held
  | .alt ps, held => checkAlt ps held
  | .star p, held => match check p held with
    | some h => if h = held then some held else none
    | none => none
def checkSeq : List Prog → Bool → Option Bool
  | [], held => some held
  | p :: ps, held => match check p held with
    | some h => checkSeq ps h
    | none => none
def checkAlt : List Prog → Bool → Option Bool
  | [], _ => none                      -- an empty choice has no path; not used
  | [p], held => check p held
  | p :: ps, held => match check p held, checkAlt ps held with
    | some h1, some h2 => if h1 = h2 then some h1 else none
    | _, _ => none
end

/-- an API entry point is called without the lock and must return without it -/
def wellLocked (p : Prog) : Bool := check p false == some false

/-- an accessor documented "caller must hold the lock" (and every callback body): starts and
    ends with the lock held -/
def wellLockedHeld (p : Prog) : Bool := check p true == some true

/-! ### the system: threads running traces under one mutex -/

structure Thread where
  todo : List Act          -- remaining actions of its trace
deriving Repr

structure Sys where
  threads : List Thread
  holder : Option Nat      -- index of the thread holding the lock
deriving Repr

/-- thread `i` can perform its next action -/
def enabled (s : Sys) (i : Nat) : Bool :=
  match s.threads[i]? with
  | some ⟨.lock :: _⟩ => s.holder.isNone
  | some ⟨_ :: _⟩ => true
  | _ => false

/-- thread `i` performs its next action -/
def stepSys (s : Sys) (i : Nat) : Sys :=
  match s.threads[i]? with
  | some ⟨a :: rest⟩ =>
    let holder := match a with
      | .lock => some i
      | .unlock => none
      | _ => s.holder
    { threads := s.threads.set i ⟨rest⟩, holder := holder }
  | _ => s

end TM.Lock
