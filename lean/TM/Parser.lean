import TM.Basic
/-!
# TM.Parser — the byte-stream tokeniser: model of `ptyReadOne`'s dispatch, `handleCommand`,
`handleCmdCSI` (parameter parsing), `handleCmdOSC`, `handleDCS` of `escapes.go` and of the
rune-mode tokeniser of `grapheme_reader.go`. Pull-style like the code: `next` looks at the
unconsumed bytes and either yields one token with the number of bytes it spans or reports that
more input is needed. Core-only, executable.
-/
namespace TM

/-- size of `paramStore` in `handleCmdCSI` -/
def paramCap : Nat := 32
/-- CSI parameters saturate here instead of overflowing -/
def paramMax : Nat := 0x7fffffff

inductive Tok
  /-- one printable character: bytes as stored (U+FFFD for an invalid byte), code point -/
  | text (stored : Bytes) (cp : Nat)
  /-- a C0 control byte or DEL (not ESC) -/
  | ctl (b : UInt8)
  /-- `ESC I… F` — intermediates (0x20–0x2F) and the byte that ended the sequence -/
  | esc (inter : Bytes) (final : UInt8)
  /-- CSI: private prefix (0 if none), parameters as stored, `clean = false` when the sequence
      carried `:`/late private bytes or intermediates (then it is ignored), final byte -/
  | csi (pfx : UInt8) (params : List Int) (clean : Bool) (final : UInt8)
  /-- OSC: number, payload, `wf = false` when the number was not followed by `;`/terminator -/
  | osc (num : Nat) (payload : Bytes) (wf : Bool)
  | dcs
deriving DecidableEq, Repr

inductive Step
  | need                       -- sequence (or character) incomplete: wait / stop at EOF
  | tok (t : Tok) (n : Nat)    -- token spanning the first `n` bytes
deriving DecidableEq, Repr

def isPrintableByte (b : UInt8) : Bool := b ≥ 32 && b != 127

/-! ### CSI parameters -/

structure PState where
  store : List Int := []      -- reversed
  param : Nat := 0
  paramSet : Bool := false
  sawSep : Bool := false
deriving Repr

def PState.push (p : PState) (v : Nat) : PState :=
  if p.store.length < paramCap then { p with store := (v : Int) :: p.store } else p

def PState.feed (p : PState) (b : UInt8) : PState :=
  if b = 0x3b then
    { (p.push p.param) with param := 0, paramSet := false, sawSep := true }
  else
    let v := p.param * 10 + (b.toNat - 48)
    { p with param := if v > paramMax then paramMax else v, paramSet := true, sawSep := false }

def PState.finish (p : PState) : List Int :=
  let p := if p.paramSet ∨ p.sawSep then p.push (if p.paramSet then p.param else 0) else p
  p.store.reverse

def isParamByte (b : UInt8) : Bool := b = 0x3b || isDigit b
def isCsiParamRange (b : UInt8) : Bool := 0x30 ≤ b && b ≤ 0x3f
def isIntermediate (b : UInt8) : Bool := 0x20 ≤ b && b ≤ 0x2f

/-- phase 1: digits and `;` -/
def csiParams : Bytes → PState → Nat → Option (PState × Bytes × Nat)
  | [], _, _ => none
  | b :: rest, p, n => if isParamByte b then csiParams rest (p.feed b) (n + 1) else some (p, b :: rest, n)

/-- phase 2: further parameter-range bytes (`:`, `<`…`?`, digits, `;`) make the sequence unclean -/
def csiSkipParams : Bytes → Bool → Nat → Option (Bool × Bytes × Nat)
  | [], _, _ => none
  | b :: rest, clean, n =>
    if isCsiParamRange b then csiSkipParams rest false (n + 1) else some (clean, b :: rest, n)

/-- phase 3: intermediates, then the final byte -/
def csiInter : Bytes → Bool → Nat → Option (Bool × UInt8 × Nat)
  | [], _, _ => none
  | b :: rest, clean, n =>
    if isIntermediate b then csiInter rest false (n + 1) else some (clean, b, n + 1)

/-- bytes after `ESC [`; `n0` bytes already consumed -/
def parseCSI (bs : Bytes) (n0 : Nat) : Step :=
  match bs with
  | [] => .need
  | b :: rest =>
    let isPrefix := b = 0x3f || b = 0x3e || b = 0x3c || b = 0x3d
    let (pre, body, n1) := if isPrefix then (b, rest, n0 + 1) else ((0 : UInt8), bs, n0)
    match csiParams body {} n1 with
    | none => .need
    | some (p, body2, n2) =>
      match csiSkipParams body2 true n2 with
      | none => .need
      | some (clean, body3, n3) =>
        match csiInter body3 clean n3 with
        | none => .need
        | some (clean', fin, n4) => .tok (.csi pre p.finish clean' fin) n4

/-! ### OSC / DCS -/

def atoiBytes (ds : Bytes) : Nat := ds.foldl (fun acc d => acc * 10 + (d.toNat - 48)) 0

/-- string payload up to BEL (OSC only), ST (`ESC \`) or a C1 ST byte (0x9c) that is not part of a UTF-8
    character. `need` = number of continuation bytes still expected. Returns payload (reversed)
    and total bytes consumed. -/
def strPayload (belEnds : Bool) : Bytes → Bytes → Nat → Nat → Option (Bytes × Nat)
  | [], _, _, _ => none
  | b :: rest, acc, need, n =>
    if b = 7 ∧ belEnds then some (acc, n + 1)
    else if b = 0x9c ∧ need = 0 then some (acc, n + 1)
    else if b = 0x5c ∧ acc.head? = some 0x1b then some (acc.tail, n + 1)
    else
      let need' := if isCont b ∧ need > 0 then need - 1 else (leadLen b) - 1
      strPayload belEnds rest (b :: acc) need' (n + 1)

def oscDigits : Bytes → Bytes → Nat → Option (Bytes × Bytes × Nat)
  | [], _, _ => none
  | b :: rest, acc, n => if isDigit b then oscDigits rest (b :: acc) (n + 1) else some (acc.reverse, b :: rest, n)

/-- bytes after `ESC ]` -/
def parseOSC (bs : Bytes) (n0 : Nat) : Step :=
  match oscDigits bs [] n0 with
  | none => .need
  | some (ds, rest, n1) =>
    -- Go: strconv.Atoi; out of range → MaxInt64 (no handler), empty → 0
    let ds' := ds.dropWhile (· = 0x30)
    let num := if ds'.length > 18 then 0xffffffffffff else atoiBytes ds' 
    match rest with
    | [] => .need
    | b :: rest' =>
      if b = 0x3b then
        match strPayload true rest' [] 0 (n1 + 1) with
        | none => .need
        | some (acc, n2) => .tok (.osc num acc.reverse true) n2
      else if b = 7 ∨ b = 0x9c then .tok (.osc num [] true) (n1 + 1)
      else
        -- malformed: still consumed up to its terminator, then ignored
        match strPayload true rest' [b] (leadLen b - 1) (n1 + 1) with
        | none => .need
        | some (_, n2) => .tok (.osc num [] false) n2

/-- bytes after `ESC P` -/
def parseDCS (bs : Bytes) (n0 : Nat) : Step :=
  match strPayload false bs [] 0 n0 with
  | none => .need
  | some (_, n) => .tok .dcs n

/-! ### ESC -/

def escInter : Bytes → Bytes → Nat → Option (Bytes × UInt8 × Nat)
  | [], _, _ => none
  | b :: rest, acc, n =>
    if isIntermediate b then escInter rest (b :: acc) (n + 1) else some (acc.reverse, b, n + 1)

/-- bytes after `ESC` -/
def parseEsc (bs : Bytes) : Step :=
  match bs with
  | [] => .need
  | b :: rest =>
    if b = 0x5b then parseCSI rest 2
    else if b = 0x5d then parseOSC rest 2
    else if b = 0x50 then parseDCS rest 2
    else match escInter bs [] 1 with
      | none => .need
      | some (inter, fin, n) => .tok (.esc inter fin) n

/-! ### top level (rune mode) -/

/-- one token from the head of the unconsumed bytes (`bs` non-empty) -/
def next (bs : Bytes) : Step :=
  match bs with
  | [] => .need
  | b :: rest =>
    if isPrintableByte b then
      if fullRune bs then
        let (cp, size) := decodeRune bs
        let stored := if cp = 0xFFFD ∧ size = 1 then replacementChar else bs.take size
        .tok (.text stored cp) size
      else .need
    else if b = 27 then parseEsc rest
    else .tok (.ctl b) 1

end TM
