import TM.Term
/-!
# C03 — printable characters: storage, cursor advance, autowrap, wide characters

"Each printable character is stored in the cell(s) starting at the cursor with the current
attributes and advances the cursor by its cell width, leaving all other cells unchanged. At the
right edge it continues on the next row (scrolling at the bottom of the scroll region) when
autowrap is on, and keeps overwriting the last column when autowrap is off; a wide character is
never left half-visible."

Model: `TM.Scr.put` (`TM/Screen.lean`), built from `Row.put` / `Row.putKeep`, `Scr.lineDown`,
`Scr.scroll`; `Term.apply` on `Tok.text` calls it on the active screen (`apply_text`).

Everything is stated for every row / screen / text / nominal width / size; well-formedness enters
only as `rowWF r = true` or `s.inv = true`.

* §1 `Row.put_*`: the written row cell by cell (`Row.put_cell`), `rowWF` preserved (`Row.put_wf`),
  style of changed cells (`Row.put_sty`).
* §2 the character fits after the cursor (grid policy, or span policy off a continuation cell):
  `put_inside`, `put_lastcol_nowrap`, `put_lastcol_wrap(_noscroll/_scroll)`,
  `put_nowrap_last_column`, `put_cursor_cell`.
* §3 it does not fit: `put_edge_wrap`, `put_edge_nowrap` (reduction to §2 from an explicit
  state) and the spelled-out `put_edge_*` versions.
* §4 `put_frame`, `put_rows_origin`.
* §5 `put_keep_eq_blank` (+ the counterexample `put_keep_ne_blank_example` showing its extra
  hypothesis is needed).
* invariant: `put_blank_inv`, `put_keep_inv_off_cont`, `put_keep_inv` (every width; the earlier
  `put_keep_inv_narrow` is kept as a corollary).
* §6 span policy on a continuation cell: `Row.putKeep_cell`, `Row.putKeep_kept`,
  `Row.putKeep_text`, `Row.putKeep_length`, `Row.putKeep_wf` — all for characters of every width
  (examples with width 3: `putKeep_width3_wf_example`, `putKeep_kept_width3_example`),
  `put_keep_on_cont`.

`effW s w0` / `effText s text w0` are the width and bytes really used: `max w0 1` and `text`,
or `1` and U+FFFD when `max w0 1 > s.w` (`effW_effText_normal`).
-/
namespace TM.C03
open TM

/-- the character covering cell `i` of `r` is cut by the column boundary `c`: it starts before
    column `c` and extends past it (only a wide character can be) -/
def cutBy (r : Row) (i c : Nat) : Prop :=
  headOf r i < c ∧ c < headOf r i + widthAt r (headOf r i)

instance (r : Row) (i c : Nat) : Decidable (cutBy r i c) := by unfold cutBy; infer_instance

/-! ## Helper lemmas -/
namespace Lemmas

/-! ### `contAt`, `widthAt`, `headOf` -/

theorem contAt_iff {r : Row} {x : Nat} : contAt r x = true ↔ ∃ st, r[x]? = some ⟨.cont, st⟩ := by
  unfold contAt; split <;> simp_all

theorem contAt_cont {r : Row} {x : Nat} {st : Style} (h : r[x]? = some ⟨.cont, st⟩) :
    contAt r x = true := contAt_iff.2 ⟨st, h⟩

theorem contAt_ch {r : Row} {x : Nat} {t : Bytes} {w : Nat} {st : Style}
    (h : r[x]? = some ⟨.ch t w, st⟩) : contAt r x = false := by
  unfold contAt; rw [h]

theorem contAt_none {r : Row} {x : Nat} (h : r[x]? = none) : contAt r x = false := by
  unfold contAt; rw [h]

theorem contAt_ge {r : Row} {x : Nat} (h : r.length ≤ x) : contAt r x = false :=
  contAt_none (List.getElem?_eq_none h)

theorem contAt_lt {r : Row} {x : Nat} (h : contAt r x = true) : x < r.length := by
  false_or_by_contra
  rw [contAt_ge (by omega)] at h; cases h

theorem contAt_congr {r r' : Row} {x : Nat} (h : r'[x]? = r[x]?) : contAt r' x = contAt r x := by
  unfold contAt; rw [h]

theorem widthAt_congr {r r' : Row} {x : Nat} (h : r'[x]? = r[x]?) : widthAt r' x = widthAt r x := by
  unfold widthAt; rw [h]

theorem widthAt_ch {r : Row} {x : Nat} {t : Bytes} {w : Nat} {st : Style}
    (h : r[x]? = some ⟨.ch t w, st⟩) : widthAt r x = max w 1 := by
  unfold widthAt; rw [h]

theorem widthAt_pos (r : Row) (x : Nat) : 1 ≤ widthAt r x := by
  unfold widthAt; split <;> omega

theorem contAt_blank_false {r : Row} {x : Nat} {st : Style} (h : r[x]? = some (blank st)) :
    contAt r x = false := contAt_ch h

theorem headOf_le (r : Row) (x : Nat) : headOf r x ≤ x := by
  induction x with
  | zero => simp [headOf]
  | succ x ih => simp only [headOf]; split <;> omega

theorem headOf_cont (r : Row) (x j : Nat) (h1 : headOf r x < j) (h2 : j ≤ x) : contAt r j = true := by
  induction x with
  | zero => simp [headOf] at h1; omega
  | succ x ih =>
    simp only [headOf] at h1
    split at h1
    · next hc =>
      by_cases hj : j = x + 1
      · rw [hj]; exact hc
      · exact ih h1 (by omega)
    · omega

theorem headOf_head (r : Row) (x : Nat) : headOf r x = 0 ∨ contAt r (headOf r x) = false := by
  induction x with
  | zero => simp [headOf]
  | succ x ih =>
    simp only [headOf]
    split
    · exact ih
    · next hc => right; simpa using hc

theorem headOf_unique (r : Row) (x h : Nat) (hle : h ≤ x)
    (hc : ∀ j, h < j → j ≤ x → contAt r j = true) (hh : h = 0 ∨ contAt r h = false) :
    headOf r x = h := by
  induction x with
  | zero => simp [headOf]; omega
  | succ x ih =>
    simp only [headOf]
    by_cases hx : h = x + 1
    · have : contAt r (x + 1) = false := by
        rcases hh with hh | hh
        · omega
        · rw [← hx]; exact hh
      simp [this, hx]
    · have : contAt r (x + 1) = true := hc _ (by omega) (by omega)
      simp only [this, if_true]
      exact ih (by omega) (fun j a b => hc j a (by omega))

theorem headOf_of_not_cont {r : Row} {x : Nat} (h : contAt r x = false) : headOf r x = x :=
  headOf_unique r x x (Nat.le_refl _) (fun j a b => by omega) (Or.inr h)

theorem headOf_congr {r r' : Row} {x : Nat}
    (h : ∀ j, headOf r x ≤ j → j ≤ x → r'[j]? = r[j]?) : headOf r' x = headOf r x := by
  apply headOf_unique r' x (headOf r x) (headOf_le r x)
  · intro j a b
    rw [contAt_congr (h j (by omega) b)]
    exact headOf_cont r x j a b
  · rcases headOf_head r x with h0 | h0
    · exact Or.inl h0
    · right
      rw [contAt_congr (h _ (Nat.le_refl _) (headOf_le r x))]
      exact h0

/-! ### `rowWF` as a predicate -/

theorem rowWF_iff (r : Row) : rowWF r = true ↔
    (contAt r 0 = false ∧ ∀ i t w st, r[i]? = some ⟨.ch t w, st⟩ →
      1 ≤ w ∧ i + w ≤ r.length ∧ (∀ k, i < k → k < i + w → contAt r k = true) ∧
        contAt r (i + w) = false) := by
  unfold rowWF
  rw [List.all_eq_true]
  simp only [List.mem_range]
  constructor
  · intro H
    constructor
    · cases hc : contAt r 0 with
      | false => rfl
      | true =>
        obtain ⟨st, hst⟩ := contAt_iff.1 hc
        have := H 0 (contAt_lt hc)
        rw [hst] at this
        simp at this
    · intro i t w st h
      have hi : i < r.length := by
        false_or_by_contra
        rw [List.getElem?_eq_none (by omega)] at h; cases h
      have := H i hi
      rw [h] at this
      simp only [Bool.and_eq_true, decide_eq_true_eq, List.all_eq_true, List.mem_range,
        Bool.not_eq_true'] at this
      refine ⟨this.1.1.1, this.1.1.2, ?_, this.2⟩
      intro k h1 h2
      have := this.1.2 (k - (i + 1)) (by omega)
      have e : i + 1 + (k - (i + 1)) = k := by omega
      rwa [e] at this
  · intro ⟨h0, H⟩ i hi
    cases hc : r[i]? with
    | none => rw [List.getElem?_eq_none_iff] at hc; omega
    | some c =>
      obtain ⟨g, st⟩ := c
      cases g with
      | cont =>
        simp only [decide_eq_true_eq]
        false_or_by_contra
        have : i = 0 := by omega
        subst this
        rw [contAt_cont hc] at h0; cases h0
      | ch t w =>
        obtain ⟨a, b, c, d⟩ := H i t w st hc
        simp only [Bool.and_eq_true, decide_eq_true_eq, List.all_eq_true, List.mem_range,
          Bool.not_eq_true']
        exact ⟨⟨⟨a, b⟩, fun k hk => c _ (by omega) (by omega)⟩, d⟩

theorem getElem?_lt {r : Row} {i : Nat} {c : Cell} (h : r[i]? = some c) : i < r.length := by
  false_or_by_contra
  rw [List.getElem?_eq_none (by omega)] at h; cases h

theorem wf_cont0 {r : Row} (hwf : rowWF r = true) : contAt r 0 = false := ((rowWF_iff r).1 hwf).1

theorem wf_ch {r : Row} (hwf : rowWF r = true) {i : Nat} {t : Bytes} {w : Nat} {st : Style}
    (h : r[i]? = some ⟨.ch t w, st⟩) :
    1 ≤ w ∧ i + w ≤ r.length ∧ (∀ k, i < k → k < i + w → contAt r k = true) ∧
      contAt r (i + w) = false := ((rowWF_iff r).1 hwf).2 i t w st h

/-- under `rowWF`, the head of the character covering `x` is a `.ch` cell whose width reaches past `x` -/
theorem wf_head {r : Row} (hwf : rowWF r = true) {x : Nat} (hx : x < r.length) :
    ∃ t w st, r[headOf r x]? = some ⟨.ch t w, st⟩ ∧ 1 ≤ w ∧ x < headOf r x + w ∧
      headOf r x + w ≤ r.length ∧ widthAt r (headOf r x) = w := by
  have hle := headOf_le r x
  have hnc : contAt r (headOf r x) = false := by
    rcases headOf_head r x with h | h
    · rw [h]; exact wf_cont0 hwf
    · exact h
  cases hc : r[headOf r x]? with
  | none => rw [List.getElem?_eq_none_iff] at hc; omega
  | some c =>
    obtain ⟨g, st⟩ := c
    cases g with
    | cont => rw [contAt_cont hc] at hnc; cases hnc
    | ch t w =>
      obtain ⟨a, b, _, d⟩ := wf_ch hwf hc
      refine ⟨t, w, st, rfl, a, ?_, b, ?_⟩
      · false_or_by_contra
        have := headOf_cont r x (headOf r x + w) (by omega) (by omega)
        rw [this] at d; cases d
      · rw [widthAt_ch hc]; omega

theorem wf_headOf_eq {r : Row} (hwf : rowWF r = true) {h x : Nat} {t : Bytes} {w : Nat} {st : Style}
    (hch : r[h]? = some ⟨.ch t w, st⟩) (h1 : h ≤ x) (h2 : x < h + w) : headOf r x = h := by
  obtain ⟨_, _, c, _⟩ := wf_ch hwf hch
  exact headOf_unique r x h h1 (fun j a b => c j a (by omega)) (Or.inr (contAt_ch hch))

/-! ### `blankRange`, `blankCharAt`, `blankStraddlers` pointwise -/

theorem length_blankRange (r : Row) (a n : Nat) (st : Style) : (blankRange r a n st).length = r.length := by
  simp [blankRange]

theorem getElem?_blankRange {r : Row} {a n i : Nat} {st : Style} (hi : i < r.length) :
    (blankRange r a n st)[i]? = if a ≤ i ∧ i < a + n then some (blank st) else r[i]? := by
  unfold blankRange
  rw [List.getElem?_mapIdx, List.getElem?_eq_getElem hi]
  simp only [Option.map_some]
  split <;> rfl

/-- `i` lies in the character whose continuation cell is at column `c` -/
def inChar (r : Row) (c i : Nat) : Prop :=
  contAt r c = true ∧ headOf r c ≤ i ∧ i < headOf r c + widthAt r (headOf r c)

instance (r : Row) (c i : Nat) : Decidable (inChar r c i) := by unfold inChar; infer_instance

/-- one step of `blankStraddlers` -/
def fixAt (r : Row) (c : Nat) (st : Style) : Row := if contAt r c then blankCharAt r c st else r

theorem blankStraddlers_eq (r : Row) (a b : Nat) (st : Style) :
    blankStraddlers r a b st = fixAt (fixAt r a st) b st := rfl

theorem fixAt_of_not_cont {r : Row} {c : Nat} {st : Style} (h : contAt r c = false) : fixAt r c st = r := by
  simp [fixAt, h]

theorem fixAt_of_cont {r : Row} {c : Nat} {st : Style} (h : contAt r c = true) :
    fixAt r c st = blankRange r (headOf r c) (widthAt r (headOf r c)) st := by
  simp [fixAt, h, blankCharAt]

theorem length_fixAt (r : Row) (c : Nat) (st : Style) : (fixAt r c st).length = r.length := by
  cases h : contAt r c
  · rw [fixAt_of_not_cont h]
  · rw [fixAt_of_cont h, length_blankRange]

theorem getElem?_fixAt {r : Row} {c i : Nat} {st : Style} (hi : i < r.length) :
    (fixAt r c st)[i]? = if inChar r c i then some (blank st) else r[i]? := by
  cases h : contAt r c
  · rw [fixAt_of_not_cont h]; simp [inChar, h]
  · rw [fixAt_of_cont h, getElem?_blankRange hi]; simp [inChar, h]

theorem getElem?_fixAt_ge {r : Row} {c i : Nat} {st : Style} (hi : r.length ≤ i) :
    (fixAt r c st)[i]? = r[i]? := by
  rw [List.getElem?_eq_none hi, List.getElem?_eq_none (by rw [length_fixAt]; exact hi)]

/-- `fixAt` never creates a continuation cell -/
theorem contAt_fixAt_imp {r : Row} {c j : Nat} {st : Style} (h : contAt (fixAt r c st) j = true) :
    contAt r j = true := by
  have hj : j < r.length := by have := contAt_lt h; rwa [length_fixAt] at this
  obtain ⟨s, hs⟩ := contAt_iff.1 h
  rw [getElem?_fixAt hj] at hs
  split at hs
  · simp [blank] at hs
  · exact contAt_cont hs

theorem inChar_iff_cutBy {r : Row} (hwf : rowWF r = true) {c i : Nat} (hi : i < r.length) :
    inChar r c i ↔ cutBy r i c := by
  unfold inChar cutBy
  constructor
  · intro ⟨hc, h1, h2⟩
    obtain ⟨t, w, st, hch, _, hx, _, hw⟩ := wf_head hwf (contAt_lt hc)
    rw [hw] at h2
    have e : headOf r i = headOf r c := wf_headOf_eq hwf hch h1 h2
    rw [e, hw]
    refine ⟨?_, hx⟩
    have := headOf_le r c
    have hne : headOf r c ≠ c := by
      intro e2
      have := contAt_ch hch
      rw [e2, hc] at this; cases this
    omega
  · intro ⟨h1, h2⟩
    obtain ⟨t, w, st, hch, _, hx, _, hw⟩ := wf_head hwf hi
    rw [hw] at h2
    obtain ⟨_, _, cs, _⟩ := wf_ch hwf hch
    have e : headOf r c = headOf r i := wf_headOf_eq hwf hch (by omega) h2
    rw [e, hw]
    exact ⟨cs c h1 h2, headOf_le r i, hx⟩

/-- under `rowWF`, `cutBy` is the same as "column `c` is a continuation cell of the character covering `i`" -/
theorem cutBy_iff {r : Row} (hwf : rowWF r = true) {c i : Nat} (hi : i < r.length) :
    cutBy r i c ↔ (contAt r c = true ∧ headOf r c = headOf r i) := by
  constructor
  · intro h
    have h' := h
    obtain ⟨h1, h2⟩ := h'
    obtain ⟨t, w, st, hch, _, hx, _, hw⟩ := wf_head hwf hi
    rw [hw] at h2
    obtain ⟨_, _, cs, _⟩ := wf_ch hwf hch
    exact ⟨cs c h1 h2, wf_headOf_eq hwf hch (by omega) h2⟩
  · intro ⟨hc, e⟩
    apply (inChar_iff_cutBy hwf hi).1
    obtain ⟨t, w, st, hch, _, hx, _, hw⟩ := wf_head hwf hi
    refine ⟨hc, ?_, ?_⟩
    · rw [e]; exact headOf_le r i
    · rw [e, hw]; exact hx

/-- second step of `blankStraddlers` expressed on the original row -/
theorem inChar_fixAt {r : Row} (hwf : rowWF r = true) {a b i : Nat} {st : Style} (hab : a < b) :
    (inChar r a i ∨ inChar (fixAt r a st) b i) ↔ (inChar r a i ∨ inChar r b i) := by
  cases hca : contAt r a with
  | false => rw [fixAt_of_not_cont hca]
  | true =>
    obtain ⟨t, w, s, hch, hw1, hx, hlen, hw⟩ := wf_head hwf (contAt_lt hca)
    obtain ⟨_, _, cs, hend⟩ := wf_ch hwf hch
    have hle := headOf_le r a
    by_cases hb : b < headOf r a + w
    · -- `b` lies in the same character
      have hbl : b < r.length := by omega
      have h1 : contAt (fixAt r a st) b = false := by
        apply contAt_blank_false (st := st)
        rw [getElem?_fixAt hbl, if_pos]
        exact ⟨hca, by omega, by rw [hw]; exact hb⟩
      have h2 : headOf r b = headOf r a := wf_headOf_eq hwf hch (by omega) hb
      constructor
      · rintro (h | h)
        · exact Or.inl h
        · rw [inChar, h1] at h; cases h.1
      · rintro (h | h)
        · exact Or.inl h
        · left
          unfold inChar at h ⊢
          rw [h2] at h
          exact ⟨hca, h.2⟩
    · -- `b` lies to the right of the character at `a`
      have hag : ∀ j, headOf r a + w ≤ j → (fixAt r a st)[j]? = r[j]? := by
        intro j hj
        by_cases hjl : j < r.length
        · rw [getElem?_fixAt hjl, if_neg]
          intro ⟨_, _, h3⟩
          rw [hw] at h3; omega
        · exact getElem?_fixAt_ge (by omega)
      have hcb : contAt (fixAt r a st) b = contAt r b := contAt_congr (hag b (by omega))
      suffices inChar (fixAt r a st) b i ↔ inChar r b i by rw [this]
      cases hcb' : contAt r b with
      | false => simp [inChar, hcb, hcb']
      | true =>
        have hhb : headOf r a + w ≤ headOf r b := by
          false_or_by_contra
          have := headOf_cont r b (headOf r a + w) (by omega) (by omega)
          rw [this] at hend; cases hend
        have e1 : headOf (fixAt r a st) b = headOf r b :=
          headOf_congr (fun j h1 _ => hag j (by omega))
        have e2 : widthAt (fixAt r a st) (headOf r b) = widthAt r (headOf r b) :=
          widthAt_congr (hag _ hhb)
        unfold inChar
        rw [hcb, e1, e2]

theorem length_blankStraddlers (r : Row) (a b : Nat) (st : Style) :
    (blankStraddlers r a b st).length = r.length := by
  rw [blankStraddlers_eq, length_fixAt, length_fixAt]

theorem getElem?_blankStraddlers {r : Row} (hwf : rowWF r = true) {a b i : Nat} {st : Style}
    (hab : a < b) (hi : i < r.length) :
    (blankStraddlers r a b st)[i]? =
      if cutBy r i a ∨ cutBy r i b then some (blank st) else r[i]? := by
  rw [blankStraddlers_eq, getElem?_fixAt (by rw [length_fixAt]; exact hi), getElem?_fixAt hi]
  have key := inChar_fixAt (st := st) (i := i) hwf hab
  have ea := inChar_iff_cutBy hwf hi (c := a)
  have eb := inChar_iff_cutBy hwf hi (c := b)
  by_cases h1 : inChar (fixAt r a st) b i
  · rw [if_pos h1, if_pos]
    rcases key.1 (Or.inr h1) with h | h
    · exact Or.inl (ea.1 h)
    · exact Or.inr (eb.1 h)
  · rw [if_neg h1]
    by_cases h2 : inChar r a i
    · rw [if_pos h2, if_pos (Or.inl (ea.1 h2))]
    · rw [if_neg h2, if_neg]
      intro h3
      have : inChar r a i ∨ inChar r b i := by
        rcases h3 with h | h
        · exact Or.inl (ea.2 h)
        · exact Or.inr (eb.2 h)
      rcases key.2 this with h | h
      · exact h2 h
      · exact h1 h

/-- without any well-formedness: when neither boundary is a continuation cell nothing is blanked -/
theorem blankStraddlers_clean {r : Row} {a b : Nat} {st : Style}
    (ha : contAt r a = false) (hb : contAt r b = false) : blankStraddlers r a b st = r := by
  rw [blankStraddlers_eq, fixAt_of_not_cont ha, fixAt_of_not_cont hb]

/-! ### preservation of `rowWF` -/

/-- blanking all cells of one whole character keeps the row well formed -/
theorem wf_blank_char {r r' : Row} (hwf : rowWF r = true) {h : Nat} {t : Bytes} {w : Nat} {s st : Style}
    (hch : r[h]? = some ⟨.ch t w, s⟩) (hlen : r'.length = r.length)
    (hr' : ∀ j, j < r.length → r'[j]? = if h ≤ j ∧ j < h + w then some (blank st) else r[j]?) :
    rowWF r' = true := by
  obtain ⟨_, _, _, hend⟩ := wf_ch hwf hch
  have himp : ∀ j, contAt r' j = true → contAt r j = true ∧ ¬ (h ≤ j ∧ j < h + w) := by
    intro j hj
    have hjl : j < r.length := by have := contAt_lt hj; omega
    obtain ⟨s', hs'⟩ := contAt_iff.1 hj
    rw [hr' j hjl] at hs'
    split at hs'
    · simp [blank] at hs'
    · next hn => exact ⟨contAt_cont hs', hn⟩
  rw [rowWF_iff]
  constructor
  · cases hc : contAt r' 0 with
    | false => rfl
    | true => have := (himp 0 hc).1; rw [wf_cont0 hwf] at this; cases this
  · intro i t' w' s' hi
    have hil : i < r.length := by have := getElem?_lt hi; omega
    rw [hr' i hil] at hi
    split at hi
    · next hin =>
      simp only [blank, Option.some.injEq, Cell.mk.injEq, Glyph.ch.injEq] at hi
      obtain ⟨⟨_, hw'⟩, _⟩ := hi
      subst hw'
      refine ⟨Nat.le_refl _, by omega, fun k a b => by omega, ?_⟩
      cases hc : contAt r' (i + 1) with
      | false => rfl
      | true =>
        obtain ⟨h1, h2⟩ := himp _ hc
        have : i + 1 = h + w := by omega
        rw [this, hend] at h1; cases h1
    · next hout =>
      obtain ⟨a, b, cs, d⟩ := wf_ch hwf hi
      refine ⟨a, by omega, ?_, ?_⟩
      · intro k k1 k2
        have hk := cs k k1 k2
        have hkl : k < r.length := by omega
        obtain ⟨s2, hs2⟩ := contAt_iff.1 hk
        apply contAt_cont (st := s2)
        rw [hr' k hkl, if_neg, hs2]
        intro ⟨k3, k4⟩
        by_cases hih : i < h
        · have := cs h hih (by omega)
          rw [contAt_ch hch] at this; cases this
        · omega
      · cases hc : contAt r' (i + w') with
        | false => rfl
        | true => have := (himp _ hc).1; rw [d] at this; cases this

theorem fixAt_wf {r : Row} (hwf : rowWF r = true) (c : Nat) (st : Style) : rowWF (fixAt r c st) = true := by
  cases hc : contAt r c with
  | false => rw [fixAt_of_not_cont hc]; exact hwf
  | true =>
    obtain ⟨t, w, s, hch, _, _, _, hw⟩ := wf_head hwf (contAt_lt hc)
    apply wf_blank_char (st := st) hwf hch (length_fixAt r c st)
    intro j hj
    rw [getElem?_fixAt hj]
    simp only [inChar, hc, hw, true_and]

theorem contAt_fixAt_self {r : Row} (hwf : rowWF r = true) (c : Nat) (st : Style) :
    contAt (fixAt r c st) c = false := by
  cases hc : contAt r c with
  | false => rw [fixAt_of_not_cont hc]; exact hc
  | true =>
    have hcl := contAt_lt hc
    obtain ⟨t, w, s, hch, _, hx, _, hw⟩ := wf_head hwf hcl
    apply contAt_blank_false (st := st)
    rw [getElem?_fixAt hcl, if_pos]
    exact ⟨hc, headOf_le r c, by rw [hw]; exact hx⟩

theorem blankStraddlers_wf {r : Row} (hwf : rowWF r = true) (a b : Nat) (st : Style) :
    rowWF (blankStraddlers r a b st) = true := by
  rw [blankStraddlers_eq]; exact fixAt_wf (fixAt_wf hwf a st) b st

theorem contAt_blankStraddlers_left {r : Row} (hwf : rowWF r = true) (a b : Nat) (st : Style) :
    contAt (blankStraddlers r a b st) a = false := by
  rw [blankStraddlers_eq]
  cases h : contAt (fixAt (fixAt r a st) b st) a with
  | false => rfl
  | true => have := contAt_fixAt_imp h; rw [contAt_fixAt_self hwf] at this; cases this

theorem contAt_blankStraddlers_right {r : Row} (hwf : rowWF r = true) (a b : Nat) (st : Style) :
    contAt (blankStraddlers r a b st) b = false := by
  rw [blankStraddlers_eq]; exact contAt_fixAt_self (fixAt_wf hwf a st) b st

/-! ### `setRange`, `charCells` -/

theorem length_charCells (text : Bytes) (w : Nat) (st : Style) (hw : 1 ≤ w) :
    (charCells text w st).length = w := by
  simp [charCells]; omega

theorem length_setRange (r : Row) (a : Nat) (cells : List Cell) : (setRange r a cells).length = r.length := by
  simp [setRange]

theorem getElem?_setRange {r : Row} {a i : Nat} {cells : List Cell} (hi : i < r.length) :
    (setRange r a cells)[i]? =
      if a ≤ i ∧ i < a + cells.length then cells[i - a]? else r[i]? := by
  unfold setRange
  rw [List.getElem?_mapIdx, List.getElem?_eq_getElem hi]
  simp only [Option.map_some]
  split
  · next h =>
    rw [List.getD_eq_getElem?_getD, List.getElem?_eq_getElem (by omega)]; rfl
  · rfl

theorem getElem?_charCells (text : Bytes) (w : Nat) (st : Style) (k : Nat) (hk : k < w) :
    (charCells text w st)[k]? = some (if k = 0 then ⟨.ch text w, st⟩ else ⟨.cont, st⟩) := by
  unfold charCells
  cases k with
  | zero => simp
  | succ k => simp [List.getElem?_replicate]; omega

/-- writing a character between two clean boundaries keeps the row well formed -/
theorem setRange_wf {r : Row} (hwf : rowWF r = true) {x w : Nat} {text : Bytes} {st : Style}
    (hw : 1 ≤ w) (hx : x + w ≤ r.length)
    (hl : contAt r x = false) (hr : contAt r (x + w) = false) :
    rowWF (setRange r x (charCells text w st)) = true := by
  have hget : ∀ j, j < r.length → (setRange r x (charCells text w st))[j]? =
      if x ≤ j ∧ j < x + w then some (if j = x then ⟨.ch text w, st⟩ else ⟨.cont, st⟩) else r[j]? := by
    intro j hj
    rw [getElem?_setRange hj, length_charCells _ _ _ hw]
    split
    · next h =>
      rw [getElem?_charCells _ _ _ _ (by omega)]
      congr 1
      by_cases e : j = x
      · simp [e]
      · rw [if_neg (by omega), if_neg e]
    · rfl
  have hlen := length_setRange r x (charCells text w st)
  generalize setRange r x (charCells text w st) = r' at hget hlen
  have hin : ∀ j, x < j → j < x + w → contAt r' j = true := by
    intro j j1 j2
    apply contAt_cont (st := st)
    rw [hget j (by omega), if_pos ⟨by omega, j2⟩, if_neg (by omega)]
  have hout : ∀ j, ¬ (x ≤ j ∧ j < x + w) → contAt r' j = contAt r j := by
    intro j hj
    by_cases hjl : j < r.length
    · apply contAt_congr; rw [hget j hjl, if_neg hj]
    · rw [contAt_ge (by omega), contAt_ge (by omega)]
  have hxc : contAt r' x = false := by
    apply contAt_ch (t := text) (w := w) (st := st)
    rw [hget x (by omega), if_pos ⟨Nat.le_refl _, by omega⟩, if_pos rfl]
  rw [rowWF_iff]
  constructor
  · by_cases h0 : x = 0
    · rw [← h0]; exact hxc
    · rw [hout 0 (by omega)]; exact wf_cont0 hwf
  · intro i t' w' s' hi
    have hil : i < r.length := by have := getElem?_lt hi; omega
    rw [hget i hil] at hi
    split at hi
    · next hin' =>
      by_cases e : i = x
      · rw [if_pos e] at hi
        simp only [Option.some.injEq, Cell.mk.injEq, Glyph.ch.injEq] at hi
        obtain ⟨⟨_, hw'⟩, _⟩ := hi
        subst hw' e
        refine ⟨hw, by omega, hin, ?_⟩
        rw [hout _ (by omega)]; exact hr
      · rw [if_neg e] at hi; simp at hi
    · next hout' =>
      obtain ⟨a, b, cs, d⟩ := wf_ch hwf hi
      by_cases hix : i < x
      · have hxw : i + w' ≤ x := by
          false_or_by_contra
          have := cs x hix (by omega)
          rw [hl] at this; cases this
        refine ⟨a, by omega, ?_, ?_⟩
        · intro k k1 k2
          rw [hout k (by omega)]; exact cs k k1 k2
        · by_cases e : i + w' = x
          · rw [e]; exact hxc
          · rw [hout _ (by omega)]; exact d
      · refine ⟨a, by omega, ?_, ?_⟩
        · intro k k1 k2
          rw [hout k (by omega)]; exact cs k k1 k2
        · rw [hout _ (by omega)]; exact d

end Lemmas
open Lemmas

/-! ## 1. Row level: `Row.put` -/

theorem Row.put_length (r : Row) (x : Nat) (text : Bytes) (w : Nat) (st : Style) :
    (Row.put r x text w st).length = r.length := by
  unfold Row.put; rw [length_setRange, length_blankStraddlers]

/-- the first cell holds the character, with its width, in the given style -/
theorem Row.put_head (r : Row) (x : Nat) (text : Bytes) (w : Nat) (st : Style) (hx : x < r.length) :
    (Row.put r x text w st)[x]? = some ⟨.ch text w, st⟩ := by
  unfold Row.put
  rw [getElem?_setRange (by rw [length_blankStraddlers]; exact hx), if_pos]
  · simp [charCells]
  · simp [charCells]

/-- the following `w - 1` cells are continuation cells in the given style -/
theorem Row.put_tail (r : Row) (x : Nat) (text : Bytes) (w : Nat) (st : Style) (k : Nat)
    (h1 : x < k) (h2 : k < x + w) (hk : k < r.length) :
    (Row.put r x text w st)[k]? = some ⟨.cont, st⟩ := by
  unfold Row.put
  have hw : 1 ≤ w := by omega
  rw [getElem?_setRange (by rw [length_blankStraddlers]; exact hk), length_charCells _ _ _ hw,
    if_pos ⟨by omega, h2⟩, getElem?_charCells _ _ _ _ (by omega), if_neg (by omega)]

/-- cells outside `[x, x+w)` hold what `blankStraddlers` left there -/
theorem Row.put_outside (r : Row) (x : Nat) (text : Bytes) (w : Nat) (st : Style) (hw : 1 ≤ w) (i : Nat)
    (hout : i < x ∨ x + w ≤ i) :
    (Row.put r x text w st)[i]? = (blankStraddlers r x (x + w) st)[i]? := by
  unfold Row.put
  by_cases hi : i < r.length
  · rw [getElem?_setRange (by rw [length_blankStraddlers]; exact hi), length_charCells _ _ _ hw,
      if_neg (by omega)]
  · rw [List.getElem?_eq_none (by rw [length_setRange, length_blankStraddlers]; omega),
      List.getElem?_eq_none (by rw [length_blankStraddlers]; omega)]

/-- **C03 row level, other cells.** A cell outside `[x, x+w)` is unchanged, unless the (wide)
    character covering it is cut by column `x` or by column `x+w`; then it becomes a blank in the
    given style. (`Lemmas.cutBy_iff`: under `rowWF`, `cutBy r i c` says exactly that column `c` is
    a continuation cell of the character covering cell `i`.) -/
theorem Row.put_other (r : Row) (x : Nat) (text : Bytes) (w : Nat) (st : Style)
    (hwf : rowWF r = true) (hw : 1 ≤ w) (i : Nat) (hi : i < r.length) (hout : i < x ∨ x + w ≤ i) :
    (Row.put r x text w st)[i]? =
      if cutBy r i x ∨ cutBy r i (x + w) then some (blank st) else r[i]? := by
  rw [Row.put_outside r x text w st hw i hout, getElem?_blankStraddlers hwf (by omega) hi]

/-- the same without any well-formedness assumption, when neither edge of the written range
    is a continuation cell: every other cell is unchanged -/
theorem Row.put_other_clean (r : Row) (x : Nat) (text : Bytes) (w : Nat) (st : Style)
    (hl : contAt r x = false) (hr : contAt r (x + w) = false) (hw : 1 ≤ w) (i : Nat)
    (hout : i < x ∨ x + w ≤ i) :
    (Row.put r x text w st)[i]? = r[i]? := by
  rw [Row.put_outside r x text w st hw i hout, blankStraddlers_clean hl hr]

/-- **C03 row level, all cells at once.** -/
theorem Row.put_cell (r : Row) (x : Nat) (text : Bytes) (w : Nat) (st : Style)
    (hwf : rowWF r = true) (hw : 1 ≤ w) (i : Nat) (hi : i < r.length) :
    (Row.put r x text w st)[i]? =
      if i = x then some ⟨.ch text w, st⟩
      else if x < i ∧ i < x + w then some ⟨.cont, st⟩
      else if cutBy r i x ∨ cutBy r i (x + w) then some (blank st)
      else r[i]? := by
  by_cases h1 : i = x
  · rw [if_pos h1, h1]; exact Row.put_head r x text w st (by omega)
  · rw [if_neg h1]
    by_cases h2 : x < i ∧ i < x + w
    · rw [if_pos h2]; exact Row.put_tail r x text w st i h2.1 h2.2 hi
    · rw [if_neg h2]; exact Row.put_other r x text w st hwf hw i hi (by omega)

/-- **"A wide character is never left half-visible."** `Row.put` preserves row well-formedness:
    every `.ch _ w` head is followed by exactly `w - 1` continuation cells inside the row and
    every continuation cell belongs to such a head. -/
theorem Row.put_wf (r : Row) (x : Nat) (text : Bytes) (w : Nat) (st : Style)
    (hwf : rowWF r = true) (hw : 1 ≤ w) (hx : x + w ≤ r.length) :
    rowWF (Row.put r x text w st) = true := by
  unfold Row.put
  apply setRange_wf (blankStraddlers_wf hwf _ _ _) hw
  · rw [length_blankStraddlers]; exact hx
  · exact contAt_blankStraddlers_left hwf _ _ _
  · exact contAt_blankStraddlers_right hwf _ _ _

/-- every cell that `Row.put` changes carries the given style (no well-formedness needed) -/
theorem Row.put_sty (r : Row) (x : Nat) (text : Bytes) (w : Nat) (st : Style) (i : Nat) :
    (Row.put r x text w st)[i]? = r[i]? ∨ ∃ g, (Row.put r x text w st)[i]? = some ⟨g, st⟩ := by
  by_cases hi : i < r.length
  · unfold Row.put
    rw [getElem?_setRange (by rw [length_blankStraddlers]; exact hi)]
    split
    · next h =>
      right
      by_cases e : i - x = 0
      · rw [e]; exact ⟨.ch text w, by simp [charCells]⟩
      · refine ⟨.cont, ?_⟩
        obtain ⟨k, hk⟩ : ∃ k, i - x = k + 1 := ⟨i - x - 1, by omega⟩
        have hlen : (charCells text w st).length = w - 1 + 1 := by simp [charCells]
        rw [hk]
        simp only [charCells, List.getElem?_cons_succ, List.getElem?_replicate]
        rw [if_pos (by omega)]
    · rw [blankStraddlers_eq, getElem?_fixAt (by rw [length_fixAt]; exact hi), getElem?_fixAt hi]
      split
      · exact Or.inr ⟨_, rfl⟩
      · split
        · exact Or.inr ⟨_, rfl⟩
        · exact Or.inl rfl
  · left
    rw [List.getElem?_eq_none (by rw [Row.put_length]; omega), List.getElem?_eq_none (by omega)]

/-! ## 2. Screen level -/

/-- the cell width `Scr.put` really uses: the nominal width (at least 1), or 1 for a character
    wider than the whole screen -/
def effW (s : Scr) (w0 : Nat) : Nat := if max w0 1 > s.w then 1 else max w0 1

/-- the bytes `Scr.put` really stores: U+FFFD for a character wider than the whole screen -/
def effText (s : Scr) (text : Bytes) (w0 : Nat) : Bytes :=
  if max w0 1 > s.w then replacementChar else text

namespace Lemmas

/-! ### fields untouched by `scroll` / `lineDown` -/

theorem scroll_fields (s : Scr) (a b : Nat) (d : Int) :
    (s.scroll a b d).w = s.w ∧ (s.scroll a b d).h = s.h ∧ (s.scroll a b d).cx = s.cx ∧
    (s.scroll a b d).cy = s.cy ∧ (s.scroll a b d).sx = s.sx ∧ (s.scroll a b d).sy = s.sy ∧
    (s.scroll a b d).top = s.top ∧ (s.scroll a b d).bot = s.bot ∧
    (s.scroll a b d).wrap = s.wrap ∧ (s.scroll a b d).sty = s.sty := by
  unfold Scr.scroll; split <;> simp

theorem lineDown_fields (s : Scr) :
    s.lineDown.w = s.w ∧ s.lineDown.h = s.h ∧ s.lineDown.cx = s.cx ∧
    s.lineDown.sx = s.sx ∧ s.lineDown.sy = s.sy ∧
    s.lineDown.top = s.top ∧ s.lineDown.bot = s.bot ∧
    s.lineDown.wrap = s.wrap ∧ s.lineDown.sty = s.sty := by
  unfold Scr.lineDown
  split
  · have := scroll_fields s s.top s.bot (-1); simp [this]
  · split <;> simp

theorem lineDown_cy (s : Scr) :
    s.lineDown.cy = if s.cy ≠ s.bot ∧ s.cy + 1 < s.h then s.cy + 1 else s.cy := by
  unfold Scr.lineDown
  split
  · next h => rw [(scroll_fields s s.top s.bot (-1)).2.2.2.1]; simp [h]
  · next h => split <;> simp [*]

theorem lineDown_grid (s : Scr) :
    s.lineDown.grid = if s.cy = s.bot then (s.scroll s.top s.bot (-1)).grid else s.grid := by
  unfold Scr.lineDown
  split
  · rfl
  · split <;> rfl

theorem scroll_up_getElem? (s : Scr) (y : Nat) (h1 : s.top ≤ s.bot) (h2 : s.bot < s.h)
    (hg : s.grid.length = s.h) :
    (s.scroll s.top s.bot (-1)).grid[y]? =
      if s.top ≤ y ∧ y < s.bot then s.grid[y + 1]?
      else if y = s.bot then some (blankRow s.w s.sty) else s.grid[y]? := by
  have hc : ¬ (s.top > s.bot ∨ s.bot ≥ s.h) := by omega
  have hk : min (-1 : Int).natAbs (s.bot - s.top + 1) = 1 := by
    have : (-1 : Int).natAbs = 1 := rfl
    rw [this]; omega
  have hd : ¬ ((-1 : Int) ≥ 0) := by omega
  unfold Scr.scroll
  simp only [hc, if_false, hk, hd]
  simp only [List.getElem?_append, List.length_append, List.length_take, List.length_drop,
    List.length_replicate, List.getElem?_take, List.getElem?_drop, hg]
  have m1 : min s.top s.h = s.top := by omega
  have m2 : min (s.bot - s.top + 1) (s.h - s.top) = s.bot - s.top + 1 := by omega
  simp only [m1, m2]
  repeat' split
  all_goals first | rfl | omega | (congr 1; omega) | skip
  have : y - s.top - (s.bot - s.top + 1 - 1) = 0 := by omega
  rw [this]; rfl


theorem row_eq (s : Scr) (y : Nat) : s.row y = (s.grid[y]?).getD [] := by
  unfold Scr.row; rw [List.getD_eq_getElem?_getD]

/-- the part of `Scr.put` after the right-edge adjustment of the cursor -/
def putAt (pol : WidePolicy) (s : Scr) (text : Bytes) (w : Nat) : Scr :=
  let r := s.row s.cy
  let keep := contAt r s.cx && pol == .keep
  let r' := if keep then r.putKeep s.cx text w s.sty else r.put s.cx text w s.sty
  let s := s.setRow s.cy r'
  let x := s.cx + w + (if keep then headOf r s.cx + widthAt r (headOf r s.cx) - s.cx else 0)
  if x < s.w then { s with cx := x }
  else if s.wrap then ({ s with cx := x - s.w } : Scr).lineDown
  else { s with cx := s.w - 1 }

theorem put_eq_putAt_fit (pol : WidePolicy) (s : Scr) (text : Bytes) (w0 : Nat)
    (h : s.cx + effW s w0 ≤ s.w) :
    Scr.put pol s text w0 = putAt pol s (effText s text w0) (effW s w0) := by
  have hn : ¬ (s.cx + effW s w0 > s.w) := by omega
  unfold effW at hn
  unfold Scr.put putAt effW effText
  simp only [hn, if_false]

theorem put_eq_putAt_wrap (pol : WidePolicy) (s : Scr) (text : Bytes) (w0 : Nat)
    (h : s.cx + effW s w0 > s.w) (hwrap : s.wrap = true) :
    Scr.put pol s text w0 =
      putAt pol ({ s with cx := 0 } : Scr).lineDown (effText s text w0) (effW s w0) := by
  unfold effW at h
  unfold Scr.put putAt effW effText
  simp only [h, hwrap, if_true]

theorem put_eq_putAt_nowrap (pol : WidePolicy) (s : Scr) (text : Bytes) (w0 : Nat)
    (h : s.cx + effW s w0 > s.w) (hwrap : s.wrap = false) :
    Scr.put pol s text w0 =
      putAt pol { s with cx := s.w - effW s w0 } (effText s text w0) (effW s w0) := by
  unfold effW at h
  unfold Scr.put putAt effW effText
  simp only [h, hwrap, if_true]
  simp

theorem effW_pos (s : Scr) (w0 : Nat) : 1 ≤ effW s w0 := by unfold effW; split <;> omega

theorem effW_le (s : Scr) (w0 : Nat) (h : 1 ≤ s.w) : effW s w0 ≤ s.w := by unfold effW; split <;> omega

theorem effW_congr {s s' : Scr} (h : s'.w = s.w) (w0 : Nat) : effW s' w0 = effW s w0 := by
  unfold effW; rw [h]

theorem effText_congr {s s' : Scr} (h : s'.w = s.w) (t : Bytes) (w0 : Nat) :
    effText s' t w0 = effText s t w0 := by
  unfold effText; rw [h]

/-- `putAt` when the text is written with `Row.put` (grid policy, or cursor not on a continuation cell) -/
theorem putAt_plain (pol : WidePolicy) (s : Scr) (text : Bytes) (w : Nat)
    (hpol : pol = .blank ∨ contAt (s.row s.cy) s.cx = false) :
    putAt pol s text w =
      (let s1 : Scr := { s with grid := s.grid.set s.cy (Row.put (s.row s.cy) s.cx text w s.sty) }
       if s.cx + w < s.w then { s1 with cx := s.cx + w }
       else if s.wrap then ({ s1 with cx := s.cx + w - s.w } : Scr).lineDown
       else { s1 with cx := s.w - 1 }) := by
  have hk : (contAt (s.row s.cy) s.cx && pol == .keep) = false := by
    rcases hpol with h | h
    · subst h; simp
    · simp [h]
  unfold putAt
  simp only [hk, Scr.setRow]
  simp

theorem inv_iff (s : Scr) : s.inv = true ↔
    (1 ≤ s.w ∧ 1 ≤ s.h ∧ s.grid.length = s.h ∧ (∀ r ∈ s.grid, r.length = s.w ∧ rowWF r = true) ∧
      s.cx < s.w ∧ s.cy < s.h ∧ s.sx < s.w ∧ s.sy < s.h ∧ s.top ≤ s.bot ∧ s.bot < s.h) := by
  simp [Scr.inv, and_assoc]

theorem row_mem (s : Scr) (y : Nat) (h : y < s.grid.length) : s.row y ∈ s.grid := by
  rw [row_eq, List.getElem?_eq_getElem h]; simp

end Lemmas

namespace Lemmas

theorem lineDown_row (s : Scr) (h1 : s.top ≤ s.bot) (h2 : s.bot < s.h) (hg : s.grid.length = s.h)
    (y : Nat) :
    s.lineDown.row y =
      if s.cy = s.bot then
        (if s.top ≤ y ∧ y < s.bot then s.row (y + 1)
         else if y = s.bot then blankRow s.w s.sty else s.row y)
      else s.row y := by
  rw [row_eq, lineDown_grid]
  split
  · rw [scroll_up_getElem? s y h1 h2 hg]
    split
    · rw [row_eq]
    · split
      · rfl
      · rw [row_eq]
  · rw [row_eq]

theorem row_set (s s1 : Scr) (c : Nat) (r : Row) (hs1 : s1.grid = s.grid.set c r) (y : Nat)
    (hc : c < s.grid.length) : s1.row y = if y = c then r else s.row y := by
  rw [row_eq, row_eq, hs1]
  simp only [List.getElem?_set]
  by_cases h : c = y
  · subst h; simp [hc]
  · rw [if_neg h, if_neg (fun e => h e.symm)]

end Lemmas

/-- the row `Scr.put` produces when the character is written at the cursor with `Row.put`:
    section 1 describes it cell by cell -/
def putRow (s : Scr) (text : Bytes) (w0 : Nat) : Row :=
  Row.put (s.row s.cy) s.cx (effText s text w0) (effW s w0) s.sty

/-- the effective width and text are the nominal ones unless the character is wider than the screen -/
theorem effW_effText_normal (s : Scr) (text : Bytes) (w0 : Nat) (h : max w0 1 ≤ s.w) :
    effW s w0 = max w0 1 ∧ effText s text w0 = text := by
  have : ¬ (max w0 1 > s.w) := by omega
  simp [effW, effText, this]

/-- **C03 (2a), no edge, strictly inside.** Grid policy always, span policy when the cursor is
    not on a continuation cell: the cursor row becomes `Row.put …`, every other row and every
    other field is unchanged, the cursor advances by the cell width. -/
theorem put_inside (pol : WidePolicy) (s : Scr) (text : Bytes) (w0 : Nat)
    (hpol : pol = .blank ∨ contAt (s.row s.cy) s.cx = false) (h : s.cx + effW s w0 < s.w) :
    Scr.put pol s text w0 =
      { s with grid := s.grid.set s.cy (putRow s text w0), cx := s.cx + effW s w0 } := by
  rw [put_eq_putAt_fit pol s text w0 (by omega), putAt_plain pol s _ _ hpol]
  simp only [h, if_true, putRow]

/-- **C03 (2b), character ends exactly at the right edge, autowrap off**: the cursor stays on the
    last column. -/
theorem put_lastcol_nowrap (pol : WidePolicy) (s : Scr) (text : Bytes) (w0 : Nat)
    (hpol : pol = .blank ∨ contAt (s.row s.cy) s.cx = false) (h : s.cx + effW s w0 = s.w)
    (hwrap : s.wrap = false) :
    Scr.put pol s text w0 = { s with grid := s.grid.set s.cy (putRow s text w0), cx := s.w - 1 } := by
  rw [put_eq_putAt_fit pol s text w0 (by omega), putAt_plain pol s _ _ hpol]
  have : ¬ (s.cx + effW s w0 < s.w) := by omega
  simp [this, hwrap, putRow]

/-- **C03 (2c), character ends exactly at the right edge, autowrap on**: column 0 and one line down. -/
theorem put_lastcol_wrap (pol : WidePolicy) (s : Scr) (text : Bytes) (w0 : Nat)
    (hpol : pol = .blank ∨ contAt (s.row s.cy) s.cx = false) (h : s.cx + effW s w0 = s.w)
    (hwrap : s.wrap = true) :
    Scr.put pol s text w0 =
      ({ s with grid := s.grid.set s.cy (putRow s text w0), cx := 0 } : Scr).lineDown := by
  rw [put_eq_putAt_fit pol s text w0 (by omega), putAt_plain pol s _ _ hpol]
  have : ¬ (s.cx + effW s w0 < s.w) := by omega
  simp [hwrap, putRow, h]

/-- (2c) spelled out when the cursor is not on the bottom margin: next row if there is one,
    otherwise (last screen row, below the region) it stays; nothing scrolls. -/
theorem put_lastcol_wrap_noscroll (pol : WidePolicy) (s : Scr) (text : Bytes) (w0 : Nat)
    (hpol : pol = .blank ∨ contAt (s.row s.cy) s.cx = false) (h : s.cx + effW s w0 = s.w)
    (hwrap : s.wrap = true) (hb : s.cy ≠ s.bot) :
    Scr.put pol s text w0 =
      { s with grid := s.grid.set s.cy (putRow s text w0), cx := 0,
               cy := if s.cy + 1 < s.h then s.cy + 1 else s.cy } := by
  rw [put_lastcol_wrap pol s text w0 hpol h hwrap]
  unfold Scr.lineDown
  simp only [hb, if_false]
  split <;> rfl

/-- (2c) spelled out on the bottom margin: the cursor row is written, then the scroll region
    moves up by one row (the top row of the region is lost, the bottom row becomes blank in the
    current style); rows outside the region and the cursor row number are unchanged. -/
theorem put_lastcol_wrap_scroll (pol : WidePolicy) (s : Scr) (text : Bytes) (w0 : Nat)
    (hinv : s.inv = true)
    (hpol : pol = .blank ∨ contAt (s.row s.cy) s.cx = false) (h : s.cx + effW s w0 = s.w)
    (hwrap : s.wrap = true) (hb : s.cy = s.bot) :
    (Scr.put pol s text w0).cx = 0 ∧ (Scr.put pol s text w0).cy = s.cy ∧
    ∀ y, (Scr.put pol s text w0).row y =
      if s.top ≤ y ∧ y < s.bot then (if y + 1 = s.bot then putRow s text w0 else s.row (y + 1))
      else if y = s.bot then blankRow s.w s.sty
      else s.row y := by
  obtain ⟨_, _, hg, _, _, hcy, _, _, htb, hbh⟩ := (inv_iff s).1 hinv
  rw [put_lastcol_wrap pol s text w0 hpol h hwrap]
  refine ⟨(lineDown_fields _).2.2.1, ?_, ?_⟩
  · rw [lineDown_cy]; simp [hb]
  · intro y
    rw [lineDown_row ({ s with grid := s.grid.set s.cy (putRow s text w0), cx := 0 } : Scr) htb hbh
      (by simp [hg])]
    simp only [hb, if_true]
    have hc : s.bot < s.grid.length := by omega
    split
    · rw [row_set s _ s.bot _ rfl (y + 1) (by omega)]
    · split
      · rfl
      · next h1 h2 => rw [row_set s _ s.bot _ rfl y (by omega), if_neg (by omega)]

/-- **"Keeps overwriting the last column when autowrap is off."** A character of width (at most)
    1 written on the last column with autowrap off replaces the cell under the cursor and leaves
    the cursor where it is; the state after it satisfies the same hypotheses again. -/
theorem put_nowrap_last_column (pol : WidePolicy) (s : Scr) (text : Bytes) (w0 : Nat)
    (hpol : pol = .blank ∨ contAt (s.row s.cy) s.cx = false) (hw0 : w0 ≤ 1)
    (hwrap : s.wrap = false) (hcx : s.cx + 1 = s.w) :
    Scr.put pol s text w0 =
      { s with grid := s.grid.set s.cy (Row.put (s.row s.cy) s.cx text 1 s.sty) } := by
  have hW : effW s w0 = 1 := by unfold effW; split <;> omega
  have hT : effText s text w0 = text := by
    unfold effText; rw [if_neg (by omega)]
  rw [put_lastcol_nowrap pol s text w0 hpol (by omega) hwrap]
  unfold putRow
  rw [hW, hT]
  have : s.w - 1 = s.cx := by omega
  rw [this]

/-- **"Stored in the cell(s) starting at the cursor with the current attributes."** Whenever the
    character fits after the cursor and the write does not scroll the cursor row away, the cell at
    the old cursor position holds the character (U+FFFD if it is wider than the screen) with its
    width and the current style, and the next `width - 1` cells are continuation cells in the
    current style. -/
theorem put_cursor_cell (pol : WidePolicy) (s : Scr) (text : Bytes) (w0 : Nat) (hinv : s.inv = true)
    (hpol : pol = .blank ∨ contAt (s.row s.cy) s.cx = false) (hfit : s.cx + effW s w0 ≤ s.w)
    (hns : ¬ (s.cx + effW s w0 = s.w ∧ s.wrap = true ∧ s.cy = s.bot)) :
    ((Scr.put pol s text w0).row s.cy)[s.cx]? =
      some ⟨.ch (effText s text w0) (effW s w0), s.sty⟩ ∧
    ∀ k, s.cx < k → k < s.cx + effW s w0 →
      ((Scr.put pol s text w0).row s.cy)[k]? = some ⟨.cont, s.sty⟩ := by
  obtain ⟨_, _, hg, hrows, hcx, hcy, _⟩ := (inv_iff s).1 hinv
  have hl : (s.row s.cy).length = s.w := (hrows _ (row_mem s s.cy (by omega))).1
  have hrow : (Scr.put pol s text w0).row s.cy = putRow s text w0 := by
    by_cases h1 : s.cx + effW s w0 < s.w
    · rw [put_inside pol s text w0 hpol h1, row_set s _ s.cy _ rfl s.cy (by omega), if_pos rfl]
    · by_cases hwrap : s.wrap = true
      · have hb : s.cy ≠ s.bot := fun e => hns ⟨by omega, hwrap, e⟩
        rw [put_lastcol_wrap_noscroll pol s text w0 hpol (by omega) hwrap hb,
          row_set s _ s.cy _ rfl s.cy (by omega), if_pos rfl]
      · have hwrap' : s.wrap = false := by simpa using hwrap
        rw [put_lastcol_nowrap pol s text w0 hpol (by omega) hwrap',
          row_set s _ s.cy _ rfl s.cy (by omega), if_pos rfl]
  rw [hrow]
  unfold putRow
  exact ⟨Row.put_head _ _ _ _ _ (by omega),
    fun k k1 k2 => Row.put_tail _ _ _ _ _ k k1 k2 (by omega)⟩

/-! ## 3. The right edge: the character does not fit after the cursor -/

namespace Lemmas

theorem row_cont0 (s : Scr) (hinv : s.inv = true) (y : Nat) : contAt (s.row y) 0 = false := by
  obtain ⟨_, _, _, hrows, _⟩ := (inv_iff s).1 hinv
  by_cases hy : y < s.grid.length
  · exact wf_cont0 (hrows _ (row_mem s y hy)).2
  · rw [row_eq, List.getElem?_eq_none (by omega)]; rfl

theorem blankRow_wf (w : Nat) (st : Style) : rowWF (blankRow w st) = true := by
  rw [rowWF_iff]
  have hg : ∀ j, contAt (blankRow w st) j = false := by
    intro j
    cases h : contAt (blankRow w st) j with
    | false => rfl
    | true =>
      obtain ⟨s', hs'⟩ := contAt_iff.1 h
      simp [blankRow, List.getElem?_replicate, blank] at hs'
  refine ⟨hg 0, ?_⟩
  intro i t w' st' hi
  have hil := getElem?_lt hi
  simp only [blankRow, List.length_replicate] at hil
  simp only [blankRow, List.getElem?_replicate, hil, if_true, blank, Option.some.injEq,
    Cell.mk.injEq, Glyph.ch.injEq] at hi
  obtain ⟨⟨_, hw⟩, _⟩ := hi
  subst hw
  refine ⟨Nat.le_refl _, ?_, fun k a b => by omega, hg _⟩
  simp [blankRow]; omega


theorem scroll_up_length (s : Scr) (h1 : s.top ≤ s.bot) (h2 : s.bot < s.h)
    (hg : s.grid.length = s.h) : (s.scroll s.top s.bot (-1)).grid.length = s.grid.length := by
  have hc : ¬ (s.top > s.bot ∨ s.bot ≥ s.h) := by omega
  have hk : min (-1 : Int).natAbs (s.bot - s.top + 1) = 1 := by
    have : (-1 : Int).natAbs = 1 := rfl
    rw [this]; omega
  have hd : ¬ ((-1 : Int) ≥ 0) := by omega
  unfold Scr.scroll
  simp only [hc, if_false, hk, hd]
  simp only [List.length_append, List.length_take, List.length_drop, List.length_replicate, hg]
  omega

/-- everything about the state after "column 0, one line down" in terms of the original screen -/
theorem lineDown0_spec (s : Scr) (h1 : s.top ≤ s.bot) (h2 : s.bot < s.h) (hg : s.grid.length = s.h) :
    ({ s with cx := 0 } : Scr).lineDown.w = s.w ∧
    ({ s with cx := 0 } : Scr).lineDown.cx = 0 ∧
    ({ s with cx := 0 } : Scr).lineDown.sty = s.sty ∧
    ({ s with cx := 0 } : Scr).lineDown.cy =
      (if s.cy ≠ s.bot ∧ s.cy + 1 < s.h then s.cy + 1 else s.cy) ∧
    ({ s with cx := 0 } : Scr).lineDown.grid.length = s.grid.length ∧
    ∀ y, ({ s with cx := 0 } : Scr).lineDown.row y =
      if s.cy = s.bot then
        (if s.top ≤ y ∧ y < s.bot then s.row (y + 1)
         else if y = s.bot then blankRow s.w s.sty else s.row y)
      else s.row y := by
  have hf := lineDown_fields ({ s with cx := 0 } : Scr)
  refine ⟨hf.1, hf.2.2.1, hf.2.2.2.2.2.2.2.2, lineDown_cy _, ?_, lineDown_row _ h1 h2 hg⟩
  rw [lineDown_grid]
  split
  · exact scroll_up_length ({ s with cx := 0 } : Scr) h1 h2 hg
  · rfl

end Lemmas


/-- **C03 (3a), autowrap on.** A character that does not fit after the cursor is written exactly
    as if the cursor had first gone to column 0 and one line down (`lineDown`: next row, or the
    region scrolled by one on the bottom margin, or the same row on the last screen row below the
    region); section 2 then applies, since at column 0 the character fits (second conjunct). -/
theorem put_edge_wrap (pol : WidePolicy) (s : Scr) (text : Bytes) (w0 : Nat) (hw : 1 ≤ s.w)
    (h : s.cx + effW s w0 > s.w) (hwrap : s.wrap = true) :
    Scr.put pol s text w0 = Scr.put pol ({ s with cx := 0 } : Scr).lineDown text w0 ∧
    ({ s with cx := 0 } : Scr).lineDown.cx + effW ({ s with cx := 0 } : Scr).lineDown w0
      ≤ ({ s with cx := 0 } : Scr).lineDown.w := by
  have hf := lineDown_fields ({ s with cx := 0 } : Scr)
  have e1 : ({ s with cx := 0 } : Scr).lineDown.w = s.w := hf.1
  have e2 : ({ s with cx := 0 } : Scr).lineDown.cx = 0 := hf.2.2.1
  have e3 := effW_congr e1 w0
  have hfit : ({ s with cx := 0 } : Scr).lineDown.cx + effW ({ s with cx := 0 } : Scr).lineDown w0
      ≤ ({ s with cx := 0 } : Scr).lineDown.w := by
    rw [e1, e2, e3]; have := effW_le s w0 hw; omega
  refine ⟨?_, hfit⟩
  rw [put_eq_putAt_wrap pol s text w0 h hwrap, put_eq_putAt_fit pol _ text w0 hfit, e3,
    effText_congr e1]

/-- **C03 (3b), autowrap off.** A character that does not fit after the cursor is written exactly
    as if the cursor had first been pulled back to column `s.w - width`, so that the character ends
    on the last column. -/
theorem put_edge_nowrap (pol : WidePolicy) (s : Scr) (text : Bytes) (w0 : Nat) (hw : 1 ≤ s.w)
    (h : s.cx + effW s w0 > s.w) (hwrap : s.wrap = false) :
    Scr.put pol s text w0 = Scr.put pol { s with cx := s.w - effW s w0 } text w0 := by
  have hle := effW_le s w0 hw
  have e3 : effW { s with cx := s.w - effW s w0 } w0 = effW s w0 := effW_congr rfl w0
  have e4 : effText { s with cx := s.w - effW s w0 } text w0 = effText s text w0 :=
    effText_congr rfl text w0
  have hfit : ({ s with cx := s.w - effW s w0 } : Scr).cx + effW { s with cx := s.w - effW s w0 } w0
      ≤ ({ s with cx := s.w - effW s w0 } : Scr).w := by
    rw [e3]; show s.w - effW s w0 + effW s w0 ≤ s.w; omega
  rw [put_eq_putAt_nowrap pol s text w0 h hwrap, put_eq_putAt_fit pol _ text w0 hfit, e3, e4]

/-- (3b) spelled out: the character is written at column `s.w - width` of the same row and the
    cursor ends on the last column; nothing else changes. For width 1 this situation does not
    arise from a state with `cx < w` (see `put_lastcol_nowrap`, which is the "keeps overwriting
    the last column" case). -/
theorem put_edge_nowrap_explicit (pol : WidePolicy) (s : Scr) (text : Bytes) (w0 : Nat) (hw : 1 ≤ s.w)
    (hpol : pol = .blank ∨ contAt (s.row s.cy) (s.w - effW s w0) = false)
    (h : s.cx + effW s w0 > s.w) (hwrap : s.wrap = false) :
    Scr.put pol s text w0 =
      { s with grid := s.grid.set s.cy
                 (Row.put (s.row s.cy) (s.w - effW s w0) (effText s text w0) (effW s w0) s.sty),
               cx := s.w - 1 } := by
  have hle := effW_le s w0 hw
  have e3 : effW { s with cx := s.w - effW s w0 } w0 = effW s w0 := effW_congr rfl w0
  have e4 : effText { s with cx := s.w - effW s w0 } text w0 = effText s text w0 :=
    effText_congr rfl text w0
  have hlast : ({ s with cx := s.w - effW s w0 } : Scr).cx + effW { s with cx := s.w - effW s w0 } w0
      = ({ s with cx := s.w - effW s w0 } : Scr).w := by
    rw [e3]; show s.w - effW s w0 + effW s w0 = s.w; omega
  rw [put_edge_nowrap pol s text w0 hw h hwrap,
    put_lastcol_nowrap pol { s with cx := s.w - effW s w0 } text w0 hpol hlast hwrap]
  unfold putRow
  rw [e3, e4]
  rfl

/-- (3a) spelled out away from the bottom margin, for a character narrower than the screen: it
    is written at column 0 of the next row (of the same row when the cursor is on the last
    screen row below the region); the cursor ends right after it; nothing else changes. -/
theorem put_edge_wrap_noscroll (pol : WidePolicy) (s : Scr) (text : Bytes) (w0 : Nat)
    (hinv : s.inv = true) (h : s.cx + effW s w0 > s.w) (hwrap : s.wrap = true)
    (hb : s.cy ≠ s.bot) (hlt : effW s w0 < s.w) :
    Scr.put pol s text w0 =
      (let y' := if s.cy + 1 < s.h then s.cy + 1 else s.cy
       { s with grid := s.grid.set y' (Row.put (s.row y') 0 (effText s text w0) (effW s w0) s.sty),
                cx := effW s w0, cy := y' }) := by
  obtain ⟨hw, _⟩ := (inv_iff s).1 hinv
  have e0 : ({ s with cx := 0 } : Scr).lineDown =
      { s with cx := 0, cy := if s.cy + 1 < s.h then s.cy + 1 else s.cy } := by
    unfold Scr.lineDown
    simp only [hb, if_false]
    split <;> rfl
  generalize hy' : (if s.cy + 1 < s.h then s.cy + 1 else s.cy) = y' at e0
  have e3 : effW { s with cx := 0, cy := y' } w0 = effW s w0 := effW_congr rfl w0
  have e4 : effText { s with cx := 0, cy := y' } text w0 = effText s text w0 :=
    effText_congr rfl text w0
  rw [(put_edge_wrap pol s text w0 hw h hwrap).1, e0,
    put_inside pol _ text w0 (Or.inr (row_cont0 s hinv y'))
      (by rw [e3]; show 0 + effW s w0 < s.w; omega)]
  unfold putRow
  rw [e3, e4]
  simp only [Nat.zero_add]
  rfl

/-- (3a) spelled out on the bottom margin, for a character narrower than the screen: the scroll
    region moves up by one row and the character is written at column 0 of the fresh blank bottom
    row; rows outside the region are unchanged; the cursor stays on the bottom margin, right after
    the character. -/
theorem put_edge_wrap_scroll (pol : WidePolicy) (s : Scr) (text : Bytes) (w0 : Nat)
    (hinv : s.inv = true) (h : s.cx + effW s w0 > s.w) (hwrap : s.wrap = true)
    (hb : s.cy = s.bot) (hlt : effW s w0 < s.w) :
    (Scr.put pol s text w0).cx = effW s w0 ∧ (Scr.put pol s text w0).cy = s.cy ∧
    ∀ y, (Scr.put pol s text w0).row y =
      if s.top ≤ y ∧ y < s.bot then s.row (y + 1)
      else if y = s.bot then
        Row.put (blankRow s.w s.sty) 0 (effText s text w0) (effW s w0) s.sty
      else s.row y := by
  obtain ⟨hw, _, hg, _, _, hcy, _, _, htb, hbh⟩ := (inv_iff s).1 hinv
  obtain ⟨e, _⟩ := put_edge_wrap pol s text w0 hw h hwrap
  obtain ⟨f1, f3, f9, hcy0, hlen0, hrow⟩ := lineDown0_spec s htb hbh hg
  generalize ({ s with cx := 0 } : Scr).lineDown = s0 at e f1 f3 f9 hcy0 hlen0 hrow
  simp only [hb, ne_eq, not_true_eq_false, false_and, if_false, if_true] at hcy0 hrow
  have hnb : ¬ (s.top ≤ s.bot ∧ s.bot < s.bot) := by omega
  have hrb : s0.row s.bot = blankRow s.w s.sty := by
    rw [hrow, if_neg hnb, if_pos rfl]
  have hc0 : contAt (s0.row s0.cy) s0.cx = false := by
    rw [f3, hcy0, hrb]
    exact wf_cont0 (blankRow_wf _ _)
  have hins : s0.cx + effW s0 w0 < s0.w := by
    rw [f3, effW_congr f1, f1]; omega
  rw [e, put_inside pol s0 text w0 (Or.inr hc0) hins]
  refine ⟨?_, ?_, ?_⟩
  · show s0.cx + effW s0 w0 = effW s w0
    rw [f3, effW_congr f1]; omega
  · show s0.cy = s.cy
    rw [hcy0, hb]
  · intro y
    rw [row_set s0 _ s0.cy _ rfl y (by omega), hcy0]
    by_cases hy : y = s.bot
    · rw [if_pos hy, if_neg (by omega), if_pos hy]
      unfold putRow
      rw [hcy0, hrb, f3, f9, effW_congr f1, effText_congr f1]
    · rw [if_neg hy, hrow y]
      by_cases hr : s.top ≤ y ∧ y < s.bot
      · rw [if_pos hr, if_pos hr]
      · rw [if_neg hr, if_neg hr, if_neg hy, if_neg hy]

/-! ## 4. Style and frame -/

namespace Lemmas

/-- the last step of `Scr.put`: place the cursor at column `x`, wrapping or clamping at the edge -/
def finish (s1 : Scr) (x : Nat) : Scr :=
  if x < s1.w then { s1 with cx := x }
  else if s1.wrap then ({ s1 with cx := x - s1.w } : Scr).lineDown
  else { s1 with cx := s1.w - 1 }

theorem finish_fields (s1 : Scr) (x : Nat) :
    (finish s1 x).w = s1.w ∧ (finish s1 x).h = s1.h ∧
    (finish s1 x).sx = s1.sx ∧ (finish s1 x).sy = s1.sy ∧
    (finish s1 x).top = s1.top ∧ (finish s1 x).bot = s1.bot ∧
    (finish s1 x).wrap = s1.wrap ∧ (finish s1 x).sty = s1.sty := by
  unfold finish
  split
  · simp
  · split
    · have := lineDown_fields ({ s1 with cx := x - s1.w } : Scr)
      simp only [this, and_self]
    · simp

/-- the row written by `putAt` -/
def putAtRow (pol : WidePolicy) (s : Scr) (text : Bytes) (w : Nat) : Row :=
  if (contAt (s.row s.cy) s.cx && pol == .keep) = true
  then (s.row s.cy).putKeep s.cx text w s.sty else (s.row s.cy).put s.cx text w s.sty

/-- the cursor column `putAt` aims at -/
def putAtX (pol : WidePolicy) (s : Scr) (w : Nat) : Nat :=
  s.cx + w + (if (contAt (s.row s.cy) s.cx && pol == .keep) = true
    then headOf (s.row s.cy) s.cx + widthAt (s.row s.cy) (headOf (s.row s.cy) s.cx) - s.cx else 0)

theorem putAt_eq_finish (pol : WidePolicy) (s : Scr) (text : Bytes) (w : Nat) :
    putAt pol s text w = finish (s.setRow s.cy (putAtRow pol s text w)) (putAtX pol s w) := rfl

theorem putAt_fields (pol : WidePolicy) (s : Scr) (text : Bytes) (w : Nat) :
    (putAt pol s text w).w = s.w ∧ (putAt pol s text w).h = s.h ∧
    (putAt pol s text w).sx = s.sx ∧ (putAt pol s text w).sy = s.sy ∧
    (putAt pol s text w).top = s.top ∧ (putAt pol s text w).bot = s.bot ∧
    (putAt pol s text w).wrap = s.wrap ∧ (putAt pol s text w).sty = s.sty := by
  rw [putAt_eq_finish]
  exact finish_fields _ _

end Lemmas

/-- **C03 (4), frame.** Under either policy and in every case `Scr.put` leaves the size, the
    margins, the saved cursor, the autowrap flag and the current style alone. -/
theorem put_frame (pol : WidePolicy) (s : Scr) (text : Bytes) (w0 : Nat) :
    (Scr.put pol s text w0).w = s.w ∧ (Scr.put pol s text w0).h = s.h ∧
    (Scr.put pol s text w0).sx = s.sx ∧ (Scr.put pol s text w0).sy = s.sy ∧
    (Scr.put pol s text w0).top = s.top ∧ (Scr.put pol s text w0).bot = s.bot ∧
    (Scr.put pol s text w0).wrap = s.wrap ∧ (Scr.put pol s text w0).sty = s.sty := by
  by_cases h : s.cx + effW s w0 ≤ s.w
  · rw [put_eq_putAt_fit pol s text w0 h]; exact putAt_fields _ _ _ _
  · by_cases hwrap : s.wrap = true
    · rw [put_eq_putAt_wrap pol s text w0 (by omega) hwrap]
      obtain ⟨a1, a2, a3, a4, a5, a6, a7, a8⟩ :=
        putAt_fields pol ({ s with cx := 0 } : Scr).lineDown (effText s text w0) (effW s w0)
      obtain ⟨b1, b2, _, b4, b5, b6, b7, b8, b9⟩ := lineDown_fields ({ s with cx := 0 } : Scr)
      exact ⟨a1.trans b1, a2.trans b2, a3.trans b4, a4.trans b5, a5.trans b6, a6.trans b7,
        a7.trans b8, a8.trans b9⟩
    · have hwrap' : s.wrap = false := by simpa using hwrap
      rw [put_eq_putAt_nowrap pol s text w0 (by omega) hwrap']
      exact putAt_fields pol { s with cx := s.w - effW s w0 } (effText s text w0) (effW s w0)

/-! ### where the rows of the result come from (style of every touched cell) -/

namespace Lemmas

theorem scroll_mem (s : Scr) (a b : Nat) (d : Int) (r : Row) (h : r ∈ (s.scroll a b d).grid) :
    r ∈ s.grid ∨ r = blankRow s.w s.sty := by
  unfold Scr.scroll at h
  split at h
  · exact Or.inl h
  · simp only [List.mem_append] at h
    rcases h with (h | h) | h
    · exact Or.inl (List.mem_of_mem_take h)
    · split at h
      · rcases List.mem_append.1 h with h | h
        · exact Or.inr (List.mem_replicate.1 h).2
        · exact Or.inl (List.mem_of_mem_drop (List.mem_of_mem_take (List.mem_of_mem_take h)))
      · rcases List.mem_append.1 h with h | h
        · exact Or.inl (List.mem_of_mem_drop (List.mem_of_mem_take (List.mem_of_mem_drop h)))
        · exact Or.inr (List.mem_replicate.1 h).2
    · exact Or.inl (List.mem_of_mem_drop h)

theorem lineDown_mem (s : Scr) (r : Row) (h : r ∈ s.lineDown.grid) :
    r ∈ s.grid ∨ r = blankRow s.w s.sty := by
  rw [lineDown_grid] at h
  split at h
  · exact scroll_mem s _ _ _ r h
  · exact Or.inl h

theorem finish_mem (s1 : Scr) (x : Nat) (r : Row) (h : r ∈ (finish s1 x).grid) :
    r ∈ s1.grid ∨ r = blankRow s1.w s1.sty := by
  unfold finish at h
  split at h
  · exact Or.inl h
  · split at h
    · exact lineDown_mem ({ s1 with cx := x - s1.w } : Scr) r h
    · exact Or.inl h

theorem putAt_mem (pol : WidePolicy) (s : Scr) (text : Bytes) (w : Nat) (r : Row)
    (h : r ∈ (putAt pol s text w).grid) :
    r ∈ s.grid ∨ r = blankRow s.w s.sty ∨ r = putAtRow pol s text w := by
  rw [putAt_eq_finish] at h
  rcases finish_mem _ _ r h with h | h
  · rcases List.mem_or_eq_of_mem_set h with h | h
    · exact Or.inl h
    · exact Or.inr (Or.inr h)
  · exact Or.inr (Or.inl h)

theorem putAtRow_blank (s : Scr) (text : Bytes) (w : Nat) :
    putAtRow .blank s text w = Row.put (s.row s.cy) s.cx text w s.sty := by
  simp [putAtRow]

end Lemmas

/-- **C03 (4), style of everything that changes (grid policy).** Every row of the screen after
    `Scr.put` is a row of the old screen, or a fresh blank row in the current style (scrolling),
    or `Row.put … s.sty` applied to such a row. By `Row.put_sty` a cell of `Row.put r … s.sty`
    either equals the cell of `r` at the same column or carries exactly `s.sty`; so no cell with
    a style other than the current one is ever created. (For the span policy combine with
    `put_keep_eq_blank`.) -/
theorem put_rows_origin (s : Scr) (text : Bytes) (w0 : Nat) (hinv : s.inv = true) (r' : Row)
    (h : r' ∈ (Scr.put .blank s text w0).grid) :
    r' ∈ s.grid ∨ r' = blankRow s.w s.sty ∨
    ∃ r0 x, (r0 ∈ s.grid ∨ r0 = blankRow s.w s.sty) ∧
      r' = Row.put r0 x (effText s text w0) (effW s w0) s.sty := by
  obtain ⟨hw, _, hg, _, _, hcy, _, _, htb, hbh⟩ := (inv_iff s).1 hinv
  by_cases hfit : s.cx + effW s w0 ≤ s.w
  · rw [put_eq_putAt_fit _ s text w0 hfit] at h
    rcases putAt_mem _ _ _ _ _ h with h | h | h
    · exact Or.inl h
    · exact Or.inr (Or.inl h)
    · rw [putAtRow_blank] at h
      exact Or.inr (Or.inr ⟨_, _, Or.inl (row_mem s s.cy (by omega)), h⟩)
  · by_cases hwrap : s.wrap = true
    · rw [put_eq_putAt_wrap _ s text w0 (by omega) hwrap] at h
      obtain ⟨f1, _, f9, hcy0, hlen0, _⟩ := lineDown0_spec s htb hbh hg
      have hmem := lineDown_mem ({ s with cx := 0 } : Scr)
      have hcy1 : ({ s with cx := 0 } : Scr).lineDown.cy < ({ s with cx := 0 } : Scr).lineDown.grid.length := by
        rw [hcy0, hlen0]; split <;> omega
      have hrm := row_mem _ _ hcy1
      generalize ({ s with cx := 0 } : Scr).lineDown = s0 at h f1 f9 hmem hrm
      rcases putAt_mem _ _ _ _ _ h with h | h | h
      · exact (hmem _ h).elim Or.inl (fun e => Or.inr (Or.inl e))
      · rw [f1, f9] at h; exact Or.inr (Or.inl h)
      · rw [putAtRow_blank, f9] at h
        exact Or.inr (Or.inr ⟨_, _, hmem _ hrm, h⟩)
    · have hwrap' : s.wrap = false := by simpa using hwrap
      rw [put_eq_putAt_nowrap _ s text w0 (by omega) hwrap'] at h
      rcases putAt_mem _ _ _ _ _ h with h | h | h
      · exact Or.inl h
      · exact Or.inr (Or.inl h)
      · rw [putAtRow_blank] at h
        exact Or.inr (Or.inr ⟨_, _, Or.inl (row_mem s s.cy (by omega)), h⟩)

/-! ## 5. The two buffer policies agree away from continuation cells -/

namespace Lemmas

theorem putAt_keep_eq_blank (s : Scr) (text : Bytes) (w : Nat)
    (h : contAt (s.row s.cy) s.cx = false) : putAt .keep s text w = putAt .blank s text w := by
  rw [putAt_plain .keep s text w (Or.inr h), putAt_plain .blank s text w (Or.inl rfl)]

end Lemmas

/-- **C03 (5).** The span buffer (`.keep`) and the grid buffer (`.blank`) store a character
    identically whenever the column where it is written is not a continuation cell. That column
    is the cursor column when the character fits; column 0 of the next row at the edge with
    autowrap on (never a continuation cell); and column `s.w - width` at the edge with autowrap
    off, hence the third hypothesis (it cannot be dropped, see `put_keep_ne_blank_example`). -/
theorem put_keep_eq_blank (s : Scr) (text : Bytes) (w0 : Nat) (hinv : s.inv = true)
    (h : contAt (s.row s.cy) s.cx = false)
    (h2 : s.cx + effW s w0 ≤ s.w ∨ s.wrap = true ∨
      contAt (s.row s.cy) (s.w - effW s w0) = false) :
    Scr.put .keep s text w0 = Scr.put .blank s text w0 := by
  obtain ⟨hw, _, hg, _, _, hcy, _, _, htb, hbh⟩ := (inv_iff s).1 hinv
  by_cases hfit : s.cx + effW s w0 ≤ s.w
  · rw [put_eq_putAt_fit _ s text w0 hfit, put_eq_putAt_fit _ s text w0 hfit]
    exact putAt_keep_eq_blank s _ _ h
  · by_cases hwrap : s.wrap = true
    · rw [put_eq_putAt_wrap _ s text w0 (by omega) hwrap, put_eq_putAt_wrap _ s text w0 (by omega) hwrap]
      apply putAt_keep_eq_blank
      obtain ⟨_, f3, _, _, _, hrow⟩ := lineDown0_spec s htb hbh hg
      rw [f3, hrow]
      split
      · split
        · exact row_cont0 s hinv _
        · split
          · exact wf_cont0 (blankRow_wf _ _)
          · exact row_cont0 s hinv _
      · exact row_cont0 s hinv _
    · have hwrap' : s.wrap = false := by simpa using hwrap
      have h3 : contAt (s.row s.cy) (s.w - effW s w0) = false := by
        rcases h2 with h2 | h2 | h2
        · exact absurd h2 hfit
        · exact absurd h2 hwrap
        · exact h2
      rw [put_eq_putAt_nowrap _ s text w0 (by omega) hwrap',
        put_eq_putAt_nowrap _ s text w0 (by omega) hwrap']
      exact putAt_keep_eq_blank _ _ _ h3

/-- (5) for characters of width at most 1: on a well-formed screen they always fit -/
theorem put_keep_eq_blank_width1 (s : Scr) (text : Bytes) (w0 : Nat) (hinv : s.inv = true)
    (hw0 : w0 ≤ 1) (h : contAt (s.row s.cy) s.cx = false) :
    Scr.put .keep s text w0 = Scr.put .blank s text w0 := by
  obtain ⟨hw, _, _, _, hcx, _⟩ := (inv_iff s).1 hinv
  apply put_keep_eq_blank s text w0 hinv h
  left
  have : effW s w0 = 1 := by unfold effW; split <;> omega
  omega

/-! ## The screen invariant is preserved ("never left half-visible", whole screen) -/

namespace Lemmas

theorem blankRow_length (w : Nat) (st : Style) : (blankRow w st).length = w := by simp [blankRow]

theorem lineDown_inv (s : Scr) (h : s.inv = true) : s.lineDown.inv = true := by
  obtain ⟨a, b, c, d, e, f, g, h', i, j⟩ := (inv_iff s).1 h
  obtain ⟨f1, f2, f3, f4, f5, f6, f7, _, f9⟩ := lineDown_fields s
  apply (inv_iff _).2
  rw [f1, f2, f3, f4, f5, f6, f7]
  refine ⟨a, b, ?_, ?_, e, ?_, g, h', i, j⟩
  · rw [lineDown_grid]
    split
    · rw [scroll_up_length s i j c]; exact c
    · exact c
  · intro r hr
    rcases lineDown_mem s r hr with hr | hr
    · exact d r hr
    · rw [hr]; exact ⟨blankRow_length _ _, blankRow_wf _ _⟩
  · rw [lineDown_cy]; split <;> omega

theorem finish_inv (s1 : Scr) (x : Nat) (h : ({ s1 with cx := 0 } : Scr).inv = true)
    (hx : x < s1.w + s1.w) : (finish s1 x).inv = true := by
  obtain ⟨a, b, c, d, _, f, g, h', i, j⟩ := (inv_iff _).1 h
  have a' : 1 ≤ s1.w := a
  unfold finish
  split
  · next hlt => exact (inv_iff _).2 ⟨a, b, c, d, hlt, f, g, h', i, j⟩
  · split
    · apply lineDown_inv
      exact (inv_iff _).2 ⟨a, b, c, d, (by show x - s1.w < s1.w; omega), f, g, h', i, j⟩
    · exact (inv_iff _).2 ⟨a, b, c, d, (by show s1.w - 1 < s1.w; omega), f, g, h', i, j⟩

theorem putAt_blank_inv (s : Scr) (text : Bytes) (w : Nat) (h : s.inv = true) (hw : 1 ≤ w)
    (hfit : s.cx + w ≤ s.w) : (putAt .blank s text w).inv = true := by
  obtain ⟨a, b, c, d, e, f, g, h', i, j⟩ := (inv_iff s).1 h
  rw [putAt_eq_finish]
  apply finish_inv
  · apply (inv_iff _).2
    refine ⟨a, b, ?_, ?_, a, f, g, h', i, j⟩
    · show (s.grid.set _ _).length = s.h
      rw [List.length_set]; exact c
    · intro r hr
      rcases List.mem_or_eq_of_mem_set hr with hr | hr
      · exact d r hr
      · obtain ⟨hl, hwf⟩ := d _ (row_mem s s.cy (by omega))
        rw [hr, putAtRow_blank]
        exact ⟨by rw [Row.put_length]; exact hl, Row.put_wf _ _ _ _ _ hwf hw (by omega)⟩
  · show putAtX .blank s w < s.w + s.w
    simp [putAtX]; omega

end Lemmas

/-- **C03, "a wide character is never left half-visible", whole screen, grid policy.** `Scr.put`
    preserves the screen invariant: every row keeps the screen width and stays well formed
    (`rowWF`), the cursor stays inside the screen. -/
theorem put_blank_inv (s : Scr) (text : Bytes) (w0 : Nat) (hinv : s.inv = true) :
    (Scr.put .blank s text w0).inv = true := by
  obtain ⟨a, b, c, d, e, f, g, h', i, j⟩ := (inv_iff s).1 hinv
  have hle := effW_le s w0 a
  have hpos := effW_pos s w0
  by_cases hfit : s.cx + effW s w0 ≤ s.w
  · rw [put_eq_putAt_fit _ s text w0 hfit]
    exact putAt_blank_inv s _ _ hinv hpos hfit
  · by_cases hwrap : s.wrap = true
    · rw [put_eq_putAt_wrap _ s text w0 (by omega) hwrap]
      have h0 : ({ s with cx := 0 } : Scr).lineDown.inv = true :=
        lineDown_inv _ ((inv_iff _).2 ⟨a, b, c, d, a, f, g, h', i, j⟩)
      obtain ⟨f1, _, f3, _⟩ := lineDown_fields ({ s with cx := 0 } : Scr)
      apply putAt_blank_inv _ _ _ h0 hpos
      rw [f1, f3]; show 0 + effW s w0 ≤ s.w; omega
    · have hwrap' : s.wrap = false := by simpa using hwrap
      rw [put_eq_putAt_nowrap _ s text w0 (by omega) hwrap']
      apply putAt_blank_inv _ _ _ _ hpos
      · show s.w - effW s w0 + effW s w0 ≤ s.w; omega
      · exact (inv_iff _).2 ⟨a, b, c, d, (by show s.w - effW s w0 < s.w; omega), f, g, h', i, j⟩

/-- the same for the span policy whenever it coincides with the grid policy (section 5) -/
theorem put_keep_inv_off_cont (s : Scr) (text : Bytes) (w0 : Nat) (hinv : s.inv = true)
    (h : contAt (s.row s.cy) s.cx = false)
    (h2 : s.cx + effW s w0 ≤ s.w ∨ s.wrap = true ∨
      contAt (s.row s.cy) (s.w - effW s w0) = false) :
    (Scr.put .keep s text w0).inv = true := by
  rw [put_keep_eq_blank s text w0 hinv h h2]; exact put_blank_inv s text w0 hinv

/-! ## 6. Span policy on a continuation cell: `Row.putKeep` -/
namespace Lemmas

theorem contAt_append (a b : Row) (j : Nat) :
    contAt (a ++ b) j = if j < a.length then contAt a j else contAt b (j - a.length) := by
  by_cases h : j < a.length
  · rw [if_pos h]; exact contAt_congr (List.getElem?_append_left h)
  · rw [if_neg h]
    have hle : a.length ≤ j := by omega
    unfold contAt
    rw [List.getElem?_append_right hle]

theorem wf_append {a b : Row} (ha : rowWF a = true) (hb : rowWF b = true) : rowWF (a ++ b) = true := by
  rw [rowWF_iff]
  constructor
  · rw [contAt_append]
    split
    · exact wf_cont0 ha
    · rw [Nat.zero_sub]; exact wf_cont0 hb
  · intro i t w st hi
    rw [List.getElem?_append] at hi
    split at hi
    · next hlt =>
      obtain ⟨p1, p2, p3, p4⟩ := wf_ch ha hi
      refine ⟨p1, by rw [List.length_append]; omega, ?_, ?_⟩
      · intro k k1 k2
        rw [contAt_append, if_pos (by omega)]; exact p3 k k1 k2
      · rw [contAt_append]
        split
        · exact p4
        · have : i + w - a.length = 0 := by omega
          rw [this]; exact wf_cont0 hb
    · next hge =>
      obtain ⟨p1, p2, p3, p4⟩ := wf_ch hb hi
      refine ⟨p1, by rw [List.length_append]; omega, ?_, ?_⟩
      · intro k k1 k2
        rw [contAt_append, if_neg (by omega)]; exact p3 _ (by omega) (by omega)
      · rw [contAt_append, if_neg (by omega)]
        have : i + w - a.length = i - a.length + w := by omega
        rw [this]; exact p4

theorem contAt_take (r : Row) (k j : Nat) :
    contAt (r.take k) j = if j < k then contAt r j else false := by
  by_cases h : j < k
  · rw [if_pos h]; exact contAt_congr (by rw [List.getElem?_take, if_pos h])
  · rw [if_neg h]; exact contAt_none (by rw [List.getElem?_take, if_neg h])

theorem wf_take {r : Row} (hwf : rowWF r = true) {k : Nat} (hk : contAt r k = false) :
    rowWF (r.take k) = true := by
  rw [rowWF_iff]
  constructor
  · rw [contAt_take]; split
    · exact wf_cont0 hwf
    · rfl
  · intro i t w st hi
    rw [List.getElem?_take] at hi
    split at hi
    · next hlt =>
      obtain ⟨p1, p2, p3, p4⟩ := wf_ch hwf hi
      have hik : i + w ≤ k := by
        false_or_by_contra
        have := p3 k hlt (by omega)
        rw [hk] at this; cases this
      refine ⟨p1, by rw [List.length_take]; omega, ?_, ?_⟩
      · intro j j1 j2
        rw [contAt_take, if_pos (by omega)]; exact p3 j j1 j2
      · rw [contAt_take]; split
        · exact p4
        · rfl
    · cases hi

theorem contAt_drop (r : Row) (k j : Nat) : contAt (r.drop k) j = contAt r (k + j) := by
  unfold contAt
  rw [List.getElem?_drop]

theorem wf_drop {r : Row} (hwf : rowWF r = true) {k : Nat} (hk : contAt r k = false) :
    rowWF (r.drop k) = true := by
  rw [rowWF_iff]
  constructor
  · rw [contAt_drop]; exact hk
  · intro i t w st hi
    rw [List.getElem?_drop] at hi
    obtain ⟨p1, p2, p3, p4⟩ := wf_ch hwf hi
    refine ⟨p1, by rw [List.length_drop]; omega, ?_, ?_⟩
    · intro j j1 j2
      rw [contAt_drop]; exact p3 _ (by omega) (by omega)
    · rw [contAt_drop]
      have : k + (i + w) = k + i + w := by omega
      rw [this]; exact p4

theorem wf_charCells (text : Bytes) (w : Nat) (st : Style) (hw : 1 ≤ w) :
    rowWF (charCells text w st) = true := by
  have hlen := length_charCells text w st hw
  rw [rowWF_iff]
  constructor
  · apply contAt_ch (t := text) (w := w) (st := st)
    rw [getElem?_charCells _ _ _ _ (by omega), if_pos rfl]
  · intro i t w' st' hi
    have hil := getElem?_lt hi
    rw [hlen] at hil
    rw [getElem?_charCells _ _ _ _ hil] at hi
    by_cases h0 : i = 0
    · rw [if_pos h0] at hi
      simp only [Option.some.injEq, Cell.mk.injEq, Glyph.ch.injEq] at hi
      obtain ⟨⟨_, hw'⟩, _⟩ := hi
      subst hw' h0
      refine ⟨hw, by omega, ?_, ?_⟩
      · intro k k1 k2
        apply contAt_cont (st := st)
        rw [getElem?_charCells _ _ _ _ (by omega), if_neg (by omega)]
      · exact contAt_ge (by omega)
    · rw [if_neg h0] at hi; simp at hi

theorem fixAt_mem (r : Row) (c : Nat) (st : Style) (x : Cell) (h : x ∈ fixAt r c st) :
    x ∈ r ∨ x = blank st := by
  obtain ⟨i, hi⟩ := List.mem_iff_getElem?.1 h
  have hil : i < r.length := by have := getElem?_lt hi; rwa [length_fixAt] at this
  rw [getElem?_fixAt hil] at hi
  split at hi
  · right; simpa using hi.symm
  · left; exact List.mem_iff_getElem?.2 ⟨i, hi⟩

/-- the row spliced by `Row.putKeep` before it is cut back to the row length: the old row up to
    the end of the kept character, the new character, and the old row from column `x + w` on
    (with the wide character cut by that column blanked) -/
def splice (r : Row) (x : Nat) (text : Bytes) (w : Nat) (st : Style) : Row :=
  r.take (headOf r x + widthAt r (headOf r x)) ++ charCells text w st ++
    (fixAt r (x + w) st).drop (x + w)

theorem cutRow_eq (p : Row) (W : Nat) (st : Style) : cutRow p W st = (fixAt p W st).take W := rfl

/-- on a well-formed row, with the cursor on a continuation cell, `Row.putKeep` is the spliced
    row with the character cut by the right edge blanked, cut back to the row length. (When the
    kept character reaches beyond column `x + w`, its cells right of that column are the
    character "cut by column `x + w`", so the blanks of the definition are those of `fixAt`.) -/
theorem putKeep_eq {r : Row} (hwf : rowWF r = true) {x : Nat} (hc : contAt r x = true)
    (text : Bytes) (w : Nat) (st : Style) :
    Row.putKeep r x text w st = (fixAt (splice r x text w st) r.length st).take r.length := by
  obtain ⟨t, wd, s', hch, hwd1, hx, hlen, hwd⟩ := wf_head hwf (contAt_lt hc)
  obtain ⟨_, _, hcs, hend⟩ := wf_ch hwf hch
  have hle := headOf_le r x
  have hne : headOf r x ≠ x := by
    intro e
    have := contAt_ch hch
    rw [e, hc] at this; cases this
  have htail : (if x + w < headOf r x + wd
      then List.replicate (headOf r x + wd - (x + w)) (blank st) ++ r.drop (headOf r x + wd)
      else (if contAt r (x + w) then blankCharAt r (x + w) st else r).drop (x + w)) =
      (fixAt r (x + w) st).drop (x + w) := by
    split
    · next hlt =>
      have hcb : contAt r (x + w) = true := hcs (x + w) (by omega) hlt
      have hhb : headOf r (x + w) = headOf r x := wf_headOf_eq hwf hch (by omega) hlt
      rw [fixAt_of_cont hcb, hhb, hwd]
      apply List.ext_getElem?
      intro k
      rw [List.getElem?_drop]
      by_cases hk : x + w + k < r.length
      · rw [getElem?_blankRange hk]
        by_cases h1 : k < headOf r x + wd - (x + w)
        · rw [List.getElem?_append_left (by rw [List.length_replicate]; exact h1),
            List.getElem?_replicate, if_pos h1, if_pos ⟨by omega, by omega⟩]
        · rw [List.getElem?_append_right (by rw [List.length_replicate]; omega),
            List.length_replicate, List.getElem?_drop, if_neg (by omega)]
          congr 1; omega
      · rw [List.getElem?_eq_none (by
            rw [List.length_append, List.length_replicate, List.length_drop]; omega),
          List.getElem?_eq_none (by rw [length_blankRange]; omega)]
    · rfl
  rw [← cutRow_eq]
  unfold Row.putKeep splice
  simp only [hwd]
  rw [htail]

theorem length_splice {r : Row} {x : Nat} (text : Bytes) {w : Nat} (st : Style) (hw : 1 ≤ w)
    {e : Nat} (he : headOf r x + widthAt r (headOf r x) = e) :
    (splice r x text w st).length = min e r.length + w + (r.length - (x + w)) := by
  unfold splice
  rw [he]
  simp only [List.length_append, List.length_take, List.length_drop, length_charCells _ _ _ hw,
    length_fixAt]

/-- the spliced row, cell by cell (also beyond its end) -/
theorem getElem?_splice {r : Row} {x : Nat} (text : Bytes) {w : Nat} (st : Style) (hw : 1 ≤ w)
    {e : Nat} (he : headOf r x + widthAt r (headOf r x) = e) (hel : e ≤ r.length) (hxe : x < e)
    (k : Nat) :
    (splice r x text w st)[k]? =
      if k < e then r[k]?
      else if k = e then some ⟨.ch text w, st⟩
      else if k < e + w then some ⟨.cont, st⟩
      else (fixAt r (x + w) st)[k - (e - x)]? := by
  unfold splice
  rw [he]
  have hte : (List.take e r).length = e := by rw [List.length_take]; omega
  by_cases h1 : k < e
  · rw [if_pos h1, List.getElem?_append_left (by rw [List.length_append, hte]; omega),
      List.getElem?_append_left (by omega), List.getElem?_take, if_pos h1]
  · rw [if_neg h1]
    by_cases h2 : k < e + w
    · rw [List.getElem?_append_left
          (by rw [List.length_append, hte, length_charCells _ _ _ hw]; omega),
        List.getElem?_append_right (by omega), hte, getElem?_charCells _ _ _ _ (by omega)]
      by_cases h3 : k = e
      · rw [if_pos h3, if_pos (by omega)]
      · rw [if_neg h3, if_pos h2, if_neg (by omega)]
    · rw [if_neg (by omega), if_neg h2,
        List.getElem?_append_right
          (by rw [List.length_append, hte, length_charCells _ _ _ hw]; omega),
        List.length_append, hte, length_charCells _ _ _ hw, List.getElem?_drop]
      congr 1; omega

theorem splice_wf {r : Row} (hwf : rowWF r = true) {x : Nat} (hc : contAt r x = true)
    (text : Bytes) {w : Nat} (st : Style) (hw : 1 ≤ w) : rowWF (splice r x text w st) = true := by
  obtain ⟨t, wd, s', hch, hwd1, hx, hlen, hwd⟩ := wf_head hwf (contAt_lt hc)
  obtain ⟨_, _, _, hend⟩ := wf_ch hwf hch
  unfold splice
  rw [hwd]
  exact wf_append (wf_append (wf_take hwf hend) (wf_charCells _ _ _ hw))
    (wf_drop (fixAt_wf hwf _ _) (contAt_fixAt_self hwf _ _))

end Lemmas

/-- `Row.putKeep` keeps the row length, whatever the widths of the characters involved -/
theorem Row.putKeep_length (r : Row) (x : Nat) (text : Bytes) (w : Nat) (st : Style)
    (hwf : rowWF r = true) (hc : contAt r x = true) (hw : 1 ≤ w) :
    (Row.putKeep r x text w st).length = r.length := by
  obtain ⟨t, wd, s', hch, _, hx, hlen, hwd⟩ := wf_head hwf (contAt_lt hc)
  rw [putKeep_eq hwf hc text w st, List.length_take, length_fixAt,
    length_splice text st hw (e := headOf r x + wd) (by rw [hwd])]
  omega

/-- **C03 (6), "never half-visible" for the span policy on a continuation cell**, for characters
    of EVERY width (kept, written, or cut by the right edge): the new row is well formed. -/
theorem Row.putKeep_wf (r : Row) (x : Nat) (text : Bytes) (w : Nat) (st : Style)
    (hwf : rowWF r = true) (hc : contAt r x = true) (hw : 1 ≤ w) :
    rowWF (Row.putKeep r x text w st) = true := by
  rw [putKeep_eq hwf hc text w st]
  exact wf_take (fixAt_wf (splice_wf hwf hc text st hw) _ _)
    (contAt_fixAt_self (splice_wf hwf hc text st hw) _ _)

/-- **C03 (6), span policy on a continuation cell, cell by cell**, for characters of every
    width. Let `e` be the first column after the wide character under the cursor; the rest of the
    row is shifted right by `e - x` cells. Then the new row is: the old row up to column `e` (the
    kept character and everything to its left, unchanged); the text at `e … e+w-1` — unless it
    does not fit any more (`r.length < e + w`), then blanks; then the old cells from column
    `x + w` on, shifted — where a character cut by column `x + w` (the kept character itself
    when it is wider than `x + w - head`, or the next one) and the character that the shift
    pushes across the right edge are blanked whole. -/
theorem Row.putKeep_cell (r : Row) (x : Nat) (text : Bytes) (w : Nat) (st : Style)
    (hwf : rowWF r = true) (hc : contAt r x = true) (hw : 1 ≤ w) (i : Nat) (hi : i < r.length) :
    (Row.putKeep r x text w st)[i]? =
      (let e := headOf r x + widthAt r (headOf r x)
       if i < e then r[i]?
       else if i < e + w then
         (if r.length < e + w then some (blank st)
          else if i = e then some ⟨.ch text w, st⟩ else some ⟨.cont, st⟩)
       else if cutBy r (i - (e - x)) (x + w) ∨ cutBy r (i - (e - x)) (r.length - (e - x))
         then some (blank st)
       else r[i - (e - x)]?) := by
  obtain ⟨t, wd, s', hch, hwd1, hx, hlen, hwd⟩ := wf_head hwf (contAt_lt hc)
  obtain ⟨_, _, _, hend⟩ := wf_ch hwf hch
  have hpwf := splice_wf hwf hc text st hw
  have he : headOf r x + widthAt r (headOf r x) = headOf r x + wd := by rw [hwd]
  have hpl := length_splice (r := r) (x := x) text st hw he
  have hget := getElem?_splice (r := r) (x := x) text st hw he hlen hx
  have hip : i < (splice r x text w st).length := by rw [hpl]; omega
  rw [putKeep_eq hwf hc text w st, List.getElem?_take, if_pos hi, getElem?_fixAt hip]
  simp only [hwd]
  generalize splice r x text w st = p at hpwf hpl hget hip
  generalize headOf r x + wd = e at hx hlen hend hpl hget
  -- a character of the spliced row covering column `i` is cut by the right edge iff it ends
  -- beyond it
  have hcut : ∀ h t' cw s2, p[h]? = some ⟨.ch t' cw, s2⟩ → h ≤ i → i < h + cw →
      (inChar p r.length i ↔ r.length < h + cw) := by
    intro h t' cw s2 hph h1 h2
    rw [inChar_iff_cutBy hpwf hip]
    unfold cutBy
    rw [wf_headOf_eq hpwf hph h1 h2, widthAt_ch hph]
    have := (wf_ch hpwf hph).1
    constructor
    · intro ⟨_, b⟩; omega
    · intro b; exact ⟨by omega, by omega⟩
  by_cases h1 : i < e
  · rw [if_pos h1]
    obtain ⟨t2, w2, s2, hch2, _, hx2, _, _⟩ := wf_head hwf hi
    have hle2 := headOf_le r i
    have hend2 : headOf r i + w2 ≤ e := by
      false_or_by_contra
      have := (wf_ch hwf hch2).2.2.1 e (by omega) (by omega)
      rw [this] at hend; cases hend
    have hph : p[headOf r i]? = some ⟨.ch t2 w2, s2⟩ := by
      rw [hget, if_pos (by omega)]; exact hch2
    have hn : ¬ inChar p r.length i := fun hh => by
      have := (hcut _ _ _ _ hph hle2 hx2).1 hh; omega
    rw [if_neg hn, hget, if_pos h1]
  · rw [if_neg h1]
    by_cases h2 : i < e + w
    · rw [if_pos h2]
      have hph : p[e]? = some ⟨.ch text w, st⟩ := by rw [hget, if_neg (by omega), if_pos rfl]
      have hk := hcut _ _ _ _ hph (by omega) h2
      by_cases h3 : r.length < e + w
      · rw [if_pos h3, if_pos (hk.2 h3)]
      · have hn : ¬ inChar p r.length i := fun hh => h3 (hk.1 hh)
        rw [if_neg h3, if_neg hn, hget, if_neg h1]
        by_cases h4 : i = e
        · rw [if_pos h4, if_pos h4]
        · rw [if_neg h4, if_neg h4, if_pos h2]
    · rw [if_neg h2]
      have hj : i - (e - x) < r.length := by omega
      have hpi : p[i]? = (fixAt r (x + w) st)[i - (e - x)]? := by
        rw [hget, if_neg h1, if_neg (by omega), if_neg h2]
      rw [getElem?_fixAt hj] at hpi
      by_cases h3 : cutBy r (i - (e - x)) (x + w)
      · rw [if_pos (Or.inl h3)]
        rw [if_pos ((inChar_iff_cutBy hwf hj).2 h3)] at hpi
        rw [hpi]; split <;> rfl
      · rw [if_neg (fun hh => h3 ((inChar_iff_cutBy hwf hj).1 hh))] at hpi
        obtain ⟨t2, w2, s2, hch2, _, hx2, _, hw2⟩ := wf_head hwf hj
        have hle2 := headOf_le r (i - (e - x))
        have hge : x + w ≤ headOf r (i - (e - x)) := by
          false_or_by_contra
          apply h3
          unfold cutBy; rw [hw2]; exact ⟨by omega, by omega⟩
        have hhd : (fixAt r (x + w) st)[headOf r (i - (e - x))]? = some ⟨.ch t2 w2, s2⟩ := by
          rw [getElem?_fixAt (by omega), if_neg, hch2]
          intro hin
          have := (inChar_iff_cutBy hwf (by omega)).1 hin
          unfold cutBy at this
          rw [headOf_of_not_cont (contAt_ch hch2)] at this
          omega
        have hph : p[headOf r (i - (e - x)) + (e - x)]? = some ⟨.ch t2 w2, s2⟩ := by
          rw [hget, if_neg (by omega), if_neg (by omega), if_neg (by omega), Nat.add_sub_cancel]
          exact hhd
        have hk := hcut _ _ _ _ hph (by omega) (by omega)
        have hcb : cutBy r (i - (e - x)) (r.length - (e - x)) ↔
            r.length < headOf r (i - (e - x)) + (e - x) + w2 := by
          unfold cutBy; rw [hw2]
          constructor
          · intro ⟨_, b⟩; omega
          · intro b; exact ⟨by omega, by omega⟩
        by_cases h4 : cutBy r (i - (e - x)) (r.length - (e - x))
        · rw [if_pos (Or.inr h4), if_pos (hk.2 (hcb.1 h4))]
        · have hn : ¬ inChar p r.length i := fun hh => h4 (hcb.2 (hk.1 hh))
          have hor : ¬ (cutBy r (i - (e - x)) (x + w) ∨ cutBy r (i - (e - x)) (r.length - (e - x))) :=
            fun hh => hh.elim h3 h4
          rw [if_neg hor, if_neg hn, hpi]

/-- (6) the wide character under the cursor is kept, and so is everything to its left — for a
    kept character of every width -/
theorem Row.putKeep_kept (r : Row) (x : Nat) (text : Bytes) (w : Nat) (st : Style)
    (hwf : rowWF r = true) (hc : contAt r x = true) (hw : 1 ≤ w) (i : Nat)
    (hi : i < headOf r x + widthAt r (headOf r x)) :
    (Row.putKeep r x text w st)[i]? = r[i]? := by
  obtain ⟨t, wd, s', hch, hwd1, hx, hlen, hwd⟩ := wf_head hwf (contAt_lt hc)
  rw [Row.putKeep_cell r x text w st hwf hc hw i (by rw [hwd] at hi; omega)]
  simp only [if_pos hi]

/-- (6) the written character: when it still fits after the kept character, its cells are at
    columns `e … e+w-1` in the current style -/
theorem Row.putKeep_text (r : Row) (x : Nat) (text : Bytes) (w : Nat) (st : Style)
    (hwf : rowWF r = true) (hc : contAt r x = true) (hw : 1 ≤ w)
    (hfit : headOf r x + widthAt r (headOf r x) + w ≤ r.length) (k : Nat) (hk : k < w) :
    (Row.putKeep r x text w st)[headOf r x + widthAt r (headOf r x) + k]? =
      some (if k = 0 then ⟨.ch text w, st⟩ else ⟨.cont, st⟩) := by
  rw [Row.putKeep_cell r x text w st hwf hc hw _ (by omega)]
  simp only
  rw [if_neg (by omega), if_pos (by omega), if_neg (by omega)]
  by_cases h0 : k = 0
  · rw [if_pos (by omega), if_pos h0]
  · rw [if_neg (by omega), if_neg h0]

/-- (6) at screen level: under the span policy, with the cursor on a continuation cell and room
    for the character after the cursor column, the cursor row becomes `Row.putKeep …` and the
    cursor goes to the column after the inserted text (`e + w`, where `e` is the first column
    after the kept wide character), wrapping or clamping at the right edge like in section 2. -/
theorem put_keep_on_cont (s : Scr) (text : Bytes) (w0 : Nat) (hinv : s.inv = true)
    (hc : contAt (s.row s.cy) s.cx = true) (hfit : s.cx + effW s w0 ≤ s.w) :
    Scr.put .keep s text w0 =
      (let e := headOf (s.row s.cy) s.cx + widthAt (s.row s.cy) (headOf (s.row s.cy) s.cx)
       let s1 : Scr :=
         { s with grid := s.grid.set s.cy
                    (Row.putKeep (s.row s.cy) s.cx (effText s text w0) (effW s w0) s.sty) }
       if e + effW s w0 < s.w then { s1 with cx := e + effW s w0 }
       else if s.wrap then ({ s1 with cx := e + effW s w0 - s.w } : Scr).lineDown
       else { s1 with cx := s.w - 1 }) := by
  obtain ⟨_, _, hg, hrows, _, hcy, _⟩ := (inv_iff s).1 hinv
  have hwf := (hrows _ (row_mem s s.cy (by omega))).2
  obtain ⟨t, wd, s', hch, hwd1, hx, hlen, hwd⟩ := wf_head hwf (contAt_lt hc)
  have hle := headOf_le (s.row s.cy) s.cx
  rw [put_eq_putAt_fit _ s text w0 hfit, putAt_eq_finish]
  have e1 : putAtRow .keep s (effText s text w0) (effW s w0) =
      Row.putKeep (s.row s.cy) s.cx (effText s text w0) (effW s w0) s.sty := by
    simp [putAtRow, hc]
  have e2 : putAtX .keep s (effW s w0) =
      headOf (s.row s.cy) s.cx + widthAt (s.row s.cy) (headOf (s.row s.cy) s.cx) + effW s w0 := by
    simp only [putAtX, hc, Bool.true_and, beq_self_eq_true, if_true, hwd]
    omega
  rw [e1, e2]
  rfl

/-! ### `Scr.put` under the span policy keeps the screen invariant, for every width -/

/-- **"Never half-visible", whole screen, span policy**, for EVERY nominal width and whatever
    the widths of the stored characters: `Scr.put .keep` preserves the screen invariant, also
    when the cursor stands on a continuation cell. -/
theorem put_keep_inv (s : Scr) (text : Bytes) (w0 : Nat) (hinv : s.inv = true) :
    (Scr.put .keep s text w0).inv = true := by
  -- `putAt .keep` preserves the invariant from any well-formed state where the text fits
  have key : ∀ (s : Scr) (text : Bytes) (w : Nat), s.inv = true →
      1 ≤ w → s.cx + w ≤ s.w → (putAt .keep s text w).inv = true := by
    intro s text w h hw hfit
    cases hc : contAt (s.row s.cy) s.cx with
    | false => rw [putAt_keep_eq_blank s text w hc]; exact putAt_blank_inv s text w h hw hfit
    | true =>
      obtain ⟨a, b, c, d, e, f, g, h', i, j⟩ := (inv_iff s).1 h
      have hmem := row_mem s s.cy (by omega)
      obtain ⟨hl, hwf⟩ := d _ hmem
      obtain ⟨t, wd, s', hch, hwd1, hxe, hlen, hwd⟩ := wf_head hwf (contAt_lt hc)
      have hle := headOf_le (s.row s.cy) s.cx
      have hne : headOf (s.row s.cy) s.cx ≠ s.cx := by
        intro e
        have := contAt_ch hch
        rw [e, hc] at this; cases this
      have e1 : putAtRow .keep s text w = Row.putKeep (s.row s.cy) s.cx text w s.sty := by
        simp [putAtRow, hc]
      rw [putAt_eq_finish]
      apply finish_inv
      · apply (inv_iff _).2
        refine ⟨a, b, ?_, ?_, a, f, g, h', i, j⟩
        · show (s.grid.set _ _).length = s.h
          rw [List.length_set]; exact c
        · intro r hr
          rcases List.mem_or_eq_of_mem_set hr with hr | hr
          · exact d r hr
          · rw [hr, e1]
            exact ⟨by rw [Row.putKeep_length _ _ _ _ _ hwf hc hw]; exact hl,
              Row.putKeep_wf _ _ _ _ _ hwf hc hw⟩
      · show putAtX .keep s w < s.w + s.w
        simp only [putAtX, hc, Bool.true_and, beq_self_eq_true, if_true, hwd]
        omega
  obtain ⟨a, b, c, d, e, f, g, h', i, j⟩ := (inv_iff s).1 hinv
  have hle := effW_le s w0 a
  have hpos := effW_pos s w0
  by_cases hfit : s.cx + effW s w0 ≤ s.w
  · rw [put_eq_putAt_fit _ s text w0 hfit]
    exact key s _ _ hinv hpos hfit
  · by_cases hwrap : s.wrap = true
    · rw [put_eq_putAt_wrap _ s text w0 (by omega) hwrap]
      have h0 : ({ s with cx := 0 } : Scr).lineDown.inv = true :=
        lineDown_inv _ ((inv_iff _).2 ⟨a, b, c, d, a, f, g, h', i, j⟩)
      obtain ⟨f1, _, f3, _⟩ := lineDown_fields ({ s with cx := 0 } : Scr)
      refine key ({ s with cx := 0 } : Scr).lineDown (effText s text w0) (effW s w0) h0 hpos ?_
      rw [f1, f3]; show 0 + effW s w0 ≤ s.w; omega
    · have hwrap' : s.wrap = false := by simpa using hwrap
      rw [put_eq_putAt_nowrap _ s text w0 (by omega) hwrap']
      have hi' : ({ s with cx := s.w - effW s w0 } : Scr).inv = true :=
        (inv_iff _).2 ⟨a, b, c, d, (by show s.w - effW s w0 < s.w; omega), f, g, h', i, j⟩
      have hf' : ({ s with cx := s.w - effW s w0 } : Scr).cx + effW s w0 ≤
          ({ s with cx := s.w - effW s w0 } : Scr).w := by
        show s.w - effW s w0 + effW s w0 ≤ s.w; omega
      exact key { s with cx := s.w - effW s w0 } (effText s text w0) (effW s w0) hi' hpos hf'

/-- no character of the row is wider than two cells -/
def narrow (r : Row) : Prop := ∀ c ∈ r, ∀ t cw, c.g = .ch t cw → cw ≤ 2

/-- the earlier form of `put_keep_inv`, for width functions bounded by 2 (the hypotheses `hn`,
    `hw0` are not needed any more; kept under its name for reference) -/
theorem put_keep_inv_narrow (s : Scr) (text : Bytes) (w0 : Nat) (hinv : s.inv = true)
    (_hn : ∀ r ∈ s.grid, narrow r) (_hw0 : w0 ≤ 2) :
    (Scr.put .keep s text w0).inv = true := put_keep_inv s text w0 hinv

/-! ## Terminal level: `Tok.text` -/

/-- A text token is `Scr.put` on the active screen, with the buffer policy of the terminal and
    the width given by the width function; the inactive screen and every other component of the
    terminal are untouched. Together with sections 1–5 this is C03 for `Term.apply`. -/
theorem apply_text (cw : Nat → Nat) (t : Term) (stored : Bytes) (cp : Nat) :
    (Term.apply cw t (.text stored cp)).1.scr = t.scr.put t.pol stored (cw cp) ∧
    (Term.apply cw t (.text stored cp)).1.onAlt = t.onAlt ∧
    (Term.apply cw t (.text stored cp)).1.pol = t.pol ∧
    (if t.onAlt then (Term.apply cw t (.text stored cp)).1.main = t.main
     else (Term.apply cw t (.text stored cp)).1.alt = t.alt) ∧
    (Term.apply cw t (.text stored cp)).1.vflags = t.vflags ∧
    (Term.apply cw t (.text stored cp)).1.vints = t.vints ∧
    (Term.apply cw t (.text stored cp)).1.vstrs = t.vstrs ∧
    (Term.apply cw t (.text stored cp)).1.kmain = t.kmain ∧
    (Term.apply cw t (.text stored cp)).1.kalt = t.kalt := by
  unfold Term.apply Term.setScr Term.scr
  cases h : t.onAlt <;> simp

/-! ## Non-vacuity examples, the counterexample for (5), width-3 examples for `Row.putKeep` -/

section Examples

private abbrev d : Style := Style.default
private abbrev zi : Bytes := [0xE5, 0xAD, 0x97]     -- a double-width character

/-- a well-formed row with two double-width characters -/
def exRow : Row := [⟨.ch zi 2, d⟩, ⟨.cont, d⟩, blank d, ⟨.ch zi 2, d⟩, ⟨.cont, d⟩]

-- hypotheses of `Row.put_other` / `Row.put_cell` / `Row.put_wf` with both wide characters cut
example : rowWF exRow = true ∧ 1 + 3 ≤ exRow.length ∧ cutBy exRow 0 1 ∧ cutBy exRow 4 (1 + 3) := by
  decide
example : Row.put exRow 1 [0x58] 3 d =
    [blank d, ⟨.ch [0x58] 3, d⟩, ⟨.cont, d⟩, ⟨.cont, d⟩, blank d] := by decide
-- hypotheses of `Row.put_other_clean`
example : contAt exRow 2 = false ∧ contAt exRow (2 + 1) = false := by decide
-- hypotheses of `Row.putKeep_cell` / `Row.putKeep_kept`
example : rowWF exRow = true ∧ contAt exRow 1 = true ∧
    headOf exRow 1 + widthAt exRow (headOf exRow 1) ≤ 1 + 1 := by decide
example : Row.putKeep exRow 1 [0x58] 1 d =
    [⟨.ch zi 2, d⟩, ⟨.cont, d⟩, ⟨.ch [0x58] 1, d⟩, blank d, blank d] := by decide

/-- a 4×2 screen, autowrap off, cursor on the last column of row 0, whose columns 1–2 hold a
    double-width character -/
def exScr : Scr :=
  { Scr.init 4 2 with
    grid := [[blank d, ⟨.ch zi 2, d⟩, ⟨.cont, d⟩, blank d], blankRow 4 d],
    cx := 3 }

example : exScr.inv = true := by decide
example : contAt (exScr.row exScr.cy) exScr.cx = false := by decide

-- `put_inside` (cursor at column 0, narrow character)
example : ({ exScr with cx := 0 } : Scr).inv = true ∧
    ({ exScr with cx := 0 } : Scr).cx + effW { exScr with cx := 0 } 1 < 4 := by decide
-- `put_lastcol_nowrap`: a narrow character on the last column, autowrap off
example : exScr.cx + effW exScr 1 = exScr.w ∧ exScr.wrap = false := by decide
-- `put_lastcol_wrap_noscroll` / `put_lastcol_wrap_scroll`: autowrap on, off / on the bottom margin
example : ({ exScr with wrap := true } : Scr).inv = true ∧
    ({ exScr with wrap := true } : Scr).cy ≠ ({ exScr with wrap := true } : Scr).bot := by decide
example : ({ exScr with wrap := true, cy := 1 } : Scr).inv = true ∧
    ({ exScr with wrap := true, cy := 1 } : Scr).cy = ({ exScr with wrap := true, cy := 1 } : Scr).bot ∧
    exScr.cx + effW { exScr with wrap := true, cy := 1 } 1 = 4 := by decide
-- `put_edge_wrap*`, `put_edge_nowrap*`: a double-width character on the last column
example : exScr.cx + effW exScr 2 > exScr.w ∧ effW exScr 2 < exScr.w := by decide
-- `put_keep_on_cont`: cursor on the continuation cell
example : ({ exScr with cx := 2 } : Scr).inv = true ∧
    contAt (({ exScr with cx := 2 } : Scr).row 0) 2 = true ∧ 2 + effW { exScr with cx := 2 } 1 ≤ 4 := by
  decide
-- a character wider than the whole screen is stored as U+FFFD with width 1
example : effW exScr 5 = 1 ∧ effText exScr zi 5 = replacementChar := by decide

/-- Without the third hypothesis of `put_keep_eq_blank` the two policies differ: a double-width
    character written at the last column with autowrap off is pulled back onto the continuation
    cell of the existing wide character. -/
theorem put_keep_ne_blank_example :
    exScr.inv = true ∧ contAt (exScr.row exScr.cy) exScr.cx = false ∧
    Scr.put .keep exScr zi 2 ≠ Scr.put .blank exScr zi 2 := by
  decide

/-- Characters of width 3 under the span policy: the character that the insertion pushes across
    the right edge is blanked whole, and the row stays well formed (`Row.putKeep_wf`). With the
    earlier `Row.putKeep` (whose `fixTail` repaired only a wide character whose *head* was the
    last cell) the same call left a half-visible character and an ill-formed row; the example
    `putKeep_width3_not_wf_example` that recorded this has been replaced by the present one. -/
theorem putKeep_width3_wf_example :
    let r : Row := [⟨.ch [0x41] 2, d⟩, ⟨.cont, d⟩, ⟨.ch [0x42] 3, d⟩, ⟨.cont, d⟩, ⟨.cont, d⟩]
    rowWF r = true ∧ contAt r 1 = true ∧
    Row.putKeep r 1 [0x43] 1 d = [⟨.ch [0x41] 2, d⟩, ⟨.cont, d⟩, ⟨.ch [0x43] 1, d⟩, blank d, blank d] ∧
    rowWF (Row.putKeep r 1 [0x43] 1 d) = true := by
  decide

/-- a kept character of width 3 with the cursor on its second cell and a write of width 1 (which
    addresses only that cell): the character is kept whole, the text goes after it, and the
    third cell of the kept character — right of the addressed range — is handed on as a blank
    before the shifted rest of the row -/
theorem putKeep_kept_width3_example :
    let r : Row := [⟨.ch [0x42] 3, d⟩, ⟨.cont, d⟩, ⟨.cont, d⟩, ⟨.ch [0x61] 1, d⟩, ⟨.ch [0x62] 1, d⟩,
      ⟨.ch [0x63] 1, d⟩]
    Row.putKeep r 1 [0x43] 1 d =
      [⟨.ch [0x42] 3, d⟩, ⟨.cont, d⟩, ⟨.cont, d⟩, ⟨.ch [0x43] 1, d⟩, blank d, ⟨.ch [0x61] 1, d⟩] := by
  decide

end Examples

end TM.C03

#print axioms TM.C03.Row.put_length
#print axioms TM.C03.Row.put_head
#print axioms TM.C03.Row.put_tail
#print axioms TM.C03.Row.put_other
#print axioms TM.C03.Row.put_other_clean
#print axioms TM.C03.Row.put_cell
#print axioms TM.C03.Row.put_wf
#print axioms TM.C03.Row.put_sty
#print axioms TM.C03.put_inside
#print axioms TM.C03.put_lastcol_nowrap
#print axioms TM.C03.put_lastcol_wrap
#print axioms TM.C03.put_lastcol_wrap_noscroll
#print axioms TM.C03.put_lastcol_wrap_scroll
#print axioms TM.C03.put_nowrap_last_column
#print axioms TM.C03.put_cursor_cell
#print axioms TM.C03.put_edge_wrap
#print axioms TM.C03.put_edge_nowrap
#print axioms TM.C03.put_edge_nowrap_explicit
#print axioms TM.C03.put_edge_wrap_noscroll
#print axioms TM.C03.put_edge_wrap_scroll
#print axioms TM.C03.put_frame
#print axioms TM.C03.put_rows_origin
#print axioms TM.C03.put_keep_eq_blank
#print axioms TM.C03.put_keep_eq_blank_width1
#print axioms TM.C03.put_keep_ne_blank_example
#print axioms TM.C03.put_blank_inv
#print axioms TM.C03.put_keep_inv_off_cont
#print axioms TM.C03.put_keep_inv
#print axioms TM.C03.put_keep_inv_narrow
#print axioms TM.C03.Row.putKeep_length
#print axioms TM.C03.Row.putKeep_cell
#print axioms TM.C03.Row.putKeep_kept
#print axioms TM.C03.Row.putKeep_text
#print axioms TM.C03.Row.putKeep_wf
#print axioms TM.C03.put_keep_on_cont
#print axioms TM.C03.putKeep_width3_wf_example
#print axioms TM.C03.putKeep_kept_width3_example
#print axioms TM.C03.apply_text
