import TM.Mirror
import Props.C02Span
import Props.C11Mirror
import Props.C02SpanTerm
/-!
# C11SpanMirror — what the mirror reads from the span buffer

The mirroring frontend (`TM/Mirror.lean`) paints a region by reading `StyledLine(x, w, y)` of the
inner screen; the model writes that read as `subCells r a b` on the CELL row `r`, and every theorem
of `Props/C11Mirror.lean` (`mirror_follows_stream` …) is about `subCells`.  The span buffer computes
`StyledLine` on its RUN lists (`TM.styledLine`, Go-shaped), and `C02Span.styledLine_spec` describes
the cells of the result by `showCell`.  This file closes the gap:

* `showCell_eq_cutCell` — `showCell` (C02Span) and `cutCell` (Mirror) are the same function on the
  columns of the row (same test `x ≤ head ∧ head + width ≤ x + w`, one written positively, one
  negated; no well-formedness of the row is needed, only that the column is inside the row).
  `showCell_outside` says what remains different: beyond the end of the row `showCell` is `none`
  while `cutCell` is a total function (a default-style blank); `StyledLine` never reads there since
  it clamps the width to the row.
* **`styledLine_subCells`** / `styledLine_subCells_toEnd` / `styledLine_subCells_clamped` — the runs
  `StyledLine` returns, expanded to cells, are exactly `subCells (lineCells cw l) x (x + w)`.
* `styledLine_render` — hence the painter writes the same bytes for both.
* `stream_styledLine` — with `C02SpanTerm.stream_rows` (after every byte stream every row of the
  run-level terminal is `lineWF` and shows the model terminal's row): what the real `StyledLine`
  returns on row `y` of the code-shaped terminal is `subCells (T.main.row y) x (x + w)` of the model
  terminal `T`, which is the read `renderRows`/`renderRegion` of `TM/Mirror.lean` use.  So the
  theorems of `Props/C11Mirror.lean` (stated with `subCells` on the model screen) apply to what the
  real `StyledLine` returns on the span buffer.
-/
namespace TM.C11SpanMirror
open TM TM.C02Span

/-! ## the two cell functions -/

/-- `showCell` and `cutCell` agree on every column inside the row (any row, any window) -/
theorem showCell_eq_cutCell_of_lt (R : Row) (x w i : Nat) (hi : i < R.length) :
    showCell R x w i = some (cutCell R x (x + w) i) := by
  unfold showCell cutCell
  have hget : R[i]? = some R[i] := List.getElem?_eq_getElem hi
  have hD : R.getD i (blank Style.default) = R[i] := by
    rw [List.getD_eq_getElem?_getD, hget]; rfl
  simp only [hD, hget, Option.map_some]
  by_cases h : x ≤ headOf R i ∧ headOf R i + widthAt R (headOf R i) ≤ x + w
  · have h' : ¬ (headOf R i < x ∨ headOf R i + widthAt R (headOf R i) > x + w) := by omega
    simp only [h, h', and_self, if_true, if_false]
  · have h' : headOf R i < x ∨ headOf R i + widthAt R (headOf R i) > x + w := by omega
    simp only [h, h', if_true, if_false]

/-- the form of the brief: column `x + k` of a window `[x, x + w)` that fits the row -/
theorem showCell_eq_cutCell (R : Row) {x w k : Nat} (hxw : x + w ≤ R.length) (hk : k < w) :
    showCell R x w (x + k) = some (cutCell R x (x + w) (x + k)) :=
  showCell_eq_cutCell_of_lt R x w (x + k) (by omega)

/-- the only difference: beyond the end of the row `showCell` shows nothing -/
theorem showCell_outside (R : Row) (x w i : Nat) (hi : R.length ≤ i) : showCell R x w i = none := by
  unfold showCell
  have : R[i]? = none := List.getElem?_eq_none hi
  simp [this]

/-! ## `StyledLine` of the span buffer is `subCells` -/

theorem length_lineCells_of_lineWF {cw : Nat → Nat} {W : Nat} {l : SLine} (hl : lineWF cw W l = true) :
    (lineCells cw l).length = W := by
  obtain ⟨hwf, hsum, _⟩ := lineWF_iff.1 hl
  rw [length_lineCells hwf, hsum]

/-- general form: for any requested width (`some w0`, clamped to the row as the code does, or
    `none` = to the end), with `w'` the width `StyledLine` reports, the cells of the returned runs
    are the mirror model's read of `[x, x + w')` -/
theorem styledLine_subCells_clamped {cw : Nat → Nat} {W : Nat} {l : SLine} (hl : lineWF cw W l = true)
    (hb : cw 0x20 ≤ 1) {x : Nat} (hx : x ≤ W) (ow : Option Nat) :
    ((styledLine cw W l x ow).1).flatMap (spanCells cw) =
      subCells (lineCells cw l) x (x + (styledLine cw W l x ow).2) ∧
    (styledLine cw W l x ow).2 = (match ow with | some w0 => min w0 (W - x) | none => W - x) := by
  obtain ⟨hw, _, _, hlen, hget⟩ := styledLine_spec hl hb hx ow
  refine ⟨?_, hw⟩
  have hL := length_lineCells_of_lineWF hl
  have hxw : x + (styledLine cw W l x ow).2 ≤ W := by
    rw [hw]; cases ow with
    | none => simp only []; omega
    | some w0 => simp only []; omega
  apply List.ext_getElem?
  intro k
  by_cases hk : k < (styledLine cw W l x ow).2
  · rw [hget k hk, showCell_eq_cutCell _ (by rw [hL]; exact hxw) hk,
      C11M.subCells_getElem? _ _ _ _ (by omega)]
  · rw [List.getElem?_eq_none (by omega),
      List.getElem?_eq_none (by rw [C11M.subCells_length]; omega)]

/-- **`styledLine_subCells`**: `StyledLine(x, w, y)` of a well-formed row of runs, expanded to
    cells, is exactly what the mirror model reads: `subCells` of the row's cells on `[x, x + w)` -/
theorem styledLine_subCells {cw : Nat → Nat} {W : Nat} {l : SLine} (hl : lineWF cw W l = true)
    (hb : cw 0x20 ≤ 1) {x w : Nat} (hx : x ≤ W) (hxw : x + w ≤ W) :
    ((styledLine cw W l x (some w)).1).flatMap (spanCells cw) =
      subCells (lineCells cw l) x (x + w) ∧ (styledLine cw W l x (some w)).2 = w := by
  obtain ⟨h1, h2⟩ := styledLine_subCells_clamped hl hb hx (some w)
  have h3 : (styledLine cw W l x (some w)).2 = w := by rw [h2]; simp only []; omega
  rw [h3] at h1
  exact ⟨h1, h3⟩

/-- the "to the end of the row" form (`StyledLine(x, -1, y)`) -/
theorem styledLine_subCells_toEnd {cw : Nat → Nat} {W : Nat} {l : SLine} (hl : lineWF cw W l = true)
    (hb : cw 0x20 ≤ 1) {x : Nat} (hx : x ≤ W) :
    ((styledLine cw W l x none).1).flatMap (spanCells cw) = subCells (lineCells cw l) x W ∧
      (styledLine cw W l x none).2 = W - x := by
  obtain ⟨h1, h2⟩ := styledLine_subCells_clamped hl hb hx none
  simp only [] at h2
  rw [h2, show x + (W - x) = W by omega] at h1
  exact ⟨h1, h2⟩

/-- the painter writes the same bytes for the code's `StyledLine` as for the model's read -/
theorem styledLine_render {cw : Nat → Nat} {W : Nat} {l : SLine} (hl : lineWF cw W l = true)
    (hb : cw 0x20 ≤ 1) {x w : Nat} (hx : x ≤ W) (hxw : x + w ≤ W) (prev : Option Style) :
    renderCells prev (((styledLine cw W l x (some w)).1).flatMap (spanCells cw)) =
      renderCells prev (subCells (lineCells cw l) x (x + w)) := by
  rw [(styledLine_subCells hl hb hx hxw).1]

/-! ## the painter's row loop, reading the span buffer -/

/-- `renderRows` of `TM/Mirror.lean` with the read done the way the code does it: `StyledLine(x,
    x2 - x, y)` of the run-level screen, each returned run expanded to its cells -/
def sRenderRows (cw : Nat → Nat) (s : SScr) (x x2 : Nat) : Nat → Nat → Bytes
  | _, 0 => []
  | y, n+1 =>
    cupXY x y ++ renderCells none (((styledLine cw s.w (s.line y) x (some (x2 - x))).1).flatMap (spanCells cw)) ++
      sRenderRows cw s x x2 (y + 1) n

/-- painting rows `y … y+n-1`, columns `[x, x2)`, from the run lists writes the bytes the mirror
    model writes from the cell screen `s.abs cw` -/
theorem sRenderRows_eq {cw : Nat → Nat} (s : SScr) (hb : cw 0x20 ≤ 1) {x x2 : Nat} (hx : x ≤ x2)
    (hx2 : x2 ≤ s.w) : ∀ (n y : Nat), (∀ y', y ≤ y' → y' < y + n → lineWF cw s.w (s.line y') = true) →
    sRenderRows cw s x x2 y n = renderRows (s.abs cw) x x2 y n := by
  intro n
  induction n with
  | zero => intro y _; rfl
  | succ n ih =>
    intro y hrows
    simp only [sRenderRows, renderRows]
    rw [ih (y + 1) (fun y' h1 h2 => hrows y' (by omega) (by omega)),
      styledLine_render (hrows y (Nat.le_refl _) (by omega)) hb (by omega) (by omega) none,
      C02SpanScreen.abs_row, show x + (x2 - x) = x2 by omega]

/-! ## after every byte stream -/

/-- **`stream_styledLine`**: feed any bytes to the run-level terminal `S` (code-shaped data) and to
    the model terminal `T`.  Then on every row `y` of the active screen, for every window
    `[x, x + n)` inside the screen, the real `StyledLine(x, n, y)` of `S`, expanded to cells, is
    `subCells (T.scr.row y) x (x + n)` — the read `renderRows` / `renderRegion` use, about which
    the theorems of `Props/C11Mirror.lean` are stated. -/
theorem stream_styledLine {cw : Nat → Nat} (hb : cw 0x20 ≤ 1) (hr : cw 0xFFFD ≤ 1) {w h : Nat}
    (hw : 1 ≤ w) (hh : 1 ≤ h) (bs : Bytes) {x n y : Nat} (hy : y < h) (hxn : x + n ≤ w) :
    let S := C02SpanTerm.sStateAfter cw (STerm.init w h) (C10.toksOf bs)
    let T := (run cw (Term.init .keep w h) bs).1
    ((styledLine cw w (S.scr.line y) x (some n)).1).flatMap (spanCells cw) =
      subCells (T.scr.row y) x (x + n) := by
  intro S T
  obtain ⟨_, _, _, _, _, _, hon, hrows⟩ := C02SpanTerm.stream_rows hb hr hw hh bs
  obtain ⟨m1, m2, a1, a2⟩ := hrows y hy
  have hon' : S.onAlt = T.onAlt := hon
  unfold STerm.scr Term.scr
  rw [← hon']
  cases S.onAlt with
  | false =>
    simp only [Bool.false_eq_true, if_false]
    rw [show T.main.row y = _ from m2]
    exact (styledLine_subCells m1 hb (by omega) hxn).1
  | true =>
    simp only [if_true]
    rw [show T.alt.row y = _ from a2]
    exact (styledLine_subCells a1 hb (by omega) hxn).1

/-! ## non-vacuity: a wide character cut on the left and on the right -/

/-- `中ab` `xy` `   ` then again a wide character at columns 9,10: `中` -/
def rowCut : SLine :=
  ⟨[⟨stEx, [0xe4, 0xb8, 0xad, 0x61, 0x62], 0, 4⟩, ⟨stEx, [0x78, 0x79], 0, 2⟩, blankSpan stEx 3,
    ⟨stEx, [0xe4, 0xb8, 0xad], 0, 2⟩], 11⟩

example : lineWF cwEx 11 rowCut = true := by decide
example : cwEx 0x20 ≤ 1 := by decide
-- the window [1, 10) cuts the first wide character (columns 0,1) on the left and the second
-- (columns 9,10) on the right: both show as blanks, the rest as it is
example : ((styledLine cwEx 11 rowCut 1 (some 9)).1).flatMap (spanCells cwEx) =
    [blank stEx, ⟨.ch [0x61] 1, stEx⟩, ⟨.ch [0x62] 1, stEx⟩, ⟨.ch [0x78] 1, stEx⟩, ⟨.ch [0x79] 1, stEx⟩,
     blank stEx, blank stEx, blank stEx, blank stEx] := by decide
example : ((styledLine cwEx 11 rowCut 1 (some 9)).1).flatMap (spanCells cwEx) =
    subCells (lineCells cwEx rowCut) 1 10 := by decide
set_option maxRecDepth 20000 in
example : (lineCells cwEx rowCut)[9]? = some ⟨.ch [0xe4, 0xb8, 0xad] 2, stEx⟩ := by decide
set_option maxRecDepth 4000 in
example : cutCell (lineCells cwEx rowCut) 1 10 9 = blank stEx := by decide
set_option maxRecDepth 4000 in
example : showCell (lineCells cwEx rowCut) 1 9 9 = some (blank stEx) := by decide
example : contAt (lineCells cwEx rowCut) 1 = true ∧ cutCell (lineCells cwEx rowCut) 1 10 1 = blank stEx ∧
    showCell (lineCells cwEx rowCut) 1 9 1 = some (blank stEx) := by decide
-- the whole characters are shown when the window contains them
example : ((styledLine cwEx 11 rowCut 0 none).1).flatMap (spanCells cwEx) = lineCells cwEx rowCut := by
  decide
-- beyond the row the two functions differ (never read by `StyledLine`, which clamps)
example : showCell (lineCells cwEx rowCut) 0 20 11 = none ∧
    cutCell (lineCells cwEx rowCut) 0 20 11 = blank Style.default := by decide

#print axioms TM.C11SpanMirror.showCell_eq_cutCell_of_lt
#print axioms TM.C11SpanMirror.showCell_eq_cutCell
#print axioms TM.C11SpanMirror.showCell_outside
#print axioms TM.C11SpanMirror.styledLine_subCells_clamped
#print axioms TM.C11SpanMirror.styledLine_subCells
#print axioms TM.C11SpanMirror.styledLine_subCells_toEnd
#print axioms TM.C11SpanMirror.styledLine_render
#print axioms TM.C11SpanMirror.sRenderRows_eq
#print axioms TM.C11SpanMirror.stream_styledLine

end TM.C11SpanMirror
