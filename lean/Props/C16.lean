import TM.Stream
import TM.Run
/-!
# C16 — byte plumbing: the reader's buffer, `Terminal.Write`, the tee, zero-length reads

Model: `TM/Stream.lean` (`RBuf` = `GraphemeReader.data/start/end` with `fill`/`ReadByte`,
`terminalWrite` = the loop of `Terminal.Write`) and `TM/Run.lean` (`Sys.feed`).

Sections:
1. the buffer refines a byte queue: `makeRoom_*`, `fill_*`, `readByte_view`, `consume_view`,
   `init_*`, capacity facts, and the lifted statements over arbitrary operation sequences
   (`reader_exactly_once_in_order`, `exec_mono`, `reader_capacity`) and over a fixed source
   stream with arbitrary read sizes (`reader_stream_conservation`);
3. tee: `tee_exact`;
2. `Terminal.Write`: `write_all_ok`, `write_all_ok_then_anything`, `write_prefix`,
   `write_error_reported`, `write_error_sound`, `write_injected`, `write_short`,
   `write_fuel_suffices`;
4. zero-length read at the parser level: `feed_nil`, `feedAll_nil_chunk`;
5. `ReadByte` over reads that may report an error together with data: `readByteE_conservation`,
   `readByteE_error_iff`, `readByteE_stops`;
then non-vacuity examples and `#print axioms`.

In the model a read error is not an input of `RBuf.fill` because `fill()` stores the `n` bytes
first and only then returns `err`: "bytes returned together with an error" go through
`RBuf.fill` exactly like any others (section 1); section 5 adds the loop of `ReadByte` around it.

Not covered here (Go glue / OS, checked on the implementation by the harness, special checks
`streams` and `ttymirror`): `Resize` forwarding exactly `(w,h)` to `Backend.SetSize`, the PTY
winsize (`h` rows, `w` columns), and the outermost `ptyReadLoop` returning on the error.

Everything in `Lemmas`, and `inv_init`, `step_inv`, `exec_inv`, `step_mono`, `execS_inv`, are helpers.
-/
namespace TM.C16
open TM

namespace Lemmas

/-! ### the two halves of `makeRoom` and the store half of `fill` -/


def compact (r : RBuf) : RBuf :=
  if r.start > 0 then
    if r.start = r.stop then { r with start := 0, stop := 0 }
    else
      let live := (r.data.take r.stop).drop r.start
      { data := live ++ r.data.drop live.length, start := 0, stop := r.stop - r.start }
  else r

def grow (r : RBuf) : RBuf :=
  if r.stop = r.data.length then { r with data := r.data ++ List.replicate r.data.length 0 } else r

theorem makeRoom_eq (r : RBuf) : r.makeRoom = grow (compact r) := rfl

theorem view_length (r : RBuf) (h : r.wf) : r.view.length = r.stop - r.start := by
  obtain ⟨h1, h2, h3⟩ := h
  simp only [RBuf.view, List.length_drop, List.length_take]; omega

theorem compact_view (r : RBuf) (h : r.wf) : (compact r).view = r.view := by
  obtain ⟨h1, h2, h3⟩ := h
  unfold compact
  split
  · split
    · rename_i _ he
      simp [RBuf.view, he]
    · have hl : ((r.data.take r.stop).drop r.start).length = r.stop - r.start := by
        simp only [List.length_drop, List.length_take]; omega
      simp only [RBuf.view, hl, List.drop_zero]
      rw [List.take_append_of_le_length (by omega), List.take_of_length_le (by omega)]
  · rfl

theorem compact_wf (r : RBuf) (h : r.wf) : (compact r).wf := by
  obtain ⟨h1, h2, h3⟩ := h
  unfold compact
  split
  · split
    · exact ⟨Nat.le_refl _, Nat.zero_le _, h3⟩
    · refine ⟨Nat.zero_le _, ?_, ?_⟩ <;>
        simp only [List.length_append, List.length_drop, List.length_take] <;> omega
  · exact ⟨h1, h2, h3⟩

theorem compact_start (r : RBuf) : (compact r).start = 0 := by
  unfold compact
  split
  · split <;> rfl
  · omega

theorem compact_data_length (r : RBuf) (h : r.wf) : (compact r).data.length = r.data.length := by
  obtain ⟨h1, h2, h3⟩ := h
  unfold compact
  split
  · split
    · rfl
    · simp only [List.length_append, List.length_drop, List.length_take]; omega
  · rfl

theorem compact_stop (r : RBuf) (h : r.wf) : (compact r).stop = r.stop - r.start := by
  obtain ⟨h1, h2, h3⟩ := h
  unfold compact
  split
  · split
    · show 0 = _; omega
    · rfl
  · omega

theorem grow_view (r : RBuf) (h : r.wf) : (grow r).view = r.view := by
  obtain ⟨h1, h2, h3⟩ := h
  unfold grow
  split
  · simp only [RBuf.view]
    rw [List.take_append_of_le_length h2]
  · rfl

theorem grow_wf (r : RBuf) (h : r.wf) : (grow r).wf := by
  obtain ⟨h1, h2, h3⟩ := h
  unfold grow
  split
  · refine ⟨h1, ?_, ?_⟩ <;> simp only [List.length_append, List.length_replicate] <;> omega
  · exact ⟨h1, h2, h3⟩

theorem grow_room_pos (r : RBuf) (h : r.wf) : 0 < (grow r).room := by
  obtain ⟨h1, h2, h3⟩ := h
  unfold grow RBuf.room
  split
  · simp only [List.length_append, List.length_replicate]; omega
  · omega


/-- the second half of `fill()`: `g` (at most `room` bytes) is stored at `data[end:]` -/
def put (r : RBuf) (g : Bytes) : RBuf :=
  { r with data := r.data.take r.stop ++ g ++ r.data.drop (r.stop + g.length), stop := r.stop + g.length }

theorem fill_eq (r : RBuf) (got : Bytes) : r.fill got = put r.makeRoom (got.take r.makeRoom.room) := rfl

theorem put_view (r : RBuf) (g : Bytes) (h : r.wf) : (put r g).view = r.view ++ g := by
  obtain ⟨h1, h2, h3⟩ := h
  have hA : (r.data.take r.stop).length = r.stop := by simp only [List.length_take]; omega
  simp only [put, RBuf.view]
  rw [List.take_left' (by simp only [List.length_append, hA]),
    List.drop_append_of_le_length (by omega)]

theorem put_data_length (r : RBuf) (g : Bytes) (h : r.wf) (hg : g.length ≤ r.room) :
    (put r g).data.length = r.data.length := by
  obtain ⟨h1, h2, h3⟩ := h
  unfold RBuf.room at hg
  simp only [put, List.length_append, List.length_take, List.length_drop]; omega

theorem put_wf (r : RBuf) (g : Bytes) (h : r.wf) (hg : g.length ≤ r.room) : (put r g).wf := by
  have hl := put_data_length r g h hg
  obtain ⟨h1, h2, h3⟩ := h
  unfold RBuf.room at hg
  refine ⟨?_, ?_, ?_⟩
  · show r.start ≤ r.stop + g.length; omega
  · rw [hl]; show r.stop + g.length ≤ _; omega
  · rw [hl]; exact h3

end Lemmas
open Lemmas

/-! ## 1. the reader's buffer is a byte queue -/

/-- The unconsumed bytes have length `end - start`, and byte `i` of them is `data[start+i]`. -/
theorem view_length (r : RBuf) (h : r.wf) : r.view.length = r.stop - r.start :=
  Lemmas.view_length r h

theorem view_getElem? (r : RBuf) (i : Nat) :
    r.view[i]? = if r.start + i < r.stop then r.data[r.start + i]? else none := by
  simp only [RBuf.view, List.getElem?_drop, List.getElem?_take]

/-- Compaction and doubling do not change the unconsumed bytes. -/
theorem makeRoom_view (r : RBuf) (h : r.wf) : r.makeRoom.view = r.view := by
  rw [makeRoom_eq, grow_view _ (compact_wf r h), compact_view r h]

theorem makeRoom_wf (r : RBuf) (h : r.wf) : r.makeRoom.wf := by
  rw [makeRoom_eq]; exact grow_wf _ (compact_wf r h)

/-- After compaction/doubling there is always space: a read can make progress. -/
theorem makeRoom_room_pos (r : RBuf) (h : r.wf) : 0 < r.makeRoom.room := by
  rw [makeRoom_eq]; exact grow_room_pos _ (compact_wf r h)

/-- After compaction the live bytes sit at the front of the array. -/
theorem makeRoom_start (r : RBuf) : r.makeRoom.start = 0 := by
  rw [makeRoom_eq]; unfold grow; split <;> exact compact_start r

/-- Capacity: doubling happens exactly when the live (unconsumed) bytes fill the whole array,
i.e. when compaction cannot free a single byte; otherwise the capacity is unchanged. -/
theorem makeRoom_capacity (r : RBuf) (h : r.wf) :
    r.makeRoom.data.length =
      if r.view.length = r.data.length then 2 * r.data.length else r.data.length := by
  have hl := compact_data_length r h
  have hs := compact_stop r h
  rw [Lemmas.view_length r h, makeRoom_eq]
  unfold grow
  split
  · rename_i he
    rw [hs, hl] at he
    simp only [he, if_true, List.length_append, List.length_replicate, hl]; omega
  · rename_i he
    rw [hs, hl] at he
    simp only [he, if_false, hl]

/-- All the space not holding live bytes is offered to the source. -/
theorem makeRoom_room (r : RBuf) (h : r.wf) :
    r.makeRoom.room = r.makeRoom.data.length - r.view.length := by
  have hs := compact_stop r h
  rw [Lemmas.view_length r h]
  have : r.makeRoom.stop = (compact r).stop := by
    rw [makeRoom_eq]; unfold grow; split <;> rfl
  unfold RBuf.room
  rw [this, hs]

/-- The capacity never shrinks. -/
theorem makeRoom_capacity_mono (r : RBuf) (h : r.wf) : r.data.length ≤ r.makeRoom.data.length := by
  rw [makeRoom_capacity r h]; split <;> omega

/-- **`fill` appends.** What was buffered stays, in order, followed by exactly the bytes taken from
the source (`room` of them at most) — for every capacity, whether or not the buffer was compacted
or doubled on the way. -/
theorem fill_view (r : RBuf) (got : Bytes) (h : r.wf) :
    (r.fill got).view = r.view ++ got.take r.makeRoom.room := by
  rw [fill_eq, put_view _ _ (makeRoom_wf r h), makeRoom_view r h]

theorem fill_wf (r : RBuf) (got : Bytes) (h : r.wf) : (r.fill got).wf := by
  rw [fill_eq]
  exact put_wf _ _ (makeRoom_wf r h) (by simp only [List.length_take]; omega)

/-- storing the bytes does not change the capacity chosen by `makeRoom` -/
theorem fill_capacity (r : RBuf) (got : Bytes) (h : r.wf) :
    (r.fill got).data.length = r.makeRoom.data.length := by
  rw [fill_eq]
  exact put_data_length _ _ (makeRoom_wf r h) (by simp only [List.length_take]; omega)

/-- A zero-length read leaves the unconsumed bytes unchanged. -/
theorem fill_nil (r : RBuf) (h : r.wf) : (r.fill []).view = r.view := by
  rw [fill_view r [] h, List.take_nil, List.append_nil]

/-- A read that fits is taken whole. -/
theorem fill_fits (r : RBuf) (got : Bytes) (h : r.wf) (hg : got.length ≤ r.makeRoom.room) :
    (r.fill got).view = r.view ++ got := by
  rw [fill_view r got h, List.take_of_length_le hg]

/-- A non-empty offer always makes progress (at least one byte is taken). -/
theorem fill_progress (r : RBuf) (got : Bytes) (h : r.wf) (hg : got ≠ []) :
    r.view.length < (r.fill got).view.length := by
  have := makeRoom_room_pos r h
  rw [fill_view r got h, List.length_append, List.length_take]
  have : 0 < got.length := List.length_pos_iff.mpr hg
  omega

/-- `ReadByte` on buffered data returns the first unconsumed byte and leaves the rest. -/
theorem readByte_view (r r' : RBuf) (b : UInt8) (h : r.wf) (hr : r.readByte = some (b, r')) :
    r.view = b :: r'.view ∧ r'.wf := by
  have hl := Lemmas.view_length r h
  obtain ⟨h1, h2, h3⟩ := h
  unfold RBuf.readByte at hr
  split at hr
  · cases hr
  · rename_i b0 tl hv
    cases hr
    rw [hv] at hl
    simp only [List.length_cons] at hl
    refine ⟨?_, ?_, h2, h3⟩
    · have : ({ r with start := r.start + 1 } : RBuf).view = r.view.drop 1 := by
        simp only [RBuf.view, List.drop_drop]
      rw [this, hv, List.drop_succ_cons, List.drop_zero]
    · show r.start + 1 ≤ r.stop; omega

/-- `ReadByte` finds a buffered byte exactly when the view is non-empty. -/
theorem readByte_none (r : RBuf) : r.readByte = none ↔ r.view = [] := by
  unfold RBuf.readByte
  split <;> simp_all

theorem consume_view (r : RBuf) (n : Nat) (h : r.wf) (hn : n ≤ r.view.length) :
    (r.consume n).view = r.view.drop n ∧ (r.consume n).wf := by
  rw [Lemmas.view_length r h] at hn
  obtain ⟨h1, h2, h3⟩ := h
  refine ⟨?_, ?_, h2, h3⟩
  · simp only [RBuf.consume, RBuf.view, List.drop_drop]
  · show r.start + n ≤ r.stop; omega

theorem init_wf : RBuf.init.wf := by
  refine ⟨Nat.le_refl _, Nat.zero_le _, ?_⟩
  simp only [RBuf.init, List.length_replicate, readBufferSize]; omega

theorem init_view : RBuf.init.view = [] := by
  simp only [RBuf.view, RBuf.init, List.take_zero, List.drop_nil]

theorem init_capacity : RBuf.init.data.length = readBufferSize := by
  simp only [RBuf.init, List.length_replicate]

/-! ### lifted to arbitrary operation sequences -/

/-- what the reader does with its buffer -/
inductive Op
  /-- one `fill()`: compaction/doubling, then `src.Read(data[end:])` where the source has `got`
      ready (`got = []`: zero-length read; `got` longer than the free space: only `room` bytes
      are taken) -/
  | fill (got : Bytes)
  /-- `r.start += n` after a token of `n` buffered bytes (legal only when `n ≤ Buffered()`) -/
  | consume (n : Nat)
  /-- `ReadByte` on buffered data (legal only when `Buffered() > 0`) -/
  | readByte

/-- the buffer together with the two histories the statements are about -/
structure Tr where
  /-- every byte handed to the parser so far, in order -/
  consumed : Bytes := []
  /-- the chunk returned by each individual `src.Read` so far (= what a `TeeBackend` placed on
      the source writes to its tee, one `Write(p[:n])` per read) -/
  reads : List Bytes := []
  buf : RBuf := RBuf.init

/-- one operation; `none` = the operation is not legal in this state -/
def step (s : Tr) : Op → Option Tr
  | .fill got =>
    some { s with reads := s.reads ++ [got.take s.buf.makeRoom.room], buf := s.buf.fill got }
  | .consume n =>
    if n ≤ s.buf.view.length then
      some { s with consumed := s.consumed ++ s.buf.view.take n, buf := s.buf.consume n }
    else none
  | .readByte =>
    match s.buf.readByte with
    | none => none
    | some (b, r') => some { s with consumed := s.consumed ++ [b], buf := r' }

def exec (s : Tr) : List Op → Option Tr
  | [] => some s
  | op :: ops => (step s op).bind fun s' => exec s' ops

/-- The invariant: consumed bytes followed by buffered bytes = all bytes ever returned by the
source, in order; the buffer is well formed; its capacity is `4096 * 2^k`. -/
def Inv (s : Tr) : Prop :=
  s.consumed ++ s.buf.view = s.reads.flatten ∧ s.buf.wf ∧
    ∃ k, s.buf.data.length = readBufferSize * 2 ^ k

theorem inv_init : Inv {} :=
  ⟨by show [] ++ RBuf.init.view = [].flatten; rw [init_view]; rfl, init_wf,
   0, by rw [init_capacity]; omega⟩

theorem step_inv (s s' : Tr) (op : Op) (h : Inv s) (hs : step s op = some s') : Inv s' := by
  obtain ⟨hq, hw, k, hk⟩ := h
  cases op with
  | fill got =>
    simp only [step, Option.some.injEq] at hs
    subst hs
    refine ⟨?_, fill_wf _ _ hw, ?_⟩
    · simp only [fill_view _ _ hw, List.flatten_append, List.flatten_cons, List.flatten_nil,
        List.append_nil, ← hq, List.append_assoc]
    · simp only [fill_capacity _ _ hw, makeRoom_capacity _ hw]
      split
      · exact ⟨k + 1, by rw [hk, Nat.pow_succ, Nat.mul_comm 2, Nat.mul_assoc]⟩
      · exact ⟨k, hk⟩
  | consume n =>
    simp only [step] at hs
    split at hs
    · rename_i hn
      cases hs
      have := consume_view _ n hw hn
      refine ⟨?_, this.2, k, hk⟩
      simp only [this.1, List.append_assoc, List.take_append_drop, hq]
    · cases hs
  | readByte =>
    simp only [step] at hs
    split at hs
    · cases hs
    · rename_i b r' hr
      cases hs
      have := readByte_view _ r' b hw hr
      refine ⟨?_, this.2, k, ?_⟩
      · simp only [List.append_assoc, List.cons_append, List.nil_append, ← this.1, hq]
      · unfold RBuf.readByte at hr
        split at hr
        · cases hr
        · cases hr; exact hk

theorem exec_inv : ∀ (ops : List Op) (s s' : Tr), Inv s → exec s ops = some s' → Inv s' := by
  intro ops
  induction ops with
  | nil => intro s s' h he; cases he; exact h
  | cons op ops ih =>
    intro s s' h he
    simp only [exec] at he
    cases hs : step s op with
    | none => rw [hs] at he; cases he
    | some s1 => rw [hs] at he; exact ih s1 s' (step_inv s s1 op h hs) he

/-- **Every byte exactly once and in order, across buffer boundaries of any size.** After any
legal sequence of fills (of any size: empty, 1 byte, more than the free space, more than the
whole buffer), token consumptions and `ReadByte`s, starting from the fresh 4096-byte buffer:
the bytes handed to the parser so far, followed by the bytes still buffered, are exactly the
concatenation of what the individual reads returned — nothing lost, duplicated or reordered by
compaction or by any number of doublings. -/
theorem reader_exactly_once_in_order (ops : List Op) (s : Tr) (h : exec {} ops = some s) :
    s.consumed ++ s.buf.view = s.reads.flatten ∧ s.buf.wf :=
  have := exec_inv ops {} s inv_init h
  ⟨this.1, this.2.1⟩

/-- The capacity reached is always `4096 * 2^k` (in particular a positive multiple of 4096). -/
theorem reader_capacity (ops : List Op) (s : Tr) (h : exec {} ops = some s) :
    ∃ k, s.buf.data.length = 4096 * 2 ^ k :=
  (exec_inv ops {} s inv_init h).2.2


theorem step_mono (s s' : Tr) (op : Op) (hw : s.buf.wf) (hs : step s op = some s') :
    s'.buf.wf ∧ s.consumed <+: s'.consumed ∧ s.reads <+: s'.reads ∧
      s.buf.data.length ≤ s'.buf.data.length := by
  cases op with
  | fill got =>
    simp only [step, Option.some.injEq] at hs
    subst hs
    refine ⟨fill_wf _ _ hw, List.prefix_refl _, List.prefix_append _ _, ?_⟩
    simp only [fill_capacity _ _ hw]; exact makeRoom_capacity_mono _ hw
  | consume n =>
    simp only [step] at hs
    split at hs
    · rename_i hn
      cases hs
      exact ⟨(consume_view _ n hw hn).2, List.prefix_append _ _, List.prefix_refl _, Nat.le_refl _⟩
    · cases hs
  | readByte =>
    simp only [step] at hs
    split at hs
    · cases hs
    · rename_i b r' hr
      cases hs
      refine ⟨(readByte_view _ r' b hw hr).2, List.prefix_append _ _, List.prefix_refl _, ?_⟩
      unfold RBuf.readByte at hr
      split at hr
      · cases hr
      · cases hr; exact Nat.le_refl _

/-- **History is never rewritten and the capacity only grows**: along any legal run (from any
well-formed buffer) the bytes already handed to the parser and the reads already made stay as
prefixes of the later histories, and `len(data)` never decreases. -/
theorem exec_mono : ∀ (ops : List Op) (s s' : Tr), s.buf.wf → exec s ops = some s' →
    s'.buf.wf ∧ s.consumed <+: s'.consumed ∧ s.reads <+: s'.reads ∧
      s.buf.data.length ≤ s'.buf.data.length := by
  intro ops
  induction ops with
  | nil => intro s s' h he; cases he; exact ⟨h, List.prefix_refl _, List.prefix_refl _, Nat.le_refl _⟩
  | cons op ops ih =>
    intro s s' h he
    simp only [exec] at he
    cases hs : step s op with
    | none => rw [hs] at he; cases he
    | some s1 =>
      rw [hs] at he
      have h1 := step_mono s s1 op h hs
      have h2 := ih s1 s' h1.1 he
      exact ⟨h2.1, h1.2.1.trans h2.2.1, h1.2.2.1.trans h2.2.2.1, Nat.le_trans h1.2.2.2 h2.2.2.2⟩

/-! ### the same with the source as a fixed byte stream -/

/-- the reader's operations when the source is a byte stream `src` still to be delivered -/
inductive SOp
  /-- a `fill()` during which the source is willing to return up to `k` bytes (`k = 0`:
      zero-length read; `k` may exceed the free space, the buffer size, or what is left) -/
  | read (k : Nat)
  | consume (n : Nat)
  | readByte

/-- returns the undelivered rest of the stream and the reader -/
def execS : Bytes → Tr → List SOp → Option (Bytes × Tr)
  | src, s, [] => some (src, s)
  | src, s, .read k :: ops =>
    let taken := (src.take k).take s.buf.makeRoom.room
    execS (src.drop taken.length)
      { s with reads := s.reads ++ [taken], buf := s.buf.fill (src.take k) } ops
  | src, s, .consume n :: ops => (step s (.consume n)).bind fun s' => execS src s' ops
  | src, s, .readByte :: ops => (step s .readByte).bind fun s' => execS src s' ops

theorem Lemmas.take_append_drop_length (l : Bytes) (m : Nat) :
    l.take m ++ l.drop (l.take m).length = l := by
  by_cases h : m ≤ l.length
  · rw [List.length_take, Nat.min_eq_left h, List.take_append_drop]
  · rw [List.take_of_length_le (by omega), List.drop_length, List.append_nil]

theorem execS_inv : ∀ (ops : List SOp) (src src' : Bytes) (s s' : Tr), Inv s →
    execS src s ops = some (src', s') →
    Inv s' ∧ s'.reads.flatten ++ src' = s.reads.flatten ++ src := by
  intro ops
  induction ops with
  | nil => intro src src' s s' h he; cases he; exact ⟨h, rfl⟩
  | cons op ops ih =>
    intro src src' s s' h he
    cases op with
    | read k =>
      simp only [execS] at he
      have h1 := step_inv s _ (.fill (src.take k)) h rfl
      have h2 := ih _ _ _ _ h1 he
      refine ⟨h2.1, ?_⟩
      rw [h2.2]
      simp only [List.flatten_append, List.flatten_cons, List.flatten_nil, List.append_nil,
        List.append_assoc, List.take_take]
      rw [Lemmas.take_append_drop_length]
    | consume n =>
      simp only [execS] at he
      cases hs : step s (.consume n) with
      | none => rw [hs] at he; cases he
      | some s1 =>
        rw [hs] at he
        have h2 := ih _ _ _ _ (step_inv s s1 _ h hs) he
        refine ⟨h2.1, ?_⟩
        rw [h2.2]
        simp only [step] at hs
        split at hs
        · cases hs; rfl
        · cases hs
    | readByte =>
      simp only [execS] at he
      cases hs : step s .readByte with
      | none => rw [hs] at he; cases he
      | some s1 =>
        rw [hs] at he
        have h2 := ih _ _ _ _ (step_inv s s1 _ h hs) he
        refine ⟨h2.1, ?_⟩
        rw [h2.2]
        simp only [step] at hs
        split at hs
        · cases hs
        · cases hs; rfl

/-- **Stream conservation.** For every byte stream `src`, every sequence of read sizes (0, 1, …,
larger than the buffer, larger than what is left) interleaved with legal consumptions: bytes
handed to the parser ++ bytes still buffered ++ bytes still with the source = `src`. So every
byte of the stream is interpreted at most once, in stream order, and none is dropped at a
buffer boundary (bytes a read could not take stay with the source for the next read). -/
theorem reader_stream_conservation (src src' : Bytes) (ops : List SOp) (s : Tr)
    (h : execS src {} ops = some (src', s)) :
    s.consumed ++ s.buf.view ++ src' = src := by
  have := execS_inv ops src src' {} s inv_init h
  rw [this.1.1, this.2]; rfl

/-! ## 3. tee -/

/-- **A tee on the source copies exactly the bytes read.** `Tr.reads` logs `p[:n]` of every
`Read`, which is what `TeeBackend.Read` writes to its tee. Its concatenation is exactly the
bytes that entered the reader's buffer: those already handed to the parser followed by those
still buffered — bytes the source had ready but the buffer had no room for are not copied, and
zero-length reads contribute nothing. -/
theorem tee_exact (ops : List Op) (s : Tr) (h : exec {} ops = some s) :
    s.reads.flatten = s.consumed ++ s.buf.view :=
  (reader_exactly_once_in_order ops s h).1.symm

/-! ## 2. `Terminal.Write` -/

/-- the backend never fails and never accepts 0 bytes: every scripted call is `some k`, `k > 0`
(short writes `k < len(b)` allowed) -/
def allPos (script : WScript) : Prop := ∀ x ∈ script, ∃ k, x = some k ∧ 0 < k

namespace Lemmas

theorem writeAll_spec : ∀ (fuel : Nat) (b : Bytes) (script : WScript) (total : Nat) (del : Bytes)
    (n : Nat) (e : WErr) (d : Bytes),
    b.length < fuel → writeAll fuel b script total del = (n, e, d) →
    ∃ m, m ≤ b.length ∧ n = total + m ∧ d = del ++ b.take m ∧ (e = .nil ↔ m = b.length) := by
  intro fuel
  induction fuel with
  | zero => intro b script total del n e d hf; omega
  | succ fuel ih =>
    intro b script total del n e d hf hw
    unfold writeAll at hw
    split at hw
    · rename_i hb
      have hb' : b = [] := List.isEmpty_iff.mp hb
      cases hw
      exact ⟨0, Nat.zero_le _, rfl, by simp, by simp [hb']⟩
    · rename_i hb
      have hb' : 0 < b.length := by
        cases b with
        | nil => simp at hb
        | cons x xs => simp
      split at hw
      · cases hw
        exact ⟨b.length, Nat.le_refl _, rfl, by rw [List.take_length], by simp⟩
      · cases hw
        exact ⟨0, Nat.zero_le _, rfl, by simp, ⟨fun h => (by cases h), fun h => (by omega)⟩⟩
      · rename_i k rest
        simp only at hw
        split at hw
        · cases hw
          exact ⟨0, Nat.zero_le _, rfl, by simp, ⟨fun h => (by cases h), fun h => (by omega)⟩⟩
        · rename_i hn
          have hk : min k b.length ≤ b.length := Nat.min_le_right _ _
          obtain ⟨m, hm1, hm2, hm3, hm4⟩ :=
            ih (b.drop (min k b.length)) rest _ _ n e d
              (by rw [List.length_drop]; omega) hw
          rw [List.length_drop] at hm1 hm4
          refine ⟨min k b.length + m, by omega, by omega, ?_, by rw [hm4]; omega⟩
          rw [hm3, List.take_add, List.append_assoc]

theorem writeAll_ok : ∀ (fuel : Nat) (b : Bytes) (script : WScript) (total : Nat) (del : Bytes),
    b.length < fuel → allPos script →
    writeAll fuel b script total del = (total + b.length, .nil, del ++ b) := by
  intro fuel
  induction fuel with
  | zero => intro b script total del hf; omega
  | succ fuel ih =>
    intro b script total del hf hp
    unfold writeAll
    split
    · rename_i hb
      have hb' : b = [] := List.isEmpty_iff.mp hb
      simp [hb']
    · rename_i hb
      have hb' : 0 < b.length := by
        cases b with
        | nil => simp at hb
        | cons x xs => simp
      split
      · rfl
      · rename_i rest
        obtain ⟨k, hk, _⟩ := hp none (by simp)
        cases hk
      · rename_i k rest
        obtain ⟨k', hk, hk0⟩ := hp (some k) (by simp)
        cases hk
        have hn : min k b.length ≠ 0 := by omega
        have hk : min k b.length ≤ b.length := Nat.min_le_right _ _
        simp only [hn, if_false]
        rw [ih _ rest _ _ (by rw [List.length_drop]; omega)
          (fun x hx => hp x (List.mem_cons_of_mem _ hx))]
        rw [List.length_drop, List.append_assoc, List.take_append_drop]
        congr 1; omega

theorem writeAll_fuel : ∀ (f f' : Nat) (b : Bytes) (script : WScript) (total : Nat) (del : Bytes),
    b.length < f → b.length < f' →
    writeAll f b script total del = writeAll f' b script total del := by
  intro f
  induction f with
  | zero => intro f' b script total del hf; omega
  | succ f ih =>
    intro f' b script total del hf hf'
    cases f' with
    | zero => omega
    | succ f' =>
      unfold writeAll
      split
      · rfl
      · rename_i hb
        have hb' : 0 < b.length := by
          cases b with
          | nil => simp at hb
          | cons x xs => simp
        split
        · rfl
        · rfl
        · rename_i k rest
          simp only
          split
          · rfl
          · rename_i hn
            have hk : min k b.length ≤ b.length := Nat.min_le_right _ _
            exact ih f' _ rest _ _ (by rw [List.length_drop]; omega)
              (by rw [List.length_drop]; omega)

/-- the first `pre.length` calls each accept their full `k` because more than that remains -/
theorem writeAll_pre (rest : WScript) : ∀ (pre : List Nat) (fuel : Nat) (b : Bytes) (total : Nat)
    (del : Bytes), (∀ k ∈ pre, 0 < k) → pre.sum < b.length → b.length < fuel →
    writeAll fuel b (pre.map some ++ rest) total del =
      writeAll (fuel - pre.length) (b.drop pre.sum) rest (total + pre.sum) (del ++ b.take pre.sum) ∧
      (b.drop pre.sum).length < fuel - pre.length := by
  intro pre
  induction pre with
  | nil =>
    intro fuel b total del hp hs hf
    simp only [List.map_nil, List.nil_append, List.length_nil, List.sum_nil, Nat.sub_zero,
      List.drop_zero, Nat.add_zero, List.take_zero, List.append_nil, true_and]
    exact hf
  | cons k pre ih =>
    intro fuel b total del hp hs hf
    have hk0 : 0 < k := hp k (by simp)
    simp only [List.sum_cons] at hs
    cases fuel with
    | zero => omega
    | succ fuel =>
      have hb : b.isEmpty = false := by
        cases b with
        | nil => simp at hs
        | cons x xs => rfl
      have hmin : min k b.length = k := Nat.min_eq_left (by omega)
      have h := ih fuel (b.drop k) (total + k) (del ++ b.take k)
        (fun x hx => hp x (List.mem_cons_of_mem _ hx))
        (by rw [List.length_drop]; omega) (by rw [List.length_drop]; omega)
      simp only [List.map_cons, List.cons_append, List.sum_cons, List.length_cons]
      rw [writeAll]
      simp only [hb, Bool.false_eq_true, if_false, hmin]
      rw [if_neg (by omega), h.1]
      refine ⟨?_, ?_⟩
      · simp only [List.drop_drop, Nat.add_assoc, List.append_assoc, ← List.take_add,
          Nat.add_sub_add_right]
      · have := h.2
        simp only [List.drop_drop] at this
        simp only [Nat.add_sub_add_right]; exact this


theorem writeAll_enough (rest : WScript) : ∀ (pre : List Nat) (fuel : Nat) (b : Bytes) (total : Nat)
    (del : Bytes), (∀ k ∈ pre, 0 < k) → b.length ≤ pre.sum → b.length < fuel →
    writeAll fuel b (pre.map some ++ rest) total del = (total + b.length, .nil, del ++ b) := by
  intro pre
  induction pre with
  | nil =>
    intro fuel b total del hp hs hf
    have hb : b = [] := by
      cases b with
      | nil => rfl
      | cons x xs => simp at hs
    subst hb
    cases fuel with
    | zero => omega
    | succ fuel => simp [writeAll]
  | cons k pre ih =>
    intro fuel b total del hp hs hf
    have hk0 : 0 < k := hp k (by simp)
    simp only [List.sum_cons] at hs
    cases fuel with
    | zero => omega
    | succ fuel =>
      cases hb : b.isEmpty with
      | true =>
        have hb' : b = [] := List.isEmpty_iff.mp hb
        subst hb'
        simp [writeAll]
      | false =>
        have hb' : 0 < b.length := by
          cases b with
          | nil => simp at hb
          | cons x xs => simp
        have hk : min k b.length ≤ b.length := Nat.min_le_right _ _
        simp only [List.map_cons, List.cons_append]
        rw [writeAll]
        simp only [hb, Bool.false_eq_true, if_false]
        rw [if_neg (by omega), ih fuel _ _ _ (fun x hx => hp x (List.mem_cons_of_mem _ hx))
          (by rw [List.length_drop]; omega) (by rw [List.length_drop]; omega)]
        rw [List.length_drop, List.append_assoc, List.take_append_drop]
        congr 1; omega

theorem writeAll_err_sound : ∀ (fuel : Nat) (b : Bytes) (script : WScript) (total : Nat) (del : Bytes)
    (n : Nat) (e : WErr) (d : Bytes), writeAll fuel b script total del = (n, e, d) →
    (e = .injected → none ∈ script) ∧ (e = .shortWrite → some 0 ∈ script) := by
  intro fuel
  induction fuel with
  | zero =>
    intro b script total del n e d hw
    cases hw
    exact ⟨fun h => (by cases h), fun h => (by cases h)⟩
  | succ fuel ih =>
    intro b script total del n e d hw
    unfold writeAll at hw
    split at hw
    · cases hw; exact ⟨fun h => (by cases h), fun h => (by cases h)⟩
    · split at hw
      · cases hw; exact ⟨fun h => (by cases h), fun h => (by cases h)⟩
      · cases hw; exact ⟨fun _ => by simp, fun h => (by cases h)⟩
      · rename_i k rest
        simp only at hw
        split at hw
        · rename_i hn
          cases hw
          refine ⟨fun h => (by cases h), fun _ => ?_⟩
          have hb : 0 < b.length := by
            cases b with
            | nil => simp_all
            | cons x xs => simp
          have : k = 0 := by omega
          simp [this]
        · have := ih _ rest _ _ n e d hw
          exact ⟨fun h => List.mem_cons_of_mem _ (this.1 h), fun h => List.mem_cons_of_mem _ (this.2 h)⟩

end Lemmas

/-- **The whole slice is delivered despite short writes.** If no scripted call fails and none
accepts 0 bytes (each accepts any positive number, possibly fewer than offered; after the script
the backend accepts everything), `Terminal.Write(b)` returns `(len(b), nil)` and the backend has
received exactly `b`. -/
theorem write_all_ok (b : Bytes) (script : WScript) (h : allPos script) :
    terminalWrite b script = (b.length, .nil, b) := by
  unfold terminalWrite
  rw [writeAll_ok _ b script 0 [] (Nat.lt_succ_self _) h, Nat.zero_add, List.nil_append]

/-- The same when the script goes on arbitrarily (failures, zero-length accepts) after calls that
already cover the slice: the loop stops as soon as everything is written. -/
theorem write_all_ok_then_anything (b : Bytes) (pre : List Nat) (rest : WScript)
    (hp : ∀ k ∈ pre, 0 < k) (hs : b.length ≤ pre.sum) :
    terminalWrite b (pre.map some ++ rest) = (b.length, .nil, b) := by
  unfold terminalWrite
  rw [writeAll_enough rest pre _ b 0 [] hp hs (Nat.lt_succ_self _), Nat.zero_add, List.nil_append]

/-- **The count is exact.** In every case (success, injected error at any call, zero-length
accept) the bytes the backend received are the prefix of `b` of exactly the reported length. -/
theorem write_prefix (b : Bytes) (script : WScript) (n : Nat) (e : WErr) (del : Bytes)
    (h : terminalWrite b script = (n, e, del)) : del = b.take n ∧ n ≤ b.length := by
  obtain ⟨m, h1, h2, h3, _⟩ := writeAll_spec _ b script 0 [] n e del (Nat.lt_succ_self _) h
  rw [Nat.zero_add] at h2
  subst h2
  exact ⟨by rw [h3, List.nil_append], h1⟩

/-- **An error is reported exactly when something was not delivered.** -/
theorem write_error_reported (b : Bytes) (script : WScript) (n : Nat) (e : WErr) (del : Bytes)
    (h : terminalWrite b script = (n, e, del)) : (e = .nil ↔ del = b) ∧ (e = .nil ↔ n = b.length) := by
  obtain ⟨m, h1, h2, h3, h4⟩ := writeAll_spec _ b script 0 [] n e del (Nat.lt_succ_self _) h
  rw [Nat.zero_add] at h2
  subst h2
  rw [List.nil_append] at h3
  refine ⟨?_, h4⟩
  rw [h4, h3]
  constructor
  · intro hm; rw [hm, List.take_length]
  · intro ht
    have := congrArg List.length ht
    rw [List.length_take] at this; omega

/-- An injected error can only come from a failing call, `io.ErrShortWrite` only from a call
that accepted 0 bytes. -/
theorem write_error_sound (b : Bytes) (script : WScript) (n : Nat) (e : WErr) (del : Bytes)
    (h : terminalWrite b script = (n, e, del)) :
    (e = .injected → none ∈ script) ∧ (e = .shortWrite → some 0 ∈ script) :=
  writeAll_err_sound _ b script 0 [] n e del h

/-- **A failing call yields the error with the count written before it.** After calls accepting
`pre = [k₁, …, kⱼ]` bytes (all positive, together fewer than `len(b)`, so that call `j+1` is
made), a failing call makes `Write` return `(k₁+…+kⱼ, err)`, the backend having received exactly
that prefix — for every `j`, i.e. an error injected at every write index. -/
theorem write_injected (b : Bytes) (pre : List Nat) (rest : WScript)
    (hp : ∀ k ∈ pre, 0 < k) (hs : pre.sum < b.length) :
    terminalWrite b (pre.map some ++ none :: rest) = (pre.sum, .injected, b.take pre.sum) := by
  unfold terminalWrite
  obtain ⟨h1, h2⟩ := writeAll_pre (none :: rest) pre _ b 0 [] hp hs (Nat.lt_succ_self _)
  rw [h1]
  have hne : (b.drop pre.sum).isEmpty = false := by
    cases hd : b.drop pre.sum with
    | nil => rw [hd] at h2; have := congrArg List.length hd; rw [List.length_drop] at this; simp at this; omega
    | cons x xs => rfl
  cases hf : b.length + 1 - pre.length with
  | zero => omega
  | succ f => simp [writeAll, hne]

/-- **A zero-length accept yields `io.ErrShortWrite`** with the count written before it (instead
of looping forever). -/
theorem write_short (b : Bytes) (pre : List Nat) (rest : WScript)
    (hp : ∀ k ∈ pre, 0 < k) (hs : pre.sum < b.length) :
    terminalWrite b (pre.map some ++ some 0 :: rest) = (pre.sum, .shortWrite, b.take pre.sum) := by
  unfold terminalWrite
  obtain ⟨h1, h2⟩ := writeAll_pre (some 0 :: rest) pre _ b 0 [] hp hs (Nat.lt_succ_self _)
  rw [h1]
  have hne : (b.drop pre.sum).isEmpty = false := by
    cases hd : b.drop pre.sum with
    | nil => rw [hd] at h2; have := congrArg List.length hd; rw [List.length_drop] at this; simp at this; omega
    | cons x xs => rfl
  cases hf : b.length + 1 - pre.length with
  | zero => omega
  | succ f => simp [writeAll, hne]

/-- **The fuel `len(b) + 1` suffices**: the loop is never cut short by the fuel (every iteration
that continues has written at least one byte), so any larger bound gives the same result. -/
theorem write_fuel_suffices (b : Bytes) (script : WScript) (f : Nat) (h : b.length < f) :
    writeAll f b script 0 [] = terminalWrite b script :=
  writeAll_fuel f _ b script 0 [] h (Nat.lt_succ_self _)

/-! ## 4. a zero-length read at the parser level

`Sys.feedAll` over the list of chunks the reader actually took equals `Sys.feed` of their
concatenation (from an empty pending buffer, or any pending buffer on which `next` says
`.need`): proved as `TM.C08.feedAll_eq_feed` / `segmentation_irrelevant` in `Props/C08.lean`.
Together with `reader_exactly_once_in_order` (the concatenation of the chunks is the byte
sequence handed on) this is the "exactly once and in order" statement at the parser level.
The easy part, used for zero-length reads: -/

/-- A zero-length read changes nothing and produces no event, whenever the reader is quiescent
(`run_pending_stuck` in `Props/C08.lean`: every state produced by `feed` is). -/
theorem feed_nil (cw : Nat → Nat) (s : Sys) (h : next s.pending = .need) :
    Sys.feed cw s [] = (s, []) := by
  cases s with
  | mk t pending =>
    simp only [Sys.feed, List.append_nil, run, runFuel]
    simp only at h
    rw [h]

/-- in particular with nothing pending -/
theorem feed_nil_of_empty (cw : Nat → Nat) (t : Term) : Sys.feed cw ⟨t, []⟩ [] = (⟨t, []⟩, []) :=
  feed_nil cw ⟨t, []⟩ (by simp [next])

/-- any number of zero-length reads anywhere in a read script can be dropped -/
theorem feedAll_nil_chunk (cw : Nat → Nat) (s : Sys) (h : next s.pending = .need) (cs : List Bytes) :
    Sys.feedAll cw s ([] :: cs) = Sys.feedAll cw s cs := by
  simp only [Sys.feedAll, feed_nil cw s h, List.nil_append]


/-! ## 5. `ReadByte` over reads that may report an error

`RBuf.fill` has no error input because `fill()` stores the `n` bytes before it returns `err`.
To state the two error clauses of the property ("including bytes returned together with an
error", "stops once a read reports an error or EOF with no further data") this section
transcribes the loop of `GraphemeReader.ReadByte` (`grapheme_reader.go`)

    for r.Buffered() == 0 { err := r.fill(); if err != nil { if r.Buffered() == 0 { return 0, err }; break } }
    if r.Buffered() == 0 { return 0, io.EOF };  b := r.data[r.start]; r.start++; return b, nil

over a script whose k-th entry `(got, err)` is what the k-th `src.Read` returns. (This loop is
defined here, on top of the harness-checked `RBuf.fill` / `RBuf.readByte`; an exhausted script
counts as EOF.) -/

/-- `(got, err)`: the bytes a `Read` returns and whether it also reports an error (`io.EOF` or other) -/
abbrev RScript := List (Bytes × Bool)

/-- the `for` loop: returns the buffer, the reads not made, and the chunk taken by each read made -/
def fillLoop : RBuf → RScript → RBuf × RScript × List Bytes
  | r, [] => (r, [], [])
  | r, (got, err) :: rest =>
    if r.view.isEmpty then
      let r1 := r.fill got
      let tk := got.take r.makeRoom.room
      if err then (r1, rest, [tk])
      else
        let out := fillLoop r1 rest
        (out.1, out.2.1, tk :: out.2.2)
    else (r, (got, err) :: rest, [])

/-- `ReadByte`: `some b` = `(b, nil)`, `none` = `(0, err)` -/
def readByteE (r : RBuf) (script : RScript) : Option UInt8 × RBuf × RScript × List Bytes :=
  let out := fillLoop r script
  match out.1.readByte with
  | none => (none, out.1, out.2.1, out.2.2)
  | some (b, r2) => (some b, r2, out.2.1, out.2.2)

namespace Lemmas

theorem fillLoop_spec : ∀ (script : RScript) (r : RBuf), r.wf →
    (fillLoop r script).1.wf ∧
    (fillLoop r script).1.view = r.view ++ (fillLoop r script).2.2.flatten ∧
    script = script.take (fillLoop r script).2.2.length ++ (fillLoop r script).2.1 ∧
    (r.view ≠ [] → (fillLoop r script).2.2 = []) ∧
    (∀ i, i + 1 < (fillLoop r script).2.2.length →
      (fillLoop r script).2.2[i]? = some [] ∧ (script[i]?.map (·.2)) = some false) := by
  intro script
  induction script with
  | nil => intro r h; simp [fillLoop, h]
  | cons p rest ih =>
    intro r h
    obtain ⟨got, err⟩ := p
    unfold fillLoop
    cases hv : r.view.isEmpty with
    | false =>
      simp only [Bool.false_eq_true, if_false]
      simp [h]
    | true =>
      have hv' : r.view = [] := List.isEmpty_iff.mp hv
      simp only [if_true]
      cases err with
      | true =>
        simp only [if_true]
        refine ⟨fill_wf _ _ h, ?_, ?_, ?_, ?_⟩
        · rw [fill_view _ _ h]; simp
        · simp
        · intro hne; exact absurd hv' hne
        · intro i hi; simp at hi
      | false =>
        simp only [Bool.false_eq_true, if_false]
        have h1 := fill_wf r got h
        obtain ⟨a1, a2, a3, a4, a5⟩ := ih (r.fill got) h1
        refine ⟨a1, ?_, ?_, ?_, ?_⟩
        · rw [a2, fill_view _ _ h]; simp
        · simp only [List.length_cons, List.take_succ_cons, List.cons_append]
          rw [← a3]
        · intro hne; exact absurd hv' hne
        · intro i hi
          simp only [List.length_cons] at hi
          cases i with
          | zero =>
            -- more reads were made after this one, so it left the buffer empty
            have hne : (fillLoop (r.fill got) rest).2.2 ≠ [] := by
              intro hc; rw [hc] at hi; simp at hi
            have hemp : (r.fill got).view = [] := by
              cases hq : (r.fill got).view with
              | nil => rfl
              | cons x xs => exact absurd (a4 (by rw [hq]; simp)) hne
            rw [fill_view _ _ h, hv', List.nil_append] at hemp
            simp [hemp]
          | succ j =>
            have := a5 j (by omega)
            simpa using this

end Lemmas

/-- **Bytes returned together with an error are interpreted like any others; nothing is lost
around an error.** Whatever `ReadByte` returns, the byte returned (if any) followed by what is
buffered afterwards is what was buffered before followed by every chunk the reads delivered —
whether or not the read reported an error — and the reads made are a prefix of the script. -/
theorem readByteE_conservation (r : RBuf) (script : RScript) (h : r.wf) :
    let out := readByteE r script
    out.1.toList ++ out.2.1.view = r.view ++ out.2.2.2.flatten ∧ out.2.1.wf ∧
      script = script.take out.2.2.2.length ++ out.2.2.1 := by
  obtain ⟨a1, a2, a3, _, _⟩ := fillLoop_spec script r h
  simp only [readByteE]
  split
  · rename_i hr
    rw [readByte_none] at hr
    exact ⟨by rw [← a2, hr]; rfl, a1, a3⟩
  · rename_i b r2 hr
    have := readByte_view _ r2 b a1 hr
    exact ⟨by rw [← a2, this.1]; rfl, this.2, a3⟩

/-- **An error (or EOF) is returned only when there is no data at all**: `ReadByte` fails iff
nothing was buffered and every read made delivered nothing. In particular, if the read that
reported the error also delivered bytes, the first of them is returned with a nil error. -/
theorem readByteE_error_iff (r : RBuf) (script : RScript) (h : r.wf) :
    (readByteE r script).1 = none ↔ r.view = [] ∧ (readByteE r script).2.2.2.flatten = [] := by
  obtain ⟨a1, a2, _, _, _⟩ := fillLoop_spec script r h
  simp only [readByteE]
  split
  · rename_i hr
    rw [readByte_none, a2] at hr
    simpa using hr
  · rename_i b r2 hr
    have := (readByte_view _ r2 b a1 hr).1
    rw [a2] at this
    constructor
    · intro hc; cases hc
    · intro hc; rw [hc.1, hc.2] at this; cases this

/-- **The loop stops at the first read that reports an error or delivers data**, and makes no
read at all while data is buffered: every read made except the last delivered nothing and
reported no error. -/
theorem readByteE_stops (r : RBuf) (script : RScript) (h : r.wf) :
    (r.view ≠ [] → (readByteE r script).2.2.2 = []) ∧
    ∀ i, i + 1 < (readByteE r script).2.2.2.length →
      (readByteE r script).2.2.2[i]? = some [] ∧ script[i]?.map (·.2) = some false := by
  obtain ⟨_, _, _, a4, a5⟩ := fillLoop_spec script r h
  simp only [readByteE]
  split <;> exact ⟨a4, a5⟩

/-! ## non-vacuity

Small hand-made buffers of capacity 4 (so that `decide` is fast) exercising: a buffer filled to
the brim (doubling), compaction with `start > 0`, the reset when everything was consumed, reads
larger than the free space, zero-length reads; plus two runs on the real 4096-byte buffer. -/
section Examples

/-- capacity 4, empty -/
def empty4 : RBuf := { data := [0, 0, 0, 0], start := 0, stop := 0 }
/-- capacity 4, filled to the brim, nothing consumed -/
def full4 : RBuf := { data := [1, 2, 3, 4], start := 0, stop := 4 }
/-- capacity 4, full, two bytes consumed -/
def mid4 : RBuf := { data := [1, 2, 3, 4], start := 2, stop := 4 }
/-- capacity 4, full, everything consumed -/
def spent4 : RBuf := { data := [1, 2, 3, 4], start := 4, stop := 4 }

example : empty4.wf ∧ full4.wf ∧ mid4.wf ∧ spent4.wf := by
  simp [RBuf.wf, empty4, full4, mid4, spent4]

/-- brim-full: the array is doubled, both offered bytes are taken after the four old ones -/
example : (full4.fill [5, 6]).view = [1, 2, 3, 4, 5, 6] ∧ (full4.fill [5, 6]).data.length = 8 ∧
    full4.makeRoom.room = 4 := by decide
/-- compaction with `start > 0`: two bytes of room are recovered, the third offered byte is
not taken, no doubling -/
example : (mid4.fill [5, 6, 7]).view = [3, 4, 5, 6] ∧ (mid4.fill [5, 6, 7]).data.length = 4 ∧
    (mid4.fill [5, 6, 7]).start = 0 ∧ mid4.makeRoom.room = 2 := by decide
/-- everything consumed: indices reset, the whole array is free again -/
example : (spent4.fill [9]).view = [9] ∧ spent4.makeRoom.room = 4 ∧ (spent4.fill [9]).data.length = 4 := by
  decide
/-- zero-length read on a full buffer: view unchanged (the array is doubled all the same) -/
example : (full4.fill []).view = [1, 2, 3, 4] ∧ (full4.fill []).data.length = 8 := by decide
example : mid4.readByte.map (fun p => (p.1, p.2.view)) = some (3, [4]) ∧
    spent4.readByte.map (·.1) = none ∧ (mid4.consume 2).view = [] := by decide

set_option maxRecDepth 100000 in
/-- a legal run on the real 4096-byte buffer, with a zero-length read in the middle -/
example : (exec {} [.fill [65, 66, 67], .readByte, .consume 1, .fill [], .fill [68]]).map
    (fun s => (s.consumed, s.buf.view, s.reads)) =
      some ([65, 66], [67, 68], [[65, 66, 67], [], [68]]) := by decide
set_option maxRecDepth 100000 in
/-- illegal operations are rejected (the hypotheses `exec … = some s` are not trivially true) -/
example : (exec {} [.consume 1]).isNone ∧ (exec {} [.readByte]).isNone ∧
    (exec {} [.fill [1], .consume 2]).isNone := by decide

/-- a 5000-byte offer to the fresh buffer: exactly 4096 bytes are taken; the next `fill` finds
the buffer brim-full and doubles it to 8192 -/
example : (RBuf.init.fill (List.replicate 5000 7)).view = List.replicate 4096 7 ∧
    ((RBuf.init.fill (List.replicate 5000 7)).fill [1, 2]).data.length = 8192 ∧
    ((RBuf.init.fill (List.replicate 5000 7)).fill [1, 2]).view = List.replicate 4096 7 ++ [1, 2] := by
  have hroom : RBuf.init.makeRoom.room = 4096 := by
    rw [makeRoom_room _ init_wf, makeRoom_capacity _ init_wf, init_view, init_capacity]
    simp only [List.length_nil, readBufferSize]
    decide
  have hv : (RBuf.init.fill (List.replicate 5000 7)).view = List.replicate 4096 7 := by
    rw [fill_view _ _ init_wf, init_view, hroom, List.nil_append, List.take_replicate]; rfl
  have hw := fill_wf RBuf.init (List.replicate 5000 7) init_wf
  have hc : (RBuf.init.fill (List.replicate 5000 7)).data.length = 4096 := by
    rw [fill_capacity _ _ init_wf, makeRoom_capacity _ init_wf, init_view, init_capacity]
    simp only [List.length_nil, readBufferSize]
    decide
  have hc2 : ((RBuf.init.fill (List.replicate 5000 7)).fill [1, 2]).data.length = 8192 := by
    rw [fill_capacity _ _ hw, makeRoom_capacity _ hw, hv, hc]
    simp only [List.length_replicate]; decide
  refine ⟨hv, hc2, ?_⟩
  rw [fill_view _ _ hw, hv, makeRoom_room _ hw, ← fill_capacity _ [1, 2] hw, hc2, hv]
  simp only [List.length_replicate]
  congr 1

/-- a 10-byte stream through a capacity-4 buffer with reads of size 10, 10, 1, 0, 100:
compaction twice, one doubling (4 → 8), every byte accounted for -/
example : (execS [1, 2, 3, 4, 5, 6, 7, 8, 9, 10] { buf := empty4 }
      [.read 10, .consume 3, .read 10, .readByte, .read 1, .read 0, .consume 2, .read 100]).map
      (fun o => (o.1, o.2.consumed, o.2.buf.view, o.2.reads, o.2.buf.data.length)) =
    some ([], [1, 2, 3, 4, 5, 6], [7, 8, 9, 10], [[1, 2, 3, 4], [5, 6, 7], [8], [], [9, 10]], 8) := by
  decide
/-- the same stream when nothing is consumed between reads: two doublings would be needed for
more; here 4 → 8, and the bytes that did not fit stay with the source -/
example : (execS [1, 2, 3, 4, 5, 6, 7, 8, 9, 10] { buf := empty4 } [.read 10, .read 10]).map
      (fun o => (o.1, o.2.buf.view, o.2.buf.data.length)) =
    some ([9, 10], [1, 2, 3, 4, 5, 6, 7, 8], 8) := by decide

/-- `Terminal.Write` of 10 bytes -/
example : terminalWrite [1, 2, 3, 4, 5, 6, 7, 8, 9, 10] [some 3, some 0] = (3, .shortWrite, [1, 2, 3]) := by
  decide
example : terminalWrite [1, 2, 3, 4, 5, 6, 7, 8, 9, 10] [some 3, none, some 4] = (3, .injected, [1, 2, 3]) := by
  decide
example : terminalWrite [1, 2, 3, 4, 5, 6, 7, 8, 9, 10] [some 3, some 4, some 100, none] =
    (10, .nil, [1, 2, 3, 4, 5, 6, 7, 8, 9, 10]) := by decide
/-- an empty slice makes no call at all, so a failing backend is not noticed -/
example : terminalWrite [] [none] = (0, .nil, []) := by decide
example : allPos [some 3, some 4, some 1] := by
  intro x hx
  simp only [List.mem_cons, List.not_mem_nil, or_false] at hx
  rcases hx with rfl | rfl | rfl <;> exact ⟨_, rfl, by decide⟩
/-- `write_injected` / `write_short` apply for every injection index (here index 2) -/
example : terminalWrite [1, 2, 3, 4, 5, 6, 7, 8, 9, 10] ([3, 4].map some ++ none :: []) =
    (7, .injected, [1, 2, 3, 4, 5, 6, 7]) :=
  write_injected _ [3, 4] [] (by decide) (by decide)

/-- quiescent reader states with something pending: a lone ESC, a truncated UTF-8 character -/
example : next [27] = .need ∧ next [0xE2, 0x82] = .need := by decide

/-- data together with an error is delivered (after an empty read); the read after the error
is not made -/
example : (let o := readByteE empty4 [([], false), ([7, 8], true), ([9], false)];
    (o.1, o.2.1.view, o.2.2.1, o.2.2.2)) = (some 7, [8], [([9], false)], [[], [7, 8]]) := by decide
/-- an error without data stops the loop with an error -/
example : (let o := readByteE empty4 [([], false), ([], true), ([9], false)];
    (o.1, o.2.1.view, o.2.2.1, o.2.2.2)) = (none, [], [([9], false)], [[], []]) := by decide

end Examples
end TM.C16

#print axioms TM.C16.view_length
#print axioms TM.C16.view_getElem?
#print axioms TM.C16.makeRoom_view
#print axioms TM.C16.makeRoom_wf
#print axioms TM.C16.makeRoom_room_pos
#print axioms TM.C16.makeRoom_start
#print axioms TM.C16.makeRoom_capacity
#print axioms TM.C16.makeRoom_room
#print axioms TM.C16.makeRoom_capacity_mono
#print axioms TM.C16.fill_view
#print axioms TM.C16.fill_wf
#print axioms TM.C16.fill_capacity
#print axioms TM.C16.fill_nil
#print axioms TM.C16.fill_fits
#print axioms TM.C16.fill_progress
#print axioms TM.C16.readByte_view
#print axioms TM.C16.readByte_none
#print axioms TM.C16.consume_view
#print axioms TM.C16.init_wf
#print axioms TM.C16.init_view
#print axioms TM.C16.init_capacity
#print axioms TM.C16.reader_exactly_once_in_order
#print axioms TM.C16.reader_capacity
#print axioms TM.C16.exec_mono
#print axioms TM.C16.reader_stream_conservation
#print axioms TM.C16.write_all_ok
#print axioms TM.C16.write_all_ok_then_anything
#print axioms TM.C16.write_prefix
#print axioms TM.C16.write_error_reported
#print axioms TM.C16.write_error_sound
#print axioms TM.C16.write_injected
#print axioms TM.C16.write_short
#print axioms TM.C16.write_fuel_suffices
#print axioms TM.C16.tee_exact
#print axioms TM.C16.feed_nil
#print axioms TM.C16.feed_nil_of_empty
#print axioms TM.C16.feedAll_nil_chunk
#print axioms TM.C16.readByteE_conservation
#print axioms TM.C16.readByteE_error_iff
#print axioms TM.C16.readByteE_stops
