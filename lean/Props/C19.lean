import TM.Term
/-!
# C19 — Kitty keyboard-flag set / push / pop / query follow the protocol's stack rules

Model: `TM.Kbd` (`keyboard_mode.go`) and the `CSI = / > / < / ? … u` rows of `TM.Term.csi`.
All statements are for every flag value, every stack content and every operation sequence.
-/
namespace TM.C19
open TM

/-! ### set / or / clear (`CSI = flags ; mode u`) -/

theorem update_assign (k : Kbd) (f : Int) : (k.update f 1).flags = f.toNat ∧ (k.update f 1).stack = k.stack := by
  simp [Kbd.update]

theorem update_or (k : Kbd) (f : Int) : (k.update f 2).flags = k.flags ||| f.toNat ∧ (k.update f 2).stack = k.stack := by
  simp [Kbd.update]

/-- mode 3 clears exactly the given bits (stated bit by bit: `flags &^ f`) -/
theorem update_clear (k : Kbd) (f : Int) (i : Nat) :
    (k.update f 3).flags.testBit i = (k.flags.testBit i && !(f.toNat.testBit i)) ∧ (k.update f 3).stack = k.stack := by
  simp [Kbd.update, Nat.testBit_xor, Nat.testBit_and]
  cases k.flags.testBit i <;> cases f.toNat.testBit i <;> rfl

/-- an omitted or non-positive mode means "assign" (the code's `if mode <= 0 { mode = 1 }`) -/
theorem update_default_mode (k : Kbd) (f m : Int) (h : m ≤ 0) : k.update f m = k.update f 1 := by
  simp [Kbd.update, h]

/-- any other mode leaves the state alone -/
theorem update_other_mode (k : Kbd) (f m : Int) (h : 3 < m) : k.update f m = k := by
  have h1 : ¬ m ≤ 0 := by omega
  have h2 : ¬ m = 1 := by omega
  have h3 : ¬ m = 2 := by omega
  have h4 : ¬ m = 3 := by omega
  simp [Kbd.update, h1, h2, h3, h4]

/-! ### push (`CSI > flags u`) -/

theorem push_installs (k : Kbd) (f : Int) : (k.push f).flags = f.toNat := by
  simp [Kbd.push]

/-- the previous flags become the newest entry -/
theorem push_saves (k : Kbd) (f : Int) : (k.push f).stack.getLast? = some k.flags := by
  simp [Kbd.push]

/-- below the limit nothing is evicted -/
theorem push_below_limit (k : Kbd) (f : Int) (h : k.stack.length < keyboardStackMax) :
    (k.push f).stack = k.stack ++ [k.flags] := by
  have : ¬ k.stack.length ≥ keyboardStackMax := by omega
  simp [Kbd.push, this]

/-- at the limit exactly the oldest entry is evicted -/
theorem push_evicts_oldest (k : Kbd) (f : Int) (h : k.stack.length ≥ keyboardStackMax) :
    (k.push f).stack = k.stack.tail ++ [k.flags] := by
  simp [Kbd.push, h]

/-- the limit is 32 and is never exceeded -/
theorem stack_limit : keyboardStackMax = 32 := rfl

theorem push_bounded (k : Kbd) (f : Int) (h : k.stack.length ≤ keyboardStackMax) :
    (k.push f).stack.length ≤ keyboardStackMax := by
  unfold Kbd.push
  simp only
  split
  · simp only [List.length_append, List.length_tail, List.length_cons, List.length_nil]
    unfold keyboardStackMax at *; omega
  · simp only [List.length_append, List.length_cons, List.length_nil]
    unfold keyboardStackMax at *; omega

/-! ### pop (`CSI < n u`) -/

theorem popN_bounded (n : Nat) (k : Kbd) : (Kbd.popN n k).stack.length ≤ k.stack.length := by
  induction n generalizing k with
  | zero => simp [Kbd.popN]
  | succ n ih =>
    unfold Kbd.popN
    cases hk : k.stack.getLast? with
    | none => simp
    | some f =>
      simp only
      refine Nat.le_trans (ih _) ?_
      simp

/-- popping one entry of a non-empty stack restores it -/
theorem pop_one (k : Kbd) (st : List Nat) (f : Nat) (h : k.stack = st ++ [f]) :
    k.pop 1 = { flags := f, stack := st } := by
  simp [Kbd.pop, Kbd.popN, h]

/-- popping (at least one entry of) an empty stack resets the flags to 0 -/
theorem pop_empty (k : Kbd) (n : Int) (hn : 0 < n) (h : k.stack = []) :
    (k.pop n).flags = 0 ∧ (k.pop n).stack = [] := by
  unfold Kbd.pop
  generalize hm : n.toNat = m
  have hm' : 0 < m := by omega
  cases m with
  | zero => omega
  | succ m => simp [Kbd.popN, h]

/-- popping `n+1 ≤ depth` entries restores the flags saved `n+1` pushes ago and keeps the older ones -/
theorem popN_restores (n : Nat) (k : Kbd) (hn : n < k.stack.length) :
    Kbd.popN (n + 1) k =
      { flags := k.stack[k.stack.length - 1 - n]'(by omega), stack := k.stack.take (k.stack.length - 1 - n) } := by
  induction n generalizing k with
  | zero =>
    have hne : k.stack ≠ [] := List.ne_nil_of_length_pos hn
    unfold Kbd.popN
    rw [List.getLast?_eq_some_getLast hne]
    simp [Kbd.popN, List.getLast_eq_getElem, List.dropLast_eq_take]
  | succ n ih =>
    have hne : k.stack ≠ [] := List.ne_nil_of_length_pos (by omega)
    unfold Kbd.popN
    rw [List.getLast?_eq_some_getLast hne]
    simp only
    rw [ih]
    · have hl : (List.take (k.stack.length - 1) k.stack).length = k.stack.length - 1 := by
        simp [List.length_take]
      simp only [List.dropLast_eq_take, List.getElem_take, List.take_take, hl]
      congr 1
      · congr 1; omega
      · congr 1; omega
    · simp [List.length_dropLast]; omega

/-- popping more entries than are stored empties the stack and resets the flags to 0 -/
theorem popN_beyond (n : Nat) (k : Kbd) (h : k.stack.length < n) :
    (Kbd.popN n k).flags = 0 ∧ (Kbd.popN n k).stack = [] := by
  induction n generalizing k with
  | zero => omega
  | succ n ih =>
    unfold Kbd.popN
    cases hk : k.stack.getLast? with
    | none =>
      have : k.stack = [] := by simpa using hk
      simp [this]
    | some f =>
      simp only
      apply ih
      have hne : k.stack ≠ [] := by intro h0; simp [h0] at hk
      simp [List.length_dropLast]
      have : 0 < k.stack.length := List.length_pos_iff.mpr hne
      omega

/-- "`CSI < n u` pops n entries": an explicit count of 0 pops nothing (an omitted count is 1:
    `pop_dispatch` with an empty parameter list) -/
theorem pop_default (k : Kbd) (n : Int) (h : n ≤ 0) : k.pop n = k := by
  have : n.toNat = 0 := by omega
  simp [Kbd.pop, Kbd.popN, this]

/-! ### every reachable state respects the limit -/

inductive Op
  | update (f m : Int)
  | push (f : Int)
  | pop (n : Int)

def step (k : Kbd) : Op → Kbd
  | .update f m => k.update f m
  | .push f => k.push f
  | .pop n => k.pop n

theorem update_stack (k : Kbd) (f m : Int) : (k.update f m).stack = k.stack := by
  unfold Kbd.update
  simp only
  repeat' split
  all_goals rfl

theorem step_bounded (k : Kbd) (op : Op) (h : k.stack.length ≤ keyboardStackMax) :
    (step k op).stack.length ≤ keyboardStackMax := by
  cases op with
  | update f m => simpa [step, update_stack] using h
  | push f => exact push_bounded k f h
  | pop n => exact Nat.le_trans (popN_bounded _ k) h

/-- after any sequence of set/or/clear/push/pop operations at most 32 entries are stored -/
theorem reachable_bounded (ops : List Op) : (ops.foldl step {}).stack.length ≤ keyboardStackMax := by
  suffices ∀ k : Kbd, k.stack.length ≤ keyboardStackMax → (ops.foldl step k).stack.length ≤ keyboardStackMax by
    exact this {} (by simp [keyboardStackMax])
  induction ops with
  | nil => intro k h; simpa using h
  | cons op ops ih => intro k h; exact ih _ (step_bounded k op h)

/-! ### refinement to the protocol's stack, read as one history list

`hist k` is what the protocol document calls the stack: the saved flag sets, oldest first,
followed by the flags in force. The three operations are then the obvious list operations. -/

/-- the saved flag sets, oldest first, then the current flags -/
def hist (k : Kbd) : List Nat := k.stack ++ [k.flags]

theorem hist_length (k : Kbd) : (hist k).length = k.stack.length + 1 := by simp [hist]

/-- set / or / clear replace the last element only -/
theorem hist_update (k : Kbd) (f m : Int) :
    hist (k.update f m) = (hist k).dropLast ++ [(k.update f m).flags] := by
  simp [hist, update_stack]

/-- push appends the new flags; when 32 sets are already saved the oldest one is dropped -/
theorem hist_push (k : Kbd) (f : Int) :
    hist (k.push f) =
      (if k.stack.length ≥ keyboardStackMax then (hist k).tail else hist k) ++ [f.toNat] := by
  unfold hist Kbd.push
  simp only
  split
  · rename_i h
    have : k.stack ≠ [] := by
      intro h0; rw [h0] at h; simp [keyboardStackMax] at h
    cases hs : k.stack with
    | nil => exact absurd hs this
    | cons a l => simp
  · rfl

/-- pop n: the last n elements go; when nothing would be left the flags are reset to 0 -/
theorem hist_popN (n : Nat) (k : Kbd) :
    hist (Kbd.popN n k) =
      if n < (hist k).length then (hist k).take ((hist k).length - n) else [0] := by
  rw [hist_length]
  cases n with
  | zero => simp [Kbd.popN, hist, List.take_of_length_le]
  | succ n =>
    by_cases h : n < k.stack.length
    · rw [popN_restores n k h]
      have h1 : n + 1 < k.stack.length + 1 := by omega
      simp only [h1, if_true, hist]
      have e : k.stack.length + 1 - (n + 1) = (k.stack.length - 1 - n) + 1 := by omega
      rw [e, List.take_append_of_le_length (by omega), List.take_succ_eq_append_getElem (by omega)]
    · have h1 : ¬ (n + 1 < k.stack.length + 1) := by omega
      simp only [h1, if_false]
      obtain ⟨hf, hs⟩ := popN_beyond (n + 1) k (by omega)
      simp [hist, hf, hs]

/-- `CSI < n u` in terms of the history (n as written in the sequence) -/
theorem hist_pop (k : Kbd) (n : Int) :
    hist (k.pop n) =
      if n.toNat < (hist k).length then (hist k).take ((hist k).length - n.toNat) else [0] :=
  hist_popN n.toNat k

/-- a push below the limit followed by a pop of one entry is the identity -/
theorem push_pop (k : Kbd) (f : Int) (h : k.stack.length < keyboardStackMax) :
    (k.push f).pop 1 = k := by
  have hp : (k.push f).stack = k.stack ++ [k.flags] := by
    unfold Kbd.push; simp only; rw [if_neg (by omega)]
  rw [pop_one (k.push f) k.stack k.flags hp]

/-- at the limit the push loses the oldest saved set for good -/
theorem push_pop_at_limit (k : Kbd) (f : Int) (h : k.stack.length ≥ keyboardStackMax) :
    (k.push f).pop 1 = { flags := k.flags, stack := k.stack.tail } := by
  have hp : (k.push f).stack = k.stack.tail ++ [k.flags] := by
    unfold Kbd.push; simp only; rw [if_pos h]
  rw [pop_one (k.push f) k.stack.tail k.flags hp]

theorem popN_reset (b : Nat) (k : Kbd) (hs : k.stack = []) (hf : k.flags = 0) : Kbd.popN b k = k := by
  cases b with
  | zero => rfl
  | succ b =>
    unfold Kbd.popN
    simp only [hs, List.getLast?_nil]
    cases k; simp_all

theorem popN_succ (n : Nat) (k : Kbd) :
    Kbd.popN (n + 1) k =
      match k.stack.getLast? with
      | none => { k with flags := 0 }
      | some f => Kbd.popN n { flags := f, stack := k.stack.dropLast } := by
  rw [Kbd.popN]
  cases k.stack.getLast? <;> rfl

/-- popping in two goes is popping once -/
theorem popN_add (a b : Nat) (k : Kbd) : Kbd.popN (a + b) k = Kbd.popN b (Kbd.popN a k) := by
  induction a generalizing k with
  | zero => simp [Kbd.popN]
  | succ a ih =>
    rw [show a + 1 + b = (a + b) + 1 by omega, popN_succ (a + b) k, popN_succ a k]
    cases hk : k.stack.getLast? with
    | none =>
      have hs : k.stack = [] := by simpa using hk
      simp only
      exact (popN_reset b { k with flags := 0 } hs rfl).symm
    | some f => simp only; exact ih _

/-- m pushes that stay below the limit followed by `CSI < m u` restore the state exactly -/
theorem pushes_pop (k : Kbd) (fs : List Int) (h : k.stack.length + fs.length ≤ keyboardStackMax) :
    Kbd.popN fs.length (fs.foldl Kbd.push k) = k := by
  induction fs generalizing k with
  | nil => simp [Kbd.popN]
  | cons a l ih =>
    simp only [List.length_cons] at h
    have hlen : (k.push a).stack.length = k.stack.length + 1 := by
      unfold Kbd.push; simp only; rw [if_neg (by omega)]; simp
    rw [List.foldl_cons, List.length_cons, popN_add, ih (k.push a) (by omega)]
    exact push_pop k a (by omega)

/-! ### query and per-screen separation (terminal level) -/

/-- `CSI ? u` reports the flags of the active screen, whatever the parameters, and changes nothing -/
theorem query_reports_current (t : Term) (ps : List Int) :
    t.csi 0x3f ps 0x75 = (t, [.reply ([0x1b, 0x5b, 0x3f] ++ itoa t.kbd.flags ++ [0x75])]) := by
  simp [Term.csi]

/-- the keyboard operations act on the active screen's state only -/
theorem kbd_ops_leave_other_screen (t : Term) (k : Kbd) :
    (t.onAlt = false → (t.setKbd k).kalt = t.kalt ∧ (t.setKbd k).kmain = k) ∧
    (t.onAlt = true → (t.setKbd k).kmain = t.kmain ∧ (t.setKbd k).kalt = k) := by
  constructor <;> intro h <;> simp [Term.setKbd, h]

theorem push_dispatch (t : Term) (ps : List Int) :
    t.csi 0x3e ps 0x75 = (t.setKbd (t.kbd.push (pAt ps 0 0)), []) := by
  simp [Term.csi]

theorem pop_dispatch (t : Term) (ps : List Int) :
    t.csi 0x3c ps 0x75 = (t.setKbd (t.kbd.pop (pAt ps 0 1)), []) := by
  simp [Term.csi]

theorem set_dispatch (t : Term) (ps : List Int) :
    t.csi 0x3d ps 0x75 = (t.setKbd (t.kbd.update (pAt ps 0 0) (pAt ps 1 1)), []) := by
  simp [Term.csi]

/-! ### non-vacuity: concrete instances -/
set_option maxRecDepth 8000 in

example : ((({} : Kbd).push 5).push 3).pop 1 = { flags := 5, stack := [0] } := by decide
set_option maxRecDepth 8000 in
example : ((List.range 40).foldl (fun k i => k.push (i : Int)) ({} : Kbd)).stack.length = 32 := by decide
set_option maxRecDepth 8000 in
example : ((List.range 40).foldl (fun k i => k.push (i : Int)) ({} : Kbd)).stack.head? = some 7 := by decide
example : (({ flags := 13, stack := [] } : Kbd).update 5 3).flags = 8 := by decide
example : hist (({ flags := 1, stack := [4, 2] } : Kbd).push 7) = [4, 2, 1, 7] := by decide
example : hist (({ flags := 1, stack := [4, 2] } : Kbd).pop 2) = [4] := by decide
example : hist (({ flags := 1, stack := [4, 2] } : Kbd).pop 3) = [0] := by decide
example : Kbd.popN 3 ([5, 6, 7].foldl Kbd.push ({ flags := 1, stack := [4, 2] } : Kbd)) = { flags := 1, stack := [4, 2] } := by decide

end TM.C19

#print axioms TM.C19.update_assign
#print axioms TM.C19.update_or
#print axioms TM.C19.update_clear
#print axioms TM.C19.update_default_mode
#print axioms TM.C19.update_other_mode
#print axioms TM.C19.push_installs
#print axioms TM.C19.push_saves
#print axioms TM.C19.push_below_limit
#print axioms TM.C19.push_evicts_oldest
#print axioms TM.C19.stack_limit
#print axioms TM.C19.push_bounded
#print axioms TM.C19.pop_one
#print axioms TM.C19.pop_empty
#print axioms TM.C19.popN_restores
#print axioms TM.C19.popN_beyond
#print axioms TM.C19.pop_default
#print axioms TM.C19.reachable_bounded
#print axioms TM.C19.query_reports_current
#print axioms TM.C19.kbd_ops_leave_other_screen
#print axioms TM.C19.push_dispatch
#print axioms TM.C19.pop_dispatch
#print axioms TM.C19.set_dispatch
#print axioms TM.C19.hist_update
#print axioms TM.C19.hist_push
#print axioms TM.C19.hist_popN
#print axioms TM.C19.hist_pop
#print axioms TM.C19.push_pop
#print axioms TM.C19.push_pop_at_limit
#print axioms TM.C19.popN_add
#print axioms TM.C19.pushes_pop
