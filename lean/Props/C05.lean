import TM.Term
/-!
# C05 — ED / EL / ECH / DCH blank exactly the cells their definition names

Model: `Row.erase`, `Row.dch`, `blankStraddlers` (`TM/Screen.lean`), `Scr.eraseRegion(I)`, `Scr.dch`
and the rows `K`, `J`, `X`, `P` of `Term.csiPlain` (`TM/Term.lean`).

Interpretive decisions of the model (kept, and made explicit in the statements below): a
double-width character that is only partly inside the erased / deleted range is blanked whole
(in the current style); ED 2 also homes the cursor.

Layout: §0 what a "cut" character is; §1 `Row.erase`; §2 `Row.dch`; §3 `Scr.eraseRegion`,
`Scr.dch`; §4 the terminal (`EL0/1/2`, `ED0/1/2`, `ECH`, `DCH`: which rows change and that nothing
else does; `…_cell`: the same cell by cell); examples; `#print axioms`.
All statements are for every row / screen size / cursor / content; the only hypotheses are
`rowWF r = true` (rows) and `t.scr.inv = true` (terminal), which reachable states satisfy.
-/
namespace TM.C05
open TM

/-! ### vocabulary of the statements -/

/-- Column `i` belongs to the character that owns the continuation cell at column `c`
    (`headOf r c` is its first column, `widthAt r (headOf r c)` its width): the character is
    "cut" by a range boundary placed between columns `c - 1` and `c`. False when column `c` is
    not a continuation cell (then no character straddles that boundary). -/
def inCut (r : Row) (c i : Nat) : Prop :=
  contAt r c = true ∧ headOf r c ≤ i ∧ i < headOf r c + widthAt r (headOf r c)

instance (r : Row) (c i : Nat) : Decidable (inCut r c i) :=
  inferInstanceAs (Decidable (contAt r c = true ∧ headOf r c ≤ i ∧ i < headOf r c + widthAt r (headOf r c)))

/-- the cell at column `x` of row `y` of a screen -/
def cell (s : Scr) (x y : Nat) : Option Cell := (s.row y)[x]?

/-! ### helper lemmas: rows -/
namespace Lemmas

theorem length_blankRange (r : Row) (a n : Nat) (st : Style) : (blankRange r a n st).length = r.length := by
  simp [blankRange]

theorem getElem?_blankRange (r : Row) (a n : Nat) (st : Style) (i : Nat) :
    (blankRange r a n st)[i]? = if a ≤ i ∧ i < a + n then (r[i]?).map (fun _ => blank st) else r[i]? := by
  simp only [blankRange, List.getElem?_mapIdx]
  split <;> cases r[i]? <;> simp

theorem contAt_none {r : Row} {x : Nat} (h : r.length ≤ x) : contAt r x = false := by
  simp [contAt, List.getElem?_eq_none h]

theorem contAt_lt {r : Row} {x : Nat} (h : contAt r x = true) : x < r.length := by
  rcases Nat.lt_or_ge x r.length with h1 | h1
  · exact h1
  · rw [contAt_none h1] at h; cases h

/-- `contAt` only looks at the cell -/
theorem contAt_congr {r r' : Row} {x : Nat} (h : r'[x]? = r[x]?) : contAt r' x = contAt r x := by
  simp [contAt, h]

theorem widthAt_congr {r r' : Row} {x : Nat} (h : r'[x]? = r[x]?) : widthAt r' x = widthAt r x := by
  simp [widthAt, h]

theorem contAt_map_blank (r : Row) (x : Nat) (st : Style) {r' : Row}
    (h : r'[x]? = (r[x]?).map (fun _ => blank st)) : contAt r' x = false := by
  simp only [contAt, h]
  cases r[x]? <;> simp [blank]

theorem headOf_le (r : Row) (x : Nat) : headOf r x ≤ x := by
  induction x with
  | zero => simp [headOf]
  | succ x ih => simp only [headOf]; split <;> omega

theorem headOf_cont (r : Row) (x j : Nat) (h1 : headOf r x < j) (h2 : j ≤ x) : contAt r j = true := by
  induction x with
  | zero => omega
  | succ x ih =>
    simp only [headOf] at h1
    by_cases hc : contAt r (x+1) = true
    · rw [if_pos hc] at h1
      rcases Nat.lt_or_ge x j with hj | hj
      · have : j = x + 1 := by omega
        subst this; exact hc
      · exact ih h1 hj
    · rw [if_neg hc] at h1; omega

theorem headOf_stop (r : Row) (x : Nat) : headOf r x = 0 ∨ contAt r (headOf r x) = false := by
  induction x with
  | zero => simp [headOf]
  | succ x ih =>
    simp only [headOf]
    by_cases hc : contAt r (x+1) = true
    · rw [if_pos hc]; exact ih
    · rw [if_neg hc]; right; simpa using hc

theorem headOf_unique (r : Row) (x h : Nat) (hle : h ≤ x)
    (hc : ∀ j, h < j → j ≤ x → contAt r j = true) (hs : h = 0 ∨ contAt r h = false) :
    headOf r x = h := by
  induction x with
  | zero => simp [headOf]; omega
  | succ x ih =>
    simp only [headOf]
    by_cases hx : h = x + 1
    · subst hx
      rcases hs with hs | hs
      · omega
      · simp [hs]
    · have := hc (x+1) (by omega) (by omega)
      rw [if_pos this]
      exact ih (by omega) (fun j a b => hc j a (by omega))

theorem headOf_congr (r r' : Row) (x : Nat)
    (h : ∀ j, headOf r x ≤ j → j ≤ x → contAt r' j = contAt r j) : headOf r' x = headOf r x := by
  apply headOf_unique
  · exact headOf_le r x
  · intro j h1 h2
    rw [h j (by omega) h2]; exact headOf_cont r x j h1 h2
  · rcases headOf_stop r x with h0 | h0
    · left; exact h0
    · right; rw [h _ (Nat.le_refl _) (headOf_le r x)]; exact h0

/-! #### what `rowWF` says -/

theorem wf_cell {r : Row} (hwf : rowWF r = true) {i : Nat} (hi : i < r.length) :
    match r[i]? with
    | some ⟨.ch _ w, _⟩ => 1 ≤ w ∧ i + w ≤ r.length ∧
        (∀ k, k < w - 1 → contAt r (i + 1 + k) = true) ∧ contAt r (i + w) = false
    | some ⟨.cont, _⟩ => 0 < i
    | none => False := by
  unfold rowWF at hwf
  rw [List.all_eq_true] at hwf
  have := hwf i (by simpa using hi)
  revert this
  cases hri : r[i]? with
  | none => simp
  | some c =>
    rcases c with ⟨g, s⟩
    cases g with
    | cont => simp
    | ch t w =>
      simp only [Bool.and_eq_true, decide_eq_true_eq, List.all_eq_true, List.mem_range,
        Bool.not_eq_true']
      intro h
      exact ⟨h.1.1.1, h.1.1.2, h.1.2, h.2⟩

theorem wf_ch {r : Row} (hwf : rowWF r = true) {i : Nat} {t : Bytes} {w : Nat} {s : Style}
    (hi : r[i]? = some ⟨.ch t w, s⟩) :
    1 ≤ w ∧ i + w ≤ r.length ∧ (∀ j, i < j → j < i + w → contAt r j = true) ∧
      contAt r (i + w) = false := by
  have hlt : i < r.length := by
    rcases Nat.lt_or_ge i r.length with h | h
    · exact h
    · rw [List.getElem?_eq_none h] at hi; cases hi
  have := wf_cell hwf hlt
  rw [hi] at this
  refine ⟨this.1, this.2.1, ?_, this.2.2.2⟩
  intro j h1 h2
  have := this.2.2.1 (j - i - 1) (by omega)
  rwa [show i + 1 + (j - i - 1) = j by omega] at this

theorem wf_cont0 {r : Row} (hwf : rowWF r = true) : contAt r 0 = false := by
  rcases Nat.lt_or_ge 0 r.length with h | h
  · have := wf_cell hwf h
    revert this
    unfold contAt
    cases r[0]? with
    | none => simp
    | some c =>
      rcases c with ⟨g, s⟩
      cases g <;> simp
  · exact contAt_none h

/-- the anatomy of a cut character in a well-formed row -/
theorem wf_cut {r : Row} (hwf : rowWF r = true) {c : Nat} (hc : contAt r c = true) :
    ∃ t w s, r[headOf r c]? = some ⟨.ch t w, s⟩ ∧ 2 ≤ w ∧ widthAt r (headOf r c) = w ∧
      headOf r c < c ∧ c < headOf r c + w ∧ headOf r c + w ≤ r.length ∧
      (∀ j, headOf r c < j → j < headOf r c + w → contAt r j = true) ∧
      contAt r (headOf r c) = false ∧ contAt r (headOf r c + w) = false := by
  have hle := headOf_le r c
  have hstop : contAt r (headOf r c) = false := by
    rcases headOf_stop r c with h | h
    · rw [h]; exact wf_cont0 hwf
    · exact h
  have hne : headOf r c ≠ c := by
    intro h; rw [h, hc] at hstop; cases hstop
  have hclt := contAt_lt hc
  have hhd : headOf r c < r.length := by omega
  cases hcell : r[headOf r c]? with
  | none => rw [List.getElem?_eq_none_iff] at hcell; omega
  | some cl =>
    rcases cl with ⟨g, s⟩
    cases g with
    | cont => simp [contAt, hcell] at hstop
    | ch t w =>
      have ⟨h1, h2, h3, h4⟩ := wf_ch hwf hcell
      have hcw : c < headOf r c + w := by
        rcases Nat.lt_or_ge c (headOf r c + w) with h | h
        · exact h
        · have := headOf_cont r c (headOf r c + w) (by omega) h
          rw [this] at h4; cases h4
      refine ⟨t, w, s, rfl, by omega, ?_, by omega, hcw, h2, h3, hstop, h4⟩
      simp [widthAt, hcell]; omega

/-! #### `blankCharAt` on a cut, `blankStraddlers` -/

/-- first half of `blankStraddlers` -/
def cutBlank (r : Row) (c : Nat) (st : Style) : Row := if contAt r c then blankCharAt r c st else r

theorem blankStraddlers_eq (r : Row) (a b : Nat) (st : Style) :
    blankStraddlers r a b st = cutBlank (cutBlank r a st) b st := rfl

theorem length_cutBlank (r : Row) (c : Nat) (st : Style) : (cutBlank r c st).length = r.length := by
  unfold cutBlank blankCharAt
  split
  · simp only []; split
    · rfl
    · exact length_blankRange ..
  · rfl

theorem getElem?_cutBlank (r : Row) (c : Nat) (st : Style) (i : Nat) :
    (cutBlank r c st)[i]? = if inCut r c i then (r[i]?).map (fun _ => blank st) else r[i]? := by
  unfold cutBlank inCut
  by_cases h : contAt r c = true
  · simp [h, blankCharAt, getElem?_blankRange]
  · simp [h]

theorem length_blankStraddlers (r : Row) (a b : Nat) (st : Style) :
    (blankStraddlers r a b st).length = r.length := by
  rw [blankStraddlers_eq, length_cutBlank, length_cutBlank]

theorem blankStraddlers_clean (r : Row) (a b : Nat) (st : Style)
    (ha : contAt r a = false) (hb : contAt r b = false) : blankStraddlers r a b st = r := by
  simp [blankStraddlers, ha, hb]

/-- in a well-formed row the two cut characters are blanked, and nothing else changes -/
theorem getElem?_blankStraddlers {r : Row} (hwf : rowWF r = true) (a b : Nat) (st : Style) (i : Nat) :
    (blankStraddlers r a b st)[i]? =
      if inCut r a i ∨ inCut r b i then (r[i]?).map (fun _ => blank st) else r[i]? := by
  rw [blankStraddlers_eq, getElem?_cutBlank, getElem?_cutBlank]
  by_cases ha : contAt r a = true
  · obtain ⟨t, w, s, hcell, hw2, hwid, hlt, hcw, hlen, hconts, hhd, hend⟩ := wf_cut hwf ha
    -- the cells of the intermediate row
    have hr1 : ∀ j, (cutBlank r a st)[j]? =
        if headOf r a ≤ j ∧ j < headOf r a + w then (r[j]?).map (fun _ => blank st) else r[j]? := by
      intro j; rw [getElem?_cutBlank]; simp [inCut, ha, hwid]
    have hcont1 : ∀ j, contAt (cutBlank r a st) j =
        if headOf r a ≤ j ∧ j < headOf r a + w then false else contAt r j := by
      intro j
      by_cases hj : headOf r a ≤ j ∧ j < headOf r a + w
      · rw [if_pos hj]; apply contAt_map_blank r j st; rw [hr1, if_pos hj]
      · rw [if_neg hj]; apply contAt_congr; rw [hr1, if_neg hj]
    have hia : ∀ j, inCut r a j ↔ (headOf r a ≤ j ∧ j < headOf r a + w) := by
      intro j; simp [inCut, ha, hwid]
    by_cases hb : headOf r a ≤ b ∧ b < headOf r a + w
    · -- `b` lies in the same character: nothing more is blanked
      have h1 : ¬ inCut (cutBlank r a st) b i := by
        intro h; have := h.1; rw [hcont1, if_pos hb] at this; cases this
      have h2 : inCut r b i → inCut r a i := by
        intro h
        have hu : headOf r b = headOf r a := by
          apply headOf_unique
          · exact hb.1
          · intro j j1 j2; exact hconts j j1 (by omega)
          · right; exact hhd
        rw [hia]; have := h.2; rw [hu, hwid] at this; exact this
      rw [if_neg h1]
      by_cases hi : inCut r a i
      · simp [hi]
      · have : ¬ inCut r b i := fun h => hi (h2 h)
        simp [hi, this]
    · -- `b` lies outside: its character is untouched by the first step
      have hcb : contAt (cutBlank r a st) b = contAt r b := by rw [hcont1, if_neg hb]
      have hib : inCut (cutBlank r a st) b i ↔ inCut r b i := by
        by_cases hcb' : contAt r b = true
        · have hout : ∀ j, headOf r b ≤ j → j ≤ b → ¬ (headOf r a ≤ j ∧ j < headOf r a + w) := by
            intro j j1 j2 hj
            rcases Nat.lt_or_ge b (headOf r a) with hb1 | hb1
            · omega
            · have hb2 : headOf r a + w ≤ b := by omega
              -- the cell after the first character is not a continuation, so `headOf r b` is beyond it
              have : headOf r a + w ≤ headOf r b := by
                rcases Nat.lt_or_ge (headOf r b) (headOf r a + w) with h | h
                · have := headOf_cont r b (headOf r a + w) h hb2
                  rw [this] at hend; cases hend
                · exact h
              omega
          have hh : headOf (cutBlank r a st) b = headOf r b := by
            apply headOf_congr
            intro j j1 j2
            rw [hcont1, if_neg (hout j j1 j2)]
          have hw : widthAt (cutBlank r a st) (headOf r b) = widthAt r (headOf r b) := by
            apply widthAt_congr
            rw [hr1, if_neg (hout _ (Nat.le_refl _) (headOf_le r b))]
          simp only [inCut, hcb, hh, hw]
        · simp only [inCut, hcb, hcb']; simp
      by_cases hi : inCut r a i <;> by_cases hi' : inCut r b i <;>
        simp [hi, hi', hib] <;> cases r[i]? <;> simp
  · have : cutBlank r a st = r := by simp [cutBlank, ha]
    have hna : ¬ inCut r a i := fun h => ha h.1
    rw [this]; simp [hna]

/-- every boundary inside the same character cuts the same character -/
theorem inCut_same {r : Row} (hwf : rowWF r = true) {c i : Nat} (h : inCut r c i) (c' : Nat)
    (h1 : headOf r c < c') (h2 : c' < headOf r c + widthAt r (headOf r c)) : inCut r c' i := by
  obtain ⟨t, w, s, hcell, hw2, hwid, hlt, hcw, hlen, hconts, hhd, hend⟩ := wf_cut hwf h.1
  rw [hwid] at h2
  have hc' : contAt r c' = true := hconts c' h1 h2
  have hu : headOf r c' = headOf r c := by
    apply headOf_unique
    · omega
    · intro j j1 j2; exact hconts j j1 (by omega)
    · right; exact hhd
  refine ⟨hc', ?_, ?_⟩
  · rw [hu]; exact h.2.1
  · rw [hu]; exact h.2.2

theorem inCut_min (r : Row) (b i : Nat) : inCut r (min b r.length) i ↔ inCut r b i := by
  rcases Nat.le_total b r.length with h | h
  · rw [Nat.min_eq_left h]
  · rw [Nat.min_eq_right h]; simp [inCut, contAt_none (Nat.le_refl _), contAt_none h]

theorem inCut_lt_length {r : Row} (hwf : rowWF r = true) {c i : Nat} (h : inCut r c i) : i < r.length := by
  obtain ⟨t, w, s, hcell, hw2, hwid, hlt, hcw, hlen, hconts, hhd, hend⟩ := wf_cut hwf h.1
  have := h.2.2; rw [hwid] at this; omega

/-! #### `Row.erase`, `Row.dch` -/

theorem length_erase (r : Row) (a b : Nat) (st : Style) : (r.erase a b st).length = r.length := by
  unfold Row.erase
  simp only []
  split
  · rfl
  · rw [length_blankRange, length_blankStraddlers]

theorem getElem?_erase {r : Row} (hwf : rowWF r = true) (a b : Nat) (st : Style)
    (hab : a < min b r.length) (i : Nat) :
    (r.erase a b st)[i]? =
      if (a ≤ i ∧ i < b) ∨ inCut r a i ∨ inCut r b i then (r[i]?).map (fun _ => blank st) else r[i]? := by
  unfold Row.erase
  simp only []
  rw [if_neg (by omega), getElem?_blankRange, getElem?_blankStraddlers hwf]
  by_cases hi : i < r.length
  · have h1 : (a ≤ i ∧ i < a + (min b r.length - a)) ↔ (a ≤ i ∧ i < b) := by omega
    simp only [h1, inCut_min]
    by_cases h2 : a ≤ i ∧ i < b <;> by_cases h3 : inCut r a i ∨ inCut r b i <;>
      simp [h2, h3] <;> cases r[i]? <;> simp
  · have : r[i]? = none := List.getElem?_eq_none (by omega)
    simp [this]

theorem getElem?_dch_raw (r : Row) (x n : Nat) (st : Style) (hx : x < r.length) (hn : 0 < n) (i : Nat) :
    (r.dch x n st)[i]? =
      if i < x then (blankStraddlers r x (x + min n (r.length - x)) st)[i]?
      else if i < r.length - min n (r.length - x) then
        (blankStraddlers r x (x + min n (r.length - x)) st)[i + min n (r.length - x)]?
      else if i < r.length then some (blank st) else none := by
  unfold Row.dch
  simp only []
  rw [if_neg (by omega)]
  have hl := length_blankStraddlers r x (x + min n (r.length - x)) st
  generalize blankStraddlers r x (x + min n (r.length - x)) st = r1 at hl ⊢
  generalize hn' : min n (r.length - x) = n'
  have hn1 : 0 < n' := by omega
  have hn2 : x + n' ≤ r.length := by omega
  simp only [List.getElem?_append, List.length_append, List.length_take, List.length_drop,
    List.getElem?_take, List.getElem?_drop, List.getElem?_replicate, hl]
  by_cases h1 : i < x
  · have : i < min x r.length + (r.length - (x + n')) := by omega
    simp [h1, this]
    intro h; omega
  · by_cases h2 : i < r.length - n'
    · have h3 : i < min x r.length + (r.length - (x + n')) := by omega
      have h4 : ¬ i < min x r.length := by omega
      have h5 : x + n' + (i - min x r.length) = i + n' := by omega
      simp [h1, h2, h3, h4, h5]
    · have h3 : ¬ i < min x r.length + (r.length - (x + n')) := by omega
      by_cases h4 : i < r.length
      · have : i - (min x r.length + (r.length - (x + n'))) < n' := by omega
        simp [h1, h2, h3, h4, this]
      · have : ¬ i - (min x r.length + (r.length - (x + n'))) < n' := by omega
        simp [h1, h2, h3, h4, this]

end Lemmas
open Lemmas

/-! ## 0. what "the character cut at column `c`" is, in a well-formed row -/

/-- In a well-formed row, when column `c` is a continuation cell, the set `{i | inCut r c i}` is
    exactly one character: it starts with a head cell `ch t w` of width `w ≥ 2` at `headOf r c`,
    all its other cells are continuation cells, it contains both `c - 1` and `c` (so it really
    straddles the boundary), it fits in the row, and the cell after it is not a continuation. -/
theorem cut_is_wide_char {r : Row} (hwf : rowWF r = true) {c : Nat} (hc : contAt r c = true) :
    ∃ t w s, r[headOf r c]? = some ⟨.ch t w, s⟩ ∧ 2 ≤ w ∧
      (∀ i, inCut r c i ↔ (headOf r c ≤ i ∧ i < headOf r c + w)) ∧
      headOf r c ≤ c - 1 ∧ c < headOf r c + w ∧ headOf r c + w ≤ r.length ∧
      (∀ j, headOf r c < j → j < headOf r c + w → contAt r j = true) ∧
      contAt r (headOf r c + w) = false := by
  obtain ⟨t, w, s, hcell, hw2, hwid, hlt, hcw, hlen, hconts, hhd, hend⟩ := wf_cut hwf hc
  refine ⟨t, w, s, hcell, hw2, ?_, by omega, hcw, hlen, hconts, hend⟩
  intro i; simp [inCut, hc, hwid]

/-- no character is cut at a column that is not a continuation cell (in particular at column 0
    and at or beyond the right edge of a well-formed row) -/
theorem not_inCut_of_not_cont {r : Row} {c : Nat} (h : contAt r c = false) (i : Nat) : ¬ inCut r c i := by
  intro hi; rw [hi.1] at h; cases h

theorem not_inCut_zero {r : Row} (hwf : rowWF r = true) (i : Nat) : ¬ inCut r 0 i :=
  not_inCut_of_not_cont (wf_cont0 hwf) i

theorem not_inCut_edge {r : Row} {c : Nat} (h : r.length ≤ c) (i : Nat) : ¬ inCut r c i :=
  not_inCut_of_not_cont (contAt_none h) i

/-! ## 1. `Row.erase` -/

theorem erase_length (r : Row) (a b : Nat) (st : Style) : (r.erase a b st).length = r.length :=
  length_erase r a b st

/-- an empty range (after clipping to the row) changes nothing at all -/
theorem erase_empty (r : Row) (a b : Nat) (st : Style) (h : min b r.length ≤ a) : r.erase a b st = r := by
  unfold Row.erase; simp only []; rw [if_pos h]

/-- every cell of `[a, b)` inside the row becomes a blank in the given style (no well-formedness
    needed) -/
theorem erase_inside (r : Row) (a b : Nat) (st : Style) (i : Nat) (ha : a ≤ i) (hb : i < b)
    (hi : i < r.length) : (r.erase a b st)[i]? = some (blank st) := by
  unfold Row.erase
  simp only []
  rw [if_neg (by omega), getElem?_blankRange, if_pos (by omega)]
  have : i < (blankStraddlers r a (min b r.length) st).length := by rw [length_blankStraddlers]; exact hi
  rw [List.getElem?_eq_getElem this]; rfl

/-- the complete description of the erased row: a cell is blanked iff it is in the range or
    belongs to a wide character cut by one of the two boundaries; otherwise it is the old cell -/
theorem erase_cells {r : Row} (hwf : rowWF r = true) (a b : Nat) (st : Style)
    (hab : a < min b r.length) (i : Nat) (hi : i < r.length) :
    (r.erase a b st)[i]? =
      some (if (a ≤ i ∧ i < b) ∨ inCut r a i ∨ inCut r b i then blank st else r[i]) := by
  rw [getElem?_erase hwf a b st hab, List.getElem?_eq_getElem hi]
  split <;> rfl

/-- cells left of a non-empty range: blanked iff part of the character cut by the left boundary -/
theorem erase_left {r : Row} (hwf : rowWF r = true) (a b : Nat) (st : Style)
    (hab : a < min b r.length) (i : Nat) (hi : i < a) :
    (r.erase a b st)[i]? = if inCut r a i then some (blank st) else r[i]? := by
  have hil : i < r.length := by omega
  rw [erase_cells hwf a b st hab i hil, List.getElem?_eq_getElem hil]
  have h1 : ¬ (a ≤ i ∧ i < b) := by omega
  have h2 : inCut r b i → inCut r a i := by
    intro h
    obtain ⟨t, w, s, hcell, hw2, hwid, hlt, hcw, hlen, hconts, hhd, hend⟩ := wf_cut hwf h.1
    apply inCut_same hwf h
    · have := h.2.1; omega
    · rw [hwid]; omega
  by_cases h3 : inCut r a i
  · simp [h3]
  · have : ¬ inCut r b i := fun h => h3 (h2 h)
    simp [h1, h3, this]

/-- cells right of a non-empty range: blanked iff part of the character cut by the right boundary -/
theorem erase_right {r : Row} (hwf : rowWF r = true) (a b : Nat) (st : Style)
    (hab : a < min b r.length) (i : Nat) (hi : b ≤ i) (hil : i < r.length) :
    (r.erase a b st)[i]? = if inCut r b i then some (blank st) else r[i]? := by
  rw [erase_cells hwf a b st hab i hil, List.getElem?_eq_getElem hil]
  have h1 : ¬ (a ≤ i ∧ i < b) := by omega
  have h2 : inCut r a i → inCut r b i := by
    intro h
    obtain ⟨t, w, s, hcell, hw2, hwid, hlt, hcw, hlen, hconts, hhd, hend⟩ := wf_cut hwf h.1
    apply inCut_same hwf h
    · omega
    · have := h.2.2; omega
  by_cases h3 : inCut r b i
  · simp [h3]
  · have : ¬ inCut r a i := fun h => h3 (h2 h)
    simp [h1, h3, this]

/-- every cell that is neither in the range nor part of a cut character is unchanged (any range,
    empty or not) -/
theorem erase_unchanged {r : Row} (hwf : rowWF r = true) (a b : Nat) (st : Style) (i : Nat)
    (h1 : ¬ (a ≤ i ∧ i < b)) (h2 : ¬ inCut r a i) (h3 : ¬ inCut r b i) :
    (r.erase a b st)[i]? = r[i]? := by
  rcases Nat.lt_or_ge a (min b r.length) with hab | hab
  · rw [getElem?_erase hwf a b st hab]; simp [h1, h2, h3]
  · rw [erase_empty r a b st hab]

/-- a cut character is blanked whole (non-empty range) -/
theorem erase_cut_blanked {r : Row} (hwf : rowWF r = true) (a b : Nat) (st : Style)
    (hab : a < min b r.length) (i : Nat) (h : inCut r a i ∨ inCut r b i) :
    (r.erase a b st)[i]? = some (blank st) := by
  have hil : i < r.length := by
    rcases h with h | h <;> exact inCut_lt_length hwf h
  rw [erase_cells hwf a b st hab i hil]; simp [h]

/-- clean case, no well-formedness needed: when neither boundary falls inside a wide character
    the result is exactly "blank on `[a,b)`, old cell elsewhere" -/
theorem erase_cells_clean (r : Row) (a b : Nat) (st : Style)
    (ha : contAt r a = false) (hb : contAt r b = false) (i : Nat) (hi : i < r.length) :
    (r.erase a b st)[i]? = some (if a ≤ i ∧ i < b then blank st else r[i]) := by
  have hb' : contAt r (min b r.length) = false := by
    rcases Nat.le_total b r.length with h | h
    · rw [Nat.min_eq_left h]; exact hb
    · rw [Nat.min_eq_right h]; exact contAt_none (Nat.le_refl _)
  unfold Row.erase
  simp only []
  split
  · have : ¬ (a ≤ i ∧ i < b) := by omega
    rw [if_neg this, List.getElem?_eq_getElem hi]
  · rw [blankStraddlers_clean r a _ st ha hb', getElem?_blankRange, List.getElem?_eq_getElem hi]
    have : (a ≤ i ∧ i < a + (min b r.length - a)) ↔ (a ≤ i ∧ i < b) := by omega
    simp only [this]
    split <;> rfl

/-! ## 2. `Row.dch` -/

theorem dch_length (r : Row) (x n : Nat) (st : Style) : (r.dch x n st).length = r.length := by
  unfold Row.dch
  simp only []
  split
  · rfl
  · simp [length_blankStraddlers]; omega

/-- deleting nothing, or at a column outside the row, is the identity -/
theorem dch_id (r : Row) (x n : Nat) (st : Style) (h : r.length ≤ x ∨ n = 0) : r.dch x n st = r := by
  unfold Row.dch; simp only []; rw [if_pos h]

/-- cells left of the cursor stay, except the character cut by the cursor column (blanked) -/
theorem dch_left {r : Row} (hwf : rowWF r = true) (x n : Nat) (st : Style)
    (hx : x < r.length) (hn : 0 < n) (i : Nat) (hi : i < x) :
    (r.dch x n st)[i]? = if inCut r x i then some (blank st) else r[i]? := by
  have hil : i < r.length := by omega
  rw [getElem?_dch_raw r x n st hx hn, if_pos hi, getElem?_blankStraddlers hwf,
    List.getElem?_eq_getElem hil]
  have h2 : inCut r (x + min n (r.length - x)) i → inCut r x i := by
    intro h
    obtain ⟨t, w, s, hcell, hw2, hwid, hlt, hcw, hlen, hconts, hhd, hend⟩ := wf_cut hwf h.1
    apply inCut_same hwf h
    · have := h.2.1; omega
    · rw [hwid]; omega
  by_cases h3 : inCut r x i
  · simp [h3]
  · have : ¬ inCut r (x + min n (r.length - x)) i := fun h => h3 (h2 h)
    simp [h3, this]

/-- the cells from the cursor on are the old cells `n'` columns to the right
    (`n' = min n (W - x)`), a character cut by the end of the deleted range being blanked -/
theorem dch_shift {r : Row} (hwf : rowWF r = true) (x n : Nat) (st : Style)
    (hx : x < r.length) (hn : 0 < n) (i : Nat) (hi : x ≤ i) (hi2 : i < r.length - min n (r.length - x)) :
    (r.dch x n st)[i]? =
      if inCut r (x + min n (r.length - x)) (i + min n (r.length - x)) then some (blank st)
      else r[i + min n (r.length - x)]? := by
  have hil : i + min n (r.length - x) < r.length := by omega
  rw [getElem?_dch_raw r x n st hx hn, if_neg (by omega), if_pos hi2, getElem?_blankStraddlers hwf,
    List.getElem?_eq_getElem hil]
  have h2 : inCut r x (i + min n (r.length - x)) →
      inCut r (x + min n (r.length - x)) (i + min n (r.length - x)) := by
    intro h
    obtain ⟨t, w, s, hcell, hw2, hwid, hlt, hcw, hlen, hconts, hhd, hend⟩ := wf_cut hwf h.1
    apply inCut_same hwf h
    · omega
    · have := h.2.2; omega
  by_cases h3 : inCut r (x + min n (r.length - x)) (i + min n (r.length - x))
  · simp [h3]
  · have : ¬ inCut r x (i + min n (r.length - x)) := fun h => h3 (h2 h)
    simp [h3, this]

/-- the last `n'` cells are blanks in the given style (no well-formedness needed) -/
theorem dch_tail (r : Row) (x n : Nat) (st : Style) (hx : x < r.length) (hn : 0 < n) (i : Nat)
    (hi : r.length - min n (r.length - x) ≤ i) (hil : i < r.length) :
    (r.dch x n st)[i]? = some (blank st) := by
  rw [getElem?_dch_raw r x n st hx hn, if_neg (by omega), if_neg (by omega), if_pos hil]

/-- clean case, no well-formedness needed: no wide character at either end of the deleted range -/
theorem dch_cells_clean (r : Row) (x n : Nat) (st : Style) (hx : x < r.length) (hn : 0 < n)
    (ha : contAt r x = false) (hb : contAt r (x + min n (r.length - x)) = false) (i : Nat) (hi : i < r.length) :
    (r.dch x n st)[i]? =
      if i < x then r[i]?
      else if i < r.length - min n (r.length - x) then r[i + min n (r.length - x)]?
      else some (blank st) := by
  rw [getElem?_dch_raw r x n st hx hn, blankStraddlers_clean r x _ st ha hb]
  simp [hi]

/-! ## 3. screens -/

/-- everything of a screen that is neither cell content nor cursor: size, number of rows, saved
    cursor, margins, autowrap, current style -/
def sameGeom (s s' : Scr) : Prop :=
  s'.w = s.w ∧ s'.h = s.h ∧ s'.grid.length = s.grid.length ∧ s'.sx = s.sx ∧ s'.sy = s.sy ∧
  s'.top = s.top ∧ s'.bot = s.bot ∧ s'.wrap = s.wrap ∧ s'.sty = s.sty

def sameCursor (s s' : Scr) : Prop := s'.cx = s.cx ∧ s'.cy = s.cy

namespace Lemmas

theorem sameGeom_refl (s : Scr) : sameGeom s s := by simp [sameGeom]

theorem sameGeom_trans {a b c : Scr} (h1 : sameGeom a b) (h2 : sameGeom b c) : sameGeom a c := by
  unfold sameGeom at *
  obtain ⟨a1, a2, a3, a4, a5, a6, a7, a8, a9⟩ := h1
  obtain ⟨b1, b2, b3, b4, b5, b6, b7, b8, b9⟩ := h2
  exact ⟨b1.trans a1, b2.trans a2, b3.trans a3, b4.trans a4, b5.trans a5, b6.trans a6,
    b7.trans a7, b8.trans a8, b9.trans a9⟩

theorem erase_nil (a b : Nat) (st : Style) : Row.erase [] a b st = [] := by
  apply List.eq_nil_of_length_eq_zero; rw [length_erase]; rfl

theorem dch_nil (x n : Nat) (st : Style) : Row.dch [] x n st = [] := by
  apply List.eq_nil_of_length_eq_zero; rw [dch_length]; rfl

theorem erase_min (r : Row) (a b : Nat) (st : Style) : r.erase a (min b r.length) st = r.erase a b st := by
  unfold Row.erase
  simp only [Nat.min_assoc, Nat.min_self]

theorem row_eq (s : Scr) (y : Nat) : s.row y = (s.grid[y]?).getD [] := by
  simp [Scr.row]

theorem inv_facts {s : Scr} (h : s.inv = true) :
    1 ≤ s.w ∧ 1 ≤ s.h ∧ s.grid.length = s.h ∧ s.cx < s.w ∧ s.cy < s.h ∧
    ∀ y, y < s.h → (s.row y).length = s.w ∧ rowWF (s.row y) = true := by
  simp only [Scr.inv, Bool.and_eq_true, decide_eq_true_eq, List.all_eq_true] at h
  obtain ⟨⟨⟨⟨⟨⟨⟨⟨⟨h1, h2⟩, h3⟩, h4⟩, h5⟩, h6⟩, _⟩, _⟩, _⟩, _⟩ := h
  refine ⟨h1, h2, h3, h5, h6, ?_⟩
  intro y hy
  have hy' : y < s.grid.length := by omega
  have := h4 (s.grid[y]) (List.getElem_mem hy')
  rw [row_eq, List.getElem?_eq_getElem hy']
  exact this

end Lemmas

/-- `eraseRegion` touches only rows `y1 ≤ y < y2`, and each of them by `Row.erase x1 x2` in the
    current style (holds for every `y`, also beyond the screen where rows are empty) -/
theorem eraseRegion_row (s : Scr) (x1 y1 x2 y2 y : Nat) :
    (s.eraseRegion x1 y1 x2 y2).row y =
      if y1 ≤ y ∧ y < y2 then (s.row y).erase x1 x2 s.sty else s.row y := by
  simp only [row_eq, Scr.eraseRegion, List.getElem?_mapIdx]
  cases s.grid[y]? with
  | none => simp [erase_nil]
  | some r => split <;> simp

/-- nothing but cell contents changes: cursor, saved cursor, margins, size, style, autowrap and
    the number of rows are the same -/
theorem eraseRegion_frame (s : Scr) (x1 y1 x2 y2 : Nat) :
    sameGeom s (s.eraseRegion x1 y1 x2 y2) ∧ sameCursor s (s.eraseRegion x1 y1 x2 y2) := by
  simp [sameGeom, sameCursor, Scr.eraseRegion]

/-- rows keep their length -/
theorem eraseRegion_row_length (s : Scr) (x1 y1 x2 y2 y : Nat) :
    ((s.eraseRegion x1 y1 x2 y2).row y).length = (s.row y).length := by
  rw [eraseRegion_row]; split
  · exact erase_length ..
  · rfl

/-- cell level: on a screen satisfying the invariant, a non-empty column range `x1 < x2 ≤ w`
    blanks exactly the cells of rows `[y1,y2)` that are in `[x1,x2)` or belong to a wide character
    cut by `x1` or `x2` in that row; every other cell of the screen is the old cell -/
theorem eraseRegion_cell {s : Scr} (hinv : s.inv = true) (x1 y1 x2 y2 : Nat)
    (hx : x1 < x2) (hx2 : x2 ≤ s.w) (x y : Nat) (hxw : x < s.w) (hy : y < s.h) :
    cell (s.eraseRegion x1 y1 x2 y2) x y =
      if y1 ≤ y ∧ y < y2 ∧ ((x1 ≤ x ∧ x < x2) ∨ inCut (s.row y) x1 x ∨ inCut (s.row y) x2 x)
      then some (blank s.sty) else cell s x y := by
  obtain ⟨_, _, _, _, _, hrows⟩ := inv_facts hinv
  obtain ⟨hlen, hwf⟩ := hrows y hy
  unfold cell
  rw [eraseRegion_row]
  by_cases hyy : y1 ≤ y ∧ y < y2
  · rw [if_pos hyy, erase_cells hwf x1 x2 s.sty (by omega) x (by omega)]
    rw [List.getElem?_eq_getElem (by omega : x < (s.row y).length)]
    by_cases hc : (x1 ≤ x ∧ x < x2) ∨ inCut (s.row y) x1 x ∨ inCut (s.row y) x2 x
    · rw [if_pos hc, if_pos ⟨hyy.1, hyy.2, hc⟩]
    · rw [if_neg hc, if_neg (fun h => hc h.2.2)]
  · rw [if_neg hyy, if_neg (fun h => hyy ⟨h.1, h.2.1⟩)]

/-- an empty column range changes nothing -/
theorem eraseRegion_empty_cols (s : Scr) (x1 y1 x2 y2 : Nat) (hx : x2 ≤ x1) :
    s.eraseRegion x1 y1 x2 y2 = s := by
  have : s.grid.mapIdx (fun y r => if y1 ≤ y ∧ y < y2 then r.erase x1 x2 s.sty else r) = s.grid := by
    apply List.ext_getElem?
    intro y
    rw [List.getElem?_mapIdx]
    cases s.grid[y]? with
    | none => rfl
    | some r =>
      simp only [Option.map_some]
      split
      · rw [erase_empty r x1 x2 s.sty (by omega)]
      · rfl
  unfold Scr.eraseRegion
  rw [this]

/-- `Scr.dch` changes only the cursor row, by `Row.dch` at the cursor column -/
theorem scr_dch_row (s : Scr) (n y : Nat) :
    (s.dch n).row y = if y = s.cy then (s.row y).dch s.cx n s.sty else s.row y := by
  simp only [row_eq, Scr.dch, Scr.setRow, List.getElem?_set]
  by_cases hy : y = s.cy
  · subst hy
    simp only [if_true]
    by_cases hl : s.cy < s.grid.length
    · simp [hl]
    · simp [hl, dch_nil]
  · have : ¬ s.cy = y := fun h => hy h.symm
    simp [hy, this]

theorem scr_dch_frame (s : Scr) (n : Nat) : sameGeom s (s.dch n) ∧ sameCursor s (s.dch n) := by
  simp [sameGeom, sameCursor, Scr.dch, Scr.setRow]

theorem scr_dch_row_length (s : Scr) (n y : Nat) : ((s.dch n).row y).length = (s.row y).length := by
  rw [scr_dch_row]; split
  · exact dch_length ..
  · rfl

/-! ## 4. terminal: `CSI … K / J / X / P` -/

/-- everything of the terminal except the active screen: which buffer is active, the inactive
    buffer, the view state and the keyboard stacks -/
def sameRest (t t' : Term) : Prop :=
  t'.onAlt = t.onAlt ∧ (if t.onAlt then t'.main = t.main else t'.alt = t.alt) ∧ t'.pol = t.pol ∧
  t'.vflags = t.vflags ∧ t'.vints = t.vints ∧ t'.vstrs = t.vstrs ∧ t'.kmain = t.kmain ∧
  t'.kalt = t.kalt

/-- `t'` is `t` with every row `y` of the active screen replaced by `f y (old row y)`; size,
    number of rows, saved cursor, margins, autowrap and style of the active screen, the inactive
    buffer and all other terminal state are unchanged -/
structure OnlyRows (t t' : Term) (f : Nat → Row → Row) : Prop where
  rest : sameRest t t'
  geom : sameGeom t.scr t'.scr
  rows : ∀ y, t'.scr.row y = f y (t.scr.row y)

/-- the terminal after the unprefixed sequence `CSI ps fin` -/
abbrev after (t : Term) (ps : List Int) (fin : UInt8) : Term := (t.csiPlain ps fin).1

namespace Lemmas

theorem scr_setScr (t : Term) (s : Scr) : (t.setScr s).scr = s := by
  unfold Term.setScr Term.scr; cases h : t.onAlt <;> simp

theorem sameRest_setScr (t : Term) (s : Scr) : sameRest t (t.setScr s) := by
  unfold sameRest Term.setScr; cases h : t.onAlt <;> simp

theorem sameRest_refl (t : Term) : sameRest t t := by
  unfold sameRest; cases h : t.onAlt <;> simp

theorem onlyRows_setScr {t : Term} {s' : Scr} {f : Nat → Row → Row} (hg : sameGeom t.scr s')
    (hr : ∀ y, s'.row y = f y (t.scr.row y)) : OnlyRows t (t.setScr s') f :=
  ⟨sameRest_setScr t s', by rw [scr_setScr]; exact hg, by intro y; rw [scr_setScr]; exact hr y⟩

theorem eraseRegionI_eq (s : Scr) (X1 Y1 X2 Y2 : Int) (x1 y1 x2 y2 : Nat)
    (h1 : clampNat X1 s.w = x1) (h2 : clampNat Y1 s.h = y1)
    (h3 : max (clampNat X2 s.w) x1 = x2) (h4 : max (clampNat Y2 s.h) y1 = y2) :
    s.eraseRegionI X1 Y1 X2 Y2 = s.eraseRegion x1 y1 x2 y2 := by
  subst h1 h2 h3 h4; rfl

theorem row_nil {s : Scr} {y : Nat} (h : s.grid.length ≤ y) : s.row y = [] := by
  rw [row_eq, List.getElem?_eq_none h]; rfl

end Lemmas

/-- the statements below are about `Term.csiPlain`; this is how a parsed token reaches it -/
theorem apply_csi (cw : Nat → Nat) (t : Term) (ps : List Int) (fin : UInt8) :
    (t.apply cw (.csi 0 ps true fin)).1 = after t ps fin := by
  simp [Term.apply, Term.csi, after]

/-! ### EL -/

/-- EL 0 (`CSI K`, `CSI 0 K`): only row `cy` changes, to `Row.erase cx w` in the current style -/
theorem EL0 (t : Term) (ps : List Int) (hp : p0 ps 0 = 0) (hinv : t.scr.inv = true) :
    OnlyRows t (after t ps 0x4b)
      (fun y r => if y = t.scr.cy then r.erase t.scr.cx t.scr.w t.scr.sty else r) ∧
    sameCursor t.scr (after t ps 0x4b).scr := by
  obtain ⟨hw, hh, hgl, hcx, hcy, hrows⟩ := inv_facts hinv
  have e : t.scr.eraseRegionI t.scr.cx t.scr.cy t.scr.w ((t.scr.cy : Int) + 1) =
      t.scr.eraseRegion t.scr.cx t.scr.cy t.scr.w (t.scr.cy + 1) := by
    apply eraseRegionI_eq <;> unfold clampNat <;> omega
  have : after t ps 0x4b = t.setScr (t.scr.eraseRegion t.scr.cx t.scr.cy t.scr.w (t.scr.cy + 1)) := by
    simp [after, Term.csiPlain, hp, e]
  rw [this]
  refine ⟨onlyRows_setScr (eraseRegion_frame ..).1 ?_, by rw [scr_setScr]; exact (eraseRegion_frame ..).2⟩
  intro y
  rw [eraseRegion_row]
  have : (t.scr.cy ≤ y ∧ y < t.scr.cy + 1) ↔ y = t.scr.cy := by omega
  simp only [this]

/-- EL 1 (`CSI 1 K`): only row `cy` changes, to `Row.erase 0 (cx+1)` (cursor column included) -/
theorem EL1 (t : Term) (ps : List Int) (hp : p0 ps 0 = 1) (hinv : t.scr.inv = true) :
    OnlyRows t (after t ps 0x4b)
      (fun y r => if y = t.scr.cy then r.erase 0 (t.scr.cx + 1) t.scr.sty else r) ∧
    sameCursor t.scr (after t ps 0x4b).scr := by
  obtain ⟨hw, hh, hgl, hcx, hcy, hrows⟩ := inv_facts hinv
  have e : t.scr.eraseRegionI 0 t.scr.cy ((t.scr.cx : Int) + 1) ((t.scr.cy : Int) + 1) =
      t.scr.eraseRegion 0 t.scr.cy (t.scr.cx + 1) (t.scr.cy + 1) := by
    apply eraseRegionI_eq <;> unfold clampNat <;> omega
  have : after t ps 0x4b = t.setScr (t.scr.eraseRegion 0 t.scr.cy (t.scr.cx + 1) (t.scr.cy + 1)) := by
    simp [after, Term.csiPlain, hp, e]
  rw [this]
  refine ⟨onlyRows_setScr (eraseRegion_frame ..).1 ?_, by rw [scr_setScr]; exact (eraseRegion_frame ..).2⟩
  intro y
  rw [eraseRegion_row]
  have : (t.scr.cy ≤ y ∧ y < t.scr.cy + 1) ↔ y = t.scr.cy := by omega
  simp only [this]

/-- EL 2 (`CSI 2 K`): only row `cy` changes, to `Row.erase 0 w` -/
theorem EL2 (t : Term) (ps : List Int) (hp : p0 ps 0 = 2) (hinv : t.scr.inv = true) :
    OnlyRows t (after t ps 0x4b)
      (fun y r => if y = t.scr.cy then r.erase 0 t.scr.w t.scr.sty else r) ∧
    sameCursor t.scr (after t ps 0x4b).scr := by
  obtain ⟨hw, hh, hgl, hcx, hcy, hrows⟩ := inv_facts hinv
  have e : t.scr.eraseRegionI 0 t.scr.cy t.scr.w ((t.scr.cy : Int) + 1) =
      t.scr.eraseRegion 0 t.scr.cy t.scr.w (t.scr.cy + 1) := by
    apply eraseRegionI_eq <;> unfold clampNat <;> omega
  have : after t ps 0x4b = t.setScr (t.scr.eraseRegion 0 t.scr.cy t.scr.w (t.scr.cy + 1)) := by
    simp [after, Term.csiPlain, hp, e]
  rw [this]
  refine ⟨onlyRows_setScr (eraseRegion_frame ..).1 ?_, by rw [scr_setScr]; exact (eraseRegion_frame ..).2⟩
  intro y
  rw [eraseRegion_row]
  have : (t.scr.cy ≤ y ∧ y < t.scr.cy + 1) ↔ y = t.scr.cy := by omega
  simp only [this]

/-- any other EL parameter changes nothing at all -/
theorem EL_other (t : Term) (ps : List Int) (h0 : p0 ps 0 ≠ 0) (h1 : p0 ps 0 ≠ 1) (h2 : p0 ps 0 ≠ 2) :
    after t ps 0x4b = t := by
  simp [after, Term.csiPlain, h0, h1, h2]

/-! ### ED -/

/-- ED 0 (`CSI J`, `CSI 0 J`): row `cy` is erased from the cursor on, every row below it is erased
    entirely, rows above are untouched; cursor unchanged. The row condition is `cy < y` with no
    reference to the width, so tall screens (`h > w`) are covered to the last row. -/
theorem ED0 (t : Term) (ps : List Int) (hp : p0 ps 0 = 0) (hinv : t.scr.inv = true) :
    OnlyRows t (after t ps 0x4a)
      (fun y r => if y = t.scr.cy then r.erase t.scr.cx t.scr.w t.scr.sty
                  else if t.scr.cy < y then r.erase 0 t.scr.w t.scr.sty else r) ∧
    sameCursor t.scr (after t ps 0x4a).scr := by
  obtain ⟨hw, hh, hgl, hcx, hcy, hrows⟩ := inv_facts hinv
  have e1 : t.scr.eraseRegionI t.scr.cx t.scr.cy t.scr.w ((t.scr.cy : Int) + 1) =
      t.scr.eraseRegion t.scr.cx t.scr.cy t.scr.w (t.scr.cy + 1) := by
    apply eraseRegionI_eq <;> unfold clampNat <;> omega
  have e2 : (t.scr.eraseRegion t.scr.cx t.scr.cy t.scr.w (t.scr.cy + 1)).eraseRegionI 0
        ((t.scr.cy : Int) + 1) t.scr.w t.scr.h =
      (t.scr.eraseRegion t.scr.cx t.scr.cy t.scr.w (t.scr.cy + 1)).eraseRegion 0 (t.scr.cy + 1)
        t.scr.w t.scr.h := by
    apply eraseRegionI_eq <;> simp only [Scr.eraseRegion, clampNat] <;> omega
  have : after t ps 0x4a = t.setScr ((t.scr.eraseRegion t.scr.cx t.scr.cy t.scr.w (t.scr.cy + 1)).eraseRegion
      0 (t.scr.cy + 1) t.scr.w t.scr.h) := by
    simp [after, Term.csiPlain, hp, e1, e2]
  rw [this]
  refine ⟨onlyRows_setScr (sameGeom_trans (eraseRegion_frame ..).1 (eraseRegion_frame ..).1) ?_, ?_⟩
  · intro y
    rw [eraseRegion_row, eraseRegion_row]
    show (if t.scr.cy + 1 ≤ y ∧ y < t.scr.h then
        (if t.scr.cy ≤ y ∧ y < t.scr.cy + 1 then (t.scr.row y).erase t.scr.cx t.scr.w t.scr.sty
          else t.scr.row y).erase 0 t.scr.w t.scr.sty
        else if t.scr.cy ≤ y ∧ y < t.scr.cy + 1 then (t.scr.row y).erase t.scr.cx t.scr.w t.scr.sty
          else t.scr.row y) = _
    by_cases h1 : y = t.scr.cy
    · have a1 : ¬ (t.scr.cy + 1 ≤ y ∧ y < t.scr.h) := by omega
      have a2 : t.scr.cy ≤ y ∧ y < t.scr.cy + 1 := by omega
      simp only [if_neg a1, if_pos a2, if_pos h1]
    · have a2 : ¬ (t.scr.cy ≤ y ∧ y < t.scr.cy + 1) := by omega
      simp only [if_neg a2, if_neg h1]
      by_cases h2 : t.scr.cy < y
      · rw [if_pos h2]
        by_cases h3 : y < t.scr.h
        · rw [if_pos ⟨by omega, h3⟩]
        · rw [if_neg (fun h => h3 h.2), row_nil (by omega), erase_nil]
      · rw [if_neg h2, if_neg (by omega)]
  · rw [scr_setScr]; simp [sameCursor, Scr.eraseRegion]

/-- ED 1 (`CSI 1 J`): every row above `cy` is erased entirely, row `cy` from column 0 to the cursor
    inclusive, rows below are untouched; cursor unchanged -/
theorem ED1 (t : Term) (ps : List Int) (hp : p0 ps 0 = 1) (hinv : t.scr.inv = true) :
    OnlyRows t (after t ps 0x4a)
      (fun y r => if y < t.scr.cy then r.erase 0 t.scr.w t.scr.sty
                  else if y = t.scr.cy then r.erase 0 (t.scr.cx + 1) t.scr.sty else r) ∧
    sameCursor t.scr (after t ps 0x4a).scr := by
  obtain ⟨hw, hh, hgl, hcx, hcy, hrows⟩ := inv_facts hinv
  have e1 : t.scr.eraseRegionI 0 0 t.scr.w t.scr.cy = t.scr.eraseRegion 0 0 t.scr.w t.scr.cy := by
    apply eraseRegionI_eq <;> unfold clampNat <;> omega
  have e2 : (t.scr.eraseRegion 0 0 t.scr.w t.scr.cy).eraseRegionI 0 t.scr.cy
        ((t.scr.cx : Int) + 1) ((t.scr.cy : Int) + 1) =
      (t.scr.eraseRegion 0 0 t.scr.w t.scr.cy).eraseRegion 0 t.scr.cy (t.scr.cx + 1) (t.scr.cy + 1) := by
    apply eraseRegionI_eq <;> simp only [Scr.eraseRegion, clampNat] <;> omega
  have : after t ps 0x4a = t.setScr ((t.scr.eraseRegion 0 0 t.scr.w t.scr.cy).eraseRegion
      0 t.scr.cy (t.scr.cx + 1) (t.scr.cy + 1)) := by
    simp [after, Term.csiPlain, hp, e1, e2]
  rw [this]
  refine ⟨onlyRows_setScr (sameGeom_trans (eraseRegion_frame ..).1 (eraseRegion_frame ..).1) ?_, ?_⟩
  · intro y
    rw [eraseRegion_row, eraseRegion_row]
    show (if t.scr.cy ≤ y ∧ y < t.scr.cy + 1 then
        (if 0 ≤ y ∧ y < t.scr.cy then (t.scr.row y).erase 0 t.scr.w t.scr.sty
          else t.scr.row y).erase 0 (t.scr.cx + 1) t.scr.sty
        else if 0 ≤ y ∧ y < t.scr.cy then (t.scr.row y).erase 0 t.scr.w t.scr.sty
          else t.scr.row y) = _
    by_cases h1 : y < t.scr.cy
    · have a1 : ¬ (t.scr.cy ≤ y ∧ y < t.scr.cy + 1) := by omega
      have a2 : 0 ≤ y ∧ y < t.scr.cy := by omega
      simp only [if_neg a1, if_pos a2, if_pos h1]
    · have a2 : ¬ (0 ≤ y ∧ y < t.scr.cy) := by omega
      simp only [if_neg a2, if_neg h1]
      by_cases h2 : y = t.scr.cy
      · rw [if_pos h2, if_pos (by omega)]
      · rw [if_neg h2, if_neg (by omega)]
  · rw [scr_setScr]; simp [sameCursor, Scr.eraseRegion]

/-- ED 2 (`CSI 2 J`): every row is erased entirely and the cursor goes to (0,0) -/
theorem ED2 (t : Term) (ps : List Int) (hp : p0 ps 0 = 2) (hinv : t.scr.inv = true) :
    OnlyRows t (after t ps 0x4a) (fun _ r => r.erase 0 t.scr.w t.scr.sty) ∧
    (after t ps 0x4a).scr.cx = 0 ∧ (after t ps 0x4a).scr.cy = 0 := by
  obtain ⟨hw, hh, hgl, hcx, hcy, hrows⟩ := inv_facts hinv
  have e1 : t.scr.eraseRegionI 0 0 t.scr.w t.scr.h = t.scr.eraseRegion 0 0 t.scr.w t.scr.h := by
    apply eraseRegionI_eq <;> unfold clampNat <;> omega
  have : after t ps 0x4a = t.setScr ((t.scr.eraseRegion 0 0 t.scr.w t.scr.h).setCursor 0 0) := by
    simp [after, Term.csiPlain, hp, e1]
  rw [this]
  refine ⟨onlyRows_setScr ?_ ?_, ?_, ?_⟩
  · simp [sameGeom, Scr.setCursor, Scr.eraseRegion]
  · intro y
    show (t.scr.eraseRegion 0 0 t.scr.w t.scr.h).row y = _
    rw [eraseRegion_row]
    by_cases h3 : y < t.scr.h
    · rw [if_pos ⟨by omega, h3⟩]
    · rw [if_neg (fun h => h3 h.2), row_nil (by omega), erase_nil]
  · rw [scr_setScr]; simp [Scr.setCursor, clampNat]
  · rw [scr_setScr]; simp [Scr.setCursor, clampNat]

/-- any other ED parameter changes nothing at all -/
theorem ED_other (t : Term) (ps : List Int) (h0 : p0 ps 0 ≠ 0) (h1 : p0 ps 0 ≠ 1) (h2 : p0 ps 0 ≠ 2) :
    after t ps 0x4a = t := by
  simp [after, Term.csiPlain, h0, h1, h2]

/-! ### ECH, DCH -/

/-- ECH n (`CSI n X`, parameter `n ≥ 0`; absent means 1): only row `cy` changes, to
    `Row.erase cx (cx+n)` (clipped to the row by `Row.erase`); cursor unchanged -/
theorem ECH (t : Term) (ps : List Int) (n : Nat) (hp : p0 ps 1 = n) (hinv : t.scr.inv = true) :
    OnlyRows t (after t ps 0x58)
      (fun y r => if y = t.scr.cy then r.erase t.scr.cx (t.scr.cx + n) t.scr.sty else r) ∧
    sameCursor t.scr (after t ps 0x58).scr := by
  obtain ⟨hw, hh, hgl, hcx, hcy, hrows⟩ := inv_facts hinv
  have e : t.scr.eraseRegionI t.scr.cx t.scr.cy ((t.scr.cx : Int) + n) ((t.scr.cy : Int) + 1) =
      t.scr.eraseRegion t.scr.cx t.scr.cy (min (t.scr.cx + n) t.scr.w) (t.scr.cy + 1) := by
    apply eraseRegionI_eq <;> unfold clampNat <;> omega
  have : after t ps 0x58 =
      t.setScr (t.scr.eraseRegion t.scr.cx t.scr.cy (min (t.scr.cx + n) t.scr.w) (t.scr.cy + 1)) := by
    simp [after, Term.csiPlain, hp, e]
  rw [this]
  refine ⟨onlyRows_setScr (eraseRegion_frame ..).1 ?_, by rw [scr_setScr]; exact (eraseRegion_frame ..).2⟩
  intro y
  rw [eraseRegion_row]
  by_cases h1 : y = t.scr.cy
  · rw [if_pos (by omega), if_pos h1]
    have := (hrows y (by omega)).1
    rw [← this, erase_min]
  · rw [if_neg (by omega), if_neg h1]

/-- ECH with a non-positive parameter (in particular an explicit 0) changes no cell and nothing else -/
theorem ECH_nonpos (t : Term) (ps : List Int) (hp : p0 ps 1 ≤ 0) (hinv : t.scr.inv = true) :
    OnlyRows t (after t ps 0x58) (fun _ r => r) ∧ sameCursor t.scr (after t ps 0x58).scr := by
  obtain ⟨hw, hh, hgl, hcx, hcy, hrows⟩ := inv_facts hinv
  have e : t.scr.eraseRegionI t.scr.cx t.scr.cy ((t.scr.cx : Int) + p0 ps 1) ((t.scr.cy : Int) + 1) =
      t.scr.eraseRegion t.scr.cx t.scr.cy t.scr.cx (t.scr.cy + 1) := by
    apply eraseRegionI_eq <;> unfold clampNat <;> omega
  have : after t ps 0x58 = t.setScr t.scr := by
    simp [after, Term.csiPlain, e, eraseRegion_empty_cols]
  rw [this]
  exact ⟨onlyRows_setScr (sameGeom_refl _) (fun _ => rfl), by rw [scr_setScr]; simp [sameCursor]⟩

/-- DCH n (`CSI n P`, `n > 0`; absent means 1): only row `cy` changes, to `Row.dch cx n`; cursor
    unchanged -/
theorem DCH (t : Term) (ps : List Int) (n : Nat) (hp : p0 ps 1 = n) (hn : 0 < n) :
    OnlyRows t (after t ps 0x50)
      (fun y r => if y = t.scr.cy then r.dch t.scr.cx n t.scr.sty else r) ∧
    sameCursor t.scr (after t ps 0x50).scr := by
  have h : ¬ n = 0 := by omega
  have : after t ps 0x50 = t.setScr (t.scr.dch n) := by
    simp [after, Term.csiPlain, hp, h]
  rw [this]
  exact ⟨onlyRows_setScr (scr_dch_frame ..).1 (fun y => scr_dch_row ..),
    by rw [scr_setScr]; exact (scr_dch_frame ..).2⟩

/-- DCH with a non-positive parameter (in particular an explicit 0) changes nothing at all -/
theorem DCH_nonpos (t : Term) (ps : List Int) (hp : p0 ps 1 ≤ 0) : after t ps 0x50 = t := by
  simp [after, Term.csiPlain, hp]

/-! ### the same, cell by cell

`x < w`, `y < h` is an arbitrary screen position; the right-hand sides mention only the state
before the sequence. In every statement the `else` branch is the old cell: nothing else changes. -/

namespace Lemmas

theorem erase_to_end {r : Row} (hwf : rowWF r = true) (c : Nat) (st : Style) (hc : c < r.length)
    (x : Nat) (hx : x < r.length) :
    (r.erase c r.length st)[x]? = if c ≤ x ∨ inCut r c x then some (blank st) else r[x]? := by
  rw [erase_cells hwf c r.length st (by omega) x hx, List.getElem?_eq_getElem hx]
  have h1 : ¬ inCut r r.length x := not_inCut_edge (Nat.le_refl _) x
  have h2 : (c ≤ x ∧ x < r.length) ↔ c ≤ x := by omega
  simp only [h1, h2, or_false]
  split <;> rfl

theorem erase_from_start {r : Row} (hwf : rowWF r = true) (c : Nat) (st : Style) (hc : c < r.length)
    (x : Nat) (hx : x < r.length) :
    (r.erase 0 (c + 1) st)[x]? = if x ≤ c ∨ inCut r (c + 1) x then some (blank st) else r[x]? := by
  rw [erase_cells hwf 0 (c + 1) st (by omega) x hx, List.getElem?_eq_getElem hx]
  have h1 : ¬ inCut r 0 x := not_inCut_zero hwf x
  have h2 : (0 ≤ x ∧ x < c + 1) ↔ x ≤ c := by omega
  simp only [h1, h2, false_or]
  split <;> rfl

theorem erase_all (r : Row) (st : Style) (x : Nat) (hx : x < r.length) :
    (r.erase 0 r.length st)[x]? = some (blank st) :=
  erase_inside r 0 r.length st x (by omega) hx hx

theorem erase_n {r : Row} (hwf : rowWF r = true) (c n : Nat) (st : Style) (hc : c < r.length)
    (hn : 0 < n) (x : Nat) (hx : x < r.length) :
    (r.erase c (c + n) st)[x]? =
      if (c ≤ x ∧ x < c + n) ∨ inCut r c x ∨ inCut r (c + n) x then some (blank st) else r[x]? := by
  rw [erase_cells hwf c (c + n) st (by omega) x hx, List.getElem?_eq_getElem hx]
  split <;> rfl

end Lemmas

/-- EL 0 erases exactly columns `[cx, w)` of row `cy`, plus the wide character whose second half
    is under the cursor -/
theorem EL0_cell (t : Term) (ps : List Int) (hp : p0 ps 0 = 0) (hinv : t.scr.inv = true)
    (x y : Nat) (hx : x < t.scr.w) (hy : y < t.scr.h) :
    cell (after t ps 0x4b).scr x y =
      if y = t.scr.cy ∧ (t.scr.cx ≤ x ∨ inCut (t.scr.row t.scr.cy) t.scr.cx x)
      then some (blank t.scr.sty) else cell t.scr x y := by
  obtain ⟨hw, hh, hgl, hcx, hcy, hrows⟩ := inv_facts hinv
  unfold cell
  rw [(EL0 t ps hp hinv).1.rows y]
  by_cases h1 : y = t.scr.cy
  · subst h1
    obtain ⟨hlen, hwf⟩ := hrows _ hcy
    simp only [if_true, true_and]
    rw [← hlen, erase_to_end hwf _ _ (by omega) x (by omega)]
  · simp [h1]

/-- EL 1 erases exactly columns `[0, cx]` of row `cy`, plus the wide character whose first half
    is under the cursor -/
theorem EL1_cell (t : Term) (ps : List Int) (hp : p0 ps 0 = 1) (hinv : t.scr.inv = true)
    (x y : Nat) (hx : x < t.scr.w) (hy : y < t.scr.h) :
    cell (after t ps 0x4b).scr x y =
      if y = t.scr.cy ∧ (x ≤ t.scr.cx ∨ inCut (t.scr.row t.scr.cy) (t.scr.cx + 1) x)
      then some (blank t.scr.sty) else cell t.scr x y := by
  obtain ⟨hw, hh, hgl, hcx, hcy, hrows⟩ := inv_facts hinv
  unfold cell
  rw [(EL1 t ps hp hinv).1.rows y]
  by_cases h1 : y = t.scr.cy
  · subst h1
    obtain ⟨hlen, hwf⟩ := hrows _ hcy
    simp only [if_true, true_and]
    rw [erase_from_start hwf _ _ (by omega) x (by omega)]
  · simp [h1]

/-- EL 2 erases exactly row `cy` -/
theorem EL2_cell (t : Term) (ps : List Int) (hp : p0 ps 0 = 2) (hinv : t.scr.inv = true)
    (x y : Nat) (hx : x < t.scr.w) (hy : y < t.scr.h) :
    cell (after t ps 0x4b).scr x y =
      if y = t.scr.cy then some (blank t.scr.sty) else cell t.scr x y := by
  obtain ⟨hw, hh, hgl, hcx, hcy, hrows⟩ := inv_facts hinv
  unfold cell
  rw [(EL2 t ps hp hinv).1.rows y]
  by_cases h1 : y = t.scr.cy
  · subst h1
    obtain ⟨hlen, hwf⟩ := hrows _ hcy
    simp only [if_true]
    rw [← hlen, erase_all _ _ x (by omega)]
  · simp [h1]

/-- ED 0 erases exactly: row `cy` from the cursor on (plus a wide character cut by the cursor),
    and every cell of every row below — for all `y < h`, whatever the ratio of `h` to `w` -/
theorem ED0_cell (t : Term) (ps : List Int) (hp : p0 ps 0 = 0) (hinv : t.scr.inv = true)
    (x y : Nat) (hx : x < t.scr.w) (hy : y < t.scr.h) :
    cell (after t ps 0x4a).scr x y =
      if (y = t.scr.cy ∧ (t.scr.cx ≤ x ∨ inCut (t.scr.row t.scr.cy) t.scr.cx x)) ∨ t.scr.cy < y
      then some (blank t.scr.sty) else cell t.scr x y := by
  obtain ⟨hw, hh, hgl, hcx, hcy, hrows⟩ := inv_facts hinv
  unfold cell
  rw [(ED0 t ps hp hinv).1.rows y]
  by_cases h1 : y = t.scr.cy
  · subst h1
    obtain ⟨hlen, hwf⟩ := hrows _ hcy
    simp only [if_true, true_and, Nat.lt_irrefl, or_false]
    rw [← hlen, erase_to_end hwf _ _ (by omega) x (by omega)]
  · obtain ⟨hlen, hwf⟩ := hrows _ hy
    by_cases h2 : t.scr.cy < y
    · simp only [h1, h2, if_false, if_true, false_and, false_or]
      rw [← hlen, erase_all _ _ x (by omega)]
    · simp [h1, h2]

/-- ED 1 erases exactly: every cell of every row above `cy`, and row `cy` up to the cursor
    inclusive (plus a wide character cut just after the cursor) -/
theorem ED1_cell (t : Term) (ps : List Int) (hp : p0 ps 0 = 1) (hinv : t.scr.inv = true)
    (x y : Nat) (hx : x < t.scr.w) (hy : y < t.scr.h) :
    cell (after t ps 0x4a).scr x y =
      if y < t.scr.cy ∨ (y = t.scr.cy ∧ (x ≤ t.scr.cx ∨ inCut (t.scr.row t.scr.cy) (t.scr.cx + 1) x))
      then some (blank t.scr.sty) else cell t.scr x y := by
  obtain ⟨hw, hh, hgl, hcx, hcy, hrows⟩ := inv_facts hinv
  unfold cell
  rw [(ED1 t ps hp hinv).1.rows y]
  by_cases h1 : y = t.scr.cy
  · subst h1
    obtain ⟨hlen, hwf⟩ := hrows _ hcy
    simp only [if_true, true_and, Nat.lt_irrefl, false_or, if_false]
    rw [erase_from_start hwf _ _ (by omega) x (by omega)]
  · obtain ⟨hlen, hwf⟩ := hrows _ hy
    by_cases h2 : y < t.scr.cy
    · simp only [h2, if_true, true_or]
      rw [← hlen, erase_all _ _ x (by omega)]
    · simp [h1, h2]

/-- ED 2 blanks every cell of the screen (all `x < w`, `y < h`) in the current style -/
theorem ED2_cell (t : Term) (ps : List Int) (hp : p0 ps 0 = 2) (hinv : t.scr.inv = true)
    (x y : Nat) (hx : x < t.scr.w) (hy : y < t.scr.h) :
    cell (after t ps 0x4a).scr x y = some (blank t.scr.sty) := by
  obtain ⟨hw, hh, hgl, hcx, hcy, hrows⟩ := inv_facts hinv
  unfold cell
  rw [(ED2 t ps hp hinv).1.rows y]
  obtain ⟨hlen, hwf⟩ := hrows _ hy
  rw [← hlen, erase_all _ _ x (by omega)]

/-- ECH n (`n > 0`) erases exactly columns `[cx, cx+n)` of row `cy` (those inside the screen), plus
    wide characters cut by either end -/
theorem ECH_cell (t : Term) (ps : List Int) (n : Nat) (hp : p0 ps 1 = n) (hn : 0 < n)
    (hinv : t.scr.inv = true) (x y : Nat) (hx : x < t.scr.w) (hy : y < t.scr.h) :
    cell (after t ps 0x58).scr x y =
      if y = t.scr.cy ∧ ((t.scr.cx ≤ x ∧ x < t.scr.cx + n) ∨ inCut (t.scr.row t.scr.cy) t.scr.cx x ∨
          inCut (t.scr.row t.scr.cy) (t.scr.cx + n) x)
      then some (blank t.scr.sty) else cell t.scr x y := by
  obtain ⟨hw, hh, hgl, hcx, hcy, hrows⟩ := inv_facts hinv
  unfold cell
  rw [(ECH t ps n hp hinv).1.rows y]
  by_cases h1 : y = t.scr.cy
  · subst h1
    obtain ⟨hlen, hwf⟩ := hrows _ hcy
    simp only [if_true, true_and]
    rw [erase_n hwf _ _ _ (by omega) hn x (by omega)]
  · simp [h1]

/-- DCH n (`n > 0`), with `n' = min n (w - cx)`: rows other than `cy` are unchanged; in row `cy`
    columns `< cx` stay (a wide character cut by the cursor is blanked), column `x ∈ [cx, w-n')`
    receives the old cell `x + n'` (blank if that cell belongs to a character cut by the end of the
    deleted range), and the last `n'` columns are blanks in the current style -/
theorem DCH_cell (t : Term) (ps : List Int) (n : Nat) (hp : p0 ps 1 = n) (hn : 0 < n)
    (hinv : t.scr.inv = true) (x y : Nat) (hx : x < t.scr.w) (hy : y < t.scr.h) :
    cell (after t ps 0x50).scr x y =
      if y ≠ t.scr.cy then cell t.scr x y
      else if x < t.scr.cx then
        (if inCut (t.scr.row t.scr.cy) t.scr.cx x then some (blank t.scr.sty) else cell t.scr x y)
      else if x < t.scr.w - min n (t.scr.w - t.scr.cx) then
        (if inCut (t.scr.row t.scr.cy) (t.scr.cx + min n (t.scr.w - t.scr.cx))
              (x + min n (t.scr.w - t.scr.cx))
         then some (blank t.scr.sty) else cell t.scr (x + min n (t.scr.w - t.scr.cx)) y)
      else some (blank t.scr.sty) := by
  obtain ⟨hw, hh, hgl, hcx, hcy, hrows⟩ := inv_facts hinv
  unfold cell
  rw [(DCH t ps n hp hn).1.rows y]
  by_cases h1 : y = t.scr.cy
  · subst h1
    obtain ⟨hlen, hwf⟩ := hrows _ hcy
    simp only [if_true, ne_eq, not_true_eq_false, if_false]
    by_cases h2 : x < t.scr.cx
    · rw [if_pos h2, dch_left hwf _ _ _ (by omega) hn x h2]
    · rw [if_neg h2]
      by_cases h3 : x < t.scr.w - min n (t.scr.w - t.scr.cx)
      · rw [if_pos h3, ← hlen, dch_shift hwf _ _ _ (by omega) hn x (by omega) (by omega)]
      · rw [if_neg h3, dch_tail _ _ _ _ (by omega) hn x (by omega) (by omega)]
  · simp [h1]

/-! ## non-vacuity: a 3 × 5 screen (taller than wide) with wide characters and several styles -/
section Examples

def red : Style := ⟨0x1#32, colDefault, colDefault⟩
def cA : Cell := ⟨.ch [0x41] 1, Style.default⟩
def cB : Cell := ⟨.ch [0x42] 1, red⟩
def cW : Cell := ⟨.ch [0xe4, 0xb8, 0x96] 2, Style.default⟩     -- a double-width character …
def cC : Cell := ⟨.cont, Style.default⟩                         -- … and its second cell

/-- width 3, height 5; cursor on the second half of the wide character of row 1; current style
    `red`; rows 3 and 4 have index `≥ w` -/
def exScr : Scr :=
  { w := 3, h := 5,
    grid := [[cA, cB, cA], [cA, cW, cC], [cW, cC, cB], [cB, cW, cC], [cA, cA, cB]],
    cx := 2, cy := 1, sx := 1, sy := 4, top := 0, bot := 4, wrap := true, sty := red }

def exTerm : Term := { pol := .blank, main := exScr, alt := Scr.init 3 5 }

/-- same, cursor on the first half of the wide character of row 2 -/
def exTerm' : Term := { exTerm with main := { exScr with cx := 0, cy := 2 } }

example : exTerm.scr.inv = true := by decide
example : exTerm'.scr.inv = true := by decide
example : rowWF [cA, cW, cC] = true := by decide
-- the parameter hypotheses: absent and explicit parameters
example : p0 [] 0 = 0 ∧ p0 [0] 0 = 0 ∧ p0 [1] 0 = 1 ∧ p0 [2] 0 = 2 ∧ p0 [] 1 = (1 : Nat) ∧ p0 [7] 1 = (7 : Nat) := by
  decide
-- the cut character: column 2 of row 1 is a continuation cell, its character is columns 1–2
example : inCut (exTerm.scr.row 1) 2 1 ∧ inCut (exTerm.scr.row 1) 2 2 ∧ ¬ inCut (exTerm.scr.row 1) 2 0 := by
  decide
-- EL 0 with the cursor on the second half: the whole wide character goes, column 0 stays
example : (after exTerm [] 0x4b).scr.row 1 = [cA, blank red, blank red] := by decide
-- EL 1 with the cursor on the first half: both halves go, column 2 stays
example : (after exTerm' [1] 0x4b).scr.row 2 = [blank red, blank red, cB] := by decide
-- ED 0 reaches rows 3 and 4 of a 3-column screen; rows above the cursor stay
example : (after exTerm [] 0x4a).scr.grid =
    [[cA, cB, cA], [cA, blank red, blank red], blankRow 3 red, blankRow 3 red, blankRow 3 red] := by decide
-- ED 1 from row 2 (first half of a wide character under the cursor)
example : (after exTerm' [1] 0x4a).scr.grid =
    [blankRow 3 red, blankRow 3 red, [blank red, blank red, cB], [cB, cW, cC], [cA, cA, cB]] := by decide
-- ED 2 clears all 5 rows and homes the cursor
example : (after exTerm [2] 0x4a).scr.grid = List.replicate 5 (blankRow 3 red) ∧
    (after exTerm [2] 0x4a).scr.cx = 0 ∧ (after exTerm [2] 0x4a).scr.cy = 0 := by decide
-- ECH 1 on the first half of a wide character blanks both halves
example : (after exTerm' [] 0x58).scr.row 2 = [blank red, blank red, cB] := by decide
-- DCH 1 on the first half of a wide character: the orphaned second half arrives as a blank
example : (after exTerm' [] 0x50).scr.row 2 = [blank red, cB, blank red] := by decide
-- DCH 1 on the second half: the first half (left of the cursor) is blanked too
example : (after exTerm [] 0x50).scr.row 1 = [cA, blank red, blank red] := by decide
-- a row of many runs with two wide characters, erased in the middle: both are cut
example : Row.erase [cW, cC, cB, cA, cW, cC, cA] 1 5 red =
    [blank red, blank red, blank red, blank red, blank red, blank red, cA] := by decide

end Examples

end TM.C05

/-! ## axioms of the property theorems -/
#print axioms TM.C05.cut_is_wide_char
#print axioms TM.C05.erase_length
#print axioms TM.C05.erase_empty
#print axioms TM.C05.erase_inside
#print axioms TM.C05.erase_cells
#print axioms TM.C05.erase_left
#print axioms TM.C05.erase_right
#print axioms TM.C05.erase_unchanged
#print axioms TM.C05.erase_cut_blanked
#print axioms TM.C05.erase_cells_clean
#print axioms TM.C05.dch_length
#print axioms TM.C05.dch_id
#print axioms TM.C05.dch_left
#print axioms TM.C05.dch_shift
#print axioms TM.C05.dch_tail
#print axioms TM.C05.dch_cells_clean
#print axioms TM.C05.eraseRegion_row
#print axioms TM.C05.eraseRegion_frame
#print axioms TM.C05.eraseRegion_row_length
#print axioms TM.C05.eraseRegion_cell
#print axioms TM.C05.eraseRegion_empty_cols
#print axioms TM.C05.scr_dch_row
#print axioms TM.C05.scr_dch_frame
#print axioms TM.C05.scr_dch_row_length
#print axioms TM.C05.apply_csi
#print axioms TM.C05.EL0
#print axioms TM.C05.EL1
#print axioms TM.C05.EL2
#print axioms TM.C05.EL_other
#print axioms TM.C05.ED0
#print axioms TM.C05.ED1
#print axioms TM.C05.ED2
#print axioms TM.C05.ED_other
#print axioms TM.C05.ECH
#print axioms TM.C05.ECH_nonpos
#print axioms TM.C05.DCH
#print axioms TM.C05.DCH_nonpos
#print axioms TM.C05.EL0_cell
#print axioms TM.C05.EL1_cell
#print axioms TM.C05.EL2_cell
#print axioms TM.C05.ED0_cell
#print axioms TM.C05.ED1_cell
#print axioms TM.C05.ED2_cell
#print axioms TM.C05.ECH_cell
#print axioms TM.C05.DCH_cell
