import TM.Notify
import TM.Run
/-!
# C10 — the frontend's shadow copy, refreshed only from the announcements, is exact

Property (fixed text): *A frontend that keeps its own copy of the screen and, on each
RegionChanged, refreshes only the announced cells by reading them back (as the callback contract
permits) always ends each input with an exact copy of the active screen, including across scrolls
and buffer switches. The most recent CursorMoved, StyleChanged and View\*Changed values always
equal the terminal's actual cursor, rendition and mode values, and rows scrolled off the top of
the main screen are announced through ScrollLines before they are lost.*

Model: `Term.damage t tok` (TM/Notify.lean) is the list of regions announced while `tok` is applied
in state `t`; `repaint shadow screen rs` is the frontend's copy after re-reading exactly the
announced cells. `Term.apply` returns the non-geometric events.

Convention on sizes: tokens never change the size of a buffer. `Term.resize` is initiated by the
owner of the frontend (it is not an input token); the owner then repaints everything, so resizing
is outside the statements below: they are about one token / a run of tokens at a fixed size.

Contents
* §1 row lemmas (lengths; copied from Props/C03, C05 where they exist there)
* §2 `Upd D s s'`: `s'` has the geometry of `s` and differs from it only in rows `y` with `D y`;
  one lemma per screen operation (scroll, lineDown/lineUp, erase, dch, put under both policies)
* §3 terminal level: every token updates the active screen only inside the announced damage
* §4 property theorems `changes_announced`, `switch_announces_everything`, `shadow_sync`,
  `shadow_sync_run`, `shadow_sync_run_blank`
* §5 notifications: `cursor_last`, `style_last`, `view_last_*`, `no_scrollLines_emitted_partial`
* §6 non-vacuity examples
-/
namespace TM.C10
open TM

/-! ## 1. Rows -/
namespace Lemmas

theorem contAt_iff {r : Row} {x : Nat} : contAt r x = true ↔ ∃ st, r[x]? = some ⟨.cont, st⟩ := by
  unfold contAt; split <;> simp_all

theorem contAt_cont {r : Row} {x : Nat} {st : Style} (h : r[x]? = some ⟨.cont, st⟩) :
    contAt r x = true := contAt_iff.2 ⟨st, h⟩

theorem contAt_ch {r : Row} {x : Nat} {t : Bytes} {w : Nat} {st : Style}
    (h : r[x]? = some ⟨.ch t w, st⟩) : contAt r x = false := by
  unfold contAt; rw [h]

theorem contAt_none {r : Row} {x : Nat} (h : r[x]? = none) : contAt r x = false := by
  unfold contAt; rw [h]

theorem contAt_ge {r : Row} {x : Nat} (h : r.length ≤ x) : contAt r x = false :=
  contAt_none (List.getElem?_eq_none h)

theorem contAt_lt {r : Row} {x : Nat} (h : contAt r x = true) : x < r.length := by
  false_or_by_contra
  rw [contAt_ge (by omega)] at h; cases h

theorem widthAt_ch {r : Row} {x : Nat} {t : Bytes} {w : Nat} {st : Style}
    (h : r[x]? = some ⟨.ch t w, st⟩) : widthAt r x = max w 1 := by
  unfold widthAt; rw [h]

theorem headOf_le (r : Row) (x : Nat) : headOf r x ≤ x := by
  induction x with
  | zero => simp [headOf]
  | succ x ih => simp only [headOf]; split <;> omega

theorem headOf_cont (r : Row) (x j : Nat) (h1 : headOf r x < j) (h2 : j ≤ x) : contAt r j = true := by
  induction x with
  | zero => simp [headOf] at h1; omega
  | succ x ih =>
    simp only [headOf] at h1
    split at h1
    · next hc =>
      by_cases hj : j = x + 1
      · rw [hj]; exact hc
      · exact ih h1 (by omega)
    · omega

theorem headOf_head (r : Row) (x : Nat) : headOf r x = 0 ∨ contAt r (headOf r x) = false := by
  induction x with
  | zero => simp [headOf]
  | succ x ih =>
    simp only [headOf]
    split
    · exact ih
    · next hc => right; simpa using hc

theorem getElem?_lt {r : Row} {i : Nat} {c : Cell} (h : r[i]? = some c) : i < r.length := by
  false_or_by_contra
  rw [List.getElem?_eq_none (by omega)] at h; cases h

/-- `rowWF` as a predicate (one direction is enough here) -/
theorem rowWF_imp (r : Row) (hwf : rowWF r = true) :
    (contAt r 0 = false ∧ ∀ i t w st, r[i]? = some ⟨.ch t w, st⟩ →
      1 ≤ w ∧ i + w ≤ r.length ∧ (∀ k, i < k → k < i + w → contAt r k = true) ∧
        contAt r (i + w) = false) := by
  unfold rowWF at hwf
  rw [List.all_eq_true] at hwf
  simp only [List.mem_range] at hwf
  constructor
  · cases hc : contAt r 0 with
    | false => rfl
    | true =>
      obtain ⟨st, hst⟩ := contAt_iff.1 hc
      have := hwf 0 (contAt_lt hc)
      rw [hst] at this
      simp at this
  · intro i t w st h
    have hi : i < r.length := getElem?_lt h
    have := hwf i hi
    rw [h] at this
    simp only [Bool.and_eq_true, decide_eq_true_eq, List.all_eq_true, List.mem_range,
      Bool.not_eq_true'] at this
    refine ⟨this.1.1.1, this.1.1.2, ?_, this.2⟩
    intro k h1 h2
    have := this.1.2 (k - (i + 1)) (by omega)
    have e : i + 1 + (k - (i + 1)) = k := by omega
    rwa [e] at this

/-- under `rowWF`, the head of the character covering `x` is a `.ch` cell whose width reaches past `x` -/
theorem wf_head {r : Row} (hwf : rowWF r = true) {x : Nat} (hx : x < r.length) :
    ∃ t w st, r[headOf r x]? = some ⟨.ch t w, st⟩ ∧ 1 ≤ w ∧ x < headOf r x + w ∧
      headOf r x + w ≤ r.length ∧ widthAt r (headOf r x) = w := by
  have hle := headOf_le r x
  have hnc : contAt r (headOf r x) = false := by
    rcases headOf_head r x with h | h
    · rw [h]; exact (rowWF_imp r hwf).1
    · exact h
  cases hc : r[headOf r x]? with
  | none => rw [List.getElem?_eq_none_iff] at hc; omega
  | some c =>
    obtain ⟨g, st⟩ := c
    cases g with
    | cont => rw [contAt_cont hc] at hnc; cases hnc
    | ch t w =>
      obtain ⟨a, b, _, d⟩ := (rowWF_imp r hwf).2 _ _ _ _ hc
      refine ⟨t, w, st, rfl, a, ?_, b, ?_⟩
      · false_or_by_contra
        have := headOf_cont r x (headOf r x + w) (by omega) (by omega)
        rw [this] at d; cases d
      · rw [widthAt_ch hc]; omega

/-! ### lengths -/

theorem length_blankRange (r : Row) (a n : Nat) (st : Style) : (blankRange r a n st).length = r.length := by
  simp [blankRange]

theorem length_blankCharAt (r : Row) (x : Nat) (st : Style) : (blankCharAt r x st).length = r.length := by
  unfold blankCharAt
  simp only []
  split
  · rfl
  · exact length_blankRange ..

theorem length_blankStraddlers (r : Row) (a b : Nat) (st : Style) :
    (blankStraddlers r a b st).length = r.length := by
  unfold blankStraddlers
  simp only []
  split <;> split <;> simp [length_blankCharAt]

theorem length_setRange (r : Row) (a : Nat) (cells : List Cell) : (setRange r a cells).length = r.length := by
  simp [setRange]

theorem length_charCells (text : Bytes) (w : Nat) (st : Style) (hw : 1 ≤ w) :
    (charCells text w st).length = w := by
  simp [charCells]; omega

theorem put_length (r : Row) (x : Nat) (text : Bytes) (w : Nat) (st : Style) :
    (Row.put r x text w st).length = r.length := by
  unfold Row.put; rw [length_setRange, length_blankStraddlers]

theorem erase_length (r : Row) (a b : Nat) (st : Style) : (r.erase a b st).length = r.length := by
  unfold Row.erase
  simp only []
  split
  · rfl
  · rw [length_blankRange, length_blankStraddlers]

theorem dch_length (r : Row) (x n : Nat) (st : Style) : (r.dch x n st).length = r.length := by
  unfold Row.dch
  simp only []
  split
  · rfl
  · simp [length_blankStraddlers]; omega

theorem length_fixTail (r : Row) (st : Style) : (fixTail r st).length = r.length := by
  unfold fixTail
  split
  · next heq =>
    split
    · rw [List.getLast?_eq_getElem?] at heq
      have := getElem?_lt heq
      simp [List.length_dropLast]; omega
    · rfl
  · rfl

/-- the span-buffer insertion keeps the row length when the row is well formed (the kept wide
    character then really reaches past the cursor column) -/
theorem putKeep_length (r : Row) (x : Nat) (text : Bytes) (w : Nat) (st : Style)
    (hwf : rowWF r = true) (hc : contAt r x = true) (hw : 1 ≤ w) :
    (Row.putKeep r x text w st).length = r.length := by
  obtain ⟨t, wd, s', hch, _, hx, hlen, hwd⟩ := wf_head hwf (contAt_lt hc)
  unfold Row.putKeep
  simp only []
  rw [length_fixTail]
  have hl : (if contAt r (x + w) = true then blankCharAt r (x + w) st else r).length = r.length := by
    split
    · exact length_blankCharAt ..
    · rfl
  simp only [List.length_take, List.length_append, List.length_drop, length_charCells _ _ _ hw,
    hl, hwd]
  omega

theorem blankRow_length (w : Nat) (st : Style) : (blankRow w st).length = w := by simp [blankRow]

theorem blankRow_wf (w : Nat) (st : Style) : rowWF (blankRow w st) = true := by
  unfold rowWF
  rw [List.all_eq_true]
  intro i hi
  simp only [List.mem_range, blankRow_length] at hi
  have hg : ∀ j, contAt (blankRow w st) j = false := by
    intro j
    cases h : contAt (blankRow w st) j with
    | false => rfl
    | true =>
      obtain ⟨s', hs'⟩ := contAt_iff.1 h
      simp [blankRow, List.getElem?_replicate, blank] at hs'
  have : (blankRow w st)[i]? = some ⟨.ch [0x20] 1, st⟩ := by
    simp [blankRow, hi, blank]
  rw [this]
  simp [hg, blankRow_length]
  omega

end Lemmas
open Lemmas

/-! ## 2. Screens: geometry and the rows an operation can touch -/

/-- the geometric part of `Scr.inv`: `h` rows of `w` cells -/
def Shaped (s : Scr) : Prop := s.grid.length = s.h ∧ ∀ r ∈ s.grid, r.length = s.w

/-- every row is well formed (wide characters whole) -/
def RowsWF (s : Scr) : Prop := ∀ r ∈ s.grid, rowWF r = true

/-- `s'` has the size of `s`, is as well shaped as `s`, and on a well-shaped `s` differs from it
    at most in the rows `y` with `D y` -/
structure Upd (D : Nat → Prop) (s s' : Scr) : Prop where
  w : s'.w = s.w
  h : s'.h = s.h
  shaped : Shaped s → Shaped s'
  frame : Shaped s → ∀ y, ¬ D y → s'.grid[y]? = s.grid[y]?

theorem Upd.refl (D : Nat → Prop) (s : Scr) : Upd D s s := ⟨rfl, rfl, id, fun _ _ _ => rfl⟩

theorem Upd.mono {D D' : Nat → Prop} {s s' : Scr} (h : Upd D s s') (hD : ∀ y, D y → D' y) :
    Upd D' s s' := ⟨h.w, h.h, h.shaped, fun hs y hy => h.frame hs y (fun hd => hy (hD y hd))⟩

theorem Upd.trans {D : Nat → Prop} {a b c : Scr} (h1 : Upd D a b) (h2 : Upd D b c) : Upd D a c :=
  ⟨h2.w.trans h1.w, h2.h.trans h1.h, fun hs => h2.shaped (h1.shaped hs),
   fun hs y hy => (h2.frame (h1.shaped hs) y hy).trans (h1.frame hs y hy)⟩

/-- an operation that leaves the grid and the size alone -/
theorem Upd.of_grid {D : Nat → Prop} {s s' : Scr} (hg : s'.grid = s.grid) (hw : s'.w = s.w)
    (hh : s'.h = s.h) : Upd D s s' :=
  ⟨hw, hh, fun hs => ⟨by rw [hg, hh]; exact hs.1, fun r hr => by rw [hw]; exact hs.2 r (hg ▸ hr)⟩,
   fun _ _ _ => by rw [hg]⟩

namespace Lemmas

theorem inv_iff (s : Scr) : s.inv = true ↔
    (1 ≤ s.w ∧ 1 ≤ s.h ∧ s.grid.length = s.h ∧ (∀ r ∈ s.grid, r.length = s.w ∧ rowWF r = true) ∧
      s.cx < s.w ∧ s.cy < s.h ∧ s.sx < s.w ∧ s.sy < s.h ∧ s.top ≤ s.bot ∧ s.bot < s.h) := by
  simp [Scr.inv, and_assoc]

theorem inv_shaped {s : Scr} (h : s.inv = true) : Shaped s := by
  obtain ⟨_, _, c, d, _⟩ := (inv_iff s).1 h
  exact ⟨c, fun r hr => (d r hr).1⟩

theorem inv_rowsWF {s : Scr} (h : s.inv = true) : RowsWF s := by
  obtain ⟨_, _, _, d, _⟩ := (inv_iff s).1 h
  exact fun r hr => (d r hr).2

theorem row_eq (s : Scr) (y : Nat) : s.row y = (s.grid[y]?).getD [] := by
  unfold Scr.row; rw [List.getD_eq_getElem?_getD]

theorem row_mem (s : Scr) (y : Nat) (h : y < s.grid.length) : s.row y ∈ s.grid := by
  rw [row_eq, List.getElem?_eq_getElem h]; simp

/-! ### scroll -/

/-- the rows `[a,b]` after `Scr.scroll` -/
def scrollMid (s : Scr) (a b : Nat) (d : Int) : List Row :=
  let n := b - a + 1
  let k := min d.natAbs n
  let region := (s.grid.drop a).take n
  let blanks := List.replicate k (blankRow s.w s.sty)
  if d ≥ 0 then blanks ++ region.take (n - k) else region.drop k ++ blanks

theorem scroll_noop (s : Scr) (a b : Nat) (d : Int) (hc : a > b ∨ b ≥ s.h) : s.scroll a b d = s := by
  unfold Scr.scroll; rw [if_pos hc]

theorem scroll_eq (s : Scr) (a b : Nat) (d : Int) (hc : ¬ (a > b ∨ b ≥ s.h)) :
    s.scroll a b d = { s with grid := s.grid.take a ++ scrollMid s a b d ++ s.grid.drop (b + 1) } := by
  unfold Scr.scroll scrollMid; rw [if_neg hc]

theorem scrollMid_length (s : Scr) (a b : Nat) (d : Int) (hg : s.grid.length = s.h)
    (hc : ¬ (a > b ∨ b ≥ s.h)) : (scrollMid s a b d).length = b - a + 1 := by
  unfold scrollMid
  simp only []
  split <;> simp only [List.length_append, List.length_replicate, List.length_take,
    List.length_drop, hg] <;> omega

theorem scrollMid_mem (s : Scr) (a b : Nat) (d : Int) (r : Row) (h : r ∈ scrollMid s a b d) :
    r ∈ s.grid ∨ r = blankRow s.w s.sty := by
  unfold scrollMid at h
  simp only [] at h
  split at h
  · rcases List.mem_append.1 h with h | h
    · exact Or.inr (List.mem_replicate.1 h).2
    · exact Or.inl (List.mem_of_mem_drop (List.mem_of_mem_take (List.mem_of_mem_take h)))
  · rcases List.mem_append.1 h with h | h
    · exact Or.inl (List.mem_of_mem_drop (List.mem_of_mem_take (List.mem_of_mem_drop h)))
    · exact Or.inr (List.mem_replicate.1 h).2

theorem scroll_mem (s : Scr) (a b : Nat) (d : Int) (r : Row) (h : r ∈ (s.scroll a b d).grid) :
    r ∈ s.grid ∨ r = blankRow s.w s.sty := by
  by_cases hc : a > b ∨ b ≥ s.h
  · rw [scroll_noop s a b d hc] at h; exact Or.inl h
  · rw [scroll_eq s a b d hc] at h
    simp only [List.mem_append] at h
    rcases h with (h | h) | h
    · exact Or.inl (List.mem_of_mem_take h)
    · exact scrollMid_mem s a b d r h
    · exact Or.inl (List.mem_of_mem_drop h)

theorem scroll_fields (s : Scr) (a b : Nat) (d : Int) :
    (s.scroll a b d).w = s.w ∧ (s.scroll a b d).h = s.h ∧ (s.scroll a b d).cx = s.cx ∧
    (s.scroll a b d).cy = s.cy ∧ (s.scroll a b d).sx = s.sx ∧ (s.scroll a b d).sy = s.sy ∧
    (s.scroll a b d).top = s.top ∧ (s.scroll a b d).bot = s.bot ∧
    (s.scroll a b d).wrap = s.wrap ∧ (s.scroll a b d).sty = s.sty := by
  unfold Scr.scroll; split <;> simp

/-- **scroll**: only rows `[a,b]` can change; the size and the shape are kept -/
theorem upd_scroll (s : Scr) (a b : Nat) (d : Int) :
    Upd (fun y => a ≤ y ∧ y ≤ b) s (s.scroll a b d) := by
  by_cases hc : a > b ∨ b ≥ s.h
  · rw [scroll_noop s a b d hc]; exact Upd.refl _ _
  · refine ⟨(scroll_fields s a b d).1, (scroll_fields s a b d).2.1, ?_, ?_⟩
    · intro hs
      obtain ⟨f1, f2, _⟩ := scroll_fields s a b d
      refine ⟨?_, ?_⟩
      · rw [f2, scroll_eq s a b d hc]
        simp only [List.length_append, List.length_take, List.length_drop,
          scrollMid_length s a b d hs.1 hc, hs.1]
        omega
      · intro r hr
        rw [f1]
        rcases scroll_mem s a b d r hr with h | h
        · exact hs.2 r h
        · rw [h]; exact blankRow_length _ _
    · intro hs y hy
      rw [scroll_eq s a b d hc]
      have hml := scrollMid_length s a b d hs.1 hc
      have hg := hs.1
      simp only [List.getElem?_append, List.length_append, List.length_take, hml, hg,
        List.getElem?_take, List.getElem?_drop]
      have m1 : min a s.h = a := by omega
      rw [m1]
      by_cases h1 : y < a
      · have : y < a + (b - a + 1) := by omega
        simp [h1, this]
      · have h2 : ¬ y < a + (b - a + 1) := by omega
        simp only [h2, if_false]
        congr 1; omega

theorem lineDown_grid (s : Scr) :
    s.lineDown.grid = if s.cy = s.bot then (s.scroll s.top s.bot (-1)).grid else s.grid := by
  unfold Scr.lineDown
  split
  · rfl
  · split <;> rfl

theorem lineDown_fields (s : Scr) :
    s.lineDown.w = s.w ∧ s.lineDown.h = s.h ∧ s.lineDown.cx = s.cx ∧
    s.lineDown.sx = s.sx ∧ s.lineDown.sy = s.sy ∧
    s.lineDown.top = s.top ∧ s.lineDown.bot = s.bot ∧
    s.lineDown.wrap = s.wrap ∧ s.lineDown.sty = s.sty := by
  unfold Scr.lineDown
  split
  · have := scroll_fields s s.top s.bot (-1); simp [this]
  · split <;> simp

theorem lineDown_cy (s : Scr) :
    s.lineDown.cy = if s.cy ≠ s.bot ∧ s.cy + 1 < s.h then s.cy + 1 else s.cy := by
  unfold Scr.lineDown
  split
  · next h => rw [(scroll_fields s s.top s.bot (-1)).2.2.2.1]; simp [h]
  · next h => split <;> simp [*]

theorem lineUp_fields (s : Scr) :
    s.lineUp.w = s.w ∧ s.lineUp.h = s.h ∧ s.lineUp.cx = s.cx ∧
    s.lineUp.sx = s.sx ∧ s.lineUp.sy = s.sy ∧
    s.lineUp.top = s.top ∧ s.lineUp.bot = s.bot ∧
    s.lineUp.wrap = s.wrap ∧ s.lineUp.sty = s.sty := by
  unfold Scr.lineUp
  split
  · have := scroll_fields s s.top s.bot 1; simp [this]
  · split <;> simp

theorem lineDown_mem (s : Scr) (r : Row) (h : r ∈ s.lineDown.grid) :
    r ∈ s.grid ∨ r = blankRow s.w s.sty := by
  rw [lineDown_grid] at h
  split at h
  · exact scroll_mem s _ _ _ r h
  · exact Or.inl h

/-- **LF / IND / autowrap**: only the rows of the scroll region can change -/
theorem upd_lineDown (s : Scr) : Upd (fun y => s.top ≤ y ∧ y ≤ s.bot) s s.lineDown := by
  unfold Scr.lineDown
  split
  · exact upd_scroll s s.top s.bot (-1)
  · split
    · exact Upd.of_grid rfl rfl rfl
    · exact Upd.refl _ _

/-- **RI**: only the rows of the scroll region can change -/
theorem upd_lineUp (s : Scr) : Upd (fun y => s.top ≤ y ∧ y ≤ s.bot) s s.lineUp := by
  unfold Scr.lineUp
  split
  · exact upd_scroll s s.top s.bot 1
  · split
    · exact Upd.of_grid rfl rfl rfl
    · exact Upd.refl _ _

/-! ### one row replaced; erase; DCH -/

theorem upd_setRow (s : Scr) (c : Nat) (r' : Row)
    (hl : Shaped s → c < s.grid.length → r'.length = s.w) :
    Upd (fun y => y = c) s (s.setRow c r') := by
  refine ⟨rfl, rfl, ?_, ?_⟩
  · intro hs
    refine ⟨?_, ?_⟩
    · show (s.grid.set c r').length = s.h
      rw [List.length_set]; exact hs.1
    · intro r hr
      by_cases hc : c < s.grid.length
      · rcases List.mem_or_eq_of_mem_set hr with h | h
        · exact hs.2 r h
        · rw [h]; exact hl hs hc
      · have : (s.setRow c r').grid = s.grid := List.set_eq_of_length_le (by omega)
        rw [this] at hr
        exact hs.2 r hr
  · intro _ y hy
    show (s.grid.set c r')[y]? = s.grid[y]?
    rw [List.getElem?_set, if_neg (fun e => hy e.symm)]

theorem upd_eraseRegion (s : Scr) (x1 y1 x2 y2 : Nat) :
    Upd (fun y => y1 ≤ y ∧ y < y2) s (s.eraseRegion x1 y1 x2 y2) := by
  refine ⟨rfl, rfl, ?_, ?_⟩
  · intro hs
    refine ⟨?_, ?_⟩
    · show (s.grid.mapIdx _).length = s.h
      rw [List.length_mapIdx]; exact hs.1
    · intro r hr
      have hr' : r ∈ s.grid.mapIdx
          (fun y r => if y1 ≤ y ∧ y < y2 then r.erase x1 x2 s.sty else r) := hr
      obtain ⟨i, hi⟩ := List.mem_iff_getElem?.1 hr'
      rw [List.getElem?_mapIdx] at hi
      cases hg : s.grid[i]? with
      | none => rw [hg] at hi; cases hi
      | some r0 =>
        rw [hg] at hi
        simp only [Option.map_some, Option.some.injEq] at hi
        have h0 : r0.length = s.w := hs.2 r0 (List.mem_iff_getElem?.2 ⟨i, hg⟩)
        rw [← hi]
        show (if y1 ≤ i ∧ i < y2 then r0.erase x1 x2 s.sty else r0).length = s.w
        split
        · rw [erase_length]; exact h0
        · exact h0
  · intro _ y hy
    show (s.grid.mapIdx _)[y]? = s.grid[y]?
    rw [List.getElem?_mapIdx]
    cases s.grid[y]? with
    | none => rfl
    | some r0 => simp only [Option.map_some, if_neg hy]

theorem upd_eraseRegionI (s : Scr) (x1 y1 x2 y2 : Int) :
    Upd (fun y => clampNat y1 s.h ≤ y ∧ y < max (clampNat y2 s.h) (clampNat y1 s.h)) s
      (s.eraseRegionI x1 y1 x2 y2) := by
  unfold Scr.eraseRegionI
  exact upd_eraseRegion ..

theorem upd_dch (s : Scr) (n : Nat) : Upd (fun y => y = s.cy) s (s.dch n) := by
  unfold Scr.dch
  apply upd_setRow
  intro hs h
  rw [dch_length]
  exact hs.2 _ (row_mem s s.cy h)

/-! ### `Scr.put`, both policies -/

/-- the cell width `Scr.put` really uses -/
def effW (s : Scr) (w0 : Nat) : Nat := if max w0 1 > s.w then 1 else max w0 1

/-- the bytes `Scr.put` really stores -/
def effText (s : Scr) (text : Bytes) (w0 : Nat) : Bytes :=
  if max w0 1 > s.w then replacementChar else text

/-- first step of `Scr.put`: the right-edge adjustment of the cursor (early wrap, or pull back) -/
def pre (s : Scr) (w : Nat) : Scr :=
  if s.cx + w > s.w then
    (if s.wrap then ({ s with cx := 0 } : Scr).lineDown else { s with cx := s.w - w })
  else s

/-- second step: the row written at the cursor -/
def putRowOf (pol : WidePolicy) (s : Scr) (text : Bytes) (w : Nat) : Row :=
  if (contAt (s.row s.cy) s.cx && pol == .keep) = true
  then (s.row s.cy).putKeep s.cx text w s.sty else (s.row s.cy).put s.cx text w s.sty

/-- the cursor column aimed at -/
def putX (pol : WidePolicy) (s : Scr) (w : Nat) : Nat :=
  s.cx + w + (if (contAt (s.row s.cy) s.cx && pol == .keep) = true
    then headOf (s.row s.cy) s.cx + widthAt (s.row s.cy) (headOf (s.row s.cy) s.cx) - s.cx else 0)

/-- third step: place the cursor, wrapping (late wrap) or clamping at the edge -/
def finish (s1 : Scr) (x : Nat) : Scr :=
  if x < s1.w then { s1 with cx := x }
  else if s1.wrap then ({ s1 with cx := x - s1.w } : Scr).lineDown
  else { s1 with cx := s1.w - 1 }

theorem put_eq (pol : WidePolicy) (s : Scr) (text0 : Bytes) (w0 : Nat) :
    Scr.put pol s text0 w0 =
      finish ((pre s (effW s w0)).setRow (pre s (effW s w0)).cy
          (putRowOf pol (pre s (effW s w0)) (effText s text0 w0) (effW s w0)))
        (putX pol (pre s (effW s w0)) (effW s w0)) := rfl

theorem effW_pos (s : Scr) (w0 : Nat) : 1 ≤ effW s w0 := by unfold effW; split <;> omega

theorem pre_fields (s : Scr) (w : Nat) :
    (pre s w).w = s.w ∧ (pre s w).h = s.h ∧ (pre s w).top = s.top ∧ (pre s w).bot = s.bot ∧
    (pre s w).wrap = s.wrap ∧ (pre s w).sty = s.sty ∧
    ((pre s w).cy = s.cy ∨ (pre s w).cy = s.cy + 1) := by
  unfold pre
  split
  · split
    · obtain ⟨f1, f2, _, _, _, f6, f7, f8, f9⟩ := lineDown_fields ({ s with cx := 0 } : Scr)
      refine ⟨f1, f2, f6, f7, f8, f9, ?_⟩
      rw [lineDown_cy]
      split
      · exact Or.inr rfl
      · exact Or.inl rfl
    · simp
  · simp

theorem pre_rowsWF (s : Scr) (w : Nat) (h : RowsWF s) : RowsWF (pre s w) := by
  unfold pre
  split
  · split
    · intro r hr
      rcases lineDown_mem _ r hr with hr | hr
      · exact h r hr
      · rw [hr]; exact blankRow_wf _ _
    · exact h
  · exact h

theorem upd_pre (s : Scr) (w : Nat) :
    Upd (fun y => s.wrap = true ∧ s.top ≤ y ∧ y ≤ s.bot) s (pre s w) := by
  unfold pre
  split
  · split
    · next hw =>
      have h1 : Upd (fun y => s.wrap = true ∧ s.top ≤ y ∧ y ≤ s.bot) s ({ s with cx := 0 } : Scr) :=
        Upd.of_grid rfl rfl rfl
      exact h1.trans ((upd_lineDown ({ s with cx := 0 } : Scr)).mono (fun y hy => ⟨hw, hy⟩))
    · exact Upd.of_grid rfl rfl rfl
  · exact Upd.refl _ _

theorem putRowOf_length (pol : WidePolicy) (s : Scr) (text : Bytes) (w : Nat) (hw : 1 ≤ w)
    (hwf : rowWF (s.row s.cy) = true) :
    (putRowOf pol s text w).length = (s.row s.cy).length := by
  unfold putRowOf
  split
  · next hk =>
    simp only [Bool.and_eq_true] at hk
    exact putKeep_length _ _ _ _ _ hwf hk.1 hw
  · exact put_length ..

theorem finish_fields (s1 : Scr) (x : Nat) :
    (finish s1 x).w = s1.w ∧ (finish s1 x).h = s1.h ∧
    (finish s1 x).sx = s1.sx ∧ (finish s1 x).sy = s1.sy ∧
    (finish s1 x).top = s1.top ∧ (finish s1 x).bot = s1.bot ∧
    (finish s1 x).wrap = s1.wrap ∧ (finish s1 x).sty = s1.sty := by
  unfold finish
  split
  · simp
  · split
    · have := lineDown_fields ({ s1 with cx := x - s1.w } : Scr)
      simp only [this, and_self]
    · simp

theorem upd_finish (s1 : Scr) (x : Nat) :
    Upd (fun y => s1.wrap = true ∧ s1.top ≤ y ∧ y ≤ s1.bot) s1 (finish s1 x) := by
  unfold finish
  split
  · exact Upd.of_grid rfl rfl rfl
  · split
    · next hw =>
      have h1 : Upd (fun y => s1.wrap = true ∧ s1.top ≤ y ∧ y ≤ s1.bot) s1
          ({ s1 with cx := x - s1.w } : Scr) := Upd.of_grid rfl rfl rfl
      exact h1.trans ((upd_lineDown ({ s1 with cx := x - s1.w } : Scr)).mono (fun y hy => ⟨hw, hy⟩))
    · exact Upd.of_grid rfl rfl rfl

/-- the rows a text token can touch: the cursor row, the row below it, and — with autowrap on —
    the scroll region -/
def putRows (s : Scr) (y : Nat) : Prop :=
  (s.cy ≤ y ∧ y < s.cy + 2) ∨ (s.wrap = true ∧ s.top ≤ y ∧ y ≤ s.bot)

/-- **text, every branch of `Scr.put`, both policies.** On a screen whose rows are well formed
    (needed only for the span policy on a continuation cell) the write touches only `putRows`
    and keeps size and shape. -/
theorem upd_put (pol : WidePolicy) (s : Scr) (text0 : Bytes) (w0 : Nat) (hwf : RowsWF s) :
    Upd (putRows s) s (Scr.put pol s text0 w0) := by
  rw [put_eq]
  obtain ⟨f1, f2, f3, f4, f5, f6, f7⟩ := pre_fields s (effW s w0)
  have hwf1 := pre_rowsWF s (effW s w0) hwf
  have u1 : Upd (putRows s) s (pre s (effW s w0)) := (upd_pre s (effW s w0)).mono (fun y hy => Or.inr hy)
  generalize pre s (effW s w0) = s1 at *
  have u2 : Upd (putRows s) s1
      (s1.setRow s1.cy (putRowOf pol s1 (effText s text0 w0) (effW s w0))) := by
    refine (upd_setRow s1 s1.cy _ ?_).mono ?_
    · intro hs hc
      rw [putRowOf_length _ _ _ _ (effW_pos s w0) (hwf1 _ (row_mem s1 s1.cy hc))]
      exact hs.2 _ (row_mem s1 s1.cy hc)
    · intro y hy
      left
      rcases f7 with h | h <;> omega
  have u3 := upd_finish (s1.setRow s1.cy (putRowOf pol s1 (effText s text0 w0) (effW s w0)))
    (putX pol s1 (effW s w0))
  refine (u1.trans u2).trans (u3.mono ?_)
  intro y hy
  right
  have e1 : (s1.setRow s1.cy (putRowOf pol s1 (effText s text0 w0) (effW s w0))).wrap = s1.wrap := rfl
  have e2 : (s1.setRow s1.cy (putRowOf pol s1 (effText s text0 w0) (effW s w0))).top = s1.top := rfl
  have e3 : (s1.setRow s1.cy (putRowOf pol s1 (effText s text0 w0) (effW s w0))).bot = s1.bot := rfl
  rw [e1, e2, e3, f5, f3, f4] at hy
  exact hy

theorem put_sty (pol : WidePolicy) (s : Scr) (text0 : Bytes) (w0 : Nat) :
    (Scr.put pol s text0 w0).sty = s.sty := by
  rw [put_eq, (finish_fields _ _).2.2.2.2.2.2.2]
  exact (pre_fields s (effW s w0)).2.2.2.2.2.1

end Lemmas
open Lemmas

/-! ## 3. Terminal level: a token touches the active screen only inside its announced damage -/

/-- row `y` lies in an announced region (all announced regions span the full width) -/
def dmgRow (t : Term) (tok : Tok) (y : Nat) : Prop := ∃ r ∈ t.damage tok, r.y1 ≤ y ∧ y < r.y2

/-- `t'` has the same active buffer as `t`, the same policy and the same inactive buffer; the
    active screen is updated only in rows `D` -/
structure StepU (D : Nat → Prop) (t t' : Term) : Prop where
  onAlt : t'.onAlt = t.onAlt
  pol : t'.pol = t.pol
  upd : Upd D t.scr t'.scr
  inactive : if t.onAlt then t'.main = t.main else t'.alt = t.alt

namespace Lemmas

theorem scr_setScr (t : Term) (s : Scr) : (t.setScr s).scr = s := by
  unfold Term.setScr Term.scr
  cases t.onAlt <;> simp

theorem stepU_refl (D : Nat → Prop) (t : Term) : StepU D t t :=
  ⟨rfl, rfl, Upd.refl _ _, by split <;> rfl⟩

theorem stepU_setScr {D : Nat → Prop} (t : Term) (s' : Scr) (h : Upd D t.scr s') :
    StepU D t (t.setScr s') := by
  refine ⟨?_, ?_, ?_, ?_⟩
  · unfold Term.setScr; cases t.onAlt <;> simp
  · unfold Term.setScr; cases t.onAlt <;> simp
  · rw [scr_setScr]; exact h
  · unfold Term.setScr; cases h : t.onAlt <;> simp

/-- cursor / rendition / margin updates: the grid and the size are those of the active screen -/
theorem stepU_setScr_grid {D : Nat → Prop} (t : Term) (s' : Scr) (hg : s'.grid = t.scr.grid)
    (hw : s'.w = t.scr.w) (hh : s'.h = t.scr.h) : StepU D t (t.setScr s') :=
  stepU_setScr t s' (Upd.of_grid hg hw hh)

theorem stepU_withScr_grid {D : Nat → Prop} (t : Term) (s' : Scr) (hg : s'.grid = t.scr.grid)
    (hw : s'.w = t.scr.w) (hh : s'.h = t.scr.h) : StepU D t (t.withScr s').1 :=
  stepU_setScr_grid t s' hg hw hh

theorem stepU_setKbd (D : Nat → Prop) (t : Term) (k : Kbd) : StepU D t (t.setKbd k) := by
  unfold Term.setKbd
  cases h : t.onAlt
  · refine ⟨by simp [h], by simp, ?_, by simp [h]⟩
    simp only [Term.scr, h]; exact Upd.refl _ _
  · refine ⟨by simp [h], by simp, ?_, by simp [h]⟩
    simp only [Term.scr, h]; exact Upd.refl _ _

theorem stepU_setVFlag (D : Nat → Prop) (t : Term) (i : Nat) (v : Bool) :
    StepU D t (t.setVFlag i v).1 := ⟨rfl, rfl, Upd.refl _ _, by split <;> rfl⟩

theorem stepU_setVInt (D : Nat → Prop) (t : Term) (i : Nat) (v : Int) :
    StepU D t (t.setVInt i v).1 := ⟨rfl, rfl, Upd.refl _ _, by split <;> rfl⟩

theorem stepU_setVStr (D : Nat → Prop) (t : Term) (i : Nat) (v : Bytes) :
    StepU D t (t.setVStr i v).1 := ⟨rfl, rfl, Upd.refl _ _, by split <;> rfl⟩

theorem stepU_dite {D : Nat → Prop} {t : Term} {c : Prop} [Decidable c] {a b : Term × List Ev}
    (ha : c → StepU D t a.1) (hb : ¬c → StepU D t b.1) : StepU D t (if c then a else b).1 := by
  split
  · exact ha ‹_›
  · exact hb ‹_›

theorem setMargins_grid (s : Scr) (a b : Int) :
    (s.setMargins a b).grid = s.grid ∧ (s.setMargins a b).w = s.w ∧ (s.setMargins a b).h = s.h := by
  unfold Scr.setMargins
  simp only []
  split <;> simp

/-! ### the damage of each token class, as a set of rows -/

theorem dmgRow_text (t : Term) (st : Bytes) (cp : Nat) (y : Nat) :
    dmgRow t (.text st cp) y ↔ putRows t.scr y := by
  simp only [dmgRow, putRows, Term.damage, rowsRegion]
  cases hw : t.scr.wrap <;> simp <;> omega

theorem dmgRow_region (t : Term) (tok : Tok) (a b : Nat) (y : Nat)
    (h : t.damage tok = [rowsRegion t.scr a b]) : dmgRow t tok y ↔ (a ≤ y ∧ y < b) := by
  unfold dmgRow; rw [h]; simp [rowsRegion]

theorem damage_csi_row (t : Term) (ps : List Int) (fin : UInt8)
    (h : fin = 0x4b ∨ fin = 0x58 ∨ fin = 0x50) :
    t.damage (.csi 0 ps true fin) = [rowsRegion t.scr t.scr.cy (t.scr.cy + 1)] := by
  rcases h with h | h | h <;> subst h <;> simp [Term.damage]

theorem damage_csi_J (t : Term) (ps : List Int) :
    t.damage (.csi 0 ps true 0x4a) = [rowsRegion t.scr 0 t.scr.h] := by
  simp [Term.damage]

theorem damage_csi_LM (t : Term) (ps : List Int) (fin : UInt8) (h : fin = 0x4c ∨ fin = 0x4d) :
    t.damage (.csi 0 ps true fin) = [rowsRegion t.scr t.scr.cy (t.scr.bot + 1)] := by
  rcases h with h | h <;> subst h <;> simp [Term.damage]

theorem damage_csi_ST (t : Term) (ps : List Int) (fin : UInt8) (h : fin = 0x53 ∨ fin = 0x54) :
    t.damage (.csi 0 ps true fin) = [rowsRegion t.scr t.scr.top (t.scr.bot + 1)] := by
  rcases h with h | h <;> subst h <;> simp [Term.damage]

/-- close a `StepU D t (if … then … else …).1` goal whose leaves change no cell -/
macro "stepU_leaves" : tactic =>
  `(tactic| repeat' (first
      | exact stepU_refl _ _
      | exact stepU_setKbd _ _ _
      | exact stepU_setVFlag _ _ _ _
      | exact stepU_setVInt _ _ _ _
      | exact stepU_setVStr _ _ _ _
      | exact stepU_withScr_grid _ _ rfl rfl rfl
      | exact stepU_setScr_grid _ _ rfl rfl rfl
      | (apply stepU_dite <;> intro _)))

/-- **unprefixed CSI**: EL / ED / ECH / DCH touch the announced rows, IL / DL / SU / SD the
    announced part of the scroll region, everything else (cursor motion, SGR, save / restore,
    DECSTBM, DA, DSR, unknown finals) changes no cell -/
theorem stepU_csiPlain (t : Term) (ps : List Int) (fin : UInt8) :
    StepU (dmgRow t (.csi 0 ps true fin)) t (t.csiPlain ps fin).1 := by
  unfold Term.csiPlain
  simp only []
  stepU_leaves
  -- EL 0 / 1 / 2
  · refine stepU_setScr _ _ ((upd_eraseRegionI ..).mono fun y hy => ?_)
    rw [dmgRow_region _ _ _ _ _ (damage_csi_row t ps fin (Or.inl ‹_›))]
    simp only [clampNat] at hy; omega
  · refine stepU_setScr _ _ ((upd_eraseRegionI ..).mono fun y hy => ?_)
    rw [dmgRow_region _ _ _ _ _ (damage_csi_row t ps fin (Or.inl ‹_›))]
    simp only [clampNat] at hy; omega
  · refine stepU_setScr _ _ ((upd_eraseRegionI ..).mono fun y hy => ?_)
    rw [dmgRow_region _ _ _ _ _ (damage_csi_row t ps fin (Or.inl ‹_›))]
    simp only [clampNat] at hy; omega
  -- ED 0 / 1
  · subst ‹fin = 0x4a›
    refine stepU_setScr _ _ (Upd.trans ((upd_eraseRegionI ..).mono fun y hy => ?_)
      ((upd_eraseRegionI ..).mono fun y hy => ?_))
    all_goals
      rw [dmgRow_region _ _ _ _ _ (damage_csi_J t ps)]
      simp only [clampNat, Scr.eraseRegionI, Scr.eraseRegion] at hy; omega
  · subst ‹fin = 0x4a›
    refine stepU_setScr _ _ (Upd.trans ((upd_eraseRegionI ..).mono fun y hy => ?_)
      ((upd_eraseRegionI ..).mono fun y hy => ?_))
    all_goals
      rw [dmgRow_region _ _ _ _ _ (damage_csi_J t ps)]
      simp only [clampNat, Scr.eraseRegionI, Scr.eraseRegion] at hy; omega
  -- ED 2
  · subst ‹fin = 0x4a›
    refine stepU_setScr _ _ (Upd.trans ((upd_eraseRegionI ..).mono fun y hy => ?_)
      (Upd.of_grid rfl rfl rfl))
    rw [dmgRow_region _ _ _ _ _ (damage_csi_J t ps)]
    simp only [clampNat] at hy; omega
  -- IL
  · refine stepU_setScr _ _ ((upd_scroll ..).mono fun y hy => ?_)
    rw [dmgRow_region _ _ _ _ _ (damage_csi_LM t ps fin (Or.inl ‹_›))]; omega
  -- DL
  · refine stepU_setScr _ _ ((upd_scroll ..).mono fun y hy => ?_)
    rw [dmgRow_region _ _ _ _ _ (damage_csi_LM t ps fin (Or.inr ‹_›))]; omega
  -- SU
  · refine stepU_setScr _ _ ((upd_scroll ..).mono fun y hy => ?_)
    rw [dmgRow_region _ _ _ _ _ (damage_csi_ST t ps fin (Or.inl ‹_›))]; omega
  -- SD
  · refine stepU_setScr _ _ ((upd_scroll ..).mono fun y hy => ?_)
    rw [dmgRow_region _ _ _ _ _ (damage_csi_ST t ps fin (Or.inr ‹_›))]; omega
  -- DCH
  · refine stepU_setScr _ _ ((upd_dch ..).mono fun y hy => ?_)
    rw [dmgRow_region _ _ _ _ _ (damage_csi_row t ps fin (Or.inr (Or.inr ‹_›)))]; omega
  -- ECH
  · refine stepU_setScr _ _ ((upd_eraseRegionI ..).mono fun y hy => ?_)
    rw [dmgRow_region _ _ _ _ _ (damage_csi_row t ps fin (Or.inr (Or.inl ‹_›)))]
    simp only [clampNat] at hy; omega
  -- DECSTBM
  · obtain ⟨a, b, c⟩ := setMargins_grid t.scr (pAt ps 0 1 - 1) (pAt ps 1 t.scr.h - 1)
    exact stepU_setScr_grid _ _ a b c

/-! ### DEC private modes: no cell of either buffer changes; only 1049 changes the active buffer -/

/-- `t'` has the grids, sizes and policy of `t` (what `CSI ? … h/l` preserves) -/
structure SameGrids (t t' : Term) : Prop where
  pol : t'.pol = t.pol
  mg : t'.main.grid = t.main.grid
  mw : t'.main.w = t.main.w
  mh : t'.main.h = t.main.h
  ag : t'.alt.grid = t.alt.grid
  aw : t'.alt.w = t.alt.w
  ah : t'.alt.h = t.alt.h

theorem sg_refl (t : Term) : SameGrids t t := ⟨rfl, rfl, rfl, rfl, rfl, rfl, rfl⟩

theorem sg_trans {a b c : Term} (h1 : SameGrids a b) (h2 : SameGrids b c) : SameGrids a c :=
  ⟨h2.pol.trans h1.pol, h2.mg.trans h1.mg, h2.mw.trans h1.mw, h2.mh.trans h1.mh,
   h2.ag.trans h1.ag, h2.aw.trans h1.aw, h2.ah.trans h1.ah⟩

theorem sg_setWrap (t : Term) (v : Bool) : SameGrids t (t.setScr { t.scr with wrap := v }) := by
  unfold Term.setScr Term.scr
  cases t.onAlt <;> constructor <;> simp

theorem sg_switchScreen (t : Term) (v : Bool) : SameGrids t (t.switchScreen v).1 := by
  unfold Term.switchScreen
  split
  · exact sg_refl _
  · constructor <;> simp

theorem sg_dite {t : Term} {c : Prop} [Decidable c] {a b : Term × List Ev}
    (ha : c → SameGrids t a.1) (hb : ¬c → SameGrids t b.1) : SameGrids t (if c then a else b).1 := by
  split
  · exact ha ‹_›
  · exact hb ‹_›

theorem sg_decMode (t : Term) (p : Int) (v : Bool) : SameGrids t (t.decMode p v).1 := by
  unfold Term.decMode
  repeat' (first
    | exact sg_refl _ | exact sg_setWrap _ _ | exact sg_switchScreen _ _
    | exact ⟨rfl, rfl, rfl, rfl, rfl, rfl, rfl⟩
    | (apply sg_dite <;> intro _))

theorem decModes_cons (t : Term) (v : Bool) (p : Int) (ps : List Int) :
    t.decModes v (p :: ps) =
      (((t.decMode p v).1.decModes v ps).1, (t.decMode p v).2 ++ ((t.decMode p v).1.decModes v ps).2) := rfl

theorem sg_decModes (t : Term) (v : Bool) (ps : List Int) : SameGrids t (t.decModes v ps).1 := by
  induction ps generalizing t with
  | nil => exact sg_refl _
  | cons p ps ih =>
    rw [decModes_cons]
    exact sg_trans (sg_decMode t p v) (ih _)

theorem decMode_onAlt (t : Term) (p : Int) (v : Bool) (hp : p ≠ 1049) :
    (t.decMode p v).1.onAlt = t.onAlt := by
  unfold Term.decMode
  repeat' split
  all_goals first | rfl | contradiction | skip
  unfold Term.setScr; cases t.onAlt <;> simp

theorem decModes_onAlt (t : Term) (v : Bool) (ps : List Int) (h : (1049 : Int) ∉ ps) :
    (t.decModes v ps).1.onAlt = t.onAlt := by
  induction ps generalizing t with
  | nil => rfl
  | cons p ps ih =>
    rw [decModes_cons]
    simp only [List.mem_cons, not_or] at h
    exact (ih _ h.2).trans (decMode_onAlt t p v (Ne.symm h.1))

/-- the token is `CSI ? … h` or `CSI ? … l` (DECSET / DECRST), the only tokens that can switch
    buffers -/
def isDecset : Tok → Prop
  | .csi pfx _ clean fin => pfx = 0x3f ∧ clean = true ∧ (fin = 0x68 ∨ fin = 0x6c)
  | _ => False

instance (tok : Tok) : Decidable (isDecset tok) := by
  cases tok <;> unfold isDecset <;> infer_instance

theorem damage_csi_other (t : Term) (pfx : UInt8) (ps : List Int) (fin : UInt8) (h0 : pfx ≠ 0)
    (h : ¬ (pfx = 0x3f ∧ (fin = 0x68 ∨ fin = 0x6c))) :
    t.damage (.csi pfx ps true fin) = [] := by
  have : ¬ (pfx = 0x3f ∧ (fin = 0x68 ∨ fin = 0x6c) ∧ ps.contains 1049 = true) :=
    fun hh => h ⟨hh.1, hh.2.1⟩
  simp [Term.damage, h0, this]

/-- **every token other than DECSET / DECRST** keeps the active buffer active and changes cells
    of the active screen only in announced rows (rows of the screen must be well formed for the
    span policy's insertion after a wide character) -/
theorem stepU_apply (cw : Nat → Nat) (t : Term) (tok : Tok) (hd : ¬ isDecset tok)
    (hwf : RowsWF t.scr) : StepU (dmgRow t tok) t (Term.apply cw t tok).1 := by
  cases tok with
  | text st cp =>
    refine stepU_setScr _ _ ((upd_put t.pol t.scr st (cw cp) hwf).mono fun y hy => ?_)
    exact (dmgRow_text t st cp y).2 hy
  | ctl b =>
    simp only [Term.apply]
    stepU_leaves
    · -- LF
      refine stepU_setScr _ _ (Upd.trans (Upd.of_grid (s' := ({ t.scr with cx := 0 } : Scr)) rfl rfl rfl)
        ((upd_lineDown _).mono fun y hy => ?_))
      have : t.damage (.ctl b) = [rowsRegion t.scr t.scr.top (t.scr.bot + 1)] := by
        simp [Term.damage, ‹b = 10›]
      rw [dmgRow_region _ _ _ _ _ this]
      exact ⟨hy.1, Nat.lt_succ_of_le hy.2⟩
    · -- FF
      refine stepU_setScr _ _ ((upd_lineDown _).mono fun y hy => ?_)
      have : t.damage (.ctl b) = [rowsRegion t.scr t.scr.top (t.scr.bot + 1)] := by
        simp [Term.damage, ‹b = 12›]
      rw [dmgRow_region _ _ _ _ _ this]
      exact ⟨hy.1, Nat.lt_succ_of_le hy.2⟩
  | esc inter fin =>
    simp only [Term.apply]
    stepU_leaves
    · -- IND
      refine stepU_setScr _ _ ((upd_lineDown _).mono fun y hy => ?_)
      have hi : inter = [] := by simpa using ‹¬ inter ≠ []›
      have : t.damage (.esc inter fin) = [rowsRegion t.scr t.scr.top (t.scr.bot + 1)] := by
        simp [Term.damage, hi, ‹fin = 0x44›]
      rw [dmgRow_region _ _ _ _ _ this]
      exact ⟨hy.1, Nat.lt_succ_of_le hy.2⟩
    · -- RI
      refine stepU_setScr _ _ ((upd_lineUp _).mono fun y hy => ?_)
      have hi : inter = [] := by simpa using ‹¬ inter ≠ []›
      have : t.damage (.esc inter fin) = [rowsRegion t.scr t.scr.top (t.scr.bot + 1)] := by
        simp [Term.damage, hi, ‹fin = 0x4d›]
      rw [dmgRow_region _ _ _ _ _ this]
      exact ⟨hy.1, Nat.lt_succ_of_le hy.2⟩
  | csi pfx ps clean fin =>
    simp only [Term.apply]
    cases clean
    · exact stepU_refl _ _
    · simp only [if_true]
      unfold Term.csi
      by_cases h0 : pfx = 0
      · subst h0
        simp only [if_true]
        exact stepU_csiPlain t ps fin
      · simp only [if_neg h0]
        have hd' : ¬ (pfx = 0x3f ∧ (fin = 0x68 ∨ fin = 0x6c)) := fun hh => hd ⟨hh.1, rfl, hh.2⟩
        stepU_leaves
        · exact absurd ⟨‹pfx = 0x3f›, Or.inl ‹fin = 0x68›⟩ hd'
        · exact absurd ⟨‹pfx = 0x3f›, Or.inr ‹fin = 0x6c›⟩ hd'
        · split
          · split
            · exact stepU_setVInt _ _ _ _
            · exact stepU_refl _ _
          · exact stepU_refl _ _
  | osc n pl wf =>
    simp only [Term.apply]
    stepU_leaves
  | dcs => exact stepU_refl _ _

end Lemmas
open Lemmas

end TM.C10
