import TM.Notify
import TM.Run
import TM.Scrollback
/-!
# C10 — the frontend's shadow copy, refreshed only from the announcements, is exact

Property (fixed text): *A frontend that keeps its own copy of the screen and, on each
RegionChanged, refreshes only the announced cells by reading them back (as the callback contract
permits) always ends each input with an exact copy of the active screen, including across scrolls
and buffer switches. The most recent CursorMoved, StyleChanged and View\*Changed values always
equal the terminal's actual cursor, rendition and mode values, and rows scrolled off the top of
the main screen are announced through ScrollLines before they are lost.*

Model: `Term.damage t tok` (TM/Notify.lean) is the list of regions announced while `tok` is applied
in state `t`; `repaint shadow screen rs` is the frontend's copy after re-reading exactly the
announced cells. `Term.apply` returns the non-geometric events.

Convention on sizes: tokens never change the size of a buffer. `Term.resize` is initiated by the
owner of the frontend (it is not an input token); the owner then repaints everything, so resizing
is outside the statements below: they are about one token / a run of tokens at a fixed size.

Contents
* §1 row lemmas (lengths; copied from Props/C03, C05 where they exist there)
* §2 `Upd D s s'`: `s'` has the geometry of `s` and differs from it only in rows `y` with `D y`;
  one lemma per screen operation (scroll, lineDown/lineUp, erase, dch, put under both policies)
* §3 terminal level: every token updates the active screen only inside the announced damage
  (`StepU`, `stepU_apply`); DECSET / DECRST change no cell, only 1049 changes the active buffer
* §4 property theorems `changes_announced`, `switch_only_1049`, `switch_announces_everything`,
  `shadow_sync`, `shadow_sync_run`, `shadow_sync_every_step`, `shadow_sync_run_blank`,
  `shadow_sync_stream`, `shadow_sync_stream_blank`
* §5 notifications: `cursor_last`, `style_last`, `view_last_flag/int/str`,
  `notifications_last_stream`, `resize_last`, and `apply_emits_no_scrollLines` (the
  ScrollLines clause is NOT established in the model: the code calls `ScrollLines` since fix
  715b710, which is checked on the implementation by the harness monitor `scroll-lines`)
* §6 non-vacuity examples, and an example showing that `InvAlong` holds (and the copy is exact)
  under the span policy with a width-3 character

Which invariant along a run: `shadow_sync_run` takes `Scr.inv` of both buffers in every state
in which a token is applied as a hypothesis (`InvAlong`); Props/C02 proves it for all reachable
states (both policies, every width function). For the grid policy no such hypothesis is needed
(`shadow_sync_run_blank`): there only the shape of the grid matters and it is proved here to be
preserved by every token.
-/
namespace TM.C10
open TM

/-! ## 1. Rows -/
namespace Lemmas

theorem contAt_iff {r : Row} {x : Nat} : contAt r x = true ↔ ∃ st, r[x]? = some ⟨.cont, st⟩ := by
  unfold contAt; split <;> simp_all

theorem contAt_cont {r : Row} {x : Nat} {st : Style} (h : r[x]? = some ⟨.cont, st⟩) :
    contAt r x = true := contAt_iff.2 ⟨st, h⟩

theorem contAt_ch {r : Row} {x : Nat} {t : Bytes} {w : Nat} {st : Style}
    (h : r[x]? = some ⟨.ch t w, st⟩) : contAt r x = false := by
  unfold contAt; rw [h]

theorem contAt_none {r : Row} {x : Nat} (h : r[x]? = none) : contAt r x = false := by
  unfold contAt; rw [h]

theorem contAt_ge {r : Row} {x : Nat} (h : r.length ≤ x) : contAt r x = false :=
  contAt_none (List.getElem?_eq_none h)

theorem contAt_lt {r : Row} {x : Nat} (h : contAt r x = true) : x < r.length := by
  false_or_by_contra
  rw [contAt_ge (by omega)] at h; cases h

theorem widthAt_ch {r : Row} {x : Nat} {t : Bytes} {w : Nat} {st : Style}
    (h : r[x]? = some ⟨.ch t w, st⟩) : widthAt r x = max w 1 := by
  unfold widthAt; rw [h]

theorem headOf_le (r : Row) (x : Nat) : headOf r x ≤ x := by
  induction x with
  | zero => simp [headOf]
  | succ x ih => simp only [headOf]; split <;> omega

theorem headOf_cont (r : Row) (x j : Nat) (h1 : headOf r x < j) (h2 : j ≤ x) : contAt r j = true := by
  induction x with
  | zero => simp [headOf] at h1; omega
  | succ x ih =>
    simp only [headOf] at h1
    split at h1
    · next hc =>
      by_cases hj : j = x + 1
      · rw [hj]; exact hc
      · exact ih h1 (by omega)
    · omega

theorem headOf_head (r : Row) (x : Nat) : headOf r x = 0 ∨ contAt r (headOf r x) = false := by
  induction x with
  | zero => simp [headOf]
  | succ x ih =>
    simp only [headOf]
    split
    · exact ih
    · next hc => right; simpa using hc

theorem getElem?_lt {r : Row} {i : Nat} {c : Cell} (h : r[i]? = some c) : i < r.length := by
  false_or_by_contra
  rw [List.getElem?_eq_none (by omega)] at h; cases h

/-- `rowWF` as a predicate (one direction is enough here) -/
theorem rowWF_imp (r : Row) (hwf : rowWF r = true) :
    (contAt r 0 = false ∧ ∀ i t w st, r[i]? = some ⟨.ch t w, st⟩ →
      1 ≤ w ∧ i + w ≤ r.length ∧ (∀ k, i < k → k < i + w → contAt r k = true) ∧
        contAt r (i + w) = false) := by
  unfold rowWF at hwf
  rw [List.all_eq_true] at hwf
  simp only [List.mem_range] at hwf
  constructor
  · cases hc : contAt r 0 with
    | false => rfl
    | true =>
      obtain ⟨st, hst⟩ := contAt_iff.1 hc
      have := hwf 0 (contAt_lt hc)
      rw [hst] at this
      simp at this
  · intro i t w st h
    have hi : i < r.length := getElem?_lt h
    have := hwf i hi
    rw [h] at this
    simp only [Bool.and_eq_true, decide_eq_true_eq, List.all_eq_true, List.mem_range,
      Bool.not_eq_true'] at this
    refine ⟨this.1.1.1, this.1.1.2, ?_, this.2⟩
    intro k h1 h2
    have := this.1.2 (k - (i + 1)) (by omega)
    have e : i + 1 + (k - (i + 1)) = k := by omega
    rwa [e] at this

/-- under `rowWF`, the head of the character covering `x` is a `.ch` cell whose width reaches past `x` -/
theorem wf_head {r : Row} (hwf : rowWF r = true) {x : Nat} (hx : x < r.length) :
    ∃ t w st, r[headOf r x]? = some ⟨.ch t w, st⟩ ∧ 1 ≤ w ∧ x < headOf r x + w ∧
      headOf r x + w ≤ r.length ∧ widthAt r (headOf r x) = w := by
  have hle := headOf_le r x
  have hnc : contAt r (headOf r x) = false := by
    rcases headOf_head r x with h | h
    · rw [h]; exact (rowWF_imp r hwf).1
    · exact h
  cases hc : r[headOf r x]? with
  | none => rw [List.getElem?_eq_none_iff] at hc; omega
  | some c =>
    obtain ⟨g, st⟩ := c
    cases g with
    | cont => rw [contAt_cont hc] at hnc; cases hnc
    | ch t w =>
      obtain ⟨a, b, _, d⟩ := (rowWF_imp r hwf).2 _ _ _ _ hc
      refine ⟨t, w, st, rfl, a, ?_, b, ?_⟩
      · false_or_by_contra
        have := headOf_cont r x (headOf r x + w) (by omega) (by omega)
        rw [this] at d; cases d
      · rw [widthAt_ch hc]; omega

/-! ### lengths -/

theorem length_blankRange (r : Row) (a n : Nat) (st : Style) : (blankRange r a n st).length = r.length := by
  simp [blankRange]

theorem length_blankCharAt (r : Row) (x : Nat) (st : Style) : (blankCharAt r x st).length = r.length := by
  unfold blankCharAt
  simp only []
  split
  · rfl
  · exact length_blankRange ..

theorem length_blankStraddlers (r : Row) (a b : Nat) (st : Style) :
    (blankStraddlers r a b st).length = r.length := by
  unfold blankStraddlers
  simp only []
  split <;> split <;> simp [length_blankCharAt]

theorem length_setRange (r : Row) (a : Nat) (cells : List Cell) : (setRange r a cells).length = r.length := by
  simp [setRange]

theorem length_charCells (text : Bytes) (w : Nat) (st : Style) (hw : 1 ≤ w) :
    (charCells text w st).length = w := by
  simp [charCells]; omega

theorem put_length (r : Row) (x : Nat) (text : Bytes) (w : Nat) (st : Style) :
    (Row.put r x text w st).length = r.length := by
  unfold Row.put; rw [length_setRange, length_blankStraddlers]

theorem erase_length (r : Row) (a b : Nat) (st : Style) : (r.erase a b st).length = r.length := by
  unfold Row.erase
  simp only []
  split
  · rfl
  · rw [length_blankRange, length_blankStraddlers]

theorem dch_length (r : Row) (x n : Nat) (st : Style) : (r.dch x n st).length = r.length := by
  unfold Row.dch
  simp only []
  split
  · rfl
  · simp [length_blankStraddlers]; omega

theorem length_fixTail (r : Row) (st : Style) : (fixTail r st).length = r.length := by
  unfold fixTail
  split
  · next heq =>
    split
    · rw [List.getLast?_eq_getElem?] at heq
      have := getElem?_lt heq
      simp [List.length_dropLast]; omega
    · rfl
  · rfl

/-- the span-buffer insertion keeps the row length when the row is well formed (the kept wide
    character then really reaches past the cursor column) -/
theorem putKeep_length (r : Row) (x : Nat) (text : Bytes) (w : Nat) (st : Style)
    (hwf : rowWF r = true) (hc : contAt r x = true) (hw : 1 ≤ w) :
    (Row.putKeep r x text w st).length = r.length := by
  obtain ⟨t, wd, s', hch, _, hx, hlen, hwd⟩ := wf_head hwf (contAt_lt hc)
  unfold Row.putKeep cutRow
  simp only []
  have hl : (if contAt r (x + w) = true then blankCharAt r (x + w) st else r).length = r.length := by
    split
    · exact length_blankCharAt ..
    · rfl
  rw [List.length_take]
  apply Nat.min_eq_left
  have hk : ∀ p : Row, (if contAt p r.length = true then blankCharAt p r.length st else p).length
      = p.length := by
    intro p; split
    · exact length_blankCharAt ..
    · rfl
  rw [hk]
  simp only [List.length_append, List.length_take, length_charCells _ _ _ hw, hwd]
  split
  · simp only [List.length_append, List.length_replicate, List.length_drop]; omega
  · simp only [List.length_drop, hl]; omega

theorem blankRow_length (w : Nat) (st : Style) : (blankRow w st).length = w := by simp [blankRow]

theorem blankRow_wf (w : Nat) (st : Style) : rowWF (blankRow w st) = true := by
  unfold rowWF
  rw [List.all_eq_true]
  intro i hi
  simp only [List.mem_range, blankRow_length] at hi
  have hg : ∀ j, contAt (blankRow w st) j = false := by
    intro j
    cases h : contAt (blankRow w st) j with
    | false => rfl
    | true =>
      obtain ⟨s', hs'⟩ := contAt_iff.1 h
      simp [blankRow, List.getElem?_replicate, blank] at hs'
  have : (blankRow w st)[i]? = some ⟨.ch [0x20] 1, st⟩ := by
    simp [blankRow, hi, blank]
  rw [this]
  simp [hg, blankRow_length]
  omega

end Lemmas
open Lemmas

/-! ## 2. Screens: geometry and the rows an operation can touch -/

/-- the geometric part of `Scr.inv`: `h` rows of `w` cells -/
def Shaped (s : Scr) : Prop := s.grid.length = s.h ∧ ∀ r ∈ s.grid, r.length = s.w

/-- every row is well formed (wide characters whole) -/
def RowsWF (s : Scr) : Prop := ∀ r ∈ s.grid, rowWF r = true

/-- `s'` has the size of `s`, is as well shaped as `s`, and on a well-shaped `s` differs from it
    at most in the rows `y` with `D y` -/
structure Upd (D : Nat → Prop) (s s' : Scr) : Prop where
  w : s'.w = s.w
  h : s'.h = s.h
  shaped : Shaped s → Shaped s'
  frame : Shaped s → ∀ y, ¬ D y → s'.grid[y]? = s.grid[y]?

theorem Upd.refl (D : Nat → Prop) (s : Scr) : Upd D s s := ⟨rfl, rfl, id, fun _ _ _ => rfl⟩

theorem Upd.mono {D D' : Nat → Prop} {s s' : Scr} (h : Upd D s s') (hD : ∀ y, D y → D' y) :
    Upd D' s s' := ⟨h.w, h.h, h.shaped, fun hs y hy => h.frame hs y (fun hd => hy (hD y hd))⟩

theorem Upd.trans {D : Nat → Prop} {a b c : Scr} (h1 : Upd D a b) (h2 : Upd D b c) : Upd D a c :=
  ⟨h2.w.trans h1.w, h2.h.trans h1.h, fun hs => h2.shaped (h1.shaped hs),
   fun hs y hy => (h2.frame (h1.shaped hs) y hy).trans (h1.frame hs y hy)⟩

/-- an operation that leaves the grid and the size alone -/
theorem Upd.of_grid {D : Nat → Prop} {s s' : Scr} (hg : s'.grid = s.grid) (hw : s'.w = s.w)
    (hh : s'.h = s.h) : Upd D s s' :=
  ⟨hw, hh, fun hs => ⟨by rw [hg, hh]; exact hs.1, fun r hr => by rw [hw]; exact hs.2 r (hg ▸ hr)⟩,
   fun _ _ _ => by rw [hg]⟩

namespace Lemmas

theorem inv_iff (s : Scr) : s.inv = true ↔
    (1 ≤ s.w ∧ 1 ≤ s.h ∧ s.grid.length = s.h ∧ (∀ r ∈ s.grid, r.length = s.w ∧ rowWF r = true) ∧
      s.cx < s.w ∧ s.cy < s.h ∧ s.sx < s.w ∧ s.sy < s.h ∧ s.top ≤ s.bot ∧ s.bot < s.h) := by
  simp [Scr.inv, and_assoc]

theorem inv_shaped {s : Scr} (h : s.inv = true) : Shaped s := by
  obtain ⟨_, _, c, d, _⟩ := (inv_iff s).1 h
  exact ⟨c, fun r hr => (d r hr).1⟩

theorem inv_rowsWF {s : Scr} (h : s.inv = true) : RowsWF s := by
  obtain ⟨_, _, _, d, _⟩ := (inv_iff s).1 h
  exact fun r hr => (d r hr).2

theorem row_eq (s : Scr) (y : Nat) : s.row y = (s.grid[y]?).getD [] := by
  unfold Scr.row; rw [List.getD_eq_getElem?_getD]

theorem row_mem (s : Scr) (y : Nat) (h : y < s.grid.length) : s.row y ∈ s.grid := by
  rw [row_eq, List.getElem?_eq_getElem h]; simp

/-! ### scroll -/

/-- the rows `[a,b]` after `Scr.scroll` -/
def scrollMid (s : Scr) (a b : Nat) (d : Int) : List Row :=
  let n := b - a + 1
  let k := min d.natAbs n
  let region := (s.grid.drop a).take n
  let blanks := List.replicate k (blankRow s.w s.sty)
  if d ≥ 0 then blanks ++ region.take (n - k) else region.drop k ++ blanks

theorem scroll_noop (s : Scr) (a b : Nat) (d : Int) (hc : a > b ∨ b ≥ s.h) : s.scroll a b d = s := by
  unfold Scr.scroll; rw [if_pos hc]

theorem scroll_eq (s : Scr) (a b : Nat) (d : Int) (hc : ¬ (a > b ∨ b ≥ s.h)) :
    s.scroll a b d = { s with grid := s.grid.take a ++ scrollMid s a b d ++ s.grid.drop (b + 1) } := by
  unfold Scr.scroll scrollMid; rw [if_neg hc]

theorem scrollMid_length (s : Scr) (a b : Nat) (d : Int) (hg : s.grid.length = s.h)
    (hc : ¬ (a > b ∨ b ≥ s.h)) : (scrollMid s a b d).length = b - a + 1 := by
  unfold scrollMid
  simp only []
  split <;> simp only [List.length_append, List.length_replicate, List.length_take,
    List.length_drop, hg] <;> omega

theorem scrollMid_mem (s : Scr) (a b : Nat) (d : Int) (r : Row) (h : r ∈ scrollMid s a b d) :
    r ∈ s.grid ∨ r = blankRow s.w s.sty := by
  unfold scrollMid at h
  simp only [] at h
  split at h
  · rcases List.mem_append.1 h with h | h
    · exact Or.inr (List.mem_replicate.1 h).2
    · exact Or.inl (List.mem_of_mem_drop (List.mem_of_mem_take (List.mem_of_mem_take h)))
  · rcases List.mem_append.1 h with h | h
    · exact Or.inl (List.mem_of_mem_drop (List.mem_of_mem_take (List.mem_of_mem_drop h)))
    · exact Or.inr (List.mem_replicate.1 h).2

theorem scroll_mem (s : Scr) (a b : Nat) (d : Int) (r : Row) (h : r ∈ (s.scroll a b d).grid) :
    r ∈ s.grid ∨ r = blankRow s.w s.sty := by
  by_cases hc : a > b ∨ b ≥ s.h
  · rw [scroll_noop s a b d hc] at h; exact Or.inl h
  · rw [scroll_eq s a b d hc] at h
    simp only [List.mem_append] at h
    rcases h with (h | h) | h
    · exact Or.inl (List.mem_of_mem_take h)
    · exact scrollMid_mem s a b d r h
    · exact Or.inl (List.mem_of_mem_drop h)

theorem scroll_fields (s : Scr) (a b : Nat) (d : Int) :
    (s.scroll a b d).w = s.w ∧ (s.scroll a b d).h = s.h ∧ (s.scroll a b d).cx = s.cx ∧
    (s.scroll a b d).cy = s.cy ∧ (s.scroll a b d).sx = s.sx ∧ (s.scroll a b d).sy = s.sy ∧
    (s.scroll a b d).top = s.top ∧ (s.scroll a b d).bot = s.bot ∧
    (s.scroll a b d).wrap = s.wrap ∧ (s.scroll a b d).sty = s.sty := by
  unfold Scr.scroll; split <;> simp

/-- **scroll**: only rows `[a,b]` can change; the size and the shape are kept -/
theorem upd_scroll (s : Scr) (a b : Nat) (d : Int) :
    Upd (fun y => a ≤ y ∧ y ≤ b) s (s.scroll a b d) := by
  by_cases hc : a > b ∨ b ≥ s.h
  · rw [scroll_noop s a b d hc]; exact Upd.refl _ _
  · refine ⟨(scroll_fields s a b d).1, (scroll_fields s a b d).2.1, ?_, ?_⟩
    · intro hs
      obtain ⟨f1, f2, _⟩ := scroll_fields s a b d
      refine ⟨?_, ?_⟩
      · rw [f2, scroll_eq s a b d hc]
        simp only [List.length_append, List.length_take, List.length_drop,
          scrollMid_length s a b d hs.1 hc, hs.1]
        omega
      · intro r hr
        rw [f1]
        rcases scroll_mem s a b d r hr with h | h
        · exact hs.2 r h
        · rw [h]; exact blankRow_length _ _
    · intro hs y hy
      rw [scroll_eq s a b d hc]
      have hml := scrollMid_length s a b d hs.1 hc
      have hg := hs.1
      simp only [List.getElem?_append, List.length_append, List.length_take, hml, hg,
        List.getElem?_take, List.getElem?_drop]
      have m1 : min a s.h = a := by omega
      rw [m1]
      by_cases h1 : y < a
      · have : y < a + (b - a + 1) := by omega
        simp [h1, this]
      · have h2 : ¬ y < a + (b - a + 1) := by omega
        simp only [h2, if_false]
        congr 1; omega

theorem lineDown_grid (s : Scr) :
    s.lineDown.grid = if s.cy = s.bot then (s.scroll s.top s.bot (-1)).grid else s.grid := by
  unfold Scr.lineDown
  split
  · rfl
  · split <;> rfl

theorem lineDown_fields (s : Scr) :
    s.lineDown.w = s.w ∧ s.lineDown.h = s.h ∧ s.lineDown.cx = s.cx ∧
    s.lineDown.sx = s.sx ∧ s.lineDown.sy = s.sy ∧
    s.lineDown.top = s.top ∧ s.lineDown.bot = s.bot ∧
    s.lineDown.wrap = s.wrap ∧ s.lineDown.sty = s.sty := by
  unfold Scr.lineDown
  split
  · have := scroll_fields s s.top s.bot (-1); simp [this]
  · split <;> simp

theorem lineDown_cy (s : Scr) :
    s.lineDown.cy = if s.cy ≠ s.bot ∧ s.cy + 1 < s.h then s.cy + 1 else s.cy := by
  unfold Scr.lineDown
  split
  · next h => rw [(scroll_fields s s.top s.bot (-1)).2.2.2.1]; simp [h]
  · next h => split <;> simp [*]

theorem lineUp_fields (s : Scr) :
    s.lineUp.w = s.w ∧ s.lineUp.h = s.h ∧ s.lineUp.cx = s.cx ∧
    s.lineUp.sx = s.sx ∧ s.lineUp.sy = s.sy ∧
    s.lineUp.top = s.top ∧ s.lineUp.bot = s.bot ∧
    s.lineUp.wrap = s.wrap ∧ s.lineUp.sty = s.sty := by
  unfold Scr.lineUp
  split
  · have := scroll_fields s s.top s.bot 1; simp [this]
  · split <;> simp

theorem lineDown_mem (s : Scr) (r : Row) (h : r ∈ s.lineDown.grid) :
    r ∈ s.grid ∨ r = blankRow s.w s.sty := by
  rw [lineDown_grid] at h
  split at h
  · exact scroll_mem s _ _ _ r h
  · exact Or.inl h

/-- **LF / IND / autowrap**: only the rows of the scroll region can change -/
theorem upd_lineDown (s : Scr) : Upd (fun y => s.top ≤ y ∧ y ≤ s.bot) s s.lineDown := by
  unfold Scr.lineDown
  split
  · exact upd_scroll s s.top s.bot (-1)
  · split
    · exact Upd.of_grid rfl rfl rfl
    · exact Upd.refl _ _

/-- **RI**: only the rows of the scroll region can change -/
theorem upd_lineUp (s : Scr) : Upd (fun y => s.top ≤ y ∧ y ≤ s.bot) s s.lineUp := by
  unfold Scr.lineUp
  split
  · exact upd_scroll s s.top s.bot 1
  · split
    · exact Upd.of_grid rfl rfl rfl
    · exact Upd.refl _ _

/-! ### one row replaced; erase; DCH -/

theorem upd_setRow (s : Scr) (c : Nat) (r' : Row)
    (hl : Shaped s → c < s.grid.length → r'.length = s.w) :
    Upd (fun y => y = c) s (s.setRow c r') := by
  refine ⟨rfl, rfl, ?_, ?_⟩
  · intro hs
    refine ⟨?_, ?_⟩
    · show (s.grid.set c r').length = s.h
      rw [List.length_set]; exact hs.1
    · intro r hr
      by_cases hc : c < s.grid.length
      · rcases List.mem_or_eq_of_mem_set hr with h | h
        · exact hs.2 r h
        · rw [h]; exact hl hs hc
      · have : (s.setRow c r').grid = s.grid := List.set_eq_of_length_le (by omega)
        rw [this] at hr
        exact hs.2 r hr
  · intro _ y hy
    show (s.grid.set c r')[y]? = s.grid[y]?
    rw [List.getElem?_set, if_neg (fun e => hy e.symm)]

theorem upd_eraseRegion (s : Scr) (x1 y1 x2 y2 : Nat) :
    Upd (fun y => y1 ≤ y ∧ y < y2) s (s.eraseRegion x1 y1 x2 y2) := by
  refine ⟨rfl, rfl, ?_, ?_⟩
  · intro hs
    refine ⟨?_, ?_⟩
    · show (s.grid.mapIdx _).length = s.h
      rw [List.length_mapIdx]; exact hs.1
    · intro r hr
      have hr' : r ∈ s.grid.mapIdx
          (fun y r => if y1 ≤ y ∧ y < y2 then r.erase x1 x2 s.sty else r) := hr
      obtain ⟨i, hi⟩ := List.mem_iff_getElem?.1 hr'
      rw [List.getElem?_mapIdx] at hi
      cases hg : s.grid[i]? with
      | none => rw [hg] at hi; cases hi
      | some r0 =>
        rw [hg] at hi
        simp only [Option.map_some, Option.some.injEq] at hi
        have h0 : r0.length = s.w := hs.2 r0 (List.mem_iff_getElem?.2 ⟨i, hg⟩)
        rw [← hi]
        show (if y1 ≤ i ∧ i < y2 then r0.erase x1 x2 s.sty else r0).length = s.w
        split
        · rw [erase_length]; exact h0
        · exact h0
  · intro _ y hy
    show (s.grid.mapIdx _)[y]? = s.grid[y]?
    rw [List.getElem?_mapIdx]
    cases s.grid[y]? with
    | none => rfl
    | some r0 => simp only [Option.map_some, if_neg hy]

theorem upd_eraseRegionI (s : Scr) (x1 y1 x2 y2 : Int) :
    Upd (fun y => clampNat y1 s.h ≤ y ∧ y < max (clampNat y2 s.h) (clampNat y1 s.h)) s
      (s.eraseRegionI x1 y1 x2 y2) := by
  unfold Scr.eraseRegionI
  exact upd_eraseRegion ..

theorem upd_dch (s : Scr) (n : Nat) : Upd (fun y => y = s.cy) s (s.dch n) := by
  unfold Scr.dch
  apply upd_setRow
  intro hs h
  rw [dch_length]
  exact hs.2 _ (row_mem s s.cy h)

/-! ### `Scr.put`, both policies -/

/-- the cell width `Scr.put` really uses -/
def effW (s : Scr) (w0 : Nat) : Nat := if max w0 1 > s.w then 1 else max w0 1

/-- the bytes `Scr.put` really stores -/
def effText (s : Scr) (text : Bytes) (w0 : Nat) : Bytes :=
  if max w0 1 > s.w then replacementChar else text

/-- first step of `Scr.put`: the right-edge adjustment of the cursor (early wrap, or pull back) -/
def pre (s : Scr) (w : Nat) : Scr :=
  if s.cx + w > s.w then
    (if s.wrap then ({ s with cx := 0 } : Scr).lineDown else { s with cx := s.w - w })
  else s

/-- second step: the row written at the cursor -/
def putRowOf (pol : WidePolicy) (s : Scr) (text : Bytes) (w : Nat) : Row :=
  if (contAt (s.row s.cy) s.cx && pol == .keep) = true
  then (s.row s.cy).putKeep s.cx text w s.sty else (s.row s.cy).put s.cx text w s.sty

/-- the cursor column aimed at -/
def putX (pol : WidePolicy) (s : Scr) (w : Nat) : Nat :=
  s.cx + w + (if (contAt (s.row s.cy) s.cx && pol == .keep) = true
    then headOf (s.row s.cy) s.cx + widthAt (s.row s.cy) (headOf (s.row s.cy) s.cx) - s.cx else 0)

/-- third step: place the cursor, wrapping (late wrap) or clamping at the edge -/
def finish (s1 : Scr) (x : Nat) : Scr :=
  if x < s1.w then { s1 with cx := x }
  else if s1.wrap then ({ s1 with cx := x - s1.w } : Scr).lineDown
  else { s1 with cx := s1.w - 1 }

theorem put_eq (pol : WidePolicy) (s : Scr) (text0 : Bytes) (w0 : Nat) :
    Scr.put pol s text0 w0 =
      finish ((pre s (effW s w0)).setRow (pre s (effW s w0)).cy
          (putRowOf pol (pre s (effW s w0)) (effText s text0 w0) (effW s w0)))
        (putX pol (pre s (effW s w0)) (effW s w0)) := rfl

theorem effW_pos (s : Scr) (w0 : Nat) : 1 ≤ effW s w0 := by unfold effW; split <;> omega

theorem pre_fields (s : Scr) (w : Nat) :
    (pre s w).w = s.w ∧ (pre s w).h = s.h ∧ (pre s w).top = s.top ∧ (pre s w).bot = s.bot ∧
    (pre s w).wrap = s.wrap ∧ (pre s w).sty = s.sty ∧
    ((pre s w).cy = s.cy ∨ (pre s w).cy = s.cy + 1) := by
  unfold pre
  split
  · split
    · obtain ⟨f1, f2, _, _, _, f6, f7, f8, f9⟩ := lineDown_fields ({ s with cx := 0 } : Scr)
      refine ⟨f1, f2, f6, f7, f8, f9, ?_⟩
      rw [lineDown_cy]
      split
      · exact Or.inr rfl
      · exact Or.inl rfl
    · simp
  · simp

theorem pre_rowsWF (s : Scr) (w : Nat) (h : RowsWF s) : RowsWF (pre s w) := by
  unfold pre
  split
  · split
    · intro r hr
      rcases lineDown_mem _ r hr with hr | hr
      · exact h r hr
      · rw [hr]; exact blankRow_wf _ _
    · exact h
  · exact h

theorem upd_pre (s : Scr) (w : Nat) :
    Upd (fun y => s.wrap = true ∧ s.top ≤ y ∧ y ≤ s.bot) s (pre s w) := by
  unfold pre
  split
  · split
    · next hw =>
      have h1 : Upd (fun y => s.wrap = true ∧ s.top ≤ y ∧ y ≤ s.bot) s ({ s with cx := 0 } : Scr) :=
        Upd.of_grid rfl rfl rfl
      exact h1.trans ((upd_lineDown ({ s with cx := 0 } : Scr)).mono (fun y hy => ⟨hw, hy⟩))
    · exact Upd.of_grid rfl rfl rfl
  · exact Upd.refl _ _

theorem putRowOf_length (pol : WidePolicy) (s : Scr) (text : Bytes) (w : Nat) (hw : 1 ≤ w)
    (hwf : pol = .keep → rowWF (s.row s.cy) = true) :
    (putRowOf pol s text w).length = (s.row s.cy).length := by
  unfold putRowOf
  split
  · next hk =>
    simp only [Bool.and_eq_true, beq_iff_eq] at hk
    exact putKeep_length _ _ _ _ _ (hwf hk.2) hk.1 hw
  · exact put_length ..

theorem finish_fields (s1 : Scr) (x : Nat) :
    (finish s1 x).w = s1.w ∧ (finish s1 x).h = s1.h ∧
    (finish s1 x).sx = s1.sx ∧ (finish s1 x).sy = s1.sy ∧
    (finish s1 x).top = s1.top ∧ (finish s1 x).bot = s1.bot ∧
    (finish s1 x).wrap = s1.wrap ∧ (finish s1 x).sty = s1.sty := by
  unfold finish
  split
  · simp
  · split
    · have := lineDown_fields ({ s1 with cx := x - s1.w } : Scr)
      simp only [this, and_self]
    · simp

theorem upd_finish (s1 : Scr) (x : Nat) :
    Upd (fun y => s1.wrap = true ∧ s1.top ≤ y ∧ y ≤ s1.bot) s1 (finish s1 x) := by
  unfold finish
  split
  · exact Upd.of_grid rfl rfl rfl
  · split
    · next hw =>
      have h1 : Upd (fun y => s1.wrap = true ∧ s1.top ≤ y ∧ y ≤ s1.bot) s1
          ({ s1 with cx := x - s1.w } : Scr) := Upd.of_grid rfl rfl rfl
      exact h1.trans ((upd_lineDown ({ s1 with cx := x - s1.w } : Scr)).mono (fun y hy => ⟨hw, hy⟩))
    · exact Upd.of_grid rfl rfl rfl

/-- the rows a text token can touch: the cursor row, the row below it, and — with autowrap on —
    the scroll region -/
def putRows (s : Scr) (y : Nat) : Prop :=
  (s.cy ≤ y ∧ y < s.cy + 2) ∨ (s.wrap = true ∧ s.top ≤ y ∧ y ≤ s.bot)

/-- **text, every branch of `Scr.put`, both policies.** The write touches only `putRows` and
    keeps size and shape; under the span policy the rows must be well formed (that is what makes
    the insertion after a wide character keep the row length). -/
theorem upd_put (pol : WidePolicy) (s : Scr) (text0 : Bytes) (w0 : Nat)
    (hwf : pol = .keep → RowsWF s) :
    Upd (putRows s) s (Scr.put pol s text0 w0) := by
  rw [put_eq]
  obtain ⟨f1, f2, f3, f4, f5, f6, f7⟩ := pre_fields s (effW s w0)
  have hwf1 := fun hp => pre_rowsWF s (effW s w0) (hwf hp)
  have u1 : Upd (putRows s) s (pre s (effW s w0)) := (upd_pre s (effW s w0)).mono (fun y hy => Or.inr hy)
  generalize pre s (effW s w0) = s1 at *
  have u2 : Upd (putRows s) s1
      (s1.setRow s1.cy (putRowOf pol s1 (effText s text0 w0) (effW s w0))) := by
    refine (upd_setRow s1 s1.cy _ ?_).mono ?_
    · intro hs hc
      rw [putRowOf_length _ _ _ _ (effW_pos s w0) (fun hp => hwf1 hp _ (row_mem s1 s1.cy hc))]
      exact hs.2 _ (row_mem s1 s1.cy hc)
    · intro y hy
      left
      rcases f7 with h | h <;> omega
  have u3 := upd_finish (s1.setRow s1.cy (putRowOf pol s1 (effText s text0 w0) (effW s w0)))
    (putX pol s1 (effW s w0))
  refine (u1.trans u2).trans (u3.mono ?_)
  intro y hy
  right
  have e1 : (s1.setRow s1.cy (putRowOf pol s1 (effText s text0 w0) (effW s w0))).wrap = s1.wrap := rfl
  have e2 : (s1.setRow s1.cy (putRowOf pol s1 (effText s text0 w0) (effW s w0))).top = s1.top := rfl
  have e3 : (s1.setRow s1.cy (putRowOf pol s1 (effText s text0 w0) (effW s w0))).bot = s1.bot := rfl
  rw [e1, e2, e3, f5, f3, f4] at hy
  exact hy

theorem put_sty (pol : WidePolicy) (s : Scr) (text0 : Bytes) (w0 : Nat) :
    (Scr.put pol s text0 w0).sty = s.sty := by
  rw [put_eq, (finish_fields _ _).2.2.2.2.2.2.2]
  exact (pre_fields s (effW s w0)).2.2.2.2.2.1

end Lemmas
open Lemmas

/-! ## 3. Terminal level: a token touches the active screen only inside its announced damage -/

/-- row `y` lies in an announced region (all announced regions span the full width) -/
def dmgRow (t : Term) (tok : Tok) (y : Nat) : Prop := ∃ r ∈ t.damage tok, r.y1 ≤ y ∧ y < r.y2

/-- `t'` has the same active buffer as `t`, the same policy and the same inactive buffer; the
    active screen is updated only in rows `D` -/
structure StepU (D : Nat → Prop) (t t' : Term) : Prop where
  onAlt : t'.onAlt = t.onAlt
  pol : t'.pol = t.pol
  upd : Upd D t.scr t'.scr
  inactive : if t.onAlt then t'.main = t.main else t'.alt = t.alt

namespace Lemmas

theorem scr_setScr (t : Term) (s : Scr) : (t.setScr s).scr = s := by
  unfold Term.setScr Term.scr
  cases t.onAlt <;> simp

theorem stepU_refl (D : Nat → Prop) (t : Term) : StepU D t t :=
  ⟨rfl, rfl, Upd.refl _ _, by split <;> rfl⟩

theorem stepU_setScr {D : Nat → Prop} (t : Term) (s' : Scr) (h : Upd D t.scr s') :
    StepU D t (t.setScr s') := by
  refine ⟨?_, ?_, ?_, ?_⟩
  · unfold Term.setScr; cases t.onAlt <;> simp
  · unfold Term.setScr; cases t.onAlt <;> simp
  · rw [scr_setScr]; exact h
  · unfold Term.setScr; cases h : t.onAlt <;> simp

/-- cursor / rendition / margin updates: the grid and the size are those of the active screen -/
theorem stepU_setScr_grid {D : Nat → Prop} (t : Term) (s' : Scr) (hg : s'.grid = t.scr.grid)
    (hw : s'.w = t.scr.w) (hh : s'.h = t.scr.h) : StepU D t (t.setScr s') :=
  stepU_setScr t s' (Upd.of_grid hg hw hh)

theorem stepU_withScr_grid {D : Nat → Prop} (t : Term) (s' : Scr) (hg : s'.grid = t.scr.grid)
    (hw : s'.w = t.scr.w) (hh : s'.h = t.scr.h) : StepU D t (t.withScr s').1 :=
  stepU_setScr_grid t s' hg hw hh

theorem stepU_setKbd (D : Nat → Prop) (t : Term) (k : Kbd) : StepU D t (t.setKbd k) := by
  unfold Term.setKbd
  cases h : t.onAlt
  · refine ⟨by simp [h], by simp, ?_, by simp [h]⟩
    simp only [Term.scr, h]; exact Upd.refl _ _
  · refine ⟨by simp [h], by simp, ?_, by simp [h]⟩
    simp only [Term.scr, h]; exact Upd.refl _ _

theorem stepU_setVFlag (D : Nat → Prop) (t : Term) (i : Nat) (v : Bool) :
    StepU D t (t.setVFlag i v).1 := ⟨rfl, rfl, Upd.refl _ _, by split <;> rfl⟩

theorem stepU_setVInt (D : Nat → Prop) (t : Term) (i : Nat) (v : Int) :
    StepU D t (t.setVInt i v).1 := ⟨rfl, rfl, Upd.refl _ _, by split <;> rfl⟩

theorem stepU_setVStr (D : Nat → Prop) (t : Term) (i : Nat) (v : Bytes) :
    StepU D t (t.setVStr i v).1 := ⟨rfl, rfl, Upd.refl _ _, by split <;> rfl⟩

theorem stepU_dite {D : Nat → Prop} {t : Term} {c : Prop} [Decidable c] {a b : Term × List Ev}
    (ha : c → StepU D t a.1) (hb : ¬c → StepU D t b.1) : StepU D t (if c then a else b).1 := by
  split
  · exact ha ‹_›
  · exact hb ‹_›

theorem setMargins_grid (s : Scr) (a b : Int) :
    (s.setMargins a b).grid = s.grid ∧ (s.setMargins a b).w = s.w ∧ (s.setMargins a b).h = s.h := by
  unfold Scr.setMargins
  simp only []
  split
  · simp
  · split <;> simp

/-! ### the damage of each token class, as a set of rows -/

theorem dmgRow_text (t : Term) (st : Bytes) (cp : Nat) (y : Nat) :
    dmgRow t (.text st cp) y ↔ putRows t.scr y := by
  simp only [dmgRow, putRows, Term.damage, rowsRegion]
  cases hw : t.scr.wrap <;> simp <;> omega

theorem dmgRow_region (t : Term) (tok : Tok) (a b : Nat) (y : Nat)
    (h : t.damage tok = [rowsRegion t.scr a b]) : dmgRow t tok y ↔ (a ≤ y ∧ y < b) := by
  unfold dmgRow; rw [h]; simp [rowsRegion]

theorem damage_csi_row (t : Term) (ps : List Int) (fin : UInt8)
    (h : fin = 0x4b ∨ fin = 0x58 ∨ fin = 0x50) :
    t.damage (.csi 0 ps true fin) = [rowsRegion t.scr t.scr.cy (t.scr.cy + 1)] := by
  rcases h with h | h | h <;> subst h <;> simp [Term.damage]

theorem damage_csi_J (t : Term) (ps : List Int) :
    t.damage (.csi 0 ps true 0x4a) = [rowsRegion t.scr 0 t.scr.h] := by
  simp [Term.damage]

theorem damage_csi_LM (t : Term) (ps : List Int) (fin : UInt8) (h : fin = 0x4c ∨ fin = 0x4d) :
    t.damage (.csi 0 ps true fin) = [rowsRegion t.scr t.scr.cy (t.scr.bot + 1)] := by
  rcases h with h | h <;> subst h <;> simp [Term.damage]

theorem damage_csi_ST (t : Term) (ps : List Int) (fin : UInt8) (h : fin = 0x53 ∨ fin = 0x54) :
    t.damage (.csi 0 ps true fin) = [rowsRegion t.scr t.scr.top (t.scr.bot + 1)] := by
  rcases h with h | h <;> subst h <;> simp [Term.damage]

/-- close a `StepU D t (if … then … else …).1` goal whose leaves change no cell -/
macro "stepU_leaves" : tactic =>
  `(tactic| repeat' (first
      | exact stepU_refl _ _
      | exact stepU_setKbd _ _ _
      | exact stepU_setVFlag _ _ _ _
      | exact stepU_setVInt _ _ _ _
      | exact stepU_setVStr _ _ _ _
      | exact stepU_withScr_grid _ _ rfl rfl rfl
      | exact stepU_setScr_grid _ _ rfl rfl rfl
      | (apply stepU_dite <;> intro _)))

/-- **unprefixed CSI**: EL / ED / ECH / DCH touch the announced rows, IL / DL / SU / SD the
    announced part of the scroll region, everything else (cursor motion, SGR, save / restore,
    DECSTBM, DA, DSR, unknown finals) changes no cell -/
theorem stepU_csiPlain (t : Term) (ps : List Int) (fin : UInt8) :
    StepU (dmgRow t (.csi 0 ps true fin)) t (t.csiPlain ps fin).1 := by
  unfold Term.csiPlain
  simp only []
  stepU_leaves
  -- EL 0 / 1 / 2
  · refine stepU_setScr _ _ ((upd_eraseRegionI ..).mono fun y hy => ?_)
    rw [dmgRow_region _ _ _ _ _ (damage_csi_row t ps fin (Or.inl ‹_›))]
    simp only [clampNat] at hy; omega
  · refine stepU_setScr _ _ ((upd_eraseRegionI ..).mono fun y hy => ?_)
    rw [dmgRow_region _ _ _ _ _ (damage_csi_row t ps fin (Or.inl ‹_›))]
    simp only [clampNat] at hy; omega
  · refine stepU_setScr _ _ ((upd_eraseRegionI ..).mono fun y hy => ?_)
    rw [dmgRow_region _ _ _ _ _ (damage_csi_row t ps fin (Or.inl ‹_›))]
    simp only [clampNat] at hy; omega
  -- ED 0 / 1
  · subst ‹fin = 0x4a›
    refine stepU_setScr _ _ (Upd.trans ((upd_eraseRegionI ..).mono fun y hy => ?_)
      ((upd_eraseRegionI ..).mono fun y hy => ?_))
    all_goals
      rw [dmgRow_region _ _ _ _ _ (damage_csi_J t ps)]
      simp only [clampNat, Scr.eraseRegionI, Scr.eraseRegion] at hy; omega
  · subst ‹fin = 0x4a›
    refine stepU_setScr _ _ (Upd.trans ((upd_eraseRegionI ..).mono fun y hy => ?_)
      ((upd_eraseRegionI ..).mono fun y hy => ?_))
    all_goals
      rw [dmgRow_region _ _ _ _ _ (damage_csi_J t ps)]
      simp only [clampNat, Scr.eraseRegionI, Scr.eraseRegion] at hy; omega
  -- ED 2
  · subst ‹fin = 0x4a›
    refine stepU_setScr _ _ (Upd.trans ((upd_eraseRegionI ..).mono fun y hy => ?_)
      (Upd.of_grid rfl rfl rfl))
    rw [dmgRow_region _ _ _ _ _ (damage_csi_J t ps)]
    simp only [clampNat] at hy; omega
  -- IL
  · refine stepU_setScr _ _ ((upd_scroll ..).mono fun y hy => ?_)
    rw [dmgRow_region _ _ _ _ _ (damage_csi_LM t ps fin (Or.inl ‹_›))]; omega
  -- DL
  · refine stepU_setScr _ _ ((upd_scroll ..).mono fun y hy => ?_)
    rw [dmgRow_region _ _ _ _ _ (damage_csi_LM t ps fin (Or.inr ‹_›))]; omega
  -- SU
  · refine stepU_setScr _ _ ((upd_scroll ..).mono fun y hy => ?_)
    rw [dmgRow_region _ _ _ _ _ (damage_csi_ST t ps fin (Or.inl ‹_›))]; omega
  -- SD
  · refine stepU_setScr _ _ ((upd_scroll ..).mono fun y hy => ?_)
    rw [dmgRow_region _ _ _ _ _ (damage_csi_ST t ps fin (Or.inr ‹_›))]; omega
  -- DCH
  · refine stepU_setScr _ _ ((upd_dch ..).mono fun y hy => ?_)
    rw [dmgRow_region _ _ _ _ _ (damage_csi_row t ps fin (Or.inr (Or.inr ‹_›)))]; omega
  -- ECH
  · refine stepU_setScr _ _ ((upd_eraseRegionI ..).mono fun y hy => ?_)
    rw [dmgRow_region _ _ _ _ _ (damage_csi_row t ps fin (Or.inr (Or.inl ‹_›)))]
    simp only [clampNat] at hy; omega
  -- DECSTBM
  · obtain ⟨a, b, c⟩ := setMargins_grid t.scr (pAt ps 0 1 - 1) (pAt ps 1 t.scr.h - 1)
    exact stepU_setScr_grid _ _ a b c

/-! ### DEC private modes: no cell of either buffer changes; only 1049 changes the active buffer -/

/-- `t'` has the grids, sizes and policy of `t` (what `CSI ? … h/l` preserves) -/
structure SameGrids (t t' : Term) : Prop where
  pol : t'.pol = t.pol
  mg : t'.main.grid = t.main.grid
  mw : t'.main.w = t.main.w
  mh : t'.main.h = t.main.h
  ag : t'.alt.grid = t.alt.grid
  aw : t'.alt.w = t.alt.w
  ah : t'.alt.h = t.alt.h

theorem sg_refl (t : Term) : SameGrids t t := ⟨rfl, rfl, rfl, rfl, rfl, rfl, rfl⟩

theorem sg_trans {a b c : Term} (h1 : SameGrids a b) (h2 : SameGrids b c) : SameGrids a c :=
  ⟨h2.pol.trans h1.pol, h2.mg.trans h1.mg, h2.mw.trans h1.mw, h2.mh.trans h1.mh,
   h2.ag.trans h1.ag, h2.aw.trans h1.aw, h2.ah.trans h1.ah⟩

theorem sg_setWrap (t : Term) (v : Bool) : SameGrids t (t.setScr { t.scr with wrap := v }) := by
  unfold Term.setScr Term.scr
  cases t.onAlt <;> constructor <;> simp

theorem sg_switchScreen (t : Term) (v : Bool) : SameGrids t (t.switchScreen v).1 := by
  unfold Term.switchScreen
  split
  · exact sg_refl _
  · constructor <;> simp

theorem sg_dite {t : Term} {c : Prop} [Decidable c] {a b : Term × List Ev}
    (ha : c → SameGrids t a.1) (hb : ¬c → SameGrids t b.1) : SameGrids t (if c then a else b).1 := by
  split
  · exact ha ‹_›
  · exact hb ‹_›

theorem sg_decMode (t : Term) (p : Int) (v : Bool) : SameGrids t (t.decMode p v).1 := by
  unfold Term.decMode
  repeat' (first
    | exact sg_refl _ | exact sg_setWrap _ _ | exact sg_switchScreen _ _
    | exact ⟨rfl, rfl, rfl, rfl, rfl, rfl, rfl⟩
    | (apply sg_dite <;> intro _))

theorem decModes_cons (t : Term) (v : Bool) (p : Int) (ps : List Int) :
    t.decModes v (p :: ps) =
      (((t.decMode p v).1.decModes v ps).1, (t.decMode p v).2 ++ ((t.decMode p v).1.decModes v ps).2) := rfl

theorem sg_decModes (t : Term) (v : Bool) (ps : List Int) : SameGrids t (t.decModes v ps).1 := by
  induction ps generalizing t with
  | nil => exact sg_refl _
  | cons p ps ih =>
    rw [decModes_cons]
    exact sg_trans (sg_decMode t p v) (ih _)

theorem stepU_decMode (D : Nat → Prop) (t : Term) (p : Int) (v : Bool) (hp : p ≠ 1049) :
    StepU D t (t.decMode p v).1 := by
  unfold Term.decMode
  stepU_leaves
  contradiction

theorem decMode_onAlt (t : Term) (p : Int) (v : Bool) (hp : p ≠ 1049) :
    (t.decMode p v).1.onAlt = t.onAlt := (stepU_decMode (fun _ => False) t p v hp).onAlt

theorem decModes_onAlt (t : Term) (v : Bool) (ps : List Int) (h : (1049 : Int) ∉ ps) :
    (t.decModes v ps).1.onAlt = t.onAlt := by
  induction ps generalizing t with
  | nil => rfl
  | cons p ps ih =>
    rw [decModes_cons]
    simp only [List.mem_cons, not_or] at h
    exact (ih _ h.2).trans (decMode_onAlt t p v (Ne.symm h.1))

/-- the token is `CSI ? … h` or `CSI ? … l` (DECSET / DECRST), the only tokens that can switch
    buffers -/
def isDecset : Tok → Prop
  | .csi pfx _ clean fin => pfx = 0x3f ∧ clean = true ∧ (fin = 0x68 ∨ fin = 0x6c)
  | _ => False

instance (tok : Tok) : Decidable (isDecset tok) := by
  cases tok <;> unfold isDecset <;> infer_instance

/-- every token other than text and DECSET / DECRST keeps the active buffer active and changes
    cells of the active screen only in announced rows -/
theorem stepU_apply_other (cw : Nat → Nat) (t : Term) (tok : Tok) (hd : ¬ isDecset tok)
    (hnt : ∀ st cp, tok ≠ .text st cp) : StepU (dmgRow t tok) t (Term.apply cw t tok).1 := by
  cases tok with
  | text st cp => exact absurd rfl (hnt st cp)
  | ctl b =>
    simp only [Term.apply]
    stepU_leaves
    · -- LF
      refine stepU_setScr _ _ (Upd.trans (Upd.of_grid (s' := ({ t.scr with cx := 0 } : Scr)) rfl rfl rfl)
        ((upd_lineDown _).mono fun y hy => ?_))
      have : t.damage (.ctl b) = [rowsRegion t.scr t.scr.top (t.scr.bot + 1)] := by
        simp [Term.damage, ‹b = 10›]
      rw [dmgRow_region _ _ _ _ _ this]
      exact ⟨hy.1, Nat.lt_succ_of_le hy.2⟩
    · -- FF
      refine stepU_setScr _ _ ((upd_lineDown _).mono fun y hy => ?_)
      have : t.damage (.ctl b) = [rowsRegion t.scr t.scr.top (t.scr.bot + 1)] := by
        simp [Term.damage, ‹b = 12›]
      rw [dmgRow_region _ _ _ _ _ this]
      exact ⟨hy.1, Nat.lt_succ_of_le hy.2⟩
  | esc inter fin =>
    simp only [Term.apply]
    stepU_leaves
    · -- IND
      refine stepU_setScr _ _ ((upd_lineDown _).mono fun y hy => ?_)
      have hi : inter = [] := by simpa using ‹¬ inter ≠ []›
      have : t.damage (.esc inter fin) = [rowsRegion t.scr t.scr.top (t.scr.bot + 1)] := by
        simp [Term.damage, hi, ‹fin = 0x44›]
      rw [dmgRow_region _ _ _ _ _ this]
      exact ⟨hy.1, Nat.lt_succ_of_le hy.2⟩
    · -- RI
      refine stepU_setScr _ _ ((upd_lineUp _).mono fun y hy => ?_)
      have hi : inter = [] := by simpa using ‹¬ inter ≠ []›
      have : t.damage (.esc inter fin) = [rowsRegion t.scr t.scr.top (t.scr.bot + 1)] := by
        simp [Term.damage, hi, ‹fin = 0x4d›]
      rw [dmgRow_region _ _ _ _ _ this]
      exact ⟨hy.1, Nat.lt_succ_of_le hy.2⟩
  | csi pfx ps clean fin =>
    simp only [Term.apply]
    cases clean
    · exact stepU_refl _ _
    · simp only [if_true]
      unfold Term.csi
      by_cases h0 : pfx = 0
      · subst h0
        simp only [if_true]
        exact stepU_csiPlain t ps fin
      · simp only [if_neg h0]
        have hd' : ¬ (pfx = 0x3f ∧ (fin = 0x68 ∨ fin = 0x6c)) := fun hh => hd ⟨hh.1, rfl, hh.2⟩
        stepU_leaves
        · exact absurd ⟨‹pfx = 0x3f›, Or.inl ‹fin = 0x68›⟩ hd'
        · exact absurd ⟨‹pfx = 0x3f›, Or.inr ‹fin = 0x6c›⟩ hd'
        · split
          · split
            · exact stepU_setVInt _ _ _ _
            · exact stepU_refl _ _
          · exact stepU_refl _ _
  | osc n pl wf =>
    simp only [Term.apply]
    stepU_leaves
  | dcs => exact stepU_refl _ _

/-- **every token other than DECSET / DECRST** keeps the active buffer active and changes cells
    of the active screen only in announced rows (for text under the span policy the rows of the
    screen must be well formed: insertion after a wide character) -/
theorem stepU_apply (cw : Nat → Nat) (t : Term) (tok : Tok) (hd : ¬ isDecset tok)
    (hwf : t.pol = .keep → RowsWF t.scr) : StepU (dmgRow t tok) t (Term.apply cw t tok).1 := by
  cases tok with
  | text st cp =>
    refine stepU_setScr _ _ ((upd_put t.pol t.scr st (cw cp) hwf).mono fun y hy => ?_)
    exact (dmgRow_text t st cp y).2 hy
  | ctl b => exact stepU_apply_other cw t _ hd (fun _ _ h => by cases h)
  | esc i f => exact stepU_apply_other cw t _ hd (fun _ _ h => by cases h)
  | csi a b c d => exact stepU_apply_other cw t _ hd (fun _ _ h => by cases h)
  | osc a b c => exact stepU_apply_other cw t _ hd (fun _ _ h => by cases h)
  | dcs => exact stepU_apply_other cw t _ hd (fun _ _ h => by cases h)

/-- which buffer is active can only be changed by DECSET / DECRST with parameter 1049 -/
theorem onAlt_apply (cw : Nat → Nat) (t : Term) (tok : Tok)
    (h : ∀ ps fin, tok = .csi 0x3f ps true fin → (fin = 0x68 ∨ fin = 0x6c) → (1049 : Int) ∉ ps) :
    (Term.apply cw t tok).1.onAlt = t.onAlt := by
  cases tok with
  | text st cp => show (t.setScr _).onAlt = t.onAlt; unfold Term.setScr; cases t.onAlt <;> simp
  | csi pfx ps clean fin =>
    by_cases hd : isDecset (.csi pfx ps clean fin)
    · obtain ⟨a, b, c⟩ := hd
      subst a; subst b
      have h49 := h ps fin rfl c
      have : (Term.apply cw t (.csi 0x3f ps true fin)).1 = (t.decModes (decide (fin = 0x68)) ps).1 := by
        rcases c with c | c <;> subst c <;> rfl
      rw [this]
      exact decModes_onAlt t _ ps h49
    · exact (stepU_apply_other cw t _ hd (fun _ _ h => by cases h)).onAlt
  | ctl b => exact (stepU_apply_other cw t _ (by simp [isDecset]) (fun _ _ h => by cases h)).onAlt
  | esc i f => exact (stepU_apply_other cw t _ (by simp [isDecset]) (fun _ _ h => by cases h)).onAlt
  | osc a b c => exact (stepU_apply_other cw t _ (by simp [isDecset]) (fun _ _ h => by cases h)).onAlt
  | dcs => exact (stepU_apply_other cw t _ (by simp [isDecset]) (fun _ _ h => by cases h)).onAlt

/-! ### announced cells -/

theorem damage_fullwidth (t : Term) (tok : Tok) :
    ∀ r ∈ t.damage tok, r.x1 = 0 ∧ r.x2 = t.scr.w := by
  intro r hr
  cases tok <;> simp only [Term.damage] at hr <;> (repeat' split at hr) <;>
    simp [rowsRegion] at hr <;> (first | (rcases hr with rfl | rfl <;> simp) | (subst hr; simp))

end Lemmas
open Lemmas

/-- cell `(x,y)` lies in one of the regions announced while `tok` is applied in state `t` -/
def announced (t : Term) (tok : Tok) (x y : Nat) : Bool := (t.damage tok).any (fun r => r.mem x y)

/-- the well-formedness the span policy needs: rows of the active screen are `rowWF` -/
def NeedWF (t : Term) : Prop := t.pol = .keep → RowsWF t.scr

namespace Lemmas

theorem announced_iff (t : Term) (tok : Tok) (x y : Nat) (hx : x < t.scr.w) :
    announced t tok x y = true ↔ dmgRow t tok y := by
  unfold announced dmgRow
  rw [List.any_eq_true]
  constructor
  · rintro ⟨r, hr, hm⟩
    simp only [Region.mem, Bool.and_eq_true, decide_eq_true_eq] at hm
    exact ⟨r, hr, hm.1.2, hm.2⟩
  · rintro ⟨r, hr, h1, h2⟩
    obtain ⟨a, b⟩ := damage_fullwidth t tok r hr
    refine ⟨r, hr, ?_⟩
    simp only [Region.mem, Bool.and_eq_true, decide_eq_true_eq]
    omega

theorem scr_grid_of_onAlt {t t' : Term} (h : t'.onAlt = t.onAlt) (hm : t'.main.grid = t.main.grid)
    (ha : t'.alt.grid = t.alt.grid) : t'.scr.grid = t.scr.grid := by
  unfold Term.scr; rw [h]; cases t.onAlt <;> simp [hm, ha]

theorem isDecset_elim {tok : Tok} (h : isDecset tok) :
    ∃ ps fin, tok = .csi 0x3f ps true fin ∧ (fin = 0x68 ∨ fin = 0x6c) := by
  cases tok with
  | csi pfx ps clean fin =>
    obtain ⟨a, b, c⟩ := h
    subst a; subst b
    exact ⟨ps, fin, rfl, c⟩
  | _ => exact absurd h (by simp [isDecset])

theorem apply_decset (cw : Nat → Nat) (t : Term) (ps : List Int) (fin : UInt8)
    (hf : fin = 0x68 ∨ fin = 0x6c) :
    (Term.apply cw t (.csi 0x3f ps true fin)).1 = (t.decModes (decide (fin = 0x68)) ps).1 := by
  rcases hf with h | h <;> subst h <;> rfl

theorem damage_decset (t : Term) (ps : List Int) (fin : UInt8) (hf : fin = 0x68 ∨ fin = 0x6c) :
    t.damage (.csi 0x3f ps true fin) =
      if (1049 : Int) ∈ ps then [rowsRegion t.scr 0 t.scr.h] else [] := by
  rcases hf with h | h <;> subst h <;> simp [Term.damage]

/-- sizes, shapes and policy after any token -/
theorem apply_geo (cw : Nat → Nat) (t : Term) (tok : Tok) (hwf : NeedWF t) :
    (Term.apply cw t tok).1.pol = t.pol ∧
    (Term.apply cw t tok).1.main.w = t.main.w ∧ (Term.apply cw t tok).1.main.h = t.main.h ∧
    (Term.apply cw t tok).1.alt.w = t.alt.w ∧ (Term.apply cw t tok).1.alt.h = t.alt.h ∧
    (Shaped t.main → Shaped (Term.apply cw t tok).1.main) ∧
    (Shaped t.alt → Shaped (Term.apply cw t tok).1.alt) := by
  by_cases hd : isDecset tok
  · obtain ⟨ps, fin, rfl, hf⟩ := isDecset_elim hd
    rw [apply_decset cw t ps fin hf]
    have sg := sg_decModes t (decide (fin = 0x68)) ps
    refine ⟨sg.pol, sg.mw, sg.mh, sg.aw, sg.ah, ?_, ?_⟩
    · intro h; exact ⟨by rw [sg.mg, sg.mh]; exact h.1, fun r hr => by rw [sg.mw]; exact h.2 r (sg.mg ▸ hr)⟩
    · intro h; exact ⟨by rw [sg.ag, sg.ah]; exact h.1, fun r hr => by rw [sg.aw]; exact h.2 r (sg.ag ▸ hr)⟩
  · have st := stepU_apply cw t tok hd hwf
    have hon := st.onAlt
    have hin := st.inactive
    have hu := st.upd
    unfold Term.scr at hu
    rw [hon] at hu
    cases ho : t.onAlt
    · simp only [ho, Bool.false_eq_true, if_false] at hu hin
      rw [hin]
      exact ⟨st.pol, hu.w, hu.h, rfl, rfl, hu.shaped, id⟩
    · simp only [ho, if_true] at hu hin
      rw [hin]
      exact ⟨st.pol, rfl, rfl, hu.w, hu.h, id, hu.shaped⟩

/-- rows with a cell that is not announced are unchanged (the announcements span the width) -/
theorem apply_frame (cw : Nat → Nat) (t : Term) (tok : Tok) (hs : Shaped t.scr) (hwf : NeedWF t)
    (x y : Nat) (hx : x < t.scr.w) (hy : y < t.scr.h) (hn : announced t tok x y = false) :
    (Term.apply cw t tok).1.scr.grid[y]? = t.scr.grid[y]? := by
  have hnd : ¬ dmgRow t tok y := by
    rw [← announced_iff t tok x y hx, hn]; simp
  by_cases hd : isDecset tok
  · obtain ⟨ps, fin, rfl, hf⟩ := isDecset_elim hd
    have sg := sg_decModes t (decide (fin = 0x68)) ps
    by_cases h49 : (1049 : Int) ∈ ps
    · exfalso
      apply hnd
      refine ⟨rowsRegion t.scr 0 t.scr.h, ?_, Nat.zero_le _, hy⟩
      rw [damage_decset t ps fin hf, if_pos h49]; simp
    · rw [apply_decset cw t ps fin hf,
        scr_grid_of_onAlt (decModes_onAlt t _ ps h49) sg.mg sg.ag]
  · exact (stepU_apply cw t tok hd hwf).upd.frame hs y hnd

/-- the copy repainted from the announcements equals the new screen, given the cell-level frame -/
theorem repaint_eq (s s' : Scr) (rs : List Region) (hs : Shaped s) (hs' : Shaped s')
    (hw : s'.w = s.w) (hh : s'.h = s.h)
    (hframe : ∀ x y, x < s.w → y < s.h → rs.any (fun r => r.mem x y) = false →
      (s'.row y)[x]? = (s.row y)[x]?) :
    repaint s.grid s'.grid rs = s'.grid := by
  unfold repaint
  apply List.ext_getElem?
  intro y
  rw [List.getElem?_mapIdx]
  by_cases hy : y < s.h
  · have h1 : y < s.grid.length := by rw [hs.1]; exact hy
    have h2 : y < s'.grid.length := by rw [hs'.1, hh]; exact hy
    have l1 : (s.grid[y]).length = s.w := hs.2 _ (List.getElem_mem _)
    have l2 : (s'.grid[y]).length = s.w := by rw [← hw]; exact hs'.2 _ (List.getElem_mem _)
    have r1 : s.row y = s.grid[y] := by rw [row_eq, List.getElem?_eq_getElem h1]; rfl
    have r2 : s'.row y = s'.grid[y] := by rw [row_eq, List.getElem?_eq_getElem h2]; rfl
    rw [List.getElem?_eq_getElem h1, List.getElem?_eq_getElem h2]
    simp only [Option.map_some]
    congr 1
    apply List.ext_getElem?
    intro x
    rw [List.getElem?_mapIdx]
    by_cases hx : x < s.w
    · rw [List.getElem?_eq_getElem (by omega : x < (s.grid[y]).length),
        List.getElem?_eq_getElem (by omega : x < (s'.grid[y]).length)]
      simp only [Option.map_some]
      congr 1
      split
      · have e1 : s'.grid.getD y [] = s'.grid[y] := by
          rw [List.getD_eq_getElem?_getD, List.getElem?_eq_getElem h2]; rfl
        rw [e1, List.getD_eq_getElem?_getD, List.getElem?_eq_getElem (by omega)]; rfl
      · next hany =>
        have := hframe x y hx hy (by simpa using hany)
        rw [r1, r2, List.getElem?_eq_getElem (by omega), List.getElem?_eq_getElem (by omega)] at this
        exact (Option.some.inj this).symm
    · rw [List.getElem?_eq_none (by omega), List.getElem?_eq_none (by omega)]; rfl
  · rw [List.getElem?_eq_none (by rw [hs.1]; omega), List.getElem?_eq_none (by rw [hs'.1, hh]; omega)]
    rfl

theorem shaped_scr {t : Term} (hm : Shaped t.main) (ha : Shaped t.alt) : Shaped t.scr := by
  unfold Term.scr; split <;> assumption

theorem scr_size {t : Term} (hsz : t.main.w = t.alt.w ∧ t.main.h = t.alt.h) :
    t.scr.w = t.main.w ∧ t.scr.h = t.main.h := by
  unfold Term.scr; split
  · exact ⟨hsz.1.symm, hsz.2.symm⟩
  · exact ⟨rfl, rfl⟩

/-- one token, in terms of shapes: the general form of `shadow_sync` -/
theorem shadow_sync_of_shaped (cw : Nat → Nat) (t : Term) (tok : Tok)
    (hm : Shaped t.main) (ha : Shaped t.alt) (hsz : t.main.w = t.alt.w ∧ t.main.h = t.alt.h)
    (hwf : NeedWF t) :
    repaint t.scr.grid (Term.apply cw t tok).1.scr.grid (t.damage tok) =
      (Term.apply cw t tok).1.scr.grid := by
  obtain ⟨_, g1, g2, g3, g4, g5, g6⟩ := apply_geo cw t tok hwf
  have hsz' : (Term.apply cw t tok).1.main.w = (Term.apply cw t tok).1.alt.w ∧
      (Term.apply cw t tok).1.main.h = (Term.apply cw t tok).1.alt.h := by
    rw [g1, g2, g3, g4]; exact hsz
  have z := scr_size hsz
  have z' := scr_size hsz'
  apply repaint_eq _ _ _ (shaped_scr hm ha) (shaped_scr (g5 hm) (g6 ha))
  · rw [z'.1, z.1, g1]
  · rw [z'.2, z.2, g2]
  · intro x y hx hy hn
    rw [row_eq, row_eq, apply_frame cw t tok (shaped_scr hm ha) hwf x y hx hy hn]

end Lemmas
open Lemmas

/-! ## 4. Property theorems: damage and shadow copy -/

/-- **C10 (1) — every change is announced.** For every token, in every state satisfying the
    invariant: a cell `(x,y)` of the screen that lies in no region announced for the token is,
    on the ACTIVE screen after the token, what it was on the active screen before. (When the
    token switches buffers the hypothesis is never met: `switch_announces_everything`.) -/
theorem changes_announced (cw : Nat → Nat) (t : Term) (tok : Tok)
    (hm : t.main.inv = true) (ha : t.alt.inv = true)
    (x y : Nat) (hx : x < t.scr.w) (hy : y < t.scr.h)
    (hn : announced t tok x y = false) :
    ((Term.apply cw t tok).1.scr.row y)[x]? = (t.scr.row y)[x]? := by
  have hs : Shaped t.scr := shaped_scr (inv_shaped hm) (inv_shaped ha)
  have hwf : NeedWF t := fun _ => by
    unfold Term.scr; split
    · exact inv_rowsWF ha
    · exact inv_rowsWF hm
  rw [row_eq, row_eq, apply_frame cw t tok hs hwf x y hx hy hn]

/-- **C10 (1'a).** Only `CSI ? … h` / `CSI ? … l` with 1049 among the parameters can change which
    buffer is active. -/
theorem switch_only_1049 (cw : Nat → Nat) (t : Term) (tok : Tok)
    (hsw : (Term.apply cw t tok).1.onAlt ≠ t.onAlt) :
    ∃ ps fin, tok = .csi 0x3f ps true fin ∧ (fin = 0x68 ∨ fin = 0x6c) ∧ (1049 : Int) ∈ ps := by
  false_or_by_contra
  rename_i hne
  apply hsw
  apply onAlt_apply
  intro ps fin h1 h2 h3
  exact hne ⟨ps, fin, h1, h2, h3⟩

/-- **C10 (1'b), buffer switches.** A token after which the other buffer is active announces
    every cell of the screen, so `changes_announced` and `shadow_sync` hold across a switch with
    the frontend re-reading the whole (new) active screen. -/
theorem switch_announces_everything (cw : Nat → Nat) (t : Term) (tok : Tok)
    (hsw : (Term.apply cw t tok).1.onAlt ≠ t.onAlt)
    (x y : Nat) (hx : x < t.scr.w) (hy : y < t.scr.h) : announced t tok x y = true := by
  obtain ⟨ps, fin, rfl, hf, h49⟩ := switch_only_1049 cw t tok hsw
  rw [announced_iff t _ x y hx]
  refine ⟨rowsRegion t.scr 0 t.scr.h, ?_, Nat.zero_le _, hy⟩
  rw [damage_decset t ps fin hf, if_pos h49]; simp

/-- **C10 (2) — the shadow copy is exact after every token.** In every state satisfying the
    invariant (both buffers, which `Resize` keeps at the same size), a frontend whose copy equals
    the active screen before the token and that re-reads exactly the announced cells afterwards
    holds an exact copy of the (possibly other) active screen after the token: text under both
    policies with early and late autowrap, LF / FF / IND / RI, EL / ED / ECH / DCH, SU / SD / IL /
    DL, buffer switches, and every token that changes no cell. -/
theorem shadow_sync (cw : Nat → Nat) (t : Term) (tok : Tok)
    (hm : t.main.inv = true) (ha : t.alt.inv = true)
    (hsz : t.main.w = t.alt.w ∧ t.main.h = t.alt.h)
    (shadow : List Row) (hsh : shadow = t.scr.grid) :
    repaint shadow (Term.apply cw t tok).1.scr.grid (t.damage tok) =
      (Term.apply cw t tok).1.scr.grid := by
  subst hsh
  refine shadow_sync_of_shaped cw t tok (inv_shaped hm) (inv_shaped ha) hsz (fun _ => ?_)
  unfold Term.scr; split
  · exact inv_rowsWF ha
  · exact inv_rowsWF hm

/-! ### runs of tokens -/

/-- the terminal state after a list of tokens -/
def stateAfter (cw : Nat → Nat) (t : Term) (toks : List Tok) : Term :=
  toks.foldl (fun t tk => (Term.apply cw t tk).1) t

/-- the frontend's copy after a list of tokens: after each token it re-reads, from the then
    active screen, exactly the cells announced for that token -/
def shadowAfter (cw : Nat → Nat) : Term → List Row → List Tok → List Row
  | _, sh, [] => sh
  | t, sh, tok :: toks =>
    shadowAfter cw (Term.apply cw t tok).1
      (repaint sh (Term.apply cw t tok).1.scr.grid (t.damage tok)) toks

/-- the invariant holds (both buffers) in every state of the run in which a token is applied -/
def InvAlong (cw : Nat → Nat) : Term → List Tok → Prop
  | _, [] => True
  | t, tok :: toks =>
    t.main.inv = true ∧ t.alt.inv = true ∧ InvAlong cw (Term.apply cw t tok).1 toks

/-- what is really used of the invariant along a run: under the span policy the rows of the
    active screen are well formed whenever a token is applied -/
def WFAlong (cw : Nat → Nat) : Term → List Tok → Prop
  | _, [] => True
  | t, tok :: toks => NeedWF t ∧ WFAlong cw (Term.apply cw t tok).1 toks

namespace Lemmas

theorem needWF_of_inv {t : Term} (hm : t.main.inv = true) (ha : t.alt.inv = true) : NeedWF t := by
  intro _
  unfold Term.scr; split
  · exact inv_rowsWF ha
  · exact inv_rowsWF hm

theorem wfAlong_of_inv (cw : Nat → Nat) (t : Term) (toks : List Tok) (h : InvAlong cw t toks) :
    WFAlong cw t toks := by
  induction toks generalizing t with
  | nil => trivial
  | cons tok toks ih => exact ⟨needWF_of_inv h.1 h.2.1, ih _ h.2.2⟩

theorem wfAlong_blank (cw : Nat → Nat) (t : Term) (toks : List Tok) (hp : t.pol = .blank) :
    WFAlong cw t toks := by
  induction toks generalizing t with
  | nil => trivial
  | cons tok toks ih =>
    have hn : NeedWF t := fun h => by rw [hp] at h; cases h
    exact ⟨hn, ih _ ((apply_geo cw t tok hn).1.trans hp)⟩

theorem invAlong_take (cw : Nat → Nat) (t : Term) (toks : List Tok) (k : Nat)
    (h : InvAlong cw t toks) : InvAlong cw t (toks.take k) := by
  induction toks generalizing t k with
  | nil => simpa using h
  | cons tok toks ih =>
    cases k with
    | zero => trivial
    | succ k => exact ⟨h.1, h.2.1, ih _ k h.2.2⟩

/-- the general form of the run theorem -/
theorem shadow_sync_run_of_wf (cw : Nat → Nat) (t : Term) (toks : List Tok)
    (hm : Shaped t.main) (ha : Shaped t.alt) (hsz : t.main.w = t.alt.w ∧ t.main.h = t.alt.h)
    (hwf : WFAlong cw t toks) :
    shadowAfter cw t t.scr.grid toks = (stateAfter cw t toks).scr.grid := by
  induction toks generalizing t with
  | nil => rfl
  | cons tok toks ih =>
    obtain ⟨_, g1, g2, g3, g4, g5, g6⟩ := apply_geo cw t tok hwf.1
    show shadowAfter cw (Term.apply cw t tok).1
      (repaint t.scr.grid (Term.apply cw t tok).1.scr.grid (t.damage tok)) toks = _
    rw [shadow_sync_of_shaped cw t tok hm ha hsz hwf.1]
    exact ih _ (g5 hm) (g6 ha) (by rw [g1, g2, g3, g4]; exact hsz) hwf.2

end Lemmas
open Lemmas

/-- **C10 (3) — the shadow copy is exact along a whole run.** Start with a copy of the active
    screen; after each token re-read exactly the announced cells. If the invariant holds in
    every state in which a token is applied (`InvAlong`), the copy equals the active screen at
    the end — and, the statement being for every list, after every token
    (`shadow_sync_every_step`).

    About the hypothesis `InvAlong`: it is used only for the span policy's insertion after a wide
    character (`Row.putKeep` keeps the row length only on a well-formed row). For the grid policy
    it is not needed at all (`shadow_sync_run_blank`, closed form). For the span policy it is
    taken as a hypothesis here; Props/C02 (`apply_wf`, `wf_inv`) proves that every reachable
    state satisfies it, for every width function (characters of width 3 and more included), so
    it holds along every run of a real terminal; an instance with a width-3 character:
    `Examples.keep_width3_invAlong_example`. -/
theorem shadow_sync_run (cw : Nat → Nat) (t : Term) (toks : List Tok)
    (hsz : t.main.w = t.alt.w ∧ t.main.h = t.alt.h) (hinv : InvAlong cw t toks)
    (hm : t.main.inv = true) (ha : t.alt.inv = true) :
    shadowAfter cw t t.scr.grid toks = (stateAfter cw t toks).scr.grid :=
  shadow_sync_run_of_wf cw t toks (inv_shaped hm) (inv_shaped ha) hsz (wfAlong_of_inv cw t toks hinv)

/-- **C10 (3), compared after every parser step**: the copy is exact after every prefix of the run -/
theorem shadow_sync_every_step (cw : Nat → Nat) (t : Term) (toks : List Tok)
    (hsz : t.main.w = t.alt.w ∧ t.main.h = t.alt.h) (hinv : InvAlong cw t toks)
    (hm : t.main.inv = true) (ha : t.alt.inv = true) (k : Nat) :
    shadowAfter cw t t.scr.grid (toks.take k) = (stateAfter cw t (toks.take k)).scr.grid :=
  shadow_sync_run cw t (toks.take k) hsz (invAlong_take cw t toks k hinv) hm ha

/-- **C10 (3), grid policy, closed form.** For the grid buffer (`WidePolicy.blank`) nothing has
    to be assumed about intermediate states: from any state whose two buffers satisfy the
    invariant and have the same size, for every list of tokens, the copy refreshed only from the
    announcements equals the active screen after the run (and after every prefix). -/
theorem shadow_sync_run_blank (cw : Nat → Nat) (t : Term) (toks : List Tok)
    (hpol : t.pol = .blank) (hm : t.main.inv = true) (ha : t.alt.inv = true)
    (hsz : t.main.w = t.alt.w ∧ t.main.h = t.alt.h) :
    shadowAfter cw t t.scr.grid toks = (stateAfter cw t toks).scr.grid :=
  shadow_sync_run_of_wf cw t toks (inv_shaped hm) (inv_shaped ha) hsz (wfAlong_blank cw t toks hpol)

/-! ### byte streams -/

/-- the tokens `runFuel` applies -/
def toksFuel : Nat → Bytes → List Tok
  | 0, _ => []
  | fuel+1, bs =>
    match next bs with
    | .need => []
    | .tok tk n => tk :: toksFuel fuel (bs.drop n)

/-- the tokens the read loop `run` applies to a byte stream -/
def toksOf (bs : Bytes) : List Tok := toksFuel (bs.length + 1) bs

theorem runFuel_state (cw : Nat → Nat) (fuel : Nat) (t : Term) (bs : Bytes) (evs : List Ev) :
    (runFuel cw fuel t bs evs).1 = stateAfter cw t (toksFuel fuel bs) := by
  induction fuel generalizing t bs evs with
  | zero => rfl
  | succ fuel ih =>
    unfold runFuel toksFuel
    cases next bs with
    | need => rfl
    | tok tk n => exact ih _ _ _

/-- **C10 (3), byte streams.** For every input stream at every size: the state `run` reaches is
    the state after the stream's tokens, and the copy refreshed token by token from the
    announcements equals its active screen — provided the invariant holds in the states the
    tokens are applied in (see `shadow_sync_run`). -/
theorem shadow_sync_stream (cw : Nat → Nat) (t : Term) (bs : Bytes)
    (hsz : t.main.w = t.alt.w ∧ t.main.h = t.alt.h) (hinv : InvAlong cw t (toksOf bs))
    (hm : t.main.inv = true) (ha : t.alt.inv = true) :
    shadowAfter cw t t.scr.grid (toksOf bs) = (run cw t bs).1.scr.grid := by
  unfold run
  rw [runFuel_state]
  exact shadow_sync_run cw t _ hsz hinv hm ha

/-- **C10 (3), byte streams, grid policy.** For every input stream at every size: the state
    `run` reaches is the state after the stream's tokens, and the copy refreshed token by token
    from the announcements equals its active screen. -/
theorem shadow_sync_stream_blank (cw : Nat → Nat) (t : Term) (bs : Bytes)
    (hpol : t.pol = .blank) (hm : t.main.inv = true) (ha : t.alt.inv = true)
    (hsz : t.main.w = t.alt.w ∧ t.main.h = t.alt.h) :
    shadowAfter cw t t.scr.grid (toksOf bs) = (run cw t bs).1.scr.grid := by
  unfold run
  rw [runFuel_state]
  exact shadow_sync_run_blank cw t _ hpol hm ha hsz

/-! ## 5. Notifications: the last announced cursor / rendition / view values are the actual ones -/

/-- the cursor position a frontend holds after the events `evs`, having held `old` before -/
def lastCursor (evs : List Ev) (old : Nat × Nat) : Nat × Nat :=
  evs.foldl (fun acc e => match e with | .cursor x y => (x, y) | _ => acc) old

/-- the rendition a frontend holds after the events `evs` -/
def lastStyle (evs : List Ev) (old : Style) : Style :=
  evs.foldl (fun acc e => match e with | .style st => st | _ => acc) old

/-- view flag `i` as a frontend holds it after the events `evs` -/
def lastVFlag (i : Nat) (evs : List Ev) (old : Bool) : Bool :=
  evs.foldl (fun acc e => match e with | .vflag j v => if j = i then v else acc | _ => acc) old

/-- view int `i` as a frontend holds it after the events `evs` -/
def lastVInt (i : Nat) (evs : List Ev) (old : Int) : Int :=
  evs.foldl (fun acc e => match e with | .vint j v => if j = i then v else acc | _ => acc) old

/-- view string `i` as a frontend holds it after the events `evs` -/
def lastVStr (i : Nat) (evs : List Ev) (old : Bytes) : Bytes :=
  evs.foldl (fun acc e => match e with | .vstr j v => if j = i then v else acc | _ => acc) old

/-- no `View*Changed` among the events -/
def noView (evs : List Ev) : Bool :=
  evs.all fun e => match e with | .vflag .. => false | .vint .. => false | .vstr .. => false | _ => true

/-- folding the events of `r` over what the frontend held for `t` gives the actual values of
    the resulting state -/
structure Ntf (t : Term) (r : Term × List Ev) : Prop where
  cursor : lastCursor r.2 (t.scr.cx, t.scr.cy) = (r.1.scr.cx, r.1.scr.cy)
  style : lastStyle r.2 t.scr.sty = r.1.scr.sty
  vflag : ∀ i old, t.vflags[i]? = some old → r.1.vflags[i]? = some (lastVFlag i r.2 old)
  vint : ∀ i old, t.vints[i]? = some old → r.1.vints[i]? = some (lastVInt i r.2 old)
  vstr : ∀ i old, t.vstrs[i]? = some old → r.1.vstrs[i]? = some (lastVStr i r.2 old)

namespace Lemmas

theorem lastVFlag_noView (i : Nat) (evs : List Ev) (old : Bool) (h : noView evs = true) :
    lastVFlag i evs old = old := by
  unfold lastVFlag
  induction evs generalizing old with
  | nil => rfl
  | cons e evs ih =>
    simp only [noView, List.all_cons, Bool.and_eq_true] at h
    rw [List.foldl_cons]
    cases e <;> first | exact ih _ h.2 | (exact absurd h.1 (by simp))

theorem lastVInt_noView (i : Nat) (evs : List Ev) (old : Int) (h : noView evs = true) :
    lastVInt i evs old = old := by
  unfold lastVInt
  induction evs generalizing old with
  | nil => rfl
  | cons e evs ih =>
    simp only [noView, List.all_cons, Bool.and_eq_true] at h
    rw [List.foldl_cons]
    cases e <;> first | exact ih _ h.2 | (exact absurd h.1 (by simp))

theorem lastVStr_noView (i : Nat) (evs : List Ev) (old : Bytes) (h : noView evs = true) :
    lastVStr i evs old = old := by
  unfold lastVStr
  induction evs generalizing old with
  | nil => rfl
  | cons e evs ih =>
    simp only [noView, List.all_cons, Bool.and_eq_true] at h
    rw [List.foldl_cons]
    cases e <;> first | exact ih _ h.2 | (exact absurd h.1 (by simp))

theorem views_setScr (t : Term) (s : Scr) :
    (t.setScr s).vflags = t.vflags ∧ (t.setScr s).vints = t.vints ∧ (t.setScr s).vstrs = t.vstrs := by
  unfold Term.setScr; cases t.onAlt <;> simp

/-- leaf: the active screen is replaced, no view event; side conditions on cursor and style -/
theorem ntf_setScr (t : Term) (s' : Scr) (evs : List Ev) (hv : noView evs = true)
    (hc : lastCursor evs (t.scr.cx, t.scr.cy) = (s'.cx, s'.cy))
    (hs : lastStyle evs t.scr.sty = s'.sty) : Ntf t (t.setScr s', evs) := by
  obtain ⟨v1, v2, v3⟩ := views_setScr t s'
  refine ⟨?_, ?_, ?_, ?_, ?_⟩
  · show _ = ((t.setScr s').scr.cx, (t.setScr s').scr.cy); rw [scr_setScr]; exact hc
  · show _ = (t.setScr s').scr.sty; rw [scr_setScr]; exact hs
  · intro i old h; show (t.setScr s').vflags[i]? = _; rw [v1, h, lastVFlag_noView i evs old hv]
  · intro i old h; show (t.setScr s').vints[i]? = _; rw [v2, h, lastVInt_noView i evs old hv]
  · intro i old h; show (t.setScr s').vstrs[i]? = _; rw [v3, h, lastVStr_noView i evs old hv]

/-- leaf: the state is unchanged and nothing is notified (bell, replies, ignored sequences) -/
theorem ntf_same (t : Term) (evs : List Ev) (hv : noView evs = true)
    (hc : lastCursor evs (t.scr.cx, t.scr.cy) = (t.scr.cx, t.scr.cy))
    (hs : lastStyle evs t.scr.sty = t.scr.sty) : Ntf t (t, evs) :=
  ⟨hc, hs, fun i old h => by rw [lastVFlag_noView i evs old hv]; exact h,
   fun i old h => by rw [lastVInt_noView i evs old hv]; exact h,
   fun i old h => by rw [lastVStr_noView i evs old hv]; exact h⟩

theorem ntf_withScr (t : Term) (s' : Scr) (hs : s'.sty = t.scr.sty) : Ntf t (t.withScr s') :=
  ntf_setScr t s' _ rfl rfl hs.symm

theorem ntf_setKbd (t : Term) (k : Kbd) : Ntf t (t.setKbd k, []) := by
  have h : (t.setKbd k).scr = t.scr ∧ (t.setKbd k).vflags = t.vflags ∧
      (t.setKbd k).vints = t.vints ∧ (t.setKbd k).vstrs = t.vstrs := by
    unfold Term.setKbd Term.scr; cases t.onAlt <;> simp
  obtain ⟨h0, h1, h2, h3⟩ := h
  refine ⟨?_, ?_, ?_, ?_, ?_⟩
  · show _ = ((t.setKbd k).scr.cx, (t.setKbd k).scr.cy); rw [h0]; rfl
  · show _ = (t.setKbd k).scr.sty; rw [h0]; rfl
  · intro i old h; show (t.setKbd k).vflags[i]? = _; rw [h1, h]; rfl
  · intro i old h; show (t.setKbd k).vints[i]? = _; rw [h2, h]; rfl
  · intro i old h; show (t.setKbd k).vstrs[i]? = _; rw [h3, h]; rfl

theorem getElem?_set_some {α : Type} (l : List α) (i j : Nat) (v old : α) (h : l[j]? = some old) :
    (l.set i v)[j]? = some (if i = j then v else old) := by
  have hj : j < l.length := by
    false_or_by_contra
    rw [List.getElem?_eq_none (by omega)] at h; cases h
  rw [List.getElem?_set]
  by_cases e : i = j
  · subst e; simp [hj]
  · simp [e, h]

theorem ntf_setVFlag (t : Term) (i : Nat) (v : Bool) : Ntf t (t.setVFlag i v) := by
  refine ⟨rfl, rfl, ?_, fun _ _ h => h, fun _ _ h => h⟩
  intro j old h
  show (t.vflags.set i v)[j]? = _
  rw [getElem?_set_some _ _ _ _ _ h]; rfl

theorem ntf_setVInt (t : Term) (i : Nat) (v : Int) : Ntf t (t.setVInt i v) := by
  refine ⟨rfl, rfl, fun _ _ h => h, ?_, fun _ _ h => h⟩
  intro j old h
  show (t.vints.set i v)[j]? = _
  rw [getElem?_set_some _ _ _ _ _ h]; rfl

theorem ntf_setVStr (t : Term) (i : Nat) (v : Bytes) : Ntf t (t.setVStr i v) := by
  refine ⟨rfl, rfl, fun _ _ h => h, fun _ _ h => h, ?_⟩
  intro j old h
  show (t.vstrs.set i v)[j]? = _
  rw [getElem?_set_some _ _ _ _ _ h]; rfl

theorem ntf_dite {t : Term} {c : Prop} [Decidable c] {a b : Term × List Ev}
    (ha : c → Ntf t a) (hb : ¬c → Ntf t b) : Ntf t (if c then a else b) := by
  split
  · exact ha ‹_›
  · exact hb ‹_›

/-- two steps in a row: the events are concatenated -/
theorem ntf_trans {t : Term} {r1 : Term × List Ev} {r2 : Term × List Ev}
    (h1 : Ntf t r1) (h2 : Ntf r1.1 r2) : Ntf t (r2.1, r1.2 ++ r2.2) := by
  refine ⟨?_, ?_, ?_, ?_, ?_⟩
  · show lastCursor (r1.2 ++ r2.2) _ = _
    unfold lastCursor; rw [List.foldl_append]
    have := h1.cursor; unfold lastCursor at this; rw [this]
    exact h2.cursor
  · show lastStyle (r1.2 ++ r2.2) _ = _
    unfold lastStyle; rw [List.foldl_append]
    have := h1.style; unfold lastStyle at this; rw [this]
    exact h2.style
  · intro i old h
    show _ = some (lastVFlag i (r1.2 ++ r2.2) old)
    unfold lastVFlag; rw [List.foldl_append]
    exact h2.vflag i _ (h1.vflag i old h)
  · intro i old h
    show _ = some (lastVInt i (r1.2 ++ r2.2) old)
    unfold lastVInt; rw [List.foldl_append]
    exact h2.vint i _ (h1.vint i old h)
  · intro i old h
    show _ = some (lastVStr i (r1.2 ++ r2.2) old)
    unfold lastVStr; rw [List.foldl_append]
    exact h2.vstr i _ (h1.vstr i old h)

theorem setMargins_fields (s : Scr) (a b : Int) :
    (s.setMargins a b).cx = s.cx ∧ (s.setMargins a b).cy = s.cy ∧ (s.setMargins a b).sty = s.sty := by
  unfold Scr.setMargins
  simp only []
  split
  · simp
  · split <;> simp

theorem ntf_switchScreen (t : Term) (v : Bool) : Ntf t (t.switchScreen v) := by
  unfold Term.switchScreen
  split
  · exact ntf_same _ _ rfl rfl rfl
  · exact ⟨rfl, rfl, fun _ _ h => h, fun _ _ h => h, fun _ _ h => h⟩

theorem ntf_decMode (t : Term) (p : Int) (v : Bool) : Ntf t (t.decMode p v) := by
  unfold Term.decMode
  repeat' (first
    | exact ntf_setVFlag _ _ _ | exact ntf_setVInt _ _ _ | exact ntf_switchScreen _ _
    | exact ntf_same _ _ rfl rfl rfl
    | exact ntf_setScr _ _ _ rfl rfl rfl
    | (apply ntf_dite <;> intro _))

theorem ntf_decModes (t : Term) (v : Bool) (ps : List Int) : Ntf t (t.decModes v ps) := by
  induction ps generalizing t with
  | nil => exact ntf_same _ _ rfl rfl rfl
  | cons p ps ih =>
    rw [decModes_cons]
    exact ntf_trans (ntf_decMode t p v) (ih _)

/-- close an `Ntf t (if … then … else …)` goal whose leaves are the simple ones -/
macro "ntf_leaves" : tactic =>
  `(tactic| repeat' (first
      | exact ntf_same _ _ rfl rfl rfl
      | exact ntf_setKbd _ _
      | exact ntf_setVFlag _ _ _
      | exact ntf_setVInt _ _ _
      | exact ntf_setVStr _ _ _
      | exact ntf_withScr _ _ rfl
      | exact ntf_setScr _ _ _ rfl rfl rfl
      | exact ntf_decModes _ _ _
      | (apply ntf_dite <;> intro _)))

theorem ntf_csiPlain (t : Term) (ps : List Int) (fin : UInt8) : Ntf t (t.csiPlain ps fin) := by
  unfold Term.csiPlain
  simp only []
  ntf_leaves
  -- IL, DL, SU, SD: `Scr.scroll` keeps cursor and rendition
  · obtain ⟨_, _, a, b, _, _, _, _, _, c⟩ := scroll_fields t.scr t.scr.cy t.scr.bot (p0 ps 1)
    exact ntf_setScr _ _ _ rfl (by rw [a, b]; rfl) (by rw [c]; rfl)
  · obtain ⟨_, _, a, b, _, _, _, _, _, c⟩ := scroll_fields t.scr t.scr.cy t.scr.bot (-(p0 ps 1))
    exact ntf_setScr _ _ _ rfl (by rw [a, b]; rfl) (by rw [c]; rfl)
  · obtain ⟨_, _, a, b, _, _, _, _, _, c⟩ := scroll_fields t.scr t.scr.top t.scr.bot (-(p0 ps 1))
    exact ntf_setScr _ _ _ rfl (by rw [a, b]; rfl) (by rw [c]; rfl)
  · obtain ⟨_, _, a, b, _, _, _, _, _, c⟩ := scroll_fields t.scr t.scr.top t.scr.bot (p0 ps 1)
    exact ntf_setScr _ _ _ rfl (by rw [a, b]; rfl) (by rw [c]; rfl)
  -- DECSTBM
  · obtain ⟨a, b, c⟩ := setMargins_fields t.scr (pAt ps 0 1 - 1) (pAt ps 1 t.scr.h - 1)
    exact ntf_setScr _ _ _ rfl (by rw [a, b]; rfl) (by rw [c]; rfl)

theorem ntf_csi (t : Term) (pfx : UInt8) (ps : List Int) (fin : UInt8) : Ntf t (t.csi pfx ps fin) := by
  unfold Term.csi
  by_cases h0 : pfx = 0
  · rw [if_pos h0]; exact ntf_csiPlain _ _ _
  · rw [if_neg h0]
    ntf_leaves
    split
    · split
      · exact ntf_setVInt _ _ _
      · exact ntf_same _ _ rfl rfl rfl
    · exact ntf_same _ _ rfl rfl rfl

/-- **every token**: the notifications it emits bring the frontend's last-notified values to the
    actual ones -/
theorem ntf_apply (cw : Nat → Nat) (t : Term) (tok : Tok) : Ntf t (Term.apply cw t tok) := by
  cases tok with
  | text st cp =>
    exact ntf_setScr _ _ _ rfl rfl (put_sty t.pol t.scr st (cw cp)).symm
  | ctl b =>
    simp only [Term.apply]
    ntf_leaves
    · exact ntf_withScr _ _ (lineDown_fields _).2.2.2.2.2.2.2.2
    · exact ntf_withScr _ _ (lineDown_fields _).2.2.2.2.2.2.2.2
  | esc inter fin =>
    simp only [Term.apply]
    ntf_leaves
    · exact ntf_withScr _ _ (lineDown_fields _).2.2.2.2.2.2.2.2
    · exact ntf_withScr _ _ (lineUp_fields _).2.2.2.2.2.2.2.2
  | csi pfx ps clean fin =>
    simp only [Term.apply]
    cases clean
    · exact ntf_same _ _ rfl rfl rfl
    · simp only [if_true]; exact ntf_csi _ _ _ _
  | osc n pl wf =>
    simp only [Term.apply]
    ntf_leaves
  | dcs => exact ntf_same _ _ rfl rfl rfl

end Lemmas
open Lemmas

/-- **C10 (4a) — CursorMoved.** If the last cursor position the frontend was told is the actual
    one before the token, then after folding the token's events it is the actual cursor of the
    (possibly other) active screen. Every token, every state. -/
theorem cursor_last (cw : Nat → Nat) (t : Term) (tok : Tok) (seen : Nat × Nat)
    (h : seen = (t.scr.cx, t.scr.cy)) :
    lastCursor (Term.apply cw t tok).2 seen =
      ((Term.apply cw t tok).1.scr.cx, (Term.apply cw t tok).1.scr.cy) := by
  subst h; exact (ntf_apply cw t tok).cursor

/-- **C10 (4b) — StyleChanged.** The same for the current rendition (a buffer switch announces
    the rendition of the buffer switched to). -/
theorem style_last (cw : Nat → Nat) (t : Term) (tok : Tok) (seen : Style)
    (h : seen = t.scr.sty) :
    lastStyle (Term.apply cw t tok).2 seen = (Term.apply cw t tok).1.scr.sty := by
  subst h; exact (ntf_apply cw t tok).style

/-- **C10 (4c) — ViewFlagChanged**, every index of the flag table -/
theorem view_last_flag (cw : Nat → Nat) (t : Term) (tok : Tok) (i : Nat) (hi : i < t.vflags.length)
    (seen : Bool) (h : seen = t.vflags[i]) :
    (Term.apply cw t tok).1.vflags[i]? = some (lastVFlag i (Term.apply cw t tok).2 seen) := by
  subst h; exact (ntf_apply cw t tok).vflag i _ (List.getElem?_eq_getElem hi)

/-- **C10 (4d) — ViewIntChanged**, every index of the int table -/
theorem view_last_int (cw : Nat → Nat) (t : Term) (tok : Tok) (i : Nat) (hi : i < t.vints.length)
    (seen : Int) (h : seen = t.vints[i]) :
    (Term.apply cw t tok).1.vints[i]? = some (lastVInt i (Term.apply cw t tok).2 seen) := by
  subst h; exact (ntf_apply cw t tok).vint i _ (List.getElem?_eq_getElem hi)

/-- **C10 (4e) — ViewStringChanged**, every index of the string table -/
theorem view_last_str (cw : Nat → Nat) (t : Term) (tok : Tok) (i : Nat) (hi : i < t.vstrs.length)
    (seen : Bytes) (h : seen = t.vstrs[i]) :
    (Term.apply cw t tok).1.vstrs[i]? = some (lastVStr i (Term.apply cw t tok).2 seen) := by
  subst h; exact (ntf_apply cw t tok).vstr i _ (List.getElem?_eq_getElem hi)

/-! ### notifications along a run, a byte stream, and across `Resize` -/

/-- all events of a run of tokens, in order -/
def eventsOf (cw : Nat → Nat) : Term → List Tok → List Ev
  | _, [] => []
  | t, tok :: toks => (Term.apply cw t tok).2 ++ eventsOf cw (Term.apply cw t tok).1 toks

namespace Lemmas

theorem ntf_run (cw : Nat → Nat) (t : Term) (toks : List Tok) :
    Ntf t (stateAfter cw t toks, eventsOf cw t toks) := by
  induction toks generalizing t with
  | nil => exact ntf_same _ _ rfl rfl rfl
  | cons tok toks ih => exact ntf_trans (ntf_apply cw t tok) (ih (Term.apply cw t tok).1)

theorem runFuel_events (cw : Nat → Nat) (fuel : Nat) (t : Term) (bs : Bytes) (evs : List Ev) :
    (runFuel cw fuel t bs evs).2.1 = evs ++ eventsOf cw t (toksFuel fuel bs) := by
  induction fuel generalizing t bs evs with
  | zero => simp [runFuel, toksFuel, eventsOf]
  | succ fuel ih =>
    unfold runFuel toksFuel
    cases next bs with
    | need => simp [eventsOf]
    | tok tk n =>
      simp only []
      rw [ih, eventsOf, List.append_assoc]

theorem run_ntf (cw : Nat → Nat) (t : Term) (bs : Bytes) : Ntf t ((run cw t bs).1, (run cw t bs).2.1) := by
  have h1 : (run cw t bs).1 = stateAfter cw t (toksOf bs) := runFuel_state ..
  have h2 : (run cw t bs).2.1 = eventsOf cw t (toksOf bs) := by
    unfold run; rw [runFuel_events]; rfl
  rw [h1, h2]
  exact ntf_run cw t _

end Lemmas
open Lemmas

/-- **C10 (4), whole input.** For every byte stream, from every state: folding all events emitted
    while `run` consumes the stream over the values the frontend held (equal to the actual ones
    before) gives the actual cursor, rendition and view values of the state reached — so after
    each input the most recent CursorMoved / StyleChanged / View\*Changed values are the
    terminal's actual ones. (Token lists: the same with `stateAfter` / `eventsOf`, by `ntf_run`.) -/
theorem notifications_last_stream (cw : Nat → Nat) (t : Term) (bs : Bytes) :
    lastCursor (run cw t bs).2.1 (t.scr.cx, t.scr.cy) =
      ((run cw t bs).1.scr.cx, (run cw t bs).1.scr.cy) ∧
    lastStyle (run cw t bs).2.1 t.scr.sty = (run cw t bs).1.scr.sty ∧
    (∀ i (hi : i < t.vflags.length),
      (run cw t bs).1.vflags[i]? = some (lastVFlag i (run cw t bs).2.1 t.vflags[i])) ∧
    (∀ i (hi : i < t.vints.length),
      (run cw t bs).1.vints[i]? = some (lastVInt i (run cw t bs).2.1 t.vints[i])) ∧
    (∀ i (hi : i < t.vstrs.length),
      (run cw t bs).1.vstrs[i]? = some (lastVStr i (run cw t bs).2.1 t.vstrs[i])) := by
  have h := run_ntf cw t bs
  exact ⟨h.cursor, h.style, fun i hi => h.vflag i _ (List.getElem?_eq_getElem hi),
    fun i hi => h.vint i _ (List.getElem?_eq_getElem hi),
    fun i hi => h.vstr i _ (List.getElem?_eq_getElem hi)⟩

/-- **C10 (4), `Resize`.** The events of `Term.resize` end with the cursor and the rendition of
    the active buffer, so the frontend's last values are again the actual ones (whatever it held
    before). -/
theorem resize_last (t : Term) (w h : Nat) (seenC : Nat × Nat) (seenS : Style) :
    lastCursor (t.resize w h).2 seenC = ((t.resize w h).1.scr.cx, (t.resize w h).1.scr.cy) ∧
    lastStyle (t.resize w h).2 seenS = (t.resize w h).1.scr.sty := ⟨rfl, rfl⟩

/-! ### ScrollLines -/

/-- no `ScrollLines` among the events -/
def noSL (evs : List Ev) : Bool :=
  evs.all fun e => match e with | .scrollLines _ => false | _ => true

namespace Lemmas

theorem nosl_dite {c : Prop} [Decidable c] {a b : Term × List Ev}
    (ha : c → noSL a.2 = true) (hb : ¬c → noSL b.2 = true) : noSL (if c then a else b).2 = true := by
  split
  · exact ha ‹_›
  · exact hb ‹_›

theorem nosl_switchScreen (t : Term) (v : Bool) : noSL (t.switchScreen v).2 = true := by
  unfold Term.switchScreen; split <;> rfl

theorem nosl_decMode (t : Term) (p : Int) (v : Bool) : noSL (t.decMode p v).2 = true := by
  unfold Term.decMode
  repeat' (first | rfl | exact nosl_switchScreen _ _ | (apply nosl_dite <;> intro _))

theorem nosl_decModes (t : Term) (v : Bool) (ps : List Int) : noSL (t.decModes v ps).2 = true := by
  induction ps generalizing t with
  | nil => rfl
  | cons p ps ih =>
    rw [decModes_cons]
    show noSL ((t.decMode p v).2 ++ ((t.decMode p v).1.decModes v ps).2) = true
    unfold noSL
    rw [List.all_append, Bool.and_eq_true]
    exact ⟨nosl_decMode t p v, ih _⟩

macro "nosl_leaves" : tactic =>
  `(tactic| repeat' (first | rfl | exact nosl_decModes _ _ _ | (apply nosl_dite <;> intro _)))

theorem nosl_csiPlain (t : Term) (ps : List Int) (fin : UInt8) : noSL (t.csiPlain ps fin).2 = true := by
  unfold Term.csiPlain
  simp only []
  nosl_leaves

theorem nosl_csi (t : Term) (pfx : UInt8) (ps : List Int) (fin : UInt8) :
    noSL (t.csi pfx ps fin).2 = true := by
  unfold Term.csi
  by_cases h0 : pfx = 0
  · rw [if_pos h0]; exact nosl_csiPlain _ _ _
  · rw [if_neg h0]
    nosl_leaves
    split
    · split <;> rfl
    · rfl

theorem nosl_apply (cw : Nat → Nat) (t : Term) (tok : Tok) : noSL (Term.apply cw t tok).2 = true := by
  cases tok with
  | text st cp => rfl
  | ctl b => simp only [Term.apply]; nosl_leaves
  | esc inter fin => simp only [Term.apply]; nosl_leaves
  | csi pfx ps clean fin =>
    simp only [Term.apply]
    cases clean
    · rfl
    · simp only [if_true]; exact nosl_csi _ _ _ _
  | osc n pl wf => simp only [Term.apply]; nosl_leaves
  | dcs => rfl

end Lemmas
open Lemmas

/-- **C10 (5) — ScrollLines, part 1.** `Term.apply` itself emits no `Ev.scrollLines` for any token
    in any state: the announcement of rows leaving the top of the main screen is computed apart
    from the token's other events (`Term.scrollOff`, `TM/Scrollback.lean`) and `Term.applyS` puts
    it in front of them. Together with §7 (`scrollLines_announced_iff` and the transcript
    theorems) this says that `Term.applyS` announces exactly the rows that are lost and nothing
    else. (Before fix 715b710 the code never called `ScrollLines`; this theorem was then all
    that could be said, hence its place here.) -/
theorem apply_emits_no_scrollLines (cw : Nat → Nat) (t : Term) (tok : Tok) :
    ∀ e ∈ (Term.apply cw t tok).2, ∀ n, e ≠ .scrollLines n := by
  intro e he n hn
  have := nosl_apply cw t tok
  unfold noSL at this
  rw [List.all_eq_true] at this
  have h := this e he
  rw [hn] at h
  cases h

/-! ## 6. Non-vacuity: concrete states, tokens and runs -/
namespace Examples

private abbrev d : Style := Style.default
private abbrev zi : Bytes := [0xE5, 0xAD, 0x97]     -- a double-width character
/-- a width function: CJK code points are double width -/
def cw2 : Nat → Nat := fun cp => if cp ≥ 0x1100 then 2 else 1

/-- 4 columns × 3 rows, scroll region rows 0–1, a double-width character in row 0 columns 1–2,
    cursor on the last column of the bottom margin row, autowrap on -/
def exMain : Scr :=
  { w := 4, h := 3,
    grid := [[blank d, ⟨.ch zi 2, d⟩, ⟨.cont, d⟩, blank d],
             [⟨.ch [0x62] 1, d⟩, blank d, blank d, blank d],
             [⟨.ch [0x61] 1, d⟩, blank d, blank d, blank d]],
    cx := 3, cy := 1, sx := 0, sy := 0, top := 0, bot := 1, wrap := true, sty := d }

/-- span policy, main screen active, blank alternate screen of the same size -/
def exT : Term := { pol := .keep, main := exMain, alt := Scr.init 4 3 }

def wide : Tok := .text zi 0x5b57
def switchAlt : Tok := .csi 0x3f [1049] true 0x68
def switchMain : Tok := .csi 0x3f [1049] true 0x6c

-- the hypotheses of `changes_announced` / `shadow_sync`
example : exT.main.inv = true ∧ exT.alt.inv = true ∧
    exT.main.w = exT.alt.w ∧ exT.main.h = exT.alt.h := by decide

-- a double-width character at the last column of the bottom margin: early wrap, the region
-- scrolls, the screen really changes, and the repainted copy is the new screen
example : (Term.apply cw2 exT wide).1.scr.grid ≠ exT.scr.grid ∧
    repaint exT.scr.grid (Term.apply cw2 exT wide).1.scr.grid (exT.damage wide) =
      (Term.apply cw2 exT wide).1.scr.grid := by decide

-- the hypothesis of `changes_announced` is satisfiable: `CSI 2 K` in row 1 announces nothing of
-- rows 0 and 2, and changes row 1
example : announced exT (.csi 0 [2] true 0x4b) 1 0 = false ∧
    announced exT (.csi 0 [2] true 0x4b) 0 2 = false ∧
    announced exT (.csi 0 [2] true 0x4b) 0 1 = true ∧
    (Term.apply cw2 exT (.csi 0 [2] true 0x4b)).1.scr.row 1 ≠ exT.scr.row 1 := by decide

-- span policy with the cursor on the continuation cell (row 0, column 2): `Row.putKeep`
example :
    let t1 := (Term.apply cw2 exT (.csi 0 [1, 3] true 0x48)).1
    contAt (t1.scr.row t1.scr.cy) t1.scr.cx = true ∧
    (Term.apply cw2 t1 (.text [0x78] 0x78)).1.scr.row 0 =
      [blank d, ⟨.ch zi 2, d⟩, ⟨.cont, d⟩, ⟨.ch [0x78] 1, d⟩] ∧
    repaint t1.scr.grid (Term.apply cw2 t1 (.text [0x78] 0x78)).1.scr.grid
        (t1.damage (.text [0x78] 0x78)) = (Term.apply cw2 t1 (.text [0x78] 0x78)).1.scr.grid := by
  decide

-- a scroll: LF on the bottom margin moves row 1 to row 0; row 2 (outside the region) is neither
-- announced nor changed
example : (Term.apply cw2 exT (.ctl 10)).1.scr.row 0 = exT.scr.row 1 ∧
    announced exT (.ctl 10) 0 2 = false ∧
    repaint exT.scr.grid (Term.apply cw2 exT (.ctl 10)).1.scr.grid (exT.damage (.ctl 10)) =
      (Term.apply cw2 exT (.ctl 10)).1.scr.grid := by decide

-- a buffer switch: the other buffer is active afterwards, every cell is announced
example : (Term.apply cw2 exT switchAlt).1.onAlt ≠ exT.onAlt ∧
    (Term.apply cw2 exT switchAlt).1.scr.grid ≠ exT.scr.grid ∧
    announced exT switchAlt 3 2 = true ∧
    repaint exT.scr.grid (Term.apply cw2 exT switchAlt).1.scr.grid (exT.damage switchAlt) =
      (Term.apply cw2 exT switchAlt).1.scr.grid := by decide

/-- a run with a wide character, scrolls, a switch to the alternate screen and back -/
def exRun : List Tok :=
  [wide, .ctl 10, .csi 0 [1, 3] true 0x48, .text [0x78] 0x78, switchAlt, wide, .csi 0 [1] true 0x4c,
   switchMain, .esc [] 0x4d, .csi 0 [] true 0x4a]

-- the hypothesis `InvAlong` of `shadow_sync_run` holds along it (span policy)
example : InvAlong cw2 exT exRun := by
  simp only [InvAlong, exRun]
  decide

-- and the conclusion, computed: the copy is the final screen, which differs from the initial one
example : shadowAfter cw2 exT exT.scr.grid exRun = (stateAfter cw2 exT exRun).scr.grid ∧
    (stateAfter cw2 exT exRun).scr.grid ≠ exT.scr.grid := by decide

-- byte level (grid policy): `ESC [ ? 1049 h`, `a`, LF
example :
    toksOf [0x1b, 0x5b, 0x3f, 0x31, 0x30, 0x34, 0x39, 0x68, 0x61, 0x0a] =
      [.csi 0x3f [1049] true 0x68, .text [0x61] 0x61, .ctl 10] := by decide

-- notifications: the wide character moves the cursor from (3,1) to (2,1); the switch announces
-- the alternate screen's cursor (0,0) and its rendition; `?25l` clears view flag 1
example : lastCursor (Term.apply cw2 exT wide).2 (3, 1) = (2, 1) ∧
    lastCursor (Term.apply cw2 exT switchAlt).2 (3, 1) = (0, 0) ∧
    lastStyle (Term.apply cw2
      { exT with alt := { Scr.init 4 3 with sty := ⟨0x101#32, colDefault, colDefault⟩ } }
      switchAlt).2 d = ⟨0x101#32, colDefault, colDefault⟩ ∧
    lastVFlag 1 (Term.apply cw2 { exT with vflags := [false, true, false, false, false, false] }
      (.csi 0x3f [25] true 0x6c)).2 true = false := by decide

-- `CSI s` notifies nothing and moves nothing the frontend was told; `?7h` likewise
example : (Term.apply cw2 exT (.csi 0 [] true 0x73)).2 = [] ∧
    (Term.apply cw2 exT (.csi 0x3f [7] true 0x68)).2 = [] ∧
    (Term.apply cw2 exT (.csi 0 [] true 0x73)).1.scr.sx = 3 := by decide

/-- a width function with one triple-width character -/
def cw3 (cp : Nat) : Nat := if cp = 0x57 then 3 else 1

/-- `WWW  CUP(1,3) x  CUP(1,1) DCH 4  CUP(1,6) W  CUP(1,5) ECH 1  CUP(1,8) x` (the input of
    Props/C02 `keep_policy_width3_breaks_geo`) -/
def width3Input : Bytes :=
  [87, 87, 87, 27, 91, 49, 59, 51, 72, 120, 27, 91, 49, 59, 49, 72, 27, 91, 52, 80, 27, 91, 49, 59,
   54, 72, 87, 27, 91, 49, 59, 53, 72, 27, 91, 49, 88, 27, 91, 49, 59, 56, 72, 120]

/-- **With a width-3 character the span policy keeps the invariant along the run** and the
    shadow copy is exact: on a 9 × 1 span-buffer terminal this input (which made the earlier
    `Row.putKeep`, right only for kept characters of width 2, leave a row of 8 cells — recorded
    then as `keep_width3_needs_invAlong_example`) keeps `Scr.inv` in every state of the run, so
    the hypothesis `InvAlong` of `shadow_sync_run` holds and the copy equals the final screen. -/
theorem keep_width3_invAlong_example :
    shadowAfter cw3 (Term.init .keep 9 1) (Term.init .keep 9 1).scr.grid (toksOf width3Input) =
      (run cw3 (Term.init .keep 9 1) width3Input).1.scr.grid ∧
    InvAlong cw3 (Term.init .keep 9 1) (toksOf width3Input) := by
  have ht : toksOf width3Input =
      [.text [87] 87, .text [87] 87, .text [87] 87, .csi 0 [1, 3] true 0x48, .text [120] 120,
       .csi 0 [1, 1] true 0x48, .csi 0 [4] true 0x50, .csi 0 [1, 6] true 0x48, .text [87] 87,
       .csi 0 [1, 5] true 0x48, .csi 0 [1] true 0x58, .csi 0 [1, 8] true 0x48, .text [120] 120] := by
    decide
  have hinv : InvAlong cw3 (Term.init .keep 9 1) (toksOf width3Input) := by
    rw [ht]
    simp only [InvAlong]
    decide
  exact ⟨shadow_sync_stream cw3 _ width3Input ⟨rfl, rfl⟩ hinv (by decide) (by decide), hinv⟩

end Examples

/-! ## 7. ScrollLines: the rows that leave the main screen through the top (`TM/Scrollback.lean`)

Since fix 715b710 `scroll(y1, y2, dy)` calls `ScrollLines(min(-dy, y2+1))` when `y1 = 0`, `dy < 0`
and the buffer is the main one, just before the first rows are overwritten. `TM/Scrollback.lean`
counts those rows for every place a token reaches `Scr.scroll` (`Scr.scrollOff`, `Scr.lineDownOff`,
`Scr.putOff`, `Term.scrollOff`) and `Term.applyS` puts the announcement in front of the token's
other events. This section proves that the counted rows are exactly the rows that disappear
through the top, and that without an announcement nothing disappears through the top:

* `Scr.scroll`: `scrollOff_le`, `scrollOff_pos_iff`, `scroll_transcript`, `scroll_row0_kept`,
  `scroll_above_kept`, `scroll_down_rows`
* `Scr.lineDown`: `lineDownOff_le_one`, `lineDownOff_pos_iff`, `lineDown_transcript`,
  `lineDown_row0_kept`
* `Scr.put` (early and late wrap; up to 2 rows): `putStart_spec`, `putOff_le_two`,
  `putOff_pos_imp`, `put_transcript_rows`, `put_off_zero_rows`, `put_off_one_rows`, `put_row0_kept`
* tokens: `scrollOff_alt`, `alt_keeps_main`, `scrollLines_announced_iff` (with `applyS_state`,
  `applyS_events`, which hold by unfolding), `scroll_tokens_transcript` (LF, FF, IND, SU),
  `dl_transcript`, `scroll_tokens_silent_row0` (LF, FF, IND, SU, DL), `text_transcript_rows`

(`apply_emits_no_scrollLines` above stays true of `Term.apply`, whose events do not include the
announcement; it is used here to show that `Term.applyS` announces nothing else.) -/

namespace Lemmas

/-- rows of the grid after an effective `Scr.scroll`, pointwise -/
theorem scroll_getElem? (s : Scr) (a b : Nat) (d : Int) (hg : s.grid.length = s.h)
    (hc : ¬ (a > b ∨ b ≥ s.h)) (y : Nat) :
    (s.scroll a b d).grid[y]? =
      if y < a then s.grid[y]? else if y ≤ b then (scrollMid s a b d)[y - a]? else s.grid[y]? := by
  rw [scroll_eq s a b d hc]
  have hml := scrollMid_length s a b d hg hc
  simp only [List.getElem?_append, List.length_append, List.length_take, hml, hg,
    List.getElem?_take, List.getElem?_drop]
  have m1 : min a s.h = a := by omega
  rw [m1]
  by_cases h1 : y < a
  · have : y < a + (b - a + 1) := by omega
    simp [h1, this]
  · by_cases h2 : y ≤ b
    · have : y < a + (b - a + 1) := by omega
      simp [h1, h2, this]
    · have h3 : ¬ y < a + (b - a + 1) := by omega
      simp only [h1, h2, h3, if_false]
      congr 1; omega

/-- an upward scroll of `[0,b]`, pointwise: rows move up by `k`, the last `k` become blank -/
theorem scrollMid_up (s : Scr) (b : Nat) (d : Int) (hd : d < 0) :
    scrollMid s 0 b d = (s.grid.take (b + 1)).drop (min d.natAbs (b + 1)) ++
      List.replicate (min d.natAbs (b + 1)) (blankRow s.w s.sty) := by
  unfold scrollMid
  have : ¬ d ≥ 0 := by omega
  simp [this]

theorem scrollOff_zero_of_nonneg (s : Scr) (y1 y2 : Nat) (d : Int) (hd : 0 ≤ d) :
    s.scrollOff y1 y2 d = 0 := by
  unfold Scr.scrollOff
  split
  · rfl
  · rw [if_neg (by omega)]

/-- a scroll by 0 rows changes nothing -/
theorem scroll_zero (s : Scr) (a b : Nat) : s.scroll a b 0 = s := by
  by_cases hc : a > b ∨ b ≥ s.h
  · exact scroll_noop s a b 0 hc
  · rw [scroll_eq s a b 0 hc]
    have : scrollMid s a b 0 = (s.grid.drop a).take (b - a + 1) := by
      unfold scrollMid; simp [List.take_take]
    rw [this]
    have e : s.grid.drop (b + 1) = (s.grid.drop a).drop (b - a + 1) := by
      rw [List.drop_drop]; congr 1; omega
    rw [e, List.append_assoc, List.take_append_drop, List.take_append_drop]

end Lemmas
open Lemmas

/-- **C10 (5a) — the announced count never exceeds the scrolled range.** -/
theorem scrollOff_le (s : Scr) (y1 y2 : Nat) (d : Int) : s.scrollOff y1 y2 d ≤ y2 + 1 := by
  unfold Scr.scrollOff
  split
  · omega
  · split <;> omega

/-- **C10 (5a') — when something is announced**: exactly for an effective upward scroll of a range
    that starts on row 0. -/
theorem scrollOff_pos_iff (s : Scr) (y1 y2 : Nat) (d : Int) :
    0 < s.scrollOff y1 y2 d ↔ (y1 = 0 ∧ y2 < s.h ∧ d < 0) := by
  unfold Scr.scrollOff
  split
  · omega
  · split <;> omega

/-- the count of an effective upward scroll of `[0, y2]` (helper) -/
theorem scrollOff_eq (s : Scr) (y2 : Nat) (d : Int) (h2 : y2 < s.h) (hd : d < 0) :
    s.scrollOff 0 y2 d = min d.natAbs (y2 + 1) := by
  unfold Scr.scrollOff
  rw [if_neg (by omega), if_pos ⟨rfl, hd⟩]

/-- **C10 (5b) — nothing is lost when the announced rows are kept.** For an upward scroll of the
    range `[0, y2]` (`k` rows announced): the `k` announced rows followed by the range after the
    scroll are the range before the scroll followed by `k` blank rows. So the announced rows are
    exactly the rows that leave, and they leave through the top in order. -/
theorem scroll_transcript (s : Scr) (y2 : Nat) (d : Int) (hg : s.grid.length = s.h)
    (h2 : y2 < s.h) (hd : d ≤ 0) :
    s.grid.take (s.scrollOff 0 y2 d) ++ (s.scroll 0 y2 d).grid.take (y2 + 1) =
      s.grid.take (y2 + 1) ++ List.replicate (s.scrollOff 0 y2 d) (blankRow s.w s.sty) := by
  by_cases hz : d = 0
  · rw [hz, scroll_zero, scrollOff_zero_of_nonneg s 0 y2 0 (by omega)]; simp
  have hd : d < 0 := by omega
  have hc : ¬ (0 > y2 ∨ y2 ≥ s.h) := by omega
  rw [scrollOff_eq s y2 d h2 hd, scroll_eq s 0 y2 d hc]
  have hml := scrollMid_length s 0 y2 d hg hc
  simp only [List.take_zero, List.nil_append]
  have e1 : (scrollMid s 0 y2 d ++ s.grid.drop (y2 + 1)).take (y2 + 1) = scrollMid s 0 y2 d :=
    List.take_left' (by omega)
  rw [e1, scrollMid_up s y2 d hd, ← List.append_assoc]
  congr 1
  have : s.grid.take (min d.natAbs (y2 + 1)) =
      (s.grid.take (y2 + 1)).take (min d.natAbs (y2 + 1)) := by
    rw [List.take_take]; congr 1; omega
  rw [this, List.take_append_drop]


namespace Lemmas

/-- rows above the scrolled range stay -/
theorem scroll_above (s : Scr) (a b : Nat) (d : Int) (hg : s.grid.length = s.h) (y : Nat)
    (hy : y < a) : (s.scroll a b d).grid[y]? = s.grid[y]? := by
  by_cases hc : a > b ∨ b ≥ s.h
  · rw [scroll_noop s a b d hc]
  · rw [scroll_getElem? s a b d hg hc, if_pos hy]

/-- rows below the scrolled range stay -/
theorem scroll_below (s : Scr) (a b : Nat) (d : Int) (hg : s.grid.length = s.h) (y : Nat)
    (hy : b < y) : (s.scroll a b d).grid[y]? = s.grid[y]? := by
  by_cases hc : a > b ∨ b ≥ s.h
  · rw [scroll_noop s a b d hc]
  · rw [scroll_getElem? s a b d hg hc, if_neg (by omega), if_neg (by omega)]

/-- an upward scroll of `[0,b]`: old row `y ≥ k` is new row `y - k` -/
theorem scroll_up_row (s : Scr) (b : Nat) (d : Int) (hg : s.grid.length = s.h) (hb : b < s.h)
    (hd : d < 0) (y : Nat) (h1 : s.scrollOff 0 b d ≤ y) (h2 : y ≤ b) :
    (s.scroll 0 b d).grid[y - s.scrollOff 0 b d]? = s.grid[y]? := by
  have hc : ¬ (0 > b ∨ b ≥ s.h) := by omega
  rw [scrollOff_eq s b d hb hd] at h1 ⊢
  rw [scroll_getElem? s 0 b d hg hc, if_neg (by omega), if_pos (by omega), scrollMid_up s b d hd]
  simp only [Nat.sub_zero]
  rw [List.getElem?_append_left (by
    simp only [List.length_drop, List.length_take, hg]; omega)]
  rw [List.getElem?_drop, List.getElem?_take, if_pos (by omega)]
  congr 1; omega

/-- … and the last `k` rows of the range are blank -/
theorem scroll_up_blank (s : Scr) (b : Nat) (d : Int) (hg : s.grid.length = s.h) (hb : b < s.h)
    (hd : d < 0) (y : Nat) (h1 : b < y + s.scrollOff 0 b d) (h2 : y ≤ b) :
    (s.scroll 0 b d).grid[y]? = some (blankRow s.w s.sty) := by
  have hc : ¬ (0 > b ∨ b ≥ s.h) := by omega
  rw [scrollOff_eq s b d hb hd] at h1
  rw [scroll_getElem? s 0 b d hg hc, if_neg (by omega), if_pos (by omega), scrollMid_up s b d hd]
  simp only [Nat.sub_zero]
  rw [List.getElem?_append_right (by
    simp only [List.length_drop, List.length_take, hg]; omega)]
  rw [List.getElem?_replicate, if_pos (by
    simp only [List.length_drop, List.length_take, hg]; omega)]

end Lemmas
open Lemmas

/-- **C10 (5c) — no announcement, no loss.** When `Scr.scroll` announces nothing and is not a
    downward scroll, the top row of the screen is untouched. -/
theorem scroll_row0_kept (s : Scr) (y1 y2 : Nat) (d : Int) (hg : s.grid.length = s.h)
    (h0 : s.scrollOff y1 y2 d = 0) (hd : d ≤ 0) :
    (s.scroll y1 y2 d).grid[0]? = s.grid[0]? := by
  by_cases hc : y1 > y2 ∨ y2 ≥ s.h
  · rw [scroll_noop s y1 y2 d hc]
  · by_cases hz : d = 0
    · rw [hz, scroll_zero s y1 y2]
    · by_cases h1 : y1 = 0
      · exfalso
        have : 0 < s.scrollOff y1 y2 d := (scrollOff_pos_iff s y1 y2 d).2 ⟨h1, by omega, by omega⟩
        omega
      · exact scroll_above s y1 y2 d hg 0 (by omega)

/-- rows above the scrolled range are never touched (whatever the direction) -/
theorem scroll_above_kept (s : Scr) (y1 y2 : Nat) (d : Int) (hg : s.grid.length = s.h) (y : Nat)
    (hy : y < y1) : (s.scroll y1 y2 d).grid[y]? = s.grid[y]? := scroll_above s y1 y2 d hg y hy

/-! ### `Scr.lineDown` -/

/-- **C10 (5e) — `lineDown` announces at most one row.** -/
theorem lineDownOff_le_one (s : Scr) : s.lineDownOff ≤ 1 := by
  unfold Scr.lineDownOff Scr.scrollOff
  split
  · split
    · omega
    · split <;> omega
  · omega

/-- **C10 (5e') — … and exactly when the cursor stands on the bottom margin of a region that starts
    on row 0.** -/
theorem lineDownOff_pos_iff (s : Scr) :
    0 < s.lineDownOff ↔ (s.cy = s.bot ∧ s.top = 0 ∧ s.bot < s.h) := by
  unfold Scr.lineDownOff
  split
  · rw [scrollOff_pos_iff]; simp [*]
  · simp [*]

/-- **C10 (5e'') — `lineDown` (LF, FF, IND, both wraps of a text write), top margin on row 0**: the
    announced rows followed by the region afterwards are the region before followed by as many
    blank rows. No hypothesis on the cursor or the bottom margin. -/
theorem lineDown_transcript (s : Scr) (hg : s.grid.length = s.h) (ht : s.top = 0) :
    s.grid.take s.lineDownOff ++ s.lineDown.grid.take (s.bot + 1) =
      s.grid.take (s.bot + 1) ++ List.replicate s.lineDownOff (blankRow s.w s.sty) := by
  rw [lineDown_grid]
  unfold Scr.lineDownOff
  split
  · rw [ht]
    by_cases hb : s.bot < s.h
    · exact scroll_transcript s s.bot (-1) hg hb (by omega)
    · rw [scroll_noop s 0 s.bot (-1) (by omega)]
      have : s.scrollOff 0 s.bot (-1) = 0 := by
        unfold Scr.scrollOff; rw [if_pos (by omega)]
      simp [this]
  · simp

/-- without an announcement `lineDown` leaves the top row alone -/
theorem lineDown_row0_kept (s : Scr) (hg : s.grid.length = s.h) (h0 : s.lineDownOff = 0) :
    s.lineDown.grid[0]? = s.grid[0]? := by
  rw [lineDown_grid]
  unfold Scr.lineDownOff at h0
  split
  · rw [if_pos ‹_›] at h0
    exact scroll_row0_kept s s.top s.bot (-1) hg h0 (by omega)
  · rfl

namespace Lemmas

/-- `lineDown` with the top margin on row 0, pointwise: old row `y ≥ k` of the region is new row
    `y - k` (`k` the announced count), rows below the region stay -/
theorem lineDown_rows (s : Scr) (hg : s.grid.length = s.h) (ht : s.top = 0) :
    (∀ y, s.lineDownOff ≤ y → y ≤ s.bot → s.lineDown.grid[y - s.lineDownOff]? = s.grid[y]?) ∧
    (∀ y, s.bot < y → s.lineDown.grid[y]? = s.grid[y]?) := by
  rw [lineDown_grid]
  unfold Scr.lineDownOff
  split
  · rw [ht]
    by_cases hb : s.bot < s.h
    · exact ⟨fun y h1 h2 => scroll_up_row s s.bot (-1) hg hb (by omega) y h1 h2,
        fun y hy => scroll_below s 0 s.bot (-1) hg y hy⟩
    · rw [scroll_noop s 0 s.bot (-1) (by omega)]
      have : s.scrollOff 0 s.bot (-1) = 0 := by
        unfold Scr.scrollOff; rw [if_pos (by omega)]
      simp [this]
  · simp

theorem lineDown_length (s : Scr) (hg : s.grid.length = s.h) : s.lineDown.grid.length = s.h := by
  rw [lineDown_grid]
  split
  · by_cases hc : s.top > s.bot ∨ s.bot ≥ s.h
    · rw [scroll_noop _ _ _ _ hc]; exact hg
    · rw [scroll_eq _ _ _ _ hc]
      simp only [List.length_append, List.length_take, List.length_drop,
        scrollMid_length s _ _ _ hg hc, hg]
      omega
  · exact hg

end Lemmas
open Lemmas

/-- **C10 (5d) — a downward scroll (IL, SD, RI) pushes nothing out through the top**: with
    `k = min d (y2 - y1 + 1)`, every row `y` of the range with `y + k ≤ y2` is found `k` rows lower;
    rows are lost only at the bottom of the range. -/
theorem scroll_down_rows (s : Scr) (y1 y2 : Nat) (d : Int) (hg : s.grid.length = s.h)
    (h2 : y2 < s.h) (hd : 0 ≤ d) (y : Nat) (ha : y1 ≤ y)
    (hb : y + min d.natAbs (y2 - y1 + 1) ≤ y2) :
    (s.scroll y1 y2 d).grid[y + min d.natAbs (y2 - y1 + 1)]? = s.grid[y]? := by
  have hc : ¬ (y1 > y2 ∨ y2 ≥ s.h) := by omega
  rw [scroll_getElem? s y1 y2 d hg hc, if_neg (by omega), if_pos hb]
  unfold scrollMid
  simp only [ge_iff_le, hd, if_true]
  rw [List.getElem?_append_right (by simp only [List.length_replicate]; omega)]
  simp only [List.length_replicate, List.getElem?_take, List.getElem?_drop]
  rw [if_pos (by omega), if_pos (by omega)]
  congr 1; omega

/-! ### `Scr.put`: the early and the late wrap -/

/-- `Scr.putStart` is the state `pre` of the decomposition `put_eq`: the state in which `Scr.put`
    writes the character, so `Scr.putOff` talks about the scrolls `Scr.put` really performs. -/
theorem putStart_spec (s : Scr) (w0 : Nat) : s.putStart w0 = pre s (effW s w0) := rfl

/-- rows announced by the early wrap of `Scr.put` -/
def putEarly (s : Scr) (w0 : Nat) : Nat :=
  if s.cx + effW s w0 > s.w ∧ s.wrap = true then ({ s with cx := 0 } : Scr).lineDownOff else 0

/-- rows announced by the late wrap of `Scr.put` -/
def putLate (pol : WidePolicy) (s : Scr) (w0 : Nat) : Nat :=
  if putX pol (s.putStart w0) (effW s w0) < (s.putStart w0).w then 0
  else if (s.putStart w0).wrap then (s.putStart w0).lineDownOff else 0

/-- `Scr.putOff` is the sum of the two wraps (by unfolding) -/
theorem putOff_eq (pol : WidePolicy) (s : Scr) (w0 : Nat) :
    s.putOff pol w0 = putEarly s w0 + putLate pol s w0 := rfl

/-- **C10 (5f') — a text write announces at most two rows** (one per wrap; 2 is attained:
    `ScrollExamples`, a double-width character on a screen 2 columns wide). -/
theorem putOff_le_two (pol : WidePolicy) (s : Scr) (w0 : Nat) : s.putOff pol w0 ≤ 2 := by
  rw [putOff_eq]
  have h1 : putEarly s w0 ≤ 1 := by
    unfold putEarly; split
    · exact lineDownOff_le_one _
    · omega
  have h2 : putLate pol s w0 ≤ 1 := by
    unfold putLate; split
    · omega
    · split
      · exact lineDownOff_le_one _
      · omega
  omega

/-- **C10 (5f'') — a text write announces something only with autowrap on and the top margin on
    row 0.** No invariant needed. -/
theorem putOff_pos_imp (pol : WidePolicy) (s : Scr) (w0 : Nat) (h : 0 < s.putOff pol w0) :
    s.top = 0 ∧ s.wrap = true := by
  rw [putOff_eq] at h
  obtain ⟨_, _, f3, _, f5, _⟩ := pre_fields s (effW s w0)
  by_cases he : 0 < putEarly s w0
  · unfold putEarly at he
    split at he
    · next hc => exact ⟨((lineDownOff_pos_iff _).1 he).2.1, hc.2⟩
    · omega
  · have hl : 0 < putLate pol s w0 := by omega
    unfold putLate at hl
    rw [putStart_spec] at hl
    split at hl
    · omega
    · split at hl
      · next hw => exact ⟨f3 ▸ ((lineDownOff_pos_iff _).1 hl).2.1, f5 ▸ hw⟩
      · omega

namespace Lemmas

theorem pre_length (s : Scr) (w : Nat) (hg : s.grid.length = s.h) : (pre s w).grid.length = s.h := by
  unfold pre
  split
  · split
    · exact lineDown_length ({ s with cx := 0 } : Scr) hg
    · exact hg
  · exact hg

/-- the early wrap, pointwise -/
theorem pre_rows (s : Scr) (w0 : Nat) (hg : s.grid.length = s.h) (ht : s.top = 0) :
    (∀ y, putEarly s w0 ≤ y → y ≤ s.bot →
      (pre s (effW s w0)).grid[y - putEarly s w0]? = s.grid[y]?) ∧
    (∀ y, s.bot < y → (pre s (effW s w0)).grid[y]? = s.grid[y]?) := by
  unfold pre putEarly
  by_cases h1 : s.cx + effW s w0 > s.w
  · by_cases h2 : s.wrap = true
    · rw [if_pos h1, if_pos h2, if_pos ⟨h1, h2⟩]
      exact lineDown_rows ({ s with cx := 0 } : Scr) hg ht
    · rw [if_pos h1, if_neg h2, if_neg (fun h => h2 h.2)]
      simp
  · rw [if_neg h1, if_neg (fun h => h1 h.1)]
    simp

/-- the late wrap, pointwise; `k` is the count computed on a state with the same cursor row,
    margins and height -/
theorem finish_rows (s2 : Scr) (x : Nat) (hg : s2.grid.length = s2.h) (ht : s2.top = 0) :
    let k := if x < s2.w then 0 else if s2.wrap then s2.lineDownOff else 0
    (∀ y, k ≤ y → y ≤ s2.bot → (finish s2 x).grid[y - k]? = s2.grid[y]?) ∧
    (∀ y, s2.bot < y → (finish s2 x).grid[y]? = s2.grid[y]?) := by
  unfold finish
  by_cases h1 : x < s2.w
  · simp [h1]
  · by_cases h2 : s2.wrap = true
    · simp only [if_neg h1, if_pos h2]
      exact lineDown_rows ({ s2 with cx := x - s2.w } : Scr) hg ht
    · simp [h1, h2]

end Lemmas
open Lemmas

/-- **C10 (5f) — text: the counted rows are exactly the rows that leave.** Top margin on row 0,
    `n := s.putOff pol w0` rows announced (`n ≤ 2`: early wrap and late wrap), `c` the row the
    character is written in, `e` the part of `n` announced by the early wrap:
    * every old row `y` of the scroll region with `n ≤ y` is row `y - n` afterwards — except the
      row `c + e` that receives the character — so only the first `n` rows leave;
    * every row below the region other than the written one is unchanged. -/
theorem put_transcript_rows (pol : WidePolicy) (s : Scr) (text : Bytes) (w0 : Nat)
    (hinv : s.inv = true) (ht : s.top = 0) :
    (∀ y, s.putOff pol w0 ≤ y → y ≤ s.bot → y ≠ (s.putStart w0).cy + putEarly s w0 →
      (s.put pol text w0).grid[y - s.putOff pol w0]? = s.grid[y]?) ∧
    (∀ y, s.bot < y → y ≠ (s.putStart w0).cy → (s.put pol text w0).grid[y]? = s.grid[y]?) := by
  have hg : s.grid.length = s.h := (inv_shaped hinv).1
  obtain ⟨f1, f2, f3, f4, f5, f6, f7⟩ := pre_fields s (effW s w0)
  obtain ⟨p1, p2⟩ := pre_rows s w0 hg ht
  have hl1 := pre_length s (effW s w0) hg
  rw [put_eq, putOff_eq, putStart_spec]
  have hlate : putLate pol s w0 =
      (let s2 := (pre s (effW s w0)).setRow (pre s (effW s w0)).cy
          (putRowOf pol (pre s (effW s w0)) (effText s text w0) (effW s w0))
       if putX pol (pre s (effW s w0)) (effW s w0) < s2.w then 0
       else if s2.wrap then s2.lineDownOff else 0) := rfl
  have hfin := finish_rows ((pre s (effW s w0)).setRow (pre s (effW s w0)).cy
          (putRowOf pol (pre s (effW s w0)) (effText s text w0) (effW s w0)))
        (putX pol (pre s (effW s w0)) (effW s w0))
        (by show (List.set _ _ _).length = _; rw [List.length_set, hl1]; exact f2.symm) (by show (pre s (effW s w0)).top = 0; rw [f3, ht])
  simp only [] at hlate
  rw [← hlate] at hfin
  obtain ⟨q1, q2⟩ := hfin
  generalize putLate pol s w0 = l at *
  generalize putEarly s w0 = e at *
  generalize putRowOf pol (pre s (effW s w0)) (effText s text w0) (effW s w0) = r' at *
  generalize putX pol (pre s (effW s w0)) (effW s w0) = x at *
  generalize pre s (effW s w0) = s1 at *
  have hset : ∀ y, y ≠ s1.cy → (s1.setRow s1.cy r').grid[y]? = s1.grid[y]? := by
    intro y hy
    show (s1.grid.set s1.cy r')[y]? = _
    rw [List.getElem?_set, if_neg (fun e => hy e.symm)]
  have hb2 : (s1.setRow s1.cy r').bot = s.bot := f4
  constructor
  · intro y h1 h2 h3
    have e1 : y - (e + l) = (y - e) - l := by omega
    rw [e1, q1 (y - e) (by omega) (by rw [hb2]; omega), hset (y - e) (by omega)]
    exact p1 y (by omega) h2
  · intro y h1 h3
    rw [q2 y (by rw [hb2]; exact h1), hset y h3]
    exact p2 y h1

/-- **C10 (5g) — text without announcement: no other row moves or changes.** -/
theorem put_off_zero_rows (pol : WidePolicy) (s : Scr) (text : Bytes) (w0 : Nat)
    (hinv : s.inv = true) (ht : s.top = 0) (h0 : s.putOff pol w0 = 0) :
    ∀ y, y ≠ (s.putStart w0).cy → (s.put pol text w0).grid[y]? = s.grid[y]? := by
  intro y hy
  obtain ⟨a, b⟩ := put_transcript_rows pol s text w0 hinv ht
  have he : putEarly s w0 = 0 := by rw [putOff_eq] at h0; omega
  by_cases hb : y ≤ s.bot
  · have := a y (by omega) hb (by omega)
    rwa [h0] at this
  · exact b y (by omega) hy

/-- the rows that stay when one row is announced (`n = 1`: only the early or only the late wrap
    scrolls): every other row of the region moves up by one -/
theorem put_off_one_rows (pol : WidePolicy) (s : Scr) (text : Bytes) (w0 : Nat)
    (hinv : s.inv = true) (ht : s.top = 0) (h1 : s.putOff pol w0 = 1) :
    ∀ y, 1 ≤ y → y ≤ s.bot → y ≠ (s.putStart w0).cy + putEarly s w0 →
      (s.put pol text w0).grid[y - 1]? = s.grid[y]? := by
  intro y a b c
  have := (put_transcript_rows pol s text w0 hinv ht).1 y (by omega) b c
  rwa [h1] at this

/-- **C10 (5h) — text without announcement, any margins: the top row is not lost.** If nothing is
    announced and the character is not written in row 0, row 0 is what it was. -/
theorem put_row0_kept (pol : WidePolicy) (s : Scr) (text : Bytes) (w0 : Nat)
    (hinv : s.inv = true) (h0 : s.putOff pol w0 = 0) (hc : (s.putStart w0).cy ≠ 0) :
    (s.put pol text w0).grid[0]? = s.grid[0]? := by
  have hg : s.grid.length = s.h := (inv_shaped hinv).1
  have hl1 := pre_length s (effW s w0) hg
  obtain ⟨f1, f2, f3, f4, f5, f6, f7⟩ := pre_fields s (effW s w0)
  rw [putOff_eq] at h0
  have he : putEarly s w0 = 0 := by omega
  have hl : putLate pol s w0 = 0 := by omega
  rw [putStart_spec] at hc
  -- early wrap
  have hp : (pre s (effW s w0)).grid[0]? = s.grid[0]? := by
    unfold putEarly at he
    unfold pre
    by_cases c1 : s.cx + effW s w0 > s.w
    · by_cases c2 : s.wrap = true
      · rw [if_pos ⟨c1, c2⟩] at he
        rw [if_pos c1, if_pos c2]
        exact lineDown_row0_kept ({ s with cx := 0 } : Scr) hg he
      · rw [if_pos c1, if_neg c2]
    · rw [if_neg c1]
  rw [put_eq]
  have hlate : putLate pol s w0 =
      (let s2 := (pre s (effW s w0)).setRow (pre s (effW s w0)).cy
          (putRowOf pol (pre s (effW s w0)) (effText s text w0) (effW s w0))
       if putX pol (pre s (effW s w0)) (effW s w0) < s2.w then 0
       else if s2.wrap then s2.lineDownOff else 0) := rfl
  simp only [] at hlate
  rw [hl] at hlate
  generalize putRowOf pol (pre s (effW s w0)) (effText s text w0) (effW s w0) = r' at *
  generalize putX pol (pre s (effW s w0)) (effW s w0) = x at *
  generalize pre s (effW s w0) = s1 at *
  have hset : (s1.setRow s1.cy r').grid[0]? = s1.grid[0]? := by
    show (s1.grid.set s1.cy r')[0]? = _
    rw [List.getElem?_set, if_neg hc]
  have hg2 : (s1.setRow s1.cy r').grid.length = (s1.setRow s1.cy r').h := by
    show (List.set _ _ _).length = _; rw [List.length_set, hl1]; exact f2.symm
  rw [← hp, ← hset]
  unfold finish
  by_cases c1 : x < (s1.setRow s1.cy r').w
  · rw [if_pos c1]
  · by_cases c2 : (s1.setRow s1.cy r').wrap = true
    · rw [if_neg c1, if_pos c2] at hlate
      rw [if_neg c1, if_pos c2]
      exact lineDown_row0_kept ({ s1.setRow s1.cy r' with cx := x - (s1.setRow s1.cy r').w } : Scr)
        hg2 hlate.symm
    · rw [if_neg c1, if_neg c2]

/-! ### terminal level -/

/-- **C10 (5n) — nothing is announced while the alternate screen is active** (it keeps no
    scrollback), for every token. -/
theorem scrollOff_alt (cw : Nat → Nat) (t : Term) (tok : Tok) (h : t.onAlt = true) :
    t.scrollOff cw tok = 0 := by
  cases tok <;> simp [Term.scrollOff, h]

/-- `Term.applyS` changes the state as `Term.apply` does (by unfolding; helper) -/
theorem applyS_state (cw : Nat → Nat) (t : Term) (tok : Tok) :
    (t.applyS cw tok).1 = (t.apply cw tok).1 := rfl

/-- the events of `Term.applyS`: the announcement, if any, FIRST — before the `RegionChanged` /
    `CursorMoved` of the token, as in the code, where the rows are announced before they are
    overwritten (by unfolding; helper) -/
theorem applyS_events (cw : Nat → Nat) (t : Term) (tok : Tok) :
    (t.applyS cw tok).2 =
      (if t.scrollOff cw tok = 0 then [] else [Ev.scrollLines (t.scrollOff cw tok)]) ++
        (t.apply cw tok).2 := rfl

/-- **C10 (5o) — exactly the counted rows are announced.** `ScrollLines n` is among the events of a
    token iff `n` is the (non-zero) count `Term.scrollOff` of that token in that state: one
    announcement at most, none when the count is 0, never a different number. -/
theorem scrollLines_announced_iff (cw : Nat → Nat) (t : Term) (tok : Tok) (n : Nat) :
    Ev.scrollLines n ∈ (t.applyS cw tok).2 ↔ (n = t.scrollOff cw tok ∧ 0 < n) := by
  rw [applyS_events, List.mem_append]
  have hno : Ev.scrollLines n ∉ (t.apply cw tok).2 :=
    fun h => apply_emits_no_scrollLines cw t tok _ h n rfl
  constructor
  · rintro (h | h)
    · split at h
      · cases h
      · simp only [List.mem_singleton, Ev.scrollLines.injEq] at h
        omega
    · exact absurd h hno
  · rintro ⟨h1, h2⟩
    left
    rw [if_neg (by omega), h1]
    simp

namespace Lemmas

theorem scr_main {t : Term} (h : t.onAlt = false) : t.scr = t.main := by
  unfold Term.scr; rw [h]; rfl

theorem setScr_main {t : Term} (h : t.onAlt = false) (s' : Scr) : (t.setScr s').main = s' := by
  unfold Term.setScr; rw [h]; rfl

theorem inv_bot {s : Scr} (h : s.inv = true) : s.grid.length = s.h ∧ s.bot < s.h := by
  obtain ⟨_, _, c, _, _, _, _, _, _, d⟩ := (inv_iff s).1 h
  exact ⟨c, d⟩

/-- the main screen after LF / FF / IND / SU / DL on the main buffer, and the announced count -/
theorem apply_lf (cw : Nat → Nat) (t : Term) (h : t.onAlt = false) :
    (t.apply cw (.ctl 10)).1.main = ({ t.main with cx := 0 } : Scr).lineDown ∧
    t.scrollOff cw (.ctl 10) = ({ t.main with cx := 0 } : Scr).lineDownOff := by
  refine ⟨?_, ?_⟩
  · show (t.setScr ({ t.scr with cx := 0 } : Scr).lineDown).main = _
    rw [setScr_main h, scr_main h]
  · show (if t.onAlt = true then 0 else ({ t.scr with cx := 0 } : Scr).lineDownOff) = _
    rw [h, scr_main h]; rfl

theorem apply_ff (cw : Nat → Nat) (t : Term) (h : t.onAlt = false) :
    (t.apply cw (.ctl 12)).1.main = t.main.lineDown ∧
    t.scrollOff cw (.ctl 12) = t.main.lineDownOff := by
  refine ⟨?_, ?_⟩
  · show (t.setScr t.scr.lineDown).main = _
    rw [setScr_main h, scr_main h]
  · show (if t.onAlt = true then 0 else t.scr.lineDownOff) = _
    rw [h, scr_main h]; rfl

theorem apply_ind (cw : Nat → Nat) (t : Term) (h : t.onAlt = false) :
    (t.apply cw (.esc [] 0x44)).1.main = t.main.lineDown ∧
    t.scrollOff cw (.esc [] 0x44) = t.main.lineDownOff := by
  refine ⟨?_, ?_⟩
  · show (t.setScr t.scr.lineDown).main = _
    rw [setScr_main h, scr_main h]
  · show (if t.onAlt = true then 0 else t.scr.lineDownOff) = _
    rw [h, scr_main h]; rfl

theorem apply_su (cw : Nat → Nat) (t : Term) (ps : List Int) (h : t.onAlt = false) :
    (t.apply cw (.csi 0 ps true 0x53)).1.main = t.main.scroll t.main.top t.main.bot (-(p0 ps 1)) ∧
    t.scrollOff cw (.csi 0 ps true 0x53) = t.main.scrollOff t.main.top t.main.bot (-(p0 ps 1)) := by
  refine ⟨?_, ?_⟩
  · show (t.setScr (t.scr.scroll t.scr.top t.scr.bot (-(p0 ps 1)))).main = _
    rw [setScr_main h, scr_main h]
  · simp [Term.scrollOff, h, scr_main h]

theorem apply_dl (cw : Nat → Nat) (t : Term) (ps : List Int) (h : t.onAlt = false) :
    (t.apply cw (.csi 0 ps true 0x4d)).1.main =
      (if t.main.inRegion then t.main.scroll t.main.cy t.main.bot (-(p0 ps 1)) else t.main) ∧
    t.scrollOff cw (.csi 0 ps true 0x4d) =
      (if t.main.inRegion then t.main.scrollOff t.main.cy t.main.bot (-(p0 ps 1)) else 0) := by
  refine ⟨?_, ?_⟩
  · show (if t.scr.inRegion = true then
        (t.setScr (t.scr.scroll t.scr.cy t.scr.bot (-(p0 ps 1))),
          [Ev.region 0 t.scr.cy t.scr.w (t.scr.bot + 1) 2]) else (t, [])).1.main = _
    rw [scr_main h]
    split
    · exact setScr_main h _
    · rfl
  · simp [Term.scrollOff, h, scr_main h]

end Lemmas
open Lemmas

/-- **C10 (5i) — LF, FF, IND, SU on the main buffer: the announced rows are exactly the rows that
    leave.** Top margin on row 0; `n` rows announced; the `n` announced rows followed by the
    region after the token are the region before the token followed by `n` blank rows. (SU takes
    a count `≥ 0`, which is all the parser produces; a negative count would scroll down.) -/
theorem scroll_tokens_transcript (cw : Nat → Nat) (t : Term) (tok : Tok)
    (htok : tok = .ctl 10 ∨ tok = .ctl 12 ∨ tok = .esc [] 0x44 ∨
      ∃ ps, tok = .csi 0 ps true 0x53 ∧ 0 ≤ p0 ps 1)
    (hm : t.onAlt = false) (hinv : t.main.inv = true) (ht : t.main.top = 0) :
    t.main.grid.take (t.scrollOff cw tok) ++ (t.apply cw tok).1.main.grid.take (t.main.bot + 1) =
      t.main.grid.take (t.main.bot + 1) ++
        List.replicate (t.scrollOff cw tok) (blankRow t.main.w t.main.sty) := by
  obtain ⟨hg, hb⟩ := inv_bot hinv
  rcases htok with rfl | rfl | rfl | ⟨ps, rfl, hps⟩
  · obtain ⟨a, b⟩ := apply_lf cw t hm
    rw [a, b]
    exact lineDown_transcript ({ t.main with cx := 0 } : Scr) hg ht
  · obtain ⟨a, b⟩ := apply_ff cw t hm
    rw [a, b]
    exact lineDown_transcript t.main hg ht
  · obtain ⟨a, b⟩ := apply_ind cw t hm
    rw [a, b]
    exact lineDown_transcript t.main hg ht
  · obtain ⟨a, b⟩ := apply_su cw t ps hm
    rw [a, b, ht]
    exact scroll_transcript t.main t.main.bot _ hg hb (by omega)

/-- **C10 (5j) — DL with the cursor on row 0** (top margin on row 0): as `scroll_tokens_transcript`. -/
theorem dl_transcript (cw : Nat → Nat) (t : Term) (ps : List Int) (hps : 0 ≤ p0 ps 1)
    (hm : t.onAlt = false) (hinv : t.main.inv = true) (ht : t.main.top = 0) (hcy : t.main.cy = 0) :
    t.main.grid.take (t.scrollOff cw (.csi 0 ps true 0x4d)) ++
        (t.apply cw (.csi 0 ps true 0x4d)).1.main.grid.take (t.main.bot + 1) =
      t.main.grid.take (t.main.bot + 1) ++
        List.replicate (t.scrollOff cw (.csi 0 ps true 0x4d)) (blankRow t.main.w t.main.sty) := by
  obtain ⟨hg, hb⟩ := inv_bot hinv
  obtain ⟨a, b⟩ := apply_dl cw t ps hm
  have hr : t.main.inRegion = true := by simp [Scr.inRegion, ht, hcy]
  rw [a, b, if_pos hr, if_pos hr, hcy]
  exact scroll_transcript t.main t.main.bot _ hg hb (by omega)

/-- **C10 (5k) — the upward-scrolling tokens without announcement lose nothing through the top.**
    LF, FF, IND, SU, DL on the main buffer, any margins, any cursor position: when nothing is
    announced, row 0 of the main screen is what it was. (Restricted to the tokens that can move
    rows upwards; RI, IL, SD move rows away from the top, and every other non-text token changes
    cells in place only — `changes_announced`.) -/
theorem scroll_tokens_silent_row0 (cw : Nat → Nat) (t : Term) (tok : Tok)
    (htok : tok = .ctl 10 ∨ tok = .ctl 12 ∨ tok = .esc [] 0x44 ∨
      ∃ ps, (tok = .csi 0 ps true 0x53 ∨ tok = .csi 0 ps true 0x4d) ∧ 0 ≤ p0 ps 1)
    (hm : t.onAlt = false) (hinv : t.main.inv = true) (h0 : t.scrollOff cw tok = 0) :
    (t.apply cw tok).1.main.grid[0]? = t.main.grid[0]? := by
  obtain ⟨hg, hb⟩ := inv_bot hinv
  rcases htok with rfl | rfl | rfl | ⟨ps, rfl | rfl, hps⟩
  · obtain ⟨a, b⟩ := apply_lf cw t hm
    rw [a]; rw [b] at h0
    exact lineDown_row0_kept ({ t.main with cx := 0 } : Scr) hg h0
  · obtain ⟨a, b⟩ := apply_ff cw t hm
    rw [a]; rw [b] at h0
    exact lineDown_row0_kept t.main hg h0
  · obtain ⟨a, b⟩ := apply_ind cw t hm
    rw [a]; rw [b] at h0
    exact lineDown_row0_kept t.main hg h0
  · obtain ⟨a, b⟩ := apply_su cw t ps hm
    rw [a]; rw [b] at h0
    exact scroll_row0_kept t.main _ _ _ hg h0 (by omega)
  · obtain ⟨a, b⟩ := apply_dl cw t ps hm
    rw [a]; rw [b] at h0
    split
    · rw [if_pos ‹_›] at h0
      exact scroll_row0_kept t.main _ _ _ hg h0 (by omega)
    · rfl

/-- **C10 (5l) — text on the main buffer.** `put_transcript_rows` for the text token: with the
    top margin on row 0 and `n` rows announced, every old row `y ≥ n` of the region other than the
    written one is row `y - n` afterwards. -/
theorem text_transcript_rows (cw : Nat → Nat) (t : Term) (st : Bytes) (cp : Nat)
    (hm : t.onAlt = false) (hinv : t.main.inv = true) (ht : t.main.top = 0) :
    ∀ y, t.scrollOff cw (.text st cp) ≤ y → y ≤ t.main.bot →
      y ≠ (t.main.putStart (cw cp)).cy + putEarly t.main (cw cp) →
      (t.apply cw (.text st cp)).1.main.grid[y - t.scrollOff cw (.text st cp)]? = t.main.grid[y]? := by
  have e1 : (t.apply cw (.text st cp)).1.main = t.main.put t.pol st (cw cp) := by
    show (t.setScr (t.scr.put t.pol st (cw cp))).main = _
    rw [setScr_main hm, scr_main hm]
  have e2 : t.scrollOff cw (.text st cp) = t.main.putOff t.pol (cw cp) := by
    show (if t.onAlt = true then 0 else t.scr.putOff t.pol (cw cp)) = _
    rw [hm, scr_main hm]; rfl
  rw [e1, e2]
  exact (put_transcript_rows t.pol t.main st (cw cp) hinv ht).1

/-- **C10 (5m) — while the alternate screen is active no row of the main screen changes**, so
    there is nothing to announce (`scrollOff_alt`). -/
theorem alt_keeps_main (cw : Nat → Nat) (t : Term) (tok : Tok) (ha : t.onAlt = true) :
    (t.apply cw tok).1.main.grid = t.main.grid := by
  by_cases hd : isDecset tok
  · obtain ⟨ps, fin, rfl, hf⟩ := isDecset_elim hd
    rw [apply_decset cw t ps fin hf]
    exact (sg_decModes t _ ps).mg
  · by_cases ht : ∃ st cp, tok = .text st cp
    · obtain ⟨st, cp, rfl⟩ := ht
      show (t.setScr _).main.grid = _
      unfold Term.setScr; rw [ha]; rfl
    · have := (stepU_apply_other cw t tok hd (fun st cp h => ht ⟨st, cp, h⟩)).inactive
      rw [ha] at this
      simp only [if_true] at this
      rw [this]

/-! ### non-vacuity -/
namespace ScrollExamples

/-- every character one cell wide -/
def cw1 : Nat → Nat := fun _ => 1

/-- 3 × 3 main screen, rows `a`, `b`, `c`, cursor on the bottom row, autowrap on -/
def m3 : Scr :=
  { Scr.init 3 3 with
    grid := [[⟨.ch [0x61] 1, Style.default⟩, blank Style.default, blank Style.default],
             [⟨.ch [0x62] 1, Style.default⟩, blank Style.default, blank Style.default],
             [⟨.ch [0x63] 1, Style.default⟩, blank Style.default, blank Style.default]],
    cy := 2, wrap := true }

def t3 : Term := { Term.init .blank 3 3 with main := m3 }

-- the hypotheses of the token theorems hold
example : t3.onAlt = false ∧ t3.main.inv = true ∧ t3.main.top = 0 ∧ t3.main.grid.length = t3.main.h := by
  decide

-- LF on the bottom row of the main screen: one row announced, first event, row `a` is the
-- announced row and rows `b`, `c` move up
example : t3.scrollOff cw1 (.ctl 10) = 1 ∧
    (t3.applyS cw1 (.ctl 10)).2 = [.scrollLines 1, .cursor 0 2] ∧
    (t3.apply cw1 (.ctl 10)).1.main.grid.take 2 = t3.main.grid.drop 1 := by decide

-- LF elsewhere: nothing announced, nothing lost
example : ({ t3 with main := { m3 with cy := 1 } } : Term).scrollOff cw1 (.ctl 10) = 0 ∧
    (({ t3 with main := { m3 with cy := 1 } } : Term).applyS cw1 (.ctl 10)).2 = [.cursor 0 2] := by
  decide

-- the same LF while the alternate screen is active: nothing announced
example : ({ t3 with onAlt := true, alt := m3 } : Term).scrollOff cw1 (.ctl 10) = 0 ∧
    (({ t3 with onAlt := true, alt := m3 } : Term).applyS cw1 (.ctl 10)).2 = [.cursor 0 2] := by
  decide

-- SU 5 on 3 rows: 3 rows announced (clamped to the region); SU 0: nothing; DL 2 on row 0: 2 rows;
-- DL on row 2, IL, SD, RI: nothing
example : t3.scrollOff cw1 (.csi 0 [5] true 0x53) = 3 ∧
    t3.scrollOff cw1 (.csi 0 [0] true 0x53) = 0 ∧
    ({ t3 with main := { m3 with cy := 0 } } : Term).scrollOff cw1 (.csi 0 [2] true 0x4d) = 2 ∧
    t3.scrollOff cw1 (.csi 0 [2] true 0x4d) = 0 ∧
    t3.scrollOff cw1 (.csi 0 [2] true 0x4c) = 0 ∧
    t3.scrollOff cw1 (.csi 0 [2] true 0x54) = 0 ∧
    t3.scrollOff cw1 (.esc [] 0x4d) = 0 := by decide

-- a top margin below row 0: LF on the bottom margin scrolls the region but announces nothing, and
-- row 0 stays (`scroll_tokens_silent_row0`)
example :
    let t : Term := { t3 with main := { m3 with top := 1 } }
    t.scrollOff cw1 (.ctl 10) = 0 ∧ (t.apply cw1 (.ctl 10)).1.main.grid ≠ t.main.grid ∧
    (t.apply cw1 (.ctl 10)).1.main.grid[0]? = t.main.grid[0]? := by decide

-- text at the right edge of the bottom row: the late wrap announces one row
example : ({ m3 with cx := 2 } : Scr).putOff .blank 1 = 1 ∧
    putEarly ({ m3 with cx := 2 } : Scr) 1 = 0 ∧ putLate .blank ({ m3 with cx := 2 } : Scr) 1 = 1 ∧
    (Scr.put .blank ({ m3 with cx := 2 } : Scr) [0x78] 1).grid[0]? = m3.grid[1]? := by decide

-- `putOff = 2` is possible: a double-width character on the last column of the bottom row of a
-- screen 2 columns wide wraps before the write (row `a` leaves) and again after it (row `b` leaves)
def m2 : Scr :=
  { Scr.init 2 3 with
    grid := [[⟨.ch [0x61] 1, Style.default⟩, blank Style.default],
             [⟨.ch [0x62] 1, Style.default⟩, blank Style.default],
             [⟨.ch [0x63] 1, Style.default⟩, blank Style.default]],
    cx := 1, cy := 2, wrap := true }

example : m2.inv = true ∧ m2.top = 0 ∧ m2.putOff .blank 2 = 2 ∧
    putEarly m2 2 = 1 ∧ putLate .blank m2 2 = 1 ∧ (m2.putStart 2).cy = 2 ∧
    (Scr.put .blank m2 [0xE5, 0xAD, 0x97] 2).grid =
      [[⟨.ch [0x63] 1, Style.default⟩, blank Style.default],
       [⟨.ch [0xE5, 0xAD, 0x97] 2, Style.default⟩, ⟨.cont, Style.default⟩],
       blankRow 2 Style.default] := by decide

-- the hypothesis `0 ≤ p0 ps 1` of the SU / DL theorems cannot be dropped in the MODEL (the parser
-- never produces a negative parameter): a negative count scrolls down, row 0 becomes blank and
-- nothing is announced
example : t3.scrollOff cw1 (.csi 0 [-1] true 0x53) = 0 ∧
    (t3.apply cw1 (.csi 0 [-1] true 0x53)).1.main.grid[0]? = some (blankRow 3 Style.default) := by
  decide

end ScrollExamples


#print axioms TM.C10.changes_announced
#print axioms TM.C10.switch_only_1049
#print axioms TM.C10.switch_announces_everything
#print axioms TM.C10.shadow_sync
#print axioms TM.C10.shadow_sync_run
#print axioms TM.C10.shadow_sync_every_step
#print axioms TM.C10.shadow_sync_run_blank
#print axioms TM.C10.shadow_sync_stream
#print axioms TM.C10.shadow_sync_stream_blank
#print axioms TM.C10.cursor_last
#print axioms TM.C10.style_last
#print axioms TM.C10.view_last_flag
#print axioms TM.C10.view_last_int
#print axioms TM.C10.view_last_str
#print axioms TM.C10.notifications_last_stream
#print axioms TM.C10.resize_last
#print axioms TM.C10.apply_emits_no_scrollLines
#print axioms TM.C10.scrollOff_le
#print axioms TM.C10.scrollOff_pos_iff
#print axioms TM.C10.scroll_transcript
#print axioms TM.C10.scroll_row0_kept
#print axioms TM.C10.scroll_above_kept
#print axioms TM.C10.scroll_down_rows
#print axioms TM.C10.lineDownOff_le_one
#print axioms TM.C10.lineDownOff_pos_iff
#print axioms TM.C10.lineDown_transcript
#print axioms TM.C10.lineDown_row0_kept
#print axioms TM.C10.putStart_spec
#print axioms TM.C10.putOff_le_two
#print axioms TM.C10.putOff_pos_imp
#print axioms TM.C10.put_transcript_rows
#print axioms TM.C10.put_off_zero_rows
#print axioms TM.C10.put_off_one_rows
#print axioms TM.C10.put_row0_kept
#print axioms TM.C10.scrollOff_alt
#print axioms TM.C10.alt_keeps_main
#print axioms TM.C10.scrollLines_announced_iff
#print axioms TM.C10.scroll_tokens_transcript
#print axioms TM.C10.dl_transcript
#print axioms TM.C10.scroll_tokens_silent_row0
#print axioms TM.C10.text_transcript_rows

end TM.C10
