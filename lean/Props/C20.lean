import TM.Run
/-!
# C20 — the cell-grid buffer and the span buffer are observationally equivalent

"Driven by the same input, a terminal backed by the cell-grid buffer and one backed by the span
buffer show the same text and attributes in every cell, the same cursor and scroll region, and
send equivalent change notifications. The only sanctioned difference is a write that starts on
the second half of a double-width character, where the span buffer keeps the character and the
grid buffer blanks it."

Model: both buffer kinds are the same functions of `TM/Screen.lean` / `TM/Term.lean`, selected by
the field `Term.pol : WidePolicy` (`.keep` = span buffer, `.blank` = grid buffer). The file is
self-contained (imports only the model); `effW` / `TextClean` repeat the definition / hypotheses
of `TM.C03.effW` / `TM.C03.put_keep_eq_blank`.

* `Term.withPol t p`: the state `t` backed by buffer kind `p`; `obsEq t₁ t₂`: all fields but `pol`
  equal (`Lemmas.obsEq_iff`: iff `t₁.withPol p = t₂.withPol p`); §1 `obsEq_observables`: what
  that means cell by cell.
* §2 `apply_nontext`: every token that is not text (controls, ESC, all CSI, OSC, DCS) gives the
  same state up to `pol` and the same events.
* §3 text. `landsOnCont s w0`: the column really written (after the right-edge adjustment of
  `Scr.put`) is a continuation cell. `put_policy_irrelevant` / `apply_text_off_cont`: when it is
  not, the policy is irrelevant (no well-formedness needed). `landsOnCont_eq`: its value on a
  well-formed screen; `textClean_landsOff`, `apply_text_clean`: the form with `Scr.inv` and the
  hypotheses of `TM.C03.put_keep_eq_blank`.
* §4 `resize_policy_independent`.
* §5 runs of operations (tokens and resizes): `step_obsEq`, `offCont_run_obsEq`,
  `offCont_run_equivalent` (exact condition, no invariant), `clean_run_equivalent` (`CleanAt`:
  `Scr.inv` and not on a continuation cell at every text step), `clean_run_same_display`,
  `cleanRun_transfer`, and `clean_run_equivalent_of_invariant` (the `Scr.inv` part discharged by
  any preserved invariant, e.g. the one of `Props/C02.lean`).
* §6 the same for the byte-level read loop: `run_equivalent`, `feed_equivalent`.
* §7 `sanctioned_only`, `sanctioned_only_inv` (a difference can only come from a character
  written onto a continuation cell), `sanctioned_difference`, `sanctioned_difference_run` (there
  the span buffer keeps the wide character and the grid buffer blanks it).
-/
namespace TM

/-- the same terminal state, backed by the buffer kind `p` -/
def Term.withPol (t : Term) (p : WidePolicy) : Term := { t with pol := p }

end TM

namespace TM.C20
open TM

/-- **Observational equality**: everything but the buffer kind is the same — both screens (cells
    with text, width and attributes; cursor, saved cursor, margins, autowrap, current style),
    which of them is shown, the view flags / ints / strings and both keyboard-flag stacks. -/
def obsEq (t₁ t₂ : Term) : Prop :=
  t₁.main = t₂.main ∧ t₁.alt = t₂.alt ∧ t₁.onAlt = t₂.onAlt ∧ t₁.vflags = t₂.vflags ∧
  t₁.vints = t₂.vints ∧ t₁.vstrs = t₂.vstrs ∧ t₁.kmain = t₂.kmain ∧ t₁.kalt = t₂.kalt

/-- a step result with the buffer kind of the state set to `p` -/
def mapPol (p : WidePolicy) (r : Term × List Ev) : Term × List Ev := (r.1.withPol p, r.2)

/-! ## Helper lemmas -/
namespace Lemmas

theorem obsEq_refl (t : Term) : obsEq t t := ⟨rfl, rfl, rfl, rfl, rfl, rfl, rfl, rfl⟩

theorem obsEq_symm {t₁ t₂ : Term} (h : obsEq t₁ t₂) : obsEq t₂ t₁ := by
  obtain ⟨a, b, c, d, e, f, g, i⟩ := h
  exact ⟨a.symm, b.symm, c.symm, d.symm, e.symm, f.symm, g.symm, i.symm⟩

theorem obsEq_trans {t₁ t₂ t₃ : Term} (h : obsEq t₁ t₂) (h' : obsEq t₂ t₃) : obsEq t₁ t₃ := by
  obtain ⟨a, b, c, d, e, f, g, i⟩ := h
  obtain ⟨a', b', c', d', e', f', g', i'⟩ := h'
  exact ⟨a.trans a', b.trans b', c.trans c', d.trans d', e.trans e', f.trans f', g.trans g',
    i.trans i'⟩

theorem obsEq_withPol (t : Term) (p : WidePolicy) : obsEq (t.withPol p) t :=
  ⟨rfl, rfl, rfl, rfl, rfl, rfl, rfl, rfl⟩

/-- observational equality is equality once the buffer kind is set to the same value -/
theorem obsEq_iff (t₁ t₂ : Term) (p : WidePolicy) : obsEq t₁ t₂ ↔ t₁.withPol p = t₂.withPol p := by
  obtain ⟨p1, m1, a1, o1, f1, i1, s1, k1, l1⟩ := t₁
  obtain ⟨p2, m2, a2, o2, f2, i2, s2, k2, l2⟩ := t₂
  simp [obsEq, Term.withPol]

theorem eq_withPol_of_obsEq {t₁ t₂ : Term} (h : obsEq t₁ t₂) : t₁ = t₂.withPol t₁.pol := by
  exact (obsEq_iff t₁ t₂ t₁.pol).1 h

@[simp] theorem withPol_pol (t : Term) (p : WidePolicy) : (t.withPol p).pol = p := rfl
@[simp] theorem withPol_withPol (t : Term) (p q : WidePolicy) : (t.withPol p).withPol q = t.withPol q := rfl
@[simp] theorem withPol_self (t : Term) : t.withPol t.pol = t := rfl
@[simp] theorem withPol_scr (t : Term) (p : WidePolicy) : (t.withPol p).scr = t.scr := rfl
@[simp] theorem withPol_kbd (t : Term) (p : WidePolicy) : (t.withPol p).kbd = t.kbd := rfl
@[simp] theorem mapPol_mk (p : WidePolicy) (t : Term) (e : List Ev) : mapPol p (t, e) = (t.withPol p, e) := rfl

theorem withPol_setScr (t : Term) (p : WidePolicy) (s : Scr) :
    (t.withPol p).setScr s = (t.setScr s).withPol p := by
  obtain ⟨p1, m1, a1, o1, f1, i1, s1, k1, l1⟩ := t
  cases o1 <;> rfl

theorem withPol_setKbd (t : Term) (p : WidePolicy) (k : Kbd) :
    (t.withPol p).setKbd k = (t.setKbd k).withPol p := by
  obtain ⟨p1, m1, a1, o1, f1, i1, s1, k1, l1⟩ := t
  cases o1 <;> rfl

theorem withPol_setVFlag (t : Term) (p : WidePolicy) (i : Nat) (v : Bool) :
    (t.withPol p).setVFlag i v = mapPol p (t.setVFlag i v) := rfl

theorem withPol_setVInt (t : Term) (p : WidePolicy) (i : Nat) (v : Int) :
    (t.withPol p).setVInt i v = mapPol p (t.setVInt i v) := rfl

theorem withPol_setVStr (t : Term) (p : WidePolicy) (i : Nat) (v : Bytes) :
    (t.withPol p).setVStr i v = mapPol p (t.setVStr i v) := rfl

theorem withPol_withScr (t : Term) (p : WidePolicy) (s : Scr) :
    (t.withPol p).withScr s = mapPol p (t.withScr s) := by
  unfold Term.withScr; rw [withPol_setScr]; rfl

theorem withPol_switchScreen (t : Term) (p : WidePolicy) (v : Bool) :
    (t.withPol p).switchScreen v = mapPol p (t.switchScreen v) := by
  obtain ⟨p1, m1, a1, o1, f1, i1, s1, k1, l1⟩ := t
  cases o1 <;> cases v <;> rfl

theorem withPol_decMode (t : Term) (p : WidePolicy) (m : Int) (v : Bool) :
    (t.withPol p).decMode m v = mapPol p (t.decMode m v) := by
  simp only [Term.decMode, withPol_setVFlag, withPol_setVInt, withPol_switchScreen, withPol_scr,
    withPol_setScr, apply_ite (mapPol p), mapPol_mk]

theorem withPol_decModes (t : Term) (p : WidePolicy) (v : Bool) (ms : List Int) :
    (t.withPol p).decModes v ms = mapPol p (t.decModes v ms) := by
  induction ms generalizing t with
  | nil => rfl
  | cons m ms ih =>
    simp only [Term.decModes, withPol_decMode]
    rw [show (mapPol p (t.decMode m v)).1 = (t.decMode m v).1.withPol p from rfl, ih]
    rfl

theorem withPol_csiPlain (t : Term) (p : WidePolicy) (ps : List Int) (fin : UInt8) :
    (t.withPol p).csiPlain ps fin = mapPol p (t.csiPlain ps fin) := by
  simp only [Term.csiPlain, withPol_scr, withPol_withScr, withPol_setScr, apply_ite (mapPol p),
    mapPol_mk]

theorem withPol_csi (t : Term) (p : WidePolicy) (pfx : UInt8) (ps : List Int) (fin : UInt8) :
    (t.withPol p).csi pfx ps fin = mapPol p (t.csi pfx ps fin) := by
  unfold Term.csi
  simp only [withPol_csiPlain, withPol_kbd, withPol_decModes, withPol_setKbd, withPol_setVInt,
    apply_ite (mapPol p), mapPol_mk]
  generalize modifyOtherKeysMode ps none = o
  cases o <;> simp only [apply_ite (mapPol p), mapPol_mk]

end Lemmas
open Lemmas

/-! ## 1. What observational equality means, cell by cell -/

/-- **Same display.** Two observationally equal terminals show the same text, width and
    attributes in every cell of the active buffer and of each of the two buffers, the same size,
    cursor, saved cursor, scroll region (margins), autowrap flag and current rendition, the same
    view state and the same keyboard flags. -/
theorem obsEq_observables {t₁ t₂ : Term} (h : obsEq t₁ t₂) :
    (∀ x y : Nat, (t₁.scr.row y)[x]? = (t₂.scr.row y)[x]?) ∧
    (∀ x y : Nat, (t₁.main.row y)[x]? = (t₂.main.row y)[x]?) ∧
    (∀ x y : Nat, (t₁.alt.row y)[x]? = (t₂.alt.row y)[x]?) ∧
    t₁.scr.w = t₂.scr.w ∧ t₁.scr.h = t₂.scr.h ∧
    t₁.scr.cx = t₂.scr.cx ∧ t₁.scr.cy = t₂.scr.cy ∧ t₁.scr.sx = t₂.scr.sx ∧ t₁.scr.sy = t₂.scr.sy ∧
    t₁.scr.top = t₂.scr.top ∧ t₁.scr.bot = t₂.scr.bot ∧
    t₁.scr.wrap = t₂.scr.wrap ∧ t₁.scr.sty = t₂.scr.sty ∧
    t₁.onAlt = t₂.onAlt ∧ t₁.vflags = t₂.vflags ∧ t₁.vints = t₂.vints ∧ t₁.vstrs = t₂.vstrs ∧
    t₁.kbd = t₂.kbd := by
  have e := eq_withPol_of_obsEq h
  obtain ⟨a, b, c, d, e', f, g, i⟩ := h
  have hs : t₁.scr = t₂.scr := by rw [e]; rfl
  have hk : t₁.kbd = t₂.kbd := by rw [e]; rfl
  rw [hs, a, b]
  exact ⟨fun _ _ => rfl, fun _ _ => rfl, fun _ _ => rfl, rfl, rfl, rfl, rfl, rfl, rfl, rfl, rfl,
    rfl, rfl, c, d, e', f, hk⟩

/-! ## 2. Everything but text is independent of the buffer kind -/

def isText : Tok → Bool
  | .text _ _ => true
  | _ => false

/-- **C20, non-text tokens.** For every token that is not printable text — every C0 control, ESC
    sequence, CSI sequence (any prefix, final byte, parameters: cursor movement, erase, scroll,
    insert/delete line, delete/erase character, margins, SGR, modes, reports, keyboard stack),
    OSC and DCS — the two buffer kinds produce the same state (up to the buffer kind itself) and
    exactly the same events: the same region / cursor / style / view notifications and the same
    replies. -/
theorem apply_nontext (cw : Nat → Nat) (t : Term) (p : WidePolicy) (tok : Tok)
    (h : isText tok = false) :
    Term.apply cw (t.withPol p) tok =
      ((Term.apply cw t tok).1.withPol p, (Term.apply cw t tok).2) := by
  show _ = mapPol p _
  cases tok with
  | text s c => cases h
  | ctl b =>
    simp only [Term.apply, withPol_scr, withPol_withScr, apply_ite (mapPol p), mapPol_mk]
  | esc i f =>
    simp only [Term.apply, withPol_scr, withPol_withScr, withPol_setVFlag, apply_ite (mapPol p),
      mapPol_mk]
  | csi pfx ps clean fin =>
    simp only [Term.apply, withPol_csi, apply_ite (mapPol p), mapPol_mk]
  | osc num payload wf =>
    simp only [Term.apply, withPol_setVStr, apply_ite (mapPol p), mapPol_mk]
  | dcs => rfl

/-- the same between any two observationally equal terminals -/
theorem apply_nontext_obsEq (cw : Nat → Nat) {t₁ t₂ : Term} (ht : obsEq t₁ t₂) (tok : Tok)
    (h : isText tok = false) :
    obsEq (Term.apply cw t₁ tok).1 (Term.apply cw t₂ tok).1 ∧
    (Term.apply cw t₁ tok).2 = (Term.apply cw t₂ tok).2 := by
  rw [eq_withPol_of_obsEq ht, apply_nontext cw t₂ _ tok h]
  exact ⟨obsEq_withPol _ _, rfl⟩

/-! ## 3. Text: the policy is consulted only for a write landing on a continuation cell -/

/-- the cell width `Scr.put` really uses: the nominal width (at least 1), or 1 for a character
    wider than the whole screen (same definition as `TM.C03.effW`) -/
def effW (s : Scr) (w0 : Nat) : Nat := if max w0 1 > s.w then 1 else max w0 1

/-- the bytes `Scr.put` really stores -/
def effText (s : Scr) (text : Bytes) (w0 : Nat) : Bytes :=
  if max w0 1 > s.w then replacementChar else text

/-- where the write really happens: `Scr.put` first brings the cursor to a column where the
    character fits — unchanged if it fits after the cursor, column 0 of the next row (with
    scrolling) at the right edge with autowrap on, column `w - width` with autowrap off -/
def landing (s : Scr) (w0 : Nat) : Scr :=
  if s.cx + effW s w0 > s.w then
    (if s.wrap then ({ s with cx := 0 } : Scr).lineDown else { s with cx := s.w - effW s w0 })
  else s

/-- the column actually written is the second (or a later) cell of a wide character -/
def landsOnCont (s : Scr) (w0 : Nat) : Bool :=
  contAt ((landing s w0).row (landing s w0).cy) (landing s w0).cx

/-- the hypotheses of `TM.C03.put_keep_eq_blank`: a well-formed screen, the cursor not on a
    continuation cell and, when the character is pulled back from the right edge (autowrap off),
    the column it is pulled back to not a continuation cell either -/
def TextClean (s : Scr) (w0 : Nat) : Prop :=
  s.inv = true ∧ contAt (s.row s.cy) s.cx = false ∧
  (s.cx + effW s w0 ≤ s.w ∨ s.wrap = true ∨ contAt (s.row s.cy) (s.w - effW s w0) = false)

instance (s : Scr) (w0 : Nat) : Decidable (TextClean s w0) := by unfold TextClean; infer_instance

namespace Lemmas

/-- the part of `Scr.put` after the right-edge adjustment of the cursor -/
def writeAt (pol : WidePolicy) (s : Scr) (text : Bytes) (w : Nat) : Scr :=
  let r := s.row s.cy
  let keep := contAt r s.cx && pol == .keep
  let r' := if keep then r.putKeep s.cx text w s.sty else r.put s.cx text w s.sty
  let s := s.setRow s.cy r'
  let x := s.cx + w + (if keep then headOf r s.cx + widthAt r (headOf r s.cx) - s.cx else 0)
  if x < s.w then { s with cx := x }
  else if s.wrap then ({ s with cx := x - s.w } : Scr).lineDown
  else { s with cx := s.w - 1 }

theorem put_eq_writeAt (pol : WidePolicy) (s : Scr) (text : Bytes) (w0 : Nat) :
    Scr.put pol s text w0 = writeAt pol (landing s w0) (effText s text w0) (effW s w0) := rfl

theorem writeAt_policy (p q : WidePolicy) (s : Scr) (text : Bytes) (w : Nat)
    (h : contAt (s.row s.cy) s.cx = false) : writeAt p s text w = writeAt q s text w := by
  unfold writeAt
  simp only [h, Bool.false_and]

/-! rows of a scrolled screen -/

theorem scroll_mem (s : Scr) (a b : Nat) (d : Int) (r : Row) (h : r ∈ (s.scroll a b d).grid) :
    r ∈ s.grid ∨ r = blankRow s.w s.sty := by
  unfold Scr.scroll at h
  split at h
  · exact Or.inl h
  · simp only [List.mem_append] at h
    rcases h with (h | h) | h
    · exact Or.inl (List.mem_of_mem_take h)
    · split at h
      · rcases List.mem_append.1 h with h | h
        · exact Or.inr (List.eq_of_mem_replicate h)
        · exact Or.inl (List.mem_of_mem_drop (List.mem_of_mem_take (List.mem_of_mem_take h)))
      · rcases List.mem_append.1 h with h | h
        · exact Or.inl (List.mem_of_mem_drop (List.mem_of_mem_take (List.mem_of_mem_drop h)))
        · exact Or.inr (List.eq_of_mem_replicate h)
    · exact Or.inl (List.mem_of_mem_drop h)

theorem scroll_cx (s : Scr) (a b : Nat) (d : Int) : (s.scroll a b d).cx = s.cx := by
  unfold Scr.scroll; split <;> rfl

theorem lineDown_cx (s : Scr) : s.lineDown.cx = s.cx := by
  unfold Scr.lineDown
  split
  · exact scroll_cx _ _ _ _
  · split <;> rfl

theorem lineDown_mem (s : Scr) (r : Row) (h : r ∈ s.lineDown.grid) :
    r ∈ s.grid ∨ r = blankRow s.w s.sty := by
  unfold Scr.lineDown at h
  split at h
  · exact scroll_mem _ _ _ _ _ h
  · split at h <;> exact Or.inl h

theorem rowWF_cont0 {r : Row} (h : rowWF r = true) : contAt r 0 = false := by
  cases hc : contAt r 0 with
  | false => rfl
  | true =>
    exfalso
    unfold contAt at hc
    split at hc
    · next st heq =>
      have hl : 0 < r.length := by
        false_or_by_contra
        rw [List.getElem?_eq_none (by omega)] at heq; cases heq
      unfold rowWF at h
      rw [List.all_eq_true] at h
      have := h 0 (List.mem_range.2 hl)
      rw [heq] at this
      simp at this
    · cases hc

theorem blankRow_cont0 (w : Nat) (st : Style) : contAt (blankRow w st) 0 = false := by
  unfold contAt blankRow
  rw [List.getElem?_replicate]
  split
  · next heq => split at heq <;> simp [blank] at heq
  · rfl

theorem row_mem_or (s : Scr) (y : Nat) : s.row y ∈ s.grid ∨ s.row y = [] := by
  unfold Scr.row
  rw [List.getD_eq_getElem?_getD]
  by_cases hy : y < s.grid.length
  · left; rw [List.getElem?_eq_getElem hy]; simp
  · right; rw [List.getElem?_eq_none (by omega)]; rfl

theorem inv_rows {s : Scr} (h : s.inv = true) : ∀ r ∈ s.grid, rowWF r = true := by
  intro r hr
  simp only [Scr.inv, Bool.and_eq_true, List.all_eq_true] at h
  exact (h.1.1.1.1.1.1.2 r hr).2

end Lemmas
open Lemmas

/-- **The policy is read only on a continuation cell.** If the column where the character is
    actually written is not a continuation cell, `Scr.put` does not depend on the buffer kind at
    all (no well-formedness needed). -/
theorem put_policy_irrelevant (p q : WidePolicy) (s : Scr) (text : Bytes) (w0 : Nat)
    (h : landsOnCont s w0 = false) : Scr.put p s text w0 = Scr.put q s text w0 := by
  rw [put_eq_writeAt, put_eq_writeAt]
  exact writeAt_policy p q _ _ _ h

/-- `landsOnCont` spelled out on a well-formed screen: the written column is the cursor column
    when the character fits, column `w - width` of the cursor row at the right edge with autowrap
    off, and column 0 of the next row — never a continuation cell — with autowrap on. -/
theorem landsOnCont_eq (s : Scr) (w0 : Nat) (hinv : s.inv = true) :
    landsOnCont s w0 =
      if s.cx + effW s w0 ≤ s.w then contAt (s.row s.cy) s.cx
      else if s.wrap = true then false
      else contAt (s.row s.cy) (s.w - effW s w0) := by
  unfold landsOnCont landing
  by_cases hfit : s.cx + effW s w0 ≤ s.w
  · rw [if_neg (by omega), if_pos hfit]
  · rw [if_pos (by omega), if_neg hfit]
    by_cases hw : s.wrap = true
    · rw [if_pos hw, if_pos hw, lineDown_cx]
      show contAt _ 0 = false
      have hrows := inv_rows hinv
      rcases row_mem_or ({ s with cx := 0 } : Scr).lineDown ({ s with cx := 0 } : Scr).lineDown.cy
        with h | h
      · rcases lineDown_mem _ _ h with h | h
        · exact rowWF_cont0 (hrows _ h)
        · rw [h]; exact blankRow_cont0 _ _
      · rw [h]; rfl
    · rw [if_neg hw, if_neg hw]; rfl

/-- the hypotheses of `TM.C03.put_keep_eq_blank` imply that the written column is not a
    continuation cell -/
theorem textClean_landsOff {s : Scr} {w0 : Nat} (h : TextClean s w0) : landsOnCont s w0 = false := by
  obtain ⟨hinv, h1, h2⟩ := h
  rw [landsOnCont_eq s w0 hinv]
  split
  · exact h1
  · next hfit =>
    split
    · rfl
    · next hw =>
      rcases h2 with h2 | h2 | h2
      · exact absurd h2 hfit
      · exact absurd h2 hw
      · exact h2

/-- **C20, text tokens (exact form).** A printable character whose written column is not a
    continuation cell gives, under any two buffer kinds, the same state up to the buffer kind and
    the same events. -/
theorem apply_text_off_cont (cw : Nat → Nat) (t : Term) (p q : WidePolicy) (stored : Bytes) (cp : Nat)
    (h : landsOnCont t.scr (cw cp) = false) :
    Term.apply cw (t.withPol p) (.text stored cp) =
      ((Term.apply cw (t.withPol q) (.text stored cp)).1.withPol p,
        (Term.apply cw (t.withPol q) (.text stored cp)).2) := by
  simp only [Term.apply, withPol_scr, withPol_pol, withPol_setScr, withPol_withPol]
  rw [put_policy_irrelevant p q _ _ _ h]

/-- **C20, text tokens.** On a well-formed active screen, if the write does not start on a
    continuation cell (the hypotheses of `TM.C03.put_keep_eq_blank`), the span-buffer terminal
    and the grid-buffer terminal end in observationally equal states and emit the same events. -/
theorem apply_text_clean (cw : Nat → Nat) (t : Term) (stored : Bytes) (cp : Nat)
    (hinv : t.scr.inv = true)
    (h1 : contAt (t.scr.row t.scr.cy) t.scr.cx = false)
    (h2 : t.scr.cx + effW t.scr (cw cp) ≤ t.scr.w ∨ t.scr.wrap = true ∨
      contAt (t.scr.row t.scr.cy) (t.scr.w - effW t.scr (cw cp)) = false) :
    obsEq (Term.apply cw (t.withPol .keep) (.text stored cp)).1
      (Term.apply cw (t.withPol .blank) (.text stored cp)).1 ∧
    (Term.apply cw (t.withPol .keep) (.text stored cp)).2 =
      (Term.apply cw (t.withPol .blank) (.text stored cp)).2 := by
  rw [apply_text_off_cont cw t .keep .blank stored cp (textClean_landsOff ⟨hinv, h1, h2⟩)]
  exact ⟨obsEq_withPol _ _, rfl⟩

/-! ## 4. Resize -/

/-- **C20, resize.** `Resize(w,h)` does not look at the buffer kind: same state, same events. -/
theorem resize_policy_independent (t : Term) (p : WidePolicy) (w h : Nat) :
    (t.withPol p).resize w h = ((t.resize w h).1.withPol p, (t.resize w h).2) := rfl

/-! ## 5. Whole runs -/

/-- what drives a terminal: a token of the input stream, or a `Resize` from the frontend -/
inductive Op
  | tok (k : Tok)
  | resize (w h : Nat)
deriving DecidableEq, Repr

def Op.step (cw : Nat → Nat) (t : Term) : Op → Term × List Ev
  | .tok k => t.apply cw k
  | .resize w h => t.resize w h

/-- final state and the events of every step -/
def runOps (cw : Nat → Nat) : Term → List Op → Term × List (List Ev)
  | t, [] => (t, [])
  | t, op :: ops =>
    let r := Op.step cw t op
    let r' := runOps cw r.1 ops
    (r'.1, r.2 :: r'.2)

/-- **clean step** (the form asked for in the property): non-text tokens and resizes are always
    clean; a printable character is clean at `t` when the active screen is well formed and the
    write does not start on a continuation cell (`TextClean`, the hypotheses of
    `TM.C03.put_keep_eq_blank`). That `Scr.inv` holds in every reachable state is the subject of
    C02 / C03 (`TM.C02.reachable_wf`, `TM.C03.put_blank_inv`, `put_keep_inv`; every width function). -/
def CleanAt (cw : Nat → Nat) (t : Term) : Op → Prop
  | .tok (.text _ cp) => TextClean t.scr (cw cp)
  | _ => True

/-- **clean step, exact form**: the column actually written is not a continuation cell; no
    well-formedness is asked for -/
def OffContAt (cw : Nat → Nat) (t : Term) : Op → Prop
  | .tok (.text _ cp) => landsOnCont t.scr (cw cp) = false
  | _ => True

/-- `P` holds at every step of the run of `ops` from `t`: at the current state for the first
    operation, and along the run from the next state for the rest -/
def AlongRun (P : Term → Op → Prop) (cw : Nat → Nat) : Term → List Op → Prop
  | _, [] => True
  | t, op :: ops => P t op ∧ AlongRun P cw (Op.step cw t op).1 ops

/-- the run never writes a character starting on a continuation cell (and the active screen is
    well formed whenever a character is written) -/
abbrev CleanRun (cw : Nat → Nat) (t : Term) (ops : List Op) : Prop := AlongRun (CleanAt cw) cw t ops

abbrev OffContRun (cw : Nat → Nat) (t : Term) (ops : List Op) : Prop := AlongRun (OffContAt cw) cw t ops

instance (cw : Nat → Nat) (t : Term) : (op : Op) → Decidable (CleanAt cw t op)
  | .tok (.text _ cp) => inferInstanceAs (Decidable (TextClean t.scr (cw cp)))
  | .tok (.ctl _) => isTrue trivial
  | .tok (.esc _ _) => isTrue trivial
  | .tok (.csi _ _ _ _) => isTrue trivial
  | .tok (.osc _ _ _) => isTrue trivial
  | .tok .dcs => isTrue trivial
  | .resize _ _ => isTrue trivial

instance (cw : Nat → Nat) (t : Term) : (op : Op) → Decidable (OffContAt cw t op)
  | .tok (.text _ cp) => inferInstanceAs (Decidable (landsOnCont t.scr (cw cp) = false))
  | .tok (.ctl _) => isTrue trivial
  | .tok (.esc _ _) => isTrue trivial
  | .tok (.csi _ _ _ _) => isTrue trivial
  | .tok (.osc _ _ _) => isTrue trivial
  | .tok .dcs => isTrue trivial
  | .resize _ _ => isTrue trivial

def AlongRun.dec (P : Term → Op → Prop) [∀ t op, Decidable (P t op)] (cw : Nat → Nat) :
    (t : Term) → (ops : List Op) → Decidable (AlongRun P cw t ops)
  | _, [] => isTrue trivial
  | t, op :: ops =>
    have := AlongRun.dec P cw (Op.step cw t op).1 ops
    inferInstanceAs (Decidable (P t op ∧ AlongRun P cw (Op.step cw t op).1 ops))

instance (P : Term → Op → Prop) [∀ t op, Decidable (P t op)] (cw : Nat → Nat) (t : Term)
    (ops : List Op) : Decidable (AlongRun P cw t ops) := AlongRun.dec P cw t ops

namespace Lemmas

theorem cleanAt_offCont {cw : Nat → Nat} {t : Term} {op : Op} (h : CleanAt cw t op) :
    OffContAt cw t op := by
  cases op with
  | resize w h => trivial
  | tok k =>
    cases k with
    | text s cp => exact textClean_landsOff h
    | _ => trivial

theorem alongRun_mono {P Q : Term → Op → Prop} (hPQ : ∀ t op, P t op → Q t op) (cw : Nat → Nat)
    (t : Term) (ops : List Op) (h : AlongRun P cw t ops) : AlongRun Q cw t ops := by
  induction ops generalizing t with
  | nil => trivial
  | cons op ops ih => exact ⟨hPQ _ _ h.1, ih _ h.2⟩

/-- `CleanAt` and `OffContAt` only look at the active screen -/
theorem cleanAt_congr {cw : Nat → Nat} {t₁ t₂ : Term} (h : t₁.scr = t₂.scr) (op : Op) :
    CleanAt cw t₁ op ↔ CleanAt cw t₂ op := by
  cases op with
  | resize w h => exact Iff.rfl
  | tok k => cases k <;> simp only [CleanAt, h]

theorem offContAt_congr {cw : Nat → Nat} {t₁ t₂ : Term} (h : t₁.scr = t₂.scr) (op : Op) :
    OffContAt cw t₁ op ↔ OffContAt cw t₂ op := by
  cases op with
  | resize w h => exact Iff.rfl
  | tok k => cases k <;> simp only [OffContAt, h]

theorem scr_eq_of_obsEq {t₁ t₂ : Term} (h : obsEq t₁ t₂) : t₁.scr = t₂.scr := by
  rw [eq_withPol_of_obsEq h]; rfl

/-- one step from the same state under two buffer kinds -/
theorem step_withPol (cw : Nat → Nat) (t : Term) (p : WidePolicy) (op : Op)
    (h : OffContAt cw t op) :
    Op.step cw (t.withPol p) op = mapPol p (Op.step cw t op) := by
  cases op with
  | resize w h => rfl
  | tok k =>
    cases hk : isText k with
    | false => exact apply_nontext cw t p k hk
    | true =>
      cases k with
      | text s cp =>
        have := apply_text_off_cont cw t p t.pol s cp h
        rw [withPol_self] at this
        exact this
      | _ => cases hk

end Lemmas
open Lemmas

/-- **One step preserves observational equality** and produces the same events, from any two
    observationally equal terminals, whenever the step does not write a character onto a
    continuation cell. -/
theorem step_obsEq (cw : Nat → Nat) {t₁ t₂ : Term} (ht : obsEq t₁ t₂) (op : Op)
    (h : OffContAt cw t₁ op) :
    obsEq (Op.step cw t₁ op).1 (Op.step cw t₂ op).1 ∧ (Op.step cw t₁ op).2 = (Op.step cw t₂ op).2 := by
  have h2 : OffContAt cw t₂ op := (offContAt_congr (scr_eq_of_obsEq ht) op).1 h
  rw [eq_withPol_of_obsEq ht, step_withPol cw t₂ _ op h2]
  exact ⟨obsEq_withPol _ _, rfl⟩

/-- **C20 for runs, exact form, from any two observationally equal terminals.** If along the
    run of the first terminal no character is written onto a continuation cell, then the two
    terminals end in observationally equal states and the event lists of every step coincide. -/
theorem offCont_run_obsEq (cw : Nat → Nat) {t₁ t₂ : Term} (ht : obsEq t₁ t₂) (ops : List Op)
    (h : OffContRun cw t₁ ops) :
    obsEq (runOps cw t₁ ops).1 (runOps cw t₂ ops).1 ∧ (runOps cw t₁ ops).2 = (runOps cw t₂ ops).2 := by
  induction ops generalizing t₁ t₂ with
  | nil => exact ⟨ht, rfl⟩
  | cons op ops ih =>
    obtain ⟨h1, h2⟩ := h
    obtain ⟨e1, e2⟩ := step_obsEq cw ht op h1
    obtain ⟨i1, i2⟩ := ih e1 h2
    simp only [runOps]
    exact ⟨i1, by rw [e2, i2]⟩

/-- being a clean run does not depend on which of two observationally equal terminals is run -/
theorem offContRun_transfer (cw : Nat → Nat) {t₁ t₂ : Term} (ht : obsEq t₁ t₂) (ops : List Op)
    (h : OffContRun cw t₁ ops) : OffContRun cw t₂ ops := by
  induction ops generalizing t₁ t₂ with
  | nil => trivial
  | cons op ops ih =>
    obtain ⟨h1, h2⟩ := h
    exact ⟨(offContAt_congr (scr_eq_of_obsEq ht) op).1 h1, ih (step_obsEq cw ht op h1).1 h2⟩

theorem cleanRun_transfer (cw : Nat → Nat) {t₁ t₂ : Term} (ht : obsEq t₁ t₂) (ops : List Op)
    (h : CleanRun cw t₁ ops) : CleanRun cw t₂ ops := by
  induction ops generalizing t₁ t₂ with
  | nil => trivial
  | cons op ops ih =>
    obtain ⟨h1, h2⟩ := h
    exact ⟨(cleanAt_congr (scr_eq_of_obsEq ht) op).1 h1,
      ih (step_obsEq cw ht op (cleanAt_offCont h1)).1 h2⟩

/-- **C20, main theorem (exact form).** For every width function, every size and every list of
    operations (tokens and resizes) during which the span-buffer terminal never writes a
    character onto a continuation cell, the span-buffer terminal and the grid-buffer terminal
    started from their initial states end in observationally equal states (same cells, same
    attributes, same cursor, same margins, same view and keyboard state) and emit identical
    event lists at every step (same notifications, same replies). -/
theorem offCont_run_equivalent (cw : Nat → Nat) (w h : Nat) (ops : List Op)
    (hc : OffContRun cw (Term.init .keep w h) ops) :
    obsEq (runOps cw (Term.init .keep w h) ops).1 (runOps cw (Term.init .blank w h) ops).1 ∧
    (runOps cw (Term.init .keep w h) ops).2 = (runOps cw (Term.init .blank w h) ops).2 :=
  offCont_run_obsEq cw (t₁ := Term.init .keep w h) (t₂ := Term.init .blank w h)
    ⟨rfl, rfl, rfl, rfl, rfl, rfl, rfl, rfl⟩ ops hc

/-- **C20, main theorem.** The same with the clean-step predicate of the property: along the run
    of the span-buffer terminal every printable character meets a well-formed screen and does
    not start on a continuation cell (`CleanAt`). -/
theorem clean_run_equivalent (cw : Nat → Nat) (w h : Nat) (ops : List Op)
    (hc : CleanRun cw (Term.init .keep w h) ops) :
    obsEq (runOps cw (Term.init .keep w h) ops).1 (runOps cw (Term.init .blank w h) ops).1 ∧
    (runOps cw (Term.init .keep w h) ops).2 = (runOps cw (Term.init .blank w h) ops).2 :=
  offCont_run_equivalent cw w h ops (alongRun_mono (fun _ _ => cleanAt_offCont) cw _ ops hc)

/-- **C20, the display after a clean run, cell by cell.** -/
theorem clean_run_same_display (cw : Nat → Nat) (w h : Nat) (ops : List Op)
    (hc : CleanRun cw (Term.init .keep w h) ops) (x y : Nat) :
    let k := (runOps cw (Term.init .keep w h) ops).1
    let b := (runOps cw (Term.init .blank w h) ops).1
    (k.scr.row y)[x]? = (b.scr.row y)[x]? ∧
    k.scr.cx = b.scr.cx ∧ k.scr.cy = b.scr.cy ∧ k.scr.top = b.scr.top ∧ k.scr.bot = b.scr.bot ∧
    k.scr.w = b.scr.w ∧ k.scr.h = b.scr.h ∧ k.scr.sty = b.scr.sty ∧ k.onAlt = b.onAlt := by
  intro k b
  have o := obsEq_observables (clean_run_equivalent cw w h ops hc).1
  exact ⟨o.1 x y, o.2.2.2.2.2.1, o.2.2.2.2.2.2.1, o.2.2.2.2.2.2.2.2.2.1, o.2.2.2.2.2.2.2.2.2.2.1,
    o.2.2.2.1, o.2.2.2.2.1, o.2.2.2.2.2.2.2.2.2.2.2.2.1, o.2.2.2.2.2.2.2.2.2.2.2.2.2.1⟩

/-! ### the well-formedness hypothesis discharged by an invariant -/

/-- the clean-step predicate without the well-formedness part: only "the write does not start on
    a continuation cell", in the explicit form of `TM.C03.put_keep_eq_blank` -/
def NoContAt (cw : Nat → Nat) (t : Term) : Op → Prop
  | .tok (.text _ cp) =>
    contAt (t.scr.row t.scr.cy) t.scr.cx = false ∧
    (t.scr.cx + effW t.scr (cw cp) ≤ t.scr.w ∨ t.scr.wrap = true ∨
      contAt (t.scr.row t.scr.cy) (t.scr.w - effW t.scr (cw cp)) = false)
  | _ => True

namespace Lemmas

theorem setScr_pol (t : Term) (s : Scr) : (t.setScr s).pol = t.pol := by
  unfold Term.setScr; split <;> rfl

/-- no operation changes the buffer kind -/
theorem step_pol (cw : Nat → Nat) (t : Term) (op : Op) : (Op.step cw t op).1.pol = t.pol := by
  cases op with
  | resize w h => rfl
  | tok k =>
    cases hk : isText k with
    | false =>
      have := apply_nontext cw t t.pol k hk
      rw [withPol_self] at this
      show (Term.apply cw t k).1.pol = t.pol
      rw [this]; rfl
    | true =>
      cases k with
      | text s cp => exact setScr_pol _ _
      | _ => cases hk

end Lemmas
open Lemmas

/-- **C20 for runs, with the invariant supplied from outside.** Let `I` be any state invariant
    of grid-buffer terminals that implies `Scr.inv` of the active screen and is preserved by the
    operations satisfying `V` (for instance `TM.Term.inv` of `Props/C02.lean`, preserved by every
    token — `TM.C02.apply_inv` — and by every resize to a size `≥ 1×1`). Then for runs of
    valid operations the well-formedness part of `CleanAt` is automatic: it is enough that no
    character is written starting on a continuation cell. -/
theorem clean_run_equivalent_of_invariant (cw : Nat → Nat) (I : Term → Prop) (V : Op → Prop)
    (hI : ∀ t, I t → t.scr.inv = true)
    (hstep : ∀ t op, t.pol = .blank → I t → V op → I (Op.step cw t op).1)
    {t₁ t₂ : Term} (ht : obsEq t₁ t₂) (hp : t₂.pol = .blank) (h0 : I t₂) (ops : List Op)
    (hv : ∀ op ∈ ops, V op) (hc : AlongRun (NoContAt cw) cw t₁ ops) :
    CleanRun cw t₁ ops ∧
    obsEq (runOps cw t₁ ops).1 (runOps cw t₂ ops).1 ∧ (runOps cw t₁ ops).2 = (runOps cw t₂ ops).2 := by
  suffices h : CleanRun cw t₁ ops from
    ⟨h, offCont_run_obsEq cw ht ops (alongRun_mono (fun _ _ => cleanAt_offCont) cw _ ops h)⟩
  induction ops generalizing t₁ t₂ with
  | nil => trivial
  | cons op ops ih =>
    obtain ⟨h1, h2⟩ := hc
    have hinv : t₁.scr.inv = true := by rw [scr_eq_of_obsEq ht]; exact hI _ h0
    have hclean : CleanAt cw t₁ op := by
      cases op with
      | resize w h => trivial
      | tok k =>
        cases k with
        | text s cp => exact ⟨hinv, h1.1, h1.2⟩
        | _ => trivial
    refine ⟨hclean, ?_⟩
    exact ih (step_obsEq cw ht op (cleanAt_offCont hclean)).1
      (by rw [step_pol]; exact hp) (hstep _ _ hp h0 (hv _ List.mem_cons_self))
      (fun o ho => hv o (List.mem_cons_of_mem _ ho)) h2

/-! ## 6. The read loop on bytes -/

/-- `P` holds for every token the read loop `runFuel` consumes from `bs`, at the state in which
    it is consumed -/
def AlongBytes (P : Term → Op → Prop) (cw : Nat → Nat) : Nat → Term → Bytes → Prop
  | 0, _, _ => True
  | fuel+1, t, bs =>
    match next bs with
    | .need => True
    | .tok tk n => P t (.tok tk) ∧ AlongBytes P cw fuel (t.apply cw tk).1 (bs.drop n)

/-- the input `bs`, read from state `t`, never writes a character starting on a continuation cell -/
def CleanInput (cw : Nat → Nat) (t : Term) (bs : Bytes) : Prop :=
  AlongBytes (CleanAt cw) cw (bs.length + 1) t bs

def AlongBytes.dec (P : Term → Op → Prop) [∀ t op, Decidable (P t op)] (cw : Nat → Nat) :
    (fuel : Nat) → (t : Term) → (bs : Bytes) → Decidable (AlongBytes P cw fuel t bs)
  | 0, _, _ => isTrue trivial
  | fuel+1, t, bs => by
    unfold AlongBytes
    exact match next bs with
    | .need => isTrue trivial
    | .tok tk n =>
      have := AlongBytes.dec P cw fuel (t.apply cw tk).1 (bs.drop n)
      inferInstanceAs (Decidable (P t (.tok tk) ∧ AlongBytes P cw fuel (t.apply cw tk).1 (bs.drop n)))

instance (cw : Nat → Nat) (t : Term) (bs : Bytes) : Decidable (CleanInput cw t bs) :=
  AlongBytes.dec _ cw _ t bs

namespace Lemmas

theorem alongBytes_mono {P Q : Term → Op → Prop} (hPQ : ∀ t op, P t op → Q t op) (cw : Nat → Nat)
    (fuel : Nat) (t : Term) (bs : Bytes) (h : AlongBytes P cw fuel t bs) : AlongBytes Q cw fuel t bs := by
  induction fuel generalizing t bs with
  | zero => trivial
  | succ fuel ih =>
    unfold AlongBytes at h ⊢
    cases hn : next bs with
    | need => trivial
    | tok tk n =>
      rw [hn] at h
      exact ⟨hPQ _ _ h.1, ih _ _ h.2⟩

theorem runFuel_obsEq (cw : Nat → Nat) (fuel : Nat) {t₁ t₂ : Term} (ht : obsEq t₁ t₂) (bs : Bytes)
    (evs : List Ev) (h : AlongBytes (OffContAt cw) cw fuel t₁ bs) :
    obsEq (runFuel cw fuel t₁ bs evs).1 (runFuel cw fuel t₂ bs evs).1 ∧
    (runFuel cw fuel t₁ bs evs).2 = (runFuel cw fuel t₂ bs evs).2 := by
  induction fuel generalizing t₁ t₂ bs evs with
  | zero => exact ⟨ht, rfl⟩
  | succ fuel ih =>
    unfold AlongBytes at h
    unfold runFuel
    cases hn : next bs with
    | need => exact ⟨ht, rfl⟩
    | tok tk n =>
      rw [hn] at h
      obtain ⟨h1, h2⟩ := h
      obtain ⟨e1, e2⟩ := step_obsEq cw ht (.tok tk) h1
      have e2' : (Term.apply cw t₁ tk).2 = (Term.apply cw t₂ tk).2 := e2
      simp only [e2']
      exact ih e1 _ _ h2

end Lemmas
open Lemmas

/-- **C20 on byte streams.** The read loop `run` (tokeniser and terminal) on the same bytes from
    two observationally equal terminals: if no character is written starting on a continuation
    cell, the final states are observationally equal, the events are identical and the same bytes
    stay unconsumed. -/
theorem run_equivalent (cw : Nat → Nat) {t₁ t₂ : Term} (ht : obsEq t₁ t₂) (bs : Bytes)
    (h : CleanInput cw t₁ bs) :
    obsEq (run cw t₁ bs).1 (run cw t₂ bs).1 ∧ (run cw t₁ bs).2.1 = (run cw t₂ bs).2.1 ∧
    (run cw t₁ bs).2.2 = (run cw t₂ bs).2.2 := by
  have := runFuel_obsEq cw (bs.length + 1) ht bs []
    (alongBytes_mono (fun _ _ => cleanAt_offCont) cw _ _ _ h)
  unfold run
  exact ⟨this.1, by rw [this.2], by rw [this.2]⟩

/-- the same for the arrival of one chunk at the reader (`Sys.feed`), which may complete a
    sequence whose beginning is still pending -/
theorem feed_equivalent (cw : Nat → Nat) (s₁ s₂ : Sys) (ht : obsEq s₁.t s₂.t)
    (hp : s₁.pending = s₂.pending) (chunk : Bytes)
    (h : CleanInput cw s₁.t (s₁.pending ++ chunk)) :
    obsEq (s₁.feed cw chunk).1.t (s₂.feed cw chunk).1.t ∧
    (s₁.feed cw chunk).1.pending = (s₂.feed cw chunk).1.pending ∧
    (s₁.feed cw chunk).2 = (s₂.feed cw chunk).2 := by
  have := run_equivalent cw ht (s₁.pending ++ chunk) h
  unfold Sys.feed
  rw [← hp]
  exact ⟨this.1, this.2.2, this.2.1⟩

/-! ## 7. The sanctioned difference, and nothing else -/

/-- **Only a write onto a continuation cell can tell the buffer kinds apart.** If one operation
    applied to two observationally equal terminals gives states that are not observationally
    equal, or different events, then the operation is a printable character and the column where
    it is written is a continuation cell. -/
theorem sanctioned_only (cw : Nat → Nat) {t₁ t₂ : Term} (ht : obsEq t₁ t₂) (op : Op)
    (hdiff : ¬ (obsEq (Op.step cw t₁ op).1 (Op.step cw t₂ op).1 ∧
      (Op.step cw t₁ op).2 = (Op.step cw t₂ op).2)) :
    ∃ stored cp, op = .tok (.text stored cp) ∧ landsOnCont t₁.scr (cw cp) = true := by
  have key : ¬ OffContAt cw t₁ op := fun h => hdiff (step_obsEq cw ht op h)
  cases op with
  | resize w h => exact absurd trivial key
  | tok k =>
    cases k with
    | text s cp =>
      refine ⟨s, cp, rfl, ?_⟩
      cases hl : landsOnCont t₁.scr (cw cp) with
      | true => rfl
      | false => exact absurd hl key
    | _ => exact absurd trivial key

/-- the same for one token on the span-buffer and the grid-buffer version of one state, with the
    written column spelled out on a well-formed screen: the character fits and the cursor is on
    a continuation cell, or it is pulled back from the right edge (autowrap off) onto one -/
theorem sanctioned_only_inv (cw : Nat → Nat) (t : Term) (tok : Tok) (hinv : t.scr.inv = true)
    (hdiff : ¬ (obsEq (Term.apply cw (t.withPol .keep) tok).1 (Term.apply cw (t.withPol .blank) tok).1 ∧
      (Term.apply cw (t.withPol .keep) tok).2 = (Term.apply cw (t.withPol .blank) tok).2)) :
    ∃ stored cp, tok = .text stored cp ∧
      ((t.scr.cx + effW t.scr (cw cp) ≤ t.scr.w ∧ contAt (t.scr.row t.scr.cy) t.scr.cx = true) ∨
       (t.scr.w < t.scr.cx + effW t.scr (cw cp) ∧ t.scr.wrap = false ∧
        contAt (t.scr.row t.scr.cy) (t.scr.w - effW t.scr (cw cp)) = true)) := by
  have ht : obsEq (t.withPol .keep) (t.withPol .blank) :=
    obsEq_trans (obsEq_withPol _ _) (obsEq_symm (obsEq_withPol _ _))
  obtain ⟨s, cp, hop, hl⟩ := sanctioned_only cw ht (.tok tok) hdiff
  refine ⟨s, cp, by injection hop, ?_⟩
  rw [withPol_scr, landsOnCont_eq _ _ hinv] at hl
  split at hl
  · next hfit => exact Or.inl ⟨hfit, hl⟩
  · next hfit =>
    split at hl
    · cases hl
    · next hw => exact Or.inr ⟨by omega, by simpa using hw, hl⟩

/-! ## Examples: the sanctioned difference is real; the hypotheses are satisfiable -/

section Examples

abbrev exD : Style := Style.default
/-- a double-width character -/
abbrev exZi : Bytes := [0xE5, 0xAD, 0x97]
/-- a width function: East Asian wide from U+1100 on -/
def exCw (cp : Nat) : Nat := if cp ≥ 0x1100 then 2 else 1

/-- a 3×1 terminal whose row is `字`(2 cells) `a`, cursor on the second half of `字` -/
def exTerm : Term :=
  { Term.init .keep 3 1 with
    main := { Scr.init 3 1 with
      grid := [[⟨.ch exZi 2, exD⟩, ⟨.cont, exD⟩, ⟨.ch [0x61] 1, exD⟩]], cx := 1 } }

/-- **The sanctioned difference.** Writing `x` with the cursor on the second half of a
    double-width character: the span buffer keeps the character and stores `x` after it, the grid
    buffer blanks the character and stores `x` at the cursor. -/
theorem sanctioned_difference :
    exTerm.scr.inv = true ∧ landsOnCont exTerm.scr (exCw 0x78) = true ∧
    (Term.apply exCw (exTerm.withPol .keep) (.text [0x78] 0x78)).1.scr.row 0 =
      [⟨.ch exZi 2, exD⟩, ⟨.cont, exD⟩, ⟨.ch [0x78] 1, exD⟩] ∧
    (Term.apply exCw (exTerm.withPol .blank) (.text [0x78] 0x78)).1.scr.row 0 =
      [blank exD, ⟨.ch [0x78] 1, exD⟩, ⟨.ch [0x61] 1, exD⟩] := by
  decide

/-- `字`, `CSI 2 G` (cursor to column 2, the second half), `x` -/
def exDirtyOps : List Op :=
  [.tok (.text exZi 0x5B57), .tok (.csi 0 [2] true 0x47), .tok (.text [0x78] 0x78)]

/-- the same from the initial states, driven by the same three operations; the first two steps
    are clean, the third is not -/
theorem sanctioned_difference_run :
    (runOps exCw (Term.init .keep 3 1) exDirtyOps).1.scr.row 0 =
      [⟨.ch exZi 2, exD⟩, ⟨.cont, exD⟩, ⟨.ch [0x78] 1, exD⟩] ∧
    (runOps exCw (Term.init .blank 3 1) exDirtyOps).1.scr.row 0 =
      [blank exD, ⟨.ch [0x78] 1, exD⟩, blank exD] ∧
    CleanRun exCw (Term.init .keep 3 1) (exDirtyOps.take 2) ∧
    ¬ CleanRun exCw (Term.init .keep 3 1) exDirtyOps := by
  decide

/-- a clean script on a 4×2 screen: `a`, `字`, autowrap on, `字` (wraps to the next row), `CUP`,
    `b`, `c` (on the first half of `字`: allowed, blanks it under both kinds), `CUP 2;1`, `EL`,
    `IND` (scrolls), `Resize(6,3)`, `字`, `SGR 1` -/
def exCleanOps : List Op :=
  [.tok (.text [0x61] 0x61), .tok (.text exZi 0x5B57), .tok (.csi 0x3f [7] true 0x68),
   .tok (.text exZi 0x5B57), .tok (.csi 0 [] true 0x48), .tok (.text [0x62] 0x62),
   .tok (.text [0x63] 0x63), .tok (.csi 0 [2, 1] true 0x48), .tok (.csi 0 [] true 0x4b),
   .tok (.esc [] 0x44), .resize 6 3, .tok (.text exZi 0x5B57), .tok (.csi 0 [1] true 0x6d)]

-- hypothesis of `clean_run_equivalent` / `clean_run_same_display`
example : CleanRun exCw (Term.init .keep 4 2) exCleanOps := by decide
-- and the script really leaves wide characters on the screen
example : (runOps exCw (Term.init .keep 4 2) (exCleanOps.take 4)).1.scr.grid =
    [[⟨.ch [0x61] 1, exD⟩, ⟨.ch exZi 2, exD⟩, ⟨.cont, exD⟩, blank exD],
     [⟨.ch exZi 2, exD⟩, ⟨.cont, exD⟩, blank exD, blank exD]] := by decide

-- hypothesis of `run_equivalent`: the bytes `a 字 ESC[?7h 字 ESC[H b ESC[K` and an incomplete `ESC[`
def exBytes : Bytes :=
  [0x61, 0xE5, 0xAD, 0x97, 0x1b, 0x5b, 0x3f, 0x37, 0x68, 0xE5, 0xAD, 0x97, 0x1b, 0x5b, 0x48, 0x62,
   0x1b, 0x5b, 0x4b, 0x1b, 0x5b]
example : CleanInput exCw (Term.init .keep 4 2) exBytes := by decide
set_option maxRecDepth 20000 in
example : (run exCw (Term.init .keep 4 2) exBytes).1.scr.grid =
    [[⟨.ch [0x62] 1, exD⟩, blank exD, blank exD, blank exD],
     [⟨.ch exZi 2, exD⟩, ⟨.cont, exD⟩, blank exD, blank exD]] ∧
    (run exCw (Term.init .keep 4 2) exBytes).2.2 = [0x1b, 0x5b] := by decide

-- hypotheses of `apply_text_clean` on a screen holding a wide character (cursor after it)
example : let t : Term := { exTerm with main := { exTerm.main with cx := 2 } }
    t.scr.inv = true ∧ contAt (t.scr.row t.scr.cy) t.scr.cx = false ∧
    t.scr.cx + effW t.scr (exCw 0x78) ≤ t.scr.w := by decide

-- `OffContAt` is weaker than `CleanAt`: cursor on the second half of `字` in the last column,
-- autowrap off, a wide character is pulled back onto the *first* half
example : let t : Term := { Term.init .keep 2 1 with
      main := { Scr.init 2 1 with grid := [[⟨.ch exZi 2, exD⟩, ⟨.cont, exD⟩]], cx := 1 } }
    t.scr.inv = true ∧ ¬ CleanAt exCw t (.tok (.text exZi 0x5B57)) ∧
    OffContAt exCw t (.tok (.text exZi 0x5B57)) := by decide

-- hypothesis of `sanctioned_only` is satisfiable: `sanctioned_difference` gives different rows
example : ¬ obsEq (Term.apply exCw (exTerm.withPol .keep) (.text [0x78] 0x78)).1
    (Term.apply exCw (exTerm.withPol .blank) (.text [0x78] 0x78)).1 := by
  intro h
  have := (obsEq_observables h).1 0 0
  revert this
  decide

end Examples

end TM.C20

#print axioms TM.C20.obsEq_observables
#print axioms TM.C20.apply_nontext
#print axioms TM.C20.apply_nontext_obsEq
#print axioms TM.C20.put_policy_irrelevant
#print axioms TM.C20.landsOnCont_eq
#print axioms TM.C20.textClean_landsOff
#print axioms TM.C20.apply_text_off_cont
#print axioms TM.C20.apply_text_clean
#print axioms TM.C20.resize_policy_independent
#print axioms TM.C20.step_obsEq
#print axioms TM.C20.offCont_run_obsEq
#print axioms TM.C20.offContRun_transfer
#print axioms TM.C20.cleanRun_transfer
#print axioms TM.C20.offCont_run_equivalent
#print axioms TM.C20.clean_run_equivalent
#print axioms TM.C20.clean_run_same_display
#print axioms TM.C20.clean_run_equivalent_of_invariant
#print axioms TM.C20.run_equivalent
#print axioms TM.C20.feed_equivalent
#print axioms TM.C20.sanctioned_only
#print axioms TM.C20.sanctioned_only_inv
#print axioms TM.C20.sanctioned_difference
#print axioms TM.C20.sanctioned_difference_run
